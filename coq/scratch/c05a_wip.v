From Dnp3V Require Import Outstation.Session Outstation.SessionLemmas_c05 Outstation.SessionC05Proofs.
Open Scope N_scope.

Lemma classify_repeat_read_iff s bytes ctl fn obj resp hdrs rh :
  classify s None bytes ctl fn obj = FtRepeatRead resp hdrs rh <->
  fn = fn_read /\ obj = ObjOk hdrs rh /\
  exists l, s_last s = Some l /\ lr_seq l = ctl_seq ctl /\ lr_bytes l = bytes /\ resp = lr_response l.
Proof.
  unfold classify. split.
  - destruct (fn =? fn_confirm) eqn:E0; [destruct (ctl_uns ctl); discriminate|].
    destruct obj as [iin2|hdrs0 rh0]; [discriminate|].
    destruct (s_last s) as [l|]; [|destruct (fn =? fn_read); discriminate].
    destruct ((lr_seq l =? ctl_seq ctl) && bytes_eqb (lr_bytes l) bytes) eqn:Er;
      [|destruct (fn =? fn_read); discriminate].
    destruct (fn =? fn_read) eqn:E1; [|discriminate]. intros H. inversion H; subst.
    apply andb_true_iff in Er as [Er1 Er2]. apply N.eqb_eq in Er1. apply bytes_eqb_eq in Er2.
    apply N.eqb_eq in E1. splits; eauto 10.
  - intros [-> [-> [l [Hl [Hs [Hb ->]]]]]]. cbn [N.eqb fn_read fn_confirm Pos.eqb].
    rewrite Hl, Hs, N.eqb_refl. cbn [andb].
    destruct (bytes_eqb (lr_bytes l) bytes) eqn:E; [reflexivity|].
    exfalso. assert (X : bytes_eqb (lr_bytes l) bytes = true) by (apply bytes_eqb_eq; exact Hb). congruence.
Qed.

Lemma on_rx_sol_stay cfg s from bc bytes d se deadline r dl' o :
  s_control s = CSolWait se deadline r ->
  sol_wait_fragment cfg (rx_state s) se deadline from bc bytes d = (SoStay dl', o) ->
  on_rx cfg s from bc bytes d = (upd_control (rx_state s) (CSolWait se dl' r), o).
Proof.
  intros Hc Hw. unfold on_rx. cbv zeta. fold (next_fid s). fold (rx_state s).
  replace (s_control (rx_state s)) with (s_control s) by reflexivity. rewrite Hc, Hw. reflexivity.
Qed.

(* THEOREM 3b.  A READ repeated while a fragment of its response awaits confirmation is answered, in
   the wait, with exactly one fragment: the remembered one, which is the fragment awaiting
   confirmation and is already in the history.  The wait goes on (with a fresh deadline). *)
Theorem repeat_read_echo_identical cfg h s from bytes d ans ctl fn obj resp hdrs rh se dl rs s' o :
  Reach cfg h s ->
  s_control s = CSolWait se dl rs ->
  to_treq cfg from d = TqRequest ctl fn obj ->
  classify s None bytes ctl fn obj = FtRepeatRead resp hdrs rh ->
  ostep cfg s (ERx from None bytes d) ans = (s', o) ->
  exists r post,
    resp = Some r /\ ctl_seq (r_ctl r) = se_ecsn se mod 16 /\
    o = OTx from (response_bytes r (s_sol_buf s)) :: post /\ forallb bg post = true /\
    exists dest, In (OTx dest (response_bytes r (s_sol_buf s))) h /\ (o_any_master cfg = false -> dest = from).
Proof.
  intros HR Hc Et Ecl H.
  destruct (sol_wait_remembers_awaited_fragment _ _ _ _ _ _ HR Hc) as [l [r [Hl [Hr [Hq [dest [Hin Hd]]]]]]].
  pose proof Ecl as Ecl'.
  apply classify_repeat_read_iff in Ecl' as [_ [_ [l' [Hl' [_ [_ Hresp]]]]]].
  assert (l' = l) by congruence. subst l'. rewrite Hr in Hresp. subst resp.
  apply reach_inv in HR.
  unfold ostep in H.
  assert (Hinv0 : inv cfg h (upd_answers s ans)) by (apply inv_same with (s := s); [frame_tac | exact HR]).
  destruct (on_rx cfg (upd_answers s ans) from None bytes d) as [s1 o1] eqn:E1.
  destruct (advance 64 cfg s1 (s_now s1 + settle_ms)) as [s2 o2] eqn:E2. inv_pair H.
  pose proof (on_rx_pres _ _ _ _ _ _ _ _ _ E1 Hinv0) as [_ [Hp1 _]].
  apply advance_bg in E2 as [_ S2]; [|exact Hp1].
  rewrite (on_rx_sol_stay cfg (upd_answers s ans) from None bytes d se dl rs
             (confirm_deadline cfg (rx_state (upd_answers s ans)))
             [OTx from (response_bytes r (s_sol_buf s))]) in E1; [| exact Hc |].
  - inv_pair E1. exists r, o2. splits; auto.
    exists dest. split; [exact Hin|]. intros Ha. rewrite (Hd Ha). symmetry. eapply to_treq_from; eauto.
  - unfold sol_wait_fragment. rewrite Et.
    rewrite (classify_last s (rx_state (upd_answers s ans))) by reflexivity. rewrite Ecl. reflexivity.
Qed.

(* THEOREM 3c.  Every place where the session re-sends a fragment uses repeat_solicited with the
   remembered response, or repeat_unsolicited with the response of the current unsolicited wait: in a
   reachable state both render a fragment transmitted before. *)
Theorem resend_is_earlier_fragment cfg h s :
  Reach cfg h s ->
  (forall l r from, s_last s = Some l -> lr_response l = Some r ->
     exists b, repeat_solicited s from r = [OTx from b] /\
               exists dest, In (OTx dest b) h /\ (o_any_master cfg = false -> dest = o_master cfg)) /\
  (forall resp n rt dl, s_control s = CUnsolWait resp n rt dl ->
     exists b, repeat_unsolicited cfg s resp = [OTx (o_master cfg) b] /\ In (OTx (o_master cfg) b) h).
Proof.
  intros HR. split.
  - intros l r from Hl Hr. eexists. split; [reflexivity|]. eapply last_response_coherent; eauto.
  - intros resp n rt dl Hc. apply reach_inv in HR. destruct HR as [[_ [B _]] _].
    destruct (B _ _ _ _ Hc) as [[h1 [h2 [-> _]]] _]. eexists. split; [reflexivity|].
    apply in_or_app. right. left. reflexivity.
Qed.

(* ---------- 4. unsolicited retries ------------------------------------------------------------------------------------------------- *)

(* THEOREM 4a.  In an unsolicited confirm wait the response kept for retries, rendered over the
   unsolicited buffer as it is now, is the fragment that opened this wait: it was transmitted to the
   master immediately before the last IEnterUnsolWait of the history. *)
Theorem unsol_wait_coherent cfg h s resp n rt dl :
  Reach cfg h s -> s_control s = CUnsolWait resp n rt dl ->
  opened_by h (o_master cfg) (response_bytes resp (s_unsol_buf s)) (ctl_seq (r_ctl resp)) /\
  r_fn resp = fn_unsol_response.
Proof. intros HR Hc. apply reach_inv in HR. destruct HR as [[_ [B _]] _]. exact (B _ _ _ _ Hc). Qed.

(* THEOREM 4b.  When the confirm timeout of an unsolicited response fires and a retry is due (retries
   left, no READ deferred), exactly the fragment that opened the wait is transmitted again, and the
   wait continues with the same response over the same buffer. *)
Lemma unsol_retry_identical_inv cfg h s resp n rt dl s1 o1 :
  inv cfg h s -> s_control s = CUnsolWait resp n rt dl ->
  rt <> Some 0%nat -> s_deferred s = None ->
  fire_deadline cfg s = (s1, o1) ->
  let Y := response_bytes resp (s_unsol_buf s) in
  o1 = [OInfo (IUnsolTimeout (ctl_seq (r_ctl resp)) true); OTx (o_master cfg) Y] /\
  opened_by h (o_master cfg) Y (ctl_seq (r_ctl resp)) /\
  s_unsol_buf s1 = s_unsol_buf s /\
  exists rt' dl', s_control s1 = CUnsolWait resp n rt' dl'.
Proof.
  intros Hinv Hc Hrt Hd H Y. unfold fire_deadline in H. rewrite Hc, Hd in H.
  assert (Hcan : match rt with None => true | Some 0%nat => false | Some (S _) => true end = true).
  { destruct rt as [[|k]|]; auto. }
  rewrite Hcan in H. cbn [andb] in H. inv_pair H.
  destruct Hinv as [[_ [B _]] _]. destruct (B _ _ _ _ Hc) as [B1 _].
  splits; auto. psimpl. eauto.
Qed.

Theorem unsol_retry_identical cfg h s resp n rt dl t s1 o1 :
  Reach cfg h s -> s_control s = CUnsolWait resp n rt dl ->
  rt <> Some 0%nat -> s_deferred s = None ->
  fire_deadline cfg (upd_now s t) = (s1, o1) ->
  let Y := response_bytes resp (s_unsol_buf s) in
  o1 = [OInfo (IUnsolTimeout (ctl_seq (r_ctl resp)) true); OTx (o_master cfg) Y] /\
  opened_by h (o_master cfg) Y (ctl_seq (r_ctl resp)) /\
  s_unsol_buf s1 = s_unsol_buf s /\
  exists rt' dl', s_control s1 = CUnsolWait resp n rt' dl'.
Proof.
  intros HR Hc Hrt Hd H. apply reach_inv in HR.
  apply (unsol_retry_identical_inv cfg h (upd_now s t) resp n rt dl s1 o1); try assumption.
  all: try (apply inv_upd_now; exact HR).
Qed.
