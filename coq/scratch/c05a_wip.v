From Dnp3V Require Import Outstation.Session Outstation.SessionLemmas_c05 Outstation.SessionC05Proofs.
Open Scope N_scope.

(* ---------- 1. a repeated non-READ request is not executed again ------------------------------------------------------------- *)

Lemma sol_wait_fragment_repeat cfg s se dl from bytes d ctl fn obj resp :
  to_treq cfg from d = TqRequest ctl fn obj ->
  classify s None bytes ctl fn obj = FtRepeatNonRead resp ->
  sol_wait_fragment cfg s se dl from None bytes d = (SoNewRequest, [OInfo ISolNewRequest]).
Proof. intros Et Ecl. unfold sol_wait_fragment. rewrite Et, Ecl. reflexivity. Qed.

(* the observations of the step that receives the repeat, by the control state it arrives in *)
Definition repeat_prefix (c : control) (fn seq : N) (pre : list oobs) : Prop :=
  match c with
  | CIdle => pre = [OInfo (IIdleRequest fn seq)]
  | CUnsolWait _ _ _ _ => pre = []
  | CSolWait _ _ _ =>
      exists u i, pre = [OInfo ISolNewRequest; ODb DbReset] ++ u ++ i /\ forallb ustart u = true /\
                  (i = [] \/ i = [OInfo (IIdleRequest fn seq)])
  end.

Lemma repeat_step_inv cfg h s from bytes d ans ctl fn obj resp s' o :
  inv cfg h s ->
  to_treq cfg from d = TqRequest ctl fn obj ->
  classify s None bytes ctl fn obj = FtRepeatNonRead resp ->
  ostep cfg s (ERx from None bytes d) ans = (s', o) ->
  exists pre post,
    o = pre ++ echo_of s from resp ++ post /\ forallb bg post = true /\
    repeat_prefix (s_control s) fn (ctl_seq ctl) pre.
Proof.
  intros Hinv Et Ecl H. unfold ostep in H.
  assert (Hinv0 : inv cfg h (upd_answers s ans)) by (apply inv_same with (s := s); [frame_tac | exact Hinv]).
  destruct (on_rx cfg (upd_answers s ans) from None bytes d) as [s1 o1] eqn:E1.
  destruct (advance 64 cfg s1 (s_now s1 + settle_ms)) as [s2 o2] eqn:E2. inv_pair H.
  pose proof (on_rx_pres _ _ _ _ _ _ _ _ _ E1 Hinv0) as [_ [Hp1 _]].
  apply advance_bg in E2 as [_ S2]; auto.
  unfold on_rx in E1. cbv zeta in E1.
  set (fid := (s_frame_id (upd_answers s ans) + 1) mod 4294967296) in *.
  set (sA := upd_frame_id (upd_answers s ans) fid) in *.
  assert (HlA : s_last sA = s_last s) by reflexivity.
  assert (HbA : s_sol_buf sA = s_sol_buf s) by reflexivity.
  assert (HcA : s_control sA = s_control s) by reflexivity.
  assert (HdA : s_deferred sA = s_deferred s) by reflexivity.
  clearbody sA. rewrite HcA in E1.
  destruct (s_control s) as [|se dl r|resp0 is_null retries dl] eqn:Ec; cbn [repeat_prefix].
  - rewrite idle_loop_8_eq in E1. unfold resume_at in E1. change 32%nat with (S 31) in E1.
    eapply idle_run_repeat_St1 with (ctl := ctl) (fn := fn) (obj := obj) (resp := resp) in E1
      as [_ [post [-> B]]]; [| reflexivity | exact Et | rewrite <- Ecl; apply classify_last; exact HlA].
    rewrite (echo_of_buf s) by exact HbA.
    exists [OInfo (IIdleRequest fn (ctl_seq ctl))], (post ++ o2).
    split; [rewrite <- !app_assoc; reflexivity|]. split; [fb | reflexivity].
  - rewrite (sol_wait_fragment_repeat cfg sA se dl from bytes d ctl fn obj resp) in E1;
      [| exact Et | rewrite <- Ecl; apply classify_last; exact HlA].
    match type of E1 with context [resume_at cfg ?st ?sx] => destruct (resume_at cfg st sx) as [s3 o3] eqn:E3 end.
    inv_pair E1. unfold resume_at in E3. change 32%nat with (S (S (S (S (S 27))))) in E3.
    eapply idle_run_repeat with (ctl := ctl) (fn := fn) (obj := obj) (resp := resp) in E3
      as [_ [u [i [post [-> [Su [Hi B]]]]]]];
      [| destruct r; cbn [stage_of]; eauto | reflexivity | reflexivity | | exact Et
       | rewrite <- Ecl; apply classify_last; exact HlA].
    + rewrite (echo_of_buf s) by exact HbA.
      exists ([OInfo ISolNewRequest; ODb DbReset] ++ u ++ i), (post ++ o2).
      split; [cbn [app]; rewrite <- !app_assoc; reflexivity|]. split; [fb|].
      exists u, i. auto.
    + psimpl. rewrite HdA. destruct Hinv as [_ Hr]. apply rest_ok_deferred_none; [exact Hr|].
      intros ? ? ? ? X. rewrite Ec in X. discriminate.
  - rewrite (unsol_wait_fragment_repeat cfg sA resp0 from bytes d fid ctl fn obj resp) in E1;
      [| exact Et | rewrite <- Ecl; apply classify_last; exact HlA].
    inv_pair E1. rewrite (echo_of_buf s) by exact HbA.
    exists [], o2. auto.
Qed.
