From Dnp3V Require Import Outstation.Session Outstation.SessionLemmas_c05 Outstation.SessionC05Proofs.
Open Scope N_scope.
Definition cfg0 : ocfg := {| o_master := 1; o_any_master := false; o_unsol := false; o_broadcast := true;
  o_confirm_ms := 5000; o_select_ms := 5000; o_retries := None; o_retry_delay_ms := 0; o_max_controls := None;
  o_sol_tx := 2048; o_delay_ms := 0; o_cold := None; o_warm := None; o_wtime := 0; o_freeze := 0 |}.
Definition cfgu : ocfg := {| o_master := 1; o_any_master := false; o_unsol := true; o_broadcast := true;
  o_confirm_ms := 5000; o_select_ms := 5000; o_retries := Some 2%nat; o_retry_delay_ms := 0; o_max_controls := None;
  o_sol_tx := 2048; o_delay_ms := 0; o_cold := None; o_warm := None; o_wtime := 0; o_freeze := 0 |}.
Definition noev := AEvinfo false false false false.
Definition wr_bytes : list N := [195; 2; 80; 1; 0; 7; 7; 0].
Definition wr_dig := DOk 195 2 RvOk (ObjOk [WIin [(7, false)]] [true]).
Definition wr := ERx 1 None wr_bytes wr_dig.
Eval vm_compute in (let '(s, h) := run_from_start cfg0 0 0 0 [] [(wr, [noev]); (EDbChange, [])] in
   (h, classify s None wr_bytes 195 2 (ObjOk [WIin [(7, false)]] [true]), snd (ostep cfg0 s wr [AEvinfo true false false false]))).
Definition rd_bytes : list N := [197; 1; 60; 1; 6].
Definition rd_obj := ObjOk [WOther] [true].
Definition rd := ERx 1 None rd_bytes (DOk 197 1 RvOk rd_obj).
Definition cf (seq : N) := ERx 1 None [192 + seq; 0] (DOk (192 + seq) 0 RvOk (ObjOk [] [])).
Eval vm_compute in (let '(s, h) := run_from_start cfg0 0 0 0 [] [(rd, [AIin2 0; AWrite false false [1;2;3]; noev]); (cf 5, [AWrite true true [9;9]; noev])] in
   (h, s_control s, classify s None rd_bytes 197 1 rd_obj, snd (ostep cfg0 s rd []))).
Definition ucf (seq : N) := ERx 1 None [208 + seq; 0] (DOk (208 + seq) 0 RvOk (ObjOk [] [])).
Definition en_bytes : list N := [193; 20; 60; 2; 6].
Definition en := ERx 1 None en_bytes (DOk 193 20 RvOk (ObjOk [WCls 1] [true])).
Eval vm_compute in (let '(s, h) := run_from_start cfgu 0 0 0 [noev] [(ucf 0, []); (en, [noev; AUnsol 1 [2;2;40;1;0;0;0;129]; AEvinfo true false false false])] in
   (h, s_control s, snd (ostep cfgu s (ESleep 5000) []))).
