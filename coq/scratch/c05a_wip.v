From Dnp3V Require Import Outstation.Session Outstation.SessionLemmas_c05.
Open Scope N_scope.

(* ---------- the C05 invariants ------------------------------------------------------------------------------- *)

(* a fragment with these bytes has been transmitted; when only the configured master is listened to,
   it went to that master *)
Definition tx_known (cfg : ocfg) (h : list oobs) (b : list N) : Prop :=
  exists dest, In (OTx dest b) h /\ (o_any_master cfg = false -> dest = o_master cfg).

(* the remembered response, rendered over the solicited buffer as it is now, is a fragment sent before *)
Definition sol_coh (cfg : ocfg) (h : list oobs) (s : ostate) : Prop :=
  forall l r, s_last s = Some l -> lr_response l = Some r ->
    tx_known cfg h (response_bytes r (s_sol_buf s)).

(* fragment b went out to dest and opened the unsolicited confirm wait that is still the last one *)
Definition opened_by (h : list oobs) (dest : N) (b : list N) (q : N) : Prop :=
  exists h1 h2, h = h1 ++ OTx dest b :: OInfo (IEnterUnsolWait q) :: h2 /\
                forallb not_enter_unsol h2 = true.

Definition unsol_coh (cfg : ocfg) (h : list oobs) (s : ostate) : Prop :=
  forall resp n rt dl, s_control s = CUnsolWait resp n rt dl ->
    opened_by h (o_master cfg) (response_bytes resp (s_unsol_buf s)) (ctl_seq (r_ctl resp)) /\
    r_fn resp = fn_unsol_response.

(* in a solicited confirm wait the remembered response is the fragment whose confirmation is awaited *)
Definition wait_coh (s : ostate) : Prop :=
  forall se dl rs, s_control s = CSolWait se dl rs ->
    exists l r, s_last s = Some l /\ lr_response l = Some r /\ ctl_seq (r_ctl r) = se_ecsn se mod 16.

Lemma tx_known_app_l cfg h o b : tx_known cfg h b -> tx_known cfg (h ++ o) b.
Proof. intros [d [H1 H2]]. exists d. split; [apply in_or_app; auto | exact H2]. Qed.

Lemma tx_known_app_r cfg h o b : tx_known cfg o b -> tx_known cfg (h ++ o) b.
Proof. intros [d [H1 H2]]. exists d. split; [apply in_or_app; auto | exact H2]. Qed.

Lemma sol_coh_frame cfg h s s1 o :
  s_last s1 = s_last s -> s_sol_buf s1 = s_sol_buf s -> sol_coh cfg h s -> sol_coh cfg (h ++ o) s1.
Proof.
  intros E1 E2 H l r Hl Hr. rewrite E2. apply tx_known_app_l. rewrite E1 in Hl. eauto.
Qed.

Lemma opened_by_app h o dest b q :
  forallb not_enter_unsol o = true -> opened_by h dest b q -> opened_by (h ++ o) dest b q.
Proof.
  intros Ho [h1 [h2 [-> H2]]]. exists h1, (h2 ++ o). split.
  - rewrite <- app_assoc. reflexivity.
  - rewrite forallb_app, H2, Ho. reflexivity.
Qed.

Lemma unsol_coh_frame cfg h s s1 o :
  s_control s1 = s_control s -> s_unsol_buf s1 = s_unsol_buf s -> forallb not_enter_unsol o = true ->
  unsol_coh cfg h s -> unsol_coh cfg (h ++ o) s1.
Proof.
  intros E1 E2 Ho H resp n rt dl Hc. rewrite E1 in Hc. destruct (H _ _ _ _ Hc) as [H1 H2].
  split; [|exact H2]. rewrite E2. apply opened_by_app; assumption.
Qed.

Lemma unsol_coh_vacuous cfg h s :
  (forall resp n rt dl, s_control s <> CUnsolWait resp n rt dl) -> unsol_coh cfg h s.
Proof. intros H resp n rt dl Hc. destruct (H _ _ _ _ Hc). Qed.

Lemma wait_coh_frame s s1 :
  s_control s1 = s_control s -> s_last s1 = s_last s -> wait_coh s -> wait_coh s1.
Proof. intros E1 E2 H se dl rs Hc. rewrite E1 in Hc. rewrite E2. eauto. Qed.

(* the source remembered with a deferred READ is a master the session listens to *)
Definition def_ok (cfg : ocfg) (s : ostate) : Prop :=
  forall d, s_deferred s = Some d -> o_any_master cfg = false -> df_from d = o_master cfg.

(* ---------- handle_one_request_from_idle ----------------------------------------------------------------------- *)

Definition confirm_series (se : option series) (r : response) : option series :=
  match se with
  | None => if ctl_con (r_ctl r) then Some {| se_ecsn := ctl_seq (r_ctl r); se_fin := true |} else None
  | x => x
  end.

Definition finish_fn (cfg : ocfg) (from seq : N) (bytes : list N) (o0 : list oobs)
           (s1 : ostate) (resp : option response) (se : option series) (repeat : bool) (o1 : list oobs)
  : ostate * list oobs :=
  match resp with
  | Some r =>
      if repeat then
        let o2 := repeat_solicited s1 from r in
        let se' := confirm_series se r in
        let s2 := upd_last s1 (mk_last seq bytes (Some r) se') in
        match se' with
        | Some x => (upd_control s2 (CSolWait x (confirm_deadline cfg s2) RStep2), o0 ++ o1 ++ o2 ++ [OInfo (IEnterSolWait (se_ecsn x))])
        | None => (s2, o0 ++ o1 ++ o2)
        end
      else
        let '(s2, r', o2) := write_solicited s1 from r in
        let se' := confirm_series se r' in
        let s3 := upd_last s2 (mk_last seq bytes (Some r') se') in
        match se' with
        | Some x => (upd_control s3 (CSolWait x (confirm_deadline cfg s3) RStep2), o0 ++ o1 ++ o2 ++ [OInfo (IEnterSolWait (se_ecsn x))])
        | None => (s3, o0 ++ o1 ++ o2)
        end
  | None => (upd_last s1 (mk_last seq bytes None se), o0 ++ o1)
  end.

(* SelectState::update_frame_id on a repeated request *)
Definition touch_select (s : ostate) (frame_id : N) : ostate :=
  match s_select s with
  | Some sel =>
      if (ss_frame_id sel + 1) mod 4294967296 =? frame_id
      then upd_select s (Some {| ss_seq := ss_seq sel; ss_frame_id := frame_id;
                                 ss_time := ss_time sel; ss_objects := ss_objects sel |})
      else s
  | None => s
  end.

Lemma touch_select_frame s fid : frame s (touch_select s fid).
Proof.
  unfold touch_select. destruct (s_select s) as [sel|]; [|apply frame_refl].
  destruct (_ =? _); [frame_tac | apply frame_refl].
Qed.

Lemma handle_from_idle_unfold cfg s from bc bytes d frame_id :
  handle_from_idle cfg s from bc bytes d frame_id =
  match to_treq cfg from d with
  | TqNone => (s, [])
  | TqError seq => write_error_response s from bc seq
  | TqRequest ctl fn obj =>
      let seq := ctl_seq ctl in
      let o0 := [OInfo (IIdleRequest fn seq)] in
      let finish := finish_fn cfg from seq bytes o0 in
      match classify s bc bytes ctl fn obj with
      | FtMalformed iin2 => finish s (Some (empty_solicited seq iin2)) None false []
      | FtNewRead _ _ | FtRepeatRead _ _ _ =>
          let '(s1, r, se, o1) := format_first_read_response s seq in finish s1 (Some r) se false o1
      | FtNewNonRead hdrs =>
          let '(s1, r, o1) := handle_non_read cfg s fn seq frame_id bytes hdrs in finish s1 r None false o1
      | FtRepeatNonRead last =>
          finish (touch_select s frame_id) last None true []
      | FtBroadcast m =>
          let '(s1, o1) := process_broadcast cfg s m frame_id ctl fn bytes obj in (s1, o0 ++ o1)
      | FtSolConfirm _ | FtUnsolConfirm _ => (s, o0)
      end
  end.
Proof. reflexivity. Qed.

Lemma to_treq_from cfg from d ctl fn obj :
  to_treq cfg from d = TqRequest ctl fn obj -> o_any_master cfg = false -> from = o_master cfg.
Proof.
  unfold to_treq. intros H Ha. rewrite Ha in H. cbn [negb andb] in H.
  destruct (from =? o_master cfg) eqn:E; [apply N.eqb_eq in E; exact E | discriminate].
Qed.

Lemma to_treq_from_err cfg from d q :
  to_treq cfg from d = TqError q -> o_any_master cfg = false -> from = o_master cfg.
Proof.
  unfold to_treq. intros H Ha. rewrite Ha in H. cbn [negb andb] in H.
  destruct (from =? o_master cfg) eqn:E; [apply N.eqb_eq in E; exact E | discriminate].
Qed.

(* what handle_from_idle leaves alone, whatever the fragment *)
Definition idle_frame (s s1 : ostate) : Prop :=
  s_deferred s1 = s_deferred s /\ s_pending s1 = s_pending s /\ s_notify s1 = s_notify s /\
  s_unsol_buf s1 = s_unsol_buf s /\
  (s_control s1 = s_control s \/ exists se dl, s_control s1 = CSolWait se dl RStep2).

Lemma frameB_idle_frame s s1 : frameB s s1 -> idle_frame s s1.
Proof. unfold frameB, idle_frame. intuition. Qed.

Lemma finish_fn_spec cfg h from seq bytes o0 s1 resp se repeat o1 s2 o :
  finish_fn cfg from seq bytes o0 s1 resp se repeat o1 = (s2, o) ->
  (o_any_master cfg = false -> from = o_master cfg) ->
  (forall x r, se = Some x -> resp = Some r -> ctl_seq (r_ctl r) = se_ecsn x mod 16) ->
  s_control s1 = CIdle ->
  forallb req_obs o0 = true -> forallb req_obs o1 = true ->
  sol_coh cfg (h ++ o) s2 /\ wait_coh s2 /\ idle_frame s1 s2 /\ forallb req_obs o = true.
Proof.
  unfold finish_fn. intros H Hfrom Hse Hc S0 S1.
  destruct resp as [r|].
  2:{ inv_pair H. split; [|split; [|split]].
      - intros l r Hl Hr. psimpl_in Hl. inversion Hl; subst l. discriminate.
      - intros x dl rs Hx. psimpl_in Hx. congruence.
      - unfold idle_frame; psimpl; auto 10.
      - fb. }
  assert (Hws : forall x r', confirm_series se r' = Some x -> ctl_seq (r_ctl r') = ctl_seq (r_ctl r) ->
                ctl_seq (r_ctl r') = se_ecsn x mod 16).
  { intros x r' Hx Hq. unfold confirm_series in Hx. destruct se as [y|].
    - inversion Hx; subst y. rewrite Hq. eauto.
    - destruct (ctl_con (r_ctl r')); inversion Hx; subst x. cbn [se_ecsn]. unfold ctl_seq. lia. }
  destruct repeat.
  - cbv zeta in H. unfold repeat_solicited in H.
    assert (Hk : forall s3 o4, s_last s3 = mk_last seq bytes (Some r) (confirm_series se r) ->
                 s_sol_buf s3 = s_sol_buf s1 ->
                 sol_coh cfg (h ++ o0 ++ o1 ++ [OTx from (response_bytes r (s_sol_buf s1))] ++ o4) s3).
    { intros s3 o4 Hl Hb l r0 Hl0 Hr0. rewrite Hl in Hl0. inversion Hl0; subst l. cbn [lr_response] in Hr0.
      inversion Hr0; subst r0. rewrite Hb. exists from. split; [|exact Hfrom].
      rewrite ?in_app_iff. cbn [In]. tauto. }
    destruct (confirm_series se r) as [x|] eqn:Ecs; inv_pair H.
    + split; [|split; [|split]].
      * apply (Hk _ [OInfo (IEnterSolWait (se_ecsn x))]); psimpl; auto.
      * intros se0 dl rs Hx. psimpl_in Hx. inversion Hx; subst. psimpl.
        eexists _, r. split; [reflexivity|]. split; [reflexivity|]. apply Hws; auto.
      * unfold idle_frame; psimpl. repeat split; eauto.
      * fb.
    + split; [|split; [|split]].
      * specialize (Hk (upd_last s1 (mk_last seq bytes (Some r) None)) []). rewrite app_nil_r in Hk.
        apply Hk; psimpl; auto.
      * intros se0 dl rs Hx. psimpl_in Hx. congruence.
      * unfold idle_frame; psimpl. repeat split; eauto.
      * fb.
  - destruct (write_solicited s1 from r) as [[s3 r'] o2] eqn:Ew.
    apply write_solicited_spec in Ew as [F [_ [_ [Hq [o' [-> S']]]]]].
    cbv zeta in H.
    assert (Hk : forall s4 o4, s_last s4 = mk_last seq bytes (Some r') (confirm_series se r') ->
                 s_sol_buf s4 = s_sol_buf s3 ->
                 sol_coh cfg (h ++ o0 ++ o1 ++ (o' ++ [OTx from (response_bytes r' (s_sol_buf s3))]) ++ o4) s4).
    { intros s4 o4 Hl Hb l r0 Hl0 Hr0. rewrite Hl in Hl0. inversion Hl0; subst l. cbn [lr_response] in Hr0.
      inversion Hr0; subst r0. rewrite Hb. exists from. split; [|exact Hfrom].
      rewrite ?in_app_iff. cbn [In]. tauto. }
    assert (Sreq : forallb req_obs o' = true) by (apply (forallb_imp _ _ _ dbq_req S')).
    destruct F as [[Fc [Fl [Fd [Fp [Fn Fu]]]]] Fb].
    destruct (confirm_series se r') as [x|] eqn:Ecs; inv_pair H.
    + split; [|split; [|split]].
      * apply Hk; psimpl; auto.
      * intros se0 dl rs Hx. psimpl_in Hx. inversion Hx; subst. psimpl.
        eexists _, r'. split; [reflexivity|]. split; [reflexivity|]. apply Hws; auto.
      * unfold idle_frame; psimpl. repeat split; eauto.
      * fb.
    + split; [|split; [|split]].
      * specialize (Hk (upd_last s3 (mk_last seq bytes (Some r') None)) []). rewrite app_nil_r in Hk.
        apply Hk; psimpl; auto.
      * intros se0 dl rs Hx. psimpl_in Hx. congruence.
      * unfold idle_frame; psimpl. repeat split; auto.
      * fb.
Qed.

Lemma wait_coh_not_wait s : (forall se dl rs, s_control s <> CSolWait se dl rs) -> wait_coh s.
Proof. intros H se dl rs Hc. destruct (H _ _ _ Hc). Qed.

Lemma idle_frame_trans_l s s1 s2 : frameB s s1 -> idle_frame s1 s2 -> idle_frame s s2.
Proof. unfold frameB, idle_frame. intros [A [B [C [D [E F]]]]] [G [I [J [K L]]]]. rewrite <- A. intuition congruence. Qed.

Lemma handle_from_idle_pres cfg h s from bc bytes d fid s1 o :
  handle_from_idle cfg s from bc bytes d fid = (s1, o) ->
  s_control s = CIdle ->
  sol_coh cfg h s ->
  sol_coh cfg (h ++ o) s1 /\ wait_coh s1 /\ idle_frame s s1 /\ forallb req_obs o = true.
Proof.
  rewrite handle_from_idle_unfold. intros H Hc Hcoh.
  assert (Hsame : forall s', frame s s' -> forall o', forallb req_obs o' = true ->
            sol_coh cfg (h ++ o') s' /\ wait_coh s' /\ idle_frame s s' /\ forallb req_obs o' = true).
  { intros s' F o' So. pose proof F as [[Fc [Fl _]] Fb]. split; [|split; [|split]].
    - apply sol_coh_frame with (s := s); auto.
    - apply wait_coh_not_wait. intros se dl rs. rewrite Fc, Hc. discriminate.
    - apply frameB_idle_frame, frame_frameB, F.
    - exact So. }
  destruct (to_treq cfg from d) as [|q|ctl fn obj] eqn:Et.
  - inv_pair H. apply Hsame; [apply frame_refl | reflexivity].
  - apply write_error_response_spec in H as [F [S _]]. apply Hsame; assumption.
  - pose proof (to_treq_from _ _ _ _ _ _ Et) as Hfrom. cbv zeta in H.
    assert (S0 : forallb req_obs [OInfo (IIdleRequest fn (ctl_seq ctl))] = true) by reflexivity.
    destruct (classify s bc bytes ctl fn obj) as [iin2|hdrs rh|resp hdrs rh|hdrs|resp|m|q|q] eqn:Ecl.
    + eapply finish_fn_spec in H; eauto. discriminate.
    + destruct (format_first_read_response s (ctl_seq ctl)) as [[[s2 r] se] o1] eqn:Ef.
      apply format_first_read_response_spec in Ef as [F [S [Q1 Q2]]].
      eapply finish_fn_spec with (h := h) in H; eauto.
      * destruct H as [A [B [C D]]]. split; [exact A|]. split; [exact B|]. split; [|exact D]. eapply idle_frame_trans_l; eauto.
      * intros x r0 Hx Hr. inversion Hr; subst r0. rewrite (Q2 _ Hx). exact Q1.
      * destruct F as [Fc _]. congruence.
      * apply (forallb_imp _ _ _ dbq_req S).
    + destruct (format_first_read_response s (ctl_seq ctl)) as [[[s2 r] se] o1] eqn:Ef.
      apply format_first_read_response_spec in Ef as [F [S [Q1 Q2]]].
      eapply finish_fn_spec with (h := h) in H; eauto.
      * destruct H as [A [B [C D]]]. split; [exact A|]. split; [exact B|]. split; [|exact D]. eapply idle_frame_trans_l; eauto.
      * intros x r0 Hx Hr. inversion Hr; subst r0. rewrite (Q2 _ Hx). exact Q1.
      * destruct F as [Fc _]. congruence.
      * apply (forallb_imp _ _ _ dbq_req S).
    + destruct (handle_non_read cfg s fn (ctl_seq ctl) fid bytes hdrs) as [[s2 r] o1] eqn:Ef.
      apply handle_non_read_spec in Ef as [F S].
      eapply finish_fn_spec with (h := h) in H; eauto.
      * destruct H as [A [B [C D]]]. split; [exact A|]. split; [exact B|]. split; [|exact D]. eapply idle_frame_trans_l; eauto.
      * discriminate.
      * destruct F as [Fc _]. congruence.
      * apply (forallb_imp _ _ _ exec_req S).
    + pose proof (touch_select_frame s fid) as F.
      eapply finish_fn_spec with (h := h) in H; eauto.
      * destruct H as [A [B [C D]]]. split; [exact A|]. split; [exact B|]. split; [|exact D]. eapply idle_frame_trans_l; eauto. apply frame_frameB, F.
      * discriminate.
      * destruct F as [[Fc _] _]. congruence.
    + destruct (process_broadcast cfg s m fid ctl fn bytes obj) as [s2 o1] eqn:Ef.
      apply process_broadcast_spec in Ef as [F S]. inv_pair H. apply Hsame; [exact F|]. fb.
    + inv_pair H. apply Hsame; [apply frame_refl | reflexivity].
    + inv_pair H. apply Hsame; [apply frame_refl | reflexivity].
Qed.

(* ---------- one fragment in the unsolicited confirm wait ----------------------------------------------------------- *)

Definition wait_frame (s s1 : ostate) : Prop :=
  s_control s1 = s_control s /\ s_pending s1 = s_pending s /\ s_notify s1 = s_notify s /\
  s_unsol_buf s1 = s_unsol_buf s.

Lemma unsol_wait_fragment_pres cfg h s resp from bc bytes d fid s1 res o :
  unsol_wait_fragment cfg s resp from bc bytes d fid = (s1, res, o) ->
  sol_coh cfg h s ->
  sol_coh cfg (h ++ o) s1 /\ wait_frame s s1 /\ forallb req_obs o = true /\
  (res <> None -> s_deferred s1 = s_deferred s \/ s_deferred s1 = None).
Proof.
  unfold unsol_wait_fragment. intros H Hcoh.
  assert (Hsame : forall s' o', s_last s' = s_last s -> s_sol_buf s' = s_sol_buf s -> wait_frame s s' ->
            forallb req_obs o' = true ->
            (res <> None -> s_deferred s' = s_deferred s \/ s_deferred s' = None) ->
            sol_coh cfg (h ++ o') s' /\ wait_frame s s' /\ forallb req_obs o' = true /\
            (res <> None -> s_deferred s' = s_deferred s \/ s_deferred s' = None)).
  { intros s' o' Fl Fb Fw So Hd. split; [|auto]. apply sol_coh_frame with (s := s); auto. }
  destruct (to_treq cfg from d) as [|q|ctl fn obj] eqn:Et.
  - inv_pair H. apply Hsame; auto; try reflexivity. unfold wait_frame; auto.
  - destruct (write_error_response (upd_deferred s None) from bc q) as [s2 o2] eqn:Ew.
    apply write_error_response_spec in Ew as [[[Fc [Fl [Fd [Fp [Fn Fu]]]]] Fb] [S _]]. inv_pair H.
    psimpl_in Fc. psimpl_in Fl. psimpl_in Fp. psimpl_in Fn. psimpl_in Fu. psimpl_in Fb.
    apply Hsame; auto. unfold wait_frame; auto.
  - pose proof (to_treq_from _ _ _ _ _ _ Et) as Hfrom.
    destruct (classify s bc bytes ctl fn obj) as [iin2|hdrs rh|resp0 hdrs rh|hdrs|resp0|m|q|q] eqn:Ecl.
    + destruct (write_solicited (upd_deferred s None) from (empty_solicited (ctl_seq ctl) iin2)) as [[s2 r2] o2] eqn:Ew.
      apply write_solicited_spec in Ew as [[[Fc [Fl [Fd [Fp [Fn Fu]]]]] Fb] [_ [_ [_ [o' [-> S]]]]]]. inv_pair H.
      psimpl_in Fc. psimpl_in Fl. psimpl_in Fp. psimpl_in Fn. psimpl_in Fu. psimpl_in Fb.
      apply Hsame; auto. { unfold wait_frame; auto. }
      rewrite forallb_app, (forallb_imp _ _ _ dbq_req S). reflexivity.
    + inv_pair H. apply Hsame; auto; try reflexivity; [|intros X; congruence]. unfold wait_frame; psimpl; auto.
    + inv_pair H. apply Hsame; auto; try reflexivity; [|intros X; congruence]. unfold wait_frame; psimpl; auto.
    + destruct (handle_non_read cfg (upd_deferred s None) fn (ctl_seq ctl) fid bytes hdrs) as [[s2 r] o1] eqn:Eh.
      apply handle_non_read_spec in Eh as [[Fc [Fl [Fd [Fp [Fn Fu]]]]] S1].
      psimpl_in Fc. psimpl_in Fl. psimpl_in Fp. psimpl_in Fn. psimpl_in Fu. psimpl_in Fd.
      apply (forallb_imp _ _ _ exec_req) in S1.
      destruct r as [r0|].
      * destruct (write_solicited s2 from r0) as [[s3 r1] o2] eqn:Ew.
        apply write_solicited_spec in Ew as [[[Gc [Gl [Gd [Gp [Gn Gu]]]]] Gb] [_ [_ [_ [o' [-> S]]]]]]. inv_pair H.
        apply (forallb_imp _ _ _ dbq_req) in S.
        split; [|split; [|split]].
        -- intros l r Hl Hr. psimpl_in Hl. inversion Hl; subst l. cbn [lr_response] in Hr. inversion Hr; subst r.
           psimpl. exists from. split; [|exact Hfrom]. rewrite ?in_app_iff. cbn [In]. tauto.
        -- unfold wait_frame; psimpl. repeat split; congruence.
        -- fb.
        -- intros _. right. psimpl. congruence.
      * inv_pair H. split; [|split; [|split]].
        -- intros l r Hl Hr. psimpl_in Hl. inversion Hl; subst l. discriminate.
        -- unfold wait_frame; psimpl. repeat split; congruence.
        -- fb.
        -- intros _. right. psimpl. congruence.
    + inv_pair H. apply Hsame; auto; try reflexivity. { unfold wait_frame; psimpl; auto. }
      destruct resp0; reflexivity.
    + destruct (process_broadcast cfg (upd_deferred s None) m fid ctl fn bytes obj) as [s2 o2] eqn:Ep.
      apply process_broadcast_spec in Ep as [[[Fc [Fl [Fd [Fp [Fn Fu]]]]] Fb] S]. inv_pair H.
      psimpl_in Fc. psimpl_in Fl. psimpl_in Fp. psimpl_in Fn. psimpl_in Fu. psimpl_in Fb.
      apply Hsame; auto. unfold wait_frame; auto.
    + destruct (s_last_bcast s) as [[]|]; inv_pair H; apply Hsame; auto; try reflexivity;
        try (intros X; congruence); try (unfold wait_frame; psimpl; auto).
    + destruct (q =? ctl_seq (r_ctl resp)); inv_pair H; apply Hsame; auto; try reflexivity;
        try (intros X; congruence); try (unfold wait_frame; psimpl; auto).
Qed.

Lemma unsol_wait_fragment_def_ok cfg s resp from bc bytes d fid s1 res o :
  unsol_wait_fragment cfg s resp from bc bytes d fid = (s1, res, o) ->
  def_ok cfg s -> def_ok cfg s1.
Proof.
  unfold unsol_wait_fragment. intros H Hd.
  assert (Hnone : forall s', s_deferred s' = None -> def_ok cfg s').
  { intros s' E x Hx. congruence. }
  assert (Hsame : forall s', s_deferred s' = s_deferred s -> def_ok cfg s').
  { intros s' E x Hx. rewrite E in Hx. auto. }
  destruct (to_treq cfg from d) as [|q|ctl fn obj] eqn:Et.
  - inv_pair H. exact Hd.
  - destruct (write_error_response (upd_deferred s None) from bc q) as [s2 o2] eqn:Ew.
    apply write_error_response_spec in Ew as [[[Fc [Fl [Fd _]]] Fb] _]. inv_pair H. apply Hnone. exact Fd.
  - pose proof (to_treq_from _ _ _ _ _ _ Et) as Hfrom.
    destruct (classify s bc bytes ctl fn obj) as [iin2|hdrs rh|resp0 hdrs rh|hdrs|resp0|m|q|q] eqn:Ecl.
    + destruct (write_solicited (upd_deferred s None) from (empty_solicited (ctl_seq ctl) iin2)) as [[s2 r2] o2] eqn:Ew.
      apply write_solicited_spec in Ew as [[[Fc [Fl [Fd _]]] Fb] _]. inv_pair H. apply Hnone. exact Fd.
    + inv_pair H. intros x Hx. psimpl_in Hx. inversion Hx; subst x. exact Hfrom.
    + inv_pair H. intros x Hx. psimpl_in Hx. inversion Hx; subst x. exact Hfrom.
    + destruct (handle_non_read cfg (upd_deferred s None) fn (ctl_seq ctl) fid bytes hdrs) as [[s2 r] o1] eqn:Eh.
      apply handle_non_read_spec in Eh as [[Fc [Fl [Fd _]]] S1]. psimpl_in Fd.
      destruct r as [r0|].
      * destruct (write_solicited s2 from r0) as [[s3 r1] o2] eqn:Ew.
        apply write_solicited_spec in Ew as [[[Gc [Gl [Gd _]]] Gb] _]. inv_pair H.
        apply Hnone. psimpl. congruence.
      * inv_pair H. apply Hnone. psimpl. congruence.
    + inv_pair H. apply Hnone. reflexivity.
    + destruct (process_broadcast cfg (upd_deferred s None) m fid ctl fn bytes obj) as [s2 o2] eqn:Ep.
      apply process_broadcast_spec in Ep as [[[Fc [Fl [Fd _]]] Fb] S]. inv_pair H. apply Hnone. exact Fd.
    + destruct (s_last_bcast s) as [[]|]; inv_pair H; apply Hsame; reflexivity.
    + destruct (q =? ctl_seq (r_ctl resp)); inv_pair H; apply Hsame; reflexivity.
Qed.

(* ---------- unsolicited: starting and ending a series ------------------------------------------------------------------ *)

Lemma start_unsol_spec cfg h s r is_null s1 o :
  start_unsol cfg s r is_null = (s1, o) ->
  frame (upd_control s (s_control s1)) s1 /\ forallb ustart o = true /\
  exists r1 rt dl, s_control s1 = CUnsolWait r1 is_null rt dl /\ r_fn r1 = r_fn r /\
    opened_by (h ++ o) (o_master cfg) (response_bytes r1 (s_unsol_buf s1)) (ctl_seq (r_ctl r1)).
Proof.
  unfold start_unsol. destruct (write_unsolicited cfg s r) as [[s0 r1] o0] eqn:Ew.
  apply write_unsolicited_spec in Ew as [F [_ [Hfn [_ [o' [-> S]]]]]]. intros H; inv_pair H.
  split; [frame_tac|]. split.
  - rewrite !forallb_app, (forallb_imp _ _ _ dbq_ustart S). reflexivity.
  - eexists r1, _, _. psimpl. split; [reflexivity|]. split; [exact Hfn|].
    exists (h ++ o'), []. split; [|reflexivity]. rewrite <- !app_assoc. reflexivity.
Qed.

Lemma check_unsolicited_spec cfg h s s1 ns o :
  check_unsolicited cfg s = (s1, ns, o) ->
  s_control s = CIdle ->
  s_last s1 = s_last s /\ s_sol_buf s1 = s_sol_buf s /\ s_deferred s1 = s_deferred s /\
  s_pending s1 = s_pending s /\ s_notify s1 = s_notify s /\
  forallb ustart o = true /\ unsol_coh cfg (h ++ o) s1 /\
  (s_control s1 = CIdle \/ exists r1 n rt dl, s_control s1 = CUnsolWait r1 n rt dl).
Proof.
  unfold check_unsolicited. intros H Hc.
  assert (Hsame : forall s', frame s s' ->
     s_last s' = s_last s /\ s_sol_buf s' = s_sol_buf s /\ s_deferred s' = s_deferred s /\
     s_pending s' = s_pending s /\ s_notify s' = s_notify s /\
     forallb ustart [] = true /\ unsol_coh cfg (h ++ []) s' /\
     (s_control s' = CIdle \/ exists r1 n rt dl, s_control s' = CUnsolWait r1 n rt dl)).
  { intros s' [[Fc [Fl [Fd [Fp [Fn Fu]]]]] Fb]. splits; auto.
    - apply unsol_coh_vacuous. intros resp n rt dl X. rewrite Fc, Hc in X. discriminate.
    - left. congruence. }
  assert (Hstart : forall s0 r is_null pre s1' o', start_unsol cfg s0 r is_null = (s1', o') ->
     frame s (upd_unsol_buf s0 (s_unsol_buf s)) -> r_fn r = fn_unsol_response -> forallb ustart pre = true ->
     s_last s1' = s_last s /\ s_sol_buf s1' = s_sol_buf s /\ s_deferred s1' = s_deferred s /\
     s_pending s1' = s_pending s /\ s_notify s1' = s_notify s /\
     forallb ustart (pre ++ o') = true /\ unsol_coh cfg (h ++ pre ++ o') s1' /\
     (s_control s1' = CIdle \/ exists r1 n rt dl, s_control s1' = CUnsolWait r1 n rt dl)).
  { intros s0 r is_null pre s1' o' Hs F Hfn Sp.
    apply start_unsol_spec with (h := h ++ pre) in Hs as [[[Gc [Gl [Gd [Gp [Gn Gu]]]]] Gb] [S [r1 [rt [dl [Hc1 [Hfn1 Hop]]]]]]].
    destruct F as [[Fc [Fl [Fd [Fp [Fn Fu]]]]] Fb].
    psimpl_in Gl. psimpl_in Gd. psimpl_in Gp. psimpl_in Gn. psimpl_in Gb.
    psimpl_in Fl. psimpl_in Fd. psimpl_in Fp. psimpl_in Fn. psimpl_in Fb.
    splits; try congruence.
    - rewrite forallb_app, Sp, S. reflexivity.
    - intros resp n rt' dl' Hc'. rewrite Hc1 in Hc'. inversion Hc'; subst. split; [|congruence].
      rewrite app_assoc. exact Hop.
    - right. eauto. }
  destruct (negb (o_unsol cfg)); [inv_pair H; apply Hsame, frame_refl|].
  destruct (s_unsol s) as [|deadline].
  - destruct (start_unsol cfg (upd_unsol_seq s (seq16_next (s_unsol_seq s))) (unsol_header (s_unsol_seq s) 0) true)
      as [s2 o2] eqn:Es. inv_pair H.
    apply (Hstart _ _ _ []) in Es; auto. frame_tac.
  - destruct (negb match deadline with Some t => (t <=? s_now s)%Z | None => true end);
      [inv_pair H; apply Hsame, frame_refl|].
    destruct (negb (any_enabled s)); [inv_pair H; apply Hsame, frame_refl|].
    destruct (ask_unsol s) as [s0 [count body]] eqn:Ea. apply ask_unsol_spec in Ea.
    destruct (s_enabled s) as [[c1 c2] c3].
    destruct (count =? 0); [inv_pair H; apply Hsame; exact Ea|].
    match type of H with context [start_unsol cfg ?a ?b ?c] => destruct (start_unsol cfg a b c) as [s3 o3] eqn:Es end.
    inv_pair H.
    apply (Hstart _ _ _ [ODb (DbWriteUnsol c1 c2 c3)]) in Es; auto.
    destruct Ea as [[Fc [Fl [Fd [Fp [Fn Fu]]]]] Fb]. frame_tac.
Qed.

Lemma end_unsol_spec cfg s is_null res s1 ns o :
  end_unsol cfg s is_null res = (s1, ns, o) ->
  frame (upd_control s CIdle) s1 /\ forallb dbq o = true.
Proof.
  unfold end_unsol. destruct is_null, res; intros H; inv_pair H; (split; [frame_tac | reflexivity]).
Qed.

(* ---------- handle_deferred_read -------------------------------------------------------------------------------------- *)

Lemma handle_deferred_none cfg s ns : s_deferred s = None -> handle_deferred cfg s ns = (s, []).
Proof. unfold handle_deferred. intros ->. reflexivity. Qed.

Lemma handle_deferred_pres cfg h s ns s1 o :
  handle_deferred cfg s ns = (s1, o) ->
  s_control s = CIdle -> def_ok cfg s ->
  sol_coh cfg h s ->
  sol_coh cfg (h ++ o) s1 /\ wait_coh s1 /\
  s_deferred s1 = None /\ s_pending s1 = s_pending s /\ s_unsol_buf s1 = s_unsol_buf s /\
  (s_control s1 = CIdle \/ exists se dl, s_control s1 = CSolWait se dl (RStep4 ns)) /\
  forallb bg o = true.
Proof.
  unfold handle_deferred. intros H Hc Hdef Hcoh.
  destruct (s_deferred s) as [d|] eqn:Ed.
  2:{ inv_pair H. splits; auto.
      - apply sol_coh_frame with (s := s1); auto.
      - apply wait_coh_not_wait. intros se dl rs. rewrite Hc. discriminate. }
  destruct (ask_iin2 (upd_notify (upd_deferred s None) true) DbDeferredSelect) as [[s2 iin2] o1] eqn:E1.
  destruct (format_read_response s2 true (df_seq d) (N.lor (df_iin2 d) iin2)) as [[[s3 r] se] o2] eqn:E2.
  destruct (write_solicited s3 (df_from d) r) as [[s4 r'] o3] eqn:E3.
  apply ask_iin2_spec in E1 as [[[Ac [Al [Ad [Ap [An Au]]]]] Ab] S1].
  apply format_read_response_spec in E2 as [[Bc [Bl [Bd [Bp [Bn Bu]]]]] [S2 [Q1 Q2]]].
  apply write_solicited_spec in E3 as [[[Cc [Cl [Cd [Cp [Cn Cu]]]]] Cb] [_ [_ [Hq [o' [-> S3]]]]]].
  psimpl_in Ac. psimpl_in Al. psimpl_in Ad. psimpl_in Ap. psimpl_in Au.
  cbv zeta in H.
  assert (Hk : forall s5 o4, s_last s5 = mk_last (df_seq d) (df_bytes d) (Some r') se ->
               s_sol_buf s5 = s_sol_buf s4 ->
               sol_coh cfg (h ++ o1 ++ o2 ++ (o' ++ [OTx (df_from d) (response_bytes r' (s_sol_buf s4))]) ++ o4) s5).
  { intros s5 o4 Hl Hb l r0 Hl0 Hr0. rewrite Hl in Hl0. inversion Hl0; subst l. cbn [lr_response] in Hr0.
    inversion Hr0; subst r0. rewrite Hb. exists (df_from d). split; [|apply Hdef; exact Ed].
    rewrite ?in_app_iff. cbn [In]. tauto. }
  assert (Hws : forall x, match se with
                          | None => if ctl_con (r_ctl r') then Some {| se_ecsn := ctl_seq (r_ctl r'); se_fin := true |} else None
                          | x => x end = Some x -> ctl_seq (r_ctl r') = se_ecsn x mod 16).
  { intros x Hx. destruct se as [y|].
    - inversion Hx; subst y. rewrite Hq, (Q2 _ eq_refl). exact Q1.
    - destruct (ctl_con (r_ctl r')); inversion Hx; subst x. cbn [se_ecsn]. unfold ctl_seq. lia. }
  assert (Sbg : forallb bg (o1 ++ o2 ++ o' ++ [OTx (df_from d) (response_bytes r' (s_sol_buf s4))]) = true).
  { rewrite !forallb_app, (forallb_imp _ _ _ dbq_bg S1), (forallb_imp _ _ _ dbq_bg S2), (forallb_imp _ _ _ dbq_bg S3). reflexivity. }
  match type of H with (match ?c with _ => _ end) = _ => destruct c as [x|] eqn:Ese end; inv_pair H.
  - splits.
    + apply Hk; psimpl; auto.
    + intros se0 dl rs Hx. psimpl_in Hx. inversion Hx; subst. psimpl.
      eexists _, r'. split; [reflexivity|]. split; [reflexivity|]. apply Hws. reflexivity.
    + psimpl. congruence.
    + psimpl. congruence.
    + psimpl. congruence.
    + right. psimpl. eauto.
    + rewrite !app_assoc, forallb_app. rewrite <- !app_assoc, Sbg. reflexivity.
  - splits.
    + specialize (Hk (upd_last s4 (mk_last (df_seq d) (df_bytes d) (Some r') se)) []). rewrite app_nil_r in Hk.
      apply Hk; psimpl; auto.
    + apply wait_coh_not_wait. intros se0 dl rs. psimpl. rewrite Cc, Bc, Ac, Hc. discriminate.
    + psimpl. congruence.
    + psimpl. congruence.
    + psimpl. congruence.
    + left. psimpl. congruence.
    + exact Sbg.
Qed.

(* what handle_deferred does to the wake-up permit: set when there was a deferred READ *)
Lemma handle_deferred_notify cfg s ns s1 o :
  handle_deferred cfg s ns = (s1, o) ->
  match s_deferred s with None => s_notify s1 = s_notify s | Some _ => s_notify s1 = true end.
Proof.
  unfold handle_deferred. intros H.
  destruct (s_deferred s) as [d|] eqn:Ed; [|inv_pair H; reflexivity].
  destruct (ask_iin2 (upd_notify (upd_deferred s None) true) DbDeferredSelect) as [[s2 iin2] o1] eqn:E1.
  destruct (format_read_response s2 true (df_seq d) (N.lor (df_iin2 d) iin2)) as [[[s3 r] se] o2] eqn:E2.
  destruct (write_solicited s3 (df_from d) r) as [[s4 r'] o3] eqn:E3.
  apply ask_iin2_spec in E1 as [[[Ac [Al [Ad [Ap [An Au]]]]] Ab] S1].
  apply format_read_response_spec in E2 as [[Bc [Bl [Bd [Bp [Bn Bu]]]]] [S2 [Q1 Q2]]].
  apply write_solicited_spec in E3 as [[[Cc [Cl [Cd [Cp [Cn Cu]]]]] Cb] _].
  psimpl_in An. cbv zeta in H.
  match type of H with (match ?c with _ => _ end) = _ => destruct c as [x|] end; inv_pair H; psimpl; congruence.
Qed.
