(* scratch: frame lemmas for C14 *)
From Dnp3V Require Import Outstation.Session.
Open Scope N_scope.

Ltac psimpl :=
  cbn [s_now s_control s_restart_iin s_enabled s_last s_select s_unsol s_unsol_seq s_deferred
       s_last_recorded s_last_bcast s_sol_buf s_unsol_buf s_pending s_frame_id s_notify
       s_sel_status s_op_status s_app_iin s_answers
       upd_control upd_now upd_restart upd_enabled upd_last upd_select upd_unsol upd_unsol_seq
       upd_deferred upd_last_recorded upd_last_bcast upd_sol_buf upd_unsol_buf upd_pending
       upd_frame_id upd_notify upd_knobs upd_answers session_reset deferred_set fst snd].

Ltac psimpl_in H :=
  cbn [s_now s_control s_restart_iin s_enabled s_last s_select s_unsol s_unsol_seq s_deferred
       s_last_recorded s_last_bcast s_sol_buf s_unsol_buf s_pending s_frame_id s_notify
       s_sel_status s_op_status s_app_iin s_answers
       upd_control upd_now upd_restart upd_enabled upd_last upd_select upd_unsol upd_unsol_seq
       upd_deferred upd_last_recorded upd_last_bcast upd_sol_buf upd_unsol_buf upd_pending
       upd_frame_id upd_notify upd_knobs upd_answers session_reset deferred_set fst snd] in H.

(* destructure the `let '(a, b) := x in ...` of a hypothesis *)
Ltac dlet_in H :=
  repeat match type of H with
  | context [match ?x with pair _ _ => _ end] =>
      first [ is_var x; destruct x as [? ?]
            | let E := fresh "E" in destruct x as [? ?] eqn:E ]
  end.

Ltac inv_pair H := injection H as ?; subst.

(* ---------- the fields the solicited side never touches ---------------------------------------- *)

Definition uview (s : ostate) :=
  (s_unsol s, s_unsol_seq s, s_unsol_buf s, s_now s, s_deferred s, s_pending s, s_frame_id s, s_notify s).

(* frame: low-level helpers touch none of these *)
Definition fview (s : ostate) := (uview s, s_control s, s_last s, s_enabled s).

Definition frame (s s' : ostate) : Prop := fview s' = fview s.

Lemma frame_refl : forall s, frame s s.
Proof. reflexivity. Qed.

Lemma frame_trans : forall a b c, frame a b -> frame b c -> frame a c.
Proof. unfold frame. intros a b c H1 H2. congruence. Qed.

Lemma ask_evinfo_frame : forall s s' x o, ask_evinfo s = (s', x, o) -> frame s s'.
Proof.
  intros s s' x o H. unfold ask_evinfo in H.
  destruct (s_answers s) as [|[] rest]; inv_pair H; reflexivity.
Qed.

Lemma ask_iin2_frame : forall s c s' x o, ask_iin2 s c = (s', x, o) -> frame s s'.
Proof.
  intros s c s' x o H. unfold ask_iin2 in H.
  destruct (s_answers s) as [|[] rest]; inv_pair H; reflexivity.
Qed.

Lemma ask_write_frame : forall s s' x o, ask_write s = (s', x, o) -> frame s s'.
Proof.
  intros s s' x o H. unfold ask_write in H.
  destruct (s_answers s) as [|[] rest]; inv_pair H; reflexivity.
Qed.

Lemma response_iin_frame : forall s s' x o, response_iin s = (s', x, o) -> frame s s'.
Proof.
  intros s s' x o H. unfold response_iin in H.
  destruct (ask_evinfo s) as [[s1 [[[c1 c2] c3] ovf]] o1] eqn:E.
  apply ask_evinfo_frame in E. inv_pair H.
  eapply frame_trans; [exact E|].
  destruct (s_last_bcast s1) as [[]|]; reflexivity.
Qed.

Lemma write_solicited_frame : forall s d r s' r' o, write_solicited s d r = (s', r', o) -> frame s s'.
Proof.
  intros s d r s' r' o H. unfold write_solicited in H.
  destruct (response_iin s) as [[s1 iin] o1] eqn:E. apply response_iin_frame in E.
  inv_pair H. exact E.
Qed.

Lemma write_iin_bits_frame : forall bits s s' v o, write_iin_bits s bits = (s', v, o) -> frame s s'.
Proof.
  induction bits as [|[idx value] rest IH]; intros s s' v o H; cbn [write_iin_bits] in H.
  - inv_pair H. reflexivity.
  - destruct (idx =? 7).
    + destruct value.
      * destruct (write_iin_bits s rest) as [[s1 v1] o1] eqn:E. inv_pair H. eauto.
      * destruct (write_iin_bits (upd_restart s false) rest) as [[s1 v1] o1] eqn:E. inv_pair H.
        apply IH in E. eapply frame_trans; [|exact E]. reflexivity.
    + destruct (write_iin_bits s rest) as [[s1 v1] o1] eqn:E. inv_pair H. eauto.
Qed.

Lemma write_header_frame : forall cfg s h s' v o, write_header cfg s h = (s', v, o) -> frame s s'.
Proof.
  intros cfg s h s' v o H. unfold write_header in H.
  destruct h as [bits|t|t| | | | | | | |]; try (inv_pair H; reflexivity).
  - eapply write_iin_bits_frame; eauto.
  - destruct t; inv_pair H; reflexivity.
  - destruct t as [t|]; [|inv_pair H; reflexivity].
    destruct (s_last_recorded s); [|inv_pair H; reflexivity].
    destruct (_ <? _); inv_pair H; reflexivity.
Qed.

Lemma handle_write_headers_frame : forall cfg hdrs s s' v o,
  handle_write_headers cfg s hdrs = (s', v, o) -> frame s s'.
Proof.
  induction hdrs as [|h rest IH]; intros s s' v o H; cbn [handle_write_headers] in H.
  - inv_pair H. reflexivity.
  - destruct (write_header cfg s h) as [[s1 v1] o1] eqn:E1.
    destruct (handle_write_headers cfg s1 rest) as [[s2 v2] o2] eqn:E2.
    inv_pair H. eapply frame_trans; [eapply write_header_frame; eauto|eauto].
Qed.

Lemma handle_controls_frame : forall cfg s fn seq fid bytes hdrs s' r o,
  handle_controls cfg s fn seq fid bytes hdrs = (s', r, o) -> frame s s'.
Proof.
  intros cfg s fn seq fid bytes hdrs s' r o H. unfold handle_controls in H.
  destruct (negb (all_controls hdrs)); [inv_pair H; reflexivity|].
  destruct (fn =? fn_direct_operate_nr).
  { dlet_in H. inv_pair H. reflexivity. }
  destruct (fn =? fn_select).
  { dlet_in H. inv_pair H. destruct (_ && _); reflexivity. }
  destruct (fn =? fn_direct_operate).
  { dlet_in H. inv_pair H. reflexivity. }
  destruct (match s_select s with Some sel => _ | None => _ end).
  - dlet_in H. inv_pair H. reflexivity.
  - dlet_in H. inv_pair H. reflexivity.
Qed.

Lemma restart_response_frame : forall seq s d s' r, restart_response seq s d = (s', r) -> frame s s'.
Proof.
  intros seq s d s' r H. unfold restart_response in H.
  destruct d as [[ms v]|]; inv_pair H; reflexivity.
Qed.

(* enable_disable: everything but s_enabled *)
Definition gview (s : ostate) := (uview s, s_control s, s_last s).

Definition cls_step (enable : bool) (acc : (bool * bool * bool) * N) (h : whdr) :=
  let '((c1, c2, c3), v) := acc in
  match h with
  | WCls 1 => ((enable, c2, c3), v)
  | WCls 2 => ((c1, enable, c3), v)
  | WCls 3 => ((c1, c2, enable), v)
  | _ => ((c1, c2, c3), N.lor v iin2_no_func)
  end.

Definition set_classes (enable : bool) (hdrs : list whdr) (e : bool * bool * bool) : bool * bool * bool :=
  fst (fold_left (cls_step enable) hdrs (e, 0)).

Lemma enable_disable_spec : forall cfg s enable seq hdrs s' r,
  enable_disable cfg s enable seq hdrs = (s', r) ->
  gview s' = gview s /\
  (if o_unsol cfg then s_enabled s' = set_classes enable hdrs (s_enabled s) else s_enabled s' = s_enabled s).
Proof.
  intros cfg s enable seq hdrs s' r H. unfold enable_disable in H.
  destruct (o_unsol cfg); cbn [negb] in H.
  - fold (cls_step enable) in H. unfold set_classes.
    destruct (fold_left (cls_step enable) hdrs (s_enabled s, 0)) as [e v] eqn:E.
    inv_pair H. split; reflexivity.
  - inv_pair H. split; reflexivity.
Qed.
