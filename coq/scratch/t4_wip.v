From Dnp3V Require Import Base.Bytes Master.MParse Master.Command Master.MTask.
Import MP MCmd MT.
Section T.
Variable cfg : mcfg.
Hypothesis Htimeout : 1 <= c_timeout cfg.
Check Htimeout.
Lemma x st : s_now st < s_now st + c_timeout cfg.
Proof. Fail lia. pose proof Htimeout as H. Fail lia. 
  assert (0 < c_timeout cfg) by lia. Show. lia. Qed.
End T.
