From Dnp3V Require Import Base.Bytes Master.MParse Master.Command Master.CommandProofs Master.MTask Master.MTaskProofs_wip.
Import MP MCmd MT.

Transparent emit.

Definition expects (st : mstate) (h : rhdr) : Prop :=
  match s_run st with
  | RNonRead _ seq _ _ => c_seq (h_ctrl h) = seq /\ c_fir (h_ctrl h) = true /\ c_fin (h_ctrl h) = true
  | RRead _ seq first _ _ =>
    c_seq (h_ctrl h) = seq /\ c_fir (h_ctrl h) = first /\ (c_fin (h_ctrl h) = true \/ c_con (h_ctrl h) = true)
  | _ => False
  end.

Lemma in_deliver_success st rt h items ty fc s : ~ In (OInfoSuccess ty fc s) (map snd (deliver st rt h items)).
Proof.
  unfold deliver. rewrite !map_app, !in_app_iff. cbn. intros [H|[H|H]].
  - destruct H as [H|[]]; discriminate.
  - induction items; cbn in H; [exact H|]. destruct H as [H|H]; [discriminate|auto].
  - destruct H as [H|[]]; discriminate.
Qed.

Ltac brk :=
  match goal with
  | H : (let '(_, _) := ?x in _) = _ |- _ => destruct x as [? ?] eqn:?
  | H : context [match ?x with _ => _ end] |- _ =>
      lazymatch x with
      | context [match _ with _ => _ end] => fail
      | _ => destruct x eqn:?
      end
  | H : (_, _) = (_, _) |- _ => injection H as <- <-
  end.

Lemma on_rx_success cfg st src frag v items st1 o1 ty fc s :
  on_rx cfg st src frag v items = (st1, o1) -> In (OInfoSuccess ty fc s) (map snd o1) ->
  exists h objs, parse_response frag = PResponse h objs /\ h_unsol h = false /\ src = c_addr cfg /\
     s_conn st = true /\ expects st h /\ c_fin (h_ctrl h) = true /\ c_seq (h_ctrl h) = s /\
     iin2_bad (h_iin2 h) = false.
Proof.
  intros H Hin. unfold on_rx in H.
  Time repeat brk.
  all: try (cbn in Hin; tauto).
  Show.
Abort.
