From Dnp3V Require Import Outstation.Session Outstation.SessionLemmas_c14.
Open Scope N_scope.

(* ---------- kinds of observations ------------------------------------------------------------------ *)

(* an observation of the solicited side: nothing the unsolicited rules talk about *)
Definition solob (o : oobs) : Prop :=
  match o with
  | OTx _ b => nth 1 b 0 = 129
  | ODb (DbWriteUnsol _ _ _) | ODb DbDeferredSelect => False
  | ODb _ => True
  | OCb _ => True
  | OInfo (IEnterUnsolWait _) | OInfo (IUnsolTimeout _ _) | OInfo (IUnsolConfirmed _) => False
  | OInfo _ => True
  | OMissingAnswer => True
  | OSessionEnd | OAt _ | OOutOfFuel => False
  end.

(* the event-info probe of get_response_iin *)
Definition evq (o : oobs) : Prop := o = ODb DbEvinfo \/ o = OMissingAnswer.

(* executing a request: callbacks and the clearing of RESTART *)
Definition exob (o : oobs) : Prop :=
  match o with OCb _ | OInfo IClearRestart => True | _ => False end.

Lemma evq_solob : forall o, evq o -> solob o.
Proof. intros o [H|H]; subst; exact I. Qed.

Lemma exob_solob : forall o, exob o -> solob o.
Proof. intros [] H; try destruct H; try exact I. destruct i; try destruct H; exact I. Qed.

Lemma Forall_imp : forall (P Q : oobs -> Prop) l, (forall o, P o -> Q o) -> Forall P l -> Forall Q l.
Proof. intros P Q l H F. eapply Forall_impl; eauto. Qed.

Ltac fa_tac := repeat (apply Forall_app; split); repeat (first [apply Forall_nil | apply Forall_cons]);
  cbn; auto.

Lemma ask_evinfo_out : forall s s' x o, ask_evinfo s = (s', x, o) -> Forall evq o.
Proof.
  intros s s' x o H. unfold ask_evinfo in H.
  destruct (s_answers s) as [|[] rest]; inv_pair H; unfold evq; fa_tac.
Qed.

Lemma response_iin_out : forall s s' x o, response_iin s = (s', x, o) -> Forall evq o.
Proof.
  intros s s' x o H. unfold response_iin in H.
  destruct (ask_evinfo s) as [[s1 [[[c1 c2] c3] ovf]] o1] eqn:E.
  apply ask_evinfo_out in E. inv_pair H. exact E.
Qed.

Lemma nth1_response_bytes : forall r buf, nth 1 (response_bytes r buf) 0 = r_fn r.
Proof. reflexivity. Qed.

Lemma nth0_response_bytes : forall r buf, nth 0 (response_bytes r buf) 0 = r_ctl r.
Proof. reflexivity. Qed.

Lemma ctl_seq_set_con : forall c, ctl_seq (set_con c) = ctl_seq c.
Proof.
  intros c. unfold set_con, ctl_seq. destruct (ctl_con c); [reflexivity|].
  replace (c + 32) with (c + 2 * 16) by lia. rewrite N.mod_add by lia. reflexivity.
Qed.

(* write_solicited: the probe, then exactly one fragment to `dest` *)
Lemma write_solicited_spec : forall s d r s' r' o,
  write_solicited s d r = (s', r', o) ->
  exists o1, o = o1 ++ [OTx d (response_bytes r' (s_sol_buf s'))] /\ Forall evq o1 /\
             r_fn r' = r_fn r /\ ctl_seq (r_ctl r') = ctl_seq (r_ctl r) /\ r_size r' = r_size r /\
             s_sol_buf s' = s_sol_buf s.
Proof.
  intros s d r s' r' o H. unfold write_solicited in H.
  destruct (response_iin s) as [[s1 iin] o1] eqn:E.
  pose proof (response_iin_out _ _ _ _ E) as Ho.
  assert (Hb : s_sol_buf s1 = s_sol_buf s).
  { unfold response_iin in E. destruct (ask_evinfo s) as [[s0 [[[c1 c2] c3] ovf]] o0] eqn:E0.
    inv_pair E. unfold ask_evinfo in E0.
    destruct (s_answers s) as [|[] rest]; inv_pair E0; destruct (s_last_bcast _) as [[]|]; reflexivity. }
  inv_pair H. exists o1. repeat split; auto.
  - destruct (s_last_bcast s') as [[]|]; reflexivity.
  - destruct (s_last_bcast s') as [[]|]; try reflexivity.
    cbn [with_ctl r_ctl or_iin]. apply ctl_seq_set_con.
  - destruct (s_last_bcast s') as [[]|]; reflexivity.
Qed.

Lemma write_solicited_out : forall s d r s' r' o,
  write_solicited s d r = (s', r', o) -> r_fn r = 129 -> Forall solob o /\ r_fn r' = 129.
Proof.
  intros s d r s' r' o H Hr. apply write_solicited_spec in H.
  destruct H as (o1 & -> & Ho & Hf & _). split; [|congruence].
  apply Forall_app; split; [eapply Forall_imp; [apply evq_solob|exact Ho]|].
  constructor; [|constructor]. cbn [solob]. rewrite nth1_response_bytes. congruence.
Qed.

(* ---------- outputs of request execution -------------------------------------------------------- *)

Lemma write_iin_bits_out : forall bits s s' v o, write_iin_bits s bits = (s', v, o) -> Forall exob o.
Proof.
  induction bits as [|[idx value] rest IH]; intros s s' v o H; cbn [write_iin_bits] in H.
  - inv_pair H. constructor.
  - destruct (idx =? 7).
    + destruct value.
      * destruct (write_iin_bits s rest) as [[s1 v1] o1] eqn:E. inv_pair H. eauto.
      * destruct (write_iin_bits (upd_restart s false) rest) as [[s1 v1] o1] eqn:E. inv_pair H.
        constructor; [exact I|eauto].
    + destruct (write_iin_bits s rest) as [[s1 v1] o1] eqn:E. inv_pair H. eauto.
Qed.

Lemma write_header_out : forall cfg s h s' v o, write_header cfg s h = (s', v, o) -> Forall exob o.
Proof.
  intros cfg s h s' v o H. unfold write_header in H.
  destruct h as [bits|t|t| | | | | | | |]; try (inv_pair H; fa_tac).
  - eapply write_iin_bits_out; eauto.
  - destruct t; inv_pair H; fa_tac.
  - destruct t as [t|]; [|inv_pair H; fa_tac].
    destruct (s_last_recorded s); [|inv_pair H; fa_tac].
    destruct (_ <? _); inv_pair H; fa_tac.
Qed.

Lemma handle_write_headers_out : forall cfg hdrs s s' v o,
  handle_write_headers cfg s hdrs = (s', v, o) -> Forall exob o.
Proof.
  induction hdrs as [|h rest IH]; intros s s' v o H; cbn [handle_write_headers] in H.
  - inv_pair H. constructor.
  - destruct (write_header cfg s h) as [[s1 v1] o1] eqn:E1.
    destruct (handle_write_headers cfg s1 rest) as [[s2 v2] o2] eqn:E2.
    inv_pair H. apply Forall_app; split; [eapply write_header_out; eauto|eauto].
Qed.

Lemma freeze_header_out : forall cfg ft t i h v o, freeze_header cfg ft t i h = (v, o) -> Forall exob o.
Proof. intros cfg ft t i h v o H. unfold freeze_header in H. destruct h; inv_pair H; fa_tac. Qed.

Lemma handle_freeze_out : forall cfg ft hdrs v o, handle_freeze cfg ft hdrs = (v, o) -> Forall exob o.
Proof.
  induction hdrs as [|h rest IH]; intros v o H; cbn [handle_freeze] in H.
  - inv_pair H. constructor.
  - destruct (freeze_header cfg ft 0 0 h) as [v1 o1] eqn:E1.
    destruct (handle_freeze cfg ft rest) as [v2 o2] eqn:E2. inv_pair H.
    apply Forall_app; split; [eapply freeze_header_out; eauto|eauto].
Qed.

Lemma handle_freeze_at_time_out : forall cfg hdrs timing v o,
  handle_freeze_at_time cfg timing hdrs = (v, o) -> Forall exob o.
Proof.
  induction hdrs as [|h rest IH]; intros timing v o H; cbn [handle_freeze_at_time] in H.
  - inv_pair H. constructor.
  - assert (Hgen : forall v o,
      match timing with
      | None => let '(v, o) := handle_freeze_at_time cfg timing rest in (N.lor iin2_param v, o)
      | Some (t, i) =>
          let '(v1, o1) := freeze_header cfg 2 t i h in
          let '(v2, o2) := handle_freeze_at_time cfg timing rest in
          (N.lor v1 v2, o1 ++ o2)
      end = (v, o) -> Forall exob o).
    { intros v' o' H'. destruct timing as [[t i]|].
      - destruct (freeze_header cfg 2 t i h) as [v1 o1] eqn:E1.
        destruct (handle_freeze_at_time cfg (Some (t, i)) rest) as [v2 o2] eqn:E2. inv_pair H'.
        apply Forall_app; split; [eapply freeze_header_out; eauto|eauto].
      - destruct (handle_freeze_at_time cfg None rest) as [v2 o2] eqn:E2. inv_pair H'. eauto. }
    destruct h; try (apply Hgen in H; exact H).
    destruct x as [x|].
    + eauto.
    + destruct (handle_freeze_at_time cfg timing rest) as [v2 o2] eqn:E2. inv_pair H. eauto.
Qed.

Lemma ctl_one_header_out : forall s cfg cap mode g v prefix items written n hs num started w ok o st num' started',
  ctl_one_header s cfg cap mode g v prefix written n hs num started items = (w, ok, o, st, num', started') ->
  Forall exob o.
Proof.
  induction items as [|[idx obj] rest IH]; intros written n hs num started w ok o st num' started' H;
    cbn [ctl_one_header] in H.
  - inv_pair H. constructor.
  - destruct (item_status s cfg mode num) as [st0 consulted].
    destruct (echo_items cap g v prefix written n hs [(idx, replace_status obj st0)]) as [w1 ok1].
    assert (Hcb : Forall exob (if consulted
               then (if started then [] else [OCb CbBeginFragment]) ++
                    [OCb match mode with CmOperate t => CbOperate g v idx t obj | _ => CbSelect g v idx obj end]
               else [])).
    { destruct consulted, started; fa_tac. }
    destruct ok1.
    + destruct (ctl_one_header s cfg cap mode g v prefix w1 (n + 1) hs (num + 1) (started || consulted) rest)
        as [[[[[w2 ok2] cbs] st2] num2] started2] eqn:E.
      inv_pair H. apply Forall_app; split; [exact Hcb|eauto].
    + inv_pair H. exact Hcb.
Qed.

Lemma ctl_headers_out : forall s cfg cap mode hdrs written num started w ok o st started',
  ctl_headers s cfg cap mode written num started hdrs = (w, ok, o, st, started') -> Forall exob o.
Proof.
  induction hdrs as [|h rest IH]; intros written num started w ok o st started' H; cbn [ctl_headers] in H.
  - inv_pair H. constructor.
  - destruct h; eauto.
    destruct (ctl_one_header s cfg cap mode g v prefix written 0 (length written) num started items)
      as [[[[[w1 ok1] cbs] st1] num1] started1] eqn:E1.
    apply ctl_one_header_out in E1.
    destruct ok1.
    + destruct (ctl_headers s cfg cap mode w1 num1 started1 rest) as [[[[w2 ok2] cbs2] st2] started2] eqn:E2.
      inv_pair H. apply Forall_app; split; eauto.
    + inv_pair H. exact E1.
Qed.

Lemma noack_items_out : forall s cfg g v items num started o num' started',
  noack_items s cfg g v num started items = (o, num', started') -> Forall exob o.
Proof.
  induction items as [|[idx obj] rest IH]; intros num started o num' started' H; cbn [noack_items] in H.
  - inv_pair H. constructor.
  - destruct (noack_items s cfg g v (num + 1)
               (started || match o_max_controls cfg with None => true | Some m => num <? m end) rest)
      as [[cbs n1] st1] eqn:E.
    inv_pair H. apply Forall_app; split; [|eauto].
    destruct (match o_max_controls cfg with None => true | Some m => num <? m end), started; fa_tac.
Qed.

Lemma noack_headers_out : forall s cfg hdrs num started o started',
  noack_headers s cfg num started hdrs = (o, started') -> Forall exob o.
Proof.
  induction hdrs as [|h rest IH]; intros num started o started' H; cbn [noack_headers] in H.
  - inv_pair H. constructor.
  - destruct h; eauto.
    destruct (noack_items s cfg g v num started items) as [[cbs n1] st1] eqn:E1.
    destruct (noack_headers s cfg n1 st1 rest) as [cbs2 st2] eqn:E2.
    inv_pair H. apply Forall_app; split; [eapply noack_items_out; eauto|eauto].
Qed.

Definition sol_ctl (seq : N) : N := ctl_byte true true false false seq.

(* a response produced by executing a request *)
Definition req_resp (seq : N) (r : response) : Prop := r_fn r = 129 /\ r_ctl r = sol_ctl seq.

Lemma handle_controls_out : forall cfg s fn seq fid bytes hdrs s' r o,
  handle_controls cfg s fn seq fid bytes hdrs = (s', r, o) ->
  Forall exob o /\ (forall x, r = Some x -> req_resp seq x) /\ (r = None -> fn = 6).
Proof.
  intros cfg s fn seq fid bytes hdrs s' r o H. unfold handle_controls in H.
  assert (Hfin : forall b : bool, Forall exob (if b then [OCb CbEndFragment] else [])).
  { intros []; fa_tac. }
  destruct (negb (all_controls hdrs)).
  { inv_pair H. split; [constructor|]. split.
    - intros x Hx. destruct (fn =? fn_direct_operate_nr); inversion Hx; subst. split; reflexivity.
    - destruct (fn =? fn_direct_operate_nr) eqn:E; [|discriminate]. intros _. apply N.eqb_eq in E. exact E. }
  destruct (fn =? fn_direct_operate_nr) eqn:Enr.
  { destruct (noack_headers s cfg 0 false hdrs) as [cbs started] eqn:E. inv_pair H.
    split; [apply Forall_app; split; [eapply noack_headers_out; eauto|apply Hfin]|].
    split; [discriminate|]. intros _. apply N.eqb_eq in Enr. exact Enr. }
  destruct (fn =? fn_select).
  { destruct (ctl_headers s cfg (o_sol_tx cfg - 4) CmSelect [] 0 false hdrs) as [[[[echo ok] cbs] st] started] eqn:E.
    inv_pair H. split; [apply Forall_app; split; [eapply ctl_headers_out; eauto|apply Hfin]|].
    split; [|discriminate]. intros x Hx. inversion Hx; subst. split; reflexivity. }
  destruct (fn =? fn_direct_operate).
  { destruct (ctl_headers s cfg (o_sol_tx cfg - 4) (CmOperate OpDo) [] 0 false hdrs) as [[[[echo ok] cbs] st] started] eqn:E.
    inv_pair H. split; [apply Forall_app; split; [eapply ctl_headers_out; eauto|apply Hfin]|].
    split; [|discriminate]. intros x Hx. inversion Hx; subst. split; reflexivity. }
  destruct (match s_select s with Some sel => _ | None => _ end).
  - destruct (ctl_headers s cfg (o_sol_tx cfg - 4) (CmStatus n) [] 0 false hdrs) as [[[[echo ok] cbs] st] started] eqn:E.
    inv_pair H. split; [constructor|]. split; [|discriminate].
    intros x Hx. inversion Hx; subst. split; reflexivity.
  - destruct (ctl_headers s cfg (o_sol_tx cfg - 4) (CmOperate OpSbo) [] 0 false hdrs) as [[[[echo ok] cbs] st] started] eqn:E.
    inv_pair H. split; [apply Forall_app; split; [eapply ctl_headers_out; eauto|apply Hfin]|].
    split; [|discriminate]. intros x Hx. inversion Hx; subst. split; reflexivity.
Qed.

Lemma frame_gview : forall s s', frame s s' -> gview s' = gview s /\ s_enabled s' = s_enabled s.
Proof. unfold frame, fview, gview. intros s s' H. split; congruence. Qed.

Definition noresp_fn (fn : N) : Prop := fn = 6 \/ fn = 8 \/ fn = 10 \/ fn = 12.

Lemma restart_response_resp : forall seq s d s' r, restart_response seq s d = (s', r) -> req_resp seq r.
Proof.
  intros seq s d s' r H. unfold restart_response in H.
  destruct d as [[ms v]|]; inv_pair H; split; reflexivity.
Qed.

Lemma req_resp_empty : forall seq v, req_resp seq (empty_solicited seq v).
Proof. intros; split; reflexivity. Qed.

Definition enabled_change (cfg : ocfg) (fn : N) (hdrs : list whdr) (s s' : ostate) : Prop :=
  s_enabled s' = s_enabled s \/
  (o_unsol cfg = true /\ (fn = 20 \/ fn = 21) /\ s_enabled s' = set_classes (fn =? 20) hdrs (s_enabled s)).

Lemma handle_non_read_spec : forall cfg s fn seq fid bytes hdrs s' r o,
  handle_non_read cfg s fn seq fid bytes hdrs = (s', r, o) ->
  gview s' = gview s /\ Forall exob o /\
  (forall x, r = Some x -> req_resp seq x) /\ (r = None -> noresp_fn fn) /\
  enabled_change cfg fn hdrs s s'.
Proof.
  intros cfg s fn seq fid bytes hdrs s' r o H. unfold handle_non_read in H. cbv beta zeta in H.
  match type of H with (let '(_, _) := ?X in _) = _ => destruct X as [[s1 r1] o1] eqn:E end.
  inv_pair H.
  assert (Hin : gview s' = gview s /\ Forall exob o /\
                (forall x, r1 = Some x -> req_resp seq x) /\ (r1 = None -> noresp_fn fn) /\
                enabled_change cfg fn hdrs s s').
  2:{ destruct Hin as (Hg & Ho & Hr & Hn & He). repeat split; auto.
      - intros x Hx. destruct r1 as [r1|]; [|discriminate]. inversion Hx; subst.
        destruct (Hr r1 eq_refl) as [Hf Hc]. split; [exact Hf|exact Hc].
      - intros Hx. destruct r1; [discriminate|]. auto. }
  clear r.
  assert (Hfr : forall s0, frame s s0 -> gview s0 = gview s /\ enabled_change cfg fn hdrs s s0).
  { intros s0 Hf. apply frame_gview in Hf. destruct Hf as [Hg He]. split; [exact Hg|left; exact He]. }
  assert (Hsome : forall x v, Some (empty_solicited seq v) = Some x -> req_resp seq x).
  { intros x v Hx. inversion Hx; subst. apply req_resp_empty. }
  destruct (fn =? fn_write) eqn:E1.
  { destruct (handle_write_headers cfg s hdrs) as [[s2 v] o2] eqn:E2. inv_pair E.
    destruct (Hfr _ (handle_write_headers_frame _ _ _ _ _ _ E2)) as [Hg He].
    repeat split; eauto using handle_write_headers_out. discriminate. }
  destruct (fn =? fn_delay_measure) eqn:E2.
  { inv_pair E. repeat split; try constructor; try discriminate; try reflexivity.
    intros x Hx. inversion Hx; subst. split; reflexivity. }
  destruct (fn =? fn_record_time) eqn:E3.
  { inv_pair E. repeat split; try constructor; try discriminate; try reflexivity; eauto. }
  destruct (fn =? fn_cold_restart) eqn:E4.
  { destruct (restart_response seq s (o_cold cfg)) as [s2 r2] eqn:Er. inv_pair E.
    destruct (Hfr _ (restart_response_frame _ _ _ _ _ Er)) as [Hg He].
    repeat split; auto; try discriminate; [fa_tac|].
    intros x Hx. inversion Hx; subst. eapply restart_response_resp; eauto. }
  destruct (fn =? fn_warm_restart) eqn:E5.
  { destruct (restart_response seq s (o_warm cfg)) as [s2 r2] eqn:Er. inv_pair E.
    destruct (Hfr _ (restart_response_frame _ _ _ _ _ Er)) as [Hg He].
    repeat split; auto; try discriminate; [fa_tac|].
    intros x Hx. inversion Hx; subst. eapply restart_response_resp; eauto. }
  destruct ((fn =? fn_select) || (fn =? fn_operate) || (fn =? fn_direct_operate) || (fn =? fn_direct_operate_nr)) eqn:E6.
  { destruct (Hfr _ (handle_controls_frame _ _ _ _ _ _ _ _ _ _ E)) as [Hg He].
    destruct (handle_controls_out _ _ _ _ _ _ _ _ _ _ E) as (Ho & Hr & Hn).
    repeat split; auto. intros Hx. left. auto. }
  destruct (fn =? fn_immediate_freeze) eqn:E7.
  { destruct (handle_freeze cfg 0 hdrs) as [v o2] eqn:Ef. inv_pair E.
    destruct (Hfr s' (frame_refl _)) as [Hg He].
    repeat split; eauto using handle_freeze_out. discriminate. }
  destruct (fn =? fn_immediate_freeze_nr) eqn:E8.
  { destruct (handle_freeze cfg 0 hdrs) as [v o2] eqn:Ef. inv_pair E.
    destruct (Hfr s' (frame_refl _)) as [Hg He]. apply N.eqb_eq in E8.
    repeat split; eauto using handle_freeze_out; try discriminate. intros _. right; left. exact E8. }
  destruct (fn =? fn_freeze_clear) eqn:E9.
  { destruct (handle_freeze cfg 1 hdrs) as [v o2] eqn:Ef. inv_pair E.
    destruct (Hfr s' (frame_refl _)) as [Hg He].
    repeat split; eauto using handle_freeze_out. discriminate. }
  destruct (fn =? fn_freeze_clear_nr) eqn:E10.
  { destruct (handle_freeze cfg 1 hdrs) as [v o2] eqn:Ef. inv_pair E.
    destruct (Hfr s' (frame_refl _)) as [Hg He]. apply N.eqb_eq in E10.
    repeat split; eauto using handle_freeze_out; try discriminate. intros _. right; right; left. exact E10. }
  destruct (fn =? fn_freeze_at_time) eqn:E11.
  { destruct (handle_freeze_at_time cfg None hdrs) as [v o2] eqn:Ef. inv_pair E.
    destruct (Hfr s' (frame_refl _)) as [Hg He].
    repeat split; eauto using handle_freeze_at_time_out. discriminate. }
  destruct (fn =? fn_freeze_at_time_nr) eqn:E12.
  { destruct (handle_freeze_at_time cfg None hdrs) as [v o2] eqn:Ef. inv_pair E.
    destruct (Hfr s' (frame_refl _)) as [Hg He]. apply N.eqb_eq in E12.
    repeat split; eauto using handle_freeze_at_time_out; try discriminate. intros _. right; right; right. exact E12. }
  destruct (fn =? fn_enable_unsol) eqn:E13.
  { destruct (enable_disable cfg s true seq hdrs) as [s2 r2] eqn:Ee. inv_pair E.
    pose proof Ee as Ee'. apply enable_disable_spec in Ee. destruct Ee as [Hg He].
    apply N.eqb_eq in E13. subst fn.
    repeat split; auto; try constructor; try discriminate.
    - intros x Hx. inversion Hx; subst. unfold enable_disable in Ee'.
      destruct (negb (o_unsol cfg)); [inv_pair Ee'; apply req_resp_empty|].
      destruct (fold_left _ hdrs (s_enabled s, 0)) as [e v]. inv_pair Ee'. apply req_resp_empty.
    - destruct (o_unsol cfg) eqn:Eu; [right|left; exact He]. repeat split; auto. }
  destruct (fn =? fn_disable_unsol) eqn:E14.
  { destruct (enable_disable cfg s false seq hdrs) as [s2 r2] eqn:Ee. inv_pair E.
    pose proof Ee as Ee'. apply enable_disable_spec in Ee. destruct Ee as [Hg He].
    apply N.eqb_eq in E14. subst fn.
    repeat split; auto; try constructor; try discriminate.
    - intros x Hx. inversion Hx; subst. unfold enable_disable in Ee'.
      destruct (negb (o_unsol cfg)); [inv_pair Ee'; apply req_resp_empty|].
      destruct (fold_left _ hdrs (s_enabled s, 0)) as [e v]. inv_pair Ee'. apply req_resp_empty.
    - destruct (o_unsol cfg) eqn:Eu; [right|left; exact He]. repeat split; auto. }
  inv_pair E. destruct (Hfr s' (frame_refl _)) as [Hg He].
  repeat split; eauto; try constructor; try discriminate.
Qed.
