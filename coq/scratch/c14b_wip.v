From Dnp3V Require Import Outstation.Session Outstation.SessionLemmas_c14.
Open Scope N_scope.

(* ---------- kinds of observations ------------------------------------------------------------------ *)

(* an observation of the solicited side: nothing the unsolicited rules talk about *)
Definition solob (o : oobs) : Prop :=
  match o with
  | OTx _ b => nth 1 b 0 = 129
  | ODb (DbWriteUnsol _ _ _) | ODb DbDeferredSelect => False
  | ODb _ => True
  | OCb _ => True
  | OInfo (IEnterUnsolWait _) | OInfo (IUnsolTimeout _ _) | OInfo (IUnsolConfirmed _) => False
  | OInfo _ => True
  | OMissingAnswer => True
  | OSessionEnd | OAt _ | OOutOfFuel => False
  end.

(* the event-info probe of get_response_iin *)
Definition evq (o : oobs) : Prop := o = ODb DbEvinfo \/ o = OMissingAnswer.

(* executing a request: callbacks and the clearing of RESTART *)
Definition exob (o : oobs) : Prop :=
  match o with OCb _ | OInfo IClearRestart => True | _ => False end.

Lemma evq_solob : forall o, evq o -> solob o.
Proof. intros o [H|H]; subst; exact I. Qed.

Lemma exob_solob : forall o, exob o -> solob o.
Proof. intros [] H; try destruct H; try exact I. destruct i; try destruct H; exact I. Qed.

Lemma Forall_imp : forall (P Q : oobs -> Prop) l, (forall o, P o -> Q o) -> Forall P l -> Forall Q l.
Proof. intros P Q l H F. eapply Forall_impl; eauto. Qed.

Ltac fa_tac := repeat (apply Forall_app; split); repeat (first [apply Forall_nil | apply Forall_cons]);
  cbn; auto.

Lemma ask_evinfo_out : forall s s' x o, ask_evinfo s = (s', x, o) -> Forall evq o.
Proof.
  intros s s' x o H. unfold ask_evinfo in H.
  destruct (s_answers s) as [|[] rest]; inv_pair H; unfold evq; fa_tac.
Qed.

Lemma response_iin_out : forall s s' x o, response_iin s = (s', x, o) -> Forall evq o.
Proof.
  intros s s' x o H. unfold response_iin in H.
  destruct (ask_evinfo s) as [[s1 [[[c1 c2] c3] ovf]] o1] eqn:E.
  apply ask_evinfo_out in E. inv_pair H. exact E.
Qed.

Lemma nth1_response_bytes : forall r buf, nth 1 (response_bytes r buf) 0 = r_fn r.
Proof. reflexivity. Qed.

Lemma nth0_response_bytes : forall r buf, nth 0 (response_bytes r buf) 0 = r_ctl r.
Proof. reflexivity. Qed.

Lemma ctl_seq_set_con : forall c, ctl_seq (set_con c) = ctl_seq c.
Proof.
  intros c. unfold set_con, ctl_seq. destruct (ctl_con c); [reflexivity|].
  replace (c + 32) with (c + 2 * 16) by lia. rewrite N.mod_add by lia. reflexivity.
Qed.

(* write_solicited: the probe, then exactly one fragment to `dest` *)
Lemma write_solicited_spec : forall s d r s' r' o,
  write_solicited s d r = (s', r', o) ->
  exists o1, o = o1 ++ [OTx d (response_bytes r' (s_sol_buf s'))] /\ Forall evq o1 /\
             r_fn r' = r_fn r /\ ctl_seq (r_ctl r') = ctl_seq (r_ctl r) /\ r_size r' = r_size r /\
             s_sol_buf s' = s_sol_buf s.
Proof.
  intros s d r s' r' o H. unfold write_solicited in H.
  destruct (response_iin s) as [[s1 iin] o1] eqn:E.
  pose proof (response_iin_out _ _ _ _ E) as Ho.
  assert (Hb : s_sol_buf s1 = s_sol_buf s).
  { unfold response_iin in E. destruct (ask_evinfo s) as [[s0 [[[c1 c2] c3] ovf]] o0] eqn:E0.
    inv_pair E. unfold ask_evinfo in E0.
    destruct (s_answers s) as [|[] rest]; inv_pair E0; destruct (s_last_bcast _) as [[]|]; reflexivity. }
  inv_pair H. exists o1. repeat split; auto.
  - destruct (s_last_bcast s') as [[]|]; reflexivity.
  - destruct (s_last_bcast s') as [[]|]; try reflexivity.
    cbn [with_ctl r_ctl or_iin]. apply ctl_seq_set_con.
  - destruct (s_last_bcast s') as [[]|]; reflexivity.
Qed.

Lemma write_solicited_out : forall s d r s' r' o,
  write_solicited s d r = (s', r', o) -> r_fn r = 129 -> Forall solob o /\ r_fn r' = 129.
Proof.
  intros s d r s' r' o H Hr. apply write_solicited_spec in H.
  destruct H as (o1 & -> & Ho & Hf & _). split; [|congruence].
  apply Forall_app; split; [eapply Forall_imp; [apply evq_solob|exact Ho]|].
  constructor; [|constructor]. cbn [solob]. rewrite nth1_response_bytes. congruence.
Qed.

(* ---------- outputs of request execution -------------------------------------------------------- *)

Lemma write_iin_bits_out : forall bits s s' v o, write_iin_bits s bits = (s', v, o) -> Forall exob o.
Proof.
  induction bits as [|[idx value] rest IH]; intros s s' v o H; cbn [write_iin_bits] in H.
  - inv_pair H. constructor.
  - destruct (idx =? 7).
    + destruct value.
      * destruct (write_iin_bits s rest) as [[s1 v1] o1] eqn:E. inv_pair H. eauto.
      * destruct (write_iin_bits (upd_restart s false) rest) as [[s1 v1] o1] eqn:E. inv_pair H.
        constructor; [exact I|eauto].
    + destruct (write_iin_bits s rest) as [[s1 v1] o1] eqn:E. inv_pair H. eauto.
Qed.

Lemma write_header_out : forall cfg s h s' v o, write_header cfg s h = (s', v, o) -> Forall exob o.
Proof.
  intros cfg s h s' v o H. unfold write_header in H.
  destruct h as [bits|t|t| | | | | | | |]; try (inv_pair H; fa_tac).
  - eapply write_iin_bits_out; eauto.
  - destruct t; inv_pair H; fa_tac.
  - destruct t as [t|]; [|inv_pair H; fa_tac].
    destruct (s_last_recorded s); [|inv_pair H; fa_tac].
    destruct (_ <? _); inv_pair H; fa_tac.
Qed.

Lemma handle_write_headers_out : forall cfg hdrs s s' v o,
  handle_write_headers cfg s hdrs = (s', v, o) -> Forall exob o.
Proof.
  induction hdrs as [|h rest IH]; intros s s' v o H; cbn [handle_write_headers] in H.
  - inv_pair H. constructor.
  - destruct (write_header cfg s h) as [[s1 v1] o1] eqn:E1.
    destruct (handle_write_headers cfg s1 rest) as [[s2 v2] o2] eqn:E2.
    inv_pair H. apply Forall_app; split; [eapply write_header_out; eauto|eauto].
Qed.

Lemma freeze_header_out : forall cfg ft t i h v o, freeze_header cfg ft t i h = (v, o) -> Forall exob o.
Proof. intros cfg ft t i h v o H. unfold freeze_header in H. destruct h; inv_pair H; fa_tac. Qed.

Lemma handle_freeze_out : forall cfg ft hdrs v o, handle_freeze cfg ft hdrs = (v, o) -> Forall exob o.
Proof.
  induction hdrs as [|h rest IH]; intros v o H; cbn [handle_freeze] in H.
  - inv_pair H. constructor.
  - destruct (freeze_header cfg ft 0 0 h) as [v1 o1] eqn:E1.
    destruct (handle_freeze cfg ft rest) as [v2 o2] eqn:E2. inv_pair H.
    apply Forall_app; split; [eapply freeze_header_out; eauto|eauto].
Qed.

Lemma handle_freeze_at_time_out : forall cfg hdrs timing v o,
  handle_freeze_at_time cfg timing hdrs = (v, o) -> Forall exob o.
Proof.
  induction hdrs as [|h rest IH]; intros timing v o H; cbn [handle_freeze_at_time] in H.
  - inv_pair H. constructor.
  - assert (Hgen : forall v o,
      match timing with
      | None => let '(v, o) := handle_freeze_at_time cfg timing rest in (N.lor iin2_param v, o)
      | Some (t, i) =>
          let '(v1, o1) := freeze_header cfg 2 t i h in
          let '(v2, o2) := handle_freeze_at_time cfg timing rest in
          (N.lor v1 v2, o1 ++ o2)
      end = (v, o) -> Forall exob o).
    { intros v' o' H'. destruct timing as [[t i]|].
      - destruct (freeze_header cfg 2 t i h) as [v1 o1] eqn:E1.
        destruct (handle_freeze_at_time cfg (Some (t, i)) rest) as [v2 o2] eqn:E2. inv_pair H'.
        apply Forall_app; split; [eapply freeze_header_out; eauto|eauto].
      - destruct (handle_freeze_at_time cfg None rest) as [v2 o2] eqn:E2. inv_pair H'. eauto. }
    destruct h; try (apply Hgen in H; exact H).
    destruct x as [x|].
    + eauto.
    + destruct (handle_freeze_at_time cfg timing rest) as [v2 o2] eqn:E2. inv_pair H. eauto.
Qed.

Lemma ctl_one_header_out : forall s cfg cap mode g v prefix items written n hs num started w ok o st num' started',
  ctl_one_header s cfg cap mode g v prefix written n hs num started items = (w, ok, o, st, num', started') ->
  Forall exob o.
Proof.
  induction items as [|[idx obj] rest IH]; intros written n hs num started w ok o st num' started' H;
    cbn [ctl_one_header] in H.
  - inv_pair H. constructor.
  - destruct (item_status s cfg mode num) as [st0 consulted].
    destruct (echo_items cap g v prefix written n hs [(idx, replace_status obj st0)]) as [w1 ok1].
    assert (Hcb : Forall exob (if consulted
               then (if started then [] else [OCb CbBeginFragment]) ++
                    [OCb match mode with CmOperate t => CbOperate g v idx t obj | _ => CbSelect g v idx obj end]
               else [])).
    { destruct consulted, started; fa_tac. }
    destruct ok1.
    + destruct (ctl_one_header s cfg cap mode g v prefix w1 (n + 1) hs (num + 1) (started || consulted) rest)
        as [[[[[w2 ok2] cbs] st2] num2] started2] eqn:E.
      inv_pair H. apply Forall_app; split; [exact Hcb|eauto].
    + inv_pair H. exact Hcb.
Qed.

Lemma ctl_headers_out : forall s cfg cap mode hdrs written num started w ok o st started',
  ctl_headers s cfg cap mode written num started hdrs = (w, ok, o, st, started') -> Forall exob o.
Proof.
  induction hdrs as [|h rest IH]; intros written num started w ok o st started' H; cbn [ctl_headers] in H.
  - inv_pair H. constructor.
  - destruct h; eauto.
    destruct (ctl_one_header s cfg cap mode g v prefix written 0 (length written) num started items)
      as [[[[[w1 ok1] cbs] st1] num1] started1] eqn:E1.
    apply ctl_one_header_out in E1.
    destruct ok1.
    + destruct (ctl_headers s cfg cap mode w1 num1 started1 rest) as [[[[w2 ok2] cbs2] st2] started2] eqn:E2.
      inv_pair H. apply Forall_app; split; eauto.
    + inv_pair H. exact E1.
Qed.

Lemma noack_items_out : forall s cfg g v items num started o num' started',
  noack_items s cfg g v num started items = (o, num', started') -> Forall exob o.
Proof.
  induction items as [|[idx obj] rest IH]; intros num started o num' started' H; cbn [noack_items] in H.
  - inv_pair H. constructor.
  - destruct (noack_items s cfg g v (num + 1)
               (started || match o_max_controls cfg with None => true | Some m => num <? m end) rest)
      as [[cbs n1] st1] eqn:E.
    inv_pair H. apply Forall_app; split; [|eauto].
    destruct (match o_max_controls cfg with None => true | Some m => num <? m end), started; fa_tac.
Qed.

Lemma noack_headers_out : forall s cfg hdrs num started o started',
  noack_headers s cfg num started hdrs = (o, started') -> Forall exob o.
Proof.
  induction hdrs as [|h rest IH]; intros num started o started' H; cbn [noack_headers] in H.
  - inv_pair H. constructor.
  - destruct h; eauto.
    destruct (noack_items s cfg g v num started items) as [[cbs n1] st1] eqn:E1.
    destruct (noack_headers s cfg n1 st1 rest) as [cbs2 st2] eqn:E2.
    inv_pair H. apply Forall_app; split; [eapply noack_items_out; eauto|eauto].
Qed.

Definition sol_ctl (seq : N) : N := ctl_byte true true false false seq.

(* a response produced by executing a request *)
Definition req_resp (seq : N) (r : response) : Prop := r_fn r = 129 /\ r_ctl r = sol_ctl seq.

Lemma handle_controls_out : forall cfg s fn seq fid bytes hdrs s' r o,
  handle_controls cfg s fn seq fid bytes hdrs = (s', r, o) ->
  Forall exob o /\ (forall x, r = Some x -> req_resp seq x) /\ (r = None -> fn = 6).
Proof.
  intros cfg s fn seq fid bytes hdrs s' r o H. unfold handle_controls in H.
  assert (Hfin : forall b : bool, Forall exob (if b then [OCb CbEndFragment] else [])).
  { intros []; fa_tac. }
  destruct (negb (all_controls hdrs)).
  { inv_pair H. split; [constructor|]. split.
    - intros x Hx. destruct (fn =? fn_direct_operate_nr); inversion Hx; subst. split; reflexivity.
    - destruct (fn =? fn_direct_operate_nr) eqn:E; [|discriminate]. intros _. apply N.eqb_eq in E. exact E. }
  destruct (fn =? fn_direct_operate_nr) eqn:Enr.
  { destruct (noack_headers s cfg 0 false hdrs) as [cbs started] eqn:E. inv_pair H.
    split; [apply Forall_app; split; [eapply noack_headers_out; eauto|apply Hfin]|].
    split; [discriminate|]. intros _. apply N.eqb_eq in Enr. exact Enr. }
  destruct (fn =? fn_select).
  { destruct (ctl_headers s cfg (o_sol_tx cfg - 4) CmSelect [] 0 false hdrs) as [[[[echo ok] cbs] st] started] eqn:E.
    inv_pair H. split; [apply Forall_app; split; [eapply ctl_headers_out; eauto|apply Hfin]|].
    split; [|discriminate]. intros x Hx. inversion Hx; subst. split; reflexivity. }
  destruct (fn =? fn_direct_operate).
  { destruct (ctl_headers s cfg (o_sol_tx cfg - 4) (CmOperate OpDo) [] 0 false hdrs) as [[[[echo ok] cbs] st] started] eqn:E.
    inv_pair H. split; [apply Forall_app; split; [eapply ctl_headers_out; eauto|apply Hfin]|].
    split; [|discriminate]. intros x Hx. inversion Hx; subst. split; reflexivity. }
  destruct (match s_select s with Some sel => _ | None => _ end).
  - destruct (ctl_headers s cfg (o_sol_tx cfg - 4) (CmStatus n) [] 0 false hdrs) as [[[[echo ok] cbs] st] started] eqn:E.
    inv_pair H. split; [constructor|]. split; [|discriminate].
    intros x Hx. inversion Hx; subst. split; reflexivity.
  - destruct (ctl_headers s cfg (o_sol_tx cfg - 4) (CmOperate OpSbo) [] 0 false hdrs) as [[[[echo ok] cbs] st] started] eqn:E.
    inv_pair H. split; [apply Forall_app; split; [eapply ctl_headers_out; eauto|apply Hfin]|].
    split; [|discriminate]. intros x Hx. inversion Hx; subst. split; reflexivity.
Qed.

Lemma frame_gview : forall s s', frame s s' -> gview s' = gview s /\ s_enabled s' = s_enabled s.
Proof. unfold frame, fview, gview. intros s s' H. split; congruence. Qed.

Definition noresp_fn (fn : N) : Prop := fn = 6 \/ fn = 8 \/ fn = 10 \/ fn = 12.

Lemma restart_response_resp : forall seq s d s' r, restart_response seq s d = (s', r) -> req_resp seq r.
Proof.
  intros seq s d s' r H. unfold restart_response in H.
  destruct d as [[ms v]|]; inv_pair H; split; reflexivity.
Qed.

Lemma req_resp_empty : forall seq v, req_resp seq (empty_solicited seq v).
Proof. intros; split; reflexivity. Qed.

Definition enabled_change (cfg : ocfg) (fn : N) (hdrs : list whdr) (s s' : ostate) : Prop :=
  s_enabled s' = s_enabled s \/
  (o_unsol cfg = true /\ (fn = 20 \/ fn = 21) /\ s_enabled s' = set_classes (fn =? 20) hdrs (s_enabled s)).

Ltac spl := split; [|split; [|split; [|split]]].

Lemma handle_non_read_spec : forall cfg s fn seq fid bytes hdrs s' r o,
  handle_non_read cfg s fn seq fid bytes hdrs = (s', r, o) ->
  gview s' = gview s /\ Forall exob o /\
  (forall x, r = Some x -> req_resp seq x) /\ (r = None -> noresp_fn fn) /\
  enabled_change cfg fn hdrs s s'.
Proof.
  intros cfg s fn seq fid bytes hdrs s' r o H. unfold handle_non_read in H. cbv beta zeta in H.
  match type of H with (let '(_, _) := ?X in _) = _ => destruct X as [[s1 r1] o1] eqn:E end.
  inv_pair H.
  assert (Hin : gview s' = gview s /\ Forall exob o /\
                (forall x, r1 = Some x -> req_resp seq x) /\ (r1 = None -> noresp_fn fn) /\
                enabled_change cfg fn hdrs s s').
  2:{ destruct Hin as (Hg & Ho & Hr & Hn & He). spl; auto.
      - intros x Hx. destruct r1 as [r1|]; [|discriminate]. inversion Hx; subst.
        destruct (Hr r1 eq_refl) as [Hf Hc]. split; [exact Hf|exact Hc].
      - intros Hx. destruct r1; [discriminate|]. auto. }
  assert (Hfr : forall s0, frame s s0 -> gview s0 = gview s /\ enabled_change cfg fn hdrs s s0).
  { intros s0 Hf. apply frame_gview in Hf. destruct Hf as [Hg He]. split; [exact Hg|left; exact He]. }
  assert (Hsome : forall x v, Some (empty_solicited seq v) = Some x -> req_resp seq x).
  { intros x v Hx. inversion Hx; subst. apply req_resp_empty. }
  destruct (fn =? fn_write) eqn:E1.
  { destruct (handle_write_headers cfg s hdrs) as [[s2 v] o2] eqn:E2. inv_pair E.
    destruct (Hfr _ (handle_write_headers_frame _ _ _ _ _ _ E2)) as [Hg He].
    spl; eauto using handle_write_headers_out. discriminate. }
  destruct (fn =? fn_delay_measure) eqn:E2.
  { inv_pair E. destruct (Hfr s (frame_refl _)) as [Hg He].
    spl; [reflexivity|constructor| |discriminate|left; reflexivity].
    intros x Hx. inversion Hx; subst. split; reflexivity. }
  destruct (fn =? fn_record_time) eqn:E3.
  { inv_pair E. spl; [reflexivity|constructor|eauto|discriminate|left; reflexivity]. }
  destruct (fn =? fn_cold_restart) eqn:E4.
  { destruct (restart_response seq s (o_cold cfg)) as [s2 r2] eqn:Er. inv_pair E.
    destruct (Hfr _ (restart_response_frame _ _ _ _ _ Er)) as [Hg He].
    spl; [exact Hg|fa_tac| |discriminate|exact He].
    intros x Hx. inversion Hx; subst. eapply restart_response_resp; eauto. }
  destruct (fn =? fn_warm_restart) eqn:E5.
  { destruct (restart_response seq s (o_warm cfg)) as [s2 r2] eqn:Er. inv_pair E.
    destruct (Hfr _ (restart_response_frame _ _ _ _ _ Er)) as [Hg He].
    spl; [exact Hg|fa_tac| |discriminate|exact He].
    intros x Hx. inversion Hx; subst. eapply restart_response_resp; eauto. }
  destruct ((fn =? fn_select) || (fn =? fn_operate) || (fn =? fn_direct_operate) || (fn =? fn_direct_operate_nr)) eqn:E6.
  { destruct (Hfr _ (handle_controls_frame _ _ _ _ _ _ _ _ _ _ E)) as [Hg He].
    destruct (handle_controls_out _ _ _ _ _ _ _ _ _ _ E) as (Ho & Hr & Hn).
    spl; auto. intros Hx. left. auto. }
  destruct (fn =? fn_immediate_freeze) eqn:E7.
  { destruct (handle_freeze cfg 0 hdrs) as [v o2] eqn:Ef. inv_pair E.
    destruct (Hfr s' (frame_refl _)) as [Hg He].
    spl; eauto using handle_freeze_out. discriminate. }
  destruct (fn =? fn_immediate_freeze_nr) eqn:E8.
  { destruct (handle_freeze cfg 0 hdrs) as [v o2] eqn:Ef. inv_pair E.
    destruct (Hfr s' (frame_refl _)) as [Hg He]. apply N.eqb_eq in E8.
    spl; eauto using handle_freeze_out; try discriminate. intros _. right; left. exact E8. }
  destruct (fn =? fn_freeze_clear) eqn:E9.
  { destruct (handle_freeze cfg 1 hdrs) as [v o2] eqn:Ef. inv_pair E.
    destruct (Hfr s' (frame_refl _)) as [Hg He].
    spl; eauto using handle_freeze_out. discriminate. }
  destruct (fn =? fn_freeze_clear_nr) eqn:E10.
  { destruct (handle_freeze cfg 1 hdrs) as [v o2] eqn:Ef. inv_pair E.
    destruct (Hfr s' (frame_refl _)) as [Hg He]. apply N.eqb_eq in E10.
    spl; eauto using handle_freeze_out; try discriminate. intros _. right; right; left. exact E10. }
  destruct (fn =? fn_freeze_at_time) eqn:E11.
  { destruct (handle_freeze_at_time cfg None hdrs) as [v o2] eqn:Ef. inv_pair E.
    destruct (Hfr s' (frame_refl _)) as [Hg He].
    spl; eauto using handle_freeze_at_time_out. discriminate. }
  destruct (fn =? fn_freeze_at_time_nr) eqn:E12.
  { destruct (handle_freeze_at_time cfg None hdrs) as [v o2] eqn:Ef. inv_pair E.
    destruct (Hfr s' (frame_refl _)) as [Hg He]. apply N.eqb_eq in E12.
    spl; eauto using handle_freeze_at_time_out; try discriminate. intros _. right; right; right. exact E12. }
  assert (Hed : forall en s2 r2 x, enable_disable cfg s en seq hdrs = (s2, r2) -> Some r2 = Some x -> req_resp seq x).
  { intros en s2 r2 x Ee' Hx. inversion Hx; subst. unfold enable_disable in Ee'.
    destruct (negb (o_unsol cfg)); [inv_pair Ee'; apply req_resp_empty|].
    destruct (fold_left _ hdrs (s_enabled s, 0)) as [e v]. inv_pair Ee'. apply req_resp_empty. }
  destruct (fn =? fn_enable_unsol) eqn:E13.
  { destruct (enable_disable cfg s true seq hdrs) as [s2 r2] eqn:Ee. inv_pair E.
    pose proof Ee as Ee'. apply enable_disable_spec in Ee. destruct Ee as [Hg He].
    apply N.eqb_eq in E13. subst fn.
    spl; [exact Hg|constructor|intros x Hx; eapply Hed; eauto|discriminate|].
    destruct (o_unsol cfg) eqn:Eu; [right|left; exact He]. split; [exact Eu|]. split; [left; reflexivity|exact He]. }
  destruct (fn =? fn_disable_unsol) eqn:E14.
  { destruct (enable_disable cfg s false seq hdrs) as [s2 r2] eqn:Ee. inv_pair E.
    pose proof Ee as Ee'. apply enable_disable_spec in Ee. destruct Ee as [Hg He].
    apply N.eqb_eq in E14. subst fn.
    spl; [exact Hg|constructor|intros x Hx; eapply Hed; eauto|discriminate|].
    destruct (o_unsol cfg) eqn:Eu; [right|left; exact He]. split; [exact Eu|]. split; [right; reflexivity|exact He]. }
  inv_pair E. destruct (Hfr s' (frame_refl _)) as [Hg He].
  spl; [exact Hg|constructor|eauto|discriminate|exact He].
Qed.

(* ---------- READ responses, broadcast, error responses --------------------------------------------- *)

Lemma ctl_seq_ctl_byte : forall a b c d q, ctl_seq (ctl_byte a b c d q) = q mod 16.
Proof. intros a b c d q. unfold ctl_seq, ctl_byte. destruct a, b, c, d; lia. Qed.

Definition dbq (o : oobs) : Prop :=
  match o with ODb DbSelect | ODb DbWrite | ODb DbEvinfo | OMissingAnswer => True | _ => False end.

Lemma dbq_solob : forall o, dbq o -> solob o.
Proof. intros [] H; try destruct H; try exact I. destruct c; try destruct H; exact I. Qed.

Lemma evq_dbq : forall o, evq o -> dbq o.
Proof. intros o [H|H]; subst; exact I. Qed.

Lemma format_read_response_spec : forall s fir seq iin2 s' r se o,
  format_read_response s fir seq iin2 = (s', r, se, o) ->
  frame s s' /\ r_fn r = 129 /\ ctl_seq (r_ctl r) = seq mod 16 /\ Forall dbq o /\
  (forall x, se = Some x -> se_ecsn x = seq).
Proof.
  intros s fir seq iin2 s' r se o H. unfold format_read_response in H.
  destruct (ask_write s) as [[s1 [[complete has_events] body]] o1] eqn:E.
  pose proof (ask_write_frame _ _ _ _ E) as Hf. inv_pair H.
  split; [eapply frame_trans; [exact Hf|reflexivity]|].
  split; [reflexivity|]. split; [apply ctl_seq_ctl_byte|]. split.
  - unfold ask_write in E. destruct (s_answers s) as [|[] rest]; inv_pair E; fa_tac.
  - intros x Hx. destruct (has_events || negb complete); inversion Hx; subst. reflexivity.
Qed.

Lemma ask_iin2_out : forall s c s' v o, ask_iin2 s c = (s', v, o) ->
  o = [ODb c] \/ o = [ODb c; OMissingAnswer].
Proof.
  intros s c s' v o H. unfold ask_iin2 in H.
  destruct (s_answers s) as [|[] rest]; inv_pair H; auto.
Qed.

Lemma format_first_read_response_spec : forall s seq s' r se o,
  format_first_read_response s seq = (s', r, se, o) ->
  frame s s' /\ r_fn r = 129 /\ ctl_seq (r_ctl r) = seq mod 16 /\ Forall dbq o.
Proof.
  intros s seq s' r se o H. unfold format_first_read_response in H.
  destruct (ask_iin2 s DbSelect) as [[s1 iin2] o1] eqn:E1.
  destruct (format_read_response s1 true seq iin2) as [[[s2 r2] se2] o2] eqn:E2.
  inv_pair H. apply format_read_response_spec in E2. destruct E2 as (Hf & Hr & Hc & Ho & _).
  split; [eapply frame_trans; [eapply ask_iin2_frame; eauto|exact Hf]|].
  split; [exact Hr|]. split; [exact Hc|].
  apply Forall_app; split; [|exact Ho].
  destruct (ask_iin2_out _ _ _ _ _ E1) as [-> | ->]; fa_tac.
Qed.

Lemma process_broadcast_spec : forall cfg s m fid ctl fn bytes obj s' o,
  process_broadcast cfg s m fid ctl fn bytes obj = (s', o) ->
  gview s' = gview s /\ Forall solob o /\
  (s_enabled s' = s_enabled s \/
   exists hdrs rh, obj = ObjOk hdrs rh /\ o_broadcast cfg = true /\
                   enabled_change cfg fn hdrs s s').
Proof.
  intros cfg s m fid ctl fn bytes obj s' o H. unfold process_broadcast in H.
  assert (H0 : gview (upd_last_bcast s (Some m)) = gview s) by reflexivity.
  assert (He0 : s_enabled (upd_last_bcast s (Some m)) = s_enabled s) by reflexivity.
  set (s0 := upd_last_bcast s (Some m)) in *.
  assert (Hfr : forall s1, frame s0 s1 -> gview s1 = gview s /\ s_enabled s1 = s_enabled s).
  { intros s1 Hf. apply frame_gview in Hf. destruct Hf as [Hg He]. split; congruence. }
  destruct (negb (o_broadcast cfg)) eqn:Eb.
  { inv_pair H. split; [exact H0|]. split; [fa_tac|left; exact He0]. }
  destruct obj as [iin2|hdrs rh].
  { inv_pair H. split; [exact H0|]. split; [fa_tac|left; exact He0]. }
  cbv zeta in H.
  assert (Hdone : forall o1, Forall exob o1 -> Forall solob (o1 ++ [OInfo (IBroadcast fn 0 0)])).
  { intros o1 Ho1. apply Forall_app; split; [eapply Forall_imp; [apply exob_solob|exact Ho1]|fa_tac]. }
  destruct (fn =? fn_write).
  { destruct (handle_write_headers cfg s0 hdrs) as [[s1 v] o1] eqn:E. inv_pair H.
    destruct (Hfr _ (handle_write_headers_frame _ _ _ _ _ _ E)) as [Hg He].
    split; [exact Hg|]. split; [apply Hdone; eapply handle_write_headers_out; eauto|left; exact He]. }
  destruct (fn =? fn_direct_operate_nr).
  { destruct (handle_controls cfg s0 fn (ctl_seq ctl) fid bytes hdrs) as [[s1 r1] o1] eqn:E. inv_pair H.
    destruct (Hfr _ (handle_controls_frame _ _ _ _ _ _ _ _ _ _ E)) as [Hg He].
    destruct (handle_controls_out _ _ _ _ _ _ _ _ _ _ E) as (Ho & _).
    split; [exact Hg|]. split; [apply Hdone; exact Ho|left; exact He]. }
  destruct (fn =? fn_immediate_freeze_nr).
  { destruct (handle_freeze cfg 0 hdrs) as [v o1] eqn:E. inv_pair H.
    split; [exact H0|]. split; [apply Hdone; eapply handle_freeze_out; eauto|left; exact He0]. }
  destruct (fn =? fn_freeze_clear_nr).
  { destruct (handle_freeze cfg 1 hdrs) as [v o1] eqn:E. inv_pair H.
    split; [exact H0|]. split; [apply Hdone; eapply handle_freeze_out; eauto|left; exact He0]. }
  destruct (fn =? fn_freeze_at_time_nr).
  { destruct (handle_freeze_at_time cfg None hdrs) as [v o1] eqn:E. inv_pair H.
    split; [exact H0|]. split; [apply Hdone; eapply handle_freeze_at_time_out; eauto|left; exact He0]. }
  destruct (fn =? fn_record_time).
  { inv_pair H. split; [reflexivity|]. split; [apply (Hdone []); constructor|left; reflexivity]. }
  assert (Hb : o_broadcast cfg = true) by (destruct (o_broadcast cfg); [reflexivity|discriminate]).
  destruct (fn =? fn_disable_unsol) eqn:E21.
  { destruct (enable_disable cfg s0 false (ctl_seq ctl) hdrs) as [s1 r1] eqn:E. inv_pair H.
    apply enable_disable_spec in E. destruct E as [Hg He]. apply N.eqb_eq in E21. subst fn.
    split; [congruence|]. split; [apply (Hdone []); constructor|].
    right. exists hdrs, rh. split; [reflexivity|]. split; [exact Hb|].
    unfold enabled_change. destruct (o_unsol cfg) eqn:Eu; [right|left; congruence].
    split; [first [exact Eu|reflexivity]|]. split; [right; reflexivity|]. rewrite He, He0. reflexivity. }
  destruct (fn =? fn_enable_unsol) eqn:E20.
  { destruct (enable_disable cfg s0 true (ctl_seq ctl) hdrs) as [s1 r1] eqn:E. inv_pair H.
    apply enable_disable_spec in E. destruct E as [Hg He]. apply N.eqb_eq in E20. subst fn.
    split; [congruence|]. split; [apply (Hdone []); constructor|].
    right. exists hdrs, rh. split; [reflexivity|]. split; [exact Hb|].
    unfold enabled_change. destruct (o_unsol cfg) eqn:Eu; [right|left; congruence].
    split; [first [exact Eu|reflexivity]|]. split; [left; reflexivity|]. rewrite He, He0. reflexivity. }
  inv_pair H. split; [exact H0|]. split; [fa_tac|left; exact He0].
Qed.

Lemma write_error_response_spec : forall s from bc seq s' o,
  write_error_response s from bc seq = (s', o) -> frame s s' /\ Forall solob o.
Proof.
  intros s from bc seq s' o H. unfold write_error_response in H.
  destruct bc as [m|]; [inv_pair H; split; [reflexivity|constructor]|].
  destruct seq as [q|]; [|inv_pair H; split; [reflexivity|constructor]].
  destruct (write_solicited s from (empty_solicited q iin2_no_func)) as [[s1 r1] o1] eqn:E.
  inv_pair H. split; [eapply write_solicited_frame; eauto|].
  eapply write_solicited_out; eauto.
Qed.

(* ---------- classification ---------------------------------------------------------------------- *)

Lemma to_treq_request : forall cfg from d ctl fn obj,
  to_treq cfg from d = TqRequest ctl fn obj -> d = DOk ctl fn RvOk obj.
Proof.
  intros cfg from d ctl fn obj H. unfold to_treq in H.
  destruct (_ && _); [discriminate|].
  destruct d as [|q c|c f rv ob]; try discriminate. destruct rv; [|discriminate].
  inversion H; subst. reflexivity.
Qed.

Definition last_response (s : ostate) : option response :=
  match s_last s with Some l => lr_response l | None => None end.

Lemma classify_cases : forall s bc bytes ctl fn obj,
  match classify s bc bytes ctl fn obj with
  | FtMalformed iin2 => bc = None /\ obj = ObjErr iin2 /\ fn <> 0
  | FtNewRead hdrs rh => bc = None /\ obj = ObjOk hdrs rh /\ fn = 1
  | FtRepeatRead resp hdrs rh => bc = None /\ obj = ObjOk hdrs rh /\ fn = 1 /\ resp = last_response s
  | FtNewNonRead hdrs => bc = None /\ (exists rh, obj = ObjOk hdrs rh) /\ fn <> 1 /\ fn <> 0
  | FtRepeatNonRead resp => bc = None /\ resp = last_response s /\ fn <> 1 /\ fn <> 0
  | FtBroadcast m => bc = Some m
  | FtSolConfirm q => bc = None /\ fn = 0 /\ q = ctl_seq ctl /\ ctl_uns ctl = false
  | FtUnsolConfirm q => bc = None /\ fn = 0 /\ q = ctl_seq ctl /\ ctl_uns ctl = true
  end.
Proof.
  intros s bc bytes ctl fn obj. unfold classify.
  destruct bc as [m|]; [reflexivity|].
  destruct (fn =? fn_confirm) eqn:E0.
  { apply N.eqb_eq in E0. destruct (ctl_uns ctl) eqn:Eu; repeat split; auto. }
  apply N.eqb_neq in E0.
  destruct obj as [iin2|hdrs rh]; [repeat split; auto|].
  destruct (match s_last s with Some l => _ | None => false end).
  - destruct (fn =? fn_read) eqn:E1.
    + apply N.eqb_eq in E1. repeat split; auto.
    + apply N.eqb_neq in E1. repeat split; auto.
  - destruct (fn =? fn_read) eqn:E1.
    + apply N.eqb_eq in E1. repeat split; auto.
    + apply N.eqb_neq in E1. repeat split; eauto.
Qed.

Definition last_ok (s : ostate) : Prop :=
  forall l r, s_last s = Some l -> lr_response l = Some r -> r_fn r = 129.

Lemma last_ok_response : forall s r, last_ok s -> last_response s = Some r -> r_fn r = 129.
Proof.
  intros s r H Hl. unfold last_response in Hl. destruct (s_last s) as [l|] eqn:E; [|discriminate].
  eapply H; eauto.
Qed.

Lemma last_ok_mk : forall s seq bytes r se,
  (forall x, r = Some x -> r_fn x = 129) -> last_ok (upd_last s (mk_last seq bytes r se)).
Proof.
  intros s seq bytes r se H l x Hl Hx. cbn in Hl. inversion Hl; subst. cbn in Hx. auto.
Qed.

(* ---------- handle_one_request_from_idle ------------------------------------------------------------- *)

Definition add_con_series (se : option series) (r : response) : option series :=
  match se with
  | None => if ctl_con (r_ctl r) then Some {| se_ecsn := ctl_seq (r_ctl r); se_fin := true |} else None
  | x => x
  end.

(* the local `finish` of handle_from_idle *)
Definition hfi_finish (cfg : ocfg) (from fn seq : N) (bytes : list N)
           (s1 : ostate) (resp : option response) (se : option series) (repeat : bool) (o1 : list oobs)
  : ostate * list oobs :=
  let o0 := [OInfo (IIdleRequest fn seq)] in
  match resp with
  | Some r =>
      if repeat then
        let o2 := repeat_solicited s1 from r in
        let se' := add_con_series se r in
        let s2 := upd_last s1 (mk_last seq bytes (Some r) se') in
        match se' with
        | Some x => (upd_control s2 (CSolWait x (confirm_deadline cfg s2) RStep2), o0 ++ o1 ++ o2 ++ [OInfo (IEnterSolWait (se_ecsn x))])
        | None => (s2, o0 ++ o1 ++ o2)
        end
      else
        let '(s2, r', o2) := write_solicited s1 from r in
        let se' := add_con_series se r' in
        let s3 := upd_last s2 (mk_last seq bytes (Some r') se') in
        match se' with
        | Some x => (upd_control s3 (CSolWait x (confirm_deadline cfg s3) RStep2), o0 ++ o1 ++ o2 ++ [OInfo (IEnterSolWait (se_ecsn x))])
        | None => (s3, o0 ++ o1 ++ o2)
        end
  | None => (upd_last s1 (mk_last seq bytes None se), o0 ++ o1)
  end.

Lemma handle_from_idle_eq : forall cfg s from bc bytes d fid,
  handle_from_idle cfg s from bc bytes d fid =
  match to_treq cfg from d with
  | TqNone => (s, [])
  | TqError seq => write_error_response s from bc seq
  | TqRequest ctl fn obj =>
      let seq := ctl_seq ctl in
      let o0 := [OInfo (IIdleRequest fn seq)] in
      let finish := hfi_finish cfg from fn seq bytes in
      match classify s bc bytes ctl fn obj with
      | FtMalformed iin2 => finish s (Some (empty_solicited seq iin2)) None false []
      | FtNewRead _ _ | FtRepeatRead _ _ _ =>
          let '(s1, r, se, o1) := format_first_read_response s seq in finish s1 (Some r) se false o1
      | FtNewNonRead hdrs =>
          let '(s1, r, o1) := handle_non_read cfg s fn seq fid bytes hdrs in finish s1 r None false o1
      | FtRepeatNonRead last =>
          let s1 := match s_select s with
                    | Some sel =>
                        if (ss_frame_id sel + 1) mod 4294967296 =? fid
                        then upd_select s (Some {| ss_seq := ss_seq sel; ss_frame_id := fid;
                                                   ss_time := ss_time sel; ss_objects := ss_objects sel |})
                        else s
                    | None => s
                    end in
          finish s1 last None true []
      | FtBroadcast m =>
          let '(s1, o1) := process_broadcast cfg s m fid ctl fn bytes obj in (s1, o0 ++ o1)
      | FtSolConfirm _ | FtUnsolConfirm _ => (s, o0)
      end
  end.
Proof. reflexivity. Qed.

Definition ctl_step_sol (s s' : ostate) : Prop :=
  s_control s' = s_control s \/ exists x dl r, s_control s' = CSolWait x dl r.

Lemma hfi_finish_spec : forall cfg from fn seq bytes s1 resp se repeat o1 s' o,
  hfi_finish cfg from fn seq bytes s1 resp se repeat o1 = (s', o) ->
  (forall r, resp = Some r -> r_fn r = 129) -> Forall solob o1 ->
  uview s' = uview s1 /\ s_enabled s' = s_enabled s1 /\ ctl_step_sol s1 s' /\ Forall solob o /\ last_ok s'.
Proof.
  intros cfg from fn seq bytes s1 resp se repeat o1 s' o H Hr Ho1. unfold hfi_finish in H. cbv zeta in H.
  assert (Hi : solob (OInfo (IIdleRequest fn seq))) by exact I.
  destruct resp as [r|].
  - specialize (Hr r eq_refl). destruct repeat.
    + assert (Ho2 : Forall solob (repeat_solicited s1 from r)).
      { unfold repeat_solicited. constructor; [|constructor]. cbn [solob]. rewrite nth1_response_bytes. exact Hr. }
      destruct (add_con_series se r) as [x|]; inv_pair H.
      * split; [reflexivity|]. split; [reflexivity|]. split; [right; do 3 eexists; reflexivity|]. split.
        -- constructor; [exact Hi|]. fa_tac.
        -- intros l x0 Hl Hx. cbn in Hl. inversion Hl; subst. cbn in Hx. inversion Hx; subst. exact Hr.
      * split; [reflexivity|]. split; [reflexivity|]. split; [left; reflexivity|]. split.
        -- constructor; [exact Hi|]. fa_tac.
        -- apply last_ok_mk. intros x0 Hx. inversion Hx; subst. exact Hr.
    + destruct (write_solicited s1 from r) as [[s2 r'] o2] eqn:E.
      pose proof (write_solicited_frame _ _ _ _ _ _ E) as Hf. apply frame_gview in Hf.
      destruct Hf as [Hg He]. unfold gview in Hg.
      destruct (write_solicited_out _ _ _ _ _ _ E Hr) as [Ho2 Hr'].
      destruct (add_con_series se r') as [x|]; inv_pair H.
      * split; [transitivity (uview s2); [reflexivity|congruence]|]. split; [exact He|]. split; [right; do 3 eexists; reflexivity|]. split.
        -- constructor; [exact Hi|]. fa_tac.
        -- intros l x0 Hl Hx. cbn in Hl. inversion Hl; subst. cbn in Hx. inversion Hx; subst. exact Hr'.
      * split; [transitivity (uview s2); [reflexivity|congruence]|]. split; [exact He|]. split; [left; transitivity (s_control s2); [reflexivity|congruence]|]. split.
        -- constructor; [exact Hi|]. fa_tac.
        -- apply last_ok_mk. intros x0 Hx. inversion Hx; subst. exact Hr'.
  - inv_pair H. split; [reflexivity|]. split; [reflexivity|]. split; [left; reflexivity|]. split.
    + constructor; [exact Hi|]. exact Ho1.
    + apply last_ok_mk. discriminate.
Qed.

(* what a request does to the enabled classes *)
Definition enable_req (cfg : ocfg) (d : digest) (s s' : ostate) : Prop :=
  s_enabled s' = s_enabled s \/
  exists ctl fn hdrs rh, d = DOk ctl fn RvOk (ObjOk hdrs rh) /\ o_unsol cfg = true /\ (fn = 20 \/ fn = 21) /\
                         s_enabled s' = set_classes (fn =? 20) hdrs (s_enabled s).

Lemma enabled_change_req : forall cfg ctl fn hdrs rh s s' s1,
  enabled_change cfg fn hdrs s s1 -> s_enabled s' = s_enabled s1 ->
  enable_req cfg (DOk ctl fn RvOk (ObjOk hdrs rh)) s s'.
Proof.
  intros cfg ctl fn hdrs rh s s' s1 [H|(Hu & Hf & He)] Hs.
  - left. congruence.
  - right. exists ctl, fn, hdrs, rh. repeat split; auto. congruence.
Qed.

Lemma handle_from_idle_spec : forall cfg s from bc bytes d fid s' o,
  handle_from_idle cfg s from bc bytes d fid = (s', o) ->
  uview s' = uview s /\ ctl_step_sol s s' /\ enable_req cfg d s s' /\
  (last_ok s -> Forall solob o /\ last_ok s').
Proof.
  intros cfg s from bc bytes d fid s' o H. rewrite handle_from_idle_eq in H.
  destruct (to_treq cfg from d) as [|q|ctl fn obj] eqn:Et.
  - inv_pair H. split; [reflexivity|]. split; [left; reflexivity|]. split; [left; reflexivity|].
    intros Hl. split; [constructor|exact Hl].
  - apply write_error_response_spec in H. destruct H as [Hf Ho].
    apply frame_gview in Hf. destruct Hf as [Hg He]. unfold gview in Hg.
    split; [congruence|]. split; [left; congruence|]. split; [left; exact He|].
    intros Hl. split; [exact Ho|]. intros l r Hs. apply Hl. congruence.
  - apply to_treq_request in Et. subst d. cbv zeta in H.
    pose proof (classify_cases s bc bytes ctl fn obj) as Hc.
    assert (Hreads : (let '(s1, r, se, o1) := format_first_read_response s (ctl_seq ctl) in
                      hfi_finish cfg from fn (ctl_seq ctl) bytes s1 (Some r) se false o1) = (s', o) ->
            uview s' = uview s /\ ctl_step_sol s s' /\ s_enabled s' = s_enabled s /\ Forall solob o /\ last_ok s').
    { intros H'. destruct (format_first_read_response s (ctl_seq ctl)) as [[[s1 r] se] o1] eqn:E.
      apply format_first_read_response_spec in E. destruct E as (Hf & Hr & _ & Ho1).
      apply frame_gview in Hf. destruct Hf as [Hg He]. unfold gview in Hg.
      eapply hfi_finish_spec in H'.
      - destruct H' as (Hu & He' & Hc' & Ho & Hl). split; [congruence|].
        split; [destruct Hc' as [Hc'|Hc']; [left; congruence|right; exact Hc']|].
        split; [congruence|]. split; assumption.
      - intros x Hx. inversion Hx; subst. exact Hr.
      - eapply Forall_imp; [apply dbq_solob|exact Ho1]. }
    destruct (classify s bc bytes ctl fn obj) as [iin2|hdrs rh|resp hdrs rh|hdrs|resp|m|q|q].
    + eapply hfi_finish_spec in H; [|intros x Hx; inversion Hx; subst; reflexivity|constructor].
      destruct H as (Hu & He & Hc' & Ho & Hl).
      split; [exact Hu|]. split; [exact Hc'|]. split; [left; exact He|]. intros _. split; assumption.
    + apply Hreads in H. destruct H as (Hu & Hc' & He & Ho & Hl).
      split; [exact Hu|]. split; [exact Hc'|]. split; [left; exact He|]. intros _. split; assumption.
    + apply Hreads in H. destruct H as (Hu & Hc' & He & Ho & Hl).
      split; [exact Hu|]. split; [exact Hc'|]. split; [left; exact He|]. intros _. split; assumption.
    + destruct (handle_non_read cfg s fn (ctl_seq ctl) fid bytes hdrs) as [[s1 r] o1] eqn:E.
      apply handle_non_read_spec in E. destruct E as (Hg & Ho1 & Hr & _ & Hen). unfold gview in Hg.
      eapply hfi_finish_spec in H.
      * destruct H as (Hu & He & Hc' & Ho & Hl). split; [congruence|].
        split; [destruct Hc' as [Hc'|Hc']; [left; congruence|right; exact Hc']|].
        destruct Hc as (_ & [rh ->] & _).
        split; [eapply enabled_change_req; eauto|]. intros _. split; assumption.
      * intros x Hx. apply Hr in Hx. apply Hx.
      * eapply Forall_imp; [apply exob_solob|exact Ho1].
    + destruct Hc as (_ & -> & _). cbv zeta in H. clear Hreads.
      set (s1 := match s_select s with Some sel => _ | None => s end) in H.
      assert (Hs1 : uview s1 = uview s /\ s_control s1 = s_control s /\ s_enabled s1 = s_enabled s).
      { subst s1. destruct (s_select s); [destruct (_ =? _)|]; repeat split. }
      destruct Hs1 as (Hu1 & Hc1 & He1).
      split; [|split; [|split]].
      4:{ intros Hl. eapply hfi_finish_spec in H; [|intros x Hx; eapply last_ok_response; eauto|constructor].
          destruct H as (_ & _ & _ & Ho & Hl'). split; assumption. }
      all: destruct (last_response s) as [r|] eqn:El.
      all: unfold hfi_finish in H; cbv zeta in H.
      all: try (destruct (add_con_series None r) as [x|]; inv_pair H).
      all: try (inv_pair H).
      all: try (cbn; congruence).
      all: try (left; cbn; congruence).
      all: try (right; do 3 eexists; reflexivity).
      all: exact Hu1.
    + destruct (process_broadcast cfg s m fid ctl fn bytes obj) as [s1 o1] eqn:E. inv_pair H.
      apply process_broadcast_spec in E. destruct E as (Hg & Ho1 & Hen). unfold gview in Hg.
      split; [congruence|]. split; [left; congruence|]. split.
      * destruct Hen as [Hen|(hdrs & rh & -> & _ & Hen)]; [left; exact Hen|].
        eapply enabled_change_req; eauto.
      * intros Hl. split; [constructor; [exact I|exact Ho1]|].
        intros l r Hs. apply Hl. congruence.
    + inv_pair H. split; [reflexivity|]. split; [left; reflexivity|]. split; [left; reflexivity|].
      intros Hl. split; [fa_tac|exact Hl].
    + inv_pair H. split; [reflexivity|]. split; [left; reflexivity|]. split; [left; reflexivity|].
      intros Hl. split; [fa_tac|exact Hl].
Qed.
