From Dnp3V Require Import Base.Bytes Master.MParse Master.Command Master.CommandProofs Master.MTask.
Import MP MCmd MT.
