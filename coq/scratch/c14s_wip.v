From Dnp3V Require Import Outstation.Session Outstation.SessionLemmas_c14 scratch.c14p_wip scratch.c14q_wip.
Open Scope N_scope.

(* ---------- one step from a reachable state --------------------------------------------------------- *)

Lemma trace_good : forall cfg s tr, Trace cfg s tr -> In (IOb OOutOfFuel) tr \/ good s.
Proof.
  induction 1 as [sel op iin a s o H|s tr ev a s' o Ht IH Hev H].
  - apply ostart_good in H. destruct H as [H|H]; [left|right; exact H].
    apply in_map_iff. exists OOutOfFuel. split; [reflexivity|exact H].
  - destruct IH as [IH|Hg]; [left; apply in_or_app; left; exact IH|].
    apply (ostep_good _ _ _ _ _ _ Hg) in H. destruct H as [H|H]; [left|right; exact H].
    apply in_or_app. right. right. apply in_map_iff. exists OOutOfFuel. split; [reflexivity|exact H].
Qed.

Section StepInv.
  Variable cfg : ocfg.
  Variable ev : oevent.
  Variable P : ostate -> Prop.
  Variable Q : oobs -> Prop.
  Hypothesis Pstep : forall x o x', ustep cfg (Some ev) x o x' -> Inv cfg x -> P x -> P x' /\ Forall Q o.

  Lemma micros_P_ev : forall x o x', micros cfg (Some ev) x o x' -> Inv cfg x -> P x -> P x' /\ Forall Q o.
  Proof.
    intros x o x' H. remember (Some ev) as e eqn:He.
    induction H as [s|s o1 s1 o2 s2 o Hm Hms IH Ho]; intros Hi Hp; [split; [exact Hp|constructor]|].
    subst e. apply micro_ustep in Hm. destruct (Pstep _ _ _ Hm Hi Hp) as [Hp1 Hq1].
    destruct (IH (ustep_inv _ _ _ _ _ Hm Hi) Hp1) as [Hp2 Hq2].
    split; [exact Hp2|]. subst o. apply Forall_app. split; assumption.
  Qed.

  Theorem step_P : forall s a s' o,
    Inv cfg s -> P s -> ostep cfg s ev a = (s', o) ->
    Forall Q o /\ exists s1, P s1 /\ (s' = s1 \/ exists t, s' = upd_now s1 t).
  Proof.
    intros s a s' o Hi Hp H. apply ostep_micros in H. destruct H as (s1 & Hm & Hs).
    destruct (micros_P_ev _ _ _ Hm Hi Hp) as [Hp1 Hq]. split; [exact Hq|].
    exists s1. split; [exact Hp1|]. destruct Hs as [Hs|(t & Hs & _)]; [left; exact Hs|right; eauto].
  Qed.
End StepInv.

(* ---------- the enabled classes ---------------------------------------------------------------------- *)

Definition cls_of (h : whdr) : N :=
  match h with WCls 1 => 1 | WCls 2 => 2 | WCls 3 => 3 | _ => 0 end.

Lemma cls_step_eq : forall en c1 c2 c3 v h,
  cls_step en ((c1, c2, c3), v) h =
  match cls_of h with
  | 1 => ((en, c2, c3), v) | 2 => ((c1, en, c3), v) | 3 => ((c1, c2, en), v)
  | _ => ((c1, c2, c3), N.lor v iin2_no_func)
  end.
Proof.
  intros en c1 c2 c3 v h. destruct h; try reflexivity.
  destruct c as [|[[q|q|]|[q|q|]|]]; reflexivity.
Qed.

Definition has_cls (k : N) (hdrs : list whdr) : bool := existsb (fun h => cls_of h =? k) hdrs.

Lemma set_classes_spec : forall en hdrs c1 c2 c3,
  set_classes en hdrs (c1, c2, c3) =
  (if has_cls 1 hdrs then en else c1, if has_cls 2 hdrs then en else c2, if has_cls 3 hdrs then en else c3).
Proof.
  intros en hdrs. unfold set_classes.
  assert (H : forall c1 c2 c3 v, fst (fold_left (cls_step en) hdrs ((c1, c2, c3), v)) =
    (if has_cls 1 hdrs then en else c1, if has_cls 2 hdrs then en else c2, if has_cls 3 hdrs then en else c3)).
  { induction hdrs as [|h r IH]; intros c1 c2 c3 v; [reflexivity|].
    cbn [fold_left]. rewrite cls_step_eq. unfold has_cls. cbn [existsb].
    destruct (cls_of h) as [|[[q|q|]|[q|q|]|]]; rewrite IH; unfold has_cls; cbn [N.eqb Pos.eqb orb];
      try reflexivity;
      repeat match goal with |- context [if ?b then _ else _] => destruct b end; reflexivity. }
  intros c1 c2 c3. apply H.
Qed.

Lemma set_classes_idem : forall en hdrs e, set_classes en hdrs (set_classes en hdrs e) = set_classes en hdrs e.
Proof.
  intros en hdrs [[c1 c2] c3]. rewrite !set_classes_spec.
  destruct (has_cls 1 hdrs), (has_cls 2 hdrs), (has_cls 3 hdrs); reflexivity.
Qed.

Lemma set_classes_false_none : forall hdrs, set_classes false hdrs (false, false, false) = (false, false, false).
Proof.
  intros hdrs. rewrite set_classes_spec.
  destruct (has_cls 1 hdrs), (has_cls 2 hdrs), (has_cls 3 hdrs); reflexivity.
Qed.

Lemma any_enabled_false : forall s, any_enabled s = false -> s_enabled s = (false, false, false).
Proof.
  intros s H. unfold any_enabled in H. destruct (s_enabled s) as [[a b] c]. destruct a, b, c; try discriminate. reflexivity.
Qed.

(* the enabled classes change by the ENABLE/DISABLE_UNSOLICITED request of the current event only *)
Definition changed_by (cfg : ocfg) (ev : oevent) (e0 e1 : bool * bool * bool) : Prop :=
  exists from bc bytes ctl fn hdrs rh,
    ev = ERx from bc bytes (DOk ctl fn RvOk (ObjOk hdrs rh)) /\ o_unsol cfg = true /\ (fn = 20 \/ fn = 21) /\
    e1 = set_classes (fn =? 20) hdrs e0.

Lemma en_step_cases : forall cfg ev x x',
  pend_ok (Some ev) x -> en_step cfg (Some ev) x x' ->
  s_enabled x' = s_enabled x \/ changed_by cfg ev (s_enabled x) (s_enabled x').
Proof.
  intros cfg ev x x' Hp [H|(from & bc & bytes & d & Hsrc & Hen)]; [left; exact H|].
  pose proof (frag_src_event _ _ _ _ _ _ Hp Hsrc) as E. inversion E; subst.
  destruct Hen as [H|(ctl & fn & hdrs & rh & -> & Hu & Hf & He)]; [left; exact H|].
  right. exists from, bc, bytes, ctl, fn, hdrs, rh. repeat split; auto.
Qed.

Lemma changed_twice : forall cfg ev e0 e1 e2,
  changed_by cfg ev e0 e1 -> changed_by cfg ev e1 e2 -> changed_by cfg ev e0 e2.
Proof.
  intros cfg ev e0 e1 e2 (f & b & y & c & fn & h & r & E1 & Hu & Hf & ->) (f' & b' & y' & c' & fn' & h' & r' & E2 & _ & _ & ->).
  rewrite E1 in E2. inversion E2; subst. rewrite set_classes_idem.
  exists f', b', y', c', fn', h', r'. repeat split; auto.
Qed.

Definition en_rel (cfg : ocfg) (ev : oevent) (s x : ostate) : Prop :=
  s_enabled x = s_enabled s \/ changed_by cfg ev (s_enabled s) (s_enabled x).

Lemma en_rel_step : forall cfg ev s x x',
  en_rel cfg ev s x -> pend_ok (Some ev) x -> en_step cfg (Some ev) x x' -> en_rel cfg ev s x'.
Proof.
  intros cfg ev s x x' Hr Hp He. destruct (en_step_cases _ _ _ _ Hp He) as [E|Hc].
  - destruct Hr as [Hr|Hr]; [left; congruence|right; rewrite E; exact Hr].
  - destruct Hr as [Hr|Hr]; [right; rewrite <- Hr; exact Hc|right; eapply changed_twice; eauto].
Qed.

Lemma en_rel_same : forall cfg ev s x x', en_rel cfg ev s x -> s_enabled x' = s_enabled x -> en_rel cfg ev s x'.
Proof. intros cfg ev s x x' [H|H] E; [left; congruence|right; rewrite E; exact H]. Qed.

(* what a micro-step does to the reader's fragment and the enabled classes, uniformly *)
Lemma ustep_pend_en : forall cfg ev x o x',
  ustep cfg (Some ev) x o x' -> pend_ok (Some ev) x ->
  pend_ok (Some ev) x' /\ en_step cfg (Some ev) x x'.
Proof.
  intros cfg ev x o x' H Hp.
  assert (Hsame : s_pending x' = s_pending x -> pend_ok (Some ev) x').
  { intros E from bc bytes d fid Hx. eapply Hp. rewrite <- E. exact Hx. }
  destruct H.
  - destruct H as [_ Hb He]. split; [auto|exact He].
  - destruct H2 as (r & o1 & _ & _ & _ & _ & _ & _ & _ & _ & _ & _ & _ & Hpe & Hen & _). split; [auto|left; exact Hen].
  - destruct H6 as (r & o1 & _ & _ & _ & _ & _ & _ & _ & _ & _ & _ & _ & Hpe & Hen & _). split; [auto|left; exact Hen].
  - split; [auto|left; congruence].
  - destruct H8 as [_ Hb He]. split; [auto|exact He].
  - subst x'. split; [apply Hsame; reflexivity|left; reflexivity].
  - split; [apply Hsame; congruence|left; congruence].
  - subst x'. split; [apply Hsame; reflexivity|left; reflexivity].
  - subst x'. split; [apply Hsame; reflexivity|left; reflexivity].
  - subst x'. split; [apply pend_ok_none; reflexivity|left; reflexivity].
  - subst x'. split; [exact Hp|left; reflexivity].
Qed.

(* 3b/3c: the classes given to the database are the enabled ones *)
Definition classes_ok (cfg : ocfg) (ev : oevent) (s : ostate) (o : oobs) : Prop :=
  match o with
  | ODb (DbWriteUnsol c1 c2 c3) =>
      (c1, c2, c3) = s_enabled s \/ changed_by cfg ev (s_enabled s) (c1, c2, c3)
  | _ => True
  end.

Lemma qob_classes_ok : forall cfg ev s l, Forall qob l -> Forall (classes_ok cfg ev s) l.
Proof.
  intros cfg ev s l H. eapply Forall_impl; [|exact H]. intros o [Ho| ->]; [|exact I].
  destruct o; try exact I. destruct c; try exact I. destruct Ho.
Qed.

Lemma started_classes_ok : forall cfg ev s0 s s' n size buf o,
  started cfg s s' n size buf o -> Forall (classes_ok cfg ev s0) o.
Proof.
  intros cfg ev s0 s s' n size buf o (r & o1 & -> & Ho1 & _).
  apply Forall_app. split; [apply qob_classes_ok; eapply Forall_impl; [|exact Ho1]; apply evq_qob|].
  repeat constructor.
Qed.

Theorem enabled_classes_step : forall cfg s tr ev a s' o,
  Trace cfg s tr -> no_fuel tr -> ostep cfg s ev a = (s', o) ->
  Forall (classes_ok cfg ev s) o /\ en_rel cfg ev s s'.
Proof.
  intros cfg s tr ev a s' o Ht Hnf Hstep.
  pose proof (trace_inv _ _ _ Ht) as Hi.
  destruct (trace_good _ _ _ Ht) as [Hf|[Hg _]]; [contradiction|].
  destruct (step_P cfg ev (fun x => pend_ok (Some ev) x /\ en_rel cfg ev s x) (classes_ok cfg ev s))
    with (s := s) (a := a) (s' := s') (o := o) as (Hq & s1 & [_ Hp1] & Hs); try assumption.
  - intros x ob x' Hu [Hl Hw] [Hp He].
    destruct (ustep_pend_en _ _ _ _ _ Hu Hp) as [Hp' Hen].
    split; [split; [exact Hp'|eapply en_rel_step; eauto]|].
    destruct Hu.
    + apply qob_classes_ok. auto.
    + eapply started_classes_ok; eauto.
    + subst ob. constructor; [|eapply started_classes_ok; eauto].
      cbn [classes_ok]. destruct He as [He|He]; [left; congruence|right; rewrite <- H4; exact He].
    + subst ob. destruct n; repeat constructor.
    + subst ob. apply Forall_app. split; [apply qob_classes_ok; apply solob_qob; auto|destruct n; repeat constructor].
    + subst ob. repeat constructor.
    + subst ob. destruct n; repeat constructor.
    + subst ob. repeat constructor.
    + subst ob. repeat constructor.
    + subst ob. repeat constructor.
    + subst ob. repeat constructor.
  - split; [apply pend_ok_none; exact Hg|left; reflexivity].
  - split; [exact Hq|]. destruct Hs as [-> |(t & ->)]; exact Hp1.
Qed.

(* ---------- 7. nothing enabled: no event data is sent ------------------------------------------------ *)

Definition is_enable_ev (ev : oevent) : bool :=
  match ev with ERx _ _ _ (DOk _ fn RvOk _) => fn =? 20 | _ => false end.

(* an unsolicited response carrying data is the outstanding one of state s *)
Definition only_resend (s : ostate) (o : oobs) : Prop :=
  match o with
  | OTx _ b =>
      is_unsol b = true -> (4 < length b)%nat ->
      exists r ret dl, s_control s = CUnsolWait r false ret dl /\ b = response_bytes r (s_unsol_buf s)
  | _ => True
  end.

Lemma qob_only_resend : forall s l, Forall qob l -> Forall (only_resend s) l.
Proof.
  intros s l H. eapply Forall_impl; [|exact H]. intros o [Ho| ->]; [|exact I].
  destruct o; try exact I. cbn [only_resend]. intros Hu. rewrite (solob_not_unsol _ _ Ho) in Hu. discriminate.
Qed.

Lemma started_null_only_resend : forall cfg s0 s s' buf o,
  started cfg s s' true 0 buf o -> Forall (only_resend s0) o.
Proof.
  intros cfg s0 s s' buf o (r & o1 & -> & Ho1 & _ & _ & Hsz & _).
  apply Forall_app. split; [apply qob_only_resend; eapply Forall_impl; [|exact Ho1]; apply evq_qob|].
  constructor; [|repeat constructor]. cbn [only_resend]. intros _ Hl.
  rewrite response_bytes_len in Hl by exact Hsz. lia.
Qed.

Definition dis_inv (ev : oevent) (s x : ostate) : Prop :=
  pend_ok (Some ev) x /\ any_enabled x = false /\
  forall r n ret dl, s_control x = CUnsolWait r n ret dl ->
    n = true \/ (exists ret0 dl0, s_control s = CUnsolWait r false ret0 dl0 /\ s_unsol_buf x = s_unsol_buf s).

Lemma any_enabled_eq : forall x x', s_enabled x' = s_enabled x -> any_enabled x' = any_enabled x.
Proof. intros x x' H. unfold any_enabled. rewrite H. reflexivity. Qed.

Theorem disable_stops : forall cfg s tr ev a s' o,
  Trace cfg s tr -> no_fuel tr -> any_enabled s = false -> is_enable_ev ev = false ->
  ostep cfg s ev a = (s', o) ->
  any_enabled s' = false /\ Forall (only_resend s) o.
Proof.
  intros cfg s tr ev a s' o Ht Hnf Hany Hev Hstep.
  pose proof (trace_inv _ _ _ Ht) as Hi.
  destruct (trace_good _ _ _ Ht) as [Hf|[Hg _]]; [contradiction|].
  destruct (step_P cfg ev (dis_inv ev s) (only_resend s))
    with (s := s) (a := a) (s' := s') (o := o) as (Hq & s1 & (_ & Hp1 & _) & Hs); try assumption.
  - intros x ob x' Hu [Hl Hw] (Hp & Ha & Hwt).
    destruct (ustep_pend_en _ _ _ _ _ Hu Hp) as [Hp' Hen].
    assert (Ha' : any_enabled x' = false).
    { destruct (en_step_cases _ _ _ _ Hp Hen) as [E|(f & b & y & c & fn & h & r & -> & _ & Hf & E)].
      - rewrite (any_enabled_eq _ _ E). exact Ha.
      - destruct Hf as [-> | ->]; [discriminate Hev|].
        unfold any_enabled. rewrite E, (any_enabled_false _ Ha). cbn [N.eqb Pos.eqb].
        rewrite set_classes_false_none. reflexivity. }
    assert (Hidle : s_control x' = CIdle -> dis_inv ev s x').
    { intros Hc. split; [exact Hp'|]. split; [exact Ha'|]. intros r n ret dl Hc'. congruence. }
    destruct Hu.
    + split; [|apply qob_only_resend; auto]. split; [exact Hp'|]. split; [exact Ha'|].
      unfold qv in H1. intros r n ret dl Hc'. destruct H2 as [Hcs|[Hu Hu']].
      * rewrite Hcs in Hc'. destruct (Hwt _ _ _ _ Hc') as [E|(r0 & d0 & E1 & E2)]; [left; exact E|right].
        exists r0, d0. split; [exact E1|congruence].
      * rewrite Hc' in Hu'. discriminate.
    + split; [|eapply started_null_only_resend; eauto]. split; [exact Hp'|]. split; [exact Ha'|].
      destruct H2 as (r & o1 & _ & _ & _ & _ & _ & Hc & _). intros r' n ret dl Hc'. rewrite Hc in Hc'.
      inversion Hc'; subst. left. reflexivity.
    + congruence.
    + split; [apply Hidle; assumption|]. subst ob. destruct n; repeat constructor.
    + split; [apply Hidle; assumption|]. subst ob. apply Forall_app.
      split; [apply qob_only_resend; apply solob_qob; auto|destruct n; repeat constructor].
    + subst ob x'. rewrite H in Hw. destruct Hw as (Hf & _ & Hn). split.
      * split; [exact Hp'|]. split; [exact Ha'|]. intros r' n' ret' dl' Hc'. cbn in Hc'. inversion Hc'; subst.
        destruct (Hwt _ _ _ _ H) as [E|(r0 & d0 & E1 & E2)]; [left; exact E|right; exists r0, d0; split; [exact E1|exact E2]].
      * constructor; [exact I|]. constructor; [exact I|]. unfold repeat_unsolicited. constructor; [|constructor].
        cbn [only_resend]. intros _ Hlen.
        destruct (Hwt _ _ _ _ H) as [E|(r0 & d0 & E1 & E2)].
        -- subst n. destruct Hn as (_ & Hsz & _). rewrite response_bytes_len in Hlen by exact Hsz. lia.
        -- exists resp, r0, d0. split; [exact E1|]. rewrite E2. reflexivity.
    + split; [apply Hidle; assumption|]. subst ob. destruct n; repeat constructor.
    + subst ob x'. split; [apply Hidle; reflexivity|repeat constructor].
    + subst ob x'. split; [apply Hidle; exact H|repeat constructor].
    + subst ob x'. split; [apply Hidle; reflexivity|repeat constructor].
    + subst ob x'. split; [|repeat constructor]. split; [exact Hp'|]. split; [exact Ha'|exact Hwt].
  - split; [apply pend_ok_none; exact Hg|]. split; [exact Hany|].
    intros r n ret dl Hc. destruct n; [left; reflexivity|right]. exists ret, dl. split; [exact Hc|reflexivity].
  - split; [|exact Hq]. destruct Hs as [-> |(t & ->)]; exact Hp1.
Qed.
