From Dnp3V Require Import Outstation.Session Outstation.SessionLemmas_c14 scratch.c14p_wip scratch.c14q_wip.
Open Scope N_scope.

(* ---------- one step from a reachable state --------------------------------------------------------- *)

Lemma trace_good : forall cfg s tr, Trace cfg s tr -> In (IOb OOutOfFuel) tr \/ good s.
Proof.
  induction 1 as [sel op iin a s o H|s tr ev a s' o Ht IH Hev H].
  - apply ostart_good in H. destruct H as [H|H]; [left|right; exact H].
    apply in_map_iff. exists OOutOfFuel. split; [reflexivity|exact H].
  - destruct IH as [IH|Hg]; [left; apply in_or_app; left; exact IH|].
    apply (ostep_good _ _ _ _ _ _ Hg) in H. destruct H as [H|H]; [left|right; exact H].
    apply in_or_app. right. right. apply in_map_iff. exists OOutOfFuel. split; [reflexivity|exact H].
Qed.

Section StepInv.
  Variable cfg : ocfg.
  Variable ev : oevent.
  Variable P : ostate -> Prop.
  Variable Q : oobs -> Prop.
  Hypothesis Pstep : forall x o x', ustep cfg (Some ev) x o x' -> Inv cfg x -> P x -> P x' /\ Forall Q o.

  Lemma micros_P_ev : forall x o x', micros cfg (Some ev) x o x' -> Inv cfg x -> P x -> P x' /\ Forall Q o.
  Proof.
    intros x o x' H. remember (Some ev) as e eqn:He.
    induction H as [s|s o1 s1 o2 s2 o Hm Hms IH Ho]; intros Hi Hp; [split; [exact Hp|constructor]|].
    subst e. apply micro_ustep in Hm. destruct (Pstep _ _ _ Hm Hi Hp) as [Hp1 Hq1].
    destruct (IH (ustep_inv _ _ _ _ _ Hm Hi) Hp1) as [Hp2 Hq2].
    split; [exact Hp2|]. subst o. apply Forall_app. split; assumption.
  Qed.

  Theorem step_P : forall s a s' o,
    Inv cfg s -> P s -> ostep cfg s ev a = (s', o) ->
    Forall Q o /\ exists s1, P s1 /\ (s' = s1 \/ exists t, s' = upd_now s1 t).
  Proof.
    intros s a s' o Hi Hp H. apply ostep_micros in H. destruct H as (s1 & Hm & Hs).
    destruct (micros_P_ev _ _ _ Hm Hi Hp) as [Hp1 Hq]. split; [exact Hq|].
    exists s1. split; [exact Hp1|]. destruct Hs as [Hs|(t & Hs & _)]; [left; exact Hs|right; eauto].
  Qed.
End StepInv.

(* ---------- the enabled classes ---------------------------------------------------------------------- *)

Definition cls_of (h : whdr) : N :=
  match h with WCls 1 => 1 | WCls 2 => 2 | WCls 3 => 3 | _ => 0 end.

Lemma cls_step_eq : forall en c1 c2 c3 v h,
  cls_step en ((c1, c2, c3), v) h =
  match cls_of h with
  | 1 => ((en, c2, c3), v) | 2 => ((c1, en, c3), v) | 3 => ((c1, c2, en), v)
  | _ => ((c1, c2, c3), N.lor v iin2_no_func)
  end.
Proof.
  intros en c1 c2 c3 v h. destruct h; try reflexivity.
  destruct c as [|[[q|q|]|[q|q|]|]]; reflexivity.
Qed.

Definition has_cls (k : N) (hdrs : list whdr) : bool := existsb (fun h => cls_of h =? k) hdrs.

Lemma set_classes_spec : forall en hdrs c1 c2 c3,
  set_classes en hdrs (c1, c2, c3) =
  (if has_cls 1 hdrs then en else c1, if has_cls 2 hdrs then en else c2, if has_cls 3 hdrs then en else c3).
Proof.
  intros en hdrs. unfold set_classes.
  assert (H : forall c1 c2 c3 v, fst (fold_left (cls_step en) hdrs ((c1, c2, c3), v)) =
    (if has_cls 1 hdrs then en else c1, if has_cls 2 hdrs then en else c2, if has_cls 3 hdrs then en else c3)).
  { induction hdrs as [|h r IH]; intros c1 c2 c3 v; [reflexivity|].
    cbn [fold_left]. rewrite cls_step_eq. unfold has_cls. cbn [existsb].
    destruct (cls_of h) as [|[[q|q|]|[q|q|]|]]; rewrite IH; unfold has_cls; cbn [N.eqb Pos.eqb orb];
      try reflexivity;
      repeat match goal with |- context [if ?b then _ else _] => destruct b end; reflexivity. }
  intros c1 c2 c3. apply H.
Qed.

Lemma set_classes_idem : forall en hdrs e, set_classes en hdrs (set_classes en hdrs e) = set_classes en hdrs e.
Proof.
  intros en hdrs [[c1 c2] c3]. rewrite !set_classes_spec.
  destruct (has_cls 1 hdrs), (has_cls 2 hdrs), (has_cls 3 hdrs); reflexivity.
Qed.

Lemma set_classes_false_none : forall hdrs, set_classes false hdrs (false, false, false) = (false, false, false).
Proof.
  intros hdrs. rewrite set_classes_spec.
  destruct (has_cls 1 hdrs), (has_cls 2 hdrs), (has_cls 3 hdrs); reflexivity.
Qed.

Lemma any_enabled_false : forall s, any_enabled s = false -> s_enabled s = (false, false, false).
Proof.
  intros s H. unfold any_enabled in H. destruct (s_enabled s) as [[a b] c]. destruct a, b, c; try discriminate. reflexivity.
Qed.
