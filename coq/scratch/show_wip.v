(* Outstation/EventBufferProofs.v — invariants of the event buffer model over ARBITRARY op lists.

   Main results (all without bounds on the op list):
     ids_unique_monotone                      ids handed out are exactly next, next+1, ...; the buffer is
                                              sorted by id and every id is below `next`
     counters_exact                           total / written counters = the counts over the records
     capacity_respected                       #records of a type <= its configured maximum
     class_bits_exact, no_underflow           unwritten_classes() = "a record of the class is not Written"
     insert_overflow_discards_oldest_same_type
     clear_written_releases_exactly_written
     reset_unselects_all
     write_oldest_first                       the records written are the longest prefix, in insertion
                                              order, of the Selected ones that fits the writer
     write_exact_time                         objects of CTO variations: absolute time = CTO + offset *)
From Dnp3V Require Import Base.Bytes Outstation.DbTypes Outstation.EventBuffer.
From Coq Require Import Sorting.Sorted.
Open Scope N_scope.

(* ---------------------------------------------------------------------------------------------- *)
(* operations and runs *)

Inductive eop :=
| OpInsert (index : N) (k : eclass) (t : ptype) (m : meas) (dv : evar)
| OpSelClass (c1 c2 c3 : bool) (lim : option N)
| OpSelType (t : ptype) (v : option evar) (lim : option N)
| OpWrite (budget : N)
| OpClear
| OpReset.

Definition ebuf_step (b : ebuf) (op : eop) : ebuf :=
  match op with
  | OpInsert i k t m dv => fst (ebuf_insert b i k t m dv)
  | OpSelClass c1 c2 c3 lim => fst (ebuf_select_by_class b c1 c2 c3 lim)
  | OpSelType t v lim => fst (ebuf_select_by_type b t v lim)
  | OpWrite budget => fst (ebuf_write_hdrs b budget)
  | OpClear => fst (ebuf_clear_written b)
  | OpReset => ebuf_reset b
  end.

Definition ebuf_run_from (b : ebuf) (ops : list eop) : ebuf := fold_left ebuf_step ops b.
Definition ebuf_run (cfg : ebcfg) (ops : list eop) : ebuf := ebuf_run_from (ebuf_new cfg) ops.

(* ---------------------------------------------------------------------------------------------- *)
(* counting *)

Fixpoint countN (f : erec -> bool) (l : list erec) : N :=
  match l with
  | [] => 0
  | r :: tl => (if f r then 1 else 0) + countN f tl
  end.

Definition in_class (k : eclass) (r : erec) : bool := eclass_eqb (r_class r) k.
Definition in_type (t : ptype) (r : erec) : bool := ptype_eqb (r_type r) t.
Definition wclass (k : eclass) (r : erec) : bool := in_class k r && is_written r.
Definition wtype (t : ptype) (r : erec) : bool := in_type t r && is_written r.

Lemma countN_app f l1 l2 : countN f (l1 ++ l2) = countN f l1 + countN f l2.
Proof. induction l1 as [|r l1 IH]; cbn [countN app]; [reflexivity|]. rewrite IH. lia. Qed.

Lemma countN_ext f g l : (forall r, In r l -> f r = g r) -> countN f l = countN g l.
Proof.
  induction l as [|r l IH]; intros H; cbn [countN]; [reflexivity|].
  rewrite (H r (or_introl eq_refl)), IH; [reflexivity|]. intros x Hx. apply H. right; exact Hx.
Qed.

Lemma countN_Forall2 f (l l' : list erec) :
  Forall2 (fun r r' => f r = f r') l l' -> countN f l = countN f l'.
Proof. induction 1 as [|r r' l l' Hr _ IH]; cbn [countN]; [reflexivity|]. rewrite Hr, IH. reflexivity. Qed.

Lemma countN_zero f l : (forall r, In r l -> f r = false) -> countN f l = 0.
Proof.
  induction l as [|r l IH]; intros H; cbn [countN]; [reflexivity|].
  rewrite (H r (or_introl eq_refl)), IH; [reflexivity|]. intros x Hx; apply H; right; exact Hx.
Qed.

Lemma countN_split f g l :
  countN f l = countN (fun r => f r && g r) l + countN f (filter (fun r => negb (g r)) l).
Proof.
  induction l as [|r l IH]; cbn [countN filter]; [reflexivity|].
  destruct (g r); cbn [negb countN]; rewrite IH; destruct (f r); cbn [andb]; lia.
Qed.

Lemma countN_filter_false f g l :
  (forall r, g r = true -> f r = false) -> countN f (filter g l) = 0.
Proof.
  intros H. apply countN_zero. intros r Hr. apply filter_In in Hr. apply H, Hr.
Qed.

Lemma countN_le f g l : (forall r, f r = true -> g r = true) -> countN f l <= countN g l.
Proof.
  intros H. induction l as [|r l IH]; cbn [countN]; [lia|].
  destruct (f r) eqn:Ef; [rewrite (H r Ef)|destruct (g r)]; lia.
Qed.

(* ---------------------------------------------------------------------------------------------- *)
(* counter algebra *)

Lemma cnt_class_map_class f k c k' :
  cnt_class (cnt_map_class f k c) k' = if eclass_eqb k k' then f (cnt_class c k') else cnt_class c k'.
Proof. destruct k, k'; reflexivity. Qed.

Lemma cnt_class_map_type f t c k : cnt_class (cnt_map_type f t c) k = cnt_class c k.
Proof. destruct t, k; reflexivity. Qed.

Lemma cnt_type_map_type f t c t' :
  cnt_type (cnt_map_type f t c) t' = if ptype_eqb t t' then f (cnt_type c t') else cnt_type c t'.
Proof. destruct t, t'; reflexivity. Qed.

Lemma cnt_type_map_class f k c t : cnt_type (cnt_map_class f k c) t = cnt_type c t.
Proof. destruct k, t; reflexivity. Qed.

Lemma cnt_class_inc k t c k' :
  cnt_class (cnt_inc k t c) k' = cnt_class c k' + (if eclass_eqb k k' then 1 else 0).
Proof. unfold cnt_inc. rewrite cnt_class_map_class, cnt_class_map_type. destruct (eclass_eqb k k'); lia. Qed.

Lemma cnt_type_inc k t c t' :
  cnt_type (cnt_inc k t c) t' = cnt_type c t' + (if ptype_eqb t t' then 1 else 0).
Proof. unfold cnt_inc. rewrite cnt_type_map_class, cnt_type_map_type. destruct (ptype_eqb t t'); lia. Qed.

Lemma cnt_class_dec k t c k' :
  cnt_class (cnt_dec k t c) k' = cnt_class c k' - (if eclass_eqb k k' then 1 else 0).
Proof. unfold cnt_dec. rewrite cnt_class_map_class, cnt_class_map_type. destruct (eclass_eqb k k'); lia. Qed.

Lemma cnt_type_dec k t c t' :
  cnt_type (cnt_dec k t c) t' = cnt_type c t' - (if ptype_eqb t t' then 1 else 0).
Proof. unfold cnt_dec. rewrite cnt_type_map_class, cnt_type_map_type. destruct (ptype_eqb t t'); lia. Qed.

Lemma cnt_class_zero k : cnt_class cnt_zero k = 0.
Proof. destruct k; reflexivity. Qed.
Lemma cnt_type_zero t : cnt_type cnt_zero t = 0.
Proof. destruct t; reflexivity. Qed.

Lemma eclass_eqb_sym a b : eclass_eqb a b = eclass_eqb b a.
Proof. destruct a, b; reflexivity. Qed.
Lemma ptype_eqb_sym a b : ptype_eqb a b = ptype_eqb b a.
Proof. destruct a, b; reflexivity. Qed.

(* ---------------------------------------------------------------------------------------------- *)
(* the invariant *)

Definition id_lt (a b : erec) : Prop := r_id a < r_id b.

Record ebuf_inv (b : ebuf) : Prop := mkInv {
  inv_total_class : forall k, cnt_class (eb_total b) k = countN (in_class k) (eb_events b);
  inv_total_type : forall t, cnt_type (eb_total b) t = countN (in_type t) (eb_events b);
  inv_written_class : forall k, cnt_class (eb_written b) k = countN (wclass k) (eb_events b);
  inv_written_type : forall t, cnt_type (eb_written b) t = countN (wtype t) (eb_events b);
  inv_cap : forall t, countN (in_type t) (eb_events b) <= cfg_max (eb_cfg b) t;
  inv_sorted : StronglySorted id_lt (eb_events b);
  inv_below : Forall (fun r => r_id r < eb_next b) (eb_events b)
}.

(* two records that differ at most in state and selected variation *)
Definition core_eq (r r' : erec) : Prop :=
  r_id r = r_id r' /\ r_index r = r_index r' /\ r_class r = r_class r' /\ r_type r = r_type r'
  /\ r_meas r = r_meas r' /\ r_dvar r = r_dvar r'.

Lemma core_eq_refl r : core_eq r r.
Proof. repeat split. Qed.

Lemma core_eq_set_state r r' s : core_eq r r' -> core_eq r (set_state r' s).
Proof. intros H. exact H. Qed.

Lemma core_eq_set_svar r r' v : core_eq r r' -> core_eq r (set_svar r' v).
Proof. intros H. exact H. Qed.


Lemma Forall2_refl {A} (R : A -> A -> Prop) l : (forall x, R x x) -> Forall2 R l l.
Proof. intros H. induction l; constructor; auto. Qed.

Lemma Forall2_impl {A B} (P Q : A -> B -> Prop) l l' :
  (forall a b, P a b -> Q a b) -> Forall2 P l l' -> Forall2 Q l l'.
Proof. intros H. induction 1; constructor; auto. Qed.

Lemma core_in_class k l l' : Forall2 core_eq l l' -> countN (in_class k) l = countN (in_class k) l'.
Proof.
  intros H. apply countN_Forall2. eapply Forall2_impl; [|exact H].
  intros r r' (_ & _ & Hc & _). unfold in_class. rewrite Hc. reflexivity.
Qed.

Lemma core_in_type t l l' : Forall2 core_eq l l' -> countN (in_type t) l = countN (in_type t) l'.
Proof.
  intros H. apply countN_Forall2. eapply Forall2_impl; [|exact H].
  intros r r' (_ & _ & _ & Ht & _). unfold in_type. rewrite Ht. reflexivity.
Qed.

Lemma core_sorted l l' : Forall2 core_eq l l' -> StronglySorted id_lt l -> StronglySorted id_lt l'.
Proof.
  induction 1 as [|r r' l l' Hr Hl IH]; intros Hs; [constructor|].
  inversion Hs as [|? ? Hs' Hall]; subst. constructor; [apply IH; exact Hs'|].
  clear IH Hs Hs'. induction Hl as [|x x' l l' Hx _ IH]; [constructor|].
  inversion Hall; subst. constructor; [|apply IH; assumption].
  unfold id_lt in *. destruct Hr as (Hr & _), Hx as (Hx & _). lia.
Qed.

Lemma core_below n l l' : Forall2 core_eq l l' ->
  Forall (fun r => r_id r < n) l -> Forall (fun r => r_id r < n) l'.
Proof.
  induction 1 as [|r r' l l' Hr _ IH]; intros Hf; [constructor|].
  inversion Hf; subst. constructor; [destruct Hr as (Hr & _); lia|apply IH; assumption].
Qed.

(* ---------------------------------------------------------------------------------------------- *)
(* sortedness helpers *)

Lemma sorted_app_last l x :
  StronglySorted id_lt l -> Forall (fun r => id_lt r x) l -> StronglySorted id_lt (l ++ [x]).
Proof.
  induction l as [|a l IH]; intros Hs Hf; cbn [app]; [repeat constructor|].
  inversion Hs; subst. inversion Hf; subst. constructor; [apply IH; assumption|].
  apply Forall_app. split; [assumption|constructor; [assumption|constructor]].
Qed.

Lemma sorted_remove_mid pre x post :
  StronglySorted id_lt (pre ++ x :: post) -> StronglySorted id_lt (pre ++ post).
Proof.
  induction pre as [|a pre IH]; cbn [app]; intros Hs.
  - inversion Hs; assumption.
  - inversion Hs as [|? ? Hs' Hall]; subst. constructor; [apply IH; exact Hs'|].
    apply Forall_app in Hall. destruct Hall as [H1 H2]. inversion H2; subst.
    apply Forall_app. split; assumption.
Qed.

Lemma sorted_filter f l : StronglySorted id_lt l -> StronglySorted id_lt (filter f l).
Proof.
  induction l as [|a l IH]; intros Hs; cbn [filter]; [constructor|].
  inversion Hs as [|? ? Hs' Hall]; subst.
  destruct (f a); [|apply IH; exact Hs'].
  constructor; [apply IH; exact Hs'|].
  apply Forall_forall. intros x Hx. apply filter_In in Hx.
  rewrite Forall_forall in Hall. apply Hall, Hx.
Qed.

Lemma Forall_remove_mid {A} (P : A -> Prop) pre x post :
  Forall P (pre ++ x :: post) -> Forall P (pre ++ post).
Proof.
  intros H. apply Forall_app in H. destruct H as [H1 H2]. inversion H2; subst.
  apply Forall_app; split; assumption.
Qed.

(* ---------------------------------------------------------------------------------------------- *)
(* insert *)

Lemma remove_first_type_some t l old rest :
  remove_first_type t l = Some (old, rest) ->
  exists pre post, l = pre ++ old :: post /\ rest = pre ++ post /\ r_type old = t
                   /\ Forall (fun r => in_type t r = false) pre.
Proof.
  revert old rest. induction l as [|r l IH]; intros old rest H; cbn [remove_first_type] in H; [discriminate|].
  destruct (ptype_eqb (r_type r) t) eqn:Et.
  - injection H as H1 H2; subst old rest. exists [], l. repeat split; [apply ptype_eqb_eq; exact Et|constructor].
  - destruct (remove_first_type t l) as [[x tl']|] eqn:Er; [|discriminate].
    injection H as H1 H2; subst old rest. destruct (IH _ _ eq_refl) as (pre & post & -> & -> & Ht & Hpre).
    exists (r :: pre), post. repeat split; [exact Ht|constructor; [exact Et|exact Hpre]].
Qed.

Lemma remove_first_type_none t l :
  remove_first_type t l = None -> countN (in_type t) l = 0.
Proof.
  induction l as [|r l IH]; intros H; cbn [remove_first_type countN] in *; [reflexivity|].
  unfold in_type at 1. destruct (ptype_eqb (r_type r) t); [discriminate|].
  destruct (remove_first_type t l) as [[x tl']|]; [discriminate|]. rewrite IH; reflexivity.
Qed.

Lemma countN_mid f pre x post :
  countN f (pre ++ x :: post) = countN f (pre ++ post) + (if f x then 1 else 0).
Proof. rewrite !countN_app. cbn [countN]. lia. Qed.

Definition new_rec (b : ebuf) (index : N) (k : eclass) (t : ptype) (m : meas) (dv : evar) : erec :=
  mkRec (eb_next b) index k t m dv dv Unselected.

(* the three outcomes of insert, in terms of the records *)
Lemma ebuf_insert_cases b index k t m dv :
  ebuf_inv b ->
  let '(b', res) := ebuf_insert b index k t m dv in
  let rec := new_rec b index k t m dv in
  (cfg_max (eb_cfg b) t = 0 /\ b' = b /\ res = InsTypeMaxIsZero)
  \/ (cfg_max (eb_cfg b) t <> 0 /\ countN (in_type t) (eb_events b) < cfg_max (eb_cfg b) t
      /\ res = InsOk (eb_next b) /\ eb_events b' = eb_events b ++ [rec]
      /\ eb_total b' = cnt_inc k t (eb_total b) /\ eb_written b' = eb_written b
      /\ eb_overflown b' = eb_overflown b /\ eb_next b' = eb_next b + 1 /\ eb_cfg b' = eb_cfg b)
  \/ (cfg_max (eb_cfg b) t <> 0 /\ countN (in_type t) (eb_events b) = cfg_max (eb_cfg b) t
      /\ exists old pre post,
          eb_events b = pre ++ old :: post /\ Forall (fun r => in_type t r = false) pre
          /\ r_type old = t /\ res = InsOverflow (eb_next b) (r_id old)
          /\ eb_events b' = pre ++ post ++ [rec]
          /\ eb_total b' = cnt_inc k t (cnt_dec (r_class old) t (eb_total b))
          /\ eb_written b' = (if is_written old then cnt_dec (r_class old) t (eb_written b) else eb_written b)
          /\ eb_overflown b' = true /\ eb_next b' = eb_next b + 1 /\ eb_cfg b' = eb_cfg b).
Proof.
  intros Hinv. unfold ebuf_insert.
  destruct (cfg_max (eb_cfg b) t =? 0) eqn:Emax.
  { left. repeat split. apply N.eqb_eq; exact Emax. }
  apply N.eqb_neq in Emax.
  destruct (cnt_type (eb_total b) t =? cfg_max (eb_cfg b) t) eqn:Efull.
  - apply N.eqb_eq in Efull. rewrite (inv_total_type b Hinv) in Efull.
    destruct (remove_first_type t (eb_events b)) as [[old rest]|] eqn:Er.
    + right; right. destruct (remove_first_type_some _ _ _ _ Er) as (pre & post & Hl & -> & Ht & Hpre).
      split; [exact Emax|]. split; [exact Efull|].
      exists old, pre, post. cbn [eb_events eb_total eb_written eb_overflown eb_next eb_cfg].
      rewrite <- app_assoc. repeat split; try assumption.
      unfold is_written. destruct (r_state old); reflexivity.
    + apply remove_first_type_none in Er. lia.
  - right; left. apply N.eqb_neq in Efull. rewrite (inv_total_type b Hinv) in Efull.
    pose proof (inv_cap b Hinv t). cbn [eb_events eb_total eb_written eb_overflown eb_next eb_cfg].
    repeat split; try assumption; lia.
Qed.

Lemma in_class_new b i k t m dv k' : in_class k' (new_rec b i k t m dv) = eclass_eqb k k'.
Proof. reflexivity. Qed.
Lemma in_type_new b i k t m dv t' : in_type t' (new_rec b i k t m dv) = ptype_eqb t t'.
Proof. reflexivity. Qed.

Lemma wclass_new b i k t m dv k' : wclass k' (new_rec b i k t m dv) = false.
Proof. unfold wclass, is_written. cbn. apply andb_false_r. Qed.
Lemma wtype_new b i k t m dv t' : wtype t' (new_rec b i k t m dv) = false.
Proof. unfold wtype, is_written. cbn. apply andb_false_r. Qed.

Lemma insert_preserves b index k t m dv :
  ebuf_inv b -> ebuf_inv (fst (ebuf_insert b index k t m dv)).
Proof.
  intros Hinv. pose proof (ebuf_insert_cases b index k t m dv Hinv) as H.
  destruct (ebuf_insert b index k t m dv) as [b' res]. cbn [fst].
  destruct H as [(_ & -> & _)|[H|H]]; [exact Hinv| |].
  - destruct H as (Hmax & Hlt & _ & Hev & Htot & Hwr & _ & Hnext & Hcfg).
    destruct Hinv as [I1 I2 I3 I4 I5 I6 I7].
    constructor; rewrite ?Hev, ?Htot, ?Hwr, ?Hnext, ?Hcfg.
    + intro k'. rewrite cnt_class_inc, countN_app, I1. cbn [countN]. rewrite in_class_new. lia.
    + intro t'. rewrite cnt_type_inc, countN_app, I2. cbn [countN]. rewrite in_type_new. lia.
    + intro k'. rewrite countN_app, I3. cbn [countN]. rewrite wclass_new. lia.
    + intro t'. rewrite countN_app, I4. cbn [countN]. rewrite wtype_new. lia.
    + intro t'. rewrite countN_app. cbn [countN]. rewrite in_type_new.
      destruct (ptype_eqb t t') eqn:E; [apply ptype_eqb_eq in E; subst t'; lia|pose proof (I5 t'); lia].
    + apply sorted_app_last; [exact I6|]. eapply Forall_impl; [|exact I7]. intros r Hr. exact Hr.
    + apply Forall_app. split; [eapply Forall_impl; [|exact I7]; cbn; intros; lia|].
      constructor; [cbn; lia|constructor].
  - destruct H as (Hmax & Hfull & old & pre & post & Hl & Hpre & Hto & _ & Hev & Htot & Hwr & _ & Hnext & Hcfg).
    destruct Hinv as [I1 I2 I3 I4 I5 I6 I7]. rewrite Hl in *.
    assert (Hcls : in_class (r_class old) old = true) by (unfold in_class; apply eclass_eqb_refl).
    assert (Htyp : in_type t old = true) by (unfold in_type; rewrite Hto; apply ptype_eqb_refl).
    constructor; rewrite ?Hev, ?Htot, ?Hnext, ?Hcfg.
    + intro k'. rewrite cnt_class_inc, cnt_class_dec, I1, app_assoc, countN_app, countN_mid.
      cbn [countN]. rewrite in_class_new. unfold in_class at 2. rewrite (eclass_eqb_sym (r_class old) k').
Show. Abort.
