From Dnp3V Require Import Outstation.Session Outstation.SessionLemmas_c05 Outstation.SessionC05Proofs.
Open Scope N_scope.

(* ---------- 1. a repeated non-READ request is not executed again ------------------------------------------------------------- *)

Lemma sol_wait_fragment_repeat cfg s se dl from bytes d ctl fn obj resp :
  to_treq cfg from d = TqRequest ctl fn obj ->
  classify s None bytes ctl fn obj = FtRepeatNonRead resp ->
  sol_wait_fragment cfg s se dl from None bytes d = (SoNewRequest, [OInfo ISolNewRequest]).
Proof. intros Et Ecl. unfold sol_wait_fragment. rewrite Et, Ecl. reflexivity. Qed.


Definition next_fid (s : ostate) : N := (s_frame_id s + 1) mod 4294967296.
Definition rx_state (s : ostate) : ostate := upd_frame_id s (next_fid s).

Lemma on_rx_idle cfg s from bc bytes d :
  s_control s = CIdle ->
  on_rx cfg s from bc bytes d =
  idle_loop 8 cfg (upd_pending (rx_state s) (Some (from, bc, bytes, d, next_fid s))).
Proof. intros Hc. unfold on_rx, rx_state, next_fid. cbv zeta. psimpl. rewrite Hc. reflexivity. Qed.

Lemma on_rx_unsol cfg s from bc bytes d resp is_null retries deadline :
  s_control s = CUnsolWait resp is_null retries deadline ->
  on_rx cfg s from bc bytes d =
  let '(s1, res, o) := unsol_wait_fragment cfg (rx_state s) resp from bc bytes d (next_fid s) in
  match res with
  | None => (s1, o)
  | Some r =>
      let '(s2, ns, o2) := end_unsol cfg s1 is_null r in
      let '(s3, o3) := resume_at cfg (St3 ns) s2 in
      (s3, o ++ o2 ++ o3)
  end.
Proof. intros Hc. unfold on_rx, rx_state, next_fid. cbv zeta. psimpl. rewrite Hc. reflexivity. Qed.

Lemma on_rx_sol_new cfg s from bc bytes d se deadline r o :
  s_control s = CSolWait se deadline r ->
  sol_wait_fragment cfg (rx_state s) se deadline from bc bytes d = (SoNewRequest, o) ->
  on_rx cfg s from bc bytes d =
  let '(s2, o2) := resume_at cfg (stage_of r)
                     (upd_pending (upd_control (rx_state s) CIdle) (Some (from, bc, bytes, d, next_fid s))) in
  (s2, o ++ [ODb DbReset] ++ o2).
Proof.
  intros Hc Hw. unfold on_rx. cbv zeta. fold (next_fid s). fold (rx_state s).
  replace (s_control (rx_state s)) with (s_control s) by reflexivity. rewrite Hc, Hw. reflexivity.
Qed.

(* the observations of the step that receives the repeat, by the control state it arrives in *)
Definition repeat_prefix (c : control) (fn seq : N) (pre : list oobs) : Prop :=
  match c with
  | CIdle => pre = [OInfo (IIdleRequest fn seq)]
  | CUnsolWait _ _ _ _ => pre = []
  | CSolWait _ _ _ =>
      exists u i, pre = [OInfo ISolNewRequest; ODb DbReset] ++ u ++ i /\ forallb ustart u = true /\
                  (i = [] \/ i = [OInfo (IIdleRequest fn seq)])
  end.


Lemma resume_at_fuel cfg st s : resume_at cfg st s = idle_run (S (S (S (S (S 27))))) cfg st s.
Proof. unfold resume_at. reflexivity. Qed.

Lemma testA cfg h s from bytes d ans ctl fn obj resp s' o :
  inv cfg h s ->
  to_treq cfg from d = TqRequest ctl fn obj ->
  classify s None bytes ctl fn obj = FtRepeatNonRead resp ->
  ostep cfg s (ERx from None bytes d) ans = (s', o) ->
  True.
Proof.
  intros Hinv Et Ecl H. unfold ostep in H.
  assert (Hinv0 : inv cfg h (upd_answers s ans)) by (apply inv_same with (s := s); [frame_tac | exact Hinv]).
  destruct (on_rx cfg (upd_answers s ans) from None bytes d) as [s1 o1] eqn:E1.
  destruct (advance 64 cfg s1 (s_now s1 + settle_ms)) as [s2 o2] eqn:E2. inv_pair H.
  pose proof (on_rx_pres _ _ _ _ _ _ _ _ _ E1 Hinv0) as [_ [Hp1 _]].
  apply advance_bg in E2 as [_ S2]; [|exact Hp1].
  remember (upd_answers s ans) as s0 eqn:Es0.
  assert (Hl0 : s_last (rx_state s0) = s_last s) by (subst s0; reflexivity).
  assert (Hb0 : s_sol_buf (rx_state s0) = s_sol_buf s) by (subst s0; reflexivity).
  assert (Hc0 : s_control s0 = s_control s) by (subst s0; reflexivity).
  assert (Hd0 : s_deferred (rx_state s0) = s_deferred s) by (subst s0; reflexivity).
  assert (EclA : forall sx, s_last sx = s_last (rx_state s0) -> classify sx None bytes ctl fn obj = FtRepeatNonRead resp).
  { intros sx X. rewrite <- Ecl. apply classify_last. congruence. }
  clear Es0 Hinv0.
  destruct (s_control s) as [|se dl r|resp0 is_null retries dl] eqn:Ec; cbn [repeat_prefix].
  - rewrite on_rx_idle in E1 by exact Hc0.
    rewrite idle_loop_8_eq, resume_at_fuel in E1.
    apply (idle_run_repeat_St1 cfg 31 _ from bytes d (next_fid s0) ctl fn obj resp) in E1
      as [_ [post [Eo B]]]; [| reflexivity | exact Et | apply EclA; reflexivity].
    exact I.
  - exact I.
  - exact I.
Qed.
