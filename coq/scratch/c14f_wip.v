From Dnp3V Require Import Outstation.Session Outstation.SessionLemmas_c14.
Open Scope N_scope.

(* ---------- micro-steps as seen by the unsolicited rules ---------------------------------------- *)

Definition qob (o : oobs) : Prop := solob o \/ o = ODb DbDeferredSelect.

Definition qv (s : ostate) := (s_unsol s, s_unsol_seq s, s_unsol_buf s, s_now s).

(* a fragment held by the reader is the one of the current event *)
Definition pend_ok (e : option oevent) (s : ostate) : Prop :=
  forall from bc bytes d fid, s_pending s = Some (from, bc, bytes, d, fid) -> e = Some (ERx from bc bytes d).

Definition frag_src (e : option oevent) (s : ostate) (from : N) (bc : option bcast_mode) (bytes : list N)
           (d : digest) : Prop :=
  e = Some (ERx from bc bytes d) \/ exists fid, s_pending s = Some (from, bc, bytes, d, fid).

Definition en_step (cfg : ocfg) (e : option oevent) (s s' : ostate) : Prop :=
  s_enabled s' = s_enabled s \/
  exists from bc bytes d, frag_src e s from bc bytes d /\ enable_req cfg d s s'.

Record base (cfg : ocfg) (e : option oevent) (s s' : ostate) : Prop := {
  b_last : last_ok s -> last_ok s';
  b_pend : pend_ok e s -> pend_ok e s';
  b_en : en_step cfg e s s'
}.

Definition ctl_quiet (s s' : ostate) : Prop :=
  s_control s' = s_control s \/ (is_uw (s_control s) = false /\ is_uw (s_control s') = false).

Inductive ustep (cfg : ocfg) (e : option oevent) (s : ostate) (o : list oobs) (s' : ostate) : Prop :=
| us_quiet :
    base cfg e s s' -> (last_ok s -> Forall qob o) -> qv s' = qv s -> ctl_quiet s s' -> ustep cfg e s o s'
| us_null :
    s_control s = CIdle -> o_unsol cfg = true -> s_unsol s = UNullRequired ->
    started cfg s s' true 0 (s_unsol_buf s) o -> ustep cfg e s o s'
| us_data : forall dl c1 c2 c3 body o',
    s_control s = CIdle -> o_unsol cfg = true -> s_unsol s = UReady dl -> unsol_ready s dl = true ->
    any_enabled s = true -> s_enabled s = (c1, c2, c3) -> o = ODb (DbWriteUnsol c1 c2 c3) :: o' ->
    started cfg s s' false (4 + length body) (buf_set (s_unsol_buf s) body) o' -> ustep cfg e s o s'
| us_confirm : forall resp n ret dl,
    s_control s = CUnsolWait resp n ret dl ->
    o = OInfo (IUnsolConfirmed (ctl_seq (r_ctl resp))) :: (if n then [] else [ODb DbClearWritten]) ->
    s_control s' = CIdle -> s_unsol s' = UReady None ->
    (s_unsol_seq s', s_unsol_buf s', s_now s', s_deferred s', s_enabled s')
    = (s_unsol_seq s, s_unsol_buf s, s_now s, s_deferred s, s_enabled s) ->
    (last_ok s -> last_ok s') -> (pend_ok e s -> pend_ok e s') -> ustep cfg e s o s'
| us_disable : forall resp n ret dl from bytes ctl obj o1,
    s_control s = CUnsolWait resp n ret dl ->
    frag_src e s from None bytes (DOk ctl 21 RvOk obj) ->
    o = o1 ++ (if n then [] else [ODb DbReset]) -> (last_ok s -> Forall solob o1) ->
    (exists oa b, o1 = oa ++ [OTx from b]) ->
    s_control s' = CIdle ->
    s_unsol s' = (if n then UNullRequired else UReady (Some (s_now s + o_retry_delay_ms cfg)%Z)) ->
    (s_unsol_seq s', s_unsol_buf s', s_now s') = (s_unsol_seq s, s_unsol_buf s, s_now s) ->
    s_deferred s' = None -> base cfg e s s' -> ustep cfg e s o s'
| us_retry : forall resp n ret dl t,
    s_control s = CUnsolWait resp n ret dl -> s_deferred s = None -> can_retry ret = true ->
    t = Z.max dl (s_now s) ->
    o = OAt t :: OInfo (IUnsolTimeout (ctl_seq (r_ctl resp)) true) :: repeat_unsolicited cfg s resp ->
    s' = upd_control (upd_now s t) (CUnsolWait resp n (dec_retries ret) (t + o_confirm_ms cfg)%Z) ->
    ustep cfg e s o s'
| us_timeout : forall resp n ret dl t,
    s_control s = CUnsolWait resp n ret dl -> (can_retry ret = false \/ s_deferred s <> None) ->
    t = Z.max dl (s_now s) ->
    o = OAt t :: OInfo (IUnsolTimeout (ctl_seq (r_ctl resp)) false) :: (if n then [] else [ODb DbReset]) ->
    s_control s' = CIdle ->
    s_unsol s' = (if n then UNullRequired else UReady (Some (t + o_retry_delay_ms cfg)%Z)) ->
    s_now s' = t ->
    (s_unsol_seq s', s_unsol_buf s', s_pending s', s_deferred s', s_enabled s', s_last s')
    = (s_unsol_seq s, s_unsol_buf s, s_pending s, s_deferred s, s_enabled s, s_last s) ->
    ustep cfg e s o s'
| us_sol_timeout : forall se dl r t,
    s_control s = CSolWait se dl r -> t = Z.max dl (s_now s) ->
    o = [OAt t; OInfo (ISolTimeout (se_ecsn se)); ODb DbReset] -> s' = upd_control (upd_now s t) CIdle ->
    ustep cfg e s o s'
| us_tick : forall t,
    s_control s = CIdle -> o_unsol cfg = true -> s_unsol s = UReady (Some t) -> (s_now s < t)%Z ->
    o = [OAt t] -> s' = upd_now s t -> ustep cfg e s o s'
| us_disconnect :
    e = Some EDisconnect -> o = [ODb DbReset; OSessionEnd] ->
    s' = upd_pending (upd_control (session_reset s) CIdle) None -> ustep cfg e s o s'
| us_fuel : o = [OOutOfFuel] -> s' = s -> ustep cfg e s o s'.

Lemma solob_qob : forall l, Forall solob l -> Forall qob l.
Proof. intros l H. eapply Forall_imp; [|exact H]. intros o Ho. left. exact Ho. Qed.

Lemma ctl_step_sol_idle : forall s s', ctl_step_sol s s' -> s_control s = CIdle ->
  is_uw (s_control s) = false /\ is_uw (s_control s') = false.
Proof.
  intros s s' [H|(x & dl & r & H)] Hc; rewrite H; [rewrite Hc|rewrite Hc]; split; reflexivity.
Qed.

Lemma base_same : forall cfg e s s',
  s_last s' = s_last s -> s_pending s' = s_pending s -> s_enabled s' = s_enabled s -> base cfg e s s'.
Proof.
  intros cfg e s s' Hl Hp He. split.
  - apply last_ok_same. exact Hl.
  - intros H from bc bytes d fid Hs. eapply H. rewrite <- Hp. exact Hs.
  - left. exact He.
Qed.

Lemma pend_ok_none : forall e s, s_pending s = None -> pend_ok e s.
Proof. intros e s H from bc bytes d fid Hs. congruence. Qed.

(* a fragment in the wait *)
Lemma wait_rx_ustep : forall cfg e s0 s resp n ret dl from bc bytes d fid o s',
  s_control s0 = CUnsolWait resp n ret dl ->
  frag_src e s0 from bc bytes d ->
  (s = s0 \/ s = upd_pending s0 None) ->
  wait_rx cfg s resp n from bc bytes d fid o s' -> ustep cfg e s0 o s'.
Proof.
  intros cfg e s0 s resp n ret dl from bc bytes d fid o s' Hc Hsrc Hs (s1 & res & o1 & E & Hres).
  apply unsol_wait_fragment_spec in E. destruct E as (Hw & Hen & Hl & Hr).
  assert (Hs0 : (s_unsol s, s_unsol_seq s, s_unsol_buf s, s_now s, s_control s, s_deferred s, s_enabled s, s_last s)
                = (s_unsol s0, s_unsol_seq s0, s_unsol_buf s0, s_now s0, s_control s0, s_deferred s0, s_enabled s0, s_last s0)
                /\ (pend_ok e s0 -> pend_ok e s)).
  { destruct Hs as [-> | ->]; split; try reflexivity; auto. intros _. apply pend_ok_none. reflexivity. }
  destruct Hs0 as [Hs0 Hp0].
  assert (Hl0 : last_ok s0 -> last_ok s) by (apply last_ok_same; congruence).
  assert (Hen0 : en_step cfg e s0 s1).
  { right. exists from, bc, bytes, d. split; [exact Hsrc|].
    destruct Hen as [Hen|(c & fn & hdrs & rh & Hd & Hu & Hf & He)]; [left; congruence|].
    right. exists c, fn, hdrs, rh. repeat split; auto. congruence. }
  assert (Hp1 : pend_ok e s0 -> pend_ok e s1).
  { intros Hp from' bc' bytes' d' fid' Hx. apply Hp0 in Hp. eapply Hp.
    unfold wview in Hw. replace (s_pending s) with (s_pending s1) by congruence. exact Hx. }
  unfold wview in Hw.
  destruct res as [[| |]|].
  - (* confirmed *)
    destruct Hres as (ns & o2 & E2 & ->). destruct Hr as (-> & Hd & He).
    apply end_unsol_spec in E2. destruct E2 as (Hc2 & Hv2 & Hu2 & -> & _).
    eapply (us_confirm cfg e s0 _ s' resp n ret dl); [exact Hc|destruct n; reflexivity|exact Hc2|exact Hu2|congruence| |].
    + intros Hk. apply Hl0 in Hk. apply Hl in Hk. eapply last_ok_same; [|exact Hk]. congruence.
    + intros Hp. apply Hp1 in Hp. intros from' bc' bytes' d' fid' Hx. eapply Hp.
      replace (s_pending s1) with (s_pending s') by congruence. exact Hx.
  - destruct Hr.
  - (* DISABLE_UNSOLICITED *)
    destruct Hres as (ns & o2 & E2 & ->). destruct Hr as (Ho1 & Hd & -> & (ctl & obj & ->) & Hex).
    apply end_unsol_spec in E2. destruct E2 as (Hc2 & Hv2 & Hu2 & -> & _).
    assert (Hn1 : s_now s1 = s_now s0) by congruence.
    eapply (us_disable cfg e s0 _ s' resp n ret dl from bytes ctl obj o1);
      [exact Hc|exact Hsrc|destruct n; reflexivity|auto|exact Hex|exact Hc2|
       destruct n; rewrite Hu2; [reflexivity|rewrite Hn1; reflexivity]|congruence|congruence|].
    split.
      * intros Hk. apply Hl0 in Hk. apply Hl in Hk. eapply last_ok_same; [|exact Hk]. congruence.
      * intros Hp. apply Hp1 in Hp. intros from' bc' bytes' d' fid' Hx. eapply Hp.
        replace (s_pending s1) with (s_pending s') by congruence. exact Hx.
      * destruct Hen0 as [He|(f' & b' & y' & d' & Hsrc' & He)].
        -- left. congruence.
        -- right. exists f', b', y', d'. split; [exact Hsrc'|].
           destruct He as [He|(c & fn & hdrs & rh & Hd' & Hu & Hf & He)]; [left; congruence|].
           right. exists c, fn, hdrs, rh. repeat split; auto. congruence.
  - destruct Hres as [-> ->]. apply us_quiet.
    + split; [auto|exact Hp1|exact Hen0].
    + intros Hk. apply solob_qob. auto.
    + unfold qv. congruence.
    + left. congruence.
Qed.

Lemma micro_ustep : forall cfg e s o s', micro cfg e s o s' -> ustep cfg e s o s'.
Proof.
  intros cfg e s o s' H. destruct H.
  - (* skip *)
    unfold kview, wview in H. apply us_quiet.
    + apply base_same; congruence.
    + intros _. constructor.
    + unfold qv. congruence.
    + left. congruence.
  - (* pending set *)
    apply us_quiet.
    + split; [auto| |left; reflexivity].
      intros _ from' bc' bytes' d' fid' Hx. cbn in Hx. inversion Hx; subst. reflexivity.
    + intros _. constructor.
    + reflexivity.
    + left. reflexivity.
  - (* request from idle *)
    apply handle_from_idle_spec in H1. destruct H1 as (Hu & Hc & Hen & Ho).
    unfold uview in Hu. psimpl_in Hu.
    apply us_quiet.
    + split.
      * intros Hk. apply Ho. exact Hk.
      * intros _. apply pend_ok_none. congruence.
      * right. exists from, bc, bytes, d. split; [right; eauto|exact Hen].
    + intros Hk. apply solob_qob. apply Ho. exact Hk.
    + unfold qv. congruence.
    + right. apply (ctl_step_sol_idle (upd_pending s None)); [exact Hc|exact H].
  - (* solicited wait *)
    destruct H as [Hv Hu Ho]. apply us_quiet.
    + split; [apply Ho| |left; congruence].
      intros Hp from' bc' bytes' d' fid' Hx. eapply Hp. replace (s_pending s) with (s_pending s') by congruence. exact Hx.
    + intros Hk. apply solob_qob. apply Ho. exact Hk.
    + unfold qv. congruence.
    + right. exact Hu.
  - (* check_unsolicited *)
    apply check_unsolicited_spec in H0. destruct H0 as [[-> Hk]|[(Hu & Hs & Hst)|(Hu & dl & c1 & c2 & c3 & body & o' & Hs & Hr & Ha & He & -> & Hst)]].
    + unfold kview, wview in Hk. apply us_quiet.
      * apply base_same; congruence.
      * intros _. constructor.
      * unfold qv. congruence.
      * left. congruence.
    + apply us_null; assumption.
    + eapply us_data; eauto.
  - eapply wait_rx_ustep; [exact H|left; exact H0|left; reflexivity|exact H1].
  - eapply wait_rx_ustep; [exact H|right; eauto|right; reflexivity|exact H1].
  - (* deferred read *)
    apply handle_deferred_spec in H0. destruct (s_deferred s) as [d|] eqn:Ed.
    + destruct H0 as (Hd & Hv & Hc & Hl & o1 & b & o2 & -> & Ho1 & Hb1 & _ & Ho2).
      unfold dview in Hv. apply us_quiet.
      * split; [intros _; exact Hl| |left; congruence].
        intros Hp from' bc' bytes' d' fid' Hx. eapply Hp. replace (s_pending s) with (s_pending s') by congruence. exact Hx.
      * intros _. constructor; [right; reflexivity|]. apply Forall_app; split.
        -- apply solob_qob. eapply Forall_imp; [apply dbq_solob|exact Ho1].
        -- constructor; [left; exact Hb1|]. destruct Ho2 as [-> |[q ->]]; [constructor|].
           constructor; [left; exact I|constructor].
      * unfold qv. congruence.
      * right. apply ctl_step_sol_idle; assumption.
    + destruct H0 as [-> ->]. apply us_quiet.
      * apply base_same; reflexivity.
      * intros _. constructor.
      * reflexivity.
      * left. reflexivity.
  - eapply us_retry; eauto.
  - apply end_unsol_spec in H2. destruct H2 as (Hc2 & Hv2 & Hu2 & -> & _). psimpl_in Hv2. psimpl_in Hu2.
    eapply (us_timeout cfg e s _ s' resp n ret dl t); [exact H|exact H0|exact H1|destruct n; reflexivity|exact Hc2|exact Hu2|congruence|congruence].
  - eapply us_sol_timeout; eauto.
  - eapply us_tick; eauto.
  - apply us_disconnect; auto.
  - apply us_fuel; reflexivity.
Qed.
