From Coq Require Import ZArith NArith List Bool Lia.
From Dnp3V Require Import Master.Backoff Master.Assoc Master.Sched Master.AssocProofs Master.SchedProofs.
Import ListNotations.
Open Scope Z_scope.
Definition quiet_cfg : ms_acfg := {| ms_c_disable := 0; ms_c_integrity := 0; ms_c_enable := 0; ms_c_tsync := 0;
  ms_c_ovf := false; ms_c_evscan := 0; ms_c_rmin := 5; ms_c_rmax := 20; ms_c_keepalive := Some 50; ms_c_rto := 10; ms_c_maxq := 16 |}.
Definition resp (seq iin1 : N) : ms_rx := MsRxResp {| ms_r_uns := false; ms_r_fir := true; ms_r_fin := true; ms_r_con := false;
  ms_r_seq := seq; ms_r_iin1 := iin1; ms_r_iin2 := 0; ms_r_objs := []; ms_r_ok := true; ms_r_nvalues := 0; ms_r_delay := None |}.
Definition evs2 := [MsEStart; MsEAddAssoc 1024 quiet_cfg; MsEAddAssoc 1025 quiet_cfg; MsETick 1;
  MsEAddPoll 1024 20 9; MsETick 1; MsEUser 1025 1 (MsUKRead 8); MsETick 1; MsEUser 1024 2 MsUKEmpty; MsETick 1; MsEUser 1025 3 (MsUKRead 1); MsETick 1;
  MsERx 1025 (resp 0 0); MsETick 1; MsERx 1024 (resp 0 0); MsETick 1; MsERx 1025 (resp 1 0); MsETick 40; MsERx 1024 (resp 1 0); MsETick 100].
Eval vm_compute in (map (fun o => match o with MsOTx t b => MsOTx t [] | x => x end) (snd (ms_run 500 ms_m_init evs2))).
