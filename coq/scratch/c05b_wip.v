From Dnp3V Require Import Outstation.Session Outstation.SessionLemmas_c05.
Open Scope N_scope.

(* ---------- the invariant through deadlines ---------------------------------------------------------------------------- *)

Lemma inv_same cfg h s s1 :
  frame s s1 -> inv cfg h s -> inv cfg h s1.
Proof.
  intros [[Fc [Fl [Fd [Fp [Fn Fu]]]]] Fb] [[A [B [C D]]] [E1 E2]].
  split; [split; [|split; [|split]]|split].
  - apply sol_coh_same with (s := s); auto.
  - intros resp n rt dl Hc. rewrite Fc in Hc. rewrite Fu. eauto.
  - apply wait_coh_frame with (s := s); auto.
  - apply def_ok_same with (s := s); auto.
  - congruence.
  - rewrite Fd, Fc. exact E2.
Qed.

Lemma resume_pres cfg h st s s' o pre :
  resume_at cfg st s = (s', o) ->
  s_control s = CIdle -> stage_ok st s -> def_ok cfg s -> sol_coh cfg (h ++ pre) s ->
  inv cfg (h ++ pre ++ o) s'.
Proof.
  unfold resume_at. intros H Hc Hst Hd Hcoh.
  apply idle_run_pres with (h := h ++ pre) in H as [A _]; auto.
  - rewrite <- app_assoc in A. exact A.
  - pose proof (need_le_32 st s). lia.
Qed.

Lemma rest_ok_deferred_none s :
  rest_ok s -> (forall resp n rt dl, s_control s <> CUnsolWait resp n rt dl) -> s_deferred s = None.
Proof.
  intros [_ H] Hc. destruct (s_deferred s) eqn:E; [|reflexivity].
  destruct H as [resp [n [rt [dl X]]]]; [discriminate|]. destruct (Hc _ _ _ _ X).
Qed.

Lemma stage_ok_of_none st s : s_deferred s = None -> stage_ok st s.
Proof. destruct st; cbn [stage_ok]; auto. Qed.

Lemma fire_deadline_pres cfg h s s' o :
  fire_deadline cfg s = (s', o) -> inv cfg h s -> inv cfg (h ++ o) s'.
Proof.
  unfold fire_deadline. intros H Hinv.
  destruct (s_control s) as [|se dl r|resp is_null retries dl] eqn:Ec;
    pose proof Hinv as [[A [B [C D]]] [E1 E2]].
  - apply resume_pres with (h := h) (pre := []) in H; auto.
    + apply stage_ok_of_none. apply rest_ok_deferred_none; [split; auto|]. intros. rewrite Ec. discriminate.
    + rewrite app_nil_r. exact A.
  - destruct (resume_at cfg (stage_of r) (upd_control s CIdle)) as [s1 o1] eqn:E. inv_pair H.
    apply resume_pres with (h := h) (pre := [OInfo (ISolTimeout (se_ecsn se)); ODb DbReset]) in E; auto.
    + apply stage_ok_of_none. psimpl. apply rest_ok_deferred_none; [split; auto|]. intros. rewrite Ec. discriminate.
    + apply sol_coh_frame with (s := s); auto.
  - match type of H with (if ?c then _ else _) = _ => destruct c end.
    + inv_pair H. unfold repeat_unsolicited. split; [split; [|split; [|split]]|split].
      * apply sol_coh_frame with (s := s); auto.
      * intros resp' n rt' dl' Hc. psimpl_in Hc. inversion Hc; subst. psimpl.
        destruct (B _ _ _ _ Ec) as [B1 B2]. split; [|exact B2]. apply opened_by_app; [reflexivity | exact B1].
      * apply wait_coh_not_wait. intros. psimpl. discriminate.
      * exact D.
      * exact E1.
      * intros _. psimpl. eauto.
    + destruct (end_unsol cfg s is_null UrTimeout) as [[s1 ns] o1] eqn:Ee.
      apply end_unsol_spec in Ee as [[[Fc [Fl [Fd [Fp [Fn Fu]]]]] Fb] Se].
      psimpl_in Fc. psimpl_in Fl. psimpl_in Fd. psimpl_in Fp. psimpl_in Fn. psimpl_in Fb.
      destruct (resume_at cfg (St3 ns) s1) as [s2 o2] eqn:E. inv_pair H.
      apply resume_pres with (h := h) (pre := [OInfo (IUnsolTimeout (ctl_seq (r_ctl resp)) false)] ++ o1) in E; auto.
      * cbn [stage_ok]. intros X. congruence.
      * apply def_ok_same with (s := s); auto.
      * apply sol_coh_frame with (s := s); auto.
Qed.

Lemma inv_upd_now cfg h s t : inv cfg h s -> inv cfg h (upd_now s t).
Proof. apply inv_same. frame_tac. Qed.

Lemma advance_pres cfg : forall f s target h s' o,
  advance f cfg s target = (s', o) -> inv cfg h s -> inv cfg (h ++ o) s'.
Proof.
  induction f as [|f IH]; intros s target h s' o H Hinv; cbn [advance] in H.
  { inv_pair H. apply inv_upd_now. destruct Hinv as [[A [B [C D]]] E]. split; [split; [|split; [|split]]|]; auto.
    - apply sol_coh_frame with (s := s); auto.
    - apply unsol_coh_frame with (s := s); auto. }
  assert (Hstay : inv cfg (h ++ []) (upd_now s target)) by (rewrite app_nil_r; apply inv_upd_now; exact Hinv).
  destruct (next_deadline cfg s) as [d|]; [|inv_pair H; exact Hstay].
  destruct (d <=? target)%Z; [|inv_pair H; exact Hstay].
  destruct (fire_deadline cfg (upd_now s (Z.max d (s_now s)))) as [s1 o1] eqn:Ef.
  destruct (advance f cfg s1 target) as [s2 o2] eqn:Ea. inv_pair H.
  apply fire_deadline_pres with (h := h ++ [OAt (Z.max d (s_now s))]) in Ef.
  - apply IH with (h := (h ++ [OAt (Z.max d (s_now s))]) ++ o1) in Ea; auto.
    rewrite <- !app_assoc in Ea. exact Ea.
  - apply inv_upd_now. destruct Hinv as [[A [B [C D]]] E]. split; [split; [|split; [|split]]|]; auto.
    + apply sol_coh_frame with (s := s); auto.
    + apply unsol_coh_frame with (s := s); auto.
Qed.

(* ---------- a received fragment ------------------------------------------------------------------------------------------- *)

Lemma sol_wait_fragment_spec cfg s se dl from bc bytes d out o :
  sol_wait_fragment cfg s se dl from bc bytes d = (out, o) ->
  forallb bg o = true /\ forallb not_enter_unsol o = true /\
  (forall rt, out = SoConfirmed rt -> rt = from /\ (o_any_master cfg = false -> from = o_master cfg)).
Proof.
  unfold sol_wait_fragment. intros H.
  destruct (to_treq cfg from d) as [|q|ctl fn obj] eqn:Et.
  - inv_pair H. splits; auto. discriminate.
  - inv_pair H. splits; auto. discriminate.
  - pose proof (to_treq_from _ _ _ _ _ _ Et) as Hfrom.
    destruct (classify s bc bytes ctl fn obj) as [iin2|hdrs rh|resp hdrs rh|hdrs|resp|m|q|q];
      try (inv_pair H; splits; auto; discriminate).
    + inv_pair H. unfold repeat_solicited. destruct resp; splits; auto; discriminate.
    + destruct (q =? se_ecsn se); inv_pair H; splits; auto; try discriminate.
      intros rt X. inversion X; subst. auto.
Qed.

Lemma inv_sol_coh_app cfg h s o : sol_coh cfg h s -> sol_coh cfg (h ++ o) s.
Proof. apply sol_coh_frame; reflexivity. Qed.

Lemma on_rx_pres cfg h s from bc bytes d s' o :
  on_rx cfg s from bc bytes d = (s', o) -> inv cfg h s -> inv cfg (h ++ o) s'.
Proof.
  unfold on_rx. cbv zeta. intros H Hinv.
  set (fid := (s_frame_id s + 1) mod 4294967296) in *.
  set (s0 := upd_frame_id s fid) in *.
  assert (Hinv0 : inv cfg h s0) by (apply inv_same with (s := s); [subst s0; frame_tac | exact Hinv]).
  clearbody s0. clear Hinv.
  destruct (s_control s0) as [|se dl r|resp is_null retries dl] eqn:Ec;
    pose proof Hinv0 as [[A [B [C D]]] [E1 E2]].
  - (* idle *)
    unfold idle_loop in H. change (4 * 8)%nat with 32%nat in H. fold (resume_at cfg St1) in H.
    apply resume_pres with (h := h) (pre := []) in H; auto.
    + apply stage_ok_of_none. psimpl. apply rest_ok_deferred_none; [split; auto|]. intros ? ? ? ? X. rewrite Ec in X. discriminate.
    + rewrite app_nil_r. apply sol_coh_same with (s := s0); auto.
  - (* solicited confirm wait *)
    assert (Hdn : s_deferred s0 = None).
    { apply rest_ok_deferred_none; [split; auto|]. intros ? ? ? ? X. rewrite Ec in X. discriminate. }
    destruct (sol_wait_fragment cfg s0 se dl from bc bytes d) as [out o1] eqn:Ew.
    apply sol_wait_fragment_spec in Ew as [S1 [S2 Hrt]].
    destruct out as [dl'|rt|].
    + inv_pair H. split; [split; [|split; [|split]]|split]; psimpl; auto.
      * apply sol_coh_frame with (s := s0); auto.
      * apply unsol_coh_vacuous. intros. psimpl. discriminate.
      * intros se0 dl0 rs0 X. psimpl_in X. inversion X; subst. psimpl. eapply C; eauto.
      * intros X. congruence.
    + destruct (Hrt _ eq_refl) as [-> Hfrom].
      destruct (se_fin se).
      * destruct (resume_at cfg (stage_of r) (upd_control (upd_last_bcast s0 None) CIdle)) as [s2 o2] eqn:E.
        inv_pair H.
        apply resume_pres with (h := h) (pre := o1 ++ [ODb DbClearWritten]) in E; auto.
        -- rewrite <- !app_assoc in E. exact E.
        -- apply stage_ok_of_none. psimpl. exact Hdn.
        -- apply sol_coh_frame with (s := s0); auto.
      * destruct (format_read_response (upd_last_bcast s0 None) false (seq16_next (se_ecsn se)) 0)
          as [[[s2 rsp] next] o2] eqn:Ef.
        destruct (write_solicited s2 from rsp) as [[s3 rsp'] o3] eqn:Es.
        apply format_read_response_spec in Ef as [[Fc [Fl [Fd [Fp [Fn Fu]]]]] [Sf [Q1 Q2]]].
        apply write_solicited_spec in Es as [[[Gc [Gl [Gd [Gp [Gn Gu]]]]] Gb] [_ [_ [Hq [o' [-> Ss]]]]]].
        psimpl_in Fc. psimpl_in Fl. psimpl_in Fd. psimpl_in Fp. psimpl_in Fn. psimpl_in Fu.
        destruct (C _ _ _ Ec) as [l0 [r0 [Hl0 [Hr0 _]]]].
        assert (Hl3 : s_last s3 = Some l0) by congruence. rewrite Hl3 in H.
        set (s4 := upd_last s3 (Some {| lr_seq := lr_seq l0; lr_bytes := lr_bytes l0;
                                        lr_response := Some rsp'; lr_series := lr_series l0 |})) in *.
        assert (Hcoh4 : forall o4, sol_coh cfg (h ++ o1 ++ [ODb DbClearWritten] ++ o2 ++ (o' ++ [OTx from (response_bytes rsp' (s_sol_buf s3))]) ++ o4) s4).
        { intros o4 l rx Hl Hr. subst s4. psimpl_in Hl. inversion Hl; subst l. cbn [lr_response] in Hr.
          inversion Hr; subst rx. psimpl. exists from. split; [|exact Hfrom].
          rewrite ?in_app_iff. cbn [In]. tauto. }
        destruct next as [n|].
        -- inv_pair H. specialize (Hcoh4 []). rewrite app_nil_r in Hcoh4.
           split; [split; [exact Hcoh4|split; [|split]]|split]; subst s4; psimpl.
           ++ apply unsol_coh_vacuous. intros. psimpl. discriminate.
           ++ intros se0 dl0 rs0 X. psimpl_in X. inversion X; subst. psimpl.
              eexists _, rsp'. split; [reflexivity|]. split; [reflexivity|].
              rewrite Hq, Q1, (Q2 _ eq_refl). unfold seq16_next. lia.
           ++ Show. admit.
Admitted.