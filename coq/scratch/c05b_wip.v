From Dnp3V Require Import Outstation.Session Outstation.SessionLemmas_c05 Outstation.SessionC05Proofs.
Open Scope N_scope.

Definition next_fid (s : ostate) : N := (s_frame_id s + 1) mod 4294967296.
Definition rx_state (s : ostate) : ostate := upd_frame_id s (next_fid s).

Lemma on_rx_idle cfg s from bc bytes d :
  s_control s = CIdle ->
  on_rx cfg s from bc bytes d =
  idle_loop 8 cfg (upd_pending (rx_state s) (Some (from, bc, bytes, d, next_fid s))).
Proof. intros Hc. unfold on_rx, rx_state, next_fid. cbv zeta. psimpl. rewrite Hc. reflexivity. Qed.

Lemma on_rx_unsol cfg s from bc bytes d resp is_null retries deadline :
  s_control s = CUnsolWait resp is_null retries deadline ->
  on_rx cfg s from bc bytes d =
  let '(s1, res, o) := unsol_wait_fragment cfg (rx_state s) resp from bc bytes d (next_fid s) in
  match res with
  | None => (s1, o)
  | Some r =>
      let '(s2, ns, o2) := end_unsol cfg s1 is_null r in
      let '(s3, o3) := resume_at cfg (St3 ns) s2 in
      (s3, o ++ o2 ++ o3)
  end.
Proof. intros Hc. unfold on_rx, rx_state, next_fid. cbv zeta. psimpl. rewrite Hc. reflexivity. Qed.

Lemma on_rx_sol_new cfg s from bc bytes d se deadline r o :
  s_control s = CSolWait se deadline r ->
  sol_wait_fragment cfg (rx_state s) se deadline from bc bytes d = (SoNewRequest, o) ->
  on_rx cfg s from bc bytes d =
  let '(s2, o2) := resume_at cfg (stage_of r)
                     (upd_pending (upd_control (rx_state s) CIdle) (Some (from, bc, bytes, d, next_fid s))) in
  (s2, o ++ [ODb DbReset] ++ o2).
Proof.
  intros Hc Hw. unfold on_rx. cbv zeta. fold (next_fid s). fold (rx_state s).
  replace (s_control (rx_state s)) with (s_control s) by reflexivity. rewrite Hc, Hw. reflexivity.
Qed.
