From Dnp3V Require Import Outstation.Session Outstation.SessionLemmas_c12 Outstation.SessionC12Proofs.
From Dnp3V Require Import Properties.C12.
Import ListNotations.
Open Scope N_scope.
Definition wr := (ERx 1 None [193; 2; 80; 1] (DOk 193 2 RvOk (ObjOk [WIin [(4, false)]] [])), [AEvinfo false false false false]).
Definition nr := (ERx 1 None [195; 6; 12; 1] (DOk 195 6 RvOk (ObjOk [WCtl 12 1 1 [(3, [1; 1; 0])]] [])), @nil answer).
Eval vm_compute in (orun c12_cfg c12_idle [wr; wr; nr; nr]).
