From Dnp3V Require Import Outstation.Session Outstation.SessionLemmas_c14.
Open Scope N_scope.

(* ---------- the fields property C14 is about ---------------------------------------------------- *)

Definition kview (s : ostate) := (wview s, s_deferred s, s_enabled s, s_last s).

Definition is_uw (c : control) : bool := match c with CUnsolWait _ _ _ _ => true | _ => false end.

(* ---------- handle_deferred_read --------------------------------------------------------------- *)

Definition dview (s : ostate) :=
  (s_unsol s, s_unsol_seq s, s_unsol_buf s, s_now s, s_pending s, s_enabled s).

Lemma frame_dview : forall a b, frame a b -> dview b = dview a /\ s_control b = s_control a /\ s_deferred b = s_deferred a.
Proof. unfold frame, fview, uview, dview. intros a b H. repeat split; congruence. Qed.

Lemma handle_deferred_spec : forall cfg s ns s' o,
  handle_deferred cfg s ns = (s', o) ->
  match s_deferred s with
  | None => s' = s /\ o = []
  | Some d =>
      s_deferred s' = None /\ dview s' = dview s /\ ctl_step_sol s s' /\ last_ok s' /\
      exists o1 b o2, o = ODb DbDeferredSelect :: o1 ++ OTx (df_from d) b :: o2 /\ Forall dbq o1 /\
                      nth 1 b 0 = 129 /\ ctl_seq (nth 0 b 0) = df_seq d mod 16 /\
                      (o2 = [] \/ exists q, o2 = [OInfo (IEnterSolWait q)])
  end.
Proof.
  intros cfg s ns s' o H. unfold handle_deferred in H.
  destruct (s_deferred s) as [d|] eqn:Ed; [|inv_pair H; split; reflexivity].
  destruct (ask_iin2 (upd_notify (upd_deferred s None) true) DbDeferredSelect) as [[s1 iin2] o1] eqn:E1.
  destruct (format_read_response s1 true (df_seq d) (N.lor (df_iin2 d) iin2)) as [[[s2 r] se] o2] eqn:E2.
  destruct (write_solicited s2 (df_from d) r) as [[s3 r'] o3] eqn:E3.
  pose proof (ask_iin2_frame _ _ _ _ _ E1) as F1.
  apply format_read_response_spec in E2. destruct E2 as (F2 & Hr & Hc & Ho2 & _).
  pose proof (write_solicited_frame _ _ _ _ _ _ E3) as F3.
  pose proof (frame_trans _ _ _ (frame_trans _ _ _ F1 F2) F3) as F.
  apply frame_dview in F. destruct F as (Hd & Hctl & Hdef).
  apply write_solicited_spec in E3. destruct E3 as (o3' & -> & Ho3 & Hf' & Hc' & _).
  assert (Hout : forall tail, (tail = [] \/ exists q, tail = [OInfo (IEnterSolWait q)]) ->
     exists oa b ob, o1 ++ o2 ++ (o3' ++ [OTx (df_from d) (response_bytes r' (s_sol_buf s3))]) ++ tail
                     = ODb DbDeferredSelect :: oa ++ OTx (df_from d) b :: ob /\ Forall dbq oa /\
                       nth 1 b 0 = 129 /\ ctl_seq (nth 0 b 0) = df_seq d mod 16 /\
                       (ob = [] \/ exists q, ob = [OInfo (IEnterSolWait q)])).
  { intros tail Ht.
    assert (Ho1 : exists x, o1 = ODb DbDeferredSelect :: x /\ Forall dbq x).
    { destruct (ask_iin2_out _ _ _ _ _ E1) as [-> | ->]; eexists; split; try reflexivity; fa_tac. }
    destruct Ho1 as (x & -> & Hx).
    exists (x ++ o2 ++ o3'), (response_bytes r' (s_sol_buf s3)), tail.
    split; [cbn [app]; rewrite <- !app_assoc; reflexivity|].
    split; [repeat (apply Forall_app; split); auto; eapply Forall_imp; [apply evq_dbq|exact Ho3]|].
    split; [rewrite nth1_response_bytes; congruence|].
    split; [rewrite nth0_response_bytes; congruence|exact Ht]. }
  assert (Hlast : forall c sx, last_ok (upd_control (upd_last s3 (mk_last (df_seq d) (df_bytes d) (Some r') sx)) c)).
  { intros c sx l x Hl Hx. cbn in Hl. inversion Hl; subst. cbn in Hx. inversion Hx; subst. congruence. }
  match type of H with match ?X with _ => _ end = _ => destruct X as [x|] end; inv_pair H.
  - split; [cbn; rewrite Hdef; reflexivity|]. split; [exact Hd|].
    split; [right; do 3 eexists; reflexivity|]. split; [apply Hlast|].
    apply Hout. right. eauto.
  - split; [cbn; rewrite Hdef; reflexivity|]. split; [exact Hd|].
    split; [left; exact Hctl|]. split; [apply last_ok_mk; intros y Hy; inversion Hy; subst; congruence|].
    rewrite <- (app_nil_r (o3' ++ _)). apply Hout. left. reflexivity.
Qed.

(* ---------- check_unsolicited ------------------------------------------------------------------- *)

Definition uns_ctl (seq : N) : N := ctl_byte true true true true seq.

(* a series was started: the response written, the wait entered *)
Definition started (cfg : ocfg) (s s' : ostate) (is_null : bool) (size : nat) (buf : list N) (o : list oobs) : Prop :=
  exists r o1,
    o = o1 ++ [OTx (o_master cfg) (response_bytes r buf); OInfo (IEnterUnsolWait (ctl_seq (r_ctl r)))] /\
    Forall evq o1 /\ r_fn r = 130 /\ r_ctl r = uns_ctl (s_unsol_seq s) /\ r_size r = size /\
    s_control s' = CUnsolWait r is_null (if is_null then Some 0%nat else o_retries cfg)
                              (s_now s + o_confirm_ms cfg)%Z /\
    s_unsol_seq s' = seq16_next (s_unsol_seq s) /\ s_unsol_buf s' = buf /\
    s_unsol s' = s_unsol s /\ s_now s' = s_now s /\ s_deferred s' = s_deferred s /\
    s_pending s' = s_pending s /\ s_enabled s' = s_enabled s /\ s_last s' = s_last s.

Definition unsol_ready (s : ostate) (dl : option Z) : bool :=
  match dl with Some t => (t <=? s_now s)%Z | None => true end.

Lemma start_unsol_spec : forall cfg s0 s r n s' o,
  start_unsol cfg s r n = (s', o) ->
  r_fn r = 130 -> r_ctl r = uns_ctl (s_unsol_seq s0) -> s_unsol_seq s = seq16_next (s_unsol_seq s0) ->
  s_unsol s = s_unsol s0 -> s_now s = s_now s0 -> s_deferred s = s_deferred s0 -> s_pending s = s_pending s0 ->
  s_enabled s = s_enabled s0 -> s_last s = s_last s0 ->
  started cfg s0 s' n (r_size r) (s_unsol_buf s) o.
Proof.
  intros cfg s0 s r n s' o H Hf Hc Hq Hu Hn Hd Hp He Hl. unfold start_unsol in H.
  destruct (write_unsolicited cfg s r) as [[s1 r1] o1] eqn:E. inv_pair H.
  unfold write_unsolicited in E. destruct (response_iin s) as [[s2 iin] o2] eqn:Ei. inv_pair E.
  pose proof (response_iin_out _ _ _ _ Ei) as Ho2.
  apply response_iin_frame in Ei.
  assert (Hv : uview s1 = uview s /\ s_enabled s1 = s_enabled s /\ s_last s1 = s_last s).
  { unfold frame, fview in Ei. repeat split; congruence. }
  destruct Hv as (Hv & He1 & Hl1). unfold uview in Hv.
  exists (or_iin r iin), o2. assert (Hb1 : s_unsol_buf s1 = s_unsol_buf s) by congruence.
  assert (Hn1 : s_now s1 = s_now s) by congruence.
  split; [rewrite <- app_assoc; cbn [app]; rewrite Hb1; reflexivity|].
  split; [exact Ho2|]. split; [exact Hf|]. split; [exact Hc|]. split; [reflexivity|].
  split; [cbn; unfold confirm_deadline; cbn; rewrite Hn1, Hn; reflexivity|].
  cbn. repeat split; congruence.
Qed.

Lemma check_unsolicited_spec : forall cfg s s' b o,
  check_unsolicited cfg s = (s', b, o) ->
  (o = [] /\ kview s' = kview s) \/
  (o_unsol cfg = true /\ s_unsol s = UNullRequired /\ started cfg s s' true 0 (s_unsol_buf s) o) \/
  (o_unsol cfg = true /\
   exists dl c1 c2 c3 body o',
     s_unsol s = UReady dl /\ unsol_ready s dl = true /\ any_enabled s = true /\ s_enabled s = (c1, c2, c3) /\
     o = ODb (DbWriteUnsol c1 c2 c3) :: o' /\
     started cfg s s' false (4 + length body) (buf_set (s_unsol_buf s) body) o').
Proof.
  intros cfg s s' b o H. unfold check_unsolicited in H.
  destruct (o_unsol cfg) eqn:Eu; cbn [negb] in H; [|inv_pair H; left; split; reflexivity].
  destruct (s_unsol s) as [|dl] eqn:Es.
  - destruct (start_unsol cfg (upd_unsol_seq s (seq16_next (s_unsol_seq s))) (unsol_header (s_unsol_seq s) 0) true)
      as [s2 o2] eqn:E. inv_pair H.
    right; left. split; [reflexivity|]. split; [reflexivity|].
    eapply (start_unsol_spec cfg s) in E; try reflexivity. exact E.
  - fold (unsol_ready s dl) in H. destruct (unsol_ready s dl) eqn:Er; cbn [negb] in H;
      [|inv_pair H; left; split; reflexivity].
    destruct (any_enabled s) eqn:Ea; cbn [negb] in H; [|inv_pair H; left; split; reflexivity].
    destruct (ask_unsol s) as [s1 [count body]] eqn:Ea1.
    assert (Hs1 : kview s1 = kview s /\ s_unsol_buf s1 = s_unsol_buf s /\ s_unsol_seq s1 = s_unsol_seq s).
    { unfold ask_unsol in Ea1. destruct (s_answers s) as [|[] rest]; inv_pair Ea1; repeat split. }
    destruct Hs1 as (Hk & Hb1 & Hq1).
    destruct (s_enabled s) as [[c1 c2] c3] eqn:Een.
    destruct (count =? 0); [inv_pair H; left; split; [reflexivity|]; rewrite Hk; unfold kview; rewrite Een; reflexivity|].
    match type of H with (let '(_, _) := ?X in _) = _ => destruct X as [s3 o3] eqn:E end. inv_pair H.
    right; right. split; [reflexivity|]. exists dl, c1, c2, c3, body, o3.
    split; [reflexivity|]. split; [first [exact Er|reflexivity]|]. split; [first [exact Ea|reflexivity]|]. split; [first [exact Een|reflexivity]|]. split; [reflexivity|].
    unfold kview, wview in Hk.
    eapply (start_unsol_spec cfg s) in E.
    + psimpl_in E. cbn [r_size unsol_header] in E. rewrite Hb1 in E. exact E.
    + reflexivity.
    + cbn [r_ctl unsol_header]. rewrite Hq1. reflexivity.
    + psimpl. rewrite Hq1. reflexivity.
    + psimpl. congruence.
    + psimpl. congruence.
    + psimpl. congruence.
    + psimpl. congruence.
    + psimpl. congruence.
    + psimpl. congruence.
Qed.

Lemma end_unsol_spec : forall cfg s n r s' ns o,
  end_unsol cfg s n r = (s', ns, o) ->
  s_control s' = CIdle /\
  (s_unsol_seq s', s_unsol_buf s', s_now s', s_pending s', s_deferred s', s_enabled s', s_last s') =
  (s_unsol_seq s, s_unsol_buf s, s_now s, s_pending s, s_deferred s, s_enabled s, s_last s) /\
  s_unsol s' = match r with
               | UrConfirmed => UReady None
               | _ => if n then UNullRequired else UReady (Some (s_now s + o_retry_delay_ms cfg)%Z)
               end /\
  o = (if n then [] else match r with UrConfirmed => [ODb DbClearWritten] | _ => [ODb DbReset] end) /\
  ns = (if n then true else match r with UrConfirmed => true | _ => false end).
Proof.
  intros cfg s n r s' ns o H. unfold end_unsol in H.
  destruct n, r; inv_pair H; repeat split.
Qed.

(* ---------- solicited confirm wait ---------------------------------------------------------------- *)

Lemma sol_wait_fragment_out : forall cfg s se dl from bc bytes d out o,
  sol_wait_fragment cfg s se dl from bc bytes d = (out, o) -> last_ok s -> Forall solob o.
Proof.
  intros cfg s se dl from bc bytes d out o H Hl. unfold sol_wait_fragment in H.
  destruct (to_treq cfg from d) as [|q|ctl fn obj]; [inv_pair H; constructor|inv_pair H; fa_tac|].
  pose proof (classify_cases s bc bytes ctl fn obj) as Hc.
  destruct (classify s bc bytes ctl fn obj) as [iin2|hdrs rh|rsp hdrs rh|hdrs|rsp|m|q|q];
    try (inv_pair H; fa_tac; fail).
  - destruct Hc as (_ & _ & _ & ->). inv_pair H.
    destruct (last_response s) as [r|] eqn:El; [|constructor].
    unfold repeat_solicited. constructor; [|constructor]. cbn [solob]. rewrite nth1_response_bytes.
    eapply last_ok_response; eauto.
  - destruct (q =? se_ecsn se); inv_pair H; fa_tac.
Qed.
