From Dnp3V Require Import Outstation.Session Outstation.SessionLemmas_c14.
Open Scope N_scope.

(* ---------- a fragment during the unsolicited confirm wait ------------------------------------------ *)

Definition wview (s : ostate) :=
  (s_unsol s, s_unsol_seq s, s_unsol_buf s, s_now s, s_pending s, s_control s).

Lemma gview_wview : forall a b, gview a = gview b ->
  wview a = wview b /\ s_deferred a = s_deferred b /\ s_last a = s_last b.
Proof. unfold gview, uview, wview. intros a b H. repeat split; congruence. Qed.

Lemma frame_wview : forall a b, frame a b ->
  wview b = wview a /\ s_deferred b = s_deferred a /\ s_last b = s_last a /\ s_enabled b = s_enabled a.
Proof.
  intros a b H. apply frame_gview in H. destruct H as [Hg He]. apply gview_wview in Hg.
  destruct Hg as (H1 & H2 & H3). repeat split; assumption.
Qed.

Lemma last_ok_same : forall s s', s_last s' = s_last s -> last_ok s -> last_ok s'.
Proof. intros s s' H Hl l r Hs. apply Hl. congruence. Qed.

Lemma enable_req_refl : forall cfg d s s', s_enabled s' = s_enabled s -> enable_req cfg d s s'.
Proof. intros. left. assumption. Qed.

Lemma unsol_wait_fragment_spec : forall cfg s resp from bc bytes d fid s1 res o,
  unsol_wait_fragment cfg s resp from bc bytes d fid = (s1, res, o) ->
  wview s1 = wview s /\ enable_req cfg d s s1 /\ (last_ok s -> last_ok s1) /\
  match res with
  | Some UrConfirmed =>
      o = [OInfo (IUnsolConfirmed (ctl_seq (r_ctl resp)))] /\ s_deferred s1 = s_deferred s /\
      s_enabled s1 = s_enabled s
  | Some UrReturnToIdle =>
      (last_ok s -> Forall solob o) /\ s_deferred s1 = None /\ bc = None /\
      (exists ctl obj, d = DOk ctl 21 RvOk obj) /\ exists o1 b, o = o1 ++ [OTx from b]
  | Some UrTimeout => False
  | None => last_ok s -> Forall solob o
  end.
Proof.
  intros cfg s resp from bc bytes d fid s1 res o H. unfold unsol_wait_fragment in H.
  destruct (to_treq cfg from d) as [|q|ctl fn obj] eqn:Et.
  { inv_pair H. split; [reflexivity|]. split; [left; reflexivity|]. split; [auto|]. intros _. constructor. }
  { destruct (write_error_response (upd_deferred s None) from bc q) as [s2 o2] eqn:E. inv_pair H.
    apply write_error_response_spec in E. destruct E as [Hf Ho]. apply frame_wview in Hf.
    destruct Hf as (Hw & _ & Hl & He).
    split; [rewrite Hw; reflexivity|]. split; [left; rewrite He; reflexivity|].
    split; [intros Hk; eapply last_ok_same; [|exact Hk]; rewrite Hl; reflexivity|]. intros _. exact Ho. }
  apply to_treq_request in Et. subst d. cbv zeta in H.
  pose proof (classify_cases s bc bytes ctl fn obj) as Hc.
  destruct (classify s bc bytes ctl fn obj) as [iin2|hdrs rh|rsp hdrs rh|hdrs|rsp|m|q|q].
  - (* malformed *)
    destruct (write_solicited (upd_deferred s None) from (empty_solicited (ctl_seq ctl) iin2)) as [[s2 r2] o2] eqn:E.
    inv_pair H. pose proof (write_solicited_frame _ _ _ _ _ _ E) as Hf. apply frame_wview in Hf.
    destruct Hf as (Hw & _ & Hl & He).
    split; [rewrite Hw; reflexivity|]. split; [left; rewrite He; reflexivity|].
    split; [intros Hk; eapply last_ok_same; [|exact Hk]; rewrite Hl; reflexivity|]. intros _.
    eapply write_solicited_out; eauto.
  - inv_pair H. split; [reflexivity|]. split; [left; reflexivity|]. split; [auto|]. intros _. constructor.
  - inv_pair H. split; [reflexivity|]. split; [left; reflexivity|]. split; [auto|]. intros _. constructor.
  - (* new non-read *)
    destruct (handle_non_read cfg (upd_deferred s None) fn (ctl_seq ctl) fid bytes hdrs) as [[s2 r] o1] eqn:E1.
    apply handle_non_read_spec in E1. destruct E1 as (Hg & Ho1 & Hr & Hn & Hen).
    apply gview_wview in Hg. destruct Hg as (Hw & Hd & Hl).
    destruct Hc as (Hbc & [rh ->] & Hf1 & Hf0).
    assert (Hen' : forall s3, s_enabled s3 = s_enabled s2 -> enable_req cfg (DOk ctl fn RvOk (ObjOk hdrs rh)) s s3).
    { intros s3 H3. eapply enabled_change_req; [|exact H3].
      destruct Hen as [Hen|(Hu & Hfn & Hen)]; [left; exact Hen|right; repeat split; auto]. }
    destruct r as [r0|].
    + destruct (write_solicited s2 from r0) as [[s3 r1] o2] eqn:E2. inv_pair H.
      pose proof (write_solicited_frame _ _ _ _ _ _ E2) as Hf. apply frame_wview in Hf.
      destruct Hf as (Hw3 & Hd3 & Hl3 & He3).
      destruct (Hr r0 eq_refl) as [Hr0 _].
      destruct (write_solicited_out _ _ _ _ _ _ E2 Hr0) as [Ho2 Hr1].
      split; [transitivity (wview s3); [reflexivity|]; rewrite Hw3, Hw; reflexivity|].
      split; [apply Hen'; exact He3|].
      split; [intros _; apply last_ok_mk; intros x Hx; inversion Hx; subst; exact Hr1|].
      assert (Hout : Forall solob (o1 ++ o2)).
      { apply Forall_app; split; [eapply Forall_imp; [apply exob_solob|exact Ho1]|exact Ho2]. }
      destruct (fn =? fn_disable_unsol) eqn:E21; [|intros _; exact Hout].
      apply N.eqb_eq in E21. subst fn.
      split; [intros _; exact Hout|]. split; [cbn; rewrite Hd3, Hd; reflexivity|].
      split; [reflexivity|]. split; [eauto|].
      apply write_solicited_spec in E2. destruct E2 as (o' & -> & _).
      exists (o1 ++ o'). eexists. rewrite app_assoc. reflexivity.
    + inv_pair H.
      split; [transitivity (wview s2); [reflexivity|]; rewrite Hw; reflexivity|].
      split; [apply Hen'; reflexivity|].
      split; [intros _; apply last_ok_mk; discriminate|].
      destruct (fn =? fn_disable_unsol) eqn:E21.
      * apply N.eqb_eq in E21. subst fn. destruct (Hn eq_refl) as [X|[X|[X|X]]]; discriminate X.
      * intros _. rewrite app_nil_r. eapply Forall_imp; [apply exob_solob|exact Ho1].
  - (* repeat non-read *)
    inv_pair H. split; [reflexivity|]. split; [left; reflexivity|]. split; [auto|].
    intros Hl. destruct Hc as (_ & -> & _). destruct (last_response s) as [r|] eqn:El; [|constructor].
    unfold repeat_solicited. constructor; [|constructor]. cbn [solob]. rewrite nth1_response_bytes.
    eapply last_ok_response; eauto.
  - (* broadcast *)
    destruct (process_broadcast cfg (upd_deferred s None) m fid ctl fn bytes obj) as [s2 o2] eqn:E. inv_pair H.
    apply process_broadcast_spec in E. destruct E as (Hg & Ho & Hen).
    apply gview_wview in Hg. destruct Hg as (Hw & Hd & Hl).
    split; [rewrite Hw; reflexivity|]. split.
    { destruct Hen as [Hen|(hdrs & rh & -> & _ & Hen)]; [left; exact Hen|].
      eapply enabled_change_req; [|reflexivity].
      destruct Hen as [Hen|(Hu & Hfn & Hen)]; [left; exact Hen|right; repeat split; auto]. }
    split; [intros Hk; eapply last_ok_same; [|exact Hk]; rewrite Hl; reflexivity|]. intros _. exact Ho.
  - (* solicited confirm *)
    inv_pair H. split; [destruct (s_last_bcast s) as [[]|]; reflexivity|].
    split; [left; destruct (s_last_bcast s) as [[]|]; reflexivity|].
    split; [intros Hk; eapply last_ok_same; [|exact Hk]; destruct (s_last_bcast s) as [[]|]; reflexivity|].
    intros _. constructor.
  - (* unsolicited confirm *)
    destruct (q =? ctl_seq (r_ctl resp)) eqn:Eq.
    + apply N.eqb_eq in Eq. subst q. inv_pair H.
      split; [reflexivity|]. split; [left; reflexivity|]. split; [auto|]. repeat split; try reflexivity.
    + inv_pair H. split; [reflexivity|]. split; [left; reflexivity|]. split; [auto|]. intros _. constructor.
Qed.
