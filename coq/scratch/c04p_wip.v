From Dnp3V Require Import Outstation.Session Outstation.SessionLemmas_c04.
Open Scope N_scope.

(* ================================================================================================ *)
(* 1. One step: which request a control callback comes from                                          *)
(* ================================================================================================ *)

Lemma ostep_cb cfg s ev ans s' out c :
  J s -> ostep cfg s ev ans = (s', out) -> In (OCb c) out ->
  exists from bc bytes d sm ctl fn hdrs rh,
    ev = ERx from bc bytes d /\ rx_mid s sm ((s_frame_id s + 1) mod 4294967296) /\
    to_treq cfg from d = TqRequest ctl fn (ObjOk hdrs rh) /\ cb_fn c fn /\
    (bc <> None -> fn <> fn_select /\ fn <> fn_operate /\ fn <> fn_direct_operate) /\
    (fn = fn_operate -> op_matched cfg sm (ctl_seq ctl) ((s_frame_id s + 1) mod 4294967296) bytes).
Proof.
  intros HJ H Hin. apply ostep_spec in H; [|exact HJ]. destruct H as [_ H].
  destruct ev as [from bc bytes d|ms| |sel op|v|]; cbn [step_res] in H.
  - destruct H as [_ [_ [_ [_ H]]]].
    destruct H as [[A _]|[sm [s2 [o1 [o2 [o3 [Ho [Ho1 [Hmid [Hpr [_ [_ [Ho3 _]]]]]]]]]]]]].
    { exfalso. exact (no_cb_In _ A _ Hin). }
    rewrite Ho in Hin. apply in_ocb_split in Hin; [|exact Ho1|exact Ho3].
    apply proc_frag_spec in Hpr. destruct (fs_cb _ _ _ _ _ _ _ _ _ Hpr c Hin) as [ctl [fn [hdrs [rh [A [B [C D]]]]]]].
    exists from, bc, bytes, d, sm, ctl, fn, hdrs, rh. auto 10.
  - destruct H as [[_ [A _]] _]. exfalso. exact (no_cb_In _ A _ Hin).
  - destruct H as [[_ [A _]] _]. exfalso. exact (no_cb_In _ A _ Hin).
  - destruct H as [A _]. subst out. destruct Hin.
  - destruct H as [A _]. subst out. destruct Hin.
  - destruct H as [A _]. exfalso. exact (no_cb_In _ A _ Hin).
Qed.

(* Theorem 1.  An SBO operate callback in a step: the event is a unicast OPERATE request accepted by the
   transport filter and the state holds the matching select.  `J s` (nothing left in the reader, a
   deferred read only in the unsolicited confirm wait) holds in every reachable state (reach_J); it is
   needed: a state with a fragment still pending would process it on any event. *)
Theorem sbo_operate_needs_matching_select cfg s ev answers g v idx obj :
  J s -> In (OCb (CbOperate g v idx OpSbo obj)) (snd (ostep cfg s ev answers)) ->
  exists from bytes d ctl hdrs rh sel,
    ev = ERx from None bytes d /\
    to_treq cfg from d = TqRequest ctl fn_operate (ObjOk hdrs rh) /\
    s_select s = Some sel /\
    seq16_next (ss_seq sel) = ctl_seq ctl /\
    (ss_frame_id sel + 1) mod 4294967296 = (s_frame_id s + 1) mod 4294967296 /\
    ss_objects sel = objects_of bytes /\
    (s_now s - ss_time sel <= o_select_ms cfg)%Z.
Proof.
  intros HJ Hin. destruct (ostep cfg s ev answers) as [s' out] eqn:E. cbn [snd] in Hin.
  destruct (ostep_cb _ _ _ _ _ _ _ HJ E Hin) as [from [bc [bytes [d [sm [ctl [fn [hdrs [rh [Hev [Hmid [Ht [Hfn [Hbc Hop]]]]]]]]]]]]]].
  cbn [cb_fn optype_fn] in Hfn. subst fn.
  destruct bc as [m|]; [exfalso; assert (Hn : Some m <> None) by discriminate; apply Hbc in Hn; tauto|].
  destruct (Hop eq_refl) as [sel [Hs Hm]]. apply match_operate_none in Hm. destruct Hm as [M1 [M2 [M3 M4]]].
  destruct Hmid as [_ [N2 [_ [_ [N5 _]]]]].
  exists from, bytes, d, ctl, hdrs, rh, sel. rewrite <- N5, <- N2. auto 10.
Qed.

(* the other control callbacks: DIRECT_OPERATE only for function 5 (unicast), DIRECT_OPERATE_NR for
   function 6 (unicast or broadcast), select only for function 3 (unicast) *)
Theorem control_callback_function cfg s ev answers c :
  J s -> In (OCb c) (snd (ostep cfg s ev answers)) ->
  exists from bc bytes d ctl fn hdrs rh,
    ev = ERx from bc bytes d /\ to_treq cfg from d = TqRequest ctl fn (ObjOk hdrs rh) /\
    match c with
    | CbSelect _ _ _ _ => fn = fn_select /\ bc = None
    | CbOperate _ _ _ OpSbo _ => fn = fn_operate /\ bc = None
    | CbOperate _ _ _ OpDo _ => fn = fn_direct_operate /\ bc = None
    | CbOperate _ _ _ OpDoNr _ => fn = fn_direct_operate_nr
    | _ => True
    end.
Proof.
  intros HJ Hin. destruct (ostep cfg s ev answers) as [s' out] eqn:E. cbn [snd] in Hin.
  destruct (ostep_cb _ _ _ _ _ _ _ HJ E Hin) as [from [bc [bytes [d [sm [ctl [fn [hdrs [rh [Hev [Hmid [Ht [Hfn [Hbc Hop]]]]]]]]]]]]]].
  exists from, bc, bytes, d, ctl, fn, hdrs, rh. split; [exact Hev|]. split; [exact Ht|].
  assert (Hb : forall x, fn = x -> (x = fn_select \/ x = fn_operate \/ x = fn_direct_operate) -> bc = None).
  { intros x Hx Hor. destruct bc as [m|]; [|reflexivity]. exfalso.
    assert (Hn : Some m <> None) by discriminate. apply Hbc in Hn. subst x. tauto. }
  destruct c; try exact I; cbn [cb_fn] in Hfn.
  - split; [exact Hfn|]. eapply Hb; eauto.
  - destruct t; cbn [optype_fn] in Hfn; try exact Hfn; (split; [exact Hfn|eapply Hb; eauto]).
Qed.
