From Dnp3V Require Import Base.Bytes Outstation.DbTypes.
Open Scope N_scope.
Eval vm_compute in (f64_to_f32_bits 0x3FF8000000000000, 0x3FC00000).
Eval vm_compute in (f64_to_f32_bits 0x3FB999999999999A, 0x3DCCCCCD).
Eval vm_compute in (f64_to_f32_bits 0xC00599999999999A). (* -2.7 -> 0xC02CCCCD = 3224161485 *)
Eval vm_compute in (f64_trunc 0xC00599999999999A).
Eval vm_compute in (f64_to_f32_bits 0x369FFFFFFFFFFFFF). (* ~ just below 2^-149 -> 1? *)
Eval vm_compute in (analog_to_int 16 (mkMeas 0x40E0000000000000 1 None [])). (* 32768.0 -> over range *)
Eval vm_compute in (analog_to_int 16 (mkMeas 0x40DFFFC000000000 1 None [])). (* 32767.0 *)
Eval vm_compute in (analog_to_int 16 (mkMeas 0x40DFFFE000000000 1 None [])). (* 32767.5 -> over range *)
Eval vm_compute in (analog_to_f32 (mkMeas 0x47EFFFFFE0000000 1 None [])). (* f32 max *)
Eval vm_compute in (analog_to_f32 (mkMeas 0x47EFFFFFE0000001 1 None [])). 
Eval vm_compute in (analog_to_f32 (mkMeas 0x47EFFFFFDFFFFFFF 1 None [])). 
