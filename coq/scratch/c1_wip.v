From Dnp3V Require Import Base.Bytes Master.MParse Master.Command.
Import MP MCmd.
Lemma compare_items_ok g v recv sent :
  compare_items g v recv sent = COk <-> Forall2 (item_faithful g v) recv sent.
Proof.
  revert recv; induction sent as [|s sent IH]; intros recv; cbn [compare_items].
  - destruct recv; split; intros H; try constructor; try discriminate; inversion H.
  - destruct recv as [|r recv].
    + split; intros H; [discriminate|inversion H].
    + destruct (status_of (snd r) =? 0) eqn:Est; cbn [negb].
      * destruct ((fst r =? fst s) && value_eq g v (snd r) (snd s)) eqn:Eeq; cbv iota.
        -- Show.
Abort.
