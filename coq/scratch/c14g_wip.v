From Dnp3V Require Import Outstation.Session Outstation.SessionLemmas_c14.
Open Scope N_scope.

(* ---------- between steps the reader holds no fragment, and a deferred READ exists only in the wait -- *)

Definition good (s : ostate) : Prop :=
  s_pending s = None /\ (is_uw (s_control s) = false -> s_deferred s = None).

Definition stage_pre (st : stage) (s : ostate) : Prop :=
  match st with
  | St4 _ => s_deferred s = None
  | _ => s_pending s = None \/ s_deferred s = None
  end.

Lemma check_unsolicited_frame : forall cfg s s' b o,
  check_unsolicited cfg s = (s', b, o) -> s_control s = CIdle ->
  s_pending s' = s_pending s /\ s_deferred s' = s_deferred s /\
  (s_control s' = CIdle \/ is_uw (s_control s') = true).
Proof.
  intros cfg s s' b o H Hc. apply check_unsolicited_spec in H.
  destruct H as [[_ Hk]|[(_ & _ & Hst)|(_ & dl & c1 & c2 & c3 & body & o' & _ & _ & _ & _ & _ & Hst)]].
  - unfold kview, wview in Hk. repeat split; try congruence. left. congruence.
  - destruct Hst as (r & o1 & _ & _ & _ & _ & _ & Hc' & _ & _ & _ & _ & Hd & Hp & _).
    repeat split; try assumption. right. rewrite Hc'. reflexivity.
  - destruct Hst as (r & o1 & _ & _ & _ & _ & _ & Hc' & _ & _ & _ & _ & Hd & Hp & _).
    repeat split; try assumption. right. rewrite Hc'. reflexivity.
Qed.

Lemma idle_run_good : forall cfg fuel st s s' o,
  idle_run fuel cfg st s = (s', o) -> s_control s = CIdle -> stage_pre st s ->
  In OOutOfFuel o \/ good s'.
Proof.
  induction fuel as [|f IH]; intros st s s' o H Hc Hpre; cbn [idle_run] in H.
  { inv_pair H. left. left. reflexivity. }
  assert (Happ : forall (a b : list oobs) g, In OOutOfFuel b \/ g -> In OOutOfFuel (a ++ b) \/ g).
  { intros a b g [X|X]; [left; apply in_or_app; right; exact X|right; exact X]. }
  destruct st as [| |ns|ns]; cbn [stage_pre] in Hpre.
  - destruct (s_pending s) as [[[[[from bc] bytes] d] fid]|] eqn:Ep.
    + destruct (handle_from_idle cfg (upd_pending s None) from bc bytes d fid) as [s1 o1] eqn:E1.
      apply handle_from_idle_spec in E1. destruct E1 as (Hu & Hcs & _). unfold uview in Hu. psimpl_in Hu.
      assert (Hp1 : s_pending s1 = None) by congruence.
      assert (Hd1 : s_deferred s1 = None) by (destruct Hpre as [X|X]; [discriminate X|congruence]).
      destruct (s_control s1) eqn:Ec1.
      * destruct (idle_run f cfg St2 s1) as [s2 o2] eqn:E2. inv_pair H. apply Happ.
        eapply IH; [exact E2|exact Ec1|left; exact Hp1].
      * inv_pair H. right. split; [exact Hp1|intros _; exact Hd1].
      * inv_pair H. right. split; [exact Hp1|intros _; exact Hd1].
    + rewrite Hc in H. destruct (idle_run f cfg St2 s) as [s2 o2] eqn:E2. inv_pair H.
      eapply IH; [exact E2|exact Hc|left; exact Ep].
  - destruct (check_unsolicited cfg s) as [[s2 b] o2] eqn:E2.
    apply check_unsolicited_frame in E2; [|exact Hc]. destruct E2 as (Hp2 & Hd2 & Hc2).
    destruct (s_control s2) as [|se dl r|resp n ret dl] eqn:Ec2.
    + destruct (idle_run f cfg (St3 false) s2) as [s3 o3] eqn:E3. inv_pair H. apply Happ.
      eapply IH; [exact E3|exact Ec2|]. cbn [stage_pre]. rewrite Hp2, Hd2. exact Hpre.
    + destruct Hc2 as [X|X]; discriminate X.
    + destruct (s_pending s2) as [[[[[from bc] bytes] d] fid]|] eqn:Ep2.
      * destruct (unsol_wait_fragment cfg (upd_pending s2 None) resp from bc bytes d fid) as [[s3 res] o3] eqn:E3.
        apply unsol_wait_fragment_spec in E3. destruct E3 as (Hw & _). unfold wview in Hw. psimpl_in Hw.
        assert (Hp3 : s_pending s3 = None) by congruence.
        destruct res as [r|].
        -- destruct (end_unsol cfg s3 n r) as [[s4 ns] o4] eqn:E4.
           destruct (idle_run f cfg (St3 ns) s4) as [s5 o5] eqn:E5. inv_pair H.
           apply end_unsol_spec in E4. destruct E4 as (Hc4 & Hv4 & _).
           apply Happ. apply Happ. apply Happ.
           eapply IH; [exact E5|exact Hc4|]. cbn [stage_pre]. left. congruence.
        -- inv_pair H. right. split; [exact Hp3|].
           replace (s_control s') with (s_control s2) by congruence. rewrite Ec2. discriminate.
      * inv_pair H. right. split; [exact Ep2|]. rewrite Ec2. discriminate.
  - destruct (handle_deferred cfg s ns) as [s3 o3] eqn:E3.
    apply handle_deferred_spec in E3.
    assert (H3 : s_deferred s3 = None /\ s_pending s3 = s_pending s /\ (s_deferred s <> None -> s_pending s = None)).
    { destruct (s_deferred s) as [d|] eqn:Ed.
      - destruct E3 as (Hd & Hv & _). unfold dview in Hv. split; [exact Hd|]. split; [congruence|].
        intros _. destruct Hpre as [X|X]; [exact X|discriminate X].
      - destruct E3 as [-> _]. split; [exact Ed|]. split; [reflexivity|]. intros X. contradiction. }
    destruct H3 as (Hd3 & Hp3 & Hdp).
    destruct (s_control s3) eqn:Ec3.
    + destruct (idle_run f cfg (St4 ns) s3) as [s4 o4] eqn:E4. inv_pair H. apply Happ.
      eapply IH; [exact E4|exact Ec3|exact Hd3].
    + inv_pair H. right. split; [|intros _; exact Hd3].
      destruct (s_deferred s) as [d|] eqn:Ed; [rewrite Hp3; apply Hdp; discriminate|].
      destruct E3 as [-> _]. rewrite Hc in Ec3. discriminate.
    + inv_pair H. right. split; [|intros _; exact Hd3].
      destruct (s_deferred s) as [d|] eqn:Ed; [rewrite Hp3; apply Hdp; discriminate|].
      destruct E3 as [-> _]. rewrite Hc in Ec3. discriminate.
  - destruct (s_pending s) eqn:Ep.
    + eapply IH; [exact H|exact Hc|right; exact Hpre].
    + destruct ns; [eapply IH; [exact H|exact Hc|right; exact Hpre]|].
      destruct (s_notify s).
      * eapply IH; [exact H|exact Hc|right; exact Hpre].
      * inv_pair H. right. split; [exact Ep|intros _; exact Hpre].
Qed.

Lemma fuel_app : forall (a b : list oobs) (g : Prop), In OOutOfFuel b \/ g -> In OOutOfFuel (a ++ b) \/ g.
Proof. intros a b g [X|X]; [left; apply in_or_app; right; exact X|right; exact X]. Qed.

Lemma stage_pre_good : forall r s, s_pending s = None -> s_deferred s = None -> stage_pre (stage_of r) s.
Proof. intros [|ns] s Hp Hd; cbn; auto. Qed.

Lemma resume_at_good : forall cfg st s s' o,
  resume_at cfg st s = (s', o) -> s_control s = CIdle -> stage_pre st s -> In OOutOfFuel o \/ good s'.
Proof. intros cfg st s s' o H. unfold resume_at in H. eapply idle_run_good; exact H. Qed.

Lemma idle_loop_good : forall cfg n s s' o,
  idle_loop n cfg s = (s', o) -> s_control s = CIdle -> stage_pre St1 s -> In OOutOfFuel o \/ good s'.
Proof. intros cfg n s s' o H. unfold idle_loop in H. eapply idle_run_good; exact H. Qed.

Lemma fire_good : forall cfg s t s1 o1,
  good s -> fire_deadline cfg (upd_now s t) = (s1, o1) -> In OOutOfFuel o1 \/ good s1.
Proof.
  intros cfg s t s1 o1 [Hp Hd] H. unfold fire_deadline in H.
  change (s_control (upd_now s t)) with (s_control s) in H.
  destruct (s_control s) as [|se dl r|resp n ret dl] eqn:Ec.
  - eapply resume_at_good; [exact H|exact Ec|left; exact Hp].
  - destruct (resume_at cfg (stage_of r) (upd_control (upd_now s t) CIdle)) as [s2 o2] eqn:E. inv_pair H.
    apply (fuel_app [_; _]). eapply resume_at_good; [exact E|reflexivity|].
    apply stage_pre_good; [exact Hp|apply Hd; reflexivity].
  - cbv zeta in H. destruct (_ && _).
    + inv_pair H. right. split; [exact Hp|]. cbn. discriminate.
    + destruct (end_unsol cfg (upd_now s t) n UrTimeout) as [[s2 ns] o2] eqn:E2.
      destruct (resume_at cfg (St3 ns) s2) as [s3 o3] eqn:E3. inv_pair H.
      apply end_unsol_spec in E2. destruct E2 as (Hc2 & Hv2 & _). psimpl_in Hv2.
      apply (fuel_app [_]). apply fuel_app.
      eapply resume_at_good; [exact E3|exact Hc2|]. left. congruence.
Qed.

Lemma good_upd_now : forall s t, good s -> good (upd_now s t).
Proof. intros s t H. exact H. Qed.

Lemma advance_good : forall cfg fuel s target s' o,
  good s -> advance fuel cfg s target = (s', o) -> In OOutOfFuel o \/ good s'.
Proof.
  induction fuel as [|f IH]; intros s target s' o Hg H; cbn [advance] in H.
  { inv_pair H. left. left. reflexivity. }
  destruct (next_deadline cfg s) as [d|].
  - destruct (d <=? target)%Z.
    + destruct (fire_deadline cfg (upd_now s (Z.max d (s_now s)))) as [s1 o1] eqn:E1.
      destruct (advance f cfg s1 target) as [s2 o2] eqn:E2. inv_pair H.
      apply fire_good in E1; [|exact Hg]. destruct E1 as [X|Hg1].
      * left. right. apply in_or_app. left. exact X.
      * apply (fuel_app (_ :: o1)). eapply IH; eauto.
    + inv_pair H. right. exact Hg.
  - inv_pair H. right. exact Hg.
Qed.

Lemma on_rx_good : forall cfg s from bc bytes d s' o,
  good s -> on_rx cfg s from bc bytes d = (s', o) -> In OOutOfFuel o \/ good s'.
Proof.
  intros cfg s from bc bytes d s' o [Hp Hd] H. unfold on_rx in H. cbv zeta in H.
  set (fid := (s_frame_id s + 1) mod 4294967296) in *.
  set (s0 := upd_frame_id s fid) in *.
  change (s_control s0) with (s_control s) in H.
  destruct (s_control s) as [|se dl r|resp n ret dl] eqn:Ec.
  - eapply idle_loop_good; [exact H|exact Ec|]. right. apply Hd. reflexivity.
  - specialize (Hd eq_refl).
    destruct (sol_wait_fragment cfg s0 se dl from bc bytes d) as [out o1] eqn:E1.
    destruct out as [dl'|rt|].
    + inv_pair H. right. split; [exact Hp|intros _; exact Hd].
    + destruct (se_fin se).
      * destruct (resume_at cfg (stage_of r) (upd_control (upd_last_bcast s0 None) CIdle)) as [s2 o2] eqn:E2.
        inv_pair H. apply fuel_app. apply (fuel_app [_]).
        eapply resume_at_good; [exact E2|reflexivity|]. apply stage_pre_good; [exact Hp|exact Hd].
      * destruct (format_read_response (upd_last_bcast s0 None) false (seq16_next (se_ecsn se)) 0)
          as [[[s2 rsp] next] o2] eqn:E2.
        destruct (write_solicited s2 rt rsp) as [[s3 rsp'] o3] eqn:E3.
        apply format_read_response_spec in E2. destruct E2 as (F2 & _).
        pose proof (write_solicited_frame _ _ _ _ _ _ E3) as F3.
        pose proof (frame_trans _ _ _ F2 F3) as F. apply frame_dview in F. destruct F as (Fv & _ & Fd).
        unfold dview in Fv. unfold s0 in Fv, Fd. psimpl_in Fv. psimpl_in Fd.
        assert (Hp3 : s_pending s3 = None) by congruence.
        assert (Hd3 : s_deferred s3 = None) by congruence.
        destruct next as [nx|].
        -- inv_pair H. right. split; [exact Hp3|intros _; exact Hd3].
        -- match type of H with (let '(_, _) := ?X in _) = _ => destruct X as [s5 o5] eqn:E5 end. inv_pair H.
           apply fuel_app. apply (fuel_app [_]). apply fuel_app. apply fuel_app.
           eapply resume_at_good; [exact E5|reflexivity|]. apply stage_pre_good; [exact Hp3|exact Hd3].
    + destruct (resume_at cfg (stage_of r) (upd_pending (upd_control s0 CIdle) (Some (from, bc, bytes, d, fid))))
        as [s2 o2] eqn:E2. inv_pair H.
      apply fuel_app. apply (fuel_app [_]).
      eapply resume_at_good; [exact E2|reflexivity|]. destruct r; cbn; auto.
  - destruct (unsol_wait_fragment cfg s0 resp from bc bytes d fid) as [[s1 res] o1] eqn:E1.
    apply unsol_wait_fragment_spec in E1. destruct E1 as (Hw & _). unfold wview in Hw. unfold s0 in Hw. psimpl_in Hw.
    assert (Hp1 : s_pending s1 = None) by congruence.
    destruct res as [r|].
    + destruct (end_unsol cfg s1 n r) as [[s2 ns] o2] eqn:E2.
      destruct (resume_at cfg (St3 ns) s2) as [s3 o3] eqn:E3. inv_pair H.
      apply end_unsol_spec in E2. destruct E2 as (Hc2 & Hv2 & _).
      apply fuel_app. apply fuel_app.
      eapply resume_at_good; [exact E3|exact Hc2|]. left. congruence.
    + inv_pair H. right. split; [exact Hp1|].
      replace (s_control s') with (s_control s) by congruence. rewrite Ec. discriminate.
Qed.

Theorem ostep_good : forall cfg s ev a s' o,
  good s -> ostep cfg s ev a = (s', o) -> In OOutOfFuel o \/ good s'.
Proof.
  intros cfg s ev a s' o Hg H. unfold ostep in H.
  set (s0 := upd_answers s a) in *.
  assert (Hg0 : good s0) by exact Hg.
  destruct ev as [from bc bytes d|ms| |sel op|v|].
  - destruct (on_rx cfg s0 from bc bytes d) as [s1 o1] eqn:E1.
    destruct (advance 64 cfg s1 (s_now s1 + settle_ms)) as [s2 o2] eqn:E2. inv_pair H.
    apply on_rx_good in E1; [|exact Hg0]. destruct E1 as [X|Hg1]; [left; apply in_or_app; left; exact X|].
    apply fuel_app. eapply advance_good; [exact Hg1|exact E2].
  - destruct (advance 4096 cfg s0 (s_now s0 + ms)) as [sa oa] eqn:Ea. inv_pair H.
    eapply advance_good; [exact Hg0|exact Ea].
  - change (s_control s0) with (s_control s) in H.
    assert (Hfirst : exists s1 o1 o2, (In OOutOfFuel o1 \/ good s1) /\
                       advance 64 cfg s1 (s_now s1 + settle_ms) = (s', o2) /\ o = o1 ++ o2).
    { destruct (s_control s) eqn:Ec.
      - destruct (idle_loop 8 cfg s0) as [s1 o1] eqn:E1.
        destruct (advance 64 cfg s1 (s_now s1 + settle_ms)) as [s2 o2] eqn:E2. inv_pair H.
        exists s1, o1, o2. split; [|split; [exact E2|reflexivity]].
        eapply idle_loop_good; [exact E1|exact Ec|]. left. apply Hg.
      - destruct (advance 64 cfg (upd_notify s0 true) (s_now (upd_notify s0 true) + settle_ms)) as [s2 o2] eqn:E2.
        inv_pair H. exists (upd_notify s0 true), []. eexists. split; [right; exact Hg|]. split; [exact E2|reflexivity].
      - destruct (advance 64 cfg (upd_notify s0 true) (s_now (upd_notify s0 true) + settle_ms)) as [s2 o2] eqn:E2.
        inv_pair H. exists (upd_notify s0 true), []. eexists. split; [right; exact Hg|]. split; [exact E2|reflexivity]. }
    destruct Hfirst as (s1 & o1 & o2 & [X|Hg1] & E2 & ->); [left; apply in_or_app; left; exact X|].
    apply fuel_app. eapply advance_good; [exact Hg1|exact E2].
  - cbv beta iota in H. inv_pair H. right. exact Hg.
  - cbv beta iota in H. inv_pair H. right. exact Hg.
  - set (s1 := upd_pending (upd_control (session_reset s0) CIdle) None) in H.
    destruct (idle_loop 8 cfg s1) as [s2 o2] eqn:E2.
    destruct (advance 64 cfg s2 (s_now s2 + settle_ms)) as [s3 o3] eqn:E3. inv_pair H.
    apply (fuel_app [_; _]).
    apply idle_loop_good in E2; [|reflexivity|left; reflexivity].
    destruct E2 as [X|Hg2]; [left; apply in_or_app; left; exact X|].
    apply fuel_app. eapply advance_good; [exact Hg2|exact E3].
Qed.

Theorem ostart_good : forall cfg sel op iin a s' o,
  ostart cfg sel op iin a = (s', o) -> In OOutOfFuel o \/ good s'.
Proof. intros. unfold ostart in H. eapply idle_loop_good; [exact H|reflexivity|left; reflexivity]. Qed.
