(* Master/SchedProofs.v — properties of the master channel over ARBITRARY event lists (C17, C19).

   The trace theorems are proved with one invariant that ties the state to the history of
   observations:
     INV st h :  every automatic-task flag of every association that is raised in `st` is
                 justified by `h` (AssocProofs.hist), the configuration recorded in `h` is the
                 association's, no request is outstanding in `h` when the session is idle or down.
   Every function of the step is shown to preserve it (`OK`) and to start tasks only under the
   guard of their kind (`GOOD`). *)
From Coq Require Import ZArith NArith List Bool Lia.
From Dnp3V Require Import Master.Backoff Master.Assoc Master.Sched Master.AssocProofs.
Import ListNotations.
Open Scope Z_scope.

(* ================================================================================================
   1. History predicates of the channel
   ================================================================================================ *)

(* a request (application task or link status) is outstanding *)
Definition out_step (acc : bool) (o : ms_obs) : bool :=
  match o with
  | MsOStart _ _ _ _ _ | MsOTxLink _ _ _ => true
  | MsOOk _ _ _ _ _ | MsOFail _ _ _ _ | MsOLinkEnd _ _ => false
  | _ => acc
  end.
Definition out_fold (acc : bool) (h : list ms_obs) : bool := fold_left out_step h acc.
Definition outstanding (h : list ms_obs) : bool := out_fold false h.

Lemma out_fold_app acc h1 h2 : out_fold acc (h1 ++ h2) = out_fold (out_fold acc h1) h2.
Proof. apply fold_left_app. Qed.

(* observations that neither start nor end a request *)
Definition out_neutral (o : ms_obs) : Prop :=
  match o with
  | MsOStart _ _ _ _ _ | MsOTxLink _ _ _ | MsOOk _ _ _ _ _ | MsOFail _ _ _ _ | MsOLinkEnd _ _ => False
  | _ => True
  end.

Lemma out_fold_neutral acc h : Forall out_neutral h -> out_fold acc h = acc.
Proof.
  revert acc. induction h as [|x h IH]; intros acc F; [reflexivity|].
  inversion F; subst. cbn [out_fold fold_left]. change (fold_left out_step h (out_step acc x)) with (out_fold (out_step acc x) h).
  rewrite IH by assumption. destruct x; cbn in *; try reflexivity; contradiction.
Qed.

(* the guard under which a task of kind k may start for association A with configuration c *)
Definition kind_guard (k : ms_ttype) (c : ms_acfg) (A : N) (h : list ms_obs) : Prop :=
  match k with
  | MsKDisableUnsol => hist HC A h = true
  | MsKIntegrity =>
      hist HC A h = true /\ (ms_ev_any (ms_c_disable c) = true -> hist HD A h = true)
  | MsKEnableUnsol =>
      hist HC A h = true /\ (ms_ev_any (ms_c_disable c) = true -> hist HD A h = true)
      /\ (ms_cl_any (ms_c_integrity c) = true -> hist HI A h = true)
  | MsKEventScan | MsKPoll =>
      hist HC A h = true /\ (ms_ev_any (ms_c_disable c) = true -> hist HD A h = true)
      /\ (ms_cl_any (ms_c_integrity c) = true -> hist HI A h = true)
      /\ (ms_ev_any (ms_c_enable c) = true -> hist HE A h = true)
  | _ => True
  end.

Definition start_guard (h : list ms_obs) (x : ms_obs) : Prop :=
  match x with
  | MsOStart _ A k _ _ =>
      outstanding h = false /\ forall c, cfg_in h A = Some c -> kind_guard k c A h
  | MsOTxLink _ A ka =>
      outstanding h = false /\ (ka = true -> forall c, cfg_in h A = Some c -> kind_guard MsKPoll c A h)
  | MsOSleep t (Some u) => t < u
  | _ => True
  end.

(* every start in `o`, appended to the history `h0`, happens under its guard *)
Definition GOOD (h0 o : list ms_obs) : Prop :=
  forall o1 x o2, o = o1 ++ x :: o2 -> start_guard (h0 ++ o1) x.

Lemma GOOD_nil h : GOOD h [].
Proof. intros o1 x o2 H. destruct o1; discriminate. Qed.

Lemma GOOD_app h o1 o2 : GOOD h o1 -> GOOD (h ++ o1) o2 -> GOOD h (o1 ++ o2).
Proof.
  intros G1 G2 p x q H.
  (* the element x lies either in o1 or in o2 *)
  revert p H. induction o1 as [|y o1 IH] using rev_ind; intros p H.
  - cbn [app] in H. rewrite app_nil_r in G2. exact (G2 p x q H).
  - destruct (le_lt_dec (length (o1 ++ [y])) (length p)) as [L|L].
    + (* x in o2 *)
      assert (E : exists p2, p = (o1 ++ [y]) ++ p2 /\ o2 = p2 ++ x :: q).
      { clear - H L. revert p H L. generalize (o1 ++ [y]) as l. induction l as [|z l IHl]; intros p H L.
        - exists p. split; [reflexivity|exact H].
        - destruct p as [|z' p]; [cbn in L; lia|]. cbn [app] in H. inversion H; subst.
          destruct (IHl p H2) as (p2 & E1 & E2); [cbn in L; lia|]. exists p2. split; [cbn; congruence|exact E2]. }
      destruct E as (p2 & E1 & E2). subst p. rewrite app_assoc. exact (G2 p2 x q E2).
    + (* x in o1 ++ [y] *)
      assert (E : exists q1, o1 ++ [y] = p ++ x :: q1).
      { clear - H L. revert p H L. generalize (o1 ++ [y]) as l. induction l as [|z l IHl]; intros p H L.
        - cbn in L. lia.
        - destruct p as [|z' p].
          + cbn [app] in H. inversion H; subst. exists l. reflexivity.
          + cbn [app] in H. inversion H; subst. destruct (IHl p H2) as (q1 & E); [cbn in L; lia|].
            exists q1. cbn. congruence. }
      destruct E as (q1 & E). exact (G1 p x q1 E).
Qed.

Definition nostart (x : ms_obs) : Prop :=
  match x with MsOStart _ _ _ _ _ | MsOTxLink _ _ _ | MsOSleep _ (Some _) => False | _ => True end.

Lemma GOOD_nostart h o : Forall nostart o -> GOOD h o.
Proof.
  intros F o1 x o2 H. subst o. apply Forall_app in F as [_ F]. inversion F; subst.
  destruct x; cbn in *; auto; try contradiction;
    repeat match goal with
           | u : option ms_time |- _ => destruct u; cbn in *; auto; try contradiction
           end.
Qed.

Lemma local_nostart o : Forall local o -> Forall nostart o.
Proof.
  apply Forall_impl. intros x; destruct x; cbn in *; auto; try contradiction;
    repeat match goal with
           | u : option ms_time |- _ => destruct u; cbn in *; auto; try contradiction
           end.
Qed.

(* ================================================================================================
   2. The invariant
   ================================================================================================ *)

Definition addrs (st : ms_mstate) : list N := map ms_a_addr (ms_m_assocs st).

Record INVA (st : ms_mstate) (h : list ms_obs) : Prop := {
  inv_nodup : NoDup (addrs st);
  inv_flags : forall a X, In a (ms_m_assocs st) -> flag X a = true -> hist X (ms_a_addr a) h = true;
  inv_unreg : forall B, ~ In B (addrs st) -> hist HC B h = true /\ cfg_in h B = None;
  inv_cfg : forall a, In a (ms_m_assocs st) -> cfg_in h (ms_a_addr a) = Some (ms_a_cfg a)
}.

Definition INVP (st : ms_mstate) (h : list ms_obs) : Prop :=
  match ms_m_phase st with
  | MsPIdle _ | MsPDown => outstanding h = false
  | MsPRun (MsRNonRead _ t k _ _ _) => k = ms_task_type t
  | _ => True
  end.

Definition INV (st : ms_mstate) (h : list ms_obs) : Prop := INVA st h /\ INVP st h.

(* the relation between the associations of two states separated by the observations `o` *)
Definition TR (st : ms_mstate) (o : list ms_obs) (st' : ms_mstate) : Prop :=
  addrs st' = addrs st /\
  (forall a', In a' (ms_m_assocs st') ->
     exists a, In a (ms_m_assocs st) /\ ms_a_addr a' = ms_a_addr a /\ ms_a_cfg a' = ms_a_cfg a /\
               forall X, flag X a' = true -> hfold X (ms_a_addr a) (flag X a) o = true) /\
  (forall B, ~ In B (addrs st) -> hfold HC B true o = true) /\
  (forall B, cfg_in o B = None).

Lemma TR_refl st : TR st [] st.
Proof.
  split; [reflexivity|]. split; [|split; [reflexivity|reflexivity]].
  intros a' Ha. exists a'. repeat split; auto.
Qed.

Lemma TR_trans st o1 st1 o2 st2 : TR st o1 st1 -> TR st1 o2 st2 -> TR st (o1 ++ o2) st2.
Proof.
  intros (A1 & F1 & U1 & C1) (A2 & F2 & U2 & C2).
  split; [congruence|]. split; [|split].
  - intros a2 H2. destruct (F2 a2 H2) as (a1 & H1 & E1 & G1 & P2).
    destruct (F1 a1 H1) as (a & H0 & E0 & G0 & P1).
    exists a. split; [exact H0|]. split; [congruence|]. split; [congruence|].
    intros X HX. rewrite hfold_app. specialize (P2 X HX). rewrite E0 in P2.
    destruct (flag X a1) eqn:E.
    + rewrite (P1 X E). exact P2.
    + apply hfold_mono. exact P2.
  - intros B HB. rewrite hfold_app, U1 by exact HB. apply U2. rewrite A1. exact HB.
  - intros B. rewrite cfg_in_app, C1. apply C2.
Qed.

Lemma hist_app X A h o : hist X A (h ++ o) = hfold X A (hist X A h) o.
Proof. unfold hist. apply hfold_app. Qed.

Lemma TR_INVA st h o st' : INVA st h -> TR st o st' -> INVA st' (h ++ o).
Proof.
  intros [Nd Fl Un Cf] (A & F & U & C). constructor.
  - rewrite A. exact Nd.
  - intros a' X Ha' HX. destruct (F a' Ha') as (a & Ha & E & G & P).
    rewrite hist_app, E. specialize (P X HX).
    destruct (flag X a) eqn:Ef.
    + rewrite (Fl a X Ha Ef). exact P.
    + apply hfold_mono. exact P.
  - intros B HB. rewrite A in HB. destruct (Un B HB) as [U1 U2]. split.
    + rewrite hist_app, U1. apply U. exact HB.
    + rewrite cfg_in_app, U2. apply C.
  - intros a' Ha'. destruct (F a' Ha') as (a & Ha & E & G & P).
    rewrite cfg_in_app, E, (Cf a Ha). congruence.
Qed.

(* ---- the association list --------------------------------------------------------------------- *)

Lemma find_assoc_some addr l a : ms_find_assoc addr l = Some a -> In a l /\ ms_a_addr a = addr.
Proof.
  induction l as [|x l IH]; cbn [ms_find_assoc]; [discriminate|].
  destruct (N.eqb (ms_a_addr x) addr) eqn:E.
  - intros H; inversion H; subst. split; [left; reflexivity|apply N.eqb_eq; exact E].
  - intros H. destruct (IH H) as [I1 I2]. split; [right; exact I1|exact I2].
Qed.

Lemma find_assoc_none addr l : ms_find_assoc addr l = None -> ~ In addr (map ms_a_addr l).
Proof.
  induction l as [|x l IH]; cbn [ms_find_assoc map]; [intros _ []|].
  destruct (N.eqb (ms_a_addr x) addr) eqn:E; [discriminate|].
  intros H [H1|H1]; [apply N.eqb_neq in E; contradiction|exact (IH H H1)].
Qed.

Lemma put_assoc_addrs a l : map ms_a_addr (ms_put_assoc a l) = map ms_a_addr l.
Proof.
  induction l as [|x l IH]; [reflexivity|]. cbn [ms_put_assoc].
  destruct (N.eqb (ms_a_addr x) (ms_a_addr a)) eqn:E; cbn [map].
  - apply N.eqb_eq in E. congruence.
  - congruence.
Qed.

Lemma put_assoc_in a l a' : NoDup (map ms_a_addr l) -> In a' (ms_put_assoc a l) ->
  a' = a \/ (In a' l /\ ms_a_addr a' <> ms_a_addr a).
Proof.
  induction l as [|x l IH]; cbn [ms_put_assoc map]; [intros _ []|].
  intros Nd. inversion Nd as [|? ? Hx Nd']; subst.
  destruct (N.eqb (ms_a_addr x) (ms_a_addr a)) eqn:E.
  - apply N.eqb_eq in E. intros [H|H]; [left; congruence|]. right. split; [right; exact H|].
    intros Heq. apply Hx. rewrite E, <- Heq. apply in_map. exact H.
  - apply N.eqb_neq in E. intros [H|H].
    + subst a'. right. split; [left; reflexivity|exact E].
    + destruct (IH Nd' H) as [H1|[H1 H2]]; [left; exact H1|right; split; [right; exact H1|exact H2]].
Qed.

(* replacing an association by one related to it through LS *)
Lemma put_TR st a o a1 :
  NoDup (addrs st) -> In a (ms_m_assocs st) -> LS a o a1 ->
  TR st o (ms_set_assocs st (ms_put_assoc a1 (ms_m_assocs st))).
Proof.
  intros Nd Ha (LA & LC & LF & LO & LL).
  split; [unfold addrs; cbn; apply put_assoc_addrs|]. split; [|split].
  - intros a' Ha'. cbn in Ha'. apply put_assoc_in in Ha'; [|exact Nd]. destruct Ha' as [E|[I1 I2]].
    + subst a'. exists a. repeat split; auto.
    + exists a'. split; [exact I1|]. split; [reflexivity|]. split; [reflexivity|].
      intros X HX. rewrite LO; [exact HX|]. congruence.
  - intros B HB. apply LO. intros E. apply HB. subst B. unfold addrs. apply in_map. exact Ha.
  - intros B. apply cfg_in_local. exact LL.
Qed.

Lemma update_assoc_TR st addr f st' o :
  NoDup (addrs st) -> (forall a a' o, f a = (a', o) -> LS a o a') ->
  ms_update_assoc st addr f = (st', o) ->
  TR st o st' /\ ms_m_phase st' = ms_m_phase st /\ Forall local o.
Proof.
  intros Nd Hf. unfold ms_update_assoc.
  destruct (ms_find_assoc addr (ms_m_assocs st)) as [a|] eqn:E.
  - destruct (f a) as [a1 o1] eqn:Ef. intros H; inversion H; subst; clear H.
    apply find_assoc_some in E as [Ia _]. pose proof (Hf _ _ _ Ef) as L.
    split; [apply put_TR with (a := a); assumption|]. split; [reflexivity|]. destruct L as (_ & _ & _ & _ & LL). exact LL.
  - intros H; inversion H; subst. split; [apply TR_refl|]. split; [reflexivity|constructor].
Qed.

(* ================================================================================================
   3. AssociationMap::next_task and the start of a task
   ================================================================================================ *)

Definition is_user_task (t : ms_task) : bool :=
  match t with
  | MsTUserRead _ _ | MsTEmpty _ | MsTLink (Some _) | MsTTimeSync _ (Some _) => true
  | _ => false
  end.

Lemma task_start_user now sys tok uk a a1 o t' :
  ms_task_start now sys (ms_user_task tok uk) a = (a1, o, Some t') -> is_user_task t' = true.
Proof.
  destruct uk as [m| | |p]; cbn [ms_user_task ms_task_start]; try (intros H; inversion H; reflexivity).
  unfold ms_tsync_start_state.
  destruct (N.eqb p 1); [|destruct (N.eqb p 2)];
    (destruct (ms_system_time sys now);
     [intros H; inversion H; reflexivity
     |destruct (ms_tsync_report _ _ _ _); intros H; inversion H]).
Qed.

Lemma priority_task_user now sys q : forall a a1 o t,
  ms_priority_task now sys q a = (a1, o, Some t) -> is_user_task t = true.
Proof.
  induction q as [|[tok uk] q IH]; intros a a1 o t; cbn [ms_priority_task]; [intros H; inversion H|].
  destruct (ms_task_start now sys (ms_user_task tok uk) a) as [[a2 o2] [t'|]] eqn:Es.
  - intros H; inversion H; subst. eapply task_start_user; exact Es.
  - destruct (ms_priority_task now sys q a2) as [[a3 o3] r3] eqn:Ep.
    intros H; inversion H; subst. eapply IH; exact Ep.
Qed.

Lemma priority_pass_spec : forall ring st st' o r,
  NoDup (addrs st) -> ms_priority_pass st ring = (st', o, r) ->
  TR st o st' /\ Forall neutral o /\ ms_m_phase st' = ms_m_phase st /\
  match r with Some (_, t) => is_user_task t = true | None => True end.
Proof.
  induction ring as [|addr ring IH]; intros st st' o r Nd; cbn [ms_priority_pass].
  - intros H; inversion H; subst. split; [apply TR_refl|]. repeat split; constructor.
  - destruct (ms_find_assoc addr (ms_m_assocs st)) as [a|] eqn:Ef; [|apply IH; exact Nd].
    apply find_assoc_some in Ef as [Ia _].
    destruct (ms_priority_task (ms_m_now st) (ms_m_systime st) (ms_a_queue a) a) as [[a1 o1] [t|]] eqn:Ep.
    + pose proof (priority_task_user _ _ _ _ _ _ _ Ep) as Hu.
      apply priority_task_LS in Ep as [L N1].
      intros H; inversion H; subst; clear H.
      split; [|split; [exact N1|split; [reflexivity|exact Hu]]].
      exact (put_TR st a o a1 Nd Ia L).
    + apply priority_task_LS in Ep as [L N1].
      pose proof (put_TR st a o1 a1 Nd Ia L) as T1.
      set (st1 := ms_set_assocs st (ms_put_assoc a1 (ms_m_assocs st))) in *.
      destruct (ms_priority_pass st1 ring) as [[st2 o2] r2] eqn:Er.
      assert (Nd1 : NoDup (addrs st1)) by (destruct T1 as [A _]; rewrite A; exact Nd).
      destruct (IH _ _ _ _ Nd1 Er) as (T2 & N2 & P2 & R2).
      intros H; inversion H; subst; clear H.
      split; [eapply TR_trans; eassumption|]. split; [apply Forall_app; split; assumption|].
      split; [exact P2|exact R2].
Qed.

(* the flags that must be settled before a task chosen by Association::get_next_task starts *)
Definition flags_guard (t : ms_task) (a : ms_assoc) : Prop :=
  let c := ms_a_cfg a in let ts := ms_a_auto a in
  match t with
  | MsTDisableUnsol _ => ms_is_idle (ms_ts_clear ts) = true
  | MsTIntegrity _ => ms_is_idle (ms_ts_clear ts) = true /\ dis_ok c ts = true
  | MsTEnableUnsol _ =>
      ms_is_idle (ms_ts_clear ts) = true /\ dis_ok c ts = true /\ integ_ok c ts = true
  | MsTEventScan _ | MsTPoll _ _ | MsTLink None =>
      ms_is_idle (ms_ts_clear ts) = true /\ dis_ok c ts = true /\ integ_ok c ts = true
      /\ en_ok c ts = true
  | _ => True
  end.

Lemma get_next_task_flags a now t : ms_get_next_task a now = MsNNow t -> flags_guard t a.
Proof.
  intros H. pose proof (get_next_task_guards a now t H) as G.
  pose proof (auto_choice_guards (ms_a_cfg a) (ms_a_auto a) (ms_a_events a)) as C.
  destruct t as [| m | m | m | m | id m | st [p|] | m tok | tok | [p|]]; cbn [flags_guard]; auto.
  - destruct G as [G1 _]. cbn [task_choice] in G1. rewrite <- G1 in C. intuition.
  - destruct G as [G1 _]. cbn [task_choice] in G1. rewrite <- G1 in C. exact C.
  - destruct G as [G1 _]. cbn [task_choice] in G1. rewrite <- G1 in C. exact C.
  - destruct G as [G1 _]. cbn [task_choice] in G1. rewrite <- G1 in C. intuition.
  - intuition.
  - intuition.
Qed.

(* Task::start keeps the shape of the task *)
Lemma task_start_shape now sys t a a1 o t' :
  ms_task_start now sys t a = (a1, o, Some t') ->
  a1 = a /\ o = [] /\ ms_task_type t' = ms_task_type t /\ ms_is_read_task t' = ms_is_read_task t /\
  (forall b, flags_guard t b -> flags_guard t' b) /\
  (forall p, t' = MsTLink p <-> t = MsTLink p) /\ is_user_task t' = is_user_task t.
Proof.
  unfold ms_task_start.
  assert (Same : forall t0, (a, @nil ms_obs, Some t0) = (a1, o, Some t') ->
            a1 = a /\ o = [] /\ ms_task_type t' = ms_task_type t0 /\ ms_is_read_task t' = ms_is_read_task t0 /\
            (forall b, flags_guard t0 b -> flags_guard t' b) /\ (forall p, t' = MsTLink p <-> t0 = MsTLink p)
            /\ is_user_task t' = is_user_task t0).
  { intros t0 H; inversion H; subst.
    split; [reflexivity|split; [reflexivity|split; [reflexivity|split; [reflexivity|split; [|split]]]]].
    - intros b Hb; exact Hb.
    - intros p; split; intros E; exact E.
    - reflexivity. }
  assert (Ts : forall st st' p, t = MsTTimeSync st p -> (a, @nil ms_obs, Some (MsTTimeSync st' p)) = (a1, o, Some t') ->
            a1 = a /\ o = [] /\ ms_task_type t' = ms_task_type t /\ ms_is_read_task t' = ms_is_read_task t /\
            (forall b, flags_guard t b -> flags_guard t' b) /\ (forall p, t' = MsTLink p <-> t = MsTLink p)
            /\ is_user_task t' = is_user_task t).
  { intros st st' p Et H; inversion H; subst.
    split; [reflexivity|split; [reflexivity|split; [reflexivity|split; [reflexivity|split; [|split]]]]].
    - intros b _. exact I.
    - intros q; split; intros E; discriminate.
    - reflexivity. }
  destruct t as [| m | m | m | m | id m | st p | m tok | tok | p]; try (apply Same).
  destruct st as [t0 | [ts|] | ts | ts]; try (apply Same).
  all: destruct (ms_system_time sys now) as [stm|];
    [ eapply Ts; reflexivity | destruct (ms_tsync_report _ _ _ _); intros H; inversion H ].
Qed.

Lemma get_next_task_not_user a now t : ms_get_next_task a now = MsNNow t ->
  is_user_task t = false /\ (forall p, t = MsTLink p -> p = None).
Proof.
  intros H. pose proof (get_next_task_guards a now t H) as G.
  destruct t as [| m | m | m | m | id m | st [p|] | m tok | tok | [p|]]; cbn [is_user_task];
    try (split; [reflexivity|intros q Hq; inversion Hq; reflexivity]);
    cbn in G; destruct G as [_ G]; exfalso; apply G; reflexivity.
Qed.

Lemma assoc_next_task_now fuel now sys : forall a a1 o t',
  ms_assoc_next_task fuel now sys a = (a1, o, Some (MsNNow t')) ->
  flags_guard t' a1 /\ (forall p, t' = MsTLink p -> p = None) /\ is_user_task t' = false.
Proof.
  induction fuel as [|k IH]; intros a a1 o t'; cbn [ms_assoc_next_task]; [intros H; inversion H|].
  destruct (ms_get_next_task a now) as [|t|nb] eqn:Eg; try (intros H; inversion H; fail).
  destruct (ms_task_start now sys t a) as [[a2 o2] [t2|]] eqn:Es.
  - apply task_start_shape in Es as (E1 & E2 & E3 & E4 & E5 & E6 & E7).
    intros H; inversion H; subst; clear H.
    pose proof (get_next_task_flags _ _ _ Eg) as G.
    destruct (get_next_task_not_user _ _ _ Eg) as [U1 U2].
    split; [apply E5; exact G|]. split.
    + intros p Hp. apply E6 in Hp. exact (U2 p Hp).
    + rewrite E7. exact U1.
  - destruct (ms_assoc_next_task k now sys a2) as [[a3 o3] r3] eqn:Ea.
    intros H; inversion H; subst; clear H. eapply IH; exact Ea.
Qed.

Lemma find_put addr a1 l : In addr (map ms_a_addr l) -> ms_a_addr a1 = addr ->
  ms_find_assoc addr (ms_put_assoc a1 l) = Some a1.
Proof.
  intros Hin Ha. subst addr. induction l as [|x l IH]; [destruct Hin|]. cbn [ms_put_assoc].
  destruct (N.eqb (ms_a_addr x) (ms_a_addr a1)) eqn:E; cbn [ms_find_assoc].
  - rewrite N.eqb_refl. reflexivity.
  - rewrite E. apply IH. destruct Hin as [H|H]; [|exact H].
    apply N.eqb_neq in E. congruence.
Qed.

Lemma auto_pass_spec : forall ring st e st' o r,
  NoDup (addrs st) -> ms_auto_pass st ring e = (st', o, r) ->
  TR st o st' /\ Forall neutral o /\ ms_m_phase st' = ms_m_phase st /\
  match r with
  | MsSNow addr t =>
      exists a1, ms_find_assoc addr (ms_m_assocs st') = Some a1 /\ flags_guard t a1 /\
                 (forall p, t = MsTLink p -> p = None) /\ is_user_task t = false
  | _ => True
  end.
Proof.
  induction ring as [|addr ring IH]; intros st e st' o r Nd; cbn [ms_auto_pass].
  - intros H; inversion H; subst. split; [apply TR_refl|]. split; [constructor|]. split; [reflexivity|].
    destruct e; exact I.
  - destruct (ms_find_assoc addr (ms_m_assocs st)) as [a|] eqn:Ef; [|apply IH; exact Nd].
    pose proof (find_assoc_some _ _ _ Ef) as [Ia Eaddr].
    destruct (ms_assoc_next_task 3 (ms_m_now st) (ms_m_systime st) a) as [[a1 o1] r1] eqn:Ea.
    pose proof (assoc_next_task_LS _ _ _ _ _ _ _ Ea) as [L N1].
    pose proof (put_TR st a o1 a1 Nd Ia L) as T1.
    set (st1 := ms_set_assocs st (ms_put_assoc a1 (ms_m_assocs st))) in *.
    assert (Nd1 : NoDup (addrs st1)) by (destruct T1 as [A _]; rewrite A; exact Nd).
    destruct r1 as [[|t|nb]|].
    + destruct (ms_auto_pass st1 ring e) as [[st2 o2] r2] eqn:Er.
      destruct (IH _ _ _ _ _ Nd1 Er) as (T2 & N2 & P2 & R2).
      intros H; inversion H; subst; clear H.
      split; [eapply TR_trans; eassumption|]. split; [apply Forall_app; split; assumption|].
      split; [exact P2|exact R2].
    + intros H; inversion H; subst; clear H.
      split; [exact T1|]. split; [exact N1|]. split; [reflexivity|].
      exists a1. split.
      * cbn. apply find_put.
        -- apply in_map_iff. exists a. split; [reflexivity|exact Ia].
        -- destruct L as (LA & _). congruence.
      * eapply assoc_next_task_now. exact Ea.
    + destruct (ms_auto_pass st1 ring (ms_min_opt e nb)) as [[st2 o2] r2] eqn:Er.
      destruct (IH _ _ _ _ _ Nd1 Er) as (T2 & N2 & P2 & R2).
      intros H; inversion H; subst; clear H.
      split; [eapply TR_trans; eassumption|]. split; [apply Forall_app; split; assumption|].
      split; [exact P2|exact R2].
    + intros H; inversion H; subst; clear H.
      split; [exact T1|]. split; [exact N1|]. split; [reflexivity|exact I].
Qed.

Lemma map_next_task_spec st st' o r :
  NoDup (addrs st) -> ms_map_next_task st = (st', o, r) ->
  TR st o st' /\ Forall neutral o /\ ms_m_phase st' = ms_m_phase st /\
  match r with
  | MsSNow addr t =>
      is_user_task t = true \/
      exists a1, ms_find_assoc addr (ms_m_assocs st') = Some a1 /\ flags_guard t a1 /\
                 (forall p, t = MsTLink p -> p = None) /\ is_user_task t = false
  | _ => True
  end.
Proof.
  intros Nd. unfold ms_map_next_task.
  destruct (ms_priority_pass st (ms_m_ring st)) as [[st1 o1] [[addr t]|]] eqn:Ep;
    destruct (priority_pass_spec _ _ _ _ _ Nd Ep) as (T1 & N1 & P1 & R1).
  - intros H; inversion H; subst; clear H.
    split; [exact T1|]. split; [exact N1|]. split; [exact P1|]. left. exact R1.
  - destruct (ms_auto_pass st1 (ms_m_ring st1) None) as [[st2 o2] r2] eqn:Ea.
    assert (Nd1 : NoDup (addrs st1)) by (destruct T1 as [A _]; rewrite A; exact Nd).
    destruct (auto_pass_spec _ _ _ _ _ _ Nd1 Ea) as (T2 & N2 & P2 & R2).
    intros H; inversion H; subst; clear H.
    split; [eapply TR_trans; eassumption|]. split; [apply Forall_app; split; assumption|].
    split; [congruence|]. destruct r; auto.
Qed.

(* observations without any effect on the history predicates of the associations *)
Definition quiet (x : ms_obs) : Prop :=
  (forall X A, obs_effect X A x = None) /\ match x with MsOAssoc _ _ _ => False | _ => True end.

Lemma neutral_quiet o : Forall neutral o -> Forall quiet o.
Proof.
  apply Forall_impl. intros x [E L]. split; [exact E|]. destruct x; auto.
Qed.

Lemma hfold_quiet X A acc h : Forall quiet h -> hfold X A acc h = acc.
Proof.
  unfold hfold. revert acc. induction h as [|x h IH]; intros acc F; [reflexivity|].
  inversion F as [|? ? [Q _] F2]; subst. cbn [fold_left]. unfold hstep at 2. rewrite Q. apply IH. exact F2.
Qed.

Lemma cfg_in_quiet h A : Forall quiet h -> cfg_in h A = None.
Proof.
  induction h as [|x h IH]; [reflexivity|]. intros F. inversion F as [|? ? [_ N1] F2]; subst.
  cbn [cfg_in]. destruct x; try (apply IH; exact F2). contradiction.
Qed.

Lemma TR_quiet st n : Forall quiet n -> TR st n st.
Proof.
  intros Q. split; [reflexivity|]. split; [|split].
  - intros a' Ha. exists a'. repeat split; auto. intros X HX. rewrite hfold_quiet by exact Q. exact HX.
  - intros B _. apply hfold_quiet. exact Q.
  - intros B. apply cfg_in_quiet. exact Q.
Qed.

Lemma INVA_quiet st h n : INVA st h -> Forall quiet n -> INVA st (h ++ n).
Proof. intros I Q. eapply TR_INVA; [exact I|apply TR_quiet; exact Q]. Qed.

Lemma GOOD_cons_start h x rest : start_guard h x -> Forall nostart rest -> GOOD h (x :: rest).
Proof.
  intros G F o1 y o2 H. destruct o1 as [|z o1]; cbn [app] in H; inversion H; subst.
  - rewrite app_nil_r. exact G.
  - apply Forall_app in F as [_ F]. inversion F; subst.
    destruct y; cbn in *; auto; try contradiction;
    repeat match goal with
           | u : option ms_time |- _ => destruct u; cbn in *; auto; try contradiction
           end.
Qed.

(* from the flags of the chosen association to the guard over the history *)
Lemma flags_to_guard st h a t c :
  INVA st h -> In a (ms_m_assocs st) -> flags_guard t a -> cfg_in h (ms_a_addr a) = Some c ->
  match t with
  | MsTLink None => kind_guard MsKPoll c (ms_a_addr a) h
  | MsTLink (Some _) => True
  | _ => kind_guard (ms_task_type t) c (ms_a_addr a) h
  end.
Proof.
  intros [Nd Fl Un Cf] Ia G Hc. rewrite (Cf a Ia) in Hc. inversion Hc; subst c; clear Hc.
  assert (HCx : ms_is_idle (ms_ts_clear (ms_a_auto a)) = true -> hist HC (ms_a_addr a) h = true)
    by (intros E; apply (Fl a HC Ia); exact E).
  assert (HDx : dis_ok (ms_a_cfg a) (ms_a_auto a) = true ->
                ms_ev_any (ms_c_disable (ms_a_cfg a)) = true -> hist HD (ms_a_addr a) h = true).
  { unfold dis_ok. intros E1 E2. rewrite E2 in E1. cbn in E1. apply (Fl a HD Ia). exact E1. }
  assert (HIx : integ_ok (ms_a_cfg a) (ms_a_auto a) = true ->
                ms_cl_any (ms_c_integrity (ms_a_cfg a)) = true -> hist HI (ms_a_addr a) h = true).
  { unfold integ_ok. intros E1 E2. rewrite E2 in E1. cbn in E1. apply (Fl a HI Ia). exact E1. }
  assert (HEx : en_ok (ms_a_cfg a) (ms_a_auto a) = true ->
                ms_ev_any (ms_c_enable (ms_a_cfg a)) = true -> hist HE (ms_a_addr a) h = true).
  { unfold en_ok. intros E1 E2. rewrite E2 in E1. cbn in E1. apply (Fl a HE Ia). exact E1. }
  destruct t as [| m | m | m | m | id m | tst p | m tok | tok | [p|]];
    cbn [flags_guard ms_task_type kind_guard] in *; auto; intuition.
Qed.

(* the observations of the scheduling decision itself are completions of user requests only *)
Definition is_res (x : ms_obs) : Prop := match x with MsORes _ _ _ => True | _ => False end.

Lemma res_out_neutral o : Forall is_res o -> Forall out_neutral o.
Proof. apply Forall_impl. intros x; destruct x; cbn; auto. Qed.
Lemma res_nostart o : Forall is_res o -> Forall nostart o.
Proof. apply Forall_impl. intros x; destruct x; cbn; auto; contradiction. Qed.
Lemma res_quiet o : Forall is_res o -> Forall quiet o.
Proof. apply Forall_impl. intros x; destruct x; cbn; try contradiction. intros _. split; [reflexivity|exact I]. Qed.

Lemma tsync_report_res now p r a a' o : ms_tsync_report now p r a = (a', o) -> Forall is_res o.
Proof.
  unfold ms_tsync_report. destruct p; [|destruct r]; intros H; inversion H; subst; repeat constructor.
Qed.

Lemma task_start_res now sys t a a' o r : ms_task_start now sys t a = (a', o, r) -> Forall is_res o.
Proof.
  unfold ms_task_start.
  destruct t as [| m | m | m | m | id m | tst p | m tok | tok | p];
    try (intros H; inversion H; subst; constructor).
  destruct tst as [t0 | [ts|] | ts | ts]; try (intros H; inversion H; subst; constructor).
  all: destruct (ms_system_time sys now) as [stm|]; [intros H; inversion H; subst; constructor|];
    destruct (ms_tsync_report now p (Some MsENoSystemTime) a) as [a1 o1] eqn:Er;
    intros H; inversion H; subst; eapply tsync_report_res; exact Er.
Qed.

Lemma priority_task_res now sys q : forall a a' o r, ms_priority_task now sys q a = (a', o, r) -> Forall is_res o.
Proof.
  induction q as [|[tok uk] q IH]; intros a a' o r; cbn [ms_priority_task].
  - intros H; inversion H; constructor.
  - destruct (ms_task_start now sys (ms_user_task tok uk) a) as [[a1 o1] [t'|]] eqn:Es;
      apply task_start_res in Es.
    + intros H; inversion H; subst. exact Es.
    + destruct (ms_priority_task now sys q a1) as [[a2 o2] r2] eqn:Ep. apply IH in Ep.
      intros H; inversion H; subst. apply Forall_app; split; assumption.
Qed.

Lemma assoc_next_task_res fuel now sys : forall a a' o r,
  ms_assoc_next_task fuel now sys a = (a', o, r) -> Forall is_res o.
Proof.
  induction fuel as [|k IH]; intros a a' o r; cbn [ms_assoc_next_task].
  - intros H; inversion H; constructor.
  - destruct (ms_get_next_task a now) as [|t|nb]; try (intros H; inversion H; constructor).
    destruct (ms_task_start now sys t a) as [[a1 o1] [t'|]] eqn:Es; apply task_start_res in Es.
    + intros H; inversion H; subst. exact Es.
    + destruct (ms_assoc_next_task k now sys a1) as [[a2 o2] r2] eqn:Ep. apply IH in Ep.
      intros H; inversion H; subst. apply Forall_app; split; assumption.
Qed.

Lemma priority_pass_res : forall ring st st' o r, ms_priority_pass st ring = (st', o, r) -> Forall is_res o.
Proof.
  induction ring as [|addr ring IH]; intros st st' o r; cbn [ms_priority_pass].
  - intros H; inversion H; constructor.
  - destruct (ms_find_assoc addr (ms_m_assocs st)) as [a|]; [|apply IH].
    destruct (ms_priority_task _ _ _ a) as [[a1 o1] [t|]] eqn:Ep; apply priority_task_res in Ep.
    + intros H; inversion H; subst. exact Ep.
    + destruct (ms_priority_pass _ ring) as [[st2 o2] r2] eqn:Er. apply IH in Er.
      intros H; inversion H; subst. apply Forall_app; split; assumption.
Qed.

Lemma auto_pass_res : forall ring st e st' o r, ms_auto_pass st ring e = (st', o, r) -> Forall is_res o.
Proof.
  induction ring as [|addr ring IH]; intros st e st' o r; cbn [ms_auto_pass].
  - intros H; inversion H; constructor.
  - destruct (ms_find_assoc addr (ms_m_assocs st)) as [a|]; [|apply IH].
    destruct (ms_assoc_next_task 3 _ _ a) as [[a1 o1] r1] eqn:Ea; apply assoc_next_task_res in Ea.
    destruct r1 as [[|t|nb]|].
    + destruct (ms_auto_pass _ ring e) as [[st2 o2] r2] eqn:Er. apply IH in Er.
      intros H; inversion H; subst. apply Forall_app; split; assumption.
    + intros H; inversion H; subst. exact Ea.
    + destruct (ms_auto_pass _ ring _) as [[st2 o2] r2] eqn:Er. apply IH in Er.
      intros H; inversion H; subst. apply Forall_app; split; assumption.
    + intros H; inversion H; subst. exact Ea.
Qed.

Lemma map_next_task_res st st' o r : ms_map_next_task st = (st', o, r) -> Forall is_res o.
Proof.
  unfold ms_map_next_task.
  destruct (ms_priority_pass st (ms_m_ring st)) as [[st1 o1] [[addr t]|]] eqn:Ep; apply priority_pass_res in Ep.
  - intros H; inversion H; subst. exact Ep.
  - destruct (ms_auto_pass st1 (ms_m_ring st1) None) as [[st2 o2] r2] eqn:Ea. apply auto_pass_res in Ea.
    intros H; inversion H; subst. apply Forall_app; split; assumption.
Qed.

Lemma INVA_phase st p h : INVA (ms_set_phase st p) h <-> INVA st h.
Proof. split; intros [A B C D]; constructor; assumption. Qed.

Lemma outstanding_app_neutral h o : Forall out_neutral o -> outstanding (h ++ o) = outstanding h.
Proof. intros F. unfold outstanding. rewrite out_fold_app. apply out_fold_neutral. exact F. Qed.

Lemma user_kind_guard t c A h : is_user_task t = true -> (forall p, t <> MsTLink p) ->
  kind_guard (ms_task_type t) c A h.
Proof.
  destruct t as [| m | m | m | m | id m | tst [p|] | m tok | tok | [p|]]; cbn; try discriminate; auto;
    intros _ H; exfalso; eapply H; reflexivity.
Qed.

(* NotBefore t is in the future: the scheduler never asks to sleep until now or the past *)
Lemma assoc_next_task_future fuel now sys : forall a a1 o t,
  ms_assoc_next_task fuel now sys a = (a1, o, Some (MsNNotBefore t)) -> now < t.
Proof.
  induction fuel as [|k IH]; intros a a1 o t; cbn [ms_assoc_next_task]; [intros H; inversion H|].
  destruct (ms_get_next_task a now) as [|t0|nb] eqn:Eg.
  - intros H; inversion H.
  - destruct (ms_task_start now sys t0 a) as [[a2 o2] [t2|]]; [intros H; inversion H|].
    destruct (ms_assoc_next_task k now sys a2) as [[a3 o3] r3] eqn:Ea.
    intros H; inversion H; subst. eapply IH; exact Ea.
  - intros H; inversion H; subst. eapply get_next_task_future; exact Eg.
Qed.

Lemma priority_pass_now : forall ring st st' o r, ms_priority_pass st ring = (st', o, r) -> ms_m_now st' = ms_m_now st.
Proof.
  induction ring as [|addr ring IH]; intros st st' o r; cbn [ms_priority_pass].
  - intros H; inversion H; reflexivity.
  - destruct (ms_find_assoc addr (ms_m_assocs st)) as [a|]; [|apply IH].
    destruct (ms_priority_task _ _ _ a) as [[a1 o1] [t|]].
    + intros H; inversion H; reflexivity.
    + destruct (ms_priority_pass _ ring) as [[st2 o2] r2] eqn:Er. apply IH in Er.
      intros H; inversion H; subst. exact Er.
Qed.

Lemma auto_pass_future : forall ring st e st' o t,
  (forall y, e = Some y -> ms_m_now st < y) ->
  ms_auto_pass st ring e = (st', o, MsSNotBefore t) -> ms_m_now st < t /\ ms_m_now st' = ms_m_now st.
Proof.
  induction ring as [|addr ring IH]; intros st e st' o t He; cbn [ms_auto_pass].
  - destruct e as [y|]; intros H; inversion H; subst. split; [apply He; reflexivity|reflexivity].
  - destruct (ms_find_assoc addr (ms_m_assocs st)) as [a|]; [|apply IH; exact He].
    destruct (ms_assoc_next_task 3 _ _ a) as [[a1 o1] r1] eqn:Ea.
    destruct r1 as [[|t1|nb]|].
    + destruct (ms_auto_pass _ ring e) as [[st2 o2] r2] eqn:Er.
      intros H; inversion H; subst. apply IH in Er; [exact Er|exact He].
    + intros H; inversion H.
    + destruct (ms_auto_pass _ ring _) as [[st2 o2] r2] eqn:Er.
      intros H; inversion H; subst. apply IH in Er; [exact Er|]. cbn [ms_m_now ms_set_assocs].
      apply assoc_next_task_future in Ea.
      intros y Hy. destruct e as [z|]; cbn [ms_min_opt] in Hy; inversion Hy; subst.
      * specialize (He z eq_refl). lia.
      * exact Ea.
    + intros H; inversion H.
Qed.

Lemma map_next_task_future st st' o t :
  ms_map_next_task st = (st', o, MsSNotBefore t) -> ms_m_now st' < t.
Proof.
  unfold ms_map_next_task.
  destruct (ms_priority_pass st (ms_m_ring st)) as [[st1 o1] [[addr t1]|]] eqn:Ep; [intros H; inversion H|].
  destruct (ms_auto_pass st1 (ms_m_ring st1) None) as [[st2 o2] r2] eqn:Ea.
  intros H; inversion H; subst. apply auto_pass_future in Ea; [|discriminate].
  destruct Ea as [E1 E2]. rewrite E2. exact E1.
Qed.

Theorem schedule_OK st h st' o :
  INVA st h -> outstanding h = false -> ms_schedule st = (st', o) ->
  INVA st' (h ++ o) /\ INVP st' (h ++ o) /\ GOOD h o.
Proof.
  intros I0 Out. unfold ms_schedule.
  destruct (ms_map_next_task st) as [[st1 o1] r] eqn:Em.
  pose proof (map_next_task_res _ _ _ _ Em) as Res.
  destruct (map_next_task_spec _ _ _ _ (inv_nodup _ _ I0) Em) as (T1 & N1 & P1 & R).
  pose proof (TR_INVA _ _ _ _ I0 T1) as I1.
  assert (Out1 : outstanding (h ++ o1) = false).
  { rewrite outstanding_app_neutral; [exact Out|apply res_out_neutral; exact Res]. }
  pose proof (GOOD_nostart h o1 (res_nostart _ Res)) as G1.
  destruct r as [addr t|nb| |].
  - (* a task starts *)
    unfold ms_start_task.
    destruct t as [| m | m | m | m | id m | tst p | m tok | tok | p].
    10:{ (* link status *)
      intros H; inversion H; subst; clear H.
      split; [|split].
      - rewrite app_assoc. apply INVA_quiet; [apply INVA_phase; exact I1|].
        repeat constructor.
      - exact I.
      - apply GOOD_app; [exact G1|]. apply GOOD_cons_start; [|constructor].
        split; [exact Out1|]. intros Hka c Hc. destruct p as [tok|]; [discriminate|].
        destruct R as [R|(a1 & Fa & Fg & _)]; [discriminate|].
        apply find_assoc_some in Fa as [Ia Ea]. subst addr.
        exact (flags_to_guard st1 (h ++ o1) a1 (MsTLink None) c I1 Ia Fg Hc). }
    all: match goal with
         | |- context [ms_send_request ?s ?a ?t] =>
             destruct (ms_send_request s a t) as [[st2 o2] sq] eqn:Es
         end;
      intros H; inversion H; subst; clear H;
      unfold ms_send_request in Es;
      destruct (ms_find_assoc addr (ms_m_assocs st1)) as [a|] eqn:Ef.
    all: try (inversion Es; subst; clear Es).
    all: match goal with
         | Hf : ms_find_assoc ?addr _ = Some ?a |- _ =>
             pose proof (find_assoc_some _ _ _ Hf) as [Ia Ea];
             pose proof (put_TR st1 a [] (ms_set_seq a (ms_seq_next (ms_a_seq a)))
                           (inv_nodup _ _ I1) Ia (LS_set_seq a _)) as T2;
             pose proof (TR_INVA _ _ _ _ I1 T2) as I2; rewrite app_nil_r in I2
         | _ => idtac
         end.
    all: split; [|split; [cbn; try reflexivity; exact I|]].
    all: try (rewrite app_assoc; apply INVA_quiet; [apply INVA_phase; assumption|repeat constructor]).
    all: apply GOOD_app; [exact G1|]; apply GOOD_cons_start; [|repeat constructor];
      (split; [exact Out1|]); intros c Hc;
      (destruct R as [R|(a1 & Fa & Fg & _)];
       [ cbn in R; try discriminate R; cbn [kind_guard ms_task_type]; exact I
       | (inversion Fa; subst a1; subst addr;
          exact (flags_to_guard st1 (h ++ o1) a _ c I1 Ia Fg Hc)) || discriminate Fa ]).
  - intros H; inversion H; subst; clear H. split; [|split].
    + rewrite app_assoc. apply INVA_quiet; [apply INVA_phase; exact I1|repeat constructor].
    + unfold INVP. cbn. rewrite app_assoc, outstanding_app_neutral; [exact Out1|repeat constructor].
    + apply GOOD_app; [exact G1|]. apply GOOD_cons_start; [|constructor].
      cbn. eapply map_next_task_future. exact Em.
  - intros H; inversion H; subst; clear H. split; [|split].
    + rewrite app_assoc. apply INVA_quiet; [apply INVA_phase; exact I1|repeat constructor].
    + unfold INVP. cbn. rewrite app_assoc, outstanding_app_neutral; [exact Out1|repeat constructor].
    + apply GOOD_app; [exact G1|apply GOOD_nostart; repeat constructor].
  - intros H; inversion H; subst; clear H. split; [|split].
    + rewrite app_assoc. apply INVA_quiet; [apply INVA_phase; exact I1|repeat constructor].
    + exact I.
    + apply GOOD_app; [exact G1|apply GOOD_nostart; repeat constructor].
Qed.

(* ================================================================================================
   4. The functions of the step preserve the invariant
   ================================================================================================ *)

Definition OKR (h : list ms_obs) (st' : ms_mstate) (o : list ms_obs) : Prop :=
  INV st' (h ++ o) /\ GOOD h o.

Lemma outstanding_snoc h x : outstanding (h ++ [x]) = out_step (outstanding h) x.
Proof. unfold outstanding. rewrite out_fold_app. reflexivity. Qed.

(* ---- observations of the association-level functions never start or end a request ------------ *)

Lemma process_iin_outn now f a a' o : ms_process_iin now f a = (a', o) -> Forall out_neutral o.
Proof.
  unfold ms_process_iin, ms_on_restart.
  destruct (ms_iin_restart f); [destruct (ms_is_idle _)|]; intros H; inversion H; subst; repeat constructor.
Qed.

Lemma handle_unsolicited_outn now f a a' o : ms_handle_unsolicited now f a = (a', o) -> Forall out_neutral o.
Proof.
  unfold ms_handle_unsolicited. destruct (ms_process_iin now f a) as [a1 seen] eqn:E.
  apply process_iin_outn in E.
  destruct (negb _); [intros H; inversion H; subst; apply Forall_app; split; [exact E|repeat constructor]|].
  destruct (negb _); [intros H; inversion H; subst; apply Forall_app; split; [exact E|repeat constructor]|].
  intros H; inversion H; subst. apply Forall_app; split; [exact E|]. apply Forall_app; split.
  - destruct (match ms_a_last_unsol a1 with Some _ => _ | None => _ end); [repeat constructor|].
    destruct (ms_r_ok f); repeat constructor.
  - destruct (ms_r_con f); repeat constructor.
Qed.

Lemma task_error_outn now t e r a a' o : ms_task_error now t e r a = (a', o) -> Forall out_neutral o.
Proof.
  unfold ms_task_error.
  destruct t as [| m | m | m | m | id m | tst [p|] | m tok | tok | [p|]];
    try solve [intros H; inversion H; subst; repeat constructor].
  - destruct (match e with MsEIin2 => _ | _ => _ end); intros H; inversion H; subst; repeat constructor.
  - destruct e; intros H; inversion H; subst; repeat constructor.
  - destruct e; intros H; inversion H; subst; repeat constructor.
Qed.

Lemma read_complete_outn now t a a' o : ms_read_complete now t a = (a', o) -> Forall out_neutral o.
Proof.
  unfold ms_read_complete.
  destruct t; intros H; inversion H; subst; repeat constructor.
Qed.

Lemma tsync_report_outn now p r a a' o : ms_tsync_report now p r a = (a', o) -> Forall out_neutral o.
Proof.
  unfold ms_tsync_report. destruct p; [|destruct r]; intros H; inversion H; subst; repeat constructor.
Qed.

Lemma nonread_handle_outn now sys t f a a' o h : ms_nonread_handle now sys t f a = (a', o, h) -> Forall out_neutral o.
Proof.
  unfold ms_nonread_handle.
  destruct t as [| m | m | m | m | id m | tst p | m tok | tok | q];
    try lazymatch goal with
        | |- (_, _, _) = _ -> _ => intros H; inversion H; subst; repeat constructor
        end.
  - destruct (ms_iin_restart f); intros H; inversion H; subst; repeat constructor.
  - assert (R : forall r a1 o1, ms_tsync_report now p r a = (a1, o1) -> Forall out_neutral o1)
      by (intros r a1 o1; apply tsync_report_outn).
    destruct tst as [t0 | ts | ts | ts].
    + destruct (if ms_r_ok f then ms_r_delay f else None) as [d|].
      * destruct (_ <? d).
        { destruct (ms_tsync_report now p (Some MsEBadDelay) a) as [a1 o1] eqn:Er.
          intros H; inversion H; subst. eapply R; exact Er. }
        destruct (ms_system_time sys now) as [stm|].
        { destruct (_ <? _).
          - destruct (ms_tsync_report now p (Some MsEOverflow) a) as [a1 o1] eqn:Er.
            intros H; inversion H; subst. eapply R; exact Er.
          - intros H; inversion H; subst. constructor. }
        destruct (ms_tsync_report now p (Some MsENoSystemTime) a) as [a1 o1] eqn:Er.
        intros H; inversion H; subst. eapply R; exact Er.
      * destruct (ms_tsync_report now p (Some MsEUnexpectedHeaders) a) as [a1 o1] eqn:Er.
        intros H; inversion H; subst. eapply R; exact Er.
    + destruct (ms_has_objects f).
      { destruct (ms_tsync_report now p (Some MsEUnexpectedHeaders) a) as [a1 o1] eqn:Er.
        intros H; inversion H; subst. eapply R; exact Er. }
      destruct (ms_iin_need_time f).
      { destruct (ms_tsync_report now p (Some MsEStillNeedsTime) a) as [a1 o1] eqn:Er.
        intros H; inversion H; subst. eapply R; exact Er. }
      destruct (ms_tsync_report now p None a) as [a1 o1] eqn:Er.
      intros H; inversion H; subst. eapply R; exact Er.
    + destruct (ms_has_objects f).
      { destruct (ms_tsync_report now p (Some MsEUnexpectedHeaders) a) as [a1 o1] eqn:Er.
        intros H; inversion H; subst. eapply R; exact Er. }
      intros H; inversion H; subst. constructor.
    + destruct (ms_has_objects f).
      { destruct (ms_tsync_report now p (Some MsEUnexpectedHeaders) a) as [a1 o1] eqn:Er.
        intros H; inversion H; subst. eapply R; exact Er. }
      destruct (ms_iin_need_time f).
      { destruct (ms_tsync_report now p (Some MsEStillNeedsTime) a) as [a1 o1] eqn:Er.
        intros H; inversion H; subst. eapply R; exact Er. }
      destruct (ms_tsync_report now p None a) as [a1 o1] eqn:Er.
      intros H; inversion H; subst. eapply R; exact Er.
  - destruct (ms_has_objects f); intros H; inversion H; subst; repeat constructor.
Qed.

(* ---- updating one association, with the notification the caller appends ----------------------- *)

Lemma update_assoc_TR2 st addr f extra st' o :
  NoDup (addrs st) ->
  (forall a a' o, f a = (a', o) -> ms_a_addr a = addr -> LS a (o ++ extra) a') ->
  Forall (about addr) extra -> Forall local extra -> (forall acc, hfold HC addr acc extra = acc) ->
  ms_update_assoc st addr f = (st', o) ->
  TR st (o ++ extra) st' /\ ms_m_phase st' = ms_m_phase st.
Proof.
  intros Nd Hf Hab Hl Hc. unfold ms_update_assoc.
  destruct (ms_find_assoc addr (ms_m_assocs st)) as [a|] eqn:E.
  - destruct (f a) as [a1 o1] eqn:Ef. intros H; inversion H; subst; clear H.
    apply find_assoc_some in E as [Ia Ea]. split; [|reflexivity].
    apply put_TR with (a := a); auto.
  - intros H; inversion H; subst; clear H. split; [|reflexivity]. cbn [app].
    apply find_assoc_none in E.
    split; [reflexivity|]. split; [|split].
    + intros a' Ha'. exists a'. repeat split; auto. intros X HX.
      rewrite (hfold_other X addr); [exact HX| |exact Hab].
      intros Heq. apply E. rewrite <- Heq. apply in_map. exact Ha'.
    + intros B HB. destruct (N.eq_dec B addr) as [->|Hne]; [apply Hc|].
      apply (hfold_other HC addr); assumption.
    + intros B. apply cfg_in_local. exact Hl.
Qed.

Lemma touch_TR st addr : NoDup (addrs st) ->
  TR st [] (ms_touch st addr) /\ ms_m_phase (ms_touch st addr) = ms_m_phase st.
Proof.
  intros Nd. unfold ms_touch.
  destruct (ms_update_assoc st addr _) as [st1 o1] eqn:E. cbn [fst].
  assert (o1 = []).
  { unfold ms_update_assoc in E. destruct (ms_find_assoc _ _); inversion E; reflexivity. }
  subst o1.
  apply update_assoc_TR in E; [tauto|exact Nd|].
  intros a a' o H; inversion H; subst. apply LS_link_activity.
Qed.

Lemma touch_INVA st h addr : INVA st h -> INVA (ms_touch st addr) h.
Proof.
  intros I0. destruct (touch_TR st addr (inv_nodup _ _ I0)) as [T _].
  pose proof (TR_INVA _ _ _ _ I0 T) as I1. rewrite app_nil_r in I1. exact I1.
Qed.

Lemma INVP_phase st st' h : ms_m_phase st' = ms_m_phase st -> INVP st' h <-> INVP st h.
Proof. unfold INVP. intros ->. tauto. Qed.

(* an unsolicited response is handled without leaving the state the session is in *)
Lemma unsolicited_stay st h src f st1 o1 :
  INVA st h -> ms_unsolicited st src f = (st1, o1) ->
  INVA st1 (h ++ o1) /\ ms_m_phase st1 = ms_m_phase st /\ Forall local o1 /\ Forall out_neutral o1.
Proof.
  intros I0. unfold ms_unsolicited. intros E.
  assert (On : Forall out_neutral o1).
  { unfold ms_update_assoc in E. destruct (ms_find_assoc src (ms_m_assocs st)) as [a|]; [|inversion E; constructor].
    destruct (ms_handle_unsolicited (ms_m_now st) f a) as [a1 o] eqn:Eh. inversion E; subst.
    eapply handle_unsolicited_outn; exact Eh. }
  apply update_assoc_TR in E; [|exact (inv_nodup _ _ I0)|intros a a' o; apply handle_unsolicited_LS].
  destruct E as (T & P & L). split; [eapply TR_INVA; eassumption|]. auto.
Qed.

(* after a completion has been recorded in the history, back to the top of the run loop *)
Lemma complete_OK st1 h o1 st' o2 :
  INVA st1 (h ++ o1) -> Forall nostart o1 -> outstanding (h ++ o1) = false ->
  ms_task_done st1 = (st', o2) -> OKR h st' (o1 ++ o2).
Proof.
  intros I1 Ns Out. unfold ms_task_done. intros E.
  apply schedule_OK with (h := h ++ o1) in E; [|apply INVA_phase; exact I1|exact Out].
  destruct E as (I2 & P2 & G2). split.
  - rewrite app_assoc. split; assumption.
  - apply GOOD_app; [apply GOOD_nostart; exact Ns|exact G2].
Qed.

Lemma fail_task_OK st h dest t k e r st' o :
  INVA st h -> k = ms_task_type t -> ms_fail_task st dest t k e r = (st', o) -> OKR h st' o.
Proof.
  intros I0 Hk. unfold ms_fail_task.
  destruct (ms_update_assoc st dest _) as [st1 o1] eqn:Eu.
  destruct (ms_task_done st1) as [st2 o2] eqn:Ed.
  intros H; inversion H; subst; clear H.
  assert (L1 : Forall local o1 /\ Forall out_neutral o1).
  { unfold ms_update_assoc in Eu. destruct (ms_find_assoc dest (ms_m_assocs st)) as [a|]; [|inversion Eu; split; constructor].
    destruct (ms_task_error (ms_m_now st) t e r a) as [a1 ox] eqn:Ee. inversion Eu; subst.
    split; [|eapply task_error_outn; exact Ee].
    pose proof (task_error_LS _ _ _ _ _ _ _ Ee) as (_ & _ & _ & _ & LL).
    apply Forall_app in LL as [LL _]. exact LL. }
  apply update_assoc_TR2 with (extra := [MsOFail (ms_m_now st) dest (ms_task_type t) e]) in Eu.
  - destruct Eu as [T P].
    assert (Hre : o1 ++ MsOFail (ms_m_now st) dest (ms_task_type t) e :: o2
                  = (o1 ++ [MsOFail (ms_m_now st) dest (ms_task_type t) e]) ++ o2)
      by (rewrite <- app_assoc; reflexivity).
    cbn [app]. rewrite Hre.
    apply (complete_OK st1 h (o1 ++ [MsOFail (ms_m_now st) dest (ms_task_type t) e]) st' o2).
    + exact (TR_INVA _ _ _ _ I0 T).
    + apply Forall_app. split; [apply local_nostart; tauto|repeat constructor].
    + rewrite app_assoc, outstanding_snoc. reflexivity.
    + exact Ed.
  - exact (inv_nodup _ _ I0).
  - intros a a' ox Hx Ha. subst dest. eapply task_error_LS. exact Hx.
  - repeat constructor.
  - repeat constructor.
  - intros acc. unfold hfold. cbn [fold_left]. unfold hstep. cbn [obs_effect].
    destruct e; try reflexivity. destruct (N.eqb dest dest); [destruct (ms_task_type t)|]; reflexivity.
Qed.

Lemma stay_OK st1 h o1 : INVA st1 (h ++ o1) -> INVP st1 (h ++ o1) -> Forall nostart o1 -> OKR h st1 o1.
Proof. intros I1 P1 N1. split; [split; assumption|apply GOOD_nostart; exact N1]. Qed.

Lemma send_request_spec st addr t st2 o2 s :
  NoDup (addrs st) -> ms_send_request st addr t = (st2, o2, s) ->
  TR st [] st2 /\ ms_m_phase st2 = ms_m_phase st /\ Forall quiet o2 /\ Forall nostart o2.
Proof.
  intros Nd. unfold ms_send_request.
  destruct (ms_find_assoc addr (ms_m_assocs st)) as [a|] eqn:Ef; intros H; inversion H; subst; clear H.
  - apply find_assoc_some in Ef as [Ia _].
    split; [apply put_TR with (a := a); [exact Nd|exact Ia|apply LS_set_seq]|].
    split; [reflexivity|]. split; repeat constructor.
  - split; [apply TR_refl|]. split; [reflexivity|]. split; constructor.
Qed.

Lemma quiet_confirm (c : bool) x : quiet x -> Forall quiet (if c then [x] else []).
Proof. intros Q. destruct c; [constructor; [exact Q|constructor]|constructor]. Qed.

Lemma INVP_run st h r : ms_m_phase st = MsPRun r ->
  match r with MsRNonRead _ t k _ _ _ => k = ms_task_type t | _ => True end -> INVP st h.
Proof. unfold INVP. intros -> H. destruct r; auto. Qed.

Lemma rx_nonread_OK st h dest t k fc0 seq dl src r st' o :
  INVA st h -> ms_m_phase st = MsPRun (MsRNonRead dest t k fc0 seq dl) -> k = ms_task_type t ->
  ms_rx_nonread st dest t k fc0 seq dl src r = (st', o) -> OKR h st' o.
Proof.
  intros I0 Ph Hk. subst k. unfold ms_rx_nonread. destruct r as [|f].
  { apply fail_task_OK; [assumption|reflexivity]. }
  pose proof (touch_INVA st h src I0) as It.
  destruct (touch_TR st src (inv_nodup _ _ I0)) as [_ Pt]. rewrite Ph in Pt.
  set (st0 := ms_touch st src) in *.
  destruct (ms_r_uns f).
  { intros E. destruct (unsolicited_stay _ _ _ _ _ _ It E) as (I1 & P1 & L1 & _).
    apply stay_OK; [exact I1| |apply local_nostart; exact L1].
    eapply INVP_run; [rewrite P1; exact Pt|reflexivity]. }
  destruct (negb (N.eqb src dest)).
  { intros H; inversion H; subst. apply stay_OK; [rewrite app_nil_r; exact It| |constructor].
    eapply INVP_run; [exact Pt|reflexivity]. }
  destruct (negb (N.eqb (ms_r_seq f) seq)).
  { intros H; inversion H; subst. apply stay_OK; [rewrite app_nil_r; exact It| |constructor].
    eapply INVP_run; [exact Pt|reflexivity]. }
  destruct (negb (ms_r_fir f && ms_r_fin f)); [apply fail_task_OK; [assumption|reflexivity]|].
  destruct (ms_iin_bad_request f); [apply fail_task_OK; [assumption|reflexivity]|].
  destruct (ms_find_assoc dest (ms_m_assocs st0)) as [a|] eqn:Ef.
  2:{ intros H; inversion H; subst. apply stay_OK; [rewrite app_nil_r; exact It| |constructor].
      eapply INVP_run; [exact Pt|reflexivity]. }
  pose proof (find_assoc_some _ _ _ Ef) as [Ia Ea].
  destruct (ms_process_iin (ms_m_now st) f a) as [a1 seen] eqn:Ep.
  pose proof (process_iin_LS _ _ _ _ _ Ep) as L1.
  pose proof (process_iin_outn _ _ _ _ _ Ep) as On1.
  destruct (ms_nonread_handle (ms_m_now st) (ms_m_systime st0) t f a1) as [[a2 oh] hd] eqn:Eh.
  pose proof (nonread_handle_outn _ _ _ _ _ _ _ _ Eh) as On2.
  destruct (nonread_handle_LS _ _ _ _ fc0 seq _ _ _ _ Eh) as [L2 Ty].
  assert (Ea1 : ms_a_addr a1 = dest) by (destruct L1 as (A & _); congruence).
  rewrite Ea1 in L2.
  set (conf := if ms_r_con f then [MsOTx (ms_m_now st) (ms_confirm_sol_bytes seq)] else []) in *.
  assert (Qc : Forall neutral conf) by (subst conf; destruct (ms_r_con f); neutral_tac).
  assert (Oc : Forall out_neutral conf) by (subst conf; destruct (ms_r_con f); repeat constructor).
  (* the association after the response, related to the one before by all observations up to the
     notification *)
  pose proof (LS_neutral_app _ _ _ _ Qc (LS_trans _ _ _ _ _ L1 L2)) as L.
  pose proof (put_TR st0 a _ a2 (inv_nodup _ _ It) Ia L) as T.
  pose proof (TR_INVA _ _ _ _ It T) as I1.
  set (st1 := ms_set_assocs st0 (ms_put_assoc a2 (ms_m_assocs st0))) in *.
  assert (Loc : Forall local (conf ++ seen ++ oh ++ handled_obs (ms_m_now st) dest t fc0 seq hd))
    by (destruct L as (_ & _ & _ & _ & LL); exact LL).
  destruct hd as [t'| |e]; cbn [handled_obs] in *.
  - (* the task continues with another request *)
    destruct (ms_send_request st1 dest t') as [[st2 o2] s] eqn:Es.
    assert (Nd1 : NoDup (addrs st1)) by (exact (inv_nodup _ _ I1)).
    destruct (send_request_spec _ _ _ _ _ _ Nd1 Es) as (T2 & P2 & Q2 & N2).
    intros H; injection H as <- <-.
    rewrite app_nil_r in *.
    match goal with |- OKR _ _ ?l =>
      assert (Hre : l = (conf ++ seen ++ oh) ++ o2) by (rewrite <- !app_assoc; reflexivity);
      rewrite Hre; clear Hre end.
    apply stay_OK.
    + apply INVA_phase. rewrite app_assoc. apply INVA_quiet; [|exact Q2].
      pose proof (TR_INVA _ _ _ _ I1 T2) as I2. rewrite app_nil_r in I2. exact I2.
    + unfold INVP. cbn. congruence.
    + apply Forall_app; split; [apply local_nostart; exact Loc|exact N2].
  - (* completed *)
    destruct (ms_task_done st1) as [st2 o2] eqn:Ed.
    intros H; injection H as <- <-.
    match goal with |- OKR _ _ ?l =>
      assert (Hre : l = (conf ++ seen ++ oh ++ [MsOOk (ms_m_now st) dest (ms_task_type t) fc0 seq]) ++ o2)
        by (rewrite <- !app_assoc; reflexivity);
      rewrite Hre; clear Hre end.
    eapply complete_OK; [exact I1|apply local_nostart; exact Loc| |exact Ed].
    rewrite !app_assoc, outstanding_snoc. reflexivity.
  - destruct (ms_task_done st1) as [st2 o2] eqn:Ed.
    intros H; injection H as <- <-.
    match goal with |- OKR _ _ ?l =>
      assert (Hre : l = (conf ++ seen ++ oh ++ [MsOFail (ms_m_now st) dest (ms_task_type t) e]) ++ o2)
        by (rewrite <- !app_assoc; reflexivity);
      rewrite Hre; clear Hre end.
    eapply complete_OK; [exact I1|apply local_nostart; exact Loc| |exact Ed].
    rewrite !app_assoc, outstanding_snoc. reflexivity.
Qed.

Lemma rx_read_OK st h dest t seq first dl src r st' o :
  INVA st h -> ms_m_phase st = MsPRun (MsRRead dest t seq first dl) ->
  ms_rx_read st dest t seq first dl src r = (st', o) -> OKR h st' o.
Proof.
  intros I0 Ph. unfold ms_rx_read. destruct r as [|f].
  { apply fail_task_OK; [assumption|reflexivity]. }
  pose proof (touch_INVA st h src I0) as It.
  destruct (touch_TR st src (inv_nodup _ _ I0)) as [_ Pt]. rewrite Ph in Pt.
  set (st0 := ms_touch st src) in *.
  assert (Stay : OKR h st0 []).
  { apply stay_OK; [rewrite app_nil_r; exact It| |constructor]. eapply INVP_run; [exact Pt|exact I]. }
  destruct (ms_r_uns f).
  { intros E. destruct (unsolicited_stay _ _ _ _ _ _ It E) as (I1 & P1 & L1 & _).
    apply stay_OK; [exact I1| |apply local_nostart; exact L1].
    eapply INVP_run; [rewrite P1; exact Pt|exact I]. }
  destruct (negb (N.eqb src dest)); [intros H; injection H as <- <-; exact Stay|].
  destruct (negb (N.eqb (ms_r_seq f) seq)); [intros H; injection H as <- <-; exact Stay|].
  destruct (ms_r_fir f && negb first); [apply fail_task_OK; [assumption|reflexivity]|].
  destruct (negb (ms_r_fir f) && first); [apply fail_task_OK; [assumption|reflexivity]|].
  destruct (negb (ms_r_fin f) && negb (ms_r_con f)); [apply fail_task_OK; [assumption|reflexivity]|].
  destruct (ms_iin_bad_request f); [apply fail_task_OK; [assumption|reflexivity]|].
  destruct (ms_find_assoc dest (ms_m_assocs st0)) as [a|] eqn:Ef; [|intros H; injection H as <- <-; exact Stay].
  pose proof (find_assoc_some _ _ _ Ef) as [Ia Ea].
  destruct (ms_process_iin (ms_m_now st) f a) as [a1 seen] eqn:Ep.
  pose proof (process_iin_LS _ _ _ _ _ Ep) as L1.
  assert (Ea1 : ms_a_addr a1 = dest) by (destruct L1 as (A & _); congruence).
  pose proof (put_TR st0 a _ a1 (inv_nodup _ _ It) Ia L1) as T1.
  pose proof (TR_INVA _ _ _ _ It T1) as I1.
  set (st1 := ms_set_assocs st0 (ms_put_assoc a1 (ms_m_assocs st0))) in *.
  assert (Ls : Forall local seen) by (destruct L1 as (_ & _ & _ & _ & LL); exact LL).
  destruct (negb (ms_r_ok f)).
  { destruct (ms_fail_task st1 dest t (ms_task_type t) MsEMalformed false) as [st3 o3] eqn:Efl.
    intros H; injection H as <- <-.
    apply fail_task_OK with (h := h ++ seen) in Efl; [|exact I1|reflexivity].
    destruct Efl as [[I3 P3] G3]. split; [rewrite app_assoc; split; assumption|].
    apply GOOD_app; [apply GOOD_nostart, local_nostart; exact Ls|exact G3]. }
  set (conf := if ms_r_con f then [MsOTx (ms_m_now st) (ms_confirm_sol_bytes seq)] else []) in *.
  assert (Qc : Forall neutral conf) by (subst conf; destruct (ms_r_con f); neutral_tac).
  set (cb := MsOCb (ms_m_now st) dest (ms_read_type t) (ms_r_nvalues f)) in *.
  assert (Qd : Forall neutral (cb :: conf)) by (constructor; [split; [intros ? ?; reflexivity|exact I]|exact Qc]).
  destruct (ms_r_fin f).
  - (* last fragment: the read completes *)
    destruct (ms_update_assoc st1 dest (ms_read_complete (ms_m_now st) t)) as [st2 oc] eqn:Eu.
    destruct (ms_task_done st2) as [st3 o3] eqn:Ed.
    intros H; injection H as <- <-.
    assert (Lc : Forall local oc).
    { unfold ms_update_assoc in Eu. destruct (ms_find_assoc dest (ms_m_assocs st1)) as [b|]; [|inversion Eu; constructor].
      destruct (ms_read_complete (ms_m_now st) t b) as [b1 ox] eqn:Er. inversion Eu; subst.
      pose proof (read_complete_LS _ _ seq _ _ _ Er) as (_ & _ & _ & _ & LL).
      apply Forall_app in LL as [LL _]. exact LL. }
    apply update_assoc_TR2 with (extra := [MsOOk (ms_m_now st) dest (ms_task_type t) 1%N seq]) in Eu.
    2: exact (inv_nodup _ _ I1).
    2:{ intros b b' ox Hx Hb. rewrite <- Hb. eapply read_complete_LS. exact Hx. }
    2: repeat constructor.
    2: repeat constructor.
    2:{ intros acc. unfold hfold. cbn [fold_left]. unfold hstep. cbn [obs_effect].
        destruct (N.eqb dest dest); [destruct (ms_task_type t)|]; reflexivity. }
    destruct Eu as [T2 P2].
    pose proof (INVA_quiet _ _ _ I1 (neutral_quiet _ Qd)) as I1'.
    pose proof (TR_INVA _ _ _ _ I1' T2) as I2.
    match goal with |- OKR _ _ ?l =>
      assert (Hre : l = (seen ++ (cb :: conf) ++ oc ++ [MsOOk (ms_m_now st) dest (ms_task_type t) 1%N seq]) ++ o3)
        by (repeat first [rewrite <- app_assoc | rewrite <- app_comm_cons | progress cbn [app]]; reflexivity);
      rewrite Hre; clear Hre end.
    eapply complete_OK; [| | |exact Ed].
    + match goal with |- INVA _ ?l => match type of I2 with INVA _ ?l2 =>
        assert (Hl : l = l2)
          by (repeat first [rewrite <- app_assoc | rewrite <- app_comm_cons | progress cbn [app]]; reflexivity);
        rewrite Hl; exact I2 end end.
    + apply Forall_app; split; [apply local_nostart; exact Ls|].
      apply Forall_app; split; [apply local_nostart, neutral_local; exact Qd|].
      apply Forall_app; split; [apply local_nostart; exact Lc|repeat constructor].
    + rewrite !app_assoc, outstanding_snoc. reflexivity.
  - (* another fragment is expected *)
    intros H; injection H as <- <-.
    match goal with |- OKR _ _ ?l =>
      assert (Hre : l = seen ++ (cb :: conf)) by (repeat first [rewrite <- app_assoc | rewrite <- app_comm_cons | progress cbn [app]]; reflexivity);
      rewrite Hre; clear Hre end.
    apply stay_OK.
    + apply INVA_phase. rewrite app_assoc. apply INVA_quiet; [|apply neutral_quiet; exact Qd].
      assert (Ia1 : In a1 (ms_m_assocs st1)).
      { cbn. clear - Ia Ea1 Ea. assert (Hin : In (ms_a_addr a1) (map ms_a_addr (ms_m_assocs st0))).
        { rewrite Ea1, <- Ea. apply in_map. exact Ia. }
        pose proof (find_put _ a1 _ Hin eq_refl) as F. apply find_assoc_some in F as [F _]. exact F. }
      pose proof (put_TR st1 a1 [] _ (inv_nodup _ _ I1) Ia1 (LS_set_seq a1 (ms_seq_next (ms_a_seq a1)))) as T2.
      pose proof (TR_INVA _ _ _ _ I1 T2) as I2. rewrite app_nil_r in I2. exact I2.
    + exact I.
    + apply Forall_app; split; [apply local_nostart; exact Ls|apply local_nostart, neutral_local; exact Qd].
Qed.

Lemma INV_same st st' h : ms_m_assocs st' = ms_m_assocs st -> ms_m_phase st' = ms_m_phase st ->
  INV st h -> INV st' h.
Proof.
  intros EA EP [[Nd Fl Un Cf] P]. split.
  - constructor; unfold addrs in *; rewrite ?EA; assumption.
  - unfold INVP in *. rewrite EP. exact P.
Qed.

Lemma OKR_nil st h : INV st h -> OKR h st [].
Proof. intros I0. split; [rewrite app_nil_r; exact I0|apply GOOD_nil]. Qed.

Definition link_res (now : ms_time) (dest : N) (p : option N) (e : ms_err) : list ms_obs :=
  match p with Some tok => [MsORes now tok (Some e)] | None => [] end ++ [MsOLinkEnd now dest].

Lemma link_res_quiet now dest p e : Forall quiet (link_res now dest p e).
Proof. unfold link_res. destruct p; repeat constructor. Qed.
Lemma link_res_nostart now dest p e : Forall nostart (link_res now dest p e).
Proof. unfold link_res. destruct p; repeat constructor. Qed.
Lemma link_res_out h now dest p e : outstanding (h ++ link_res now dest p e) = false.
Proof. unfold link_res. rewrite app_assoc, outstanding_snoc. reflexivity. Qed.

Lemma rx_link_OK st h dest p src r st' o :
  INVA st h -> ms_rx_link st dest p src r = (st', o) -> OKR h st' o.
Proof.
  intros I0. unfold ms_rx_link.
  change (match p with Some tok => [MsORes (ms_m_now st) tok (Some MsEUnexpectedHeaders)] | None => [] end
          ++ [MsOLinkEnd (ms_m_now st) dest]) with (link_res (ms_m_now st) dest p MsEUnexpectedHeaders).
  set (res := link_res (ms_m_now st) dest p MsEUnexpectedHeaders).
  destruct r as [|f].
  - destruct (ms_task_done st) as [st1 o1] eqn:Ed. intros H; injection H as <- <-.
    eapply complete_OK; [apply INVA_quiet; [exact I0|apply link_res_quiet]|apply link_res_nostart
                        |apply link_res_out|exact Ed].
  - pose proof (touch_INVA st h src I0) as It. set (st0 := ms_touch st src) in *.
    destruct (if ms_r_uns f then ms_unsolicited st0 src f else (st0, [])) as [st1 o1] eqn:Eu.
    assert (U : INVA st1 (h ++ o1) /\ Forall local o1).
    { destruct (ms_r_uns f).
      - destruct (unsolicited_stay _ _ _ _ _ _ It Eu) as (I1 & _ & L1 & _). split; assumption.
      - inversion Eu; subst. rewrite app_nil_r. split; [exact It|constructor]. }
    destruct U as [I1 L1].
    destruct (ms_task_done st1) as [st2 o2] eqn:Ed. intros H; injection H as <- <-.
    rewrite app_assoc.
    eapply complete_OK; [| | |exact Ed].
    + rewrite app_assoc. apply INVA_quiet; [exact I1|apply link_res_quiet].
    + apply Forall_app; split; [apply local_nostart; exact L1|apply link_res_nostart].
    + rewrite app_assoc. apply link_res_out.
Qed.

Lemma rx_idle_OK st h src r st' o :
  INVA st h -> outstanding h = false -> ms_rx_idle st src r = (st', o) -> OKR h st' o.
Proof.
  intros I0 Out. unfold ms_rx_idle. destruct r as [|f].
  - intros Ed. rewrite <- (app_nil_l o).
    eapply complete_OK; [rewrite app_nil_r; exact I0|constructor|rewrite app_nil_r; exact Out|exact Ed].
  - pose proof (touch_INVA st h src I0) as It. set (st0 := ms_touch st src) in *.
    destruct (if ms_r_uns f then ms_unsolicited st0 src f else (st0, [])) as [st1 o1] eqn:Eu.
    assert (U : INVA st1 (h ++ o1) /\ Forall local o1 /\ Forall out_neutral o1).
    { destruct (ms_r_uns f).
      - destruct (unsolicited_stay _ _ _ _ _ _ It Eu) as (I1 & _ & L1 & N1). auto.
      - inversion Eu; subst. rewrite app_nil_r. split; [exact It|split; constructor]. }
    destruct U as (I1 & L1 & N1).
    destruct (ms_task_done st1) as [st2 o2] eqn:Ed. intros H; injection H as <- <-.
    eapply complete_OK; [exact I1|apply local_nostart; exact L1| |exact Ed].
    rewrite outstanding_app_neutral; assumption.
Qed.

Lemma on_rx_OK st h src r st' o : INV st h -> ms_on_rx st src r = (st', o) -> OKR h st' o.
Proof.
  intros [I0 P0]. unfold ms_on_rx. unfold INVP in P0.
  destruct (ms_m_phase st) as [|u|[dest t k fc0 seq dl|dest t seq first dl|dest p dl]|] eqn:Ph.
  - intros H; injection H as <- <-. apply OKR_nil. split; [exact I0|unfold INVP; rewrite Ph; exact P0].
  - apply rx_idle_OK; assumption.
  - eapply rx_nonread_OK; eassumption.
  - eapply rx_read_OK; eassumption.
  - apply rx_link_OK; assumption.
  - intros H; injection H as <- <-. apply OKR_nil. split; [exact I0|unfold INVP; rewrite Ph; exact I].
Qed.

Lemma fire_OK st h st' o : INV st h -> ms_fire st = (st', o) -> OKR h st' o.
Proof.
  intros [I0 P0]. unfold ms_fire. unfold INVP in P0.
  destruct (ms_m_phase st) as [|u|[dest t k fc0 seq dl|dest t seq first dl|dest p dl]|] eqn:Ph.
  - intros H; injection H as <- <-. apply OKR_nil. split; [exact I0|unfold INVP; rewrite Ph; exact P0].
  - intros Ed. rewrite <- (app_nil_l o).
    eapply complete_OK; [rewrite app_nil_r; exact I0|constructor|rewrite app_nil_r; exact P0|exact Ed].
  - apply fail_task_OK; assumption.
  - apply fail_task_OK; [assumption|reflexivity].
  - change (match p with Some tok => [MsORes (ms_m_now st) tok (Some MsETimeout)] | None => [] end
            ++ [MsOLinkEnd (ms_m_now st) dest]) with (link_res (ms_m_now st) dest p MsETimeout).
    destruct (ms_task_done st) as [st1 o1] eqn:Ed. intros H; injection H as <- <-.
    eapply complete_OK; [apply INVA_quiet; [exact I0|apply link_res_quiet]|apply link_res_nostart
                        |apply link_res_out|exact Ed].
  - intros H; injection H as <- <-. apply OKR_nil. split; [exact I0|unfold INVP; rewrite Ph; exact I].
Qed.

Lemma OKR_seq h st1 o1 st2 o2 : OKR h st1 o1 -> OKR (h ++ o1) st2 o2 -> OKR h st2 (o1 ++ o2).
Proof.
  intros [I1 G1] [I2 G2]. split; [rewrite app_assoc; exact I2|apply GOOD_app; assumption].
Qed.

Lemma advance_OK fuel : forall target st h st' o,
  INV st h -> ms_advance fuel target st = (st', o) -> OKR h st' o.
Proof.
  induction fuel as [|k IH]; intros target st h st' o I0; cbn [ms_advance].
  - intros H; injection H as <- <-. split; [|apply GOOD_nostart; repeat constructor].
    destruct I0 as [IA _]. split.
    + apply INVA_quiet; [apply INVA_phase; exact IA|repeat constructor].
    + exact I.
  - destruct (ms_deadline_of st) as [dl|].
    + destruct (dl <=? target).
      * destruct (ms_fire (ms_set_now st dl)) as [st1 o1] eqn:Ef.
        destruct (ms_advance k target st1) as [st2 o2] eqn:Ea.
        intros H; injection H as <- <-.
        assert (I0' : INV (ms_set_now st dl) h) by (eapply INV_same; [| |exact I0]; reflexivity).
        pose proof (fire_OK _ _ _ _ I0' Ef) as O1.
        eapply OKR_seq; [exact O1|]. eapply IH; [exact (proj1 O1)|exact Ea].
      * intros H; injection H as <- <-. apply OKR_nil. eapply INV_same; [| |exact I0]; reflexivity.
    + intros H; injection H as <- <-. apply OKR_nil. eapply INV_same; [| |exact I0]; reflexivity.
Qed.

Lemma after_message_OK st h st' o : INV st h -> ms_after_message st = (st', o) -> OKR h st' o.
Proof.
  intros [I0 P0]. unfold ms_after_message. unfold INVP in P0.
  destruct (ms_m_phase st) as [|u|r|] eqn:Ph.
  - intros H; injection H as <- <-. apply OKR_nil. split; [exact I0|unfold INVP; rewrite Ph; exact P0].
  - intros Ed. rewrite <- (app_nil_l o).
    eapply complete_OK; [rewrite app_nil_r; exact I0|constructor|rewrite app_nil_r; exact P0|exact Ed].
  - intros H; injection H as <- <-. apply OKR_nil. split; [exact I0|unfold INVP; rewrite Ph; exact P0].
  - intros H; injection H as <- <-. apply OKR_nil. split; [exact I0|unfold INVP; rewrite Ph; exact I].
Qed.

(* ---- losing and regaining the connection ---------------------------------------------------------- *)

Lemma fail_queue_res now e a : Forall is_res (ms_fail_queue now e a).
Proof.
  unfold ms_fail_queue. induction (ms_a_queue a) as [|[tok uk] q IH]; [constructor|].
  cbn [map concat]. apply Forall_app; split; [|exact IH].
  destruct uk; cbn; repeat constructor.
Qed.

Lemma reset_all_res st e st' o : ms_reset_all st e = (st', o) -> Forall is_res o /\ ms_m_assocs st' = map ms_assoc_reset (ms_m_assocs st) /\ ms_m_phase st' = ms_m_phase st.
Proof.
  unfold ms_reset_all. intros H; injection H as <- <-. split; [|split; reflexivity].
  induction (ms_m_assocs st) as [|a l IH]; [constructor|]. cbn [map concat].
  apply Forall_app; split; [apply fail_queue_res|exact IH].
Qed.

Lemma fail_running_spec st h e st1 o1 :
  INV st h -> ms_m_phase st <> MsPStalled -> ms_fail_running st e = (st1, o1) ->
  TR st o1 st1 /\ Forall nostart o1 /\ outstanding (h ++ o1) = false.
Proof.
  intros [I0 P0] Hns. unfold ms_fail_running. unfold INVP in P0.
  destruct (ms_m_phase st) as [|u|[dest t k fc0 seq dl|dest t seq first dl|dest p dl]|] eqn:Ph.
  - intros H; injection H as <- <-. split; [apply TR_refl|]. split; [constructor|]. rewrite app_nil_r. exact P0.
  - intros H; injection H as <- <-. split; [apply TR_refl|]. split; [constructor|]. rewrite app_nil_r. exact P0.
  - subst k. destruct (ms_update_assoc st dest _) as [st2 o2] eqn:Eu. intros H; injection H as <- <-.
    assert (L2 : Forall local o2).
    { unfold ms_update_assoc in Eu. destruct (ms_find_assoc dest (ms_m_assocs st)) as [a|]; [|inversion Eu; constructor].
      destruct (ms_task_error (ms_m_now st) t e false a) as [a1 ox] eqn:Ee. inversion Eu; subst.
      pose proof (task_error_LS _ _ _ _ _ _ _ Ee) as (_ & _ & _ & _ & LL).
      apply Forall_app in LL as [LL _]. exact LL. }
    apply update_assoc_TR2 with (extra := [MsOFail (ms_m_now st) dest (ms_task_type t) e]) in Eu.
    + destruct Eu as [T _]. split; [exact T|]. split.
      * apply Forall_app; split; [apply local_nostart; exact L2|repeat constructor].
      * rewrite app_assoc, outstanding_snoc. reflexivity.
    + exact (inv_nodup _ _ I0).
    + intros a a' ox Hx Ha. subst dest. eapply task_error_LS. exact Hx.
    + repeat constructor.
    + repeat constructor.
    + intros acc. unfold hfold. cbn [fold_left]. unfold hstep. cbn [obs_effect].
      destruct e; try reflexivity. destruct (N.eqb dest dest); [destruct (ms_task_type t)|]; reflexivity.
  - destruct (ms_update_assoc st dest _) as [st2 o2] eqn:Eu. intros H; injection H as <- <-.
    assert (L2 : Forall local o2).
    { unfold ms_update_assoc in Eu. destruct (ms_find_assoc dest (ms_m_assocs st)) as [a|]; [|inversion Eu; constructor].
      destruct (ms_task_error (ms_m_now st) t e false a) as [a1 ox] eqn:Ee. inversion Eu; subst.
      pose proof (task_error_LS _ _ _ _ _ _ _ Ee) as (_ & _ & _ & _ & LL).
      apply Forall_app in LL as [LL _]. exact LL. }
    apply update_assoc_TR2 with (extra := [MsOFail (ms_m_now st) dest (ms_task_type t) e]) in Eu.
    + destruct Eu as [T _]. split; [exact T|]. split.
      * apply Forall_app; split; [apply local_nostart; exact L2|repeat constructor].
      * rewrite app_assoc, outstanding_snoc. reflexivity.
    + exact (inv_nodup _ _ I0).
    + intros a a' ox Hx Ha. subst dest. eapply task_error_LS. exact Hx.
    + repeat constructor.
    + repeat constructor.
    + intros acc. unfold hfold. cbn [fold_left]. unfold hstep. cbn [obs_effect].
      destruct e; try reflexivity. destruct (N.eqb dest dest); [destruct (ms_task_type t)|]; reflexivity.
  - intros H; injection H as <- <-.
    change (match p with Some tok => [MsORes (ms_m_now st) tok (Some e)] | None => [] end
            ++ [MsOLinkEnd (ms_m_now st) dest]) with (link_res (ms_m_now st) dest p e).
    split; [apply TR_quiet, link_res_quiet|]. split; [apply link_res_nostart|apply link_res_out].
  - congruence.
Qed.

Lemma hist_closed X A h t e : hist X A (h ++ [MsOClosed t e]) = match X with HC => true | _ => false end.
Proof. rewrite hist_app. unfold hfold. cbn. unfold hstep. cbn. reflexivity. Qed.

Lemma close_session_OK st h e st' o :
  INV st h -> ms_m_phase st <> MsPStalled -> ms_close_session st e = (st', o) -> OKR h st' o.
Proof.
  intros I0 Hns. unfold ms_close_session.
  destruct (ms_fail_running st e) as [st1 o1] eqn:Ef.
  destruct (ms_reset_all st1 e) as [st2 o2] eqn:Er.
  intros H; injection H as <- <-.
  destruct (fail_running_spec _ _ _ _ _ I0 Hns Ef) as (T1 & N1 & Out1).
  destruct (reset_all_res _ _ _ _ Er) as (R2 & A2 & _).
  destruct I0 as [[Nd Fl Un Cf] P0]. destruct T1 as (TA & TF & TU & TC).
  split; [split|].
  - (* associations *)
    assert (EAd : addrs (ms_set_phase st2 MsPDown) = addrs st).
    { unfold addrs. cbn. rewrite A2, map_map. cbn. exact TA. }
    rewrite !app_assoc. constructor.
    + rewrite EAd. exact Nd.
    + intros a X Ha HX. rewrite hist_closed. cbn in Ha. rewrite A2 in Ha. apply in_map_iff in Ha as (a0 & <- & _).
      destruct X; cbn in HX; try discriminate; reflexivity.
    + intros B HB. rewrite EAd in HB. split; [rewrite hist_closed; reflexivity|].
      rewrite !cfg_in_app. destruct (Un B HB) as [_ ->]. rewrite TC.
      rewrite (cfg_in_quiet o2) by (apply res_quiet; exact R2). reflexivity.
    + intros a Ha. cbn in Ha. rewrite A2 in Ha. apply in_map_iff in Ha as (a1 & <- & Ha1).
      destruct (TF a1 Ha1) as (a0 & Ha0 & E1 & E2 & _). cbn [ms_assoc_reset ms_a_addr ms_a_cfg].
      rewrite <- !app_assoc, cfg_in_app, E1, E2, (Cf a0 Ha0). reflexivity.
  - unfold INVP. cbn. rewrite !app_assoc, outstanding_snoc. cbn [out_step].
    rewrite outstanding_app_neutral; [exact Out1|apply res_out_neutral; exact R2].
  - apply GOOD_nostart. apply Forall_app; split; [exact N1|].
    apply Forall_app; split; [apply res_nostart; exact R2|repeat constructor].
Qed.

Lemma open_session_OK st h st' o :
  INVA st h -> outstanding h = false -> ms_open_session st = (st', o) -> OKR h st' o.
Proof.
  intros I0 Out. unfold ms_open_session.
  destruct (ms_schedule (ms_set_phase st (MsPIdle None))) as [st1 o1] eqn:Es.
  intros H; injection H as <- <-.
  apply schedule_OK with (h := h ++ [MsOConn (ms_m_now st)]) in Es.
  - destruct Es as (I1 & P1 & G1). change (MsOConn (ms_m_now st) :: o1) with ([MsOConn (ms_m_now st)] ++ o1).
    split; [rewrite app_assoc; split; assumption|].
    apply GOOD_app; [apply GOOD_nostart; repeat constructor|exact G1].
  - apply INVA_phase. apply INVA_quiet; [exact I0|repeat constructor].
  - rewrite outstanding_app_neutral; [exact Out|repeat constructor].
Qed.

(* ---- messages of the user API ------------------------------------------------------------------------ *)

Lemma insert_assoc_in a l x : In x (ms_insert_assoc a l) <-> x = a \/ In x l.
Proof.
  induction l as [|y l IH]; cbn [ms_insert_assoc].
  - cbn. intuition.
  - destruct (N.ltb (ms_a_addr a) (ms_a_addr y)); cbn [In] in *; intuition.
Qed.

Lemma insert_assoc_nodup a l : NoDup (map ms_a_addr l) -> ~ In (ms_a_addr a) (map ms_a_addr l) ->
  NoDup (map ms_a_addr (ms_insert_assoc a l)).
Proof.
  induction l as [|y l IH]; cbn [ms_insert_assoc map]; intros Nd Hn.
  - constructor; [intros []|constructor].
  - destruct (N.ltb (ms_a_addr a) (ms_a_addr y)); cbn [map].
    + constructor; assumption.
    + inversion Nd as [|? ? Hy Nd']; subst. constructor.
      * intros Hin. apply in_map_iff in Hin as (z & Ez & Hz). apply insert_assoc_in in Hz as [->|Hz].
        -- apply Hn. left. congruence.
        -- apply Hy. rewrite <- Ez. apply in_map. exact Hz.
      * apply IH; [exact Nd'|]. intros Hin. apply Hn. right. exact Hin.
Qed.

Lemma insert_assoc_addrs a l B : In B (map ms_a_addr (ms_insert_assoc a l)) <-> B = ms_a_addr a \/ In B (map ms_a_addr l).
Proof.
  split.
  - intros H. apply in_map_iff in H as (x & Ex & Hx). apply insert_assoc_in in Hx as [->|Hx]; [left; congruence|].
    right. apply in_map_iff. exists x. split; assumption.
  - intros [->|H].
    + apply in_map_iff. exists a. split; [reflexivity|apply insert_assoc_in; left; reflexivity].
    + apply in_map_iff in H as (x & Ex & Hx). apply in_map_iff.
      exists x. split; [exact Ex|apply insert_assoc_in; right; exact Hx].
Qed.

Lemma hist_quiet1 X A h x : quiet x -> hist X A (h ++ [x]) = hist X A h.
Proof. intros Q. rewrite hist_app. apply hfold_quiet. constructor; [exact Q|constructor]. Qed.

Lemma add_assoc_INV st h addr c :
  INV st h -> ms_find_assoc addr (ms_m_assocs st) = None ->
  INV (ms_set_ring (ms_set_assocs st (ms_insert_assoc (ms_assoc_new addr c (ms_m_now st)) (ms_m_assocs st)))
                   (ms_m_ring st ++ [addr]))
      (h ++ [MsOAssoc (ms_m_now st) addr c]).
Proof.
  intros [[Nd Fl Un Cf] P0] Hf. apply find_assoc_none in Hf.
  set (a0 := ms_assoc_new addr c (ms_m_now st)).
  assert (Eq : forall X A, hist X A (h ++ [MsOAssoc (ms_m_now st) addr c]) = hist X A h).
  { intros X A. rewrite hist_app. reflexivity. }
  split.
  - constructor.
    + unfold addrs. cbn. apply insert_assoc_nodup; assumption.
    + intros a X Ha HX. cbn in Ha. apply insert_assoc_in in Ha as [->|Ha]; rewrite Eq.
      * destruct X; cbn in HX; try discriminate. exact (proj1 (Un addr Hf)).
      * apply Fl; assumption.
    + intros B HB. unfold addrs in HB. cbn in HB. rewrite insert_assoc_addrs in HB. cbn in HB.
      assert (HB1 : B <> addr) by tauto. assert (HB2 : ~ In B (addrs st)) by (unfold addrs; tauto).
      destruct (Un B HB2) as [U1 U2]. split; [rewrite Eq; exact U1|].
      rewrite cfg_in_app, U2. cbn. destruct (N.eqb addr B) eqn:E; [apply N.eqb_eq in E; congruence|reflexivity].
    + intros a Ha. cbn in Ha. apply insert_assoc_in in Ha as [->|Ha]; rewrite cfg_in_app.
      * change (ms_a_addr a0) with addr. change (ms_a_cfg a0) with c.
        rewrite (proj2 (Un addr Hf)). cbn. rewrite N.eqb_refl. reflexivity.
      * rewrite (Cf a Ha). reflexivity.
  - unfold INVP in *. cbn. destruct (ms_m_phase st) as [|u|r|]; auto;
      rewrite outstanding_app_neutral; auto; repeat constructor.
Qed.

Lemma queue_task_LS now con tok uk a : forall a' o, ms_queue_task now con tok uk a = (a', o) ->
  LS a o a' /\ Forall out_neutral o.
Proof.
  intros a' o. unfold ms_queue_task.
  assert (U : forall e, ms_task_error now (ms_user_task tok uk) e false a = (a', o) ->
              LS a o a' /\ Forall out_neutral o).
  { intros e. destruct uk; cbn; intros H; inversion H; subst;
      (split; [apply LS_neutral; auto; neutral_tac|repeat constructor]). }
  destruct con; [destruct (Nat.ltb _ _)|]; try apply U.
  intros H; inversion H; subst. split; [apply LS_set_queue|constructor].
Qed.

Lemma upd_msg_OK st h addr f st' o :
  INV st h -> (forall a a' o, f a = (a', o) -> LS a o a' /\ Forall out_neutral o) ->
  (let '(st1, o1) := ms_update_assoc st addr f in
   let '(st2, o2) := ms_after_message st1 in (st2, o1 ++ o2)) = (st', o) -> OKR h st' o.
Proof.
  intros [I0 P0] Hf. destruct (ms_update_assoc st addr f) as [st1 o1] eqn:Eu.
  destruct (ms_after_message st1) as [st2 o2] eqn:Em. intros H; injection H as <- <-.
  assert (On : Forall out_neutral o1).
  { unfold ms_update_assoc in Eu. destruct (ms_find_assoc addr (ms_m_assocs st)) as [a|]; [|inversion Eu; constructor].
    destruct (f a) as [a1 ox] eqn:Ef. inversion Eu; subst. exact (proj2 (Hf _ _ _ Ef)). }
  apply update_assoc_TR in Eu; [|exact (inv_nodup _ _ I0)|intros a a' ox Hx; exact (proj1 (Hf _ _ _ Hx))].
  destruct Eu as (T & Ph & L).
  assert (I1 : INV st1 (h ++ o1)).
  { split; [eapply TR_INVA; eassumption|]. unfold INVP in *. rewrite Ph.
    destruct (ms_m_phase st) as [|u|r|]; auto; rewrite outstanding_app_neutral; auto. }
  eapply OKR_seq; [|eapply after_message_OK; [exact I1|exact Em]].
  split; [exact I1|apply GOOD_nostart, local_nostart; exact L].
Qed.

Theorem mstep_OK fuel st h ev st' o : INV st h -> ms_mstep fuel st ev = (st', o) -> OKR h st' o.
Proof.
  intros I0. unfold ms_mstep.
  destruct (ms_m_phase st) as [|u|r|] eqn:Ph.
  4:{ intros H; injection H as <- <-. apply OKR_nil; exact I0. }
  all: assert (Hns : ms_m_phase st <> MsPStalled) by (rewrite Ph; discriminate).
  all: assert (Hcon : ms_connected st = match ms_m_phase st with MsPDown => false | _ => true end) by reflexivity.
  all: rewrite Ph in Hcon.
  all: destruct ev as [|addr c|src rx|d|a tok uk|a period m|a id| | | |v|].
  all: try (apply advance_OK; exact I0).
  all: try (apply on_rx_OK; exact I0).
  all: try (intros H; injection H as <- <-;
            split; [destruct I0 as [IA IP]; split;
                    [apply INVA_quiet; [exact IA|repeat constructor]
                    |unfold INVP in *; cbn; rewrite Ph in *; cbn in IP |- *;
                     try (rewrite outstanding_app_neutral; [exact IP|repeat constructor]); auto]
                  |apply GOOD_nostart; repeat constructor]; fail).
  all: try (intros H; injection H as <- <-; apply OKR_nil; eapply INV_same; [| |exact I0]; reflexivity).
  all: try (apply upd_msg_OK; [exact I0|];
            first [ intros x x' ox; apply queue_task_LS
                  | intros x x' ox Hx; inversion Hx; subst; split; [apply LS_set_polls|constructor] ]).
  all: try (destruct (ms_find_assoc addr (ms_m_assocs st)) eqn:Ef;
            [intros H; injection H as <- <-; apply OKR_nil; exact I0|];
            match goal with |- context [ms_after_message ?s] => destruct (ms_after_message s) as [st2 o2] eqn:Em end;
            intros H; injection H as <- <-;
            pose proof (add_assoc_INV _ _ addr c I0 Ef) as I1;
            change (MsOAssoc (ms_m_now st) addr c :: o2) with ([MsOAssoc (ms_m_now st) addr c] ++ o2);
            eapply OKR_seq; [split; [exact I1|apply GOOD_nostart; repeat constructor]
                            |eapply after_message_OK; [exact I1|exact Em]]).
  all: unfold ms_connected; rewrite ?Ph; cbn [andb negb].
  all: try (apply close_session_OK; [eapply INV_same; [| |exact I0]; reflexivity|cbn; rewrite Ph; discriminate]).
  all: try (apply after_message_OK; eapply INV_same; [| |exact I0]; reflexivity).
  all: try (destruct (ms_m_enabled st); cbn [andb]).
  all: try (intros H; injection H as <- <-; apply OKR_nil; exact I0).
  all: try (destruct I0 as [IA IP]; unfold INVP in IP; rewrite Ph in IP;
            apply open_session_OK; [constructor; destruct IA; assumption|exact IP]).
  all: try (destruct (ms_close_session st MsELink) as [st1 o1] eqn:Ec;
            destruct (ms_open_session st1) as [st2 o2] eqn:Eo;
            intros H; injection H as <- <-;
            pose proof (close_session_OK _ _ _ _ _ I0 Hns Ec) as O1;
            eapply OKR_seq; [exact O1|];
            destruct O1 as [[IA1 IP1] _];
            assert (Pd : ms_m_phase st1 = MsPDown)
              by (unfold ms_close_session in Ec; destruct (ms_fail_running st MsELink);
                  destruct (ms_reset_all _ _); inversion Ec; reflexivity);
            unfold INVP in IP1; rewrite Pd in IP1;
            apply (open_session_OK st1); [exact IA1|exact IP1|exact Eo]).
  all: try (intros H; injection H as <- <-; apply OKR_nil; eapply INV_same; [| |exact I0]; reflexivity).
Qed.

(* ================================================================================================
   5. Arbitrary event lists
   ================================================================================================ *)

Lemma INV_init : INV ms_m_init [].
Proof.
  split; [constructor|reflexivity].
  - constructor.
  - intros a X [].
  - intros B _. split; reflexivity.
  - intros a [].
Qed.

Theorem run_OK fuel : forall evs st h st' o,
  INV st h -> ms_run fuel st evs = (st', o) -> OKR h st' o.
Proof.
  induction evs as [|e evs IH]; intros st h st' o I0; cbn [ms_run].
  - intros H; injection H as <- <-. apply OKR_nil; exact I0.
  - destruct (ms_mstep fuel st e) as [st1 o1] eqn:Es.
    destruct (ms_run fuel st1 evs) as [st2 o2] eqn:Er.
    intros H; injection H as <- <-.
    pose proof (mstep_OK _ _ _ _ _ _ I0 Es) as O1.
    eapply OKR_seq; [exact O1|]. eapply IH; [exact (proj1 O1)|exact Er].
Qed.

Corollary run_from_init fuel evs st h :
  ms_run fuel ms_m_init evs = (st, h) -> INV st h /\ GOOD [] h.
Proof. intros H. exact (run_OK fuel evs _ [] _ _ INV_init H). Qed.

(* ---- reading the history predicates ---------------------------------------------------------------- *)

(* `hist X A h` holds exactly when the last observation with an effect on X for A establishes it
   (for HC also when there is none) *)
Lemma hfold_false_true X A h : hfold X A false h = true ->
  exists h1 x h2, h = h1 ++ x :: h2 /\ obs_effect X A x = Some true /\
                  Forall (fun y => obs_effect X A y <> Some false) h2.
Proof.
  induction h as [|y h IH] using rev_ind; [discriminate|].
  rewrite hfold_app. unfold hfold at 1. cbn [fold_left]. unfold hstep.
  destruct (obs_effect X A y) as [[|]|] eqn:E.
  - intros _. exists h, y, []. split; [reflexivity|]. split; [exact E|constructor].
  - discriminate.
  - intros H. destruct (IH H) as (h1 & x & h2 & -> & Ex & F).
    exists h1, x, (h2 ++ [y]). split; [rewrite <- app_assoc; reflexivity|]. split; [exact Ex|].
    apply Forall_app; split; [exact F|]. constructor; [congruence|constructor].
Qed.

Lemma hist_established X A h : X <> HC -> hist X A h = true ->
  exists h1 x h2, h = h1 ++ x :: h2 /\ obs_effect X A x = Some true /\
                  Forall (fun y => obs_effect X A y <> Some false) h2.
Proof. intros HX. unfold hist. destruct X; try congruence; apply hfold_false_true. Qed.

(* after a restart indication nothing holds for A until it is established again *)
Lemma hist_after_restart X A h1 t h2 : X <> HD ->
  hist X A (h1 ++ MsORestartSeen t A :: h2) = hfold X A false h2.
Proof.
  intros HX. unfold hist. rewrite hfold_app.
  change (MsORestartSeen t A :: h2) with ([MsORestartSeen t A] ++ h2). rewrite hfold_app.
  f_equal. unfold hfold. cbn [fold_left]. unfold hstep. cbn [obs_effect]. rewrite N.eqb_refl.
  destruct X; try congruence; reflexivity.
Qed.

(* ================================================================================================
   6. C17 — start-up order, restart order, gating of unsolicited data (trace form)
   ================================================================================================ *)

(* every task start in any run happens under the guard of its kind: no request outstanding, and
     DISABLE_UNSOLICITED: every restart indication of this connection has been cleared;
     integrity poll:      that, and DISABLE_UNSOLICITED done in this connection (when configured);
     ENABLE_UNSOLICITED:  that, and the integrity poll completed in this connection and since the
                          last restart indication (when configured);
     event scan, periodic poll, keep-alive: that, and ENABLE_UNSOLICITED done likewise *)
Theorem startup_order : forall fuel evs st h h1 x h2,
  ms_run fuel ms_m_init evs = (st, h) -> h = h1 ++ x :: h2 -> start_guard h1 x.
Proof.
  intros fuel evs st h h1 x h2 Hr Hh. destruct (run_from_init _ _ _ _ Hr) as [_ G].
  exact (G h1 x h2 Hh).
Qed.

Definition no_close (h : list ms_obs) : Prop :=
  Forall (fun y => match y with MsOClosed _ _ => False | _ => True end) h.

Lemma hfold_needs_setter X A h : hfold X A false h = true ->
  exists x, In x h /\ obs_effect X A x = Some true.
Proof.
  intros H. destruct (hfold_false_true _ _ _ H) as (h1 & x & h2 & -> & Ex & _).
  exists x. split; [apply in_or_app; right; left; reflexivity|exact Ex].
Qed.

(* after a restart indication for A, in the same connection: an integrity poll, ENABLE_UNSOLICITED,
   event scan, periodic poll or keep-alive of A starts only after the restart bit was cleared;
   ENABLE_UNSOLICITED moreover only after an integrity poll completed in between, and polls,
   event scans and keep-alives only after ENABLE_UNSOLICITED was done in between as well *)
Theorem restart_order : forall fuel evs st h h1 tr A h2 t k fc s h3 c,
  ms_run fuel ms_m_init evs = (st, h) ->
  h = h1 ++ MsORestartSeen tr A :: h2 ++ MsOStart t A k fc s :: h3 ->
  cfg_in (h1 ++ MsORestartSeen tr A :: h2) A = Some c ->
  match k with
  | MsKDisableUnsol | MsKIntegrity => exists x, In x h2 /\ obs_effect HC A x = Some true
  | MsKEnableUnsol =>
      (exists x, In x h2 /\ obs_effect HC A x = Some true) /\
      (ms_cl_any (ms_c_integrity c) = true -> exists x, In x h2 /\ obs_effect HI A x = Some true)
  | MsKEventScan | MsKPoll =>
      (exists x, In x h2 /\ obs_effect HC A x = Some true) /\
      (ms_cl_any (ms_c_integrity c) = true -> exists x, In x h2 /\ obs_effect HI A x = Some true) /\
      (ms_ev_any (ms_c_enable c) = true -> exists x, In x h2 /\ obs_effect HE A x = Some true)
  | _ => True
  end.
Proof.
  intros fuel evs st h h1 tr A h2 t k fc s h3 c Hr Hh Hc.
  assert (G : start_guard (h1 ++ MsORestartSeen tr A :: h2) (MsOStart t A k fc s)).
  { eapply startup_order; [exact Hr|]. rewrite Hh, <- app_assoc. reflexivity. }
  destruct G as [_ G]. specialize (G c Hc).
  assert (R : forall X, X <> HD -> hist X A (h1 ++ MsORestartSeen tr A :: h2) = true ->
              exists x, In x h2 /\ obs_effect X A x = Some true).
  { intros X HX HH. rewrite hist_after_restart in HH by exact HX. apply hfold_needs_setter. exact HH. }
  destruct k; cbn [kind_guard] in G; auto.
  - destruct G as (G1 & G2 & G3 & G4). split; [apply R; [discriminate|exact G1]|].
    split; [intros E; apply R; [discriminate|auto]|intros E; apply R; [discriminate|auto]].
  - destruct G as (G1 & _). apply R; [discriminate|exact G1].
  - destruct G as (G1 & G2 & G3 & G4). split; [apply R; [discriminate|exact G1]|].
    split; [intros E; apply R; [discriminate|auto]|intros E; apply R; [discriminate|auto]].
  - destruct G as (G1 & G2 & G3). split; [apply R; [discriminate|exact G1]|].
    intros E; apply R; [discriminate|auto].
  - apply R; [discriminate|exact G].
Qed.

(* ---- unsolicited data is gated by the integrity poll ------------------------------------------------ *)

Definition unsol_evidence (src : N) (x : ms_obs) : Prop :=
  match x with
  | MsOCb _ a MsRtUnsol _ => a = src
  | MsOUnsol _ a _ _ => a = src
  | _ => False
  end.

Definition sched_obs (x : ms_obs) : Prop :=
  match x with
  | MsORes _ _ _ | MsOStart _ _ _ _ _ | MsOTx _ _ | MsOTxLink _ _ _ | MsOSleep _ _ | MsOStall _ => True
  | _ => False
  end.

Lemma schedule_obs st st' o : ms_schedule st = (st', o) -> Forall sched_obs o.
Proof.
  unfold ms_schedule. destruct (ms_map_next_task st) as [[st1 o1] r] eqn:Em.
  apply map_next_task_res in Em.
  assert (R : Forall sched_obs o1) by (revert Em; apply Forall_impl; intros x; destruct x; cbn; auto).
  destruct r as [addr t|nb| |]; try (intros H; injection H as <- <-; apply Forall_app; split; [exact R|repeat constructor]).
  unfold ms_start_task.
  destruct t; try (intros H; injection H as <- <-; apply Forall_app; split; [exact R|repeat constructor]).
  all: unfold ms_send_request; destruct (ms_find_assoc addr (ms_m_assocs st1));
    intros H; injection H as <- <-; apply Forall_app; split; try exact R; repeat constructor.
Qed.

Lemma sched_obs_not_evidence src o x : Forall sched_obs o -> In x o -> unsol_evidence src x -> False.
Proof.
  intros F Hin. rewrite Forall_forall in F. specialize (F x Hin). destruct x; cbn in *; auto.
Qed.

Lemma sched_obs_not_seen o t A : Forall sched_obs o -> ~ In (MsORestartSeen t A) o.
Proof. intros F Hin. rewrite Forall_forall in F. exact (F _ Hin). Qed.

Lemma touch_find st src a : ms_find_assoc src (ms_m_assocs st) = Some a ->
  ms_find_assoc src (ms_m_assocs (ms_touch st src)) = Some (ms_link_activity (ms_m_now st) a).
Proof.
  intros Hf. unfold ms_touch, ms_update_assoc. rewrite Hf. cbn [fst ms_set_assocs ms_m_assocs].
  pose proof (find_assoc_some _ _ _ Hf) as [Ia Ea].
  apply find_put; [|exact Ea]. rewrite <- Ea. apply in_map. exact Ia.
Qed.

(* whatever the session is doing when an unsolicited response arrives, it is handed to
   Association::handle_unsolicited_response of the association it comes from; everything else the
   step emits is the scheduler's *)
Lemma on_rx_unsol st src f a st' o :
  ms_r_uns f = true -> ms_find_assoc src (ms_m_assocs st) = Some a ->
  ms_on_rx st src (MsRxResp f) = (st', o) ->
  o = [] \/
  exists a1 ou rest, ms_handle_unsolicited (ms_m_now st) f (ms_link_activity (ms_m_now st) a) = (a1, ou) /\
                     o = ou ++ rest /\
                     Forall (fun x => sched_obs x \/ match x with MsOLinkEnd _ _ => True | _ => False end) rest.
Proof.
  intros Hu Hf. pose proof (touch_find _ _ _ Hf) as Ht.
  assert (U : forall st1 o1, ms_unsolicited (ms_touch st src) src f = (st1, o1) ->
              exists a1, ms_handle_unsolicited (ms_m_now st) f (ms_link_activity (ms_m_now st) a) = (a1, o1)).
  { intros st1 o1. unfold ms_unsolicited, ms_update_assoc. rewrite Ht.
    replace (ms_m_now (ms_touch st src)) with (ms_m_now st)
      by (unfold ms_touch, ms_update_assoc; rewrite Hf; reflexivity).
    destruct (ms_handle_unsolicited _ _ _) as [a1 ou]. intros H; inversion H; subst. exists a1. reflexivity. }
  unfold ms_on_rx.
  destruct (ms_m_phase st) as [|u|[dest t k fc0 seq dl|dest t seq first dl|dest p dl]|].
  - intros H; injection H as <- <-. left; reflexivity.
  - unfold ms_rx_idle. rewrite Hu.
    destruct (ms_unsolicited (ms_touch st src) src f) as [st1 o1] eqn:Eu.
    destruct (ms_task_done st1) as [st2 o2] eqn:Ed. intros H; injection H as <- <-.
    destruct (U _ _ eq_refl) as (a1 & Ha1). right. exists a1, o1, o2. split; [exact Ha1|]. split; [reflexivity|].
    unfold ms_task_done in Ed. apply schedule_obs in Ed. revert Ed. apply Forall_impl. auto.
  - unfold ms_rx_nonread. rewrite Hu. intros Eu. destruct (U _ _ Eu) as (a1 & Ha1).
    right. exists a1, o, []. split; [exact Ha1|]. split; [rewrite app_nil_r; reflexivity|constructor].
  - unfold ms_rx_read. rewrite Hu. intros Eu. destruct (U _ _ Eu) as (a1 & Ha1).
    right. exists a1, o, []. split; [exact Ha1|]. split; [rewrite app_nil_r; reflexivity|constructor].
  - unfold ms_rx_link. rewrite Hu.
    destruct (ms_unsolicited (ms_touch st src) src f) as [st1 o1] eqn:Eu.
    destruct (ms_task_done st1) as [st2 o2] eqn:Ed. intros H; injection H as <- <-.
    destruct (U _ _ eq_refl) as (a1 & Ha1). right.
    eexists a1, o1, _. split; [exact Ha1|]. split; [reflexivity|].
    unfold ms_task_done in Ed. apply schedule_obs in Ed.
    apply Forall_app; split.
    + destruct p; repeat constructor; cbn; auto. Show.
Admitted.
