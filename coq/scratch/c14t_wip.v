From Dnp3V Require Import Outstation.Session Outstation.SessionLemmas_c14 scratch.c14p_wip scratch.c14q_wip scratch.c14s_wip.
Open Scope N_scope.

(* ---------- 6. no new series before the retry delay is over ------------------------------------------ *)

(* the clock of the step: the last OAt marker, or the time the step began at *)
Definition delay_mon (t : Z) (clock : Z) (it : item) : option Z :=
  match it with
  | IOb (OAt u) => Some u
  | IOb (OTx _ b) => if is_unsol b then (if (t <=? clock)%Z then Some clock else None) else Some clock
  | _ => Some clock
  end.

Definition delay_rin (t : Z) (ev : oevent) (x : ostate) (clock : Z) : Prop :=
  clock = s_now x /\
  ((t <= s_now x)%Z \/ (s_unsol x = UReady (Some t) /\ is_uw (s_control x) = false)).

Lemma delay_mon_qob : forall t m o, qob o -> delay_mon t m (IOb o) = Some m /\ o <> OOutOfFuel.
Proof.
  intros t m o Hq. split; [|apply qob_not_fuel; exact Hq].
  destruct Hq as [Hs| ->]; [|reflexivity].
  destruct o; try reflexivity.
  - cbn [delay_mon]. rewrite (solob_not_unsol _ _ Hs). reflexivity.
  - destruct Hs.
Qed.

Lemma delay_skip : forall t l m, Forall qob l -> mrun (delay_mon t) m (map IOb l) = Live m.
Proof.
  intros t l m H. apply mrun_skip. eapply Forall_impl; [|exact H]. intros a Ha. apply delay_mon_qob. exact Ha.
Qed.

Lemma delay_started : forall cfg t x x' n size buf o,
  started cfg x x' n size buf o -> (t <= s_now x)%Z ->
  mrun (delay_mon t) (s_now x) (map IOb o) = Live (s_now x) /\ s_now x' = s_now x.
Proof.
  intros cfg t x x' n size buf o (r & o1 & -> & Ho1 & Hf & _ & _ & _ & _ & _ & _ & Hn & _) Ht.
  split; [|exact Hn].
  rewrite map_app, mrun_app, delay_skip by (eapply Forall_impl; [|exact Ho1]; apply evq_qob).
  cbn [map]. erewrite mrun_cons; [|discriminate|].
  2:{ cbn [delay_mon]. rewrite (is_unsol_response _ _ Hf). apply Z.leb_le in Ht. rewrite Ht. reflexivity. }
  erewrite mrun_cons; [|discriminate|reflexivity]. reflexivity.
Qed.

Lemma delay_hstep : forall cfg t ev x o x' m,
  ustep cfg (Some ev) x o x' -> Inv cfg x -> delay_rin t ev x m ->
  o = [OOutOfFuel] \/ exists m', mrun (delay_mon t) m (map IOb o) = Live m' /\ delay_rin t ev x' m'.
Proof.
  intros cfg t ev x o x' m H [Hl Hw] [-> Hd]. unfold delay_rin.
  assert (Hwait : forall r n ret dl, s_control x = CUnsolWait r n ret dl -> (t <= s_now x)%Z).
  { intros r n ret dl Hc. destruct Hd as [Hd|[_ Hd]]; [exact Hd|]. rewrite Hc in Hd. discriminate. }
  destruct H.
  - right. exists (s_now x). split; [apply delay_skip; auto|]. unfold qv in H1.
    split; [congruence|]. destruct Hd as [Hd|[Hd1 Hd2]]; [left; replace (s_now x') with (s_now x) by congruence; exact Hd|].
    right. split; [congruence|]. destruct H2 as [Hcs|[_ Hu]]; [rewrite Hcs; exact Hd2|exact Hu].
  - right. assert (Ht : (t <= s_now x)%Z) by (destruct Hd as [Hd|[Hd _]]; [exact Hd|congruence]).
    destruct (delay_started cfg t x x' _ _ _ _ H2 Ht) as [A B].
    exists (s_now x). split; [exact A|]. split; [congruence|left; lia].
  - right. assert (Ht : (t <= s_now x)%Z).
    { destruct Hd as [Hd|[Hd _]]; [exact Hd|]. rewrite H1 in Hd. inversion Hd; subst.
      cbn [unsol_ready] in H2. apply Z.leb_le in H2. exact H2. }
    subst o. destruct (delay_started cfg t x x' _ _ _ _ H6 Ht) as [A B].
    exists (s_now x). split; [cbn [map]; erewrite mrun_cons; [exact A|discriminate|reflexivity]|].
    split; [congruence|left; lia].
  - right. pose proof (Hwait _ _ _ _ H) as Ht. exists (s_now x). subst o.
    split; [destruct n; reflexivity|]. assert (s_now x' = s_now x) by congruence. split; [congruence|left; lia].
  - right. pose proof (Hwait _ _ _ _ H) as Ht. exists (s_now x). subst o. split.
    + rewrite map_app, mrun_app, delay_skip by (apply solob_qob; auto). destruct n; reflexivity.
    + assert (s_now x' = s_now x) by congruence. split; [congruence|left; lia].
  - right. pose proof (Hwait _ _ _ _ H) as Ht. subst o x'. rewrite H in Hw. destruct Hw as (Hf & _).
    exists t0. split.
    + unfold repeat_unsolicited. cbn [map]. erewrite mrun_cons; [|discriminate|reflexivity].
      erewrite mrun_cons; [|discriminate|reflexivity].
      erewrite mrun_cons; [reflexivity|discriminate|].
      cbn [delay_mon]. rewrite (is_unsol_response _ _ Hf).
      assert (E : (t <=? t0)%Z = true) by (apply Z.leb_le; lia). rewrite E. reflexivity.
    + split; [reflexivity|left; cbn; lia].
  - right. pose proof (Hwait _ _ _ _ H) as Ht. subst o. exists t0. split.
    + cbn [map]. erewrite mrun_cons; [|discriminate|reflexivity].
      erewrite mrun_cons; [|discriminate|reflexivity]. destruct n; reflexivity.
    + split; [congruence|left; lia].
  - right. subst o x'. exists t0. split; [reflexivity|]. split; [reflexivity|]. cbn.
    destruct Hd as [Hd|[Hd1 Hd2]]; [left; lia|right; split; [exact Hd1|reflexivity]].
  - right. subst o x'. exists t0. split; [reflexivity|]. split; [reflexivity|]. cbn.
    destruct Hd as [Hd|[Hd1 Hd2]]; [left; lia|]. left. rewrite H1 in Hd1. inversion Hd1; subst. lia.
  - right. subst o x'. exists (s_now x). split; [reflexivity|]. split; [reflexivity|]. cbn.
    destruct Hd as [Hd|[Hd1 Hd2]]; [left; exact Hd|right; split; [exact Hd1|reflexivity]].
  - left. assumption.
Qed.

(* in plain terms *)
Fixpoint stamp (t0 : Z) (o : list oobs) : list (Z * oobs) :=
  match o with
  | [] => []
  | OAt t :: r => (t, OAt t) :: stamp t r
  | x :: r => (t0, x) :: stamp t0 r
  end.

Fixpoint time_after (t0 : Z) (o : list oobs) : Z :=
  match o with [] => t0 | OAt t :: r => time_after t r | _ :: r => time_after t0 r end.

Lemma delay_mon_stamp : forall t o c c',
  mrun (delay_mon t) c (map IOb o) = Live c' ->
  c' = time_after c o /\
  forall u d b, In (u, OTx d b) (stamp c o) -> is_unsol b = true -> (t <= u)%Z.
Proof.
  intros t. induction o as [|x r IH]; intros c c' H.
  - cbn in H. inversion H; subst. split; [reflexivity|]. intros u d b [].
  - cbn [map mrun] in H. destruct x; cbn [delay_mon] in H; try (apply IH in H; destruct H as [A B]; split; [exact A|];
      intros u d b [Hx|Hx]; [discriminate Hx|eapply B; eauto]; fail).
    + destruct (is_unsol bytes) eqn:Eu.
      * destruct (t <=? c)%Z eqn:El; [|discriminate]. apply IH in H. destruct H as [A B]. split; [exact A|].
        intros u d b [Hx|Hx]; [inversion Hx; subst; intros _; apply Z.leb_le; exact El|eapply B; eauto].
      * apply IH in H. destruct H as [A B]. split; [exact A|].
        intros u d b [Hx|Hx]; [inversion Hx; subst; congruence|eapply B; eauto].
    + discriminate.
Qed.

Theorem retry_delay_respected : forall cfg s tr t ev a s' o,
  Trace cfg s tr -> s_unsol s = UReady (Some t) -> is_uw (s_control s) = false ->
  ostep cfg s ev a = (s', o) -> ~ In OOutOfFuel o ->
  (forall u d b, In (u, OTx d b) (stamp (s_now s) o) -> is_unsol b = true -> (t <= u)%Z) /\
  ((t <= time_after (s_now s) o)%Z \/ (s_unsol s' = UReady (Some t) /\ is_uw (s_control s') = false)).
Proof.
  intros cfg s tr t ev a s' o Ht Hu Hc Hstep Hnf.
  pose proof (trace_inv _ _ _ Ht) as Hi.
  apply ostep_micros in Hstep. destruct Hstep as (s1 & Hm & Hs).
  destruct (micros_run cfg Z (delay_mon t) (delay_rin t) (delay_hstep cfg t) ev s o s1 Hm (s_now s) Hi)
    as [Hd|(c' & Hrun & Hc' & Hr)].
  - split; [reflexivity|]. right. split; assumption.
  - exfalso. assert (X : exists m', mrun (delay_mon t) (s_now s) (map IOb o) = Live m' \/ True) by (exists 0%Z; right; exact I).
    clear X. revert Hd Hnf. generalize (s_now s). clear. induction o as [|x r IH]; intros c Hd Hnf; [discriminate|].
    cbn [map mrun] in Hd. destruct x; try (destruct (delay_mon t c _); [eapply IH; [exact Hd|intros X; apply Hnf; right; exact X]|discriminate]).
    apply Hnf. left. reflexivity.
  - apply delay_mon_stamp in Hrun. destruct Hrun as [A B]. split; [exact B|].
    destruct Hr as [Hr|[Hr1 Hr2]]; [left; rewrite <- A, Hc'; exact Hr|right].
    destruct Hs as [-> |(t1 & -> & _)]; split; assumption.
Qed.
