From Dnp3V Require Import Outstation.Session.
Import ListNotations.
Open Scope N_scope.

(* ---------- definitions (to be moved to a shared file) ------------------------------------------ *)

Definition item_bytes (prefix : N) (it : N * list N) : list N := index_bytes prefix (fst it) ++ snd it.
Definition group_bytes (g v prefix : N) (items : list (N * list N)) : list N :=
  [g; v; qualifier_of prefix] ++ count_bytes prefix (N.of_nat (length items)) ++ concat (map (item_bytes prefix) items).
Record egroup := { eg_g : N; eg_v : N; eg_prefix : N; eg_items : list (N * list N) }.
Definition egroup_bytes (e : egroup) : list N := group_bytes (eg_g e) (eg_v e) (eg_prefix e) (eg_items e).
Definition groups_bytes (gs : list egroup) : list N := concat (map egroup_bytes gs).
(* the control headers of a request that carry at least one item *)
Fixpoint req_groups (hdrs : list whdr) : list egroup :=
  match hdrs with
  | [] => []
  | WCtl g v prefix [] :: rest => req_groups rest
  | WCtl g v prefix items :: rest => {| eg_g := g; eg_v := v; eg_prefix := prefix; eg_items := items |} :: req_groups rest
  | _ :: rest => req_groups rest
  end.
(* e echoes (a prefix of, when cut = true allowed) the request group r: same g, v, prefix, same indices in order, each object is the request's object with its status octet replaced *)
Definition item_echoes (a b : N * list N) : Prop := fst a = fst b /\ exists st, snd a = replace_status (snd b) st.
Definition group_echoes (e r : egroup) : Prop :=
  eg_g e = eg_g r /\ eg_v e = eg_v r /\ eg_prefix e = eg_prefix r /\ eg_items e <> [] /\
  Forall2 item_echoes (eg_items e) (firstn (length (eg_items e)) (eg_items r)).

(* ---------- list helpers ------------------------------------------------------------------------ *)

Lemma firstn_len_app (A B : list N) (k : nat) : k = length A -> firstn k (A ++ B) = A.
Proof.
  intros ->. induction A as [|a A IH]; cbn [length app firstn].
  - reflexivity.
  - now rewrite IH.
Qed.

Lemma skipn_len_app (A B : list N) (k : nat) : k = length A -> skipn k (A ++ B) = B.
Proof.
  intros ->. induction A as [|a A IH]; cbn [length app skipn].
  - reflexivity.
  - exact IH.
Qed.

Lemma count_bytes_length (p n : N) : length (count_bytes p n) = length (count_bytes p 0).
Proof. unfold count_bytes. destruct (p =? 1); reflexivity. Qed.

(* the patch rewrites exactly the count field *)
Lemma patch_count (pre : list N) (g v q : N) (c0 c1 tl : list N) (hs k : nat) :
  hs = length pre -> k = length c0 ->
  firstn (hs + 3) (pre ++ [g; v; q] ++ c0 ++ tl) ++ c1 ++ skipn (hs + 3 + k) (pre ++ [g; v; q] ++ c0 ++ tl)
  = pre ++ [g; v; q] ++ c1 ++ tl.
Proof.
  intros Hhs Hk.
  assert (H1 : firstn (hs + 3) (pre ++ [g; v; q] ++ c0 ++ tl) = pre ++ [g; v; q]).
  { rewrite (app_assoc pre). apply firstn_len_app. rewrite app_length. cbn [length]. lia. }
  assert (H2 : skipn (hs + 3 + k) (pre ++ [g; v; q] ++ c0 ++ tl) = tl).
  { rewrite (app_assoc pre), (app_assoc (pre ++ [g; v; q])). apply skipn_len_app.
    rewrite !app_length. cbn [length]. lia. }
  rewrite H1, H2, <- app_assoc. reflexivity.
Qed.

(* ---------- one item ---------------------------------------------------------------------------- *)

(* bytes of the group being written: nothing until the first item has been written *)
Definition gb_opt (g v p : N) (its : list (N * list N)) : list N :=
  match its with [] => [] | _ => group_bytes g v p its end.

Lemma gb_opt_snoc g v p its it : gb_opt g v p (its ++ [it]) = group_bytes g v p (its ++ [it]).
Proof. destruct its; reflexivity. Qed.

Lemma group_bytes_snoc g v p its it :
  group_bytes g v p (its ++ [it]) =
  [g; v; qualifier_of p] ++ count_bytes p (N.of_nat (length its) + 1)
    ++ concat (map (item_bytes p) its) ++ item_bytes p it.
Proof.
  unfold group_bytes. rewrite map_app, concat_app, app_length. cbn [map concat length].
  rewrite app_nil_r.
  replace (N.of_nat (length its + 1)) with (N.of_nat (length its) + 1) by lia.
  reflexivity.
Qed.

Lemma echo_items_single_unfold cap g v p written n hs idx obj :
  echo_items cap g v p written n hs [(idx, obj)] =
  let attempt := written ++ (if n =? 0 then [g; v; qualifier_of p] ++ count_bytes p 0 else [])
                         ++ index_bytes p idx ++ obj in
  if (cap <? length attempt)%nat then (written, false)
  else (firstn (hs + 3) attempt ++ count_bytes p (n + 1)
          ++ skipn (hs + 3 + length (count_bytes p 0)) attempt, true).
Proof. reflexivity. Qed.

Lemma echo_items_single cap g v p pre its idx obj :
  echo_items cap g v p (pre ++ gb_opt g v p its) (N.of_nat (length its)) (length pre) [(idx, obj)] =
  if (cap <? length (pre ++ group_bytes g v p (its ++ [(idx, obj)])))%nat
  then (pre ++ gb_opt g v p its, false)
  else (pre ++ group_bytes g v p (its ++ [(idx, obj)]), true).
Proof.
  rewrite echo_items_single_unfold. cbv zeta.
  set (T := concat (map (item_bytes p) its) ++ item_bytes p (idx, obj)).
  assert (Hatt : exists cX, length cX = length (count_bytes p 0) /\
            (pre ++ gb_opt g v p its)
              ++ (if N.of_nat (length its) =? 0 then [g; v; qualifier_of p] ++ count_bytes p 0 else [])
              ++ index_bytes p idx ++ obj
            = pre ++ [g; v; qualifier_of p] ++ cX ++ T).
  { destruct its as [|a its].
    - exists (count_bytes p 0). split; [reflexivity|].
      subst T. cbn [gb_opt length N.of_nat N.eqb map concat item_bytes fst snd].
      rewrite !app_nil_r. cbn [app]. reflexivity.
    - exists (count_bytes p (N.of_nat (length (a :: its)))). split; [apply count_bytes_length|].
      replace (N.of_nat (length (a :: its)) =? 0) with false
        by (symmetry; apply N.eqb_neq; cbn [length]; lia).
      subst T. cbn [gb_opt]. unfold group_bytes, item_bytes at 3. cbn [fst snd].
      cbn [app]. rewrite <- !app_assoc. cbn [app]. rewrite <- ?app_assoc. reflexivity. }
  destruct Hatt as [cX [HcX Hatt]].
  rewrite Hatt.
  rewrite (patch_count pre g v (qualifier_of p) cX _ T (length pre) _ eq_refl (eq_sym HcX)).
  rewrite group_bytes_snoc. fold T.
  replace (length (pre ++ [g; v; qualifier_of p] ++ cX ++ T))
    with (length (pre ++ [g; v; qualifier_of p] ++ count_bytes p (N.of_nat (length its) + 1) ++ T)).
  - reflexivity.
  - rewrite !app_length, HcX, (count_bytes_length p (N.of_nat (length its) + 1)). reflexivity.
Qed.

(* ---------- one header -------------------------------------------------------------------------- *)

Lemma ctl_one_header_inv s cfg cap mode g v p pre :
  forall items its num started w ok cbs st num' started',
  ctl_one_header s cfg cap mode g v p (pre ++ gb_opt g v p its) (N.of_nat (length its)) (length pre)
                 num started items = (w, ok, cbs, st, num', started') ->
  (length (pre ++ gb_opt g v p its) <= cap)%nat ->
  exists its',
    w = pre ++ gb_opt g v p (its ++ its') /\
    (length w <= cap)%nat /\
    Forall2 item_echoes its' (firstn (length its') items) /\
    (ok = true -> length its' = length items).
Proof.
  induction items as [|[idx obj] rest IH]; intros its num started w ok cbs st num' started' Hrun Hcap.
  - cbn [ctl_one_header] in Hrun. inversion Hrun; subst.
    exists []. rewrite app_nil_r. repeat split; auto. constructor.
  - cbn [ctl_one_header] in Hrun.
    destruct (item_status s cfg mode num) as [st0 consulted].
    rewrite echo_items_single in Hrun.
    destruct (cap <? length (pre ++ group_bytes g v p (its ++ [(idx, replace_status obj st0)])))%nat eqn:Hfit.
    + cbv beta iota in Hrun. inversion Hrun; subst.
      exists []. rewrite app_nil_r. repeat split; auto; [constructor | discriminate].
    + cbv beta iota in Hrun.
      apply Nat.ltb_ge in Hfit.
      rewrite <- gb_opt_snoc in Hrun, Hfit.
      replace (N.of_nat (length its) + 1) with (N.of_nat (length (its ++ [(idx, replace_status obj st0)]))) in Hrun
        by (rewrite app_length; cbn [length]; lia).
      destruct (ctl_one_header s cfg cap mode g v p (pre ++ gb_opt g v p (its ++ [(idx, replace_status obj st0)]))
                  (N.of_nat (length (its ++ [(idx, replace_status obj st0)]))) (length pre) (num + 1)
                  (started || consulted) rest) as [[[[[w2 ok2] cbs2] st2] num2] started2] eqn:Hrec.
      inversion Hrun; subst.
      destruct (IH _ _ _ _ _ _ _ _ _ Hrec Hfit) as [its' [Hw [Hlen [Hech Hok]]]].
      exists ((idx, replace_status obj st0) :: its').
      rewrite <- app_assoc in Hw. cbn [app] in Hw.
      split; [exact Hw|]. split; [exact Hlen|]. split.
      * cbn [length firstn]. constructor; [|exact Hech].
        split; [reflexivity|]. exists st0. reflexivity.
      * intros Hok2. cbn [length]. rewrite (Hok Hok2). reflexivity.
Qed.

(* ---------- all headers ------------------------------------------------------------------------- *)

Lemma groups_bytes_snoc gs e : groups_bytes (gs ++ [e]) = groups_bytes gs ++ egroup_bytes e.
Proof. unfold groups_bytes. rewrite map_app, concat_app. cbn [map concat]. now rewrite app_nil_r. Qed.

Lemma ctl_headers_inv s cfg cap mode :
  forall hdrs gs0 num started echo ok cbs st started',
  ctl_headers s cfg cap mode (groups_bytes gs0) num started hdrs = (echo, ok, cbs, st, started') ->
  (length (groups_bytes gs0) <= cap)%nat ->
  exists gs,
    echo = groups_bytes (gs0 ++ gs) /\
    (length echo <= cap)%nat /\
    Forall2 group_echoes gs (firstn (length gs) (req_groups hdrs)) /\
    (ok = true -> length gs = length (req_groups hdrs) /\
                  Forall2 (fun e r => length (eg_items e) = length (eg_items r)) gs (req_groups hdrs)).
Proof.
  induction hdrs as [|h rest IH]; intros gs0 num started echo ok cbs st started' Hrun Hcap.
  - cbn [ctl_headers] in Hrun. inversion Hrun; subst.
    exists []. rewrite app_nil_r. cbn [length firstn req_groups]. repeat split; auto; constructor.
  - destruct h as [bits|t|t|c| |a b|x| | |g v p items| ];
      try (cbn [ctl_headers req_groups] in *; eapply IH; eassumption).
    cbn [ctl_headers] in Hrun.
    destruct (ctl_one_header s cfg cap mode g v p (groups_bytes gs0) 0 (length (groups_bytes gs0)) num started items)
      as [[[[[w1 ok1] cbs1] st1] num1] started1] eqn:Hone.
    assert (Hone' : ctl_one_header s cfg cap mode g v p (groups_bytes gs0 ++ gb_opt g v p [])
                      (N.of_nat (length (@nil (N * list N)))) (length (groups_bytes gs0)) num started items
                    = (w1, ok1, cbs1, st1, num1, started1)).
    { cbn [gb_opt length N.of_nat]. rewrite app_nil_r. exact Hone. }
    assert (Hcap' : (length (groups_bytes gs0 ++ gb_opt g v p []) <= cap)%nat).
    { cbn [gb_opt]. rewrite app_nil_r. exact Hcap. }
    destruct (ctl_one_header_inv _ _ _ _ _ _ _ _ _ _ _ _ _ _ _ _ _ _ Hone' Hcap')
      as [its' [Hw1 [Hlen1 [Hech Hok1]]]].
    cbn [app] in Hw1.
    destruct its' as [|i0 its'].
    + (* nothing written for this header *)
      cbn [gb_opt] in Hw1. rewrite app_nil_r in Hw1. subst w1.
      destruct ok1.
      * assert (Hitems : items = []).
        { specialize (Hok1 eq_refl). destruct items; [reflexivity|discriminate]. }
        subst items. cbn [req_groups].
        destruct (ctl_headers s cfg cap mode (groups_bytes gs0) num1 started1 rest)
          as [[[[w2 ok2] cbs2] st2] started2] eqn:Hrest.
        inversion Hrun; subst.
        exact (IH _ _ _ _ _ _ _ _ Hrest Hcap).
      * inversion Hrun; subst.
        exists []. rewrite app_nil_r. cbn [length firstn]. split; [reflexivity|]. split; [exact Hcap|]. split; [constructor|discriminate].
    + (* a group was written *)
      set (e := {| eg_g := g; eg_v := v; eg_prefix := p; eg_items := i0 :: its' |}).
      assert (Hw1' : w1 = groups_bytes (gs0 ++ [e])).
      { rewrite groups_bytes_snoc. exact Hw1. }
      assert (Hne : exists i items', items = i :: items').
      { inversion Hech as [|? y ? l' ? ? Hfi]. destruct items as [|i items']; [discriminate|].
        exists i, items'. reflexivity. }
      destruct Hne as [i [items' Hitems]].
      assert (Hreq : req_groups (WCtl g v p items :: rest)
                     = {| eg_g := g; eg_v := v; eg_prefix := p; eg_items := items |} :: req_groups rest).
      { subst items. reflexivity. }
      rewrite Hreq.
      assert (Hge : group_echoes e {| eg_g := g; eg_v := v; eg_prefix := p; eg_items := items |}).
      { unfold group_echoes, e. cbn [eg_g eg_v eg_prefix eg_items].
        repeat split; [discriminate | exact Hech]. }
      destruct ok1.
      * destruct (ctl_headers s cfg cap mode w1 num1 started1 rest)
          as [[[[w2 ok2] cbs2] st2] started2] eqn:Hrest.
        inversion Hrun; subst echo ok cbs st started'.
        rewrite Hw1' in Hrest, Hlen1.
        destruct (IH _ _ _ _ _ _ _ _ Hrest Hlen1) as [gs [Hecho [Hlen [Hfa Hok]]]].
        exists (e :: gs). rewrite <- app_assoc in Hecho. cbn [app] in Hecho.
        split; [exact Hecho|]. split; [exact Hlen|]. split.
        -- cbn [length firstn]. constructor; assumption.
        -- intros Hok2. destruct (Hok Hok2) as [Hl Hf]. split.
           ++ cbn [length]. now rewrite Hl.
           ++ constructor; [|exact Hf]. cbn [eg_items]. unfold e. cbn [eg_items]. exact (Hok1 eq_refl).
      * inversion Hrun; subst echo ok cbs st started'.
        exists [e]. split; [exact Hw1'|]. split; [exact Hlen1|]. split.
        -- cbn [length firstn]. constructor; [exact Hge|constructor].
        -- discriminate.
Qed.

(* ---------- main theorem ------------------------------------------------------------------------ *)

Theorem echo_wellformed : forall s cfg cap mode num started hdrs echo ok cbs st started',
  ctl_headers s cfg cap mode [] num started hdrs = (echo, ok, cbs, st, started') ->
  exists gs,
    echo = groups_bytes gs /\
    (length echo <= cap)%nat /\
    Forall2 group_echoes gs (firstn (length gs) (req_groups hdrs)) /\
    (ok = true -> length gs = length (req_groups hdrs) /\
                  Forall2 (fun e r => length (eg_items e) = length (eg_items r)) gs (req_groups hdrs)).
Proof.
  intros s cfg cap mode num started hdrs echo ok cbs st started' Hrun.
  apply (ctl_headers_inv s cfg cap mode hdrs [] num started echo ok cbs st started' Hrun).
  cbn [groups_bytes map concat length]. lia.
Qed.

Lemma ctl_headers_length : forall s cfg cap mode num started hdrs echo ok cbs st started',
  ctl_headers s cfg cap mode [] num started hdrs = (echo, ok, cbs, st, started') -> (length echo <= cap)%nat.
Proof.
  intros s cfg cap mode num started hdrs echo ok cbs st started' Hrun.
  destruct (echo_wellformed _ _ _ _ _ _ _ _ _ _ _ _ Hrun) as [gs [_ [Hlen _]]]. exact Hlen.
Qed.


(* a truncated echo: cap = 20, the second header is cut after its first item (its count field says 1) *)
Example echo_truncated_example : forall s cfg,
  ctl_headers s cfg 20 (CmStatus 4) [] 0 false
    [WCtl 12 1 1 [(3, [1; 1; 0])]; WCtl 12 1 2 [(5, [2; 2; 0]); (6, [3; 3; 0])]]
  = ([12; 1; 23; 1; 3; 1; 1; 4;   12; 1; 40; 1; 0; 5; 0; 2; 2; 4], false, [], 4, false).
Proof. intros s cfg. vm_compute. reflexivity. Qed.

Print Assumptions echo_wellformed.
