From Coq Require Import ZArith NArith List Bool Lia.
From Dnp3V Require Import Master.Backoff Master.Assoc Master.Sched Master.AssocProofs Master.SchedProofs.
Import ListNotations.
Open Scope Z_scope.
Definition cfg0 : ms_acfg := {| ms_c_disable := 7; ms_c_integrity := 15; ms_c_enable := 7; ms_c_tsync := 0;
  ms_c_ovf := false; ms_c_evscan := 0; ms_c_rmin := 5; ms_c_rmax := 20; ms_c_keepalive := None; ms_c_rto := 100; ms_c_maxq := 16 |}.
Definition resp (seq iin1 : N) : ms_rx := MsRxResp {| ms_r_uns := false; ms_r_fir := true; ms_r_fin := true; ms_r_con := false;
  ms_r_seq := seq; ms_r_iin1 := iin1; ms_r_iin2 := 0; ms_r_objs := []; ms_r_ok := true; ms_r_nvalues := 0; ms_r_delay := None |}.
Definition unsol (seq : N) (objs : list N) : ms_rx := MsRxResp {| ms_r_uns := true; ms_r_fir := true; ms_r_fin := true; ms_r_con := true;
  ms_r_seq := seq; ms_r_iin1 := 0; ms_r_iin2 := 0; ms_r_objs := objs; ms_r_ok := true; ms_r_nvalues := 1; ms_r_delay := None |}.
Definition evs1 := [MsEStart; MsEAddAssoc 1024 cfg0; MsETick 1; MsERx 1024 (unsol 3 [2;1;23;1;0;1]%N); MsETick 1; MsERx 1024 (resp 0 0); MsETick 1; MsERx 1024 (resp 1 128); MsETick 1;
  MsERx 1024 (resp 2 0); MsETick 1; MsERx 1024 (resp 3 0); MsETick 1; MsERx 1024 (resp 4 0); MsETick 1; MsERx 1024 (unsol 4 [2;1;23;1;0;1]%N); MsETick 1000].
Eval vm_compute in (snd (ms_run 50 ms_m_init evs1)).
