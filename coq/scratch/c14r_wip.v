From Dnp3V Require Import Outstation.Session Outstation.SessionLemmas_c14 scratch.c14p_wip scratch.c14q_wip.
Open Scope N_scope.

(* ---------- 5. a re-send comes exactly one confirm timeout after the previous transmission --------- *)

Record tm := { tm_clock : Z; tm_last : option Z; tm_resend : bool }.

Definition timing_mon (cfg : ocfg) (m : tm) (it : item) : option tm :=
  match it with
  | IEv t _ => Some {| tm_clock := t; tm_last := tm_last m; tm_resend := tm_resend m |}
  | IOb (OAt t) => Some {| tm_clock := t; tm_last := tm_last m; tm_resend := tm_resend m |}
  | IOb (OInfo (IUnsolTimeout _ true)) =>
      Some {| tm_clock := tm_clock m; tm_last := tm_last m; tm_resend := true |}
  | IOb (OTx _ b) =>
      if is_unsol b then
        if tm_resend m then
          match tm_last m with
          | Some t0 =>
              if (tm_clock m =? t0 + o_confirm_ms cfg)%Z
              then Some {| tm_clock := tm_clock m; tm_last := Some (tm_clock m); tm_resend := false |}
              else None
          | None => None
          end
        else Some {| tm_clock := tm_clock m; tm_last := Some (tm_clock m); tm_resend := false |}
      else Some m
  | _ => Some m
  end.

Definition tm0 : tm := {| tm_clock := 0; tm_last := None; tm_resend := false |}.

Definition wait_timed (cfg : ocfg) (s : ostate) (m : tm) : Prop :=
  forall r n ret dl, s_control s = CUnsolWait r n ret dl ->
    tm_last m = Some (dl - o_confirm_ms cfg)%Z /\ (s_now s <= dl)%Z.

Definition timing_rin (cfg : ocfg) (ev : oevent) (s : ostate) (m : tm) : Prop :=
  tm_resend m = false /\ tm_clock m = s_now s /\ wait_timed cfg s m.

Definition timing_rout (cfg : ocfg) (s : ostate) (m : tm) : Prop :=
  tm_resend m = false /\ wait_timed cfg s m.

Lemma timing_mon_qob : forall cfg m o, qob o -> timing_mon cfg m (IOb o) = Some m /\ o <> OOutOfFuel.
Proof.
  intros cfg m o Hq. split; [|apply qob_not_fuel; exact Hq].
  destruct Hq as [Hs| ->]; [|reflexivity].
  destruct o; try reflexivity.
  - cbn [timing_mon]. rewrite (solob_not_unsol _ _ Hs). reflexivity.
  - destruct i; try reflexivity. destruct Hs.
  - destruct Hs.
Qed.

Lemma timing_skip : forall cfg l m, Forall qob l -> mrun (timing_mon cfg) m (map IOb l) = Live m.
Proof.
  intros cfg l m H. apply mrun_skip. eapply Forall_impl; [|exact H]. intros a Ha. apply timing_mon_qob. exact Ha.
Qed.

Lemma timing_started : forall cfg s s' n size buf o m,
  (0 <= o_confirm_ms cfg)%Z ->
  started cfg s s' n size buf o -> tm_resend m = false -> tm_clock m = s_now s ->
  exists m', mrun (timing_mon cfg) m (map IOb o) = Live m' /\
             tm_resend m' = false /\ tm_clock m' = s_now s' /\ wait_timed cfg s' m'.
Proof.
  intros cfg s s' n size buf o m Hpos (r & o1 & -> & Ho1 & Hf & _ & _ & Hc & _ & _ & _ & Hn & _) Hr Hk.
  rewrite map_app, mrun_app, timing_skip by (eapply Forall_impl; [|exact Ho1]; apply evq_qob).
  cbn [map]. erewrite mrun_cons; [|discriminate|].
  2:{ cbn [timing_mon]. rewrite (is_unsol_response _ _ Hf), Hr. reflexivity. }
  erewrite mrun_cons; [|discriminate|reflexivity]. cbn [mrun].
  eexists. split; [reflexivity|]. cbn [tm_resend tm_clock tm_last].
  split; [reflexivity|]. split; [congruence|].
  intros r' n' ret' dl' Hc'. rewrite Hc in Hc'. inversion Hc'; subst. rewrite Hk, Hn. cbn [tm_last]. split; [f_equal; lia|lia].
Qed.

Lemma timing_hstep : forall cfg ev s o s' m,
  (0 <= o_confirm_ms cfg)%Z ->
  ustep cfg (Some ev) s o s' -> Inv cfg s -> timing_rin cfg ev s m ->
  o = [OOutOfFuel] \/ exists m', mrun (timing_mon cfg) m (map IOb o) = Live m' /\ timing_rin cfg ev s' m'.
Proof.
  intros cfg ev s o s' m Hpos H [Hl Hw] (Hr & Hk & Hwt). unfold timing_rin.
  assert (Hidle : forall x m', s_control x = CIdle -> wait_timed cfg x m').
  { intros x m' Hc r n ret dl Hc'. congruence. }
  destruct H.
  - (* quiet *)
    right. exists m. split; [apply timing_skip; auto|]. unfold qv in H1.
    split; [exact Hr|]. split; [congruence|].
    intros r n ret dl Hc'. destruct H2 as [Hcs|[Hu Hu']].
    + rewrite Hcs in Hc'. destruct (Hwt _ _ _ _ Hc') as [A B]. split; [exact A|]. replace (s_now s') with (s_now s) by congruence. exact B.
    + rewrite Hc' in Hu'. discriminate.
  - right. destruct (timing_started cfg s s' true 0 (s_unsol_buf s) o m Hpos H2 Hr Hk) as (m' & A & B & C & D).
    exists m'. auto.
  - right. subst o. cbn [map]. erewrite mrun_cons; [|discriminate|reflexivity].
    destruct (timing_started cfg s s' false _ _ o' m Hpos H6 Hr Hk) as (m' & A & B & C & D).
    exists m'. auto.
  - (* confirmed *)
    right. exists m. subst o. split; [destruct n; reflexivity|].
    split; [exact Hr|]. split; [congruence|apply Hidle; exact H1].
  - (* DISABLE_UNSOLICITED *)
    right. exists m. subst o. split.
    + rewrite map_app, mrun_app, timing_skip by (apply solob_qob; auto). destruct n; reflexivity.
    + split; [exact Hr|]. split; [congruence|apply Hidle; exact H4].
  - (* retry *)
    right. subst o s'. destruct (Hwt _ _ _ _ H) as [A B]. rewrite H in Hw. destruct Hw as (Hf & _).
    assert (Ht : t = dl) by lia. clear H2. subst t.
    unfold repeat_unsolicited. cbn [map].
    erewrite mrun_cons; [|discriminate|reflexivity].
    erewrite mrun_cons; [|discriminate|reflexivity].
    erewrite mrun_cons; [|discriminate|].
    2:{ cbn [timing_mon tm_resend tm_last tm_clock]. rewrite (is_unsol_response _ _ Hf), A.
        replace (dl - o_confirm_ms cfg + o_confirm_ms cfg)%Z with dl by lia. rewrite Z.eqb_refl. reflexivity. }
    cbn [mrun]. eexists. split; [reflexivity|]. cbn [tm_resend tm_clock tm_last].
    split; [reflexivity|]. split; [reflexivity|].
    intros r' n' ret' dl' Hc'. cbn in Hc'. inversion Hc'; subst. cbn [s_now upd_control upd_now tm_last].
    split; [f_equal; lia|lia].
  - (* timeout *)
    right. subst o. cbn [map]. erewrite mrun_cons; [|discriminate|reflexivity].
    erewrite mrun_cons; [|discriminate|reflexivity].
    eexists. split; [destruct n; reflexivity|]. cbn [tm_resend tm_clock tm_last].
    split; [exact Hr|]. split; [congruence|apply Hidle; exact H3].
  - right. subst o s'. eexists. split; [reflexivity|]. cbn [tm_resend tm_clock tm_last].
    split; [exact Hr|]. split; [reflexivity|apply Hidle; reflexivity].
  - right. subst o s'. eexists. split; [reflexivity|]. cbn [tm_resend tm_clock tm_last].
    split; [exact Hr|]. split; [reflexivity|apply Hidle; exact H].
  - right. subst o s'. exists m. split; [reflexivity|].
    split; [exact Hr|]. split; [exact Hk|apply Hidle; reflexivity].
  - left. assumption.
Qed.

Theorem retry_timing : forall cfg s tr,
  (0 <= o_confirm_ms cfg)%Z -> Trace cfg s tr -> mrun (timing_mon cfg) tm0 tr <> Bad.
Proof.
  intros cfg s tr Hpos Ht.
  destruct (trace_run cfg _ (timing_mon cfg) (timing_rin cfg) (timing_rout cfg) tm0) with (s := s) (tr := tr)
    as [Hd|(m & Hm & _)];
    try (rewrite Hd; discriminate); try (rewrite Hm; discriminate); try exact Ht.
  - intros sel op iin a. split; [reflexivity|]. split; [reflexivity|]. intros r n ret dl Hc. discriminate Hc.
  - intros ev x o x' m. apply timing_hstep. exact Hpos.
  - intros x m ev _ _ _ [Hr Hw]. eexists. split; [reflexivity|]. split; [exact Hr|]. split; [reflexivity|exact Hw].
  - intros ev x m (Hr & _ & Hw) _. split; assumption.
  - intros ev x m t [_ Hi] (Hr & _ & Hw) Hq _. split; [exact Hr|].
    intros r n ret dl Hc. cbn in Hc. destruct (Hw _ _ _ _ Hc) as [A B]. split; [exact A|].
    unfold quiet_until, next_deadline in Hq. rewrite Hc in Hq. cbn. lia.
Qed.
