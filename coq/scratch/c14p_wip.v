(* Outstation/SessionC14Proofs.v — property C14 over the session model. *)
From Dnp3V Require Import Outstation.Session Outstation.SessionLemmas_c14.
Open Scope N_scope.

(* ---------- histories ------------------------------------------------------------------------------ *)

(* what an observer of the session sees: the events fed in (with the time they arrive at) and the
   observations the session makes *)
Inductive item := IEv (t : Z) (ev : oevent) | IOb (o : oobs).

(* durations are not negative *)
Definition ev_ok (ev : oevent) : Prop := match ev with ESleep ms => (0 <= ms)%Z | _ => True end.

(* the states reachable from start-up, with the history that leads to them: any configuration, any
   events, any answers of the environment *)
Inductive Trace (cfg : ocfg) : ostate -> list item -> Prop :=
| Tr_start : forall sel op iin a s o, ostart cfg sel op iin a = (s, o) -> Trace cfg s (map IOb o)
| Tr_step : forall s tr ev a s' o,
    Trace cfg s tr -> ev_ok ev -> ostep cfg s ev a = (s', o) ->
    Trace cfg s' (tr ++ IEv (s_now s) ev :: map IOb o).

Definition Reach (cfg : ocfg) (s : ostate) : Prop := exists tr, Trace cfg s tr.

(* ---------- the basic invariant ------------------------------------------------------------------ *)

Definition Inv (cfg : ocfg) (s : ostate) : Prop :=
  last_ok s /\
  match s_control s with
  | CUnsolWait r n ret dl =>
      r_fn r = 130 /\ o_unsol cfg = true /\
      (if n then ret = Some 0%nat /\ r_size r = 0%nat /\ s_unsol s = UNullRequired
       else exists d, s_unsol s = UReady d)
  | _ => True
  end.

Lemma inv_not_wait : forall cfg s, last_ok s -> is_uw (s_control s) = false -> Inv cfg s.
Proof. intros cfg s Hl Hu. split; [exact Hl|]. destruct (s_control s); try exact I. discriminate. Qed.

Lemma inv_idle : forall cfg s, last_ok s -> s_control s = CIdle -> Inv cfg s.
Proof. intros cfg s Hl Hc. apply inv_not_wait; [exact Hl|rewrite Hc; reflexivity]. Qed.

Lemma ustep_inv : forall cfg e s o s', ustep cfg e s o s' -> Inv cfg s -> Inv cfg s'.
Proof.
  intros cfg e s o s' H [Hl Hw]. destruct H.
  - (* quiet *)
    destruct H as [Hbl _ _]. split; [auto|]. unfold qv in H1.
    destruct H2 as [Hc|[Hu Hu']].
    + rewrite Hc. destruct (s_control s) as [| |r n ret dl]; try exact I.
      destruct Hw as (Hf & Hu & Hn). split; [exact Hf|]. split; [exact Hu|].
      destruct n; [|destruct Hn as [d Hd]; exists d; congruence].
      destruct Hn as (H1' & H2' & H3'). repeat split; congruence.
    + destruct (s_control s'); try exact I. discriminate.
  - (* null *)
    destruct H2 as (r & o1 & _ & _ & Hf & _ & Hsz & Hc & _ & _ & Hu & _ & _ & _ & _ & Hla).
    split; [eapply last_ok_same; eauto|]. rewrite Hc. repeat split; auto. congruence.
  - (* data *)
    destruct H6 as (r & o1 & _ & _ & Hf & _ & Hsz & Hc & _ & _ & Hu & _ & _ & _ & _ & Hla).
    split; [eapply last_ok_same; eauto|]. rewrite Hc. repeat split; auto. exists dl. congruence.
  - split; [auto|]. rewrite H1. exact I.
  - split; [apply H8; exact Hl|]. rewrite H4. exact I.
  - (* retry *)
    subst s'. split; [exact Hl|]. cbn. rewrite H in Hw. destruct Hw as (Hf & Hu & Hn).
    split; [exact Hf|]. split; [exact Hu|]. destruct n; [|exact Hn].
    destruct Hn as (-> & _). discriminate H1.
  - split; [eapply last_ok_same; [|exact Hl]; congruence|]. rewrite H3. exact I.
  - subst s'. split; [exact Hl|exact I].
  - subst s'. split; [exact Hl|]. cbn. rewrite H. exact I.
  - subst s'. split; [|exact I]. intros l r Hs. discriminate Hs.
  - subst s'. split; assumption.
Qed.

Lemma micros_ind_inv : forall cfg e s o s', micros cfg e s o s' -> Inv cfg s -> Inv cfg s'.
Proof.
  induction 1 as [s|s o1 s1 o2 s2 o Hm Hms IH Ho]; intros Hi; [exact Hi|].
  apply IH. eapply ustep_inv; [apply micro_ustep; exact Hm|exact Hi].
Qed.

Lemma inv_upd_now : forall cfg s t, Inv cfg s -> Inv cfg (upd_now s t).
Proof. intros cfg s t H. exact H. Qed.

Lemma inv_init : forall cfg sel op iin a, Inv cfg (upd_answers (ostate_init cfg sel op iin) a).
Proof. intros. split; [intros l r H; discriminate H|exact I]. Qed.

Theorem trace_inv : forall cfg s tr, Trace cfg s tr -> Inv cfg s.
Proof.
  induction 1 as [sel op iin a s o H|s tr ev a s' o Ht IH Hev H].
  - apply ostart_micros in H. eapply micros_ind_inv; [exact H|apply inv_init].
  - apply ostep_micros in H. destruct H as (s1 & Hm & Hs).
    assert (Hi : Inv cfg s1) by (eapply micros_ind_inv; eauto).
    destruct Hs as [-> |(t & -> & _)]; [exact Hi|apply inv_upd_now; exact Hi].
Qed.

(* ---------- invariants with a promise about every observation ------------------------------------- *)

Section Invariant.
  Variable cfg : ocfg.
  Variable P : ostate -> Prop.
  Variable Q : oobs -> Prop.
  Hypothesis Pinit : forall sel op iin a, P (upd_answers (ostate_init cfg sel op iin) a).
  Hypothesis Pstep : forall e s o s', ustep cfg e s o s' -> Inv cfg s -> P s -> P s' /\ Forall Q o.
  Hypothesis Pnow : forall s t, P s -> P (upd_now s t).

  Lemma micros_P : forall e s o s', micros cfg e s o s' -> Inv cfg s -> P s -> P s' /\ Forall Q o.
  Proof.
    induction 1 as [s|s o1 s1 o2 s2 o Hm Hms IH Ho]; intros Hi Hp; [split; [exact Hp|constructor]|].
    apply micro_ustep in Hm. destruct (Pstep _ _ _ _ Hm Hi Hp) as [Hp1 Hq1].
    destruct (IH (ustep_inv _ _ _ _ _ Hm Hi) Hp1) as [Hp2 Hq2].
    split; [exact Hp2|]. subst o. apply Forall_app. split; assumption.
  Qed.

  Theorem trace_P : forall s tr, Trace cfg s tr -> P s /\ forall o, In (IOb o) tr -> Q o.
  Proof.
    induction 1 as [sel op iin a s o H|s tr ev a s' o Ht IH Hev H].
    - apply ostart_micros in H. destruct (micros_P _ _ _ _ H (inv_init _ _ _ _ _) (Pinit _ _ _ _)) as [Hp Hq].
      split; [exact Hp|]. intros x Hx. apply in_map_iff in Hx. destruct Hx as (y & Hy & Hin).
      inversion Hy; subst. rewrite Forall_forall in Hq. auto.
    - destruct IH as [Hp Hq]. pose proof (trace_inv _ _ _ Ht) as Hi.
      apply ostep_micros in H. destruct H as (s1 & Hm & Hs).
      destruct (micros_P _ _ _ _ Hm Hi Hp) as [Hp1 Hq1].
      split; [destruct Hs as [-> |(t & -> & _)]; [exact Hp1|apply Pnow; exact Hp1]|].
      intros x Hx. apply in_app_or in Hx. destruct Hx as [Hx|[Hx|Hx]]; [auto|discriminate Hx|].
      apply in_map_iff in Hx. destruct Hx as (y & Hy & Hin). inversion Hy; subst.
      rewrite Forall_forall in Hq1. auto.
  Qed.
End Invariant.

(* ---------- monitors: automata reading the history -------------------------------------------------- *)

Inductive mres (M : Type) := Bad | Dead | Live (m : M).
Arguments Bad {M}. Arguments Dead {M}. Arguments Live {M} m.

Section Monitor.
  Variable cfg : ocfg.
  Variable M : Type.
  Variable mstep : M -> item -> option M.

  (* Bad: the history violates the rule; Dead: the model ran out of fuel (nothing is claimed after) *)
  Fixpoint mrun (m : M) (l : list item) : mres M :=
    match l with
    | [] => Live m
    | IOb OOutOfFuel :: _ => Dead
    | x :: r => match mstep m x with Some m' => mrun m' r | None => Bad end
    end.

  Lemma mrun_app : forall l1 l2 m,
    mrun m (l1 ++ l2) = match mrun m l1 with Live m' => mrun m' l2 | Bad => Bad | Dead => Dead end.
  Proof.
    induction l1 as [|x r IH]; intros l2 m; [reflexivity|].
    cbn [app mrun]. destruct x as [t ev|o].
    - destruct (mstep m (IEv t ev)); [apply IH|reflexivity].
    - destruct o; try (destruct (mstep m _); [apply IH|reflexivity]). reflexivity.
  Qed.

  Lemma mrun_live_nofuel : forall l m m', mrun m l = Live m' -> ~ In (IOb OOutOfFuel) l.
  Proof.
    induction l as [|x r IH]; intros m m' H Hin; [exact Hin|].
    destruct Hin as [Hx|Hin].
    - subst x. discriminate H.
    - cbn [mrun] in H. destruct x as [t ev|o].
      + destruct (mstep m (IEv t ev)) eqn:E; [eapply IH; eauto|discriminate].
      + destruct o; try (destruct (mstep m _) eqn:E; [eapply IH; eauto|discriminate]). discriminate.
  Qed.

  Lemma mrun_skip : forall l m,
    Forall (fun o => mstep m (IOb o) = Some m /\ o <> OOutOfFuel) l -> mrun m (map IOb l) = Live m.
  Proof.
    induction l as [|x r IH]; intros m H; [reflexivity|].
    inversion H as [|x' r' [Hx Hnf] Hr]; subst. cbn [map mrun].
    destruct x; try (rewrite Hx; apply IH; exact Hr). contradiction Hnf. reflexivity.
  Qed.

  Lemma mrun_cons : forall o l m m',
    o <> OOutOfFuel -> mstep m (IOb o) = Some m' -> mrun m (IOb o :: l) = mrun m' l.
  Proof. intros o l m m' Hnf H. cbn [mrun]. destruct o; try (rewrite H; reflexivity). contradiction Hnf. reflexivity. Qed.

  (* Rin ev: what holds while the step for event ev runs; Rout: what holds between steps.  The start-up
     run counts as the step of a wake-up by the database. *)
  Variable Rin : oevent -> ostate -> M -> Prop.
  Variable Rout : ostate -> M -> Prop.
  Variable m0 : M.
  Hypothesis Hinit : forall sel op iin a, Rin EDbChange (upd_answers (ostate_init cfg sel op iin) a) m0.
  Hypothesis Hstep : forall ev s o s' m,
    ustep cfg (Some ev) s o s' -> Inv cfg s -> Rin ev s m ->
    o = [OOutOfFuel] \/ exists m', mrun m (map IOb o) = Live m' /\ Rin ev s' m'.
  Hypothesis Hev : forall s m ev,
    ev_ok ev -> good s -> Inv cfg s -> Rout s m ->
    exists m', mstep m (IEv (s_now s) ev) = Some m' /\ Rin ev s m'.
  Hypothesis Hend : forall ev s m, Rin ev s m -> good s -> Rout s m.
  Hypothesis Hnow : forall ev s m t,
    Inv cfg s -> Rin ev s m -> quiet_until cfg s t -> good s -> Rout (upd_now s t) m.

  Lemma micros_run : forall ev s o s', micros cfg (Some ev) s o s' -> forall m, Inv cfg s -> Rin ev s m ->
    mrun m (map IOb o) = Dead \/ exists m', mrun m (map IOb o) = Live m' /\ Rin ev s' m'.
  Proof.
    intros ev s o s' H. remember (Some ev) as e eqn:He.
    induction H as [s|s o1 s1 o2 s2 o Hm Hms IH Ho]; intros m Hi Hr; [right; exists m; split; [reflexivity|exact Hr]|].
    subst e. apply micro_ustep in Hm. subst o. rewrite map_app, mrun_app.
    destruct (Hstep _ _ _ _ _ Hm Hi Hr) as [-> |(m1 & Hm1 & Hr1)]; [left; reflexivity|].
    rewrite Hm1. apply IH; [eapply ustep_inv; eauto|exact Hr1].
  Qed.

  Lemma nofuel_map : forall o, ~ In (IOb OOutOfFuel) (map IOb o) -> ~ In OOutOfFuel o.
  Proof. intros o H Hin. apply H. apply in_map_iff. exists OOutOfFuel. split; [reflexivity|exact Hin]. Qed.

  Theorem trace_run : forall s tr, Trace cfg s tr ->
    mrun m0 tr = Dead \/ exists m, mrun m0 tr = Live m /\ Rout s m /\ good s.
  Proof.
    induction 1 as [sel op iin a s o H|s tr ev a s' o Ht IH Hok H].
    - pose proof (ostart_good _ _ _ _ _ _ _ H) as Hg.
      assert (Hms : micros cfg (Some EDbChange) (upd_answers (ostate_init cfg sel op iin) a) o s).
      { unfold ostart in H. eapply idle_loop_micros; [reflexivity|exact H]. }
      destruct (micros_run _ _ _ _ Hms m0 (inv_init _ _ _ _ _) (Hinit _ _ _ _)) as [Hd|(m & Hm & Hr)]; [left; exact Hd|].
      right. exists m. split; [exact Hm|].
      assert (Hg2 : good s).
      { destruct Hg as [Hf|Hg]; [|exact Hg]. exfalso.
        apply mrun_live_nofuel in Hm. apply nofuel_map in Hm. contradiction. }
      split; [eapply Hend; eauto|exact Hg2].
    - rewrite mrun_app. destruct IH as [Hd|(m & Hm & Hr & Hg)]; [left; rewrite Hd; reflexivity|].
      rewrite Hm. pose proof (trace_inv _ _ _ Ht) as Hi.
      destruct (Hev s m ev Hok Hg Hi Hr) as (m1 & Hm1 & Hr1).
      cbn [mrun]. rewrite Hm1.
      pose proof (ostep_good _ _ _ _ _ _ Hg H) as Hg'.
      apply ostep_micros in H. destruct H as (s1 & Hms & Hs).
      destruct (micros_run _ _ _ _ Hms m1 Hi Hr1) as [Hd|(m2 & Hm2 & Hr2)]; [left; exact Hd|].
      right. exists m2. split; [exact Hm2|].
      pose proof Hm2 as Hnf. apply mrun_live_nofuel in Hnf. apply nofuel_map in Hnf.
      assert (Hg2 : good s') by (destruct Hg' as [Hf|Hg']; [contradiction|exact Hg']).
      split; [|exact Hg2].
      destruct Hs as [-> |(t & -> & [Hf|Hq])]; [eapply Hend; [exact Hr2|exact Hg2]|contradiction|].
      eapply Hnow; [eapply micros_ind_inv; eauto|exact Hr2|exact Hq|exact Hg2].
  Qed.
End Monitor.

Arguments mrun {M} mstep m l.

(* ---------- 1. unsolicited responses disabled: every fragment sent is a solicited response ------- *)

Definition tx_solicited (o : oobs) : Prop := match o with OTx _ b => nth 1 b 0 = 129 | _ => True end.

Lemma qob_tx_solicited : forall l, Forall qob l -> Forall tx_solicited l.
Proof.
  intros l H. eapply Forall_impl; [|exact H]. intros o [Ho| ->]; [|exact I].
  destruct o; try exact I. exact Ho.
Qed.

Theorem unsol_disabled_silent : forall cfg s tr,
  o_unsol cfg = false -> Trace cfg s tr ->
  forall d b, In (IOb (OTx d b)) tr -> nth 1 b 0 = 129.
Proof.
  intros cfg s tr Hu Ht d b Hin.
  assert (H : is_uw (s_control s) = false /\ forall o, In (IOb o) tr -> tx_solicited o).
  { eapply (trace_P cfg (fun s => is_uw (s_control s) = false) tx_solicited); [reflexivity| |auto|exact Ht].
    intros e x o x' H [Hl Hw] Hp. destruct H.
    - split; [destruct H2 as [-> |[_ H2]]; assumption|]. apply qob_tx_solicited. auto.
    - congruence.
    - congruence.
    - rewrite H in Hp. discriminate.
    - rewrite H in Hp. discriminate.
    - rewrite H in Hp. discriminate.
    - rewrite H in Hp. discriminate.
    - subst. split; [reflexivity|]. repeat constructor.
    - congruence.
    - subst. split; [reflexivity|]. repeat constructor.
    - subst. split; [exact Hp|]. repeat constructor. }
  destruct H as [_ H]. apply (H _ Hin).
Qed.

(* ---------- 2. only empty responses, each with a fresh sequence number, until one is confirmed ---- *)

Definition is_unsol (b : list N) : bool := nth 1 b 0 =? 130.

(* state: has a confirmation been seen; the sequence number the next empty response must carry *)
Definition null_mon (m : bool * N) (it : item) : option (bool * N) :=
  let '(conf, q) := m in
  match it with
  | IOb (OTx _ b) =>
      if is_unsol b then
        if conf then Some m
        else if (length b =? 4)%nat && (nth 0 b 0 =? 240 + q) then Some (false, seq16_next q) else None
      else Some m
  | IOb (OInfo (IUnsolConfirmed _)) => Some (true, q)
  | _ => Some m
  end.

Definition null_rel (s : ostate) (m : bool * N) : Prop :=
  fst m = false -> s_unsol s = UNullRequired /\ s_unsol_seq s = snd m /\ snd m < 16.

Lemma qob_not_fuel : forall o, qob o -> o <> OOutOfFuel.
Proof. intros o [H| ->] E; [subst; exact H|discriminate]. Qed.

Lemma solob_not_unsol : forall d b, solob (OTx d b) -> is_unsol b = false.
Proof. intros d b H. unfold is_unsol. cbn in H. rewrite H. reflexivity. Qed.

Lemma null_mon_qob : forall m o, qob o -> null_mon m (IOb o) = Some m /\ o <> OOutOfFuel.
Proof.
  intros [conf q] o Hq. split; [|apply qob_not_fuel; exact Hq].
  destruct Hq as [Hs| ->]; [|reflexivity].
  destruct o; try reflexivity.
  - cbn [null_mon]. rewrite (solob_not_unsol _ _ Hs). reflexivity.
  - destruct i; try reflexivity. destruct Hs.
Qed.

Lemma evq_qob : forall o, evq o -> qob o.
Proof. intros o H. left. apply evq_solob. exact H. Qed.

Lemma uns_ctl_val : forall q, q < 16 -> uns_ctl q = 240 + q.
Proof. intros q H. unfold uns_ctl, ctl_byte. rewrite N.mod_small by exact H. reflexivity. Qed.

Lemma seq16_next_lt : forall q, seq16_next q < 16.
Proof. intros q. unfold seq16_next. apply N.mod_lt. discriminate. Qed.

Lemma response_bytes_len : forall r buf, r_size r = 0%nat -> length (response_bytes r buf) = 4%nat.
Proof. intros r buf H. unfold response_bytes. rewrite H. reflexivity. Qed.

Lemma null_hstep : forall cfg e s o s' m,
  ustep cfg e s o s' -> Inv cfg s -> null_rel s m ->
  o = [OOutOfFuel] \/ exists m', mrun null_mon m (map IOb o) = Live m' /\ null_rel s' m'.
Proof.
  intros cfg e s o s' [conf q] H [Hl Hw] Hr. unfold null_rel in *. cbn [fst snd] in *.
  assert (Hskip : forall l, Forall qob l -> forall m, mrun null_mon m (map IOb l) = Live m).
  { intros l Hq m. apply mrun_skip. eapply Forall_impl; [|exact Hq]. intros a Ha. apply null_mon_qob. exact Ha. }
  destruct H.
  - (* quiet *) right. exists (conf, q). split; [apply Hskip; auto|]. unfold qv in H1.
    cbn [fst snd]. intros Hc. destruct (Hr Hc) as (A & B & C). split; [congruence|split; [congruence|exact C]].
  - (* null *) right.
    destruct H2 as (r & o1 & -> & Ho1 & Hf & Hctl & Hsz & Hc & Hq & Hb & Hu & _).
    rewrite map_app, mrun_app, Hskip by (eapply Forall_impl; [|exact Ho1]; apply evq_qob).
    cbn [map]. destruct conf.
    + exists (true, q). split; [|discriminate].
      erewrite mrun_cons; [|discriminate|cbn [null_mon]; unfold is_unsol; rewrite nth1_response_bytes, Hf; reflexivity].
      reflexivity.
    + destruct (Hr eq_refl) as (A & B & C). exists (false, seq16_next q). split.
      * erewrite mrun_cons; [|discriminate|]; cycle 1.
        { cbn [null_mon]. unfold is_unsol. rewrite nth1_response_bytes, Hf. cbn [N.eqb Pos.eqb].
          rewrite response_bytes_len by exact Hsz. rewrite nth0_response_bytes, Hctl, B, uns_ctl_val by exact C.
          rewrite N.eqb_refl. reflexivity. }
        reflexivity.
      * cbn [fst snd]. intros _. split; [congruence|]. split; [congruence|apply seq16_next_lt].
  - (* data: only after a confirmation *) right. destruct conf; [|destruct (Hr eq_refl) as (A & _); congruence].
    exists (true, q). split; [|discriminate]. subst o.
    destruct H6 as (r & o1 & -> & Ho1 & Hf & _).
    cbn [map]. erewrite mrun_cons; [|discriminate|reflexivity].
    rewrite map_app, mrun_app, Hskip by (eapply Forall_impl; [|exact Ho1]; apply evq_qob).
    cbn [map]. erewrite mrun_cons; [|discriminate|cbn [null_mon]; unfold is_unsol; rewrite nth1_response_bytes, Hf; reflexivity].
    reflexivity.
  - (* confirmed *) right. exists (true, q). split; [|discriminate]. subst o. destruct n; reflexivity.
  - (* DISABLE_UNSOLICITED in the wait *) right. exists (conf, q). subst o. split.
    + rewrite map_app, mrun_app, Hskip by (apply solob_qob; auto). destruct n; reflexivity.
    + cbn [fst snd]. intros Hc. destruct (Hr Hc) as (A & B & C). rewrite H in Hw. destruct Hw as (_ & _ & Hn).
      destruct n; [|destruct Hn as [d Hd]; congruence]. split; [exact H5|]. split; [congruence|exact C].
  - (* retry: never for an empty response *) right. rewrite H in Hw. destruct Hw as (Hf & _ & Hn).
    destruct n; [destruct Hn as (-> & _); discriminate H1|]. destruct Hn as [d Hd].
    destruct conf; [|destruct (Hr eq_refl) as (A & _); congruence].
    exists (true, q). split; [|discriminate]. subst o. unfold repeat_unsolicited. cbn [map].
    erewrite mrun_cons; [|discriminate|reflexivity]. erewrite mrun_cons; [|discriminate|reflexivity].
    erewrite mrun_cons; [|discriminate|cbn [null_mon]; unfold is_unsol; rewrite nth1_response_bytes, Hf; reflexivity].
    reflexivity.
  - (* timeout *) right. exists (conf, q). subst o. split; [destruct n; reflexivity|].
    cbn [fst snd]. intros Hc. destruct (Hr Hc) as (A & B & C). rewrite H in Hw. destruct Hw as (_ & _ & Hn).
    destruct n; [|destruct Hn as [d Hd]; congruence]. split; [exact H4|]. split; [congruence|exact C].
  - right. exists (conf, q). subst. split; [reflexivity|exact Hr].
  - right. exists (conf, q). subst. split; [reflexivity|exact Hr].
  - right. exists (conf, q). subst. split; [reflexivity|exact Hr].
  - left. assumption.
Qed.

Theorem null_until_confirmed_mon : forall cfg s tr,
  Trace cfg s tr -> mrun null_mon (false, 0) tr <> Bad.
Proof.
  intros cfg s tr Ht.
  destruct (trace_run cfg _ null_mon (fun _ => null_rel) null_rel (false, 0)) with (s := s) (tr := tr)
    as [Hd|(m & Hm & _)];
    try (rewrite Hd; discriminate); try (rewrite Hm; discriminate); try exact Ht.
  - intros sel op iin a _. split; [reflexivity|split; reflexivity].
  - intros ev x o x' m. apply null_hstep.
  - intros x [conf q] ev _ _ _ Hr. exists (conf, q). split; [reflexivity|exact Hr].
  - intros ev x m Hr _. exact Hr.
  - intros ev x m t _ Hr _ _. exact Hr.
Qed.

(* in plain terms: before the first confirmation the k-th unsolicited response is 4 bytes long and
   carries sequence number k mod 16 *)
Fixpoint unsol_txs (l : list item) : list (list N) :=
  match l with
  | [] => []
  | IOb (OTx _ b) :: r => if is_unsol b then b :: unsol_txs r else unsol_txs r
  | _ :: r => unsol_txs r
  end.

Fixpoint null_seq (q : N) (l : list (list N)) : Prop :=
  match l with
  | [] => True
  | b :: r => length b = 4%nat /\ nth 0 b 0 = 240 + q /\ null_seq (seq16_next q) r
  end.

Definition no_confirm (l : list item) : Prop := forall q, ~ In (IOb (OInfo (IUnsolConfirmed q))) l.
Definition no_fuel (l : list item) : Prop := ~ In (IOb OOutOfFuel) l.

Lemma null_mon_seq : forall l q,
  mrun null_mon (false, q) l <> Bad -> no_confirm l -> no_fuel l -> null_seq q (unsol_txs l).
Proof.
  induction l as [|x r IH]; intros q H Hc Hf; [exact I|].
  assert (Hc' : no_confirm r) by (intros z Hz; apply (Hc z); right; exact Hz).
  assert (Hf' : no_fuel r) by (intros Hz; apply Hf; right; exact Hz).
  destruct x as [t ev|o]; [apply IH; assumption|].
  destruct o; try (apply IH; assumption).
  - cbn [unsol_txs]. cbn [mrun null_mon] in H. destruct (is_unsol bytes); [|apply IH; assumption].
    destruct (_ && _) eqn:E; [|contradiction H; reflexivity].
    apply andb_true_iff in E. destruct E as [E1 E2]. apply Nat.eqb_eq in E1. apply N.eqb_eq in E2.
    split; [exact E1|]. split; [exact E2|]. apply IH; assumption.
  - destruct i; try (apply IH; assumption). exfalso. apply (Hc ecsn). left. reflexivity.
  - exfalso. apply Hf. left. reflexivity.
Qed.

Lemma mrun_prefix : forall (M : Type) (f : M -> item -> option M) m l1 l2,
  mrun f m (l1 ++ l2) <> Bad -> mrun f m l1 <> Bad.
Proof. intros M f m l1 l2 H E. apply H. rewrite mrun_app, E. reflexivity. Qed.

Theorem null_until_confirmed : forall cfg s tr pre post,
  Trace cfg s tr -> tr = pre ++ post -> no_confirm pre -> no_fuel pre ->
  null_seq 0 (unsol_txs pre).
Proof.
  intros cfg s tr pre post Ht -> Hc Hf. apply null_mon_seq; [|exact Hc|exact Hf].
  eapply mrun_prefix. eapply null_until_confirmed_mon. exact Ht.
Qed.

(* the state side: an empty response is never retried, and it is what a session in NullRequired waits for *)
Theorem null_never_retried : forall cfg s tr r ret dl,
  Trace cfg s tr -> s_control s = CUnsolWait r true ret dl ->
  ret = Some 0%nat /\ r_size r = 0%nat /\ s_unsol s = UNullRequired.
Proof.
  intros cfg s tr r ret dl Ht Hc. apply trace_inv in Ht. destruct Ht as [_ Hw]. rewrite Hc in Hw.
  destruct Hw as (_ & _ & H). exact H.
Qed.
