From Dnp3V Require Import Outstation.Session Outstation.SessionLemmas_c14 scratch.c14p_wip scratch.c14q_wip.
Open Scope N_scope.

(* ---------- 6a. what ends a series without confirmation arms the retry delay ----------------------- *)

Theorem retry_delay_set : forall cfg s r s' ns o,
  end_unsol cfg s false r = (s', ns, o) -> r <> UrConfirmed ->
  s_unsol s' = UReady (Some (s_now s + o_retry_delay_ms cfg)%Z) /\ s_control s' = CIdle /\ ns = false /\
  o = [ODb DbReset].
Proof.
  intros cfg s r s' ns o H Hr. apply end_unsol_spec in H. destruct H as (Hc & _ & Hu & Ho & Hn).
  destruct r; [contradiction Hr; reflexivity| |]; repeat split; assumption.
Qed.

Theorem check_not_ready : forall cfg s t,
  s_unsol s = UReady (Some t) -> (s_now s < t)%Z -> check_unsolicited cfg s = (s, false, []).
Proof.
  intros cfg s t Hu Hl. unfold check_unsolicited. destruct (negb (o_unsol cfg)); [reflexivity|].
  rewrite Hu. apply Z.leb_gt in Hl. rewrite Hl. reflexivity.
Qed.

(* 3 (core): check_unsolicited sends event data only when ready, enabled, after NullRequired is left *)
Theorem data_start_conditions : forall cfg x x' b o d bytes,
  check_unsolicited cfg x = (x', b, o) -> In (OTx d bytes) o -> (4 < length bytes)%nat ->
  o_unsol cfg = true /\
  exists dl c1 c2 c3 o',
    s_unsol x = UReady dl /\ unsol_ready x dl = true /\ any_enabled x = true /\ s_enabled x = (c1, c2, c3) /\
    o = ODb (DbWriteUnsol c1 c2 c3) :: o'.
Proof.
  intros cfg x x' b o d bytes H Hin Hlen. apply check_unsolicited_spec in H.
  destruct H as [[-> _]|[(Hu & Hs & Hst)|(Hu & dl & c1 & c2 & c3 & body & o' & Hs & Hr & Ha & He & -> & Hst)]].
  - destruct Hin.
  - exfalso. destruct Hst as (r & o1 & -> & Ho1 & _ & _ & Hsz & _).
    apply in_app_or in Hin. destruct Hin as [Hin|[Hin|[Hin|[]]]].
    + rewrite Forall_forall in Ho1. apply Ho1 in Hin. destruct Hin as [Hin|Hin]; discriminate Hin.
    + inversion Hin; subst. rewrite response_bytes_len in Hlen by exact Hsz. lia.
    + discriminate Hin.
  - split; [exact Hu|]. exists dl, c1, c2, c3, o'. repeat split; assumption.
Qed.

(* ---------- 8. a READ during the wait ------------------------------------------------------------------ *)

Definition next_fid (s : ostate) : N := (s_frame_id s + 1) mod 4294967296.

Lemma classify_read : forall s bytes ctl hdrs rh,
  classify s None bytes ctl 1 (ObjOk hdrs rh) = FtNewRead hdrs rh \/
  exists r, classify s None bytes ctl 1 (ObjOk hdrs rh) = FtRepeatRead r hdrs rh.
Proof.
  intros s bytes ctl hdrs rh. unfold classify. cbn [N.eqb fn_confirm Pos.eqb fn_read].
  destruct (match s_last s with Some l => _ | None => false end); [right; eauto|left; reflexivity].
Qed.

(* an accepted READ addressed to this outstation is not answered and not dropped: it is kept *)
Theorem read_deferred : forall cfg s resp n ret dl from bytes d ctl hdrs rh,
  s_control s = CUnsolWait resp n ret dl ->
  to_treq cfg from d = TqRequest ctl 1 (ObjOk hdrs rh) ->
  on_rx cfg s from None bytes d =
  (deferred_set (upd_frame_id s (next_fid s)) bytes (ctl_seq ctl) from rh, []).
Proof.
  intros cfg s resp n ret dl from bytes d ctl hdrs rh Hc Ht. unfold on_rx. cbv zeta.
  change (s_control (upd_frame_id s ((s_frame_id s + 1) mod 4294967296))) with (s_control s). rewrite Hc.
  unfold unsol_wait_fragment. rewrite Ht.
  change (classify (upd_frame_id s ((s_frame_id s + 1) mod 4294967296)) None bytes ctl 1 (ObjOk hdrs rh))
    with (classify s None bytes ctl 1 (ObjOk hdrs rh)).
  destruct (classify_read s bytes ctl hdrs rh) as [-> |[r ->]]; reflexivity.
Qed.

(* what any fragment during the wait does to the deferred READ *)
Theorem deferred_superseded : forall cfg s resp from bc bytes d fid s1 res o,
  unsol_wait_fragment cfg s resp from bc bytes d fid = (s1, res, o) ->
  match to_treq cfg from d with
  | TqNone => s_deferred s1 = s_deferred s
  | TqError _ => s_deferred s1 = None
  | TqRequest ctl fn obj =>
      match classify s bc bytes ctl fn obj with
      | FtUnsolConfirm _ | FtSolConfirm _ => s_deferred s1 = s_deferred s
      | FtNewRead _ rh | FtRepeatRead _ _ rh =>
          s_deferred s1 = Some {| df_bytes := bytes; df_seq := ctl_seq ctl; df_from := from;
                                  df_iin2 := if forallb (fun b => b) rh then 0 else iin2_param |} /\
          res = None /\ o = []
      | _ => s_deferred s1 = None
      end
  end.
Proof.
  intros cfg s resp from bc bytes d fid s1 res o H. unfold unsol_wait_fragment in H.
  destruct (to_treq cfg from d) as [|q|ctl fn obj].
  - inv_pair H. reflexivity.
  - destruct (write_error_response (upd_deferred s None) from bc q) as [s2 o2] eqn:E. inv_pair H.
    apply write_error_response_spec in E. destruct E as [Hf _]. apply frame_wview in Hf. destruct Hf as (_ & Hd & _).
    exact Hd.
  - cbv zeta in H. destruct (classify s bc bytes ctl fn obj) as [iin2|hdrs rh|rsp hdrs rh|hdrs|rsp|m|q|q].
    + destruct (write_solicited (upd_deferred s None) from (empty_solicited (ctl_seq ctl) iin2)) as [[s2 r2] o2] eqn:E.
      inv_pair H. apply write_solicited_frame in E. apply frame_wview in E. destruct E as (_ & Hd & _). exact Hd.
    + inv_pair H. repeat split.
    + inv_pair H. repeat split.
    + destruct (handle_non_read cfg (upd_deferred s None) fn (ctl_seq ctl) fid bytes hdrs) as [[s2 r] o1] eqn:E1.
      apply handle_non_read_spec in E1. destruct E1 as (Hg & _). apply gview_wview in Hg. destruct Hg as (_ & Hd & _).
      destruct r as [r0|].
      * destruct (write_solicited s2 from r0) as [[s3 r1] o2] eqn:E2. inv_pair H.
        apply write_solicited_frame in E2. apply frame_wview in E2. destruct E2 as (_ & Hd3 & _).
        cbn. rewrite Hd3, Hd. reflexivity.
      * inv_pair H. cbn. rewrite Hd. reflexivity.
    + inv_pair H. reflexivity.
    + destruct (process_broadcast cfg (upd_deferred s None) m fid ctl fn bytes obj) as [s2 o2] eqn:E. inv_pair H.
      apply process_broadcast_spec in E. destruct E as (Hg & _). apply gview_wview in Hg. destruct Hg as (_ & Hd & _).
      exact Hd.
    + inv_pair H. destruct (s_last_bcast s) as [[]|]; reflexivity.
    + destruct (q =? ctl_seq (r_ctl resp)); inv_pair H; reflexivity.
Qed.

(* requests other than READ are answered in the step they arrive in *)
Definition is_tx_to (from : N) (seq : N) (o : oobs) : Prop :=
  exists b, o = OTx from b /\ nth 1 b 0 = 129 /\ ctl_seq (nth 0 b 0) = seq mod 16.

Theorem non_read_immediate : forall cfg s resp from bc bytes d fid s1 res o ctl fn obj,
  unsol_wait_fragment cfg s resp from bc bytes d fid = (s1, res, o) ->
  to_treq cfg from d = TqRequest ctl fn obj ->
  match classify s bc bytes ctl fn obj with
  | FtMalformed _ => exists o1 x, o = o1 ++ [x] /\ is_tx_to from (ctl_seq ctl) x /\ Forall evq o1
  | FtNewNonRead _ =>
      noresp_fn fn \/
      exists o1 x, o = o1 ++ [x] /\ is_tx_to from (ctl_seq ctl) x /\ Forall (fun y => exob y \/ evq y) o1
  | FtRepeatNonRead (Some r) => o = [OTx from (response_bytes r (s_sol_buf s))]
  | _ => True
  end.
Proof.
  intros cfg s resp from bc bytes d fid s1 res o ctl fn obj H Ht. unfold unsol_wait_fragment in H.
  rewrite Ht in H. cbv zeta in H.
  destruct (classify s bc bytes ctl fn obj) as [iin2|hdrs rh|rsp hdrs rh|hdrs|rsp|m|q|q]; try exact I.
  - destruct (write_solicited (upd_deferred s None) from (empty_solicited (ctl_seq ctl) iin2)) as [[s2 r2] o2] eqn:E.
    inv_pair H. apply write_solicited_spec in E. destruct E as (o1 & -> & Ho1 & Hf & Hc & _).
    exists o1, (OTx from (response_bytes r2 (s_sol_buf s1))). split; [reflexivity|]. split; [|exact Ho1].
    eexists. split; [reflexivity|]. rewrite nth1_response_bytes, nth0_response_bytes, Hf, Hc.
    split; [reflexivity|]. cbn [empty_solicited r_ctl]. apply ctl_seq_ctl_byte.
  - destruct (handle_non_read cfg (upd_deferred s None) fn (ctl_seq ctl) fid bytes hdrs) as [[s2 r] o1] eqn:E1.
    apply handle_non_read_spec in E1. destruct E1 as (_ & Ho1 & Hr & Hn & _).
    destruct r as [r0|]; [right|left; apply Hn; reflexivity].
    destruct (write_solicited s2 from r0) as [[s3 r1] o2] eqn:E2. inv_pair H.
    apply write_solicited_spec in E2. destruct E2 as (oz & -> & Hoz & Hf & Hc & _).
    destruct (Hr r0 eq_refl) as [Hf0 Hc0].
    exists (o1 ++ oz), (OTx from (response_bytes r1 (s_sol_buf s3))). split; [rewrite app_assoc; reflexivity|].
    split.
    + eexists. split; [reflexivity|]. rewrite nth1_response_bytes, nth0_response_bytes, Hf, Hc, Hc0.
      split; [exact Hf0|]. apply ctl_seq_ctl_byte.
    + apply Forall_app. split; (eapply Forall_impl; [|eassumption]); intros y Hy; [left|right]; exact Hy.
  - destruct rsp as [r|]; [|exact I]. inv_pair H. reflexivity.
Qed.

(* a step of the idle loop entered at the deferred-READ stage begins with what handle_deferred does *)
Lemma idle_run_St3 : forall cfg f ns s s2 o,
  idle_run (S f) cfg (St3 ns) s = (s2, o) ->
  exists s3 o3 rest, handle_deferred cfg s ns = (s3, o3) /\ o = o3 ++ rest.
Proof.
  intros cfg f ns s s2 o H. cbn [idle_run] in H.
  destruct (handle_deferred cfg s ns) as [s3 o3] eqn:E. exists s3, o3.
  destruct (s_control s3).
  - destruct (idle_run f cfg (St4 ns) s3) as [s4 o4]. inv_pair H. exists o4. split; reflexivity.
  - inv_pair H. exists []. rewrite app_nil_r. split; reflexivity.
  - inv_pair H. exists []. rewrite app_nil_r. split; reflexivity.
Qed.

(* the answer to a deferred READ: selected in the database, answered to its sender with its sequence number *)
Definition served (df : deferred) (o : list oobs) : Prop :=
  exists o1 b o2, o = ODb DbDeferredSelect :: o1 ++ OTx (df_from df) b :: o2 /\ Forall dbq o1 /\
                  nth 1 b 0 = 129 /\ ctl_seq (nth 0 b 0) = df_seq df mod 16.

Lemma resume_St3_served : forall cfg ns s s2 o df,
  resume_at cfg (St3 ns) s = (s2, o) -> s_deferred s = Some df ->
  exists ans, served df ans /\ exists tl, o = ans ++ tl.
Proof.
  intros cfg ns s s2 o df H Hd. unfold resume_at in H. apply idle_run_St3 in H.
  destruct H as (s3 & o3 & rest & E & ->). apply handle_deferred_spec in E. rewrite Hd in E.
  destruct E as (_ & _ & _ & _ & o1 & b & o2 & -> & Ho1 & Hb1 & Hb0 & _).
  exists (ODb DbDeferredSelect :: o1 ++ OTx (df_from df) b :: o2). split; [|exists rest; reflexivity].
  exists o1, b, o2. repeat split; assumption.
Qed.

(* the confirm timeout with a READ pending: no retry, the series ends, the READ is answered *)
Theorem deferred_served_timeout : forall cfg s resp n ret dl df s2 o,
  s_control s = CUnsolWait resp n ret dl -> s_deferred s = Some df ->
  fire_deadline cfg s = (s2, o) ->
  exists ans tl,
    o = OInfo (IUnsolTimeout (ctl_seq (r_ctl resp)) false) :: (if n then [] else [ODb DbReset]) ++ ans ++ tl /\
    served df ans.
Proof.
  intros cfg s resp n ret dl df s2 o Hc Hd H. unfold fire_deadline in H. rewrite Hc in H. cbv zeta in H.
  rewrite Hd in H. rewrite andb_false_r in H.
  destruct (end_unsol cfg s n UrTimeout) as [[s3 ns] o2] eqn:E2.
  destruct (resume_at cfg (St3 ns) s3) as [s4 o3] eqn:E3. inv_pair H.
  apply end_unsol_spec in E2. destruct E2 as (_ & Hv & _ & -> & _).
  assert (Hd2 : s_deferred s3 = Some df) by congruence.
  destruct (resume_St3_served _ _ _ _ _ _ E3 Hd2) as (ans & Hs & tl & ->).
  exists ans, tl. split; [|exact Hs]. cbn [app]. destruct n; reflexivity.
Qed.

(* the confirmation with a READ pending *)
Theorem deferred_served_confirm : forall cfg s resp n ret dl df from bytes d ctl obj s2 o,
  s_control s = CUnsolWait resp n ret dl -> s_deferred s = Some df ->
  to_treq cfg from d = TqRequest ctl fn_confirm obj ->
  ctl_uns ctl = true -> ctl_seq ctl = ctl_seq (r_ctl resp) ->
  on_rx cfg s from None bytes d = (s2, o) ->
  exists ans tl,
    o = OInfo (IUnsolConfirmed (ctl_seq (r_ctl resp))) :: (if n then [] else [ODb DbClearWritten]) ++ ans ++ tl /\
    served df ans.
Proof.
  intros cfg s resp n ret dl df from bytes d ctl obj s2 o Hc Hd Ht Hu Hq H. unfold on_rx in H. cbv zeta in H.
  change (s_control (upd_frame_id s ((s_frame_id s + 1) mod 4294967296))) with (s_control s) in H. rewrite Hc in H.
  unfold unsol_wait_fragment in H. rewrite Ht in H. cbv zeta in H.
  unfold classify in H. cbn [N.eqb fn_confirm] in H. rewrite Hu, Hq, N.eqb_refl in H.
  match type of H with (let '(_, _) := ?X in _) = _ => destruct X as [[s3 ns] o2] eqn:E2 end.
  match type of H with (let '(_, _) := ?X in _) = _ => destruct X as [s4 o3] eqn:E3 end. inv_pair H.
  apply end_unsol_spec in E2. destruct E2 as (_ & Hv & _ & -> & _). psimpl_in Hv.
  assert (Hd2 : s_deferred s3 = Some df) by congruence.
  destruct (resume_St3_served _ _ _ _ _ _ E3 Hd2) as (ans & Hs & tl & ->).
  exists ans, tl. split; [|exact Hs]. cbn [app]. destruct n; reflexivity.
Qed.

Lemma advance_first : forall f cfg s target d,
  next_deadline cfg s = Some d -> (d <= target)%Z ->
  advance (S f) cfg s target =
  let '(s1, o1) := fire_deadline cfg (upd_now s (Z.max d (s_now s))) in
  let '(s2, o2) := advance f cfg s1 target in (s2, OAt (Z.max d (s_now s)) :: o1 ++ o2).
Proof.
  intros f cfg s target d Hn Hle. cbn [advance]. rewrite Hn. apply Z.leb_le in Hle. rewrite Hle. reflexivity.
Qed.

(* as a step: time passes up to the deadline with a READ pending *)
Theorem deferred_served_sleep : forall cfg s resp n ret dl df ms a s2 o,
  s_control s = CUnsolWait resp n ret dl -> s_deferred s = Some df -> (dl <= s_now s + ms)%Z ->
  ostep cfg s (ESleep ms) a = (s2, o) ->
  exists ans tl,
    o = OAt (Z.max dl (s_now s)) :: OInfo (IUnsolTimeout (ctl_seq (r_ctl resp)) false)
        :: (if n then [] else [ODb DbReset]) ++ ans ++ tl /\
    served df ans.
Proof.
  intros cfg s resp n ret dl df ms a s2 o Hc Hd Hle H. unfold ostep in H.
  set (s0 := upd_answers s a) in *.
  assert (Hn : next_deadline cfg s0 = Some dl) by (unfold next_deadline; subst s0; psimpl; rewrite Hc; reflexivity).
  rewrite (advance_first _ cfg s0 _ dl Hn Hle) in H.
  destruct (fire_deadline cfg (upd_now s0 (Z.max dl (s_now s0)))) as [s1 o1] eqn:E1.
  match type of H with context [advance ?f cfg s1 ?tg] => destruct (advance f cfg s1 tg) as [s3 o3] eqn:E3 end.
  cbv beta iota in H. inv_pair H.
  eapply (deferred_served_timeout cfg _ resp n ret dl df) in E1; [|exact Hc|exact Hd].
  destruct E1 as (ans & tl & -> & Hs). exists ans, (tl ++ o3). split; [|exact Hs].
  cbn [app]. f_equal. f_equal. rewrite <- !app_assoc. reflexivity.
Qed.
