From Dnp3V Require Import Outstation.Session.
Open Scope N_scope.
Definition cfg0 : ocfg := {| o_master := 1; o_any_master := false; o_unsol := false; o_broadcast := true;
  o_confirm_ms := 5000; o_select_ms := 5000; o_retries := None; o_retry_delay_ms := 0; o_max_controls := None;
  o_sol_tx := 2048; o_delay_ms := 0; o_cold := None; o_warm := None; o_wtime := 0; o_freeze := 0 |}.
Definition crob : list N := [3;1;100;0;0;0;100;0;0;0;0].
Definition objs : list N := [12;1;23;1;7] ++ crob.
Definition hd : list whdr := [WCtl 12 1 1 [(7, crob)]].
Definition sel_ev (seq : N) := ERx 1 None ([192+seq; 3] ++ objs) (DOk (192+seq) 3 RvOk (ObjOk hd [true])).
Definition op_ev (seq : N) := ERx 1 None ([192+seq; 4] ++ objs) (DOk (192+seq) 4 RvOk (ObjOk hd [true])).
Definition wr_ev (seq : N) := ERx 1 None ([192+seq; 2; 80;1;0;7;7;0]) (DOk (192+seq) 2 RvOk (ObjOk [WIin [(7,false)]] [true])).
Definition ev1 := [AEvinfo false false false false].
Definition st0 := fst (ostart cfg0 0 0 0 []).
Definition cbs_of (l : list (list oobs)) := map (fun o => filter (fun x => match x with OCb _ => true | _ => false end) o) l.
Eval vm_compute in cbs_of (orun cfg0 st0 [(sel_ev 5, ev1); (wr_ev 6, ev1); (wr_ev 6, ev1); (op_ev 6, ev1)]).
Eval vm_compute in (orun cfg0 st0 [(sel_ev 5, ev1); (wr_ev 6, ev1); (wr_ev 6, ev1); (op_ev 6, ev1)]).
Eval vm_compute in cbs_of (orun cfg0 st0 [(sel_ev 5, ev1); (wr_ev 6, ev1); (op_ev 6, ev1)]).
