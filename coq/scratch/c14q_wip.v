From Dnp3V Require Import Outstation.Session Outstation.SessionLemmas_c14 scratch.c14p_wip.
Open Scope N_scope.

(* ---------- 3/4/5. one series at a time: first transmission, identical re-sends, bounded retries ----- *)

(* what the monitor knows about the outstanding response: nothing outstanding / bytes b outstanding with
   `ret` re-sends left / b outstanding unless the DISABLE_UNSOLICITED just answered ended the wait /
   a retry was announced, the re-send of b is due *)
Inductive wst :=
| WNone
| WSome (b : list N) (ret : option nat)
| WMaybe (b : list N) (ret : option nat)
| WResend (b : list N) (ret : option nat).

Record sm := { sm_w : wst; sm_armed : bool; sm_dis : bool; sm_conf : bool }.

Definition sm_set_w (m : sm) (w : wst) : sm :=
  {| sm_w := w; sm_armed := sm_armed m; sm_dis := sm_dis m; sm_conf := sm_conf m |}.

(* the event is a DISABLE_UNSOLICITED request addressed to this outstation alone *)
Definition is_disable_ev (ev : oevent) : bool :=
  match ev with ERx _ None _ (DOk _ fn RvOk _) => fn =? 21 | _ => false end.

Definition series_mon (cfg : ocfg) (m : sm) (it : item) : option sm :=
  match it with
  | IEv _ ev => Some {| sm_w := sm_w m; sm_armed := sm_armed m; sm_dis := is_disable_ev ev; sm_conf := sm_conf m |}
  | IOb (ODb (DbWriteUnsol c1 c2 c3)) =>
      (* event data is collected: some class enabled, an empty response was confirmed before, nothing outstanding *)
      match sm_w m with
      | WNone | WMaybe _ _ =>
          if (c1 || c2 || c3) && sm_conf m
          then Some {| sm_w := sm_w m; sm_armed := true; sm_dis := sm_dis m; sm_conf := sm_conf m |}
          else None
      | _ => None
      end
  | IOb (OTx _ b) =>
      if is_unsol b then
        match sm_w m with
        | WResend b0 ret => if bytes_eqb b0 b then Some (sm_set_w m (WSome b0 ret)) else None
        | WSome _ _ => None
        | WNone | WMaybe _ _ =>
            if (4 <? length b)%nat && negb (sm_armed m) then None
            else Some {| sm_w := WSome b (if sm_armed m then o_retries cfg else Some 0%nat);
                         sm_armed := false; sm_dis := sm_dis m; sm_conf := sm_conf m |}
        end
      else if sm_dis m then
        match sm_w m with WSome b0 ret => Some (sm_set_w m (WMaybe b0 ret)) | _ => Some m end
      else Some m
  | IOb (OInfo (IUnsolTimeout _ retry)) =>
      match sm_w m with
      | WSome b ret | WMaybe b ret =>
          if retry then (if can_retry ret then Some (sm_set_w m (WResend b (dec_retries ret))) else None)
          else Some (sm_set_w m WNone)
      | _ => None
      end
  | IOb (OInfo (IUnsolConfirmed _)) =>
      match sm_w m with
      | WSome _ _ | WMaybe _ _ => Some {| sm_w := WNone; sm_armed := sm_armed m; sm_dis := sm_dis m; sm_conf := true |}
      | _ => None
      end
  | IOb OSessionEnd => Some (sm_set_w m WNone)
  | _ => Some m
  end.

Definition sm0 : sm := {| sm_w := WNone; sm_armed := false; sm_dis := false; sm_conf := false |}.

Definition w_rel (s : ostate) (w : wst) : Prop :=
  match s_control s with
  | CUnsolWait r n ret dl =>
      w = WSome (response_bytes r (s_unsol_buf s)) ret \/ w = WMaybe (response_bytes r (s_unsol_buf s)) ret
  | _ => w = WNone \/ exists b ret, w = WMaybe b ret
  end.

Definition series_rel (e : option oevent) (s : ostate) (m : sm) : Prop :=
  sm_armed m = false /\
  (sm_conf m = false -> s_unsol s = UNullRequired) /\
  pend_ok e s /\
  match e with Some ev => sm_dis m = is_disable_ev ev | None => True end /\
  w_rel s (sm_w m).

(* the solicited side can only turn "outstanding" into "outstanding unless the wait just ended" *)
Definition relax (m m' : sm) : Prop :=
  m' = m \/ exists b ret, sm_w m = WSome b ret /\ m' = sm_set_w m (WMaybe b ret).

Lemma relax_refl : forall m, relax m m.
Proof. left. reflexivity. Qed.

Lemma relax_fields : forall m m', relax m m' ->
  sm_armed m' = sm_armed m /\ sm_dis m' = sm_dis m /\ sm_conf m' = sm_conf m.
Proof. intros m m' [-> |(b & ret & _ & ->)]; repeat split. Qed.

Lemma relax_trans : forall a b c, relax a b -> relax b c -> relax a c.
Proof.
  intros a b c [-> |(x & r & Hw & ->)] H; [exact H|].
  destruct H as [-> |(x' & r' & Hw' & ->)]; [right; eauto|]. cbn in Hw'. discriminate.
Qed.

Lemma series_mon_qob : forall cfg m o, qob o ->
  exists m', series_mon cfg m (IOb o) = Some m' /\ relax m m' /\ o <> OOutOfFuel.
Proof.
  intros cfg m o Hq. pose proof (qob_not_fuel _ Hq) as Hnf.
  assert (Hsame : series_mon cfg m (IOb o) = Some m ->
                  exists m', series_mon cfg m (IOb o) = Some m' /\ relax m m' /\ o <> OOutOfFuel).
  { intros E. exists m. split; [exact E|]. split; [apply relax_refl|exact Hnf]. }
  destruct Hq as [Hs| ->]; [|apply Hsame; reflexivity].
  destruct o; try (apply Hsame; reflexivity).
  - assert (E : series_mon cfg m (IOb (OTx dest bytes)) =
                if sm_dis m then match sm_w m with WSome b0 ret => Some (sm_set_w m (WMaybe b0 ret)) | _ => Some m end
                else Some m)
      by (cbn [series_mon]; rewrite (solob_not_unsol _ _ Hs); reflexivity).
    destruct (sm_dis m); [|apply Hsame; exact E].
    destruct (sm_w m) as [|b ret|b ret|b ret] eqn:Ew; try (apply Hsame; exact E).
    eexists. split; [exact E|]. split; [right; eauto|exact Hnf].
  - destruct c; try (apply Hsame; reflexivity); destruct Hs.
  - destruct i; try (apply Hsame; reflexivity); destruct Hs.
  - destruct Hs.
Qed.

Lemma series_mon_quiet : forall cfg l m, Forall qob l ->
  exists m', mrun (series_mon cfg) m (map IOb l) = Live m' /\ relax m m'.
Proof.
  induction l as [|o r IH]; intros m H; [exists m; split; [reflexivity|apply relax_refl]|].
  inversion H as [|o' r' Ho Hr]; subst.
  destruct (series_mon_qob cfg m o Ho) as (m1 & H1 & R1 & Hnf).
  destruct (IH m1 Hr) as (m2 & H2 & R2).
  exists m2. split; [|eapply relax_trans; eauto].
  cbn [map]. erewrite mrun_cons; [exact H2|exact Hnf|exact H1].
Qed.

Lemma relax_same : forall m m', relax m m' -> (forall b ret, sm_w m <> WSome b ret) -> m' = m.
Proof. intros m m' [-> |(b & ret & Hw & _)] H; [reflexivity|]. exfalso. eapply H. exact Hw. Qed.

Lemma w_rel_idle_not_some : forall s w, is_uw (s_control s) = false -> w_rel s w -> forall b ret, w <> WSome b ret.
Proof.
  intros s w Hu Hw b ret E. unfold w_rel in Hw. destruct (s_control s); try discriminate;
    destruct Hw as [-> |(b' & r' & ->)]; discriminate.
Qed.

Lemma bytes_eqb_refl : forall b, bytes_eqb b b = true.
Proof. induction b as [|x r IH]; [reflexivity|]. cbn. rewrite N.eqb_refl. exact IH. Qed.

Lemma any_enabled_or : forall s c1 c2 c3, s_enabled s = (c1, c2, c3) -> any_enabled s = c1 || c2 || c3.
Proof. intros s c1 c2 c3 H. unfold any_enabled. rewrite H. reflexivity. Qed.

Lemma w_rel_idle : forall s w, is_uw (s_control s) = false ->
  (w_rel s w <-> (w = WNone \/ exists b ret, w = WMaybe b ret)).
Proof. intros s w H. unfold w_rel. destruct (s_control s); try discriminate; reflexivity. Qed.

Lemma relax_w_rel : forall s s' m m',
  w_rel s (sm_w m) -> relax m m' -> s_control s' = s_control s -> s_unsol_buf s' = s_unsol_buf s ->
  w_rel s' (sm_w m').
Proof.
  intros s s' m m' Hw [-> |(b & ret & Hs & ->)] Hc Hb; unfold w_rel in *; rewrite Hc, Hb.
  - exact Hw.
  - cbn [sm_w sm_set_w]. rewrite Hs in Hw. destruct (s_control s).
    + destruct Hw as [Hw|(b' & r' & Hw)]; discriminate.
    + destruct Hw as [Hw|(b' & r' & Hw)]; discriminate.
    + destruct Hw as [Hw|Hw]; [|discriminate]. inversion Hw; subst. right. reflexivity.
Qed.

Lemma series_mon_first : forall cfg m d B,
  is_unsol B = true -> (sm_w m = WNone \/ exists b r, sm_w m = WMaybe b r) ->
  ((4 <? length B)%nat && negb (sm_armed m)) = false ->
  series_mon cfg m (IOb (OTx d B)) =
  Some {| sm_w := WSome B (if sm_armed m then o_retries cfg else Some 0%nat);
          sm_armed := false; sm_dis := sm_dis m; sm_conf := sm_conf m |}.
Proof.
  intros cfg m d B Hu Hw Hl. cbn [series_mon]. rewrite Hu.
  destruct Hw as [-> |(b & r & ->)]; rewrite Hl; reflexivity.
Qed.

Lemma is_unsol_response : forall r buf, r_fn r = 130 -> is_unsol (response_bytes r buf) = true.
Proof. intros r buf H. unfold is_unsol. rewrite nth1_response_bytes, H. reflexivity. Qed.

(* the run of the monitor over a freshly started series *)
Lemma series_started : forall cfg s s' n size buf o m,
  started cfg s s' n size buf o -> s_control s = CIdle -> w_rel s (sm_w m) ->
  ((size <= 4)%nat \/ sm_armed m = true) ->
  (if sm_armed m then o_retries cfg else Some 0%nat) = (if n then Some 0%nat else o_retries cfg) ->
  exists m', mrun (series_mon cfg) m (map IOb o) = Live m' /\
             sm_armed m' = false /\ sm_dis m' = sm_dis m /\ sm_conf m' = sm_conf m /\ w_rel s' (sm_w m').
Proof.
  intros cfg s s' n size buf o m (r & o1 & -> & Ho1 & Hf & Hctl & Hsz & Hc & Hq & Hb & _) Hi Hw Hlen Hret.
  assert (Hidle : is_uw (s_control s) = false) by (rewrite Hi; reflexivity).
  destruct (series_mon_quiet cfg o1 m) as (m1 & Hm1 & R1).
  { eapply Forall_impl; [|exact Ho1]. apply evq_qob. }
  assert (E1 : m1 = m) by (eapply relax_same; [exact R1|]; eapply w_rel_idle_not_some; eauto). subst m1.
  rewrite map_app, mrun_app, Hm1. cbn [map].
  apply (w_rel_idle s _ Hidle) in Hw.
  erewrite mrun_cons; [|discriminate|].
  2:{ apply series_mon_first; [apply is_unsol_response; exact Hf|exact Hw|].
      unfold response_bytes. cbn [length app]. rewrite firstn_length. rewrite Hsz.
      destruct Hlen as [Hlen|Hlen]; [|rewrite Hlen; apply andb_false_r].
      replace (size - 4)%nat with 0%nat by lia. reflexivity. }
  erewrite mrun_cons; [|discriminate|reflexivity]. cbn [mrun].
  eexists. split; [reflexivity|]. cbn [sm_armed sm_dis sm_conf sm_w]. repeat split.
  unfold w_rel. rewrite Hc, Hb. left. rewrite Hret. reflexivity.
Qed.

Lemma frag_src_event : forall e s from bc bytes d,
  pend_ok e s -> frag_src e s from bc bytes d -> e = Some (ERx from bc bytes d).
Proof. intros e s from bc bytes d Hp [H|[fid H]]; [exact H|eapply Hp; exact H]. Qed.

(* the answer to the DISABLE_UNSOLICITED makes the monitor unsure whether the wait goes on *)
Lemma series_mon_disable : forall cfg oa from b m,
  Forall solob (oa ++ [OTx from b]) -> sm_dis m = true ->
  (exists B ret, sm_w m = WSome B ret \/ sm_w m = WMaybe B ret) ->
  exists m', mrun (series_mon cfg) m (map IOb (oa ++ [OTx from b])) = Live m' /\
             sm_armed m' = sm_armed m /\ sm_dis m' = sm_dis m /\ sm_conf m' = sm_conf m /\
             exists B ret, sm_w m' = WMaybe B ret.
Proof.
  intros cfg oa from b m Hs Hd (B & ret & Hw).
  apply Forall_app in Hs. destruct Hs as [Hoa Hb]. inversion Hb as [|x y Hb1 _]; subst.
  destruct (series_mon_quiet cfg oa m (solob_qob _ Hoa)) as (m1 & Hm1 & R1).
  destruct (relax_fields _ _ R1) as (Fa & Fd & Fc).
  rewrite map_app, mrun_app, Hm1. cbn [map].
  assert (Hw1 : sm_w m1 = WSome B ret \/ sm_w m1 = WMaybe B ret).
  { destruct R1 as [-> |(b' & r' & Hs' & ->)]; [exact Hw|]. right. cbn.
    destruct Hw as [Hw|Hw]; congruence. }
  assert (E : series_mon cfg m1 (IOb (OTx from b)) =
              match sm_w m1 with WSome b0 r0 => Some (sm_set_w m1 (WMaybe b0 r0)) | _ => Some m1 end).
  { cbn [series_mon]. rewrite (solob_not_unsol _ _ Hb1). rewrite Fd, Hd. reflexivity. }
  destruct Hw1 as [Hw1|Hw1]; rewrite Hw1 in E.
  - erewrite mrun_cons; [|discriminate|exact E]. cbn [mrun]. eexists. split; [reflexivity|].
    cbn. repeat split; try assumption. eauto.
  - erewrite mrun_cons; [|discriminate|exact E]. cbn [mrun]. eexists. split; [reflexivity|].
    repeat split; try assumption. eauto.
Qed.

Lemma series_hstep : forall cfg e s o s' m,
  ustep cfg e s o s' -> Inv cfg s -> series_rel e s m ->
  o = [OOutOfFuel] \/ exists m', mrun (series_mon cfg) m (map IOb o) = Live m' /\ series_rel e s' m'.
Proof.
  intros cfg e s o s' m H [Hl Hw] (Ha & Hc & Hp & He & Hwr).
  assert (Hev : forall m2, sm_dis m2 = sm_dis m ->
          match e with Some ev => sm_dis m2 = is_disable_ev ev | None => True end).
  { intros m2 Hd. destruct e; [|exact I]. congruence. }
  assert (Hpsame : forall s2, s_pending s2 = s_pending s -> pend_ok e s2).
  { intros s2 E from bc bytes d fid Hx. eapply Hp. rewrite <- E. exact Hx. }
  destruct H.
  - (* quiet *)
    right. destruct (series_mon_quiet cfg o m (H0 Hl)) as (m' & Hm & Hrx).
    exists m'. split; [exact Hm|].
    destruct (relax_fields _ _ Hrx) as (Fa & Fd & Fc). unfold qv in H1.
    split; [congruence|]. split; [rewrite Fc; intros X; specialize (Hc X); congruence|].
    split; [apply H; exact Hp|]. split; [apply Hev; exact Fd|].
    destruct H2 as [Hcs|[Hu Hu']].
    + eapply relax_w_rel; eauto. congruence.
    + assert (m' = m) by (eapply relax_same; [exact Hrx|exact (w_rel_idle_not_some s _ Hu Hwr)]). subst m'.
      apply (w_rel_idle _ _ Hu'). apply (w_rel_idle _ _ Hu). exact Hwr.
  - (* an empty response is sent *)
    right. destruct (series_started cfg s s' true 0 (s_unsol_buf s) o m H2 H Hwr) as (m' & Hm & Fa & Fd & Fc & Hw').
    { left. lia. } { rewrite Ha. reflexivity. }
    exists m'. split; [exact Hm|]. destruct H2 as (r & o1 & _ & _ & _ & _ & _ & _ & _ & _ & Hu & _ & _ & Hpe & _).
    split; [exact Fa|]. split; [rewrite Fc; intros X; rewrite Hu; auto|].
    split; [apply Hpsame; exact Hpe|]. split; [apply Hev; exact Fd|exact Hw'].
  - (* event data is sent *)
    right. subst o.
    assert (Hcf : sm_conf m = true) by (destruct (sm_conf m); [reflexivity|]; rewrite (Hc eq_refl) in H1; discriminate).
    assert (Hidle : is_uw (s_control s) = false) by (rewrite H; reflexivity).
    pose proof (proj1 (w_rel_idle s _ Hidle) Hwr) as Hwn.
    set (m1 := {| sm_w := sm_w m; sm_armed := true; sm_dis := sm_dis m; sm_conf := sm_conf m |}).
    assert (E1 : series_mon cfg m (IOb (ODb (DbWriteUnsol c1 c2 c3))) = Some m1).
    { subst m1. destruct m as [mw ma md mc]. cbn [sm_w sm_armed sm_dis sm_conf] in *. subst mc.
      cbn [series_mon sm_w sm_conf]. rewrite <- (any_enabled_or s c1 c2 c3 H4), H3. cbn [andb].
      destruct Hwn as [-> |(b & r & ->)]; reflexivity. }
    cbn [map]. erewrite mrun_cons; [|discriminate|exact E1].
    destruct (series_started cfg s s' false (4 + length body) (buf_set (s_unsol_buf s) body) o' m1 H6 H Hwr)
      as (m' & Hm & Fa & Fd & Fc & Hw'). { right. reflexivity. } { reflexivity. }
    exists m'. split; [exact Hm|]. destruct H6 as (r & o1 & _ & _ & _ & _ & _ & _ & _ & _ & Hu & _ & _ & Hpe & _).
    split; [exact Fa|]. split; [rewrite Fc; cbn; intros X; congruence|].
    split; [apply Hpsame; exact Hpe|]. split; [apply Hev; exact Fd|exact Hw'].
  - (* confirmed *)
    right. subst o. unfold w_rel in Hwr. rewrite H in Hwr.
    set (m1 := {| sm_w := WNone; sm_armed := sm_armed m; sm_dis := sm_dis m; sm_conf := true |}).
    assert (E1 : series_mon cfg m (IOb (OInfo (IUnsolConfirmed (ctl_seq (r_ctl resp))))) = Some m1).
    { cbn [series_mon]. destruct Hwr as [-> | ->]; reflexivity. }
    exists m1. split.
    + cbn [map]. erewrite mrun_cons; [|discriminate|exact E1]. destruct n; reflexivity.
    + split; [exact Ha|]. split; [discriminate|]. split; [apply H5; exact Hp|]. split; [apply Hev; reflexivity|].
      unfold w_rel. rewrite H1. left. reflexivity.
  - (* DISABLE_UNSOLICITED during the wait *)
    right. subst o. destruct H3 as (oa & b & ->).
    assert (Hdis : sm_dis m = true).
    { pose proof (frag_src_event _ _ _ _ _ _ Hp H0) as E. subst e. rewrite He. reflexivity. }
    unfold w_rel in Hwr. rewrite H in Hwr.
    destruct (series_mon_disable cfg oa from b m (H2 Hl) Hdis) as (m' & Hm & Fa & Fd & Fc & Hw').
    { destruct Hwr as [Hwr|Hwr]; eauto. }
    exists m'. split.
    + rewrite map_app, mrun_app, Hm. destruct n; [reflexivity|]. cbn [map]. erewrite mrun_cons; [reflexivity|discriminate|reflexivity].
    + split; [congruence|]. split.
      * rewrite Fc. intros X. specialize (Hc X). rewrite H in Hw. destruct Hw as (_ & _ & Hn).
        destruct n; [exact H5|destruct Hn as [d Hd]; congruence].
      * split; [apply H8; exact Hp|]. split; [apply Hev; exact Fd|].
        unfold w_rel. rewrite H4. right. exact Hw'.
  - (* retry *)
    right. subst o s'. unfold w_rel in Hwr. rewrite H in Hwr. rewrite H in Hw. destruct Hw as (Hf & _).
    set (B := response_bytes resp (s_unsol_buf s)) in *.
    set (m1 := sm_set_w m (WResend B (dec_retries ret))).
    set (m2 := sm_set_w m (WSome B (dec_retries ret))).
    assert (E1 : series_mon cfg m (IOb (OInfo (IUnsolTimeout (ctl_seq (r_ctl resp)) true))) = Some m1).
    { cbn [series_mon]. destruct Hwr as [-> | ->]; rewrite H1; reflexivity. }
    assert (E2 : series_mon cfg m1 (IOb (OTx (o_master cfg) B)) = Some m2).
    { cbn [series_mon]. unfold B at 1. rewrite (is_unsol_response _ _ Hf). cbn [sm_w m1 sm_set_w].
      rewrite bytes_eqb_refl. reflexivity. }
    exists m2. split.
    + unfold repeat_unsolicited. fold B. cbn [map].
      erewrite mrun_cons; [|discriminate|reflexivity].
      erewrite mrun_cons; [|discriminate|exact E1].
      erewrite mrun_cons; [|discriminate|exact E2]. reflexivity.
    + split; [exact Ha|]. split; [exact Hc|]. split; [apply Hpsame; reflexivity|]. split; [apply Hev; reflexivity|].
      unfold w_rel. cbn. left. reflexivity.
  - (* timeout, the series ends *)
    right. subst o. unfold w_rel in Hwr. rewrite H in Hwr.
    set (m1 := sm_set_w m WNone).
    assert (E1 : series_mon cfg m (IOb (OInfo (IUnsolTimeout (ctl_seq (r_ctl resp)) false))) = Some m1).
    { cbn [series_mon]. destruct Hwr as [-> | ->]; reflexivity. }
    exists m1. split.
    + cbn [map]. erewrite mrun_cons; [|discriminate|reflexivity].
      erewrite mrun_cons; [|discriminate|exact E1]. destruct n; reflexivity.
    + split; [exact Ha|]. split.
      * intros X. specialize (Hc X). rewrite H in Hw. destruct Hw as (_ & _ & Hn).
        destruct n; [exact H4|destruct Hn as [d Hd]; congruence].
      * split; [apply Hpsame; congruence|]. split; [apply Hev; reflexivity|].
        unfold w_rel. rewrite H3. left. reflexivity.
  - (* solicited confirm timeout *)
    right. subst o s'. exists m. split; [reflexivity|].
    split; [exact Ha|]. split; [exact Hc|]. split; [apply Hpsame; reflexivity|]. split; [exact He|].
    assert (Hu : is_uw (s_control s) = false) by (rewrite H; reflexivity).
    apply (w_rel_idle s _ Hu) in Hwr. apply w_rel_idle; [reflexivity|exact Hwr].
  - (* the retry delay is over *)
    right. subst o s'. exists m. split; [reflexivity|].
    split; [exact Ha|]. split; [exact Hc|]. split; [apply Hpsame; reflexivity|]. split; [exact He|].
    unfold w_rel in *. cbn. exact Hwr.
  - (* disconnect *)
    right. subst o s'. exists (sm_set_w m WNone). split; [reflexivity|].
    split; [exact Ha|]. split; [exact Hc|]. split; [apply pend_ok_none; reflexivity|]. split; [exact He|].
    unfold w_rel. cbn. left. reflexivity.
  - left. assumption.
Qed.

Definition series_rin (ev : oevent) (s : ostate) (m : sm) : Prop := series_rel (Some ev) s m.
Definition series_rout (s : ostate) (m : sm) : Prop := series_rel None s m.

Theorem series_accepted : forall cfg s tr,
  Trace cfg s tr -> mrun (series_mon cfg) sm0 tr <> Bad.
Proof.
  intros cfg s tr Ht.
  destruct (trace_run cfg _ (series_mon cfg) series_rin series_rout sm0) with (s := s) (tr := tr) as [Hd|(m & Hm & _)];
    try (rewrite Hd; discriminate); try (rewrite Hm; discriminate); try exact Ht.
  - intros sel op iin a. split; [reflexivity|]. split; [reflexivity|]. split; [apply pend_ok_none; reflexivity|].
    split; [reflexivity|]. left. reflexivity.
  - intros ev x o x' m. apply series_hstep.
  - intros x m ev _ [Hg _] _ (Ha & Hc & Hp & _ & Hw). eexists. split; [reflexivity|].
    split; [exact Ha|]. split; [exact Hc|]. split; [apply pend_ok_none; exact Hg|]. split; [reflexivity|exact Hw].
  - intros ev x m (Ha & Hc & Hp & _ & Hw) [Hg _].
    split; [exact Ha|]. split; [exact Hc|]. split; [apply pend_ok_none; exact Hg|]. split; [exact I|exact Hw].
  - intros ev x m t _ (Ha & Hc & Hp & _ & Hw) _ [Hg _].
    split; [exact Ha|]. split; [exact Hc|]. split; [apply pend_ok_none; exact Hg|]. split; [exact I|exact Hw].
Qed.
