From Dnp3V Require Import Outstation.Session Outstation.SessionLemmas_c14.
Open Scope N_scope.

(* ---------- a step of the session as a sequence of micro-steps --------------------------------- *)

Definition dec_retries (r : option nat) : option nat := match r with Some (S n) => Some n | x => x end.
Definition can_retry (r : option nat) : bool :=
  match r with None => true | Some O => false | Some (S _) => true end.

(* something the solicited confirm wait does *)
Record sol_step (s : ostate) (o : list oobs) (s' : ostate) : Prop := {
  sol_view : (s_unsol s', s_unsol_seq s', s_unsol_buf s', s_now s', s_deferred s', s_pending s', s_enabled s')
             = (s_unsol s, s_unsol_seq s, s_unsol_buf s, s_now s, s_deferred s, s_pending s, s_enabled s);
  sol_uw : is_uw (s_control s) = false /\ is_uw (s_control s') = false;
  sol_out : last_ok s -> Forall solob o /\ last_ok s'
}.

(* a fragment read during the unsolicited confirm wait, and the end of the wait if it ends it *)
Definition wait_rx (cfg : ocfg) (s : ostate) (resp : response) (n : bool) (from : N) (bc : option bcast_mode)
           (bytes : list N) (d : digest) (fid : N) (o : list oobs) (s' : ostate) : Prop :=
  exists s1 res o1, unsol_wait_fragment cfg s resp from bc bytes d fid = (s1, res, o1) /\
    match res with
    | None => s' = s1 /\ o = o1
    | Some r => exists ns o2, end_unsol cfg s1 n r = (s', ns, o2) /\ o = o1 ++ o2
    end.

Inductive micro (cfg : ocfg) (e : option oevent) : ostate -> list oobs -> ostate -> Prop :=
| mi_skip : forall s s', kview s' = kview s -> micro cfg e s [] s'
| mi_pend_set : forall s from bc bytes d fid,
    e = Some (ERx from bc bytes d) -> is_uw (s_control s) = false ->
    micro cfg e s [] (upd_pending s (Some (from, bc, bytes, d, fid)))
| mi_req : forall s from bc bytes d fid s' o,
    s_control s = CIdle -> s_pending s = Some (from, bc, bytes, d, fid) ->
    handle_from_idle cfg (upd_pending s None) from bc bytes d fid = (s', o) -> micro cfg e s o s'
| mi_sol : forall s o s', sol_step s o s' -> micro cfg e s o s'
| mi_check : forall s s' b o,
    s_control s = CIdle -> check_unsolicited cfg s = (s', b, o) -> micro cfg e s o s'
| mi_wait_ev : forall s resp n ret dl from bc bytes d fid o s',
    s_control s = CUnsolWait resp n ret dl -> e = Some (ERx from bc bytes d) ->
    wait_rx cfg s resp n from bc bytes d fid o s' -> micro cfg e s o s'
| mi_wait_pend : forall s resp n ret dl from bc bytes d fid o s',
    s_control s = CUnsolWait resp n ret dl -> s_pending s = Some (from, bc, bytes, d, fid) ->
    wait_rx cfg (upd_pending s None) resp n from bc bytes d fid o s' -> micro cfg e s o s'
| mi_deferred : forall s ns s' o,
    s_control s = CIdle -> handle_deferred cfg s ns = (s', o) -> micro cfg e s o s'
| mi_retry : forall s resp n ret dl t,
    s_control s = CUnsolWait resp n ret dl -> s_deferred s = None -> can_retry ret = true ->
    t = Z.max dl (s_now s) ->
    micro cfg e s (OAt t :: OInfo (IUnsolTimeout (ctl_seq (r_ctl resp)) true) :: repeat_unsolicited cfg s resp)
          (upd_control (upd_now s t) (CUnsolWait resp n (dec_retries ret) (t + o_confirm_ms cfg)%Z))
| mi_timeout : forall s resp n ret dl t s' ns o2,
    s_control s = CUnsolWait resp n ret dl -> (can_retry ret = false \/ s_deferred s <> None) ->
    t = Z.max dl (s_now s) -> end_unsol cfg (upd_now s t) n UrTimeout = (s', ns, o2) ->
    micro cfg e s (OAt t :: OInfo (IUnsolTimeout (ctl_seq (r_ctl resp)) false) :: o2) s'
| mi_sol_timeout : forall s se dl r t,
    s_control s = CSolWait se dl r -> t = Z.max dl (s_now s) ->
    micro cfg e s [OAt t; OInfo (ISolTimeout (se_ecsn se)); ODb DbReset] (upd_control (upd_now s t) CIdle)
| mi_tick : forall s t,
    s_control s = CIdle -> o_unsol cfg = true -> s_unsol s = UReady (Some t) -> (s_now s < t)%Z ->
    micro cfg e s [OAt t] (upd_now s t)
| mi_disconnect : forall s,
    e = Some EDisconnect ->
    micro cfg e s [ODb DbReset; OSessionEnd] (upd_pending (upd_control (session_reset s) CIdle) None)
| mi_fuel : forall s, micro cfg e s [OOutOfFuel] s.

Inductive micros (cfg : ocfg) (e : option oevent) : ostate -> list oobs -> ostate -> Prop :=
| ms_nil : forall s, micros cfg e s [] s
| ms_cons : forall s o1 s1 o2 s2 o,
    micro cfg e s o1 s1 -> micros cfg e s1 o2 s2 -> o = o1 ++ o2 -> micros cfg e s o s2.

Lemma ms_one : forall cfg e s o s', micro cfg e s o s' -> micros cfg e s o s'.
Proof. intros. eapply ms_cons; [eassumption|apply ms_nil|]. rewrite app_nil_r. reflexivity. Qed.

Lemma ms_app : forall cfg e s o1 s1, micros cfg e s o1 s1 ->
  forall o2 s2 o, micros cfg e s1 o2 s2 -> o = o1 ++ o2 -> micros cfg e s o s2.
Proof.
  induction 1 as [s|s oa sa ob sb oo Hm Hms IH Ho]; intros o2 s2 o H2 Heq.
  - subst. exact H2.
  - subst. eapply ms_cons; [exact Hm|eapply IH; [exact H2|reflexivity]|]. rewrite app_assoc. reflexivity.
Qed.

Lemma end_unsol_idle : forall cfg s n r s' ns o, end_unsol cfg s n r = (s', ns, o) -> s_control s' = CIdle.
Proof. intros. eapply end_unsol_spec in H. apply H. Qed.

Lemma idle_run_micros : forall cfg e fuel st s s' o,
  s_control s = CIdle -> idle_run fuel cfg st s = (s', o) -> micros cfg e s o s'.
Proof.
  induction fuel as [|f IH]; intros st s s' o Hc H; cbn [idle_run] in H.
  { inv_pair H. apply ms_one. apply mi_fuel. }
  destruct st as [| |ns|ns].
  - (* St1 *)
    destruct (s_pending s) as [[[[[from bc] bytes] d] fid]|] eqn:Ep.
    + destruct (handle_from_idle cfg (upd_pending s None) from bc bytes d fid) as [s1 o1] eqn:E1.
      assert (M1 : micro cfg e s o1 s1) by (eapply mi_req; eauto).
      destruct (s_control s1) eqn:Ec1.
      * destruct (idle_run f cfg St2 s1) as [s2 o2] eqn:E2. inv_pair H.
        eapply ms_cons; [exact M1|eapply IH; eauto|reflexivity].
      * inv_pair H. apply ms_one. exact M1.
      * inv_pair H. apply ms_one. exact M1.
    + rewrite Hc in H. destruct (idle_run f cfg St2 s) as [s2 o2] eqn:E2. inv_pair H.
      eapply IH; eauto.
  - (* St2 *)
    destruct (check_unsolicited cfg s) as [[s2 b] o2] eqn:E2.
    assert (M2 : micro cfg e s o2 s2) by (eapply mi_check; eauto).
    destruct (s_control s2) as [|se dl r|resp n ret dl] eqn:Ec2.
    + destruct (idle_run f cfg (St3 false) s2) as [s3 o3] eqn:E3. inv_pair H.
      eapply ms_cons; [exact M2|eapply IH; eauto|reflexivity].
    + inv_pair H. apply ms_one. exact M2.
    + destruct (s_pending s2) as [[[[[from bc] bytes] d] fid]|] eqn:Ep2.
      * destruct (unsol_wait_fragment cfg (upd_pending s2 None) resp from bc bytes d fid) as [[s3 res] o3] eqn:E3.
        destruct res as [r|].
        -- destruct (end_unsol cfg s3 n r) as [[s4 ns] o4] eqn:E4.
           destruct (idle_run f cfg (St3 ns) s4) as [s5 o5] eqn:E5. inv_pair H.
           eapply ms_cons; [exact M2| |reflexivity].
           eapply ms_cons; [| eapply IH; [|exact E5]; eapply end_unsol_idle; eauto|].
           ++ eapply mi_wait_pend; [exact Ec2|exact Ep2|].
              exists s3, (Some r), o3. split; [exact E3|]. exists ns, o4. split; [exact E4|reflexivity].
           ++ rewrite <- app_assoc. reflexivity.
        -- inv_pair H. eapply ms_cons; [exact M2| |reflexivity]. apply ms_one.
           eapply mi_wait_pend; [exact Ec2|exact Ep2|].
           exists s', None, o3. split; [exact E3|]. split; reflexivity.
      * inv_pair H. apply ms_one. exact M2.
  - (* St3 *)
    destruct (handle_deferred cfg s ns) as [s3 o3] eqn:E3.
    assert (M3 : micro cfg e s o3 s3) by (eapply mi_deferred; eauto).
    destruct (s_control s3) eqn:Ec3.
    + destruct (idle_run f cfg (St4 ns) s3) as [s4 o4] eqn:E4. inv_pair H.
      eapply ms_cons; [exact M3|eapply IH; eauto|reflexivity].
    + inv_pair H. apply ms_one. exact M3.
    + inv_pair H. apply ms_one. exact M3.
  - (* St4 *)
    destruct (s_pending s) eqn:Ep; [eapply IH; eauto|].
    destruct ns; [eapply IH; eauto|].
    destruct (s_notify s).
    + eapply ms_cons; [apply (mi_skip cfg e s (upd_notify s false)); reflexivity|eapply IH; [|exact H]; exact Hc|reflexivity].
    + inv_pair H. apply ms_nil.
Qed.

Lemma resume_at_micros : forall cfg e st s s' o,
  s_control s = CIdle -> resume_at cfg st s = (s', o) -> micros cfg e s o s'.
Proof. intros. eapply idle_run_micros; eauto. Qed.

Lemma idle_loop_micros : forall cfg e n s s' o,
  s_control s = CIdle -> idle_loop n cfg s = (s', o) -> micros cfg e s o s'.
Proof. intros. eapply idle_run_micros; eauto. Qed.

Lemma fire_micros : forall cfg e s d t s1 o1,
  next_deadline cfg s = Some d -> t = Z.max d (s_now s) ->
  fire_deadline cfg (upd_now s t) = (s1, o1) -> micros cfg e s (OAt t :: o1) s1.
Proof.
  intros cfg e s d t s1 o1 Hd Ht H. unfold fire_deadline in H. unfold next_deadline in Hd.
  change (s_control (upd_now s t)) with (s_control s) in H.
  destruct (s_control s) as [|se dl r|resp n ret dl] eqn:Ec.
  - (* idle: the retry deadline *)
    destruct (o_unsol cfg) eqn:Eu; cbn [negb] in Hd; [|discriminate].
    destruct (s_unsol s) as [|[t0|]] eqn:Es; try discriminate.
    destruct (s_now s <? t0)%Z eqn:El; [|discriminate]. inversion Hd; subst d.
    apply Z.ltb_lt in El. assert (Ht' : t = t0) by lia. subst t. rewrite Ht' in H |- *.
    eapply ms_cons; [eapply mi_tick; eauto|eapply resume_at_micros; [|exact H]; exact Ec|reflexivity].
  - inversion Hd; subst d.
    destruct (resume_at cfg (stage_of r) (upd_control (upd_now s t) CIdle)) as [s2 o2] eqn:E. inv_pair H.
    eapply ms_cons; [eapply mi_sol_timeout; eauto|eapply resume_at_micros; [|exact E]; reflexivity|reflexivity].
  - inversion Hd; subst d. cbv zeta in H.
    change (s_deferred (upd_now s t)) with (s_deferred s) in H.
    fold (can_retry ret) in H. fold (dec_retries ret) in H.
    destruct (can_retry ret && match s_deferred s with Some _ => false | None => true end) eqn:Er.
    + inv_pair H. apply andb_true_iff in Er. destruct Er as [Er1 Er2].
      apply ms_one. eapply (mi_retry cfg e s resp n ret dl); eauto.
      destruct (s_deferred s); [discriminate|reflexivity].
    + destruct (end_unsol cfg (upd_now s t) n UrTimeout) as [[s2 ns] o2] eqn:E2.
      destruct (resume_at cfg (St3 ns) s2) as [s3 o3] eqn:E3. inv_pair H.
      eapply ms_cons; [eapply (mi_timeout cfg e s resp n ret dl); eauto| |].
      * apply andb_false_iff in Er. destruct Er as [Er|Er]; [left; exact Er|right].
        destruct (s_deferred s); [discriminate|discriminate Er].
      * eapply resume_at_micros; [|exact E3]. eapply end_unsol_idle; eauto.
      * cbn [app]. reflexivity.
Qed.

(* nothing is due up to time t *)
Definition quiet_until (cfg : ocfg) (s : ostate) (t : Z) : Prop :=
  match next_deadline cfg s with Some d => (t < d)%Z | None => True end.

Lemma advance_micros : forall cfg e fuel s target s' o,
  advance fuel cfg s target = (s', o) ->
  exists s1, micros cfg e s o s1 /\ s' = upd_now s1 target /\ (In OOutOfFuel o \/ quiet_until cfg s1 target).
Proof.
  induction fuel as [|f IH]; intros s target s' o H; cbn [advance] in H.
  { inv_pair H. exists s. split; [apply ms_one; apply mi_fuel|]. split; [reflexivity|left; left; reflexivity]. }
  destruct (next_deadline cfg s) as [d|] eqn:Ed.
  - destruct (d <=? target)%Z eqn:El.
    + destruct (fire_deadline cfg (upd_now s (Z.max d (s_now s)))) as [s1 o1] eqn:E1.
      destruct (advance f cfg s1 target) as [s2 o2] eqn:E2. inv_pair H.
      apply IH in E2. destruct E2 as (s3 & Hm & Hs & Hq).
      exists s3. split; [|split; [exact Hs|]].
      * eapply ms_app; [eapply fire_micros; eauto|exact Hm|reflexivity].
      * destruct Hq as [Hq|Hq]; [left; right; apply in_or_app; right; exact Hq|right; exact Hq].
    + inv_pair H. exists s. split; [apply ms_nil|]. split; [reflexivity|right].
      unfold quiet_until. rewrite Ed. apply Z.leb_gt in El. exact El.
  - inv_pair H. exists s. split; [apply ms_nil|]. split; [reflexivity|right].
    unfold quiet_until. rewrite Ed. exact I.
Qed.

Lemma on_rx_micros : forall cfg s from bc bytes d s' o,
  on_rx cfg s from bc bytes d = (s', o) -> micros cfg (Some (ERx from bc bytes d)) s o s'.
Proof.
  intros cfg s from bc bytes d s' o H. unfold on_rx in H. cbv zeta in H.
  set (e := Some (ERx from bc bytes d)).
  set (fid := (s_frame_id s + 1) mod 4294967296) in *.
  set (s0 := upd_frame_id s fid) in *.
  assert (M0 : micro cfg e s [] s0) by (apply mi_skip; reflexivity).
  change (s_control s0) with (s_control s) in H.
  destruct (s_control s) as [|se dl r|resp n ret dl] eqn:Ec.
  - eapply ms_cons; [exact M0| |reflexivity].
    eapply ms_cons; [eapply (mi_pend_set cfg e s0 from bc bytes d fid); [reflexivity|]| |reflexivity].
    + change (s_control s0) with (s_control s). rewrite Ec. reflexivity.
    + eapply idle_loop_micros; [|exact H]. exact Ec.
  - destruct (sol_wait_fragment cfg s0 se dl from bc bytes d) as [out o1] eqn:E1.
    assert (Ho1 : last_ok s0 -> Forall solob o1) by (eapply sol_wait_fragment_out; eauto).
    assert (Hu0 : is_uw (s_control s0) = false) by (change (s_control s0) with (s_control s); rewrite Ec; reflexivity).
    destruct out as [dl'|rt|].
    + inv_pair H. eapply ms_cons; [exact M0| |reflexivity]. apply ms_one. apply mi_sol.
      split; [reflexivity|split; [exact Hu0|reflexivity]|]. intros Hl. split; [auto|exact Hl].
    + destruct (se_fin se).
      * destruct (resume_at cfg (stage_of r) (upd_control (upd_last_bcast s0 None) CIdle)) as [s2 o2] eqn:E2.
        inv_pair H. eapply ms_cons; [exact M0| |reflexivity].
        eapply (ms_cons cfg e s0 (o1 ++ [ODb DbClearWritten]) _ o2); [apply mi_sol|eapply resume_at_micros; [|exact E2]; reflexivity|rewrite <- app_assoc; reflexivity].
        split; [reflexivity|split; [exact Hu0|reflexivity]|]. intros Hl. split; [|exact Hl].
        apply Forall_app; split; [auto|fa_tac].
      * destruct (format_read_response (upd_last_bcast s0 None) false (seq16_next (se_ecsn se)) 0)
          as [[[s2 rsp] next] o2] eqn:E2.
        destruct (write_solicited s2 rt rsp) as [[s3 rsp'] o3] eqn:E3.
        apply format_read_response_spec in E2. destruct E2 as (F2 & Hr2 & _ & Ho2 & _).
        pose proof (write_solicited_frame _ _ _ _ _ _ E3) as F3.
        destruct (write_solicited_out _ _ _ _ _ _ E3 Hr2) as [Ho3 Hr3].
        pose proof (frame_trans _ _ _ F2 F3) as F. unfold frame, fview, uview in F.
        set (s4 := upd_last s3 _) in H.
        assert (Hstep : forall c, is_uw c = false -> sol_step s0 (o1 ++ [ODb DbClearWritten] ++ o2 ++ o3) (upd_control s4 c)).
        { intros c Hcu. split.
          - subst s4. psimpl. psimpl_in F. congruence.
          - split; [exact Hu0|exact Hcu].
          - intros Hl. split.
            + apply Forall_app; split; [auto|]. apply Forall_app; split; [fa_tac|].
              apply Forall_app; split; [eapply Forall_imp; [apply dbq_solob|exact Ho2]|exact Ho3].
            + intros l x Hs Hx. subst s4. cbn in Hs. destruct (s_last s3) as [l0|]; [|discriminate].
              inversion Hs; subst. cbn in Hx. inversion Hx; subst. exact Hr3. }
        destruct next as [nx|].
        -- inv_pair H. eapply ms_cons; [exact M0| |reflexivity]. apply ms_one. apply mi_sol.
           apply Hstep. reflexivity.
        -- destruct (resume_at cfg (stage_of r) (upd_control s4 CIdle)) as [s5 o5] eqn:E5. inv_pair H.
           eapply ms_cons; [exact M0| |reflexivity].
           eapply ms_cons; [apply mi_sol; apply (Hstep CIdle); reflexivity|eapply resume_at_micros; [|exact E5]; reflexivity|].
           rewrite <- !app_assoc. reflexivity.
    + destruct (resume_at cfg (stage_of r) (upd_pending (upd_control s0 CIdle) (Some (from, bc, bytes, d, fid))))
        as [s2 o2] eqn:E2. inv_pair H.
      eapply ms_cons; [exact M0| |reflexivity].
      eapply (ms_cons cfg e s0 (o1 ++ [ODb DbReset]) (upd_control s0 CIdle) o2); [apply mi_sol| |rewrite <- app_assoc; reflexivity].
      *         split; [reflexivity|split; [exact Hu0|reflexivity]|]. intros Hl. split; [|exact Hl].
        apply Forall_app; split; [auto|fa_tac].
      * eapply ms_cons; [eapply (mi_pend_set cfg e _ from bc bytes d fid); reflexivity| |reflexivity].
        eapply resume_at_micros; [|exact E2]. reflexivity.
  - destruct (unsol_wait_fragment cfg s0 resp from bc bytes d fid) as [[s1 res] o1] eqn:E1.
    destruct res as [r|].
    + destruct (end_unsol cfg s1 n r) as [[s2 ns] o2] eqn:E2.
      destruct (resume_at cfg (St3 ns) s2) as [s3 o3] eqn:E3. inv_pair H.
      eapply ms_cons; [exact M0| |reflexivity].
      eapply ms_cons; [|eapply resume_at_micros; [|exact E3]; eapply end_unsol_idle; eauto|rewrite <- app_assoc; reflexivity].
      eapply (mi_wait_ev cfg e s0 resp n ret dl from bc bytes d fid); [exact Ec|reflexivity|].
      exists s1, (Some r), o1. split; [exact E1|]. exists ns, o2. split; [exact E2|reflexivity].
    + inv_pair H. eapply ms_cons; [exact M0| |reflexivity]. apply ms_one.
      eapply (mi_wait_ev cfg e s0 resp n ret dl from bc bytes d fid); [exact Ec|reflexivity|].
      exists s', None, o. split; [exact E1|]. split; reflexivity.
Qed.

Lemma in_fuel_app_r : forall (a b : list oobs), In OOutOfFuel b -> In OOutOfFuel (a ++ b).
Proof. intros. apply in_or_app. right. assumption. Qed.

Theorem ostep_micros : forall cfg s ev a s' o,
  ostep cfg s ev a = (s', o) ->
  exists s1, micros cfg (Some ev) s o s1 /\
             (s' = s1 \/ exists t, s' = upd_now s1 t /\ (In OOutOfFuel o \/ quiet_until cfg s1 t)).
Proof.
  intros cfg s ev a s' o H. unfold ostep in H.
  set (e := Some ev).
  set (s0 := upd_answers s a) in *.
  assert (M0 : micro cfg e s [] s0) by (apply mi_skip; reflexivity).
  destruct ev as [from bc bytes d|ms| |sel op|v|].
  - destruct (on_rx cfg s0 from bc bytes d) as [s1 o1] eqn:E1.
    destruct (advance 64 cfg s1 (s_now s1 + settle_ms)) as [s2 o2] eqn:E2. inv_pair H.
    apply on_rx_micros in E1. apply (advance_micros cfg e) in E2. destruct E2 as (s3 & Hm & Hs & Hq).
    exists s3. split.
    + eapply ms_cons; [exact M0|eapply ms_app; [exact E1|exact Hm|reflexivity]|reflexivity].
    + right. eexists. split; [exact Hs|]. destruct Hq as [Hq|Hq]; [left; apply in_fuel_app_r; exact Hq|right; exact Hq].
  - destruct (advance 4096 cfg s0 (s_now s0 + ms)) as [sa oa] eqn:Ea. inv_pair H.
    apply (advance_micros cfg e) in Ea. destruct Ea as (s3 & Hm & Hs & Hq).
    exists s3. split; [eapply ms_cons; [exact M0|exact Hm|reflexivity]|].
    right. eexists. split; [exact Hs|exact Hq].
  - change (s_control s0) with (s_control s) in H.
    assert (Hfirst : exists s1 o1 s2 o2, micros cfg e s0 o1 s1 /\ advance 64 cfg s1 (s_now s1 + settle_ms) = (s2, o2) /\
                                         s' = s2 /\ o = o1 ++ o2).
    { destruct (s_control s) eqn:Ec.
      - destruct (idle_loop 8 cfg s0) as [s1 o1] eqn:E1.
        destruct (advance 64 cfg s1 (s_now s1 + settle_ms)) as [s2 o2] eqn:E2. inv_pair H.
        exists s1, o1, s', o2. split; [eapply idle_loop_micros; [|exact E1]; exact Ec|]. repeat split; auto.
      - destruct (advance 64 cfg (upd_notify s0 true) (s_now (upd_notify s0 true) + settle_ms)) as [s2 o2] eqn:E2.
        inv_pair H. exists (upd_notify s0 true), []. do 2 eexists.
        split; [apply ms_one; apply mi_skip; reflexivity|]. split; [exact E2|]. split; reflexivity.
      - destruct (advance 64 cfg (upd_notify s0 true) (s_now (upd_notify s0 true) + settle_ms)) as [s2 o2] eqn:E2.
        inv_pair H. exists (upd_notify s0 true), []. do 2 eexists.
        split; [apply ms_one; apply mi_skip; reflexivity|]. split; [exact E2|]. split; reflexivity. }
    destruct Hfirst as (s1 & o1 & s2 & o2 & Hm1 & E2 & -> & ->).
    apply (advance_micros cfg e) in E2. destruct E2 as (s3 & Hm & Hs & Hq).
    exists s3. split.
    + eapply ms_cons; [exact M0|eapply ms_app; [exact Hm1|exact Hm|reflexivity]|reflexivity].
    + right. eexists. split; [exact Hs|]. destruct Hq as [Hq|Hq]; [left; apply in_fuel_app_r; exact Hq|right; exact Hq].
  - cbv beta iota in H. inv_pair H. exists (upd_knobs s0 sel op (s_app_iin s0)). split; [|left; reflexivity].
    eapply ms_cons; [exact M0|apply ms_one; apply mi_skip; reflexivity|reflexivity].
  - cbv beta iota in H. inv_pair H. exists (upd_knobs s0 (s_sel_status s0) (s_op_status s0) v). split; [|left; reflexivity].
    eapply ms_cons; [exact M0|apply ms_one; apply mi_skip; reflexivity|reflexivity].
  - set (s1 := upd_pending (upd_control (session_reset s0) CIdle) None) in H.
    destruct (idle_loop 8 cfg s1) as [s2 o2] eqn:E2.
    destruct (advance 64 cfg s2 (s_now s2 + settle_ms)) as [s3 o3] eqn:E3. inv_pair H.
    apply (idle_loop_micros cfg e) in E2; [|reflexivity].
    apply (advance_micros cfg e) in E3. destruct E3 as (s4 & Hm & Hs & Hq).
    exists s4. split.
    + eapply ms_cons; [exact M0| |reflexivity].
      eapply (ms_cons cfg e s0 [ODb DbReset; OSessionEnd] s1); [apply mi_disconnect; reflexivity| |reflexivity].
      eapply ms_app; [exact E2|exact Hm|reflexivity].
    + right. eexists. split; [exact Hs|].
      destruct Hq as [Hq|Hq]; [left; right; right; apply in_fuel_app_r; exact Hq|right; exact Hq].
Qed.

Theorem ostart_micros : forall cfg sel op iin a s' o,
  ostart cfg sel op iin a = (s', o) ->
  micros cfg None (upd_answers (ostate_init cfg sel op iin) a) o s'.
Proof. intros. eapply idle_loop_micros; [|exact H]. reflexivity. Qed.
