(* Link/Layer.v — model of dnp3/src/link/layer.rs (address filtering, secondary-station state,
   replies).  Definitions only. *)
From Dnp3V Require Export Link.Reader.
Open Scope N_scope.

Inductive endpoint_type := Master | Outstation.

Definition dir_bit (t : endpoint_type) : bool :=
  match t with Master => true | Outstation => false end.

Record lcfg := { l_type : endpoint_type; l_self : bool (* self-address feature *); l_addr : N }.

Inductive sec_state := NotReset | ResetS (expected_fcb : bool).

Inductive frame_type := FData | FLinkStatusRequest | FLinkStatusResponse.

Record frame_info := { fi_source : N; fi_broadcast : option bcast_mode; fi_type : frame_type }.

Record reply := { rp_addr : N; rp_func : lfunc }.

Definition is_user_data (f : lfunc) : bool :=
  match f with PriUnconfirmedUserData | PriConfirmedUserData => true | _ => false end.

Definition mk_info (src : N) (b : option bcast_mode) (t : frame_type) : frame_info :=
  {| fi_source := src; fi_broadcast := b; fi_type := t |}.

Definition bool_eqb (a b : bool) : bool := if a then b else negb b.

(* Layer::process_header *)
Definition process_header (cfg : lcfg) (ss : sec_state) (h : header)
  : sec_state * option frame_info * option reply :=
  let c := h_control h in
  if bool_eqb (c_master c) (dir_bit (l_type cfg)) then (ss, None, None)
  else
    match h_src h with
    | AEndpoint source =>
        let dest_class : option (option bcast_mode) :=   (* None = ignore the frame *)
          match h_dest h with
          | AEndpoint x => if x =? l_addr cfg then Some None else None
          | ASelf => if l_self cfg then Some None else None
          | AReserved _ => None
          | ABroadcast m => match l_type cfg with Master => None | Outstation => Some (Some m) end
          end in
        match dest_class with
        | None => (ss, None, None)
        | Some broadcast =>
            if (match broadcast with Some _ => negb (is_user_data (c_func c)) | None => false end)
            then (ss, None, None)
            else
              match c_func c with
              | PriUnconfirmedUserData =>
                  if c_fcv c then (ss, None, None)
                  else (ss, Some (mk_info source broadcast FData), None)
              | PriResetLinkStates =>
                  if c_fcv c then (ss, None, None)
                  else (ResetS true, None, Some {| rp_addr := source; rp_func := SecAck |})
              | PriConfirmedUserData =>
                  if negb (c_fcv c) then (ss, None, None)
                  else
                    match ss with
                    | NotReset => (ss, None, None)
                    | ResetS expected =>
                        let response :=
                          match broadcast with
                          | None => Some {| rp_addr := source; rp_func := SecAck |}
                          | Some _ => None
                          end in
                        if bool_eqb (c_fcb c) expected
                        then (ResetS (negb expected), Some (mk_info source broadcast FData), response)
                        else (ss, None, response)
                    end
              | PriRequestLinkStatus =>
                  if c_fcv c then (ss, None, None)
                  else (ss, Some (mk_info source broadcast FLinkStatusRequest),
                        Some {| rp_addr := source; rp_func := SecLinkStatus |})
              | SecLinkStatus => (ss, Some (mk_info source broadcast FLinkStatusResponse), None)
              | _ => (ss, None, None)
              end
        end
    | _ => (ss, None, None)
    end.

(* Layer::get_header + format_reply *)
Definition reply_bytes (cfg : lcfg) (r : reply) : list N :=
  format_header_fixed_size
    {| h_control := {| c_func := rp_func r; c_master := dir_bit (l_type cfg); c_fcb := false; c_fcv := false |};
       h_dest := AEndpoint (rp_addr r); h_src := AEndpoint (l_addr cfg) |}.

Inductive lobs :=
| LTx (bytes : list N)
| LInfo (i : frame_info) (payload : list N)
| LErr (e : rerr)
| LOverflow
| LStall.

(* Layer::read over the frames the link reader delivers: per frame, the reply (if any) is written
   before the frame is handed up (if it is) *)
Fixpoint layer_obs (cfg : lcfg) (ss : sec_state) (obs : list robs) : list lobs :=
  match obs with
  | [] => []
  | OFrame h p :: rest =>
      let '(ss', info, rp) := process_header cfg ss h in
      (match rp with Some r => [LTx (reply_bytes cfg r)] | None => [] end)
      ++ (match info with Some i => [LInfo i p] | None => [] end)
      ++ layer_obs cfg ss' rest
  | OErr e :: _ => [LErr e]
  | OOverflow :: _ => [LOverflow]
  | OStall :: _ => [LStall]
  end.

Definition run_layer (mode : error_mode) (rm : read_mode) (frag : nat) (cfg : lcfg)
  (cs : list (list N)) : list lobs :=
  layer_obs cfg NotReset (run_link mode rm frag cs).
