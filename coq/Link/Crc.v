(* Link/Crc.v — model of dnp3/src/link/crc.rs over the GENERATED table.  Definitions only. *)
From Dnp3V Require Export Base.Bytes.
From Dnp3V Require Export gen.CrcTable.
Open Scope N_scope.

(* acc = CRC_TABLE[(acc as u8) ^ byte] ^ (acc >> 8) *)
Definition crc_step (acc b : N) : N :=
  N.lxor (nth (N.to_nat (N.lxor (N.land acc 255) b)) crc_table 0) (N.shiftr acc 8).

Definition crc_increment (acc : N) (bs : list N) : N := fold_left crc_step bs acc.

(* !x on u16 *)
Definition not16 (x : N) : N := N.lxor x 65535.

Definition calc_crc (bs : list N) : N := not16 (crc_increment 0 bs).
Definition calc_crc_with_0564 (bs : list N) : N := not16 (crc_increment crc_of_0564 bs).

(* data followed by its CRC, little endian *)
Definition crc_le (bs : list N) : list N := [lo8 (calc_crc bs); hi8 (calc_crc bs)].

(* the receiver's check on a block (data ++ two CRC bytes), as parse_body performs it *)
Definition block_ok (block : list N) : bool :=
  let n := (length block - 2)%nat in
  match skipn n block with
  | [lo; hi] => calc_crc (firstn n block) =? le16 lo hi
  | _ => false
  end.
