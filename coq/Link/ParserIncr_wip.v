(* Link/ParserIncr.v — incrementality of the link parser model: more input never changes a
   decision already taken, an undecided parse continues exactly where it stopped; the Discard-mode
   loop is the ideal scanner that tries every offset in order. *)
From Dnp3V Require Import Link.Parser Link.CrcProofs Link.ParserProofs.
Open Scope N_scope.

(* ---------- list helpers ---------------------------------------------------------------------- *)

Lemma firstn_app_le {A} n (a b : list A) : (n <= length a)%nat -> firstn n (a ++ b) = firstn n a.
Proof.
  intro H. rewrite firstn_app. replace (n - length a)%nat with 0%nat by lia.
  rewrite firstn_O. apply app_nil_r.
Qed.

Lemma skipn_app_le {A} n (a b : list A) : (n <= length a)%nat -> skipn n (a ++ b) = skipn n a ++ b.
Proof.
  intro H. rewrite skipn_app. replace (n - length a)%nat with 0%nat by lia. reflexivity.
Qed.

Lemma skipn_S_tl {A} i (l : list A) : skipn (S i) l = skipn i (tl l).
Proof. destruct l as [|x l]; [destruct i; reflexivity|reflexivity]. Qed.

Lemma skipn_skipn_add {A} i j (l : list A) : skipn i (skipn j l) = skipn (i + j) l.
Proof.
  revert l. induction j as [|j IH]; intro l.
  - rewrite Nat.add_0_r. reflexivity.
  - replace (i + S j)%nat with (S (i + j)) by lia. destruct l as [|x l].
    + rewrite !skipn_nil. reflexivity.
    + cbn [skipn]. apply IH.
Qed.

(* ---------- 1. parse_impl is incremental ------------------------------------------------------- *)

(* the shape shared by all state functions *)
Definition ext_ok (f : list N -> pstate * list N * presult) (a b : list N) : Prop :=
  match f a with
  | (st1, r1, PNeedMore) => f (a ++ b) = parse_impl st1 (r1 ++ b)
  | (st1, r1, res) => f (a ++ b) = (st1, r1 ++ b, res)
  end.

Lemma parse_body_extends h n a b : ext_ok (parse_body h n) a b.
Proof.
  unfold ext_ok, parse_body.
  destruct (length a <? n)%nat eqn:E.
  - reflexivity.
  - apply Nat.ltb_ge in E. rewrite app_length.
    replace (length a + length b <? n)%nat with false by (symmetry; apply Nat.ltb_ge; lia).
    rewrite firstn_app_le, skipn_app_le by assumption.
    destruct (check_blocks (chunks (N.to_nat c_max_block_size_with_crc) (firstn n a))) as [[e|] p];
      reflexivity.
Qed.

Lemma parse_header_short a : (length a < 8)%nat -> parse_header a = (ReadHeader, a, PNeedMore).
Proof.
  intro H. unfold parse_header.
  replace (length a <? 8)%nat with true by (symmetry; apply Nat.ltb_lt; assumption). reflexivity.
Qed.

Lemma parse_header_extends a b : ext_ok parse_header a b.
Proof.
  destruct (Nat.ltb_spec (length a) 8) as [Hs|Hl].
  - unfold ext_ok. rewrite parse_header_short by assumption. reflexivity.
  - destruct a as [|len [|ctrl [|d1 [|d2 [|s1 [|s2 [|c1 [|c2 rest]]]]]]]]; cbn [length] in Hl; try lia.
    unfold ext_ok. cbn [app]. rewrite !parse_header_cons.
    destruct (len <? c_min_header_length_value); [reflexivity|].
    destruct (negb (le16 c1 c2 =? calc_crc_with_0564 [len; ctrl; d1; d2; s1; s2])); [reflexivity|].
    apply parse_body_extends.
Qed.

Lemma parse_sync2_extends a b : ext_ok parse_sync2 a b.
Proof.
  destruct a as [|x rest].
  - reflexivity.
  - unfold ext_ok. cbn [app parse_sync2]. destruct (x =? c_start2); [|reflexivity].
    apply parse_header_extends.
Qed.

Lemma parse_sync1_extends a b : ext_ok parse_sync1 a b.
Proof.
  destruct a as [|x rest].
  - reflexivity.
  - unfold ext_ok. cbn [app parse_sync1]. destruct (x =? c_start1); [|reflexivity].
    apply parse_sync2_extends.
Qed.

Theorem parse_impl_extends : forall st a b,
  let '(st1, r1, res) := parse_impl st a in
  if match res with PNeedMore => true | _ => false end
  then parse_impl st (a ++ b) = parse_impl st1 (r1 ++ b)
  else parse_impl st (a ++ b) = (st1, r1 ++ b, res).
Proof.
  intros st a b.
  assert (H : ext_ok (parse_impl st) a b).
  { destruct st as [| | |h n]; cbn [parse_impl].
    - apply parse_sync1_extends.
    - apply parse_sync2_extends.
    - apply parse_header_extends.
    - apply parse_body_extends. }
  unfold ext_ok in H. destruct (parse_impl st a) as [[st1 r1] [|h p|e]]; exact H.
Qed.

(* the two halves in the form used by rewriting *)
Lemma parse_impl_extends_needmore st a st1 r1 b :
  parse_impl st a = (st1, r1, PNeedMore) -> parse_impl st (a ++ b) = parse_impl st1 (r1 ++ b).
Proof. intro H. pose proof (parse_impl_extends st a b) as E. rewrite H in E. exact E. Qed.

Lemma parse_impl_extends_frame st a st1 r1 h p b :
  parse_impl st a = (st1, r1, PFrame h p) -> parse_impl st (a ++ b) = (st1, r1 ++ b, PFrame h p).
Proof. intro H. pose proof (parse_impl_extends st a b) as E. rewrite H in E. exact E. Qed.

Lemma parse_impl_extends_err st a st1 r1 e b :
  parse_impl st a = (st1, r1, PErr e) -> parse_impl st (a ++ b) = (st1, r1 ++ b, PErr e).
Proof. intro H. pose proof (parse_impl_extends st a b) as E. rewrite H in E. exact E. Qed.

(* re-running an undecided parse on its leftover, without new bytes, changes nothing *)
Theorem parse_impl_needmore_idem : forall st a st1 r1,
  parse_impl st a = (st1, r1, PNeedMore) -> parse_impl st1 r1 = (st1, r1, PNeedMore).
Proof.
  assert (Hb : forall h n a st1 r1, parse_body h n a = (st1, r1, PNeedMore) ->
               parse_impl st1 r1 = (st1, r1, PNeedMore)).
  { intros h n a st1 r1 H. unfold parse_body in H.
    destruct (length a <? n)%nat eqn:E.
    - inversion H; subst. cbn [parse_impl]. unfold parse_body. rewrite E. reflexivity.
    - destruct (check_blocks _) as [[e|] p]; discriminate. }
  assert (Hh : forall a st1 r1, parse_header a = (st1, r1, PNeedMore) ->
               parse_impl st1 r1 = (st1, r1, PNeedMore)).
  { intros a st1 r1 H. destruct (Nat.ltb_spec (length a) 8) as [Hs|Hl].
    - rewrite parse_header_short in H by assumption. inversion H; subst. cbn [parse_impl].
      apply parse_header_short. assumption.
    - destruct a as [|len [|ctrl [|d1 [|d2 [|s1 [|s2 [|c1 [|c2 rest]]]]]]]]; cbn [length] in Hl; try lia.
      rewrite parse_header_cons in H.
      destruct (len <? c_min_header_length_value); [discriminate|].
      destruct (negb _); [discriminate|]. eapply Hb. exact H. }
  assert (H2 : forall a st1 r1, parse_sync2 a = (st1, r1, PNeedMore) ->
               parse_impl st1 r1 = (st1, r1, PNeedMore)).
  { intros a st1 r1 H. destruct a as [|x rest]; cbn [parse_sync2] in H.
    - inversion H; subst. reflexivity.
    - destruct (x =? c_start2); [|discriminate]. apply Hh with (1 := H). }
  intros st a st1 r1 H. destruct st as [| | |h n]; cbn [parse_impl] in H.
  - destruct a as [|x rest]; cbn [parse_sync1] in H.
    + inversion H; subst. reflexivity.
    + destruct (x =? c_start1); [|discriminate]. apply H2 with (1 := H).
  - apply H2 with (1 := H).
  - apply Hh with (1 := H).
  - apply Hb with (1 := H).
Qed.

(* the state in which an undecided parse stops is never ReadBody _ 0 *)
Definition st_ok (st : pstate) : Prop := match st with ReadBody _ O => False | _ => True end.

(* consumption: the leftover is a suffix of the input; a decision consumes at least one byte
   (unless the parser was started in ReadBody with an empty trailer); a frame resets the state *)
Definition consumes_ok (strict : Prop) (a : list N) (out : pstate * list N * presult) : Prop :=
  let '(st1, r1, res) := out in
  (exists p, a = p ++ r1) /\
  match res with
  | PNeedMore => st_ok st1
  | PFrame _ _ => st1 = FindSync1 /\ (strict -> (length r1 < length a)%nat)
  | PErr _ => strict -> (length r1 < length a)%nat
  end.

Lemma consumes_ok_cons (s s' : Prop) x a out : consumes_ok s a out -> consumes_ok s' (x :: a) out.
Proof.
  destruct out as [[st1 r1] res]. cbn [consumes_ok]. intros [[p Hp] H].
  assert (Hl : (length r1 < length (x :: a))%nat).
  { cbn [length]. rewrite Hp, app_length. lia. }
  split.
  - exists (x :: p). rewrite Hp. reflexivity.
  - destruct res as [|h pl|e]; [exact H| |].
    + destruct H as [H1 _]. split; [exact H1|]. intros _. exact Hl.
    + intros _. exact Hl.
Qed.

Lemma consumes_ok_weaken (s1 s2 : Prop) a out : (s2 -> s1) -> consumes_ok s1 a out -> consumes_ok s2 a out.
Proof.
  destruct out as [[st1 r1] res]. cbn [consumes_ok]. intros Hs [Hp H]. split; [exact Hp|].
  destruct res as [|h pl|e]; [exact H| |].
  - destruct H as [H1 H2]. split; auto.
  - auto.
Qed.

Lemma parse_body_consumes h n a : consumes_ok (0 < n)%nat a (parse_body h n a).
Proof.
  unfold parse_body. destruct (length a <? n)%nat eqn:E.
  - cbn [consumes_ok]. split; [exists []; reflexivity|].
    apply Nat.ltb_lt in E. destruct n; [lia|exact I].
  - apply Nat.ltb_ge in E.
    assert (Hp : exists p, a = p ++ skipn n a) by (exists (firstn n a); symmetry; apply firstn_skipn).
    assert (Hl : (0 < n)%nat -> (length (skipn n a) < length a)%nat) by (rewrite skipn_length; lia).
    destruct (check_blocks _) as [[e|] p]; cbn [consumes_ok]; auto.
Qed.

Lemma parse_header_consumes a : consumes_ok True a (parse_header a).
Proof.
  destruct (Nat.ltb_spec (length a) 8) as [Hs|Hl].
  - rewrite parse_header_short by assumption. cbn [consumes_ok st_ok]. split; [exists []; reflexivity|exact I].
  - destruct a as [|len [|ctrl [|d1 [|d2 [|s1 [|s2 [|c1 [|c2 rest]]]]]]]]; cbn [length] in Hl; try lia.
    rewrite parse_header_cons.
    assert (Hp : exists p, [len; ctrl; d1; d2; s1; s2; c1; c2] ++ rest = p ++ rest) by (eexists; reflexivity).
    cbn [app] in Hp.
    destruct (len <? c_min_header_length_value).
    { cbn [consumes_ok length]. split; [exact Hp|]. intros _. lia. }
    destruct (negb _).
    { cbn [consumes_ok length]. split; [exact Hp|]. intros _. lia. }
    do 7 apply (consumes_ok_cons True True). apply (consumes_ok_cons (0 < calc_trailer_length (len - c_min_header_length_value))%nat True).
    apply parse_body_consumes.
Qed.
