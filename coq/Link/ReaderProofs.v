(* Link/ReaderProofs.v — read buffer invariants and chunking independence. *)
From Dnp3V Require Import Link.Reader Link.CrcProofs Link.ParserProofs Link.ParserIncr.
Open Scope N_scope.

(* ---------- facts about `parse` that hold in both error modes -------------------------------- *)

Lemma parse_mode_extends_needmore mode st a st1 r1 b :
  parse mode st a = (st1, r1, PNeedMore) -> parse mode st (a ++ b) = parse mode st1 (r1 ++ b).
Proof.
  destruct mode.
  - cbn [parse]. apply parse_impl_extends_needmore.
  - rewrite !parse_discard_scan. intro H. pose proof (scan_extends a b) as E. rewrite H in E. exact E.
Qed.

Lemma parse_mode_extends_frame mode st a st1 r1 h p b :
  parse mode st a = (st1, r1, PFrame h p) -> parse mode st (a ++ b) = (st1, r1 ++ b, PFrame h p).
Proof.
  destruct mode.
  - cbn [parse]. apply parse_impl_extends_frame.
  - rewrite !parse_discard_scan. intro H. pose proof (scan_extends a b) as E. rewrite H in E. exact E.
Qed.

Lemma parse_mode_extends_err mode st a st1 r1 e b :
  parse mode st a = (st1, r1, PErr e) -> parse mode st (a ++ b) = (st1, r1 ++ b, PErr e).
Proof.
  destruct mode.
  - cbn [parse]. apply parse_impl_extends_err.
  - rewrite !parse_discard_scan. intro H. pose proof (scan_extends a b) as E. rewrite H in E. exact E.
Qed.

Lemma parse_mode_idem mode st a st1 r1 :
  parse mode st a = (st1, r1, PNeedMore) -> parse mode st1 r1 = (st1, r1, PNeedMore).
Proof.
  destruct mode.
  - cbn [parse]. apply parse_impl_needmore_idem.
  - rewrite !parse_discard_scan. intro H. pose proof (scan_consumes a) as C. rewrite H in C.
    destruct C as (-> & _ & C). exact C.
Qed.

Lemma parse_mode_suffix mode st a st1 r1 res :
  parse mode st a = (st1, r1, res) -> exists p, a = p ++ r1.
Proof.
  destruct mode.
  - cbn [parse]. apply parse_impl_suffix.
  - rewrite parse_discard_scan. intro H. pose proof (scan_consumes a) as C. rewrite H in C. apply C.
Qed.

Lemma parse_mode_frame_state mode st a st1 r1 h p :
  parse mode st a = (st1, r1, PFrame h p) -> st1 = FindSync1.
Proof.
  destruct mode.
  - cbn [parse]. intro H. pose proof (parse_impl_consumes st a) as C. rewrite H in C. apply C.
  - rewrite parse_discard_scan. intro H. pose proof (scan_consumes a) as C. rewrite H in C. apply C.
Qed.

Lemma parse_mode_frame_strict mode st a st1 r1 h p : st_ok st ->
  parse mode st a = (st1, r1, PFrame h p) -> (length r1 < length a)%nat.
Proof.
  intro Hs. destruct mode.
  - cbn [parse]. intro H. apply (parse_impl_frame_strict st a st1 r1 h p Hs H).
  - rewrite parse_discard_scan. intro H. pose proof (scan_consumes a) as C. rewrite H in C. apply C.
Qed.

Lemma parse_mode_needmore_st_ok mode st a st1 r1 :
  parse mode st a = (st1, r1, PNeedMore) -> st_ok st1.
Proof.
  destruct mode.
  - cbn [parse]. apply parse_impl_needmore_st_ok.
  - rewrite parse_discard_scan. intro H. pose proof (scan_consumes a) as C. rewrite H in C.
    destruct C as (-> & _). exact I.
Qed.

(* KEY FACT: after `parse` asks for more data the bytes it leaves in the buffer are fewer than a
   maximal frame.  Close mode: the leftover of parse_impl; Discard mode: the incomplete candidate *)
Theorem parse_needmore_leftover : forall mode st a st1 r1,
  pstate_ok st -> bytes_ok a -> parse mode st a = (st1, r1, PNeedMore) ->
  pstate_ok st1 /\ (length r1 < 292)%nat.
Proof.
  intros mode st a st1 r1 Hst Hb. destruct mode.
  - cbn [parse]. intro H. apply parse_impl_needmore_bound in H; try assumption.
    destruct H as (_ & H1 & H2). split; [exact H1|lia].
  - rewrite parse_discard_scan. intro H. split.
    + pose proof (scan_consumes a) as C. rewrite H in C. destruct C as (-> & _). exact I.
    + apply scan_needmore_bound with (1 := Hb) (2 := H).
Qed.

Lemma parse_mode_init mode : parse mode FindSync1 [] = (FindSync1, [], PNeedMore).
Proof. destruct mode; reflexivity. Qed.

(* ---------- unfolding lemmas for the reader ------------------------------------------------------ *)

Lemma step_parse_nil cfg rs : r_unread rs = [] ->
  step_parse cfg rs = ({| r_begin := 0; r_unread := []; r_pstate := r_pstate rs |}, None).
Proof. intro H. unfold step_parse. rewrite H. reflexivity. Qed.

Lemma step_parse_cons cfg rs : r_unread rs <> [] ->
  step_parse cfg rs =
  match parse (r_mode cfg) (r_pstate rs) (r_unread rs) with
  | (st', rest, PFrame h p) =>
      ({| r_begin := r_end rs - length rest; r_unread := rest; r_pstate := st' |}, Some (RFrame h p))
  | (st', rest, PErr e) => (rs, Some (RErr (RParse e)))
  | (st', rest, PNeedMore) =>
      match r_read cfg with
      | Datagram => (rstate_init, None)
      | Stream => ({| r_begin := r_end rs - length rest; r_unread := rest; r_pstate := st' |}, None)
      end
  end.
Proof. intro H. unfold step_parse. destruct (r_unread rs); [congruence|reflexivity]. Qed.

Lemma read_frame_nil cfg rs :
  read_frame cfg [] rs =
  match step_parse cfg rs with
  | (rs1, Some r) => (rs1, [], r)
  | (rs1, None) => (shift_if_full cfg rs1, [], RBlocked)
  end.
Proof. reflexivity. Qed.

Lemma read_frame_cons cfg c reads rs :
  read_frame cfg (c :: reads) rs =
  match step_parse cfg rs with
  | (rs1, Some r) => (rs1, c :: reads, r)
  | (rs1, None) =>
      if (r_writable cfg (shift_if_full cfg rs1) <? length c)%nat
      then (shift_if_full cfg rs1, reads, ROverflow)
      else match c with
           | [] => (shift_if_full cfg rs1, reads, RErr REof)
           | _ => read_frame cfg reads (append_read (shift_if_full cfg rs1) c)
           end
  end.
Proof. reflexivity. Qed.

Lemma feed_loop_S f cfg reads rs :
  feed_loop (S f) cfg reads rs =
  match read_frame cfg reads rs with
  | (rs', reads', RFrame h p) =>
      let '(rs'', obs, go) := feed_loop f cfg reads' rs' in (rs'', OFrame h p :: obs, go)
  | (rs', _, RBlocked) => (rs', [], true)
  | (rs', _, RErr e) => (rs', [OErr e], false)
  | (rs', _, ROverflow) => (rs', [OOverflow], false)
  end.
Proof. reflexivity. Qed.

Lemma shift_pstate cfg rs : r_pstate (shift_if_full cfg rs) = r_pstate rs.
Proof. unfold shift_if_full. destruct (r_end rs =? r_cap cfg)%nat; reflexivity. Qed.

Lemma shift_unread cfg rs : r_unread (shift_if_full cfg rs) = r_unread rs.
Proof. unfold shift_if_full. destruct (r_end rs =? r_cap cfg)%nat; reflexivity. Qed.

Lemma shift_init cfg : shift_if_full cfg rstate_init = rstate_init.
Proof. unfold shift_if_full. destruct (r_end rstate_init =? r_cap cfg)%nat; reflexivity. Qed.

Lemma shift_end_le cfg rs : (r_end (shift_if_full cfg rs) <= r_end rs)%nat.
Proof.
  unfold shift_if_full. destruct (r_end rs =? r_cap cfg)%nat; [|lia]. unfold r_end. cbn [r_begin r_unread]. lia.
Qed.

(* ---------- 3. the read buffer invariant ------------------------------------------------------- *)

Lemma num_link_frames_bound frag : (293 <= read_buffer_size frag)%nat.
Proof.
  unfold read_buffer_size. change (N.to_nat c_max_link_frame_length) with 292%nat.
  destruct (num_link_frames frag =? 0)%nat eqn:E; [lia|]. apply Nat.eqb_neq in E. lia.
Qed.

Definition rs_inv (cfg : rcfg) (rs : rstate) : Prop :=
  (r_begin rs + length (r_unread rs) <= r_cap cfg)%nat /\
  pstate_ok (r_pstate rs) /\ st_ok (r_pstate rs) /\ bytes_ok (r_unread rs).

Lemma rs_inv_init cfg : rs_inv cfg rstate_init.
Proof. unfold rs_inv. cbn. split; [lia|]. split; [exact I|]. split; [exact I|constructor]. Qed.

Lemma bytes_ok_suffix p r : bytes_ok (p ++ r) -> bytes_ok r.
Proof. intro H. apply bytes_ok_app in H. apply H. Qed.

(* one pass through the parsing half of the loop keeps the invariant; when it decides to read,
   fewer than 292 bytes are pending *)
Lemma step_parse_inv cfg rs rs1 o : rs_inv cfg rs -> step_parse cfg rs = (rs1, o) ->
  rs_inv cfg rs1 /\ (r_end rs1 <= r_end rs)%nat /\ (o = None -> (length (r_unread rs1) < 292)%nat).
Proof.
  intros (Hcap & Hps & Hso & Hb) H. unfold r_end.
  destruct (nil_or_not (r_unread rs)) as [Eu|Eu].
  - rewrite step_parse_nil in H by assumption. inversion H; subst. unfold rs_inv.
    cbn [r_begin r_unread r_pstate length].
    split; [|split; [lia|intros _; lia]].
    split; [lia|]. split; [assumption|]. split; [assumption|constructor].
  - rewrite step_parse_cons in H by assumption.
    destruct (parse (r_mode cfg) (r_pstate rs) (r_unread rs)) as [[st' rest] [|h p|e]] eqn:Ep.
    + destruct (r_read cfg).
      * inversion H; subst. destruct (parse_mode_suffix _ _ _ _ _ _ Ep) as [q Hq].
        destruct (parse_needmore_leftover _ _ _ _ _ Hps Hb Ep) as [Hps' Hlen].
        pose proof (parse_mode_needmore_st_ok _ _ _ _ _ Ep) as Hso'.
        assert (Hle : (length rest <= length (r_unread rs))%nat) by (rewrite Hq, app_length; lia).
        unfold rs_inv, r_end. cbn [r_begin r_unread r_pstate].
        split; [|split; [lia|intros _; exact Hlen]].
        split; [lia|]. split; [assumption|]. split; [assumption|].
        rewrite Hq in Hb. apply bytes_ok_suffix in Hb. exact Hb.
      * inversion H; subst. split; [apply rs_inv_init|]. cbn [rstate_init r_begin r_unread length].
        split; [lia|]. intros _. lia.
    + inversion H; subst. destruct (parse_mode_suffix _ _ _ _ _ _ Ep) as [q Hq].
      pose proof (parse_mode_frame_state _ _ _ _ _ _ _ Ep) as ->.
      assert (Hle : (length rest <= length (r_unread rs))%nat) by (rewrite Hq, app_length; lia).
      unfold rs_inv, r_end. cbn [r_begin r_unread r_pstate].
      split; [|split; [lia|discriminate]].
      split; [lia|]. split; [exact I|]. split; [exact I|].
      rewrite Hq in Hb. apply bytes_ok_suffix in Hb. exact Hb.
    + inversion H; subst. split; [|split; [lia|discriminate]].
      unfold rs_inv. split; [assumption|]. split; [assumption|]. split; assumption.
Qed.

Lemma shift_inv cfg rs : rs_inv cfg rs -> rs_inv cfg (shift_if_full cfg rs).
Proof.
  intros (Hcap & Hps & Hso & Hb). unfold rs_inv. rewrite shift_pstate, shift_unread.
  pose proof (shift_end_le cfg rs) as Hle. unfold r_end in Hle. rewrite shift_unread in Hle.
  repeat split; try assumption. lia.
Qed.

(* THE READER NEVER OFFERS AN EMPTY SLICE: whenever the loop is about to read, there is room *)
Theorem ready_to_read_has_space : forall cfg rs rs1, (293 <= r_cap cfg)%nat -> rs_inv cfg rs ->
  step_parse cfg rs = (rs1, None) -> (0 < r_writable cfg (shift_if_full cfg rs1))%nat.
Proof.
  intros cfg rs rs1 Hc Hinv H. destruct (step_parse_inv _ _ _ _ Hinv H) as ((Hcap & _) & _ & Hlen).
  specialize (Hlen eq_refl). unfold r_writable, shift_if_full, r_end in *.
  destruct (r_begin rs1 + length (r_unread rs1) =? r_cap cfg)%nat eqn:E.
  - cbn [r_begin r_unread]. lia.
  - apply Nat.eqb_neq in E. lia.
Qed.

Lemma append_inv cfg rs c : rs_inv cfg rs -> bytes_ok c -> (length c <= r_writable cfg rs)%nat ->
  c <> [] -> rs_inv cfg (append_read rs c).
Proof.
  intros (Hcap & Hps & Hso & Hb) Hc Hw Hne. unfold rs_inv, append_read, r_writable, r_end in *.
  cbn [r_begin r_unread r_pstate]. rewrite app_length. repeat split; try assumption.
  - lia.
  - apply bytes_ok_app. split; assumption.
Qed.

(* a result produced by the parsing half is a frame or a parse error *)
Lemma step_parse_some_not_blocked cfg rs rs1 r : step_parse cfg rs = (rs1, Some r) -> r <> RBlocked.
Proof.
  intros H Hr. subst r. destruct (nil_or_not (r_unread rs)) as [Eu|Eu].
  - rewrite step_parse_nil in H by assumption. discriminate.
  - rewrite step_parse_cons in H by assumption.
    destruct (parse (r_mode cfg) (r_pstate rs) (r_unread rs)) as [[st' rest] [|h p|e]]; try discriminate.
    destruct (r_read cfg); discriminate.
Qed.

(* the invariant along read_frame; WHENEVER read_frame RETURNS RBlocked, I.E. IS ABOUT TO READ, THE
   WRITABLE SPACE IS NOT EMPTY *)
Theorem read_frame_inv : forall cfg, (293 <= r_cap cfg)%nat -> forall reads rs rs' reads' r,
  rs_inv cfg rs -> Forall bytes_ok reads -> read_frame cfg reads rs = (rs', reads', r) ->
  rs_inv cfg rs' /\ Forall bytes_ok reads' /\ (r = RBlocked -> (0 < r_writable cfg rs')%nat).
Proof.
  intros cfg Hc. induction reads as [|c reads IH]; intros rs rs' reads' r Hinv Hreads H.
  - rewrite read_frame_nil in H. destruct (step_parse cfg rs) as [rs1 [r0|]] eqn:Es.
    + inversion H; subst. destruct (step_parse_inv _ _ _ _ Hinv Es) as (Hinv1 & _).
      split; [exact Hinv1|]. split; [constructor|]. intro Hr. exfalso.
      apply (step_parse_some_not_blocked _ _ _ _ Es Hr).
    + inversion H; subst. destruct (step_parse_inv _ _ _ _ Hinv Es) as (Hinv1 & _).
      split; [apply shift_inv; exact Hinv1|]. split; [constructor|]. intros _.
      apply ready_to_read_has_space with (rs := rs); assumption.
  - rewrite read_frame_cons in H. inversion Hreads as [|? ? Hcb Hreads']; subst.
    destruct (step_parse cfg rs) as [rs1 [r0|]] eqn:Es.
    + inversion H; subst. destruct (step_parse_inv _ _ _ _ Hinv Es) as (Hinv1 & _).
      split; [exact Hinv1|]. split; [assumption|]. intro Hr. exfalso.
      apply (step_parse_some_not_blocked _ _ _ _ Es Hr).
    + destruct (step_parse_inv _ _ _ _ Hinv Es) as (Hinv1 & _).
      pose proof (shift_inv _ _ Hinv1) as Hinv2.
      destruct (r_writable cfg (shift_if_full cfg rs1) <? length c)%nat eqn:Ew.
      * inversion H; subst. split; [exact Hinv2|]. split; [assumption|]. discriminate.
      * apply Nat.ltb_ge in Ew. destruct c as [|x c].
        -- inversion H; subst. split; [exact Hinv2|]. split; [assumption|]. discriminate.
        -- apply IH with (3 := H); [|assumption]. apply append_inv; try assumption. discriminate.
Qed.

Lemma feed_loop_inv cfg : (293 <= r_cap cfg)%nat -> forall f reads rs rs' obs go,
  rs_inv cfg rs -> Forall bytes_ok reads -> feed_loop f cfg reads rs = (rs', obs, go) ->
  rs_inv cfg rs' /\ (go = true -> (0 < r_writable cfg rs')%nat).
Proof.
  intro Hc. induction f as [|f IH]; intros reads rs rs' obs go Hinv Hreads H.
  - cbn [feed_loop] in H. inversion H; subst. split; [assumption|discriminate].
  - rewrite feed_loop_S in H. destruct (read_frame cfg reads rs) as [[rs1 reads1] r] eqn:Er.
    destruct (read_frame_inv cfg Hc _ _ _ _ _ Hinv Hreads Er) as (Hinv1 & Hreads1 & Hbl).
    destruct r as [h p|e| |].
    + destruct (feed_loop f cfg reads1 rs1) as [[rs2 obs2] go2] eqn:Ef. inversion H; subst.
      apply IH with (3 := Ef); assumption.
    + inversion H; subst. split; [assumption|discriminate].
    + inversion H; subst. split; [assumption|]. intros _. apply Hbl. reflexivity.
    + inversion H; subst. split; [assumption|discriminate].
Qed.

(* every state the session can be in between two physical reads *)
Inductive reachable (cfg : rcfg) : rstate -> Prop :=
| reach_init : reachable cfg rstate_init
| reach_feed rs c rs' obs go : reachable cfg rs -> bytes_ok c -> feed cfg rs c = (rs', obs, go) ->
    reachable cfg rs'.

Lemma reachable_inv cfg rs : (293 <= r_cap cfg)%nat -> reachable cfg rs -> rs_inv cfg rs.
Proof.
  intros Hc H. induction H as [|rs c rs' obs go Hr IH Hb Hf]; [apply rs_inv_init|].
  unfold feed in Hf. apply (feed_loop_inv cfg Hc) in Hf; [apply Hf|exact IH|].
  constructor; [exact Hb|constructor].
Qed.

Theorem readbuffer_inv : forall cfg frag rs, r_cap cfg = read_buffer_size frag -> reachable cfg rs ->
  (r_begin rs + length (r_unread rs) <= r_cap cfg)%nat.
Proof.
  intros cfg frag rs Hcap Hr. apply reachable_inv in Hr; [apply Hr|].
  rewrite Hcap. apply num_link_frames_bound.
Qed.

(* a feed that ends with the reader waiting for the next physical read (go = true: read_frame
   returned RBlocked) leaves room in the buffer: the slice offered to the socket is not empty *)
Theorem readbuffer_space : forall cfg frag rs c rs' obs, r_cap cfg = read_buffer_size frag ->
  reachable cfg rs -> bytes_ok c -> feed cfg rs c = (rs', obs, true) -> (0 < r_writable cfg rs')%nat.
Proof.
  intros cfg frag rs c rs' obs Hcap Hr Hb Hf.
  assert (Hc : (293 <= r_cap cfg)%nat) by (rewrite Hcap; apply num_link_frames_bound).
  apply reachable_inv in Hr; [|exact Hc]. unfold feed in Hf.
  apply (feed_loop_inv cfg Hc) in Hf; [apply Hf; reflexivity|exact Hr|].
  constructor; [exact Hb|constructor].
Qed.

(* ---------- 4. chunking independence ------------------------------------------------------------ *)

(* the whole-stream reference: parse from FindSync1 on what remains, collect the frames, stop at
   the first error, end when the parser wants more.  Fuel = length + 1 (a frame consumes bytes) *)
Fixpoint frames_of_fuel (fuel : nat) (mode : error_mode) (stream : list N) : list robs :=
  match fuel with
  | O => []
  | S f =>
      match parse mode FindSync1 stream with
      | (_, rest, PFrame h p) => OFrame h p :: frames_of_fuel f mode rest
      | (_, _, PErr e) => [OErr (RParse e)]
      | (_, _, PNeedMore) => []
      end
  end.

Definition frames_of (mode : error_mode) (stream : list N) : list robs :=
  frames_of_fuel (S (length stream)) mode stream.

(* the same, starting in the middle of a frame: first step from state st *)
Definition frames_from (mode : error_mode) (st : pstate) (cur : list N) : list robs :=
  match parse mode st cur with
  | (_, rest, PFrame h p) => OFrame h p :: frames_of mode rest
  | (_, _, PErr e) => [OErr (RParse e)]
  | (_, _, PNeedMore) => []
  end.

Lemma frames_of_fuel_irrelevant mode : forall f1 f2 s, (length s < f1)%nat -> (length s < f2)%nat ->
  frames_of_fuel f1 mode s = frames_of_fuel f2 mode s.
Proof.
  induction f1 as [|f1 IH]; intros f2 s H1 H2; [lia|]. destruct f2 as [|f2]; [lia|].
  cbn [frames_of_fuel]. destruct (parse mode FindSync1 s) as [[st' rest] [|h p|e]] eqn:Ep; try reflexivity.
  f_equal. pose proof (parse_mode_frame_strict _ FindSync1 _ _ _ _ _ I Ep) as Hlt. apply IH; lia.
Qed.

Lemma frames_of_unfold mode s : frames_of mode s = frames_from mode FindSync1 s.
Proof.
  unfold frames_of, frames_from. cbn [frames_of_fuel].
  destruct (parse mode FindSync1 s) as [[st' rest] [|h p|e]] eqn:Ep; try reflexivity.
  f_equal. pose proof (parse_mode_frame_strict _ FindSync1 _ _ _ _ _ I Ep) as Hlt.
  apply frames_of_fuel_irrelevant; lia.
Qed.

Lemma frames_from_needmore mode st a st1 r1 X : parse mode st a = (st1, r1, PNeedMore) ->
  frames_from mode st (a ++ X) = frames_from mode st1 (r1 ++ X).
Proof. intro H. unfold frames_from. rewrite (parse_mode_extends_needmore _ _ _ _ _ X H). reflexivity. Qed.

Lemma frames_from_frame mode st a st1 r1 h p X : parse mode st a = (st1, r1, PFrame h p) ->
  frames_from mode st (a ++ X) = OFrame h p :: frames_from mode FindSync1 (r1 ++ X).
Proof.
  intro H. unfold frames_from at 1. rewrite (parse_mode_extends_frame _ _ _ _ _ _ _ X H).
  rewrite frames_of_unfold. reflexivity.
Qed.

Lemma frames_from_err mode st a st1 r1 e X : parse mode st a = (st1, r1, PErr e) ->
  frames_from mode st (a ++ X) = [OErr (RParse e)].
Proof. intro H. unfold frames_from. rewrite (parse_mode_extends_err _ _ _ _ _ _ X H). reflexivity. Qed.

(* a state in which the reader waits for input: parsing again changes nothing *)
Definition quiet (mode : error_mode) (rs : rstate) : Prop :=
  parse mode (r_pstate rs) (r_unread rs) = (r_pstate rs, r_unread rs, PNeedMore).

Lemma quiet_init mode : quiet mode rstate_init.
Proof. apply parse_mode_init. Qed.

Lemma quiet_st_ok mode rs : quiet mode rs -> st_ok (r_pstate rs).
Proof. apply parse_mode_needmore_st_ok. Qed.

Definition has_err (obs : list robs) : bool :=
  existsb (fun o => match o with OErr _ => true | _ => false end) obs.

(* draining the buffer once nothing more is queued: the frames delivered are those of the
   reference on the buffered bytes, and what the reference would deliver on a longer stream is
   this followed by what it delivers from the reader's new state *)
Lemma drain_spec cfg : forall f rs,
  (length (r_unread rs) < f)%nat -> st_ok (r_pstate rs) -> (r_unread rs = [] -> r_pstate rs = FindSync1) ->
  let '(rs', obs, go) := feed_loop f cfg [] rs in
  (forall X, r_read cfg = Stream \/ X = [] ->
     frames_from (r_mode cfg) (r_pstate rs) (r_unread rs ++ X)
     = obs ++ (if go then frames_from (r_mode cfg) (r_pstate rs') (r_unread rs' ++ X) else [])) /\
  (go = true -> quiet (r_mode cfg) rs' /\ (r_read cfg = Datagram -> rs' = rstate_init)) /\
  ~ In OStall obs /\ ~ In OOverflow obs /\ has_err obs = negb go.
Proof.
  induction f as [|f IH]; intros rs Hf Hso Hnil; [lia|].
  rewrite feed_loop_S, read_frame_nil.
  destruct (nil_or_not (r_unread rs)) as [Eu|Eu].
  - (* nothing buffered: block *)
    rewrite step_parse_nil by assumption. rewrite (Hnil Eu), Eu.
    set (rs0 := {| r_begin := 0; r_unread := []; r_pstate := FindSync1 |}).
    assert (E0 : shift_if_full cfg rs0 = rstate_init) by apply shift_init. rewrite E0.
    split; [intros X _; reflexivity|]. split; [intros _; split; [apply quiet_init|reflexivity]|].
    cbn [In has_err existsb negb]. tauto.
  - rewrite step_parse_cons by assumption.
    destruct (parse (r_mode cfg) (r_pstate rs) (r_unread rs)) as [[st' rest] [|h p|e]] eqn:Ep.
    + (* the parser wants more *)
      destruct (r_read cfg) eqn:Erd.
      * set (rs1 := {| r_begin := r_end rs - length rest; r_unread := rest; r_pstate := st' |}).
        rewrite shift_pstate, shift_unread. cbn [rs1 r_pstate r_unread].
        split; [intros X _; cbn [app]; apply frames_from_needmore; exact Ep|].
        split.
        { intros _. split; [|discriminate]. unfold quiet. rewrite shift_pstate, shift_unread. cbn [r_pstate r_unread].
          apply parse_mode_idem with (1 := Ep). }
        cbn [In has_err existsb negb]. tauto.
      * rewrite shift_init.
        split.
        { intros X [HX|HX]; [discriminate|]. subst X. cbn [app rstate_init r_pstate r_unread].
          rewrite app_nil_r. unfold frames_from. rewrite Ep, parse_mode_init. reflexivity. }
        split; [intros _; split; [apply quiet_init|reflexivity]|].
        cbn [In has_err existsb negb]. tauto.
    + (* a frame: deliver it and go round again *)
      set (rs1 := {| r_begin := r_end rs - length rest; r_unread := rest; r_pstate := st' |}).
      pose proof (parse_mode_frame_state _ _ _ _ _ _ _ Ep) as Hst'.
      pose proof (parse_mode_frame_strict _ _ _ _ _ _ _ Hso Ep) as Hlt.
      specialize (IH rs1). cbn [rs1 r_unread r_pstate] in IH.
      assert (Hf1 : (length rest < f)%nat) by lia. rewrite Hst' in IH.
      specialize (IH Hf1 I (fun _ => eq_refl)).
      fold rs1. subst st'. fold rs1 in IH.
      destruct (feed_loop f cfg [] rs1) as [[rs2 obs2] go2].
      destruct IH as (IH1 & IH2 & IH3 & IH4 & IH5).
      split.
      { intros X HX. rewrite (frames_from_frame _ _ _ _ _ _ _ X Ep). cbn [app]. f_equal. apply IH1. exact HX. }
      split; [exact IH2|]. split; [|split].
      * intros [Hin|Hin]; [discriminate|auto].
      * intros [Hin|Hin]; [discriminate|auto].
      * cbn [has_err existsb orb]. exact IH5.
    + (* an error: the session ends *)
      split; [intros X _; rewrite app_nil_r; apply frames_from_err with (1 := Ep)|].
      split; [discriminate|]. cbn [In has_err existsb negb orb].
      split; [intros [Hin|[]]; discriminate|]. split; [intros [Hin|[]]; discriminate|reflexivity].
Qed.

(* the first trip through read_frame when one physical read is queued *)
Lemma feed_loop_first cfg f c rs rs1 : step_parse cfg rs = (rs1, None) -> c <> [] ->
  (length c <= r_writable cfg (shift_if_full cfg rs1))%nat ->
  feed_loop (S f) cfg [c] rs = feed_loop (S f) cfg [] (append_read (shift_if_full cfg rs1) c).
Proof.
  intros Hs Hne Hw.
  assert (E : read_frame cfg [c] rs = read_frame cfg [] (append_read (shift_if_full cfg rs1) c)).
  { rewrite read_frame_cons, Hs.
    replace (r_writable cfg (shift_if_full cfg rs1) <? length c)%nat with false
      by (symmetry; apply Nat.ltb_ge; exact Hw).
    destruct c; [congruence|reflexivity]. }
  rewrite !feed_loop_S, E. reflexivity.
Qed.

Lemma feed_loop_overflow cfg f c rs rs1 : step_parse cfg rs = (rs1, None) ->
  (r_writable cfg (shift_if_full cfg rs1) < length c)%nat ->
  feed_loop (S f) cfg [c] rs = (shift_if_full cfg rs1, [OOverflow], false).
Proof.
  intros Hs Hw. rewrite feed_loop_S, read_frame_cons, Hs.
  replace (r_writable cfg (shift_if_full cfg rs1) <? length c)%nat with true
    by (symmetry; apply Nat.ltb_lt; exact Hw).
  reflexivity.
Qed.

Lemma step_parse_quiet cfg rs : r_read cfg = Stream -> quiet (r_mode cfg) rs ->
  exists rs1, step_parse cfg rs = (rs1, None) /\ r_pstate rs1 = r_pstate rs /\ r_unread rs1 = r_unread rs.
Proof.
  intros Hrd Hq. destruct (nil_or_not (r_unread rs)) as [Eu|Eu].
  - rewrite step_parse_nil by assumption. eexists. split; [reflexivity|]. cbn [r_pstate r_unread]. auto.
  - rewrite step_parse_cons by assumption. unfold quiet in Hq. rewrite Hq, Hrd.
    eexists. split; [reflexivity|]. cbn [r_pstate r_unread]. auto.
Qed.

Lemma feed_fuel_eq (a b : nat) : (a + b + 2 = S (a + b + 1))%nat.
Proof. lia. Qed.

(* one physical read in Stream mode, from a waiting state *)
Lemma feed_stream_spec cfg rs c rs' obs go : r_read cfg = Stream -> quiet (r_mode cfg) rs -> c <> [] ->
  feed cfg rs c = (rs', obs, go) -> ~ In OOverflow obs ->
  (forall X, frames_from (r_mode cfg) (r_pstate rs) (r_unread rs ++ c ++ X)
             = obs ++ (if go then frames_from (r_mode cfg) (r_pstate rs') (r_unread rs' ++ X) else [])) /\
  (go = true -> quiet (r_mode cfg) rs') /\ ~ In OStall obs.
Proof.
  intros Hrd Hq Hne Hf Hno. unfold feed in Hf. rewrite feed_fuel_eq in Hf.
  destruct (step_parse_quiet cfg rs Hrd Hq) as (rs1 & Hs & Hp1 & Hu1).
  destruct (Nat.ltb_spec (r_writable cfg (shift_if_full cfg rs1)) (length c)) as [Hw|Hw].
  - rewrite (feed_loop_overflow _ _ _ _ _ Hs Hw) in Hf. inversion Hf; subst. exfalso. apply Hno. left. reflexivity.
  - rewrite (feed_loop_first _ _ _ _ _ Hs Hne Hw) in Hf.
    set (rsA := append_read (shift_if_full cfg rs1) c) in *.
    assert (EpA : r_pstate rsA = r_pstate rs) by (unfold rsA, append_read; cbn [r_pstate]; rewrite shift_pstate; exact Hp1).
    assert (EuA : r_unread rsA = r_unread rs ++ c) by (unfold rsA, append_read; cbn [r_unread]; rewrite shift_unread, Hu1; reflexivity).
    pose proof (drain_spec cfg (S (length (r_unread rs) + length c + 1)) rsA) as D.
    rewrite Hf, EpA, EuA in D.
    destruct D as (D1 & D2 & D3 & _).
    + rewrite app_length. lia.
    + apply quiet_st_ok with (1 := Hq).
    + intro E. apply app_eq_nil in E. destruct E as [_ E]. congruence.
    + split; [|split].
      * intro X. rewrite app_assoc. apply D1. left. exact Hrd.
      * intro Hg. apply D2. exact Hg.
      * exact D3.
Qed.

(* CHUNKING INDEPENDENCE, general form: from any waiting state, whatever the cut of the stream
   into non-empty physical reads that fit the buffer, the reader delivers what the whole-stream
   reference delivers on the buffered bytes followed by all the reads *)
Theorem chunking_independent_from : forall cfg, r_read cfg = Stream -> forall cs rs,
  quiet (r_mode cfg) rs -> Forall (fun c => c <> []) cs ->
  ~ In OOverflow (run_feeds cfg rs cs) ->
  run_feeds cfg rs cs = frames_from (r_mode cfg) (r_pstate rs) (r_unread rs ++ concat cs)
  /\ ~ In OStall (run_feeds cfg rs cs).
Proof.
  intros cfg Hrd. induction cs as [|c cs IH]; intros rs Hq Hne Hno.
  - cbn [run_feeds concat]. rewrite app_nil_r. unfold frames_from. unfold quiet in Hq. rewrite Hq.
    split; [reflexivity|intros []].
  - inversion Hne as [|? ? Hc Hcs]; subst. cbn [run_feeds concat] in *.
    destruct (feed cfg rs c) as [[rs' obs] go] eqn:Ef.
    assert (Hno1 : ~ In OOverflow obs).
    { intro Hin. apply Hno. destruct go; [apply in_or_app; left; exact Hin|exact Hin]. }
    destruct (feed_stream_spec cfg rs c rs' obs go Hrd Hq Hc Ef Hno1) as (S1 & S2 & S3).
    rewrite (S1 (concat cs)). destruct go.
    + assert (Hno2 : ~ In OOverflow (run_feeds cfg rs' cs)).
      { intro Hin. apply Hno. apply in_or_app. right. exact Hin. }
      destruct (IH rs' (S2 eq_refl) Hcs Hno2) as [I1 I2]. rewrite I1. split; [reflexivity|].
      rewrite <- I1. intro Hin. apply in_app_or in Hin. tauto.
    + rewrite app_nil_r. split; [reflexivity|exact S3].
Qed.

Theorem chunking_independent : forall mode frag cs,
  Forall (fun c => c <> []) cs ->
  ~ In OOverflow (run_link mode Stream frag cs) ->
  run_link mode Stream frag cs = frames_of mode (concat cs).
Proof.
  intros mode frag cs Hne Hno. unfold run_link in *.
  set (cfg := {| r_mode := mode; r_read := Stream; r_cap := read_buffer_size frag |}) in *.
  destruct (chunking_independent_from cfg eq_refl cs rstate_init (quiet_init _) Hne Hno) as [H _].
  rewrite H. cbn [rstate_init r_pstate r_unread app cfg r_mode]. symmetry. apply frames_of_unfold.
Qed.

(* ---------- fuel: OStall is never produced ------------------------------------------------------ *)

Lemma step_parse_progress cfg rs rs1 o : st_ok (r_pstate rs) -> step_parse cfg rs = (rs1, o) ->
  st_ok (r_pstate rs1) /\ (length (r_unread rs1) <= length (r_unread rs))%nat /\
  (forall h p, o = Some (RFrame h p) -> (length (r_unread rs1) < length (r_unread rs))%nat).
Proof.
  intros Hso H. destruct (nil_or_not (r_unread rs)) as [Eu|Eu].
  - rewrite step_parse_nil in H by assumption. inversion H; subst. cbn [r_pstate r_unread length].
    split; [assumption|]. split; [lia|]. intros h p Hx. discriminate.
  - rewrite step_parse_cons in H by assumption.
    destruct (parse (r_mode cfg) (r_pstate rs) (r_unread rs)) as [[st' rest] [|h p|e]] eqn:Ep.
    + destruct (r_read cfg); inversion H; subst; cbn [r_pstate r_unread rstate_init length].
      * destruct (parse_mode_suffix _ _ _ _ _ _ Ep) as [q Hq].
        split; [apply parse_mode_needmore_st_ok with (1 := Ep)|]. split; [rewrite Hq, app_length; lia|].
        intros h p Hx. discriminate.
      * split; [exact I|]. split; [lia|]. intros h p Hx. discriminate.
    + inversion H; subst. cbn [r_pstate r_unread].
      pose proof (parse_mode_frame_state _ _ _ _ _ _ _ Ep) as ->.
      pose proof (parse_mode_frame_strict _ _ _ _ _ _ _ Hso Ep) as Hlt.
      split; [exact I|]. split; [lia|]. intros h0 p0 _. exact Hlt.
    + inversion H; subst. split; [assumption|]. split; [lia|]. intros h p Hx. discriminate.
Qed.

Lemma read_frame_progress cfg : forall reads rs rs' reads' r, st_ok (r_pstate rs) ->
  read_frame cfg reads rs = (rs', reads', r) ->
  st_ok (r_pstate rs') /\
  (length (r_unread rs') + length (concat reads') <= length (r_unread rs) + length (concat reads))%nat /\
  (forall h p, r = RFrame h p ->
     (length (r_unread rs') + length (concat reads') < length (r_unread rs) + length (concat reads))%nat).
Proof.
  induction reads as [|c reads IH]; intros rs rs' reads' r Hso H.
  - rewrite read_frame_nil in H. destruct (step_parse cfg rs) as [rs1 [r0|]] eqn:Es;
      destruct (step_parse_progress _ _ _ _ Hso Es) as (P1 & P2 & P3); inversion H; subst.
    + split; [assumption|]. split; [lia|]. intros h p ->. specialize (P3 h p eq_refl). lia.
    + rewrite shift_pstate, shift_unread. split; [assumption|]. split; [lia|]. intros h p Hx. discriminate.
  - rewrite read_frame_cons in H. cbn [concat]. rewrite app_length.
    destruct (step_parse cfg rs) as [rs1 [r0|]] eqn:Es;
      destruct (step_parse_progress _ _ _ _ Hso Es) as (P1 & P2 & P3).
    + inversion H; subst. cbn [concat]. rewrite app_length. split; [assumption|]. split; [lia|].
      intros h p ->. specialize (P3 h p eq_refl). lia.
    + destruct (r_writable cfg (shift_if_full cfg rs1) <? length c)%nat.
      * inversion H; subst. rewrite shift_pstate, shift_unread. split; [assumption|]. split; [lia|].
        intros h p Hx. discriminate.
      * destruct c as [|x c].
        -- inversion H; subst. rewrite shift_pstate, shift_unread. split; [assumption|]. split; [lia|].
           intros h p Hx. discriminate.
        -- apply IH in H.
           ++ unfold append_read in H. cbn [r_pstate r_unread] in H. rewrite shift_unread, app_length in H.
              destruct H as (Q1 & Q2 & Q3). split; [assumption|]. split; [lia|].
              intros h p Hx. specialize (Q3 h p Hx). lia.
           ++ unfold append_read. cbn [r_pstate]. rewrite shift_pstate. exact P1.
Qed.

Lemma feed_loop_no_stall cfg : forall f reads rs rs' obs go, st_ok (r_pstate rs) ->
  (length (r_unread rs) + length (concat reads) < f)%nat ->
  feed_loop f cfg reads rs = (rs', obs, go) -> ~ In OStall obs /\ st_ok (r_pstate rs').
Proof.
  induction f as [|f IH]; intros reads rs rs' obs go Hso Hf H; [lia|].
  rewrite feed_loop_S in H. destruct (read_frame cfg reads rs) as [[rs1 reads1] r] eqn:Er.
  destruct (read_frame_progress cfg _ _ _ _ _ Hso Er) as (P1 & P2 & P3).
  destruct r as [h p|e| |].
  - destruct (feed_loop f cfg reads1 rs1) as [[rs2 obs2] go2] eqn:Ef. inversion H; subst.
    specialize (P3 h p eq_refl). apply IH in Ef; [|assumption|lia]. destruct Ef as [E1 E2].
    split; [|exact E2]. intros [Hin|Hin]; [discriminate|auto].
  - inversion H; subst. split; [|assumption]. intros [Hin|[]]. discriminate.
  - inversion H; subst. split; [|assumption]. intros [].
  - inversion H; subst. split; [|assumption]. intros [Hin|[]]. discriminate.
Qed.

(* the fuel given by `feed` is enough: OStall is never observed.  (The only states excluded are
   ReadBody _ 0, in which the parser never stops.) *)
Theorem feed_fuel_sufficient : forall cfg rs c rs' obs go, st_ok (r_pstate rs) ->
  feed cfg rs c = (rs', obs, go) -> ~ In OStall obs /\ st_ok (r_pstate rs').
Proof.
  intros cfg rs c rs' obs go Hso H. unfold feed in H.
  apply feed_loop_no_stall in H; [exact H|exact Hso|]. cbn [concat]. rewrite app_nil_r. lia.
Qed.

Theorem run_feeds_no_stall : forall cfg cs rs, st_ok (r_pstate rs) -> ~ In OStall (run_feeds cfg rs cs).
Proof.
  intros cfg. induction cs as [|c cs IH]; intros rs Hso; [intros []|].
  cbn [run_feeds]. destruct (feed cfg rs c) as [[rs' obs] go] eqn:Ef.
  destruct (feed_fuel_sufficient _ _ _ _ _ _ Hso Ef) as [F1 F2].
  destruct go; [|exact F1]. intro Hin. apply in_app_or in Hin. destruct Hin as [Hin|Hin]; [auto|].
  apply (IH rs' F2). exact Hin.
Qed.

(* ---------- 5. datagram mode never stitches -------------------------------------------------- *)

Lemma feed_datagram_cases cfg c rs' obs go : r_read cfg = Datagram -> c <> [] ->
  feed cfg rstate_init c = (rs', obs, go) ->
  (obs = [OOverflow] /\ go = false) \/
  (obs = frames_of (r_mode cfg) c /\ (go = true -> rs' = rstate_init) /\ has_err obs = negb go).
Proof.
  intros Hrd Hne Hf. unfold feed in Hf. rewrite feed_fuel_eq in Hf.
  assert (Hs : step_parse cfg rstate_init = (rstate_init, None)) by reflexivity.
  destruct (Nat.ltb_spec (r_writable cfg (shift_if_full cfg rstate_init)) (length c)) as [Hw|Hw].
  - rewrite (feed_loop_overflow _ _ _ _ _ Hs Hw) in Hf. inversion Hf; subst. left. split; reflexivity.
  - right. rewrite (feed_loop_first _ _ _ _ _ Hs Hne Hw) in Hf. rewrite shift_init in Hf.
    pose proof (drain_spec cfg (S (length (r_unread rstate_init) + length c + 1)) (append_read rstate_init c)) as D.
    rewrite Hf in D. unfold append_read in D. cbn [rstate_init r_begin r_unread r_pstate app length] in D.
    destruct D as (D1 & D2 & _ & _ & D5).
    + lia.
    + exact I.
    + intro E. congruence.
    + specialize (D1 [] (or_intror eq_refl)). rewrite !app_nil_r in D1. rewrite frames_of_unfold, D1.
      destruct go.
      * destruct (D2 eq_refl) as [_ D2']. rewrite (D2' Hrd). cbn [rstate_init r_pstate r_unread].
        unfold frames_from. rewrite parse_mode_init, app_nil_r. auto.
      * rewrite app_nil_r. split; [reflexivity|]. split; [discriminate|exact D5].
Qed.

(* after a read whose bytes did not complete a frame the reader is back in its initial state:
   nothing of that read survives *)
Theorem datagram_feed_resets : forall cfg c rs' obs, r_read cfg = Datagram ->
  feed cfg rstate_init c = (rs', obs, true) -> rs' = rstate_init.
Proof.
  intros cfg c rs' obs Hrd Hf. destruct (nil_or_not c) as [Ec|Ec].
  - subst c. exfalso. unfold feed in Hf. cbn [length rstate_init r_unread Nat.add] in Hf.
    rewrite feed_loop_S, read_frame_cons in Hf.
    assert (Hs : step_parse cfg rstate_init = (rstate_init, None)) by reflexivity. rewrite Hs in Hf.
    cbn [length] in Hf.
    destruct (r_writable cfg (shift_if_full cfg rstate_init) <? 0)%nat eqn:E; [apply Nat.ltb_lt in E; lia|discriminate].
  - destruct (feed_datagram_cases cfg c rs' obs true Hrd Ec Hf) as [[_ Hx]|(_ & H & _)]; [discriminate|].
    apply H. reflexivity.
Qed.

(* the per-datagram reference: the frames of each read parsed ALONE, up to the first read that
   contains an error *)
Fixpoint dgram_frames (mode : error_mode) (cs : list (list N)) : list robs :=
  match cs with
  | [] => []
  | c :: cs' =>
      let obs := frames_of mode c in
      if has_err obs then obs else obs ++ dgram_frames mode cs'
  end.

Theorem datagram_no_stitch : forall cfg cs, r_read cfg = Datagram ->
  Forall (fun c => c <> []) cs ->
  ~ In OOverflow (run_feeds cfg rstate_init cs) ->
  run_feeds cfg rstate_init cs = dgram_frames (r_mode cfg) cs.
Proof.
  intros cfg cs Hrd. induction cs as [|c cs IH]; intros Hne Hno; [reflexivity|].
  inversion Hne as [|? ? Hc Hcs]; subst. cbn [run_feeds dgram_frames] in *.
  destruct (feed cfg rstate_init c) as [[rs' obs] go] eqn:Ef.
  destruct (feed_datagram_cases cfg c rs' obs go Hrd Hc Ef) as [[-> ->]|(Ho & Hg & He)].
  - exfalso. apply Hno. left. reflexivity.
  - rewrite <- Ho, He. destruct go; cbn [negb]; [|reflexivity].
    rewrite (Hg eq_refl) in *. f_equal. apply IH; [exact Hcs|].
    intro Hin. apply Hno. apply in_or_app. right. exact Hin.
Qed.
