(* Link/ReaderProofs.v — read buffer invariants and chunking independence. *)
From Dnp3V Require Import Link.Reader Link.ParserProofs.
Open Scope N_scope.
