(* Link/CrcProofs.v — the CRC of dnp3/src/link/crc.rs (table regenerated from the source) is
   GF(2)-linear, and therefore detects every error pattern of weight 1..3 in a block. *)
From Coq Require Import FinFun.
From Dnp3V Require Import Link.Crc.
Open Scope N_scope.
Arguments N.add : simpl never.
Arguments N.mul : simpl never.

(* ---------- small bit-level facts --------------------------------------------------------- *)

Lemma land_lxor_distr (a b c : N) : N.land (N.lxor a b) c = N.lxor (N.land a c) (N.land b c).
Proof.
  apply N.bits_inj; intro n. rewrite N.land_spec, !N.lxor_spec, !N.land_spec.
  destruct (N.testbit a n), (N.testbit b n), (N.testbit c n); reflexivity.
Qed.

Lemma lt256_land x : x < 256 <-> N.land x 255 = x.
Proof.
  change 255 with (N.ones 8). rewrite N.land_ones. change (2 ^ 8) with 256. split; intro H.
  - apply N.mod_small; assumption.
  - rewrite <- H. apply N.mod_upper_bound. lia.
Qed.

Lemma lt65536_land x : x < 65536 <-> N.land x 65535 = x.
Proof.
  change 65535 with (N.ones 16). rewrite N.land_ones. change (2 ^ 16) with 65536. split; intro H.
  - apply N.mod_small; assumption.
  - rewrite <- H. apply N.mod_upper_bound. lia.
Qed.

Lemma land255_lt x : N.land x 255 < 256.
Proof. change 255 with (N.ones 8). rewrite N.land_ones. apply N.mod_upper_bound. discriminate. Qed.

Lemma lxor_lt256 a b : a < 256 -> b < 256 -> N.lxor a b < 256.
Proof.
  rewrite !lt256_land. intros Ha Hb. rewrite land_lxor_distr, Ha, Hb. reflexivity.
Qed.

Lemma lxor_lt65536 a b : a < 65536 -> b < 65536 -> N.lxor a b < 65536.
Proof.
  rewrite !lt65536_land. intros Ha Hb. rewrite land_lxor_distr, Ha, Hb. reflexivity.
Qed.

Lemma shiftr8_lt65536 a : a < 65536 -> N.shiftr a 8 < 65536.
Proof.
  intro H. rewrite N.shiftr_div_pow2. change (2 ^ 8) with 256.
  apply N.le_lt_trans with a; [|assumption]. apply N.div_le_upper_bound; lia.
Qed.

(* ---------- the list of the first n numbers ------------------------------------------------ *)

Lemma In_nrange n i : i < N.of_nat n -> In i (nrange n).
Proof.
  intro H. unfold nrange. apply in_map_iff. exists (N.to_nat i). split.
  - apply N2Nat.id.
  - apply in_seq. lia.
Qed.

Lemma forallb_nrange (f : N -> bool) n :
  forallb f (nrange n) = true -> forall i, i < N.of_nat n -> f i = true.
Proof. intros H i Hi. rewrite forallb_forall in H. apply H, In_nrange, Hi. Qed.

(* ---------- facts about the generated table, by complete enumeration ----------------------- *)

Definition tbl (i : N) : N := nth (N.to_nat i) crc_table 0.

Lemma table_linear_check_ok :
  forallb (fun i => forallb (fun j => tbl (N.lxor i j) =? N.lxor (tbl i) (tbl j)) (nrange 256))
          (nrange 256) = true.
Proof. vm_compute. reflexivity. Qed.

Lemma table_linear i j : i < 256 -> j < 256 -> tbl (N.lxor i j) = N.lxor (tbl i) (tbl j).
Proof.
  intros Hi Hj.
  pose proof (forallb_nrange _ 256 table_linear_check_ok i Hi) as H1. cbv beta in H1.
  pose proof (forallb_nrange _ 256 H1 j Hj) as H2. cbv beta in H2.
  apply N.eqb_eq. exact H2.
Qed.

Lemma table_bound_check_ok : forallb (fun i => tbl i <? 65536) (nrange 256) = true.
Proof. vm_compute. reflexivity. Qed.

Lemma table_bound i : i < 256 -> tbl i < 65536.
Proof.
  intro Hi. apply N.ltb_lt. exact (forallb_nrange _ 256 table_bound_check_ok i Hi).
Qed.

Lemma table_length : length crc_table = 256%nat.
Proof. reflexivity. Qed.

(* ---------- linearity of one step and of the whole register -------------------------------- *)

Lemma crc_step_tbl acc b : crc_step acc b = N.lxor (tbl (N.lxor (N.land acc 255) b)) (N.shiftr acc 8).
Proof. reflexivity. Qed.

Lemma crc_step_linear a a' b b' : b < 256 -> b' < 256 ->
  crc_step (N.lxor a a') (N.lxor b b') = N.lxor (crc_step a b) (crc_step a' b').
Proof.
  intros Hb Hb'. rewrite !crc_step_tbl. rewrite land_lxor_distr, N.shiftr_lxor.
  replace (N.lxor (N.lxor (N.land a 255) (N.land a' 255)) (N.lxor b b'))
    with (N.lxor (N.lxor (N.land a 255) b) (N.lxor (N.land a' 255) b')).
  2:{ rewrite !N.lxor_assoc. f_equal. rewrite <- !N.lxor_assoc. f_equal. apply N.lxor_comm. }
  rewrite table_linear by (apply lxor_lt256; auto using land255_lt).
  rewrite !N.lxor_assoc. f_equal. rewrite <- !N.lxor_assoc. f_equal. apply N.lxor_comm.
Qed.

Lemma crc_step_bound a b : a < 65536 -> b < 256 -> crc_step a b < 65536.
Proof.
  intros Ha Hb. rewrite crc_step_tbl. apply lxor_lt65536.
  - apply table_bound. apply lxor_lt256; auto using land255_lt.
  - apply shiftr8_lt65536; assumption.
Qed.

Definition bytes_ok (l : list N) : Prop := Forall (fun b => b < 256) l.

Lemma bytes_ok_all_bytes l : all_bytes l = true <-> bytes_ok l.
Proof.
  unfold all_bytes, bytes_ok, is_byte. rewrite forallb_forall, Forall_forall.
  split; intros H x Hx; specialize (H x Hx); apply N.ltb_lt; assumption.
Qed.

Lemma crc_increment_bound bs : forall a, a < 65536 -> bytes_ok bs -> crc_increment a bs < 65536.
Proof.
  induction bs as [|b bs IH]; intros a Ha Hbs; cbn [crc_increment fold_left]; [assumption|].
  inversion Hbs as [|? ? Hb Hbs']; subst. apply IH; [apply crc_step_bound|]; assumption.
Qed.

Lemma crc_increment_linear bs : forall bs' a a', length bs = length bs' -> bytes_ok bs -> bytes_ok bs' ->
  crc_increment (N.lxor a a') (xor_bytes bs bs') = N.lxor (crc_increment a bs) (crc_increment a' bs').
Proof.
  induction bs as [|b bs IH]; intros [|b' bs'] a a' Hl H1 H2; cbn in Hl; try discriminate.
  - reflexivity.
  - inversion H1; inversion H2; subst. cbn [xor_bytes crc_increment fold_left].
    rewrite crc_step_linear by assumption. apply IH; auto.
Qed.

Lemma crc_increment_app a bs cs : crc_increment a (bs ++ cs) = crc_increment (crc_increment a bs) cs.
Proof. unfold crc_increment. apply fold_left_app. Qed.

Lemma crc_step_0_0 : crc_step 0 0 = 0.
Proof. reflexivity. Qed.

Lemma crc_increment_zeros n : crc_increment 0 (zeros n) = 0.
Proof. induction n as [|n IH]; cbn; auto. Qed.

Lemma crc_leading_zeros n bs : crc_increment 0 (zeros n ++ bs) = crc_increment 0 bs.
Proof. rewrite crc_increment_app, crc_increment_zeros. reflexivity. Qed.

(* the constant CRC_OF_0564 really is the register after the two start bytes *)
Lemma crc_0564_seed : crc_of_0564 = crc_increment 0 [5; 100].
Proof. reflexivity. Qed.

Lemma calc_crc_with_0564_eq bs : calc_crc_with_0564 bs = calc_crc (5 :: 100 :: bs).
Proof. unfold calc_crc_with_0564, calc_crc. rewrite crc_0564_seed. reflexivity. Qed.

(* ---------- the receiver's check as a residue ----------------------------------------------- *)

(* running the register over data followed by its complemented CRC always ends in this value *)
Definition crc_magic : N := Eval vm_compute in crc_increment 0 (crc_le []).

Definition last2 (a lo hi : N) : N := crc_step (crc_step a lo) hi.

(* all 16-bit values, as 256 x 256 (no large nat is ever built) *)
Definition range16 : list N := flat_map (fun hi => map (fun lo => 256 * hi + lo) (nrange 256)) (nrange 256).

Lemma In_range16 a : a < 65536 -> In a range16.
Proof.
  intro Ha. unfold range16. apply in_flat_map. exists (a / 256). split.
  - apply In_nrange. change (N.of_nat 256) with 256. apply N.div_lt_upper_bound; lia.
  - apply in_map_iff. exists (a mod 256). split.
    + symmetry. apply N.div_mod. lia.
    + apply In_nrange. change (N.of_nat 256) with 256. apply N.mod_upper_bound. lia.
Qed.

Lemma residue_good_check : forallb (fun a => last2 a (lo8 (not16 a)) (hi8 (not16 a)) =? crc_magic) range16 = true.
Proof. vm_compute. reflexivity. Qed.

Lemma residue_good a : a < 65536 -> last2 a (lo8 (not16 a)) (hi8 (not16 a)) = crc_magic.
Proof.
  intro Ha. pose proof residue_good_check as H. rewrite forallb_forall in H.
  apply N.eqb_eq. apply H. apply In_range16. exact Ha.
Qed.

Lemma residue_zero_check :
  forallb (fun lo => forallb (fun hi => implb (last2 0 lo hi =? 0) ((lo =? 0) && (hi =? 0))) (nrange 256)) (nrange 256) = true.
Proof. vm_compute. reflexivity. Qed.

Lemma residue_zero lo hi : lo < 256 -> hi < 256 -> last2 0 lo hi = 0 -> lo = 0 /\ hi = 0.
Proof.
  intros Hlo Hhi E.
  pose proof (forallb_nrange _ 256 residue_zero_check lo Hlo) as H1. cbv beta in H1.
  pose proof (forallb_nrange _ 256 H1 hi Hhi) as H. cbv beta in H. rewrite E in H. cbn in H.
  apply andb_true_iff in H. destruct H as [H2 H3]. apply N.eqb_eq in H2, H3. auto.
Qed.

Lemma last2_linear a a' lo lo' hi hi' : lo < 256 -> lo' < 256 -> hi < 256 -> hi' < 256 ->
  last2 (N.lxor a a') (N.lxor lo lo') (N.lxor hi hi') = N.lxor (last2 a lo hi) (last2 a' lo' hi').
Proof.
  intros Hlo Hlo' Hhi Hhi'. unfold last2.
  rewrite (crc_step_linear a a' lo lo' Hlo Hlo').
  rewrite (crc_step_linear _ _ hi hi' Hhi Hhi'). reflexivity.
Qed.

Lemma not16_bound a : a < 65536 -> not16 a < 65536.
Proof. intro H. unfold not16. apply lxor_lt65536; [assumption|reflexivity]. Qed.

(* for a register value a and two received CRC bytes: the stored CRC matches iff the register
   run over those two bytes as well ends in crc_magic *)
Lemma check_iff_residue a lo hi : a < 65536 -> lo < 256 -> hi < 256 ->
  (not16 a = le16 lo hi <-> last2 a lo hi = crc_magic).
Proof.
  intros Ha Hlo Hhi.
  set (lo0 := lo8 (not16 a)). set (hi0 := hi8 (not16 a)).
  assert (Hlo0 : lo0 < 256) by apply lo8_bound. assert (Hhi0 : hi0 < 256) by apply hi8_bound.
  assert (Hsplit : last2 a lo hi = N.lxor crc_magic (last2 0 (N.lxor lo0 lo) (N.lxor hi0 hi))).
  { rewrite <- (residue_good a Ha). fold lo0 hi0.
    rewrite <- (last2_linear a 0 lo0 (N.lxor lo0 lo) hi0 (N.lxor hi0 hi)) by (try assumption; apply lxor_lt256; assumption).
    rewrite N.lxor_0_r. f_equal.
    - rewrite <- N.lxor_assoc, N.lxor_nilpotent. apply N.lxor_0_l.
    - rewrite <- N.lxor_assoc, N.lxor_nilpotent. apply N.lxor_0_l. }
  split.
  - intro E. assert (lo = lo0) by (unfold lo0; rewrite E; symmetry; apply lo8_le16; assumption).
    assert (hi = hi0) by (unfold hi0; rewrite E; symmetry; apply hi8_le16; assumption).
    subst lo hi. apply residue_good; assumption.
  - intro E. rewrite Hsplit in E.
    assert (Z0 : last2 0 (N.lxor lo0 lo) (N.lxor hi0 hi) = 0).
    { set (X := last2 0 (N.lxor lo0 lo) (N.lxor hi0 hi)) in *.
      assert (HX : X = N.lxor crc_magic (N.lxor crc_magic X))
        by (rewrite <- N.lxor_assoc, N.lxor_nilpotent, N.lxor_0_l; reflexivity).
      rewrite E, N.lxor_nilpotent in HX. exact HX. }
    apply residue_zero in Z0; try (apply lxor_lt256; assumption).
    destruct Z0 as [Z1 Z2]. apply N.lxor_eq in Z1, Z2.
    rewrite <- (le16_lo_hi (not16 a)) by (apply not16_bound; assumption).
    fold lo0 hi0. rewrite Z1, Z2. reflexivity.
Qed.

Lemma block_ok_app d lo hi : block_ok (d ++ [lo; hi]) = (calc_crc d =? le16 lo hi).
Proof.
  unfold block_ok. rewrite app_length. cbn [length].
  replace (length d + 2 - 2)%nat with (length d) by lia.
  rewrite skipn_app, skipn_all, Nat.sub_diag. cbn [skipn app].
  rewrite firstn_app, firstn_all, Nat.sub_diag. cbn [firstn]. rewrite app_nil_r. reflexivity.
Qed.

Theorem block_ok_iff_residue d lo hi : bytes_ok d -> lo < 256 -> hi < 256 ->
  (block_ok (d ++ [lo; hi]) = true <-> crc_increment 0 (d ++ [lo; hi]) = crc_magic).
Proof.
  intros Hd Hlo Hhi. rewrite block_ok_app, N.eqb_eq. unfold calc_crc.
  rewrite crc_increment_app. cbn [crc_increment fold_left]. fold (crc_increment 0 d).
  apply check_iff_residue; try assumption. apply crc_increment_bound; [reflexivity|assumption].
Qed.

Lemma crc_le_bytes d : bytes_ok (crc_le d).
Proof. unfold crc_le. repeat constructor; [apply lo8_bound|apply hi8_bound]. Qed.

Lemma block_with_crc_ok d : bytes_ok d -> block_ok (d ++ crc_le d) = true.
Proof.
  intro Hd. unfold crc_le. rewrite block_ok_app. apply N.eqb_eq. symmetry. apply le16_lo_hi.
  unfold calc_crc. apply not16_bound. apply crc_increment_bound; [reflexivity|assumption].
Qed.

Lemma split_last2 (l : list N) : (2 <= length l)%nat ->
  exists d lo hi, l = d ++ [lo; hi].
Proof.
  intro H. exists (firstn (length l - 2) l).
  pose proof (firstn_skipn (length l - 2) l) as E.
  assert (L : length (skipn (length l - 2) l) = 2%nat) by (rewrite skipn_length; lia).
  destruct (skipn (length l - 2) l) as [|lo [|hi [|? ?]]]; cbn in L; try lia.
  exists lo, hi. symmetry. exact E.
Qed.

Lemma bytes_ok_app a b : bytes_ok (a ++ b) <-> bytes_ok a /\ bytes_ok b.
Proof. unfold bytes_ok. apply Forall_app. Qed.

Lemma bytes_ok_xor a b : bytes_ok a -> bytes_ok b -> bytes_ok (xor_bytes a b).
Proof.
  intros Ha; revert b; induction Ha as [|x a Hx Ha IH]; intros [|y b] Hb; cbn; try constructor; auto.
  - inversion Hb; subst. apply lxor_lt256; assumption.
  - inversion Hb; subst. apply IH; assumption.
Qed.

(* a block that passes the check, damaged by e, passes again iff the register run over e alone
   ends in zero: the syndrome of e *)
Theorem damaged_block_ok_iff block e : (2 <= length block)%nat -> length e = length block ->
  bytes_ok block -> bytes_ok e -> block_ok block = true ->
  (block_ok (xor_bytes block e) = true <-> crc_increment 0 e = 0).
Proof.
  intros Hlen He Hb Hbe Hok.
  destruct (split_last2 block Hlen) as (d & lo & hi & ->).
  apply bytes_ok_app in Hb. destruct Hb as [Hd Hlh]. inversion Hlh as [|? ? Hlo Hlh']; subst.
  inversion Hlh' as [|? ? Hhi _]; subst.
  apply block_ok_iff_residue in Hok; try assumption.
  assert (Hx : bytes_ok (xor_bytes (d ++ [lo; hi]) e)).
  { apply bytes_ok_xor; [apply bytes_ok_app; split|]; assumption. }
  assert (Hxl : (2 <= length (xor_bytes (d ++ [lo; hi]) e))%nat) by (rewrite xor_bytes_length; assumption).
  destruct (split_last2 _ Hxl) as (d' & lo' & hi' & E). rewrite E in *.
  apply bytes_ok_app in Hx. destruct Hx as [Hd' Hlh2]. inversion Hlh2 as [|? ? Hlo' Hlh3]; subst.
  inversion Hlh3 as [|? ? Hhi' _]; subst.
  rewrite block_ok_iff_residue by assumption. rewrite <- E.
  replace 0 with (N.lxor 0 0) at 1 by reflexivity.
  rewrite crc_increment_linear; try (symmetry; assumption); try assumption.
  2:{ apply bytes_ok_app; split; assumption. }
  rewrite Hok. set (X := crc_increment 0 e). split; intro H.
  - assert (HX : X = N.lxor crc_magic (N.lxor crc_magic X))
      by (rewrite <- N.lxor_assoc, N.lxor_nilpotent, N.lxor_0_l; reflexivity).
    rewrite H, N.lxor_nilpotent in HX. exact HX.
  - rewrite H. apply N.lxor_0_r.
Qed.

(* ---------- error patterns as sets of bit positions ----------------------------------------- *)

(* the n-byte string with exactly bit p set (bit p mod 8 of byte p / 8) *)
Definition bitval (p : nat) : N :=
  match p with
  | 0%nat => 1 | 1%nat => 2 | 2%nat => 4 | 3%nat => 8
  | 4%nat => 16 | 5%nat => 32 | 6%nat => 64 | _ => 128
  end.

Fixpoint single (n p : nat) : list N :=
  match n with
  | O => []
  | S n' => if (p <? 8)%nat then bitval p :: zeros n' else 0 :: single n' (p - 8)
  end.

Fixpoint mask (n : nat) (ps : list nat) : list N :=
  match ps with
  | [] => zeros n
  | p :: ps' => xor_bytes (single n p) (mask n ps')
  end.

(* flipping the bits at positions ps *)
Definition flip (ps : list nat) (bs : list N) : list N := xor_bytes bs (mask (length bs) ps).

Lemma zeros_length n : length (zeros n) = n.
Proof. apply repeat_length. Qed.

Lemma single_length n : forall p, length (single n p) = n.
Proof.
  induction n as [|n IH]; intro p; cbn [single]; auto.
  destruct (p <? 8)%nat; cbn [length]; [rewrite zeros_length|rewrite IH]; reflexivity.
Qed.


Lemma mask_length n ps : length (mask n ps) = n.
Proof. induction ps as [|p ps IH]; cbn; [apply zeros_length|]. rewrite xor_bytes_length. apply single_length. Qed.

Lemma zeros_bytes n : bytes_ok (zeros n).
Proof. apply Forall_forall. intros x Hx. apply repeat_spec in Hx. subst. reflexivity. Qed.

Lemma single_bytes n : forall p, bytes_ok (single n p).
Proof.
  induction n as [|n IH]; intro p; cbn [single]; [constructor|].
  destruct (p <? 8)%nat; constructor; try apply IH; try reflexivity.
  - do 7 (destruct p as [|p]; [reflexivity|]). reflexivity.
  - apply Forall_forall. intros x Hx. apply repeat_spec in Hx. subst. reflexivity.
Qed.

Lemma mask_bytes n ps : bytes_ok (mask n ps).
Proof.
  induction ps as [|p ps IH]; cbn; [apply zeros_bytes|]. apply bytes_ok_xor; [apply single_bytes|assumption].
Qed.

(* syndrome of a single bit in an n-byte block, and of a set of bits *)
Definition syn (n p : nat) : N := crc_increment 0 (single n p).

Lemma syn_mask n ps : crc_increment 0 (mask n ps) = fold_right (fun p acc => N.lxor (syn n p) acc) 0 ps.
Proof.
  induction ps as [|p ps IH]; cbn [mask fold_right].
  - apply crc_increment_zeros.
  - replace 0 with (N.lxor 0 0) at 1 by reflexivity.
    rewrite crc_increment_linear; auto using single_bytes, mask_bytes.
    + rewrite IH. reflexivity.
    + rewrite single_length, mask_length. reflexivity.
Qed.

(* a shorter block is a longer one with leading zeros *)
Lemma single_skip n q : single (S n) (8 + q) = 0 :: single n q.
Proof.
  cbn [single]. replace (8 + q <? 8)%nat with false by (symmetry; apply Nat.ltb_ge; lia).
  replace (8 + q - 8)%nat with q by lia. reflexivity.
Qed.

Lemma single_shift k n p : single (k + n) (8 * k + p) = zeros k ++ single n p.
Proof.
  induction k as [|k IH]; [reflexivity|].
  replace (8 * S k + p)%nat with (8 + (8 * k + p))%nat by lia.
  change (S k + n)%nat with (S (k + n)). rewrite single_skip, IH. reflexivity.
Qed.

Lemma syn_shift k n p : syn (k + n) (8 * k + p) = syn n p.
Proof. unfold syn. rewrite single_shift. apply crc_leading_zeros. Qed.

(* ---------- the sweep over the largest block: 16 data bytes + 2 CRC bytes = 144 bits -------- *)

Definition syn18 : list (nat * N) := Eval vm_compute in map (fun p => (p, syn 18 p)) (seq 0 144).

Definition sweep3_stmt : Prop :=
  forallb (fun a => negb (snd a =? 0) &&
    forallb (fun b => (Nat.eqb (fst a) (fst b) || negb (N.lxor (snd a) (snd b) =? 0)) &&
      forallb (fun c => Nat.eqb (fst a) (fst b) || Nat.eqb (fst a) (fst c) || Nat.eqb (fst b) (fst c)
                        || negb (N.lxor (snd a) (N.lxor (snd b) (snd c)) =? 0)) syn18) syn18) syn18 = true.

Lemma sweep3_ok : sweep3_stmt.
Proof. unfold sweep3_stmt. vm_compute. reflexivity. Qed.

Lemma syn18_in p : (p < 144)%nat -> In (p, syn 18 p) syn18.
Proof.
  intro H. change syn18 with (map (fun p => (p, syn 18 p)) (seq 0 144)).
  apply in_map_iff. exists p. split; [reflexivity|]. apply in_seq. lia.
Qed.

Lemma syn18_weight_le3 ps : NoDup ps -> (1 <= length ps <= 3)%nat -> Forall (fun p => (p < 144)%nat) ps ->
  fold_right (fun p acc => N.lxor (syn 18 p) acc) 0 ps <> 0.
Proof.
  intros Hnd Hlen Hps. pose proof sweep3_ok as S. unfold sweep3_stmt in S. rewrite forallb_forall in S.
  destruct ps as [|a [|b [|c [|? ?]]]]; cbn [length] in Hlen; try lia; cbn [fold_right];
    rewrite N.lxor_0_r.
  - inversion Hps as [|? ? Ha _]; subst. specialize (S _ (syn18_in a Ha)).
    apply andb_true_iff in S. destruct S as [S _]. cbn [fst snd] in S.
    apply negb_true_iff, N.eqb_neq in S. exact S.
  - inversion Hps as [|? ? Ha Hps']; subst. inversion Hps' as [|? ? Hb _]; subst.
    specialize (S _ (syn18_in a Ha)). apply andb_true_iff in S. destruct S as [_ S].
    rewrite forallb_forall in S. specialize (S _ (syn18_in b Hb)). apply andb_true_iff in S.
    destruct S as [S _]. cbn [fst snd] in S.
    inversion Hnd as [|? ? Hn _]; subst.
    apply orb_true_iff in S. destruct S as [S|S].
    + apply Nat.eqb_eq in S. subst. exfalso; apply Hn; left; reflexivity.
    + apply negb_true_iff, N.eqb_neq in S. exact S.
  - inversion Hps as [|? ? Ha Hps']; subst. inversion Hps' as [|? ? Hb Hps'']; subst.
    inversion Hps'' as [|? ? Hc _]; subst.
    specialize (S _ (syn18_in a Ha)). apply andb_true_iff in S. destruct S as [_ S].
    rewrite forallb_forall in S. specialize (S _ (syn18_in b Hb)). apply andb_true_iff in S.
    destruct S as [_ S]. rewrite forallb_forall in S. specialize (S _ (syn18_in c Hc)).
    cbn [fst snd] in S.
    inversion Hnd as [|? ? Hn1 Hnd']; subst. inversion Hnd' as [|? ? Hn2 _]; subst.
    apply orb_true_iff in S. destruct S as [S|S].
    + apply orb_true_iff in S. destruct S as [S|S].
      * apply orb_true_iff in S. destruct S as [S|S]; apply Nat.eqb_eq in S; subst; exfalso.
        -- apply Hn1; left; reflexivity.
        -- apply Hn1; right; left; reflexivity.
      * apply Nat.eqb_eq in S; subst; exfalso. apply Hn2; left; reflexivity.
    + apply negb_true_iff, N.eqb_neq in S. exact S.
Qed.

(* every block of 1..16 data bytes (n = data + 2 CRC bytes, 3 <= n <= 18) *)
Lemma syn_weight_le3 n ps : (n <= 18)%nat -> NoDup ps -> (1 <= length ps <= 3)%nat ->
  Forall (fun p => (p < 8 * n)%nat) ps ->
  fold_right (fun p acc => N.lxor (syn n p) acc) 0 ps <> 0.
Proof.
  intros Hn Hnd Hlen Hps.
  set (k := (18 - n)%nat).
  assert (E : fold_right (fun p acc => N.lxor (syn n p) acc) 0 ps
              = fold_right (fun p acc => N.lxor (syn 18 p) acc) 0 (map (fun p => (8 * k + p)%nat) ps)).
  { clear Hnd Hlen Hps. induction ps as [|p ps IH]; cbn [map fold_right]; [reflexivity|].
    rewrite IH. f_equal. replace 18%nat with (k + n)%nat by (unfold k; lia). symmetry. apply syn_shift. }
  rewrite E. apply syn18_weight_le3.
  - apply FinFun.Injective_map_NoDup; [|assumption]. intros x y Hxy. lia.
  - rewrite map_length. assumption.
  - apply Forall_forall. intros q Hq. apply in_map_iff in Hq. destruct Hq as (p & <- & Hp).
    rewrite Forall_forall in Hps. specialize (Hps p Hp). unfold k. lia.
Qed.

(* ---------- the detection theorem ------------------------------------------------------------ *)

Theorem crc_detects_le3 : forall data ps,
  (1 <= length data <= 16)%nat -> bytes_ok data ->
  NoDup ps -> (1 <= length ps <= 3)%nat ->
  Forall (fun p => (p < 8 * (length data + 2))%nat) ps ->
  block_ok (flip ps (data ++ crc_le data)) = false.
Proof.
  intros data ps Hlen Hd Hnd Hw Hps.
  destruct (block_ok (flip ps (data ++ crc_le data))) eqn:E; [|reflexivity]. exfalso.
  unfold flip in E.
  assert (L : length (data ++ crc_le data) = (length data + 2)%nat) by (rewrite app_length; reflexivity).
  rewrite L in E.
  apply damaged_block_ok_iff in E.
  - rewrite syn_mask in E. revert E. apply syn_weight_le3; try assumption. lia.
  - lia.
  - rewrite mask_length. lia.
  - apply bytes_ok_app. split; [assumption|apply crc_le_bytes].
  - apply mask_bytes.
  - apply block_with_crc_ok; assumption.
Qed.

(* the same for the header block: the eight bytes 05 64 len ctrl dest src and their CRC *)
Corollary header_crc_detects_le3 : forall fields ps,
  length fields = 6%nat -> bytes_ok fields ->
  NoDup ps -> (1 <= length ps <= 3)%nat -> Forall (fun p => (p < 80)%nat) ps ->
  block_ok (flip ps ((5 :: 100 :: fields) ++ crc_le (5 :: 100 :: fields))) = false.
Proof.
  intros fields ps Hl Hb Hnd Hw Hps. apply crc_detects_le3; try assumption.
  - cbn [length]. rewrite Hl. lia.
  - repeat constructor; assumption.
  - cbn [length]. rewrite Hl. exact Hps.
Qed.
