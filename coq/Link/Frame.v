(* Link/Frame.v — model of dnp3/src/link/{header,function,format}.rs.  Definitions only. *)
From Dnp3V Require Export Link.Crc.
From Dnp3V Require Export gen.LinkConst.
Open Scope N_scope.

Inductive lfunc :=
| PriResetLinkStates | PriTestLinkStates | PriConfirmedUserData | PriUnconfirmedUserData
| PriRequestLinkStatus | SecAck | SecNack | SecLinkStatus | SecNotSupported | FUnknown (b : N).

Definition lfunc_from (b : N) : lfunc :=
  if b =? c_fc_pri_reset_link_states then PriResetLinkStates
  else if b =? c_fc_pri_test_link_states then PriTestLinkStates
  else if b =? c_fc_pri_confirmed_user_data then PriConfirmedUserData
  else if b =? c_fc_pri_unconfirmed_user_data then PriUnconfirmedUserData
  else if b =? c_fc_pri_request_link_status then PriRequestLinkStatus
  else if b =? c_fc_sec_ack then SecAck
  else if b =? c_fc_sec_nack then SecNack
  else if b =? c_fc_sec_link_status then SecLinkStatus
  else if b =? c_fc_sec_not_supported then SecNotSupported
  else FUnknown b.

Definition lfunc_to (f : lfunc) : N :=
  match f with
  | PriResetLinkStates => c_fc_pri_reset_link_states
  | PriTestLinkStates => c_fc_pri_test_link_states
  | PriConfirmedUserData => c_fc_pri_confirmed_user_data
  | PriUnconfirmedUserData => c_fc_pri_unconfirmed_user_data
  | PriRequestLinkStatus => c_fc_pri_request_link_status
  | SecAck => c_fc_sec_ack
  | SecNack => c_fc_sec_nack
  | SecLinkStatus => c_fc_sec_link_status
  | SecNotSupported => c_fc_sec_not_supported
  | FUnknown b => b
  end.

Record control := { c_func : lfunc; c_master : bool; c_fcb : bool; c_fcv : bool }.

Definition bit_set (b mask : N) : bool := negb (N.land b mask =? 0).

Definition control_from (b : N) : control :=
  {| c_func := lfunc_from (N.land b c_mask_func_or_prm);
     c_master := bit_set b c_mask_dir;
     c_fcb := bit_set b c_mask_fcb;
     c_fcv := bit_set b c_mask_fcv |}.

Definition control_to (c : control) : N :=
  N.lor (N.lor (N.lor (if c_master c then c_mask_dir else 0) (if c_fcb c then c_mask_fcb else 0))
               (if c_fcv c then c_mask_fcv else 0))
        (lfunc_to (c_func c)).

Inductive bcast_mode := BOptional | BMandatory | BNotRequired.

Inductive any_address :=
| AReserved (x : N) | AEndpoint (x : N) | ABroadcast (m : bcast_mode) | ASelf.

Definition address_from (x : N) : any_address :=
  if x =? c_broadcast_confirm_optional then ABroadcast BOptional
  else if x =? c_broadcast_confirm_mandatory then ABroadcast BMandatory
  else if x =? c_broadcast_confirm_not_required then ABroadcast BNotRequired
  else if x =? c_self_address then ASelf
  else if c_reserved_start <=? x then AReserved x
  else AEndpoint x.

Definition bcast_address (m : bcast_mode) : N :=
  match m with
  | BOptional => c_broadcast_confirm_optional
  | BMandatory => c_broadcast_confirm_mandatory
  | BNotRequired => c_broadcast_confirm_not_required
  end.

Definition address_value (a : any_address) : N :=
  match a with
  | AReserved x => x
  | AEndpoint x => x
  | ABroadcast m => bcast_address m
  | ASelf => c_self_address
  end.

Record header := { h_control : control; h_dest : any_address; h_src : any_address }.

Definition mk_header (ctrl dest src : N) : header :=
  {| h_control := control_from ctrl; h_dest := address_from dest; h_src := address_from src |}.

(* the six bytes covered by the header CRC after 05 64 *)
Definition header_fields (len : N) (h : header) : list N :=
  [len; control_to (h_control h);
   lo8 (address_value (h_dest h)); hi8 (address_value (h_dest h));
   lo8 (address_value (h_src h)); hi8 (address_value (h_src h))].

(* format_frame's header part: CRC computed from the seed CRC_OF_0564 *)
Definition format_header (len : N) (h : header) : list N :=
  [c_start1; c_start2] ++ header_fields len h ++
  [lo8 (calc_crc_with_0564 (header_fields len h)); hi8 (calc_crc_with_0564 (header_fields len h))].

(* format_header_fixed_size: CRC computed over all eight bytes *)
Definition format_header_fixed_size (h : header) : list N :=
  let first8 := [c_start1; c_start2] ++ header_fields c_min_header_length_value h in
  first8 ++ crc_le first8.

Definition block_with_crc (b : list N) : list N := b ++ crc_le b.

(* body = payload cut into blocks of MAX_BLOCK_SIZE, each followed by its CRC.
   (format_payload's "transport byte + first 15 bytes" is the same thing for payload =
   transport :: app_data.) *)
Definition format_body (payload : list N) : list N :=
  concat (map block_with_crc (chunks (N.to_nat c_max_block_size) payload)).

(* header-only frame (payload = None) *)
Definition format_header_only (h : header) : list N := format_header c_min_header_length_value h.

(* data frame: length field = app_data.len() + 5 + 1, i.e. payload length + 5 *)
Definition format_data_frame (h : header) (transport : N) (app_data : list N) : option (list N) :=
  if (N.to_nat c_max_app_bytes_per_frame <? length app_data)%nat then None
  else Some (format_header (N.of_nat (length app_data) + c_min_header_length_value + 1) h
             ++ format_body (transport :: app_data)).

(* a frame with an arbitrary payload of 0..250 bytes, as any conforming sender may produce *)
Definition format_frame (h : header) (payload : list N) : list N :=
  format_header (N.of_nat (length payload) + c_min_header_length_value) h ++ format_body payload.
