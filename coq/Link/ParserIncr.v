(* Link/ParserIncr.v — incrementality of the link parser model: more input never changes a
   decision already taken, an undecided parse continues exactly where it stopped; the Discard-mode
   loop is the ideal scanner that tries every offset in order. *)
From Dnp3V Require Import Link.Parser Link.CrcProofs Link.ParserProofs.
Open Scope N_scope.

(* ---------- list helpers ---------------------------------------------------------------------- *)

Lemma firstn_app_le {A} n (a b : list A) : (n <= length a)%nat -> firstn n (a ++ b) = firstn n a.
Proof.
  intro H. rewrite firstn_app. replace (n - length a)%nat with 0%nat by lia.
  rewrite firstn_O. apply app_nil_r.
Qed.

Lemma skipn_app_le {A} n (a b : list A) : (n <= length a)%nat -> skipn n (a ++ b) = skipn n a ++ b.
Proof.
  intro H. rewrite skipn_app. replace (n - length a)%nat with 0%nat by lia. reflexivity.
Qed.

Lemma skipn_S_tl {A} i (l : list A) : skipn (S i) l = skipn i (tl l).
Proof. destruct l as [|x l]; [destruct i; reflexivity|reflexivity]. Qed.

Lemma skipn_skipn_add {A} i j (l : list A) : skipn i (skipn j l) = skipn (i + j) l.
Proof.
  revert l. induction j as [|j IH]; intro l.
  - rewrite Nat.add_0_r. reflexivity.
  - replace (i + S j)%nat with (S (i + j)) by lia. destruct l as [|x l].
    + rewrite !skipn_nil. reflexivity.
    + cbn [skipn]. apply IH.
Qed.

(* ---------- 1. parse_impl is incremental ------------------------------------------------------- *)

(* the shape shared by all state functions *)
Definition ext_ok (f : list N -> pstate * list N * presult) (a b : list N) : Prop :=
  match f a with
  | (st1, r1, PNeedMore) => f (a ++ b) = parse_impl st1 (r1 ++ b)
  | (st1, r1, res) => f (a ++ b) = (st1, r1 ++ b, res)
  end.

Lemma parse_body_extends h n a b : ext_ok (parse_body h n) a b.
Proof.
  unfold ext_ok, parse_body.
  destruct (length a <? n)%nat eqn:E.
  - reflexivity.
  - apply Nat.ltb_ge in E. rewrite app_length.
    replace (length a + length b <? n)%nat with false by (symmetry; apply Nat.ltb_ge; lia).
    rewrite firstn_app_le, skipn_app_le by assumption.
    destruct (check_blocks (chunks (N.to_nat c_max_block_size_with_crc) (firstn n a))) as [[e|] p];
      reflexivity.
Qed.

Lemma parse_header_short a : (length a < 8)%nat -> parse_header a = (ReadHeader, a, PNeedMore).
Proof.
  intro H. unfold parse_header.
  replace (length a <? 8)%nat with true by (symmetry; apply Nat.ltb_lt; assumption). reflexivity.
Qed.

Lemma parse_header_extends a b : ext_ok parse_header a b.
Proof.
  destruct (Nat.ltb_spec (length a) 8) as [Hs|Hl].
  - unfold ext_ok. rewrite parse_header_short by assumption. reflexivity.
  - destruct a as [|len [|ctrl [|d1 [|d2 [|s1 [|s2 [|c1 [|c2 rest]]]]]]]]; cbn [length] in Hl; try lia.
    unfold ext_ok. cbn [app]. rewrite !parse_header_cons.
    destruct (len <? c_min_header_length_value); [reflexivity|].
    destruct (negb (le16 c1 c2 =? calc_crc_with_0564 [len; ctrl; d1; d2; s1; s2])); [reflexivity|].
    apply parse_body_extends.
Qed.

Lemma parse_sync2_extends a b : ext_ok parse_sync2 a b.
Proof.
  destruct a as [|x rest].
  - reflexivity.
  - unfold ext_ok. cbn [app parse_sync2]. destruct (x =? c_start2); [|reflexivity].
    apply parse_header_extends.
Qed.

Lemma parse_sync1_extends a b : ext_ok parse_sync1 a b.
Proof.
  destruct a as [|x rest].
  - reflexivity.
  - unfold ext_ok. cbn [app parse_sync1]. destruct (x =? c_start1); [|reflexivity].
    apply parse_sync2_extends.
Qed.

Theorem parse_impl_extends : forall st a b,
  let '(st1, r1, res) := parse_impl st a in
  if match res with PNeedMore => true | _ => false end
  then parse_impl st (a ++ b) = parse_impl st1 (r1 ++ b)
  else parse_impl st (a ++ b) = (st1, r1 ++ b, res).
Proof.
  intros st a b.
  assert (H : ext_ok (parse_impl st) a b).
  { destruct st as [| | |h n]; cbn [parse_impl].
    - apply parse_sync1_extends.
    - apply parse_sync2_extends.
    - apply parse_header_extends.
    - apply parse_body_extends. }
  unfold ext_ok in H. destruct (parse_impl st a) as [[st1 r1] [|h p|e]]; exact H.
Qed.

(* the two halves in the form used by rewriting *)
Lemma parse_impl_extends_needmore st a st1 r1 b :
  parse_impl st a = (st1, r1, PNeedMore) -> parse_impl st (a ++ b) = parse_impl st1 (r1 ++ b).
Proof. intro H. pose proof (parse_impl_extends st a b) as E. rewrite H in E. exact E. Qed.

Lemma parse_impl_extends_frame st a st1 r1 h p b :
  parse_impl st a = (st1, r1, PFrame h p) -> parse_impl st (a ++ b) = (st1, r1 ++ b, PFrame h p).
Proof. intro H. pose proof (parse_impl_extends st a b) as E. rewrite H in E. exact E. Qed.

Lemma parse_impl_extends_err st a st1 r1 e b :
  parse_impl st a = (st1, r1, PErr e) -> parse_impl st (a ++ b) = (st1, r1 ++ b, PErr e).
Proof. intro H. pose proof (parse_impl_extends st a b) as E. rewrite H in E. exact E. Qed.

(* re-running an undecided parse on its leftover, without new bytes, changes nothing *)
Theorem parse_impl_needmore_idem : forall st a st1 r1,
  parse_impl st a = (st1, r1, PNeedMore) -> parse_impl st1 r1 = (st1, r1, PNeedMore).
Proof.
  assert (Hb : forall h n a st1 r1, parse_body h n a = (st1, r1, PNeedMore) ->
               parse_impl st1 r1 = (st1, r1, PNeedMore)).
  { intros h n a st1 r1 H. unfold parse_body in H.
    destruct (length a <? n)%nat eqn:E.
    - inversion H; subst. cbn [parse_impl]. unfold parse_body. rewrite E. reflexivity.
    - destruct (check_blocks _) as [[e|] p]; discriminate. }
  assert (Hh : forall a st1 r1, parse_header a = (st1, r1, PNeedMore) ->
               parse_impl st1 r1 = (st1, r1, PNeedMore)).
  { intros a st1 r1 H. destruct (Nat.ltb_spec (length a) 8) as [Hs|Hl].
    - rewrite parse_header_short in H by assumption. inversion H; subst. cbn [parse_impl].
      apply parse_header_short. assumption.
    - destruct a as [|len [|ctrl [|d1 [|d2 [|s1 [|s2 [|c1 [|c2 rest]]]]]]]]; cbn [length] in Hl; try lia.
      rewrite parse_header_cons in H.
      destruct (len <? c_min_header_length_value); [discriminate|].
      destruct (negb _); [discriminate|]. eapply Hb. exact H. }
  assert (H2 : forall a st1 r1, parse_sync2 a = (st1, r1, PNeedMore) ->
               parse_impl st1 r1 = (st1, r1, PNeedMore)).
  { intros a st1 r1 H. destruct a as [|x rest]; cbn [parse_sync2] in H.
    - inversion H; subst. reflexivity.
    - destruct (x =? c_start2); [|discriminate]. apply Hh with (1 := H). }
  intros st a st1 r1 H. destruct st as [| | |h n]; cbn [parse_impl] in H.
  - destruct a as [|x rest]; cbn [parse_sync1] in H.
    + inversion H; subst. reflexivity.
    + destruct (x =? c_start1); [|discriminate]. apply H2 with (1 := H).
  - apply H2 with (1 := H).
  - apply Hh with (1 := H).
  - apply Hb with (1 := H).
Qed.

(* the state in which an undecided parse stops is never ReadBody _ 0 *)
Definition st_ok (st : pstate) : Prop := match st with ReadBody _ O => False | _ => True end.

(* consumption: the leftover is a suffix of the input; a decision consumes at least one byte
   (unless the parser was started in ReadBody with an empty trailer); a frame resets the state *)
Definition consumes_ok (strict : Prop) (a : list N) (out : pstate * list N * presult) : Prop :=
  let '(st1, r1, res) := out in
  (exists p, a = p ++ r1) /\
  match res with
  | PNeedMore => st_ok st1
  | PFrame _ _ => st1 = FindSync1 /\ (strict -> (length r1 < length a)%nat)
  | PErr _ => strict -> (length r1 < length a)%nat
  end.

Lemma consumes_ok_cons (s s' : Prop) x a out : consumes_ok s a out -> consumes_ok s' (x :: a) out.
Proof.
  destruct out as [[st1 r1] res]. cbn [consumes_ok]. intros [[p Hp] H].
  assert (Hl : (length r1 < length (x :: a))%nat).
  { cbn [length]. rewrite Hp, app_length. lia. }
  split.
  - exists (x :: p). rewrite Hp. reflexivity.
  - destruct res as [|h pl|e]; [exact H| |].
    + destruct H as [H1 _]. split; [exact H1|]. intros _. exact Hl.
    + intros _. exact Hl.
Qed.

Lemma consumes_ok_weaken (s1 s2 : Prop) a out : (s2 -> s1) -> consumes_ok s1 a out -> consumes_ok s2 a out.
Proof.
  destruct out as [[st1 r1] res]. cbn [consumes_ok]. intros Hs [Hp H]. split; [exact Hp|].
  destruct res as [|h pl|e]; [exact H| |].
  - destruct H as [H1 H2]. split; auto.
  - auto.
Qed.

Lemma parse_body_consumes h n a : consumes_ok (0 < n)%nat a (parse_body h n a).
Proof.
  unfold parse_body. destruct (length a <? n)%nat eqn:E.
  - cbn [consumes_ok]. split; [exists []; reflexivity|].
    apply Nat.ltb_lt in E. destruct n; [lia|exact I].
  - apply Nat.ltb_ge in E.
    assert (Hp : exists p, a = p ++ skipn n a) by (exists (firstn n a); symmetry; apply firstn_skipn).
    assert (Hl : (0 < n)%nat -> (length (skipn n a) < length a)%nat) by (rewrite skipn_length; lia).
    destruct (check_blocks _) as [[e|] p]; cbn [consumes_ok]; auto.
Qed.

Lemma parse_header_consumes a : consumes_ok True a (parse_header a).
Proof.
  destruct (Nat.ltb_spec (length a) 8) as [Hs|Hl].
  - rewrite parse_header_short by assumption. cbn [consumes_ok st_ok]. split; [exists []; reflexivity|exact I].
  - destruct a as [|len [|ctrl [|d1 [|d2 [|s1 [|s2 [|c1 [|c2 rest]]]]]]]]; cbn [length] in Hl; try lia.
    rewrite parse_header_cons.
    assert (Hp : exists p, [len; ctrl; d1; d2; s1; s2; c1; c2] ++ rest = p ++ rest) by (eexists; reflexivity).
    cbn [app] in Hp.
    destruct (len <? c_min_header_length_value).
    { cbn [consumes_ok length]. split; [exact Hp|]. intros _. lia. }
    destruct (negb _).
    { cbn [consumes_ok length]. split; [exact Hp|]. intros _. lia. }
    do 7 apply (consumes_ok_cons True True). apply (consumes_ok_cons (0 < calc_trailer_length (len - c_min_header_length_value))%nat True).
    apply parse_body_consumes.
Qed.

Lemma parse_sync2_consumes a : consumes_ok True a (parse_sync2 a).
Proof.
  destruct a as [|x rest]; cbn [parse_sync2].
  - cbn [consumes_ok st_ok]. split; [exists []; reflexivity|exact I].
  - destruct (x =? c_start2).
    + apply (consumes_ok_cons True True). apply parse_header_consumes.
    + cbn [consumes_ok length]. split; [exists [x]; reflexivity|]. intros _. lia.
Qed.

Lemma parse_sync1_consumes a : consumes_ok True a (parse_sync1 a).
Proof.
  destruct a as [|x rest]; cbn [parse_sync1].
  - cbn [consumes_ok st_ok]. split; [exists []; reflexivity|exact I].
  - destruct (x =? c_start1).
    + apply (consumes_ok_cons True True). apply parse_sync2_consumes.
    + cbn [consumes_ok length]. split; [exists [x]; reflexivity|]. intros _. lia.
Qed.

Theorem parse_impl_consumes : forall st a,
  let '(st1, r1, res) := parse_impl st a in
  (exists p, a = p ++ r1) /\
  match res with
  | PNeedMore => st_ok st1
  | PFrame _ _ => st1 = FindSync1 /\ (st_ok st -> (length r1 < length a)%nat)
  | PErr _ => st_ok st -> (length r1 < length a)%nat
  end.
Proof.
  intros st a. change (consumes_ok (st_ok st) a (parse_impl st a)).
  destruct st as [| | |h n]; cbn [parse_impl].
  - apply consumes_ok_weaken with (2 := parse_sync1_consumes a). auto.
  - apply consumes_ok_weaken with (2 := parse_sync2_consumes a). auto.
  - apply consumes_ok_weaken with (2 := parse_header_consumes a). auto.
  - apply consumes_ok_weaken with (2 := parse_body_consumes h n a).
    cbn [st_ok]. destruct n; [tauto|lia].
Qed.

Lemma parse_impl_suffix st a st1 r1 res : parse_impl st a = (st1, r1, res) -> exists p, a = p ++ r1.
Proof. intro H. pose proof (parse_impl_consumes st a) as C. rewrite H in C. apply C. Qed.

Lemma parse_impl_frame_strict st a st1 r1 h p : st_ok st -> parse_impl st a = (st1, r1, PFrame h p) ->
  st1 = FindSync1 /\ (length r1 < length a)%nat.
Proof. intros Hs H. pose proof (parse_impl_consumes st a) as C. rewrite H in C. destruct C as [_ [C1 C2]]. auto. Qed.

Lemma parse_impl_needmore_st_ok st a st1 r1 : parse_impl st a = (st1, r1, PNeedMore) -> st_ok st1.
Proof. intro H. pose proof (parse_impl_consumes st a) as C. rewrite H in C. apply C. Qed.

(* ---------- how much can be pending when the parser wants more ------------------------------ *)

(* trailer lengths the parser can be waiting for when the length byte is a byte *)
Definition pstate_ok (st : pstate) : Prop :=
  match st with ReadBody _ n => (n <= 282)%nat | _ => True end.

(* the most bytes an undecided parse can have been given, per state *)
Definition budget (st : pstate) : nat :=
  match st with FindSync1 => 292 | FindSync2 => 291 | ReadHeader => 290 | ReadBody _ n => n end.

Lemma trailer_le_282 len : len < 256 -> (calc_trailer_length (len - c_min_header_length_value) <= 282)%nat.
Proof.
  intro H. unfold calc_trailer_length.
  change c_max_block_size with 16. change c_max_block_size_with_crc with 18. change c_crc_length with 2.
  change c_min_header_length_value with 5.
  destruct ((len - 5) mod 16 =? 0) eqn:E.
  - apply N.eqb_eq in E. lia.
  - apply N.eqb_neq in E. lia.
Qed.

Theorem parse_impl_needmore_bound : forall st a st1 r1,
  pstate_ok st -> bytes_ok a -> parse_impl st a = (st1, r1, PNeedMore) ->
  (length a < budget st)%nat /\ pstate_ok st1 /\ (length r1 < 282)%nat.
Proof.
  assert (Hb : forall h n a st1 r1, (n <= 282)%nat -> parse_body h n a = (st1, r1, PNeedMore) ->
               (length a < n)%nat /\ pstate_ok st1 /\ (length r1 < 282)%nat).
  { intros h n a st1 r1 Hn H. unfold parse_body in H. destruct (length a <? n)%nat eqn:E.
    - apply Nat.ltb_lt in E. inversion H; subst. cbn [pstate_ok]. lia.
    - destruct (check_blocks _) as [[e|] p]; discriminate. }
  assert (Hh : forall a st1 r1, bytes_ok a -> parse_header a = (st1, r1, PNeedMore) ->
               (length a < 290)%nat /\ pstate_ok st1 /\ (length r1 < 282)%nat).
  { intros a st1 r1 Hbytes H. destruct (Nat.ltb_spec (length a) 8) as [Hs|Hl].
    - rewrite parse_header_short in H by assumption. inversion H; subst. cbn [pstate_ok]. lia.
    - destruct a as [|len [|ctrl [|d1 [|d2 [|s1 [|s2 [|c1 [|c2 rest]]]]]]]]; cbn [length] in Hl; try lia.
      rewrite parse_header_cons in H.
      destruct (len <? c_min_header_length_value); [discriminate|].
      destruct (negb _); [discriminate|].
      assert (Hlen : len < 256) by (inversion Hbytes; assumption).
      apply Hb in H; [|apply trailer_le_282; exact Hlen].
      destruct H as (Ha & Hst1 & Hr1).
      pose proof (trailer_le_282 len Hlen). cbn [length]. split; [lia|]. split; assumption. }
  assert (H2 : forall a st1 r1, bytes_ok a -> parse_sync2 a = (st1, r1, PNeedMore) ->
               (length a < 291)%nat /\ pstate_ok st1 /\ (length r1 < 282)%nat).
  { intros a st1 r1 Hbytes H. destruct a as [|x rest]; cbn [parse_sync2] in H.
    - inversion H; subst. cbn [pstate_ok length]. lia.
    - destruct (x =? c_start2); [|discriminate]. inversion Hbytes; subst.
      apply Hh in H; [|assumption]. destruct H as (Ha & Hst1 & Hr1).
      cbn [length]. split; [lia|]. split; assumption. }
  intros st a st1 r1 Hst Hbytes H. destruct st as [| | |h n]; cbn [parse_impl budget pstate_ok] in *.
  - destruct a as [|x rest]; cbn [parse_sync1] in H.
    + inversion H; subst. cbn [pstate_ok length]. lia.
    + destruct (x =? c_start1); [|discriminate]. inversion Hbytes; subst.
      apply H2 in H; [|assumption]. destruct H as (Ha & Hst1 & Hr1).
      cbn [length]. split; [lia|]. split; assumption.
  - apply H2; assumption.
  - apply Hh; assumption.
  - apply Hb with (1 := Hst) (2 := H).
Qed.

(* ---------- 2. Discard mode is the ideal scanner ---------------------------------------------- *)

(* the reference: try an aligned parse at every offset in order; an error drops one byte, an
   incomplete candidate is kept whole, a frame is returned with what follows it.  No fuel: the
   recursion is on the input. *)
Fixpoint scan (cur : list N) : pstate * list N * presult :=
  match parse_impl FindSync1 cur with
  | (_, _, PErr _) => match cur with [] => (FindSync1, [], PNeedMore) | _ :: t => scan t end
  | (_, _, PNeedMore) => (FindSync1, cur, PNeedMore)
  | r => r
  end.

Definition is_perr (out : pstate * list N * presult) : Prop := exists st r e, out = (st, r, PErr e).

Lemma scan_nil : scan [] = (FindSync1, [], PNeedMore).
Proof. reflexivity. Qed.

Lemma scan_cons x t :
  scan (x :: t) = match parse_impl FindSync1 (x :: t) with
                  | (_, _, PErr _) => scan t
                  | (_, _, PNeedMore) => (FindSync1, x :: t, PNeedMore)
                  | r => r
                  end.
Proof. reflexivity. Qed.

Lemma scan_err cur : is_perr (parse_impl FindSync1 cur) -> scan cur = scan (tl cur).
Proof.
  intros (st & r & e & H). destruct cur as [|x t]; [discriminate|].
  rewrite scan_cons, H. reflexivity.
Qed.

Lemma scan_needmore cur st r : parse_impl FindSync1 cur = (st, r, PNeedMore) -> scan cur = (FindSync1, cur, PNeedMore).
Proof. intro H. destruct cur as [|x t]; [reflexivity|]. rewrite scan_cons, H. reflexivity. Qed.

Lemma scan_frame cur st r h p : parse_impl FindSync1 cur = (st, r, PFrame h p) -> scan cur = (st, r, PFrame h p).
Proof. intro H. destruct cur as [|x t]; [discriminate|]. rewrite scan_cons, H. reflexivity. Qed.

(* the loop of Parser::parse in Discard mode is the scanner, whatever fuel above the length *)
Theorem parse_discard_is_scan : forall fuel cur, (length cur < fuel)%nat -> parse_discard fuel cur = scan cur.
Proof.
  induction fuel as [|f IH]; intros cur Hf; [lia|].
  destruct cur as [|x t]; [reflexivity|].
  cbn [parse_discard]. rewrite scan_cons.
  destruct (parse_impl FindSync1 (x :: t)) as [[st r] [|h p|e]]; try reflexivity.
  cbn [tl]. apply IH. cbn [length] in Hf. lia.
Qed.

(* the fuel S (length cur) used by `parse` never runs out: any larger fuel gives the same answer,
   and (scan_spec below) a PNeedMore answer is always a genuine incomplete candidate *)
Theorem parse_discard_fuel_sufficient : forall fuel cur, (length cur < fuel)%nat ->
  parse_discard fuel cur = parse_discard (S (length cur)) cur.
Proof. intros fuel cur H. rewrite !parse_discard_is_scan by lia. reflexivity. Qed.

Theorem parse_discard_scan : forall st cur, parse Discard st cur = scan cur.
Proof. intros st cur. cbn [parse]. apply parse_discard_is_scan. lia. Qed.

(* skipping a prefix every offset of which is an error *)
Lemma scan_skip : forall i cur,
  (forall j, (j < i)%nat -> is_perr (parse_impl FindSync1 (skipn j cur))) -> scan cur = scan (skipn i cur).
Proof.
  induction i as [|i IH]; intros cur H; [reflexivity|].
  rewrite scan_err by (apply (H 0%nat); lia).
  rewrite skipn_S_tl. apply IH. intros j Hj. rewrite <- skipn_S_tl. apply H. lia.
Qed.

(* characterisation: the answer is the aligned parse at the first offset that is not an error *)
Theorem scan_spec : forall cur, exists i, (i <= length cur)%nat /\
  (forall j, (j < i)%nat -> is_perr (parse_impl FindSync1 (skipn j cur))) /\
  match scan cur with
  | (st1, r1, PNeedMore) =>
      st1 = FindSync1 /\ r1 = skipn i cur /\
      exists st' r', parse_impl FindSync1 (skipn i cur) = (st', r', PNeedMore)
  | (st1, r1, PFrame h p) => st1 = FindSync1 /\ parse_impl FindSync1 (skipn i cur) = (st1, r1, PFrame h p)
  | (_, _, PErr _) => False
  end.
Proof.
  induction cur as [|x t IH].
  - exists 0%nat. split; [lia|]. split; [intros j Hj; lia|].
    rewrite scan_nil. split; [reflexivity|]. split; [reflexivity|]. exists FindSync1, []. reflexivity.
  - rewrite scan_cons. destruct (parse_impl FindSync1 (x :: t)) as [[st r] [|h p|e]] eqn:E.
    + exists 0%nat. split; [lia|]. split; [intros j Hj; lia|]. cbn [skipn].
      split; [reflexivity|]. split; [reflexivity|]. exists st, r. exact E.
    + exists 0%nat. split; [lia|]. split; [intros j Hj; lia|]. cbn [skipn].
      destruct (parse_impl_frame_strict FindSync1 (x :: t) st r h p I E) as [-> _]. split; [reflexivity|exact E].
    + destruct IH as (i & Hi & Herr & Hres). exists (S i). split; [cbn [length]; lia|]. split.
      * intros [|j] Hj; [cbn [skipn]; exists st, r, e; exact E|]. cbn [skipn]. apply Herr. lia.
      * cbn [skipn]. exact Hres.
Qed.

Lemma scan_not_err cur st r e : scan cur <> (st, r, PErr e).
Proof.
  intro H. destruct (scan_spec cur) as (i & _ & _ & Hres). rewrite H in Hres. exact Hres.
Qed.

(* the scanner's leftover is a suffix; a frame consumes at least one byte; the state is reset *)
Theorem scan_consumes : forall cur,
  let '(st1, r1, res) := scan cur in
  st1 = FindSync1 /\ (exists p, cur = p ++ r1) /\
  match res with
  | PNeedMore => scan r1 = (FindSync1, r1, PNeedMore)
  | PFrame _ _ => (length r1 < length cur)%nat
  | PErr _ => False
  end.
Proof.
  intro cur. destruct (scan_spec cur) as (i & Hi & _ & Hres).
  destruct (scan cur) as [[st1 r1] [|h p|e]].
  - destruct Hres as (-> & -> & st' & r' & Hn). split; [reflexivity|]. split.
    + exists (firstn i cur). symmetry. apply firstn_skipn.
    + apply scan_needmore with (1 := Hn).
  - destruct Hres as (-> & Hf). split; [reflexivity|].
    destruct (parse_impl_suffix _ _ _ _ _ Hf) as [q Hq].
    destruct (parse_impl_frame_strict FindSync1 _ _ _ _ _ I Hf) as [_ Hlt]. split.
    + exists (firstn i cur ++ q). rewrite <- app_assoc, <- Hq. symmetry. apply firstn_skipn.
    + rewrite skipn_length in Hlt. lia.
  - destruct Hres.
Qed.

(* an incomplete candidate is shorter than a maximal frame *)
Theorem scan_needmore_bound : forall cur st1 r1, bytes_ok cur -> scan cur = (st1, r1, PNeedMore) ->
  (length r1 < 292)%nat.
Proof.
  intros cur st1 r1 Hb H. destruct (scan_spec cur) as (i & _ & _ & Hres). rewrite H in Hres.
  destruct Hres as (_ & -> & st' & r' & Hn).
  apply parse_impl_needmore_bound in Hn; [|exact I|apply bytes_ok_split; exact Hb].
  cbn [budget] in Hn. lia.
Qed.

(* the analogue of parse_impl_extends for the scanner *)
Theorem scan_extends : forall a b,
  let '(st1, r1, res) := scan a in
  if match res with PNeedMore => true | _ => false end
  then scan (a ++ b) = scan (r1 ++ b)
  else scan (a ++ b) = (st1, r1 ++ b, res).
Proof.
  induction a as [|x t IH]; intro b.
  - rewrite scan_nil. reflexivity.
  - rewrite scan_cons. destruct (parse_impl FindSync1 (x :: t)) as [[st r] [|h p|e]] eqn:E.
    + reflexivity.
    + apply scan_frame. apply parse_impl_extends_frame. exact E.
    + specialize (IH b). destruct (scan t) as [[st1 r1] res].
      assert (Hs : scan ((x :: t) ++ b) = scan (t ++ b)).
      { rewrite scan_err; [reflexivity|]. exists st, (r ++ b), e. apply parse_impl_extends_err. exact E. }
      rewrite Hs. exact IH.
Qed.

Theorem discard_extends : forall s1 s2 s3 a b,
  let '(st1, r1, res) := parse Discard s1 a in
  if match res with PNeedMore => true | _ => false end
  then parse Discard s2 (a ++ b) = parse Discard s3 (r1 ++ b)
  else parse Discard s2 (a ++ b) = (st1, r1 ++ b, res).
Proof.
  intros s1 s2 s3 a b. pose proof (scan_extends a b) as H. rewrite !parse_discard_scan.
  destruct (scan a) as [[st1 r1] res]. rewrite ?parse_discard_scan. exact H.
Qed.

(* a valid frame that follows line noise is found: the noise is any prefix every offset of which
   is rejected by the aligned parser *)
Theorem discard_resync : forall ctrl dest src payload noise rest st,
  header_ok ctrl dest src -> bytes_ok payload -> (length payload <= 250)%nat ->
  (forall i, (i < length noise)%nat ->
     exists st' r e, parse_impl FindSync1 (skipn i noise ++ format_frame (mk_header ctrl dest src) payload ++ rest)
                     = (st', r, PErr e)) ->
  parse Discard st (noise ++ format_frame (mk_header ctrl dest src) payload ++ rest)
  = (FindSync1, rest, PFrame (mk_header ctrl dest src) payload).
Proof.
  intros ctrl dest src payload noise rest st Hh Hb Hl Hnoise. rewrite parse_discard_scan.
  rewrite (scan_skip (length noise)).
  - rewrite skipn_app, skipn_all, Nat.sub_diag. cbn [skipn app].
    apply scan_frame. apply frame_round_trip; assumption.
  - intros j Hj. rewrite skipn_app_le by lia. apply Hnoise. exact Hj.
Qed.

(* noise without the first start byte satisfies the hypothesis of discard_resync *)
Lemma noise_without_start_rejected noise tail : Forall (fun x => x <> c_start1) noise ->
  forall i, (i < length noise)%nat -> exists st' r e, parse_impl FindSync1 (skipn i noise ++ tail) = (st', r, PErr e).
Proof.
  intros Hn i Hi.
  assert (Hs : Forall (fun x => x <> c_start1) (skipn i noise)).
  { rewrite <- (firstn_skipn i noise) in Hn. apply Forall_app in Hn. apply Hn. }
  assert (Hlen : (0 < length (skipn i noise))%nat) by (rewrite skipn_length; lia).
  destruct (skipn i noise) as [|x t]; [cbn in Hlen; lia|].
  inversion Hs as [|? ? Hx _]; subst. cbn [app parse_impl parse_sync1].
  apply N.eqb_neq in Hx. rewrite Hx. exists FindSync1, (t ++ tail), (EStart1 x). reflexivity.
Qed.

(* the characterisation stated directly for Parser::parse in Discard mode: the state is ignored;
   i is the first offset at which the aligned parser does not report an error *)
Theorem parse_discard_spec : forall st cur, exists i, (i <= length cur)%nat /\
  (forall j, (j < i)%nat -> exists st' r e, parse_impl FindSync1 (skipn j cur) = (st', r, PErr e)) /\
  match parse Discard st cur with
  | (st1, r1, PNeedMore) =>
      st1 = FindSync1 /\ r1 = skipn i cur /\
      exists st' r', parse_impl FindSync1 (skipn i cur) = (st', r', PNeedMore)
  | (st1, r1, PFrame h p) => st1 = FindSync1 /\ parse_impl FindSync1 (skipn i cur) = (st1, r1, PFrame h p)
  | (_, _, PErr _) => False
  end.
Proof. intros st cur. rewrite parse_discard_scan. exact (scan_spec cur). Qed.

(* in particular: noise that does not contain the first start byte *)
Corollary discard_resync_no_start : forall ctrl dest src payload noise rest st,
  header_ok ctrl dest src -> bytes_ok payload -> (length payload <= 250)%nat ->
  Forall (fun x => x <> c_start1) noise ->
  parse Discard st (noise ++ format_frame (mk_header ctrl dest src) payload ++ rest)
  = (FindSync1, rest, PFrame (mk_header ctrl dest src) payload).
Proof.
  intros ctrl dest src payload noise rest st Hh Hb Hl Hn. apply discard_resync; try assumption.
  apply noise_without_start_rejected. exact Hn.
Qed.

(* ---------- 6. a frame damaged by 1..3 bit errors is rejected --------------------------------- *)

Lemma nil_or_not {A} (l : list A) : l = [] \/ l <> [].
Proof. destruct l; [left; reflexivity|right; discriminate]. Qed.

(* error positions falling into the first n bytes, and the others re-based *)
Definition ps_lo (n : nat) (ps : list nat) : list nat := filter (fun p => (p <? 8 * n)%nat) ps.
Definition ps_hi (n : nat) (ps : list nat) : list nat :=
  map (fun p => (p - 8 * n)%nat) (filter (fun p => negb (p <? 8 * n)%nat) ps).

Lemma zeros_app n1 n2 : zeros (n1 + n2) = zeros n1 ++ zeros n2.
Proof. unfold zeros. apply repeat_app. Qed.

Lemma xor_zeros_l m : xor_bytes (zeros (length m)) m = m.
Proof.
  induction m as [|x m IH]; [reflexivity|]. cbn [length zeros repeat xor_bytes]. fold (zeros (length m)).
  rewrite IH, N.lxor_0_l. reflexivity.
Qed.

Lemma xor_zeros_l' n m : length m = n -> xor_bytes (zeros n) m = m.
Proof. intros <-. apply xor_zeros_l. Qed.

Lemma single_app_lo n2 : forall n1 p, (p < 8 * n1)%nat -> single (n1 + n2) p = single n1 p ++ zeros n2.
Proof.
  induction n1 as [|n1 IH]; intros p Hp; [lia|].
  cbn [Nat.add single]. destruct (p <? 8)%nat eqn:E.
  - cbn [app]. rewrite zeros_app. reflexivity.
  - apply Nat.ltb_ge in E. cbn [app]. rewrite IH by lia. reflexivity.
Qed.

Lemma single_app_hi n1 n2 p : (8 * n1 <= p)%nat -> single (n1 + n2) p = zeros n1 ++ single n2 (p - 8 * n1).
Proof.
  intro Hp. replace p with (8 * n1 + (p - 8 * n1))%nat at 1 by lia. apply single_shift.
Qed.

Lemma mask_app n1 n2 ps : mask (n1 + n2) ps = mask n1 (ps_lo n1 ps) ++ mask n2 (ps_hi n1 ps).
Proof.
  induction ps as [|p ps IH]; [apply zeros_app|].
  cbn [mask]. rewrite IH. unfold ps_lo, ps_hi. cbn [filter].
  destruct (p <? 8 * n1)%nat eqn:E; cbn [negb map mask].
  - apply Nat.ltb_lt in E. rewrite single_app_lo by assumption.
    rewrite xor_bytes_app by (rewrite single_length, mask_length; reflexivity). f_equal.
    apply xor_zeros_l', mask_length.
  - apply Nat.ltb_ge in E. rewrite single_app_hi by assumption.
    rewrite xor_bytes_app by (rewrite zeros_length, mask_length; reflexivity). f_equal.
    apply xor_zeros_l', mask_length.
Qed.

Lemma flip_app ps a b :
  flip ps (a ++ b) = flip (ps_lo (length a) ps) a ++ flip (ps_hi (length a) ps) b.
Proof.
  unfold flip. rewrite app_length, mask_app. apply xor_bytes_app. rewrite mask_length. reflexivity.
Qed.

Lemma flip_nil bs : flip [] bs = bs.
Proof. unfold flip. cbn [mask]. apply xor_bytes_zeros. Qed.

Lemma flip_length ps bs : length (flip ps bs) = length bs.
Proof. unfold flip. apply xor_bytes_length. Qed.

Lemma ps_split_length n ps : (length (ps_lo n ps) + length (ps_hi n ps) = length ps)%nat.
Proof.
  unfold ps_lo, ps_hi. rewrite map_length. induction ps as [|p ps IH]; [reflexivity|].
  cbn [filter]. destruct (p <? 8 * n)%nat; cbn [negb length]; lia.
Qed.

Lemma ps_lo_nodup n ps : NoDup ps -> NoDup (ps_lo n ps).
Proof. apply NoDup_filter. Qed.

Lemma ps_lo_range n ps : Forall (fun p => (p < 8 * n)%nat) (ps_lo n ps).
Proof.
  apply Forall_forall. intros p Hp. unfold ps_lo in Hp. apply filter_In in Hp.
  destruct Hp as [_ Hp]. apply Nat.ltb_lt in Hp. exact Hp.
Qed.

Lemma ps_hi_nodup n ps : NoDup ps -> NoDup (ps_hi n ps).
Proof.
  intro Hnd. unfold ps_hi.
  assert (Hf : NoDup (filter (fun p => negb (p <? 8 * n)%nat) ps)) by (apply NoDup_filter; exact Hnd).
  assert (Hge : Forall (fun p => (8 * n <= p)%nat) (filter (fun p => negb (p <? 8 * n)%nat) ps)).
  { apply Forall_forall. intros p Hp. apply filter_In in Hp. destruct Hp as [_ Hp].
    apply negb_true_iff, Nat.ltb_ge in Hp. exact Hp. }
  induction Hf as [|p l Hnin Hf IH]; [constructor|].
  inversion Hge as [|? ? Hp Hge']; subst. cbn [map]. constructor; [|apply IH; exact Hge'].
  intro Hin. apply in_map_iff in Hin. destruct Hin as (q & Hq & Hqin).
  rewrite Forall_forall in Hge'. specialize (Hge' q Hqin). assert (q = p) by lia. subst q. auto.
Qed.

Lemma ps_hi_range n m ps : Forall (fun p => (p < 8 * (n + m))%nat) ps ->
  Forall (fun p => (p < 8 * m)%nat) (ps_hi n ps).
Proof.
  intro H. apply Forall_forall. intros q Hq. unfold ps_hi in Hq. apply in_map_iff in Hq.
  destruct Hq as (p & <- & Hp). apply filter_In in Hp. destruct Hp as [Hin Hp].
  apply negb_true_iff, Nat.ltb_ge in Hp. rewrite Forall_forall in H. specialize (H p Hin). lia.
Qed.

(* cutting into blocks *)
Lemma chunks_full_head k (x y : list N) : (0 < k)%nat -> length x = k ->
  chunks k (x ++ y) = x :: chunks k y.
Proof.
  intros Hk Hx. rewrite chunks_cons.
  - rewrite firstn_app_le, firstn_all2, skipn_app_le, skipn_all2 by lia. reflexivity.
  - exact Hk.
  - destruct x; [cbn in Hx; lia|discriminate].
Qed.

Lemma chunks_single k (x : list N) : (0 < k)%nat -> x <> [] -> (length x <= k)%nat -> chunks k x = [x].
Proof.
  intros Hk Hne Hx. rewrite chunks_cons by assumption.
  rewrite firstn_all2, skipn_all2 by lia. reflexivity.
Qed.

(* the body: the first block containing a flipped bit fails its CRC *)
Lemma damaged_body_rejected : forall bs, blocks_wf 16 bs -> forall ps, Forall bytes_ok bs ->
  NoDup ps -> (1 <= length ps <= 3)%nat ->
  Forall (fun p => (p < 8 * length (concat (map block_with_crc bs)))%nat) ps ->
  exists e pl, check_blocks (chunks 18 (flip ps (concat (map block_with_crc bs)))) = (Some e, pl).
Proof.
  induction 1 as [|b Hne Hlen|b b' bs Hlen Hwf IH]; intros ps Hb Hnd Hw Hr.
  - exfalso. cbn [map concat length] in Hr. destruct ps as [|p ps]; [cbn in Hw; lia|].
    inversion Hr; subst. lia.
  - cbn [map concat] in *. rewrite app_nil_r in *. rewrite block_with_crc_length in Hr.
    inversion Hb as [|? ? Hb1 _]; subst.
    assert (Hl1 : (1 <= length b)%nat) by (destruct b; [congruence|cbn [length]; lia]).
    rewrite chunks_single.
    + cbn [check_blocks]. rewrite flip_length, block_with_crc_length.
      replace (length b + 2 <? 3)%nat with false by (symmetry; apply Nat.ltb_ge; lia).
      unfold block_with_crc. rewrite crc_detects_le3 by (try assumption; lia).
      exists EBodyCrc, []. reflexivity.
    + lia.
    + intro E. apply (f_equal (@length N)) in E. rewrite flip_length, block_with_crc_length in E.
      cbn [length] in E. lia.
    + rewrite flip_length, block_with_crc_length. lia.
  - cbn [map concat] in *. inversion Hb as [|? ? Hb1 Hb2]; subst.
    assert (L : length (block_with_crc b) = 18%nat) by (rewrite block_with_crc_length; lia).
    rewrite app_length, L in Hr.
    rewrite flip_app, L.
    pose proof (ps_split_length 18 ps) as Hsl.
    rewrite chunks_full_head by (try lia; rewrite flip_length; exact L).
    cbn [check_blocks]. rewrite flip_length, L.
    replace (18 <? 3)%nat with false by reflexivity.
    destruct (nil_or_not (ps_lo 18 ps)) as [El|El].
    + rewrite El in *. rewrite flip_nil. unfold block_with_crc at 1. rewrite block_with_crc_ok by assumption.
      cbn [length] in Hsl.
      destruct (IH (ps_hi 18 ps) Hb2) as (e & pl & Hc).
      * apply ps_hi_nodup. exact Hnd.
      * lia.
      * apply ps_hi_range. exact Hr.
      * rewrite Hc. exists e, pl. reflexivity.
    + assert (Hl1 : (1 <= length (ps_lo 18 ps))%nat) by (destruct (ps_lo 18 ps); [congruence|cbn [length]; lia]).
      unfold block_with_crc at 1. rewrite crc_detects_le3.
      * exists EBodyCrc, []. reflexivity.
      * lia.
      * assumption.
      * apply ps_lo_nodup. exact Hnd.
      * lia.
      * rewrite Hlen. apply ps_lo_range.
Qed.

(* the ten header bytes as a CRC block *)
Lemma format_header_as_block len h :
  format_header len h = (5 :: 100 :: header_fields len h) ++ crc_le (5 :: 100 :: header_fields len h).
Proof. unfold format_header, crc_le. rewrite <- !calc_crc_with_0564_eq. reflexivity. Qed.

Lemma format_header_length len h : length (format_header len h) = 10%nat.
Proof. reflexivity. Qed.

(* ten bytes that fail the header block check are rejected, whatever follows *)
Lemma bad_header_rejected : forall hd X, length hd = 10%nat -> block_ok hd = false ->
  exists st r e, parse_impl FindSync1 (hd ++ X) = (st, r, PErr e).
Proof.
  intros hd X Hl Hbad.
  destruct hd as [|b0 [|b1 [|len [|ctrl [|d1 [|d2 [|s1 [|s2 [|c1 [|c2 [|? ?]]]]]]]]]]]; cbn [length] in Hl; try lia.
  cbn [app parse_impl parse_sync1].
  destruct (b0 =? c_start1) eqn:E0; [|eexists _, _, _; reflexivity].
  cbn [parse_sync2].
  destruct (b1 =? c_start2) eqn:E1; [|eexists _, _, _; reflexivity].
  rewrite parse_header_cons.
  destruct (len <? c_min_header_length_value); [eexists _, _, _; reflexivity|].
  destruct (negb (le16 c1 c2 =? calc_crc_with_0564 [len; ctrl; d1; d2; s1; s2])) eqn:Ec;
    [eexists _, _, _; reflexivity|].
  exfalso. apply negb_false_iff, N.eqb_eq in Ec. apply N.eqb_eq in E0, E1. subst b0 b1.
  change [c_start1; c_start2; len; ctrl; d1; d2; s1; s2; c1; c2]
    with ([5; 100; len; ctrl; d1; d2; s1; s2] ++ [c1; c2]) in Hbad.
  rewrite block_ok_app, <- calc_crc_with_0564_eq, <- Ec, N.eqb_refl in Hbad. discriminate.
Qed.

Lemma header_fields_bytes ctrl dest src n : header_ok ctrl dest src -> (n <= 250)%nat ->
  bytes_ok (header_fields (N.of_nat n + c_min_header_length_value) (mk_header ctrl dest src)).
Proof.
  intros (Hc & Hd & Hs) Hn. unfold header_fields.
  repeat constructor; try apply lo8_bound; try apply hi8_bound.
  - change c_min_header_length_value with 5. lia.
  - cbn [mk_header h_control].
    pose proof (forallb_nrange _ 256 control_to_bound_check ctrl Hc) as Hx. cbv beta in Hx.
    apply N.ltb_lt. exact Hx.
Qed.

(* an intact header hands over to the body parser (first half of frame_round_trip) *)
Lemma parse_format_header ctrl dest src n X : header_ok ctrl dest src -> (n <= 250)%nat ->
  parse_impl FindSync1 (format_header (N.of_nat n + c_min_header_length_value) (mk_header ctrl dest src) ++ X)
  = parse_body (mk_header ctrl dest src) (n + 2 * ((n + 15) / 16)) X.
Proof.
  intros Hh Hn. set (h := mk_header ctrl dest src).
  pose proof (header_fields_bytes ctrl dest src n Hh Hn) as Hfb. fold h in Hfb.
  unfold format_header, header_fields in *.
  set (len := N.of_nat n + c_min_header_length_value) in *.
  cbn [app parse_impl parse_sync1].
  change (c_start1 =? c_start1) with true. cbv iota. cbn [parse_sync2].
  change (c_start2 =? c_start2) with true. cbv iota.
  rewrite parse_header_cons.
  pose proof (mk_header_reparse ctrl dest src Hh) as Hre. cbv zeta in Hre. fold h in Hre. rewrite Hre.
  replace (len <? c_min_header_length_value) with false by (symmetry; apply N.ltb_ge; unfold len; lia).
  set (fields := [len; control_to (h_control h); lo8 (address_value (h_dest h)); hi8 (address_value (h_dest h));
                  lo8 (address_value (h_src h)); hi8 (address_value (h_src h))]) in *.
  assert (Hcrc : le16 (lo8 (calc_crc_with_0564 fields)) (hi8 (calc_crc_with_0564 fields)) = calc_crc_with_0564 fields).
  { apply le16_lo_hi. unfold calc_crc_with_0564. apply not16_bound. apply crc_increment_bound; [reflexivity|exact Hfb]. }
  rewrite Hcrc, N.eqb_refl. cbn [negb].
  replace (len - c_min_header_length_value) with (N.of_nat n) by (unfold len; lia).
  rewrite trailer_length_eq by assumption. reflexivity.
Qed.

Theorem damaged_frame_not_delivered : forall ctrl dest src payload rest ps,
  header_ok ctrl dest src -> bytes_ok payload -> (length payload <= 250)%nat ->
  NoDup ps -> (1 <= length ps <= 3)%nat ->
  Forall (fun p => (p < 8 * length (format_frame (mk_header ctrl dest src) payload))%nat) ps ->
  exists st r e,
    parse_impl FindSync1 (flip ps (format_frame (mk_header ctrl dest src) payload) ++ rest) = (st, r, PErr e).
Proof.
  intros ctrl dest src payload rest ps Hh Hb Hlen Hnd Hw Hr.
  set (h := mk_header ctrl dest src) in *.
  unfold format_frame in *.
  set (len := N.of_nat (length payload) + c_min_header_length_value) in *.
  rewrite app_length, format_header_length in Hr.
  rewrite flip_app, format_header_length, <- app_assoc.
  pose proof (ps_split_length 10 ps) as Hsl.
  destruct (nil_or_not (ps_lo 10 ps)) as [El|El].
  - (* the header is intact: the damage is in the body *)
    rewrite El in *. cbn [length] in Hsl. rewrite flip_nil.
    unfold len, h. rewrite parse_format_header by assumption. fold h.
    unfold format_body in *. change (N.to_nat c_max_block_size) with 16%nat in *.
    pose proof (chunks_wf 16 ltac:(lia) _ payload (le_n _)) as Hwf.
    pose proof (chunks_concat 16 ltac:(lia) _ payload (le_n _)) as Hcat.
    set (bs := chunks 16 payload) in *.
    assert (Lbody : length (concat (map block_with_crc bs)) = (length payload + 2 * ((length payload + 15) / 16))%nat).
    { rewrite format_body_length_aux by assumption. rewrite blocks_count by assumption. rewrite Hcat. reflexivity. }
    destruct (damaged_body_rejected bs Hwf (ps_hi 10 ps)) as (e & pl & Hc).
    + unfold bs. apply chunks_bytes; [lia|assumption].
    + apply ps_hi_nodup. exact Hnd.
    + lia.
    + apply ps_hi_range. exact Hr.
    + unfold parse_body. change (N.to_nat c_max_block_size_with_crc) with 18%nat.
      rewrite app_length, flip_length, <- Lbody.
      replace (_ + length rest <? _)%nat with false by (symmetry; apply Nat.ltb_ge; lia).
      rewrite firstn_app_le, firstn_all2 by (rewrite flip_length; lia).
      rewrite Hc. eexists _, _, _. reflexivity.
  - (* the header block carries 1..3 of the errors *)
    assert (Hl1 : (1 <= length (ps_lo 10 ps))%nat) by (destruct (ps_lo 10 ps); [congruence|cbn [length]; lia]).
    apply bad_header_rejected.
    + rewrite flip_length. reflexivity.
    + rewrite format_header_as_block. apply header_crc_detects_le3.
      * reflexivity.
      * unfold len, h. apply header_fields_bytes; assumption.
      * apply ps_lo_nodup. exact Hnd.
      * lia.
      * apply (ps_lo_range 10 ps).
Qed.
