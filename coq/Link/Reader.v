(* Link/Reader.v — model of dnp3/src/link/reader.rs (ReadBuffer, Reader::read_frame).
   Definitions only.  The buffer is represented by `begin` and the list of unread bytes
   (end = begin + length unread); the bytes before `begin` are dead. *)
From Dnp3V Require Export Link.Parser.
Open Scope N_scope.

Inductive read_mode := Stream | Datagram.

Record rcfg := { r_mode : error_mode; r_read : read_mode; r_cap : nat }.

Definition num_link_frames (fragment_size : nat) : nat :=
  let full := (fragment_size / N.to_nat c_max_app_bytes_per_frame)%nat in
  if (fragment_size mod N.to_nat c_max_app_bytes_per_frame =? 0)%nat then full else S full.

Definition read_buffer_size (fragment_size : nat) : nat :=
  let n := num_link_frames fragment_size in
  S (if (n =? 0)%nat then N.to_nat c_max_link_frame_length
     else n * N.to_nat c_max_link_frame_length)%nat.

Record rstate := { r_begin : nat; r_unread : list N; r_pstate : pstate }.

Definition rstate_init : rstate := {| r_begin := 0; r_unread := []; r_pstate := FindSync1 |}.

Definition r_end (rs : rstate) : nat := (r_begin rs + length (r_unread rs))%nat.
Definition r_writable (cfg : rcfg) (rs : rstate) : nat := (r_cap cfg - r_end rs)%nat.

Inductive rerr := RParse (e : perr) | REof.

Inductive rf_result :=
| RFrame (h : header) (payload : list N)
| RErr (e : rerr)
| RBlocked          (* waiting in io.read with nothing to read *)
| ROverflow.        (* the scripted read is larger than the writable slice (test artefact) *)

(* the part of the read_frame loop before read_more_data; None = go on and read *)
Definition step_parse (cfg : rcfg) (rs : rstate) : rstate * option rf_result :=
  match r_unread rs with
  | [] => ({| r_begin := 0; r_unread := []; r_pstate := r_pstate rs |}, None)
  | _ =>
      match parse (r_mode cfg) (r_pstate rs) (r_unread rs) with
      | (st', rest, PFrame h p) =>
          ({| r_begin := r_end rs - length rest; r_unread := rest; r_pstate := st' |},
           Some (RFrame h p))
      | (st', rest, PErr e) => (rs, Some (RErr (RParse e)))
      | (st', rest, PNeedMore) =>
          match r_read cfg with
          | Datagram => (rstate_init, None)
          | Stream => ({| r_begin := r_end rs - length rest; r_unread := rest; r_pstate := st' |}, None)
          end
      end
  end.

Definition shift_if_full (cfg : rcfg) (rs : rstate) : rstate :=
  if (r_end rs =? r_cap cfg)%nat
  then {| r_begin := 0; r_unread := r_unread rs; r_pstate := r_pstate rs |}
  else rs.

Definition append_read (rs : rstate) (c : list N) : rstate :=
  {| r_begin := r_begin rs; r_unread := r_unread rs ++ c; r_pstate := r_pstate rs |}.

(* Reader::read_frame against a queue of physical reads *)
Fixpoint read_frame (cfg : rcfg) (reads : list (list N)) (rs : rstate)
  : rstate * list (list N) * rf_result :=
  match step_parse cfg rs with
  | (rs1, Some r) => (rs1, reads, r)
  | (rs1, None) =>
      let rs2 := shift_if_full cfg rs1 in
      match reads with
      | [] => (rs2, [], RBlocked)
      | c :: reads' =>
          if (r_writable cfg rs2 <? length c)%nat then (rs2, reads', ROverflow)
          else match c with
               | [] => (rs2, reads', RErr REof)
               | _ => read_frame cfg reads' (append_read rs2 c)
               end
      end
  end.

(* what the test harness does with one queued read: call read_frame until it blocks *)
Inductive robs :=
| OFrame (h : header) (payload : list N)
| OErr (e : rerr)
| OOverflow
| OStall.

Fixpoint feed_loop (fuel : nat) (cfg : rcfg) (reads : list (list N)) (rs : rstate)
  : rstate * list robs * bool (* true = session continues *) :=
  match fuel with
  | O => (rs, [OStall], false)
  | S f =>
      match read_frame cfg reads rs with
      | (rs', reads', RFrame h p) =>
          let '(rs'', obs, go) := feed_loop f cfg reads' rs' in (rs'', OFrame h p :: obs, go)
      | (rs', _, RBlocked) => (rs', [], true)
      | (rs', _, RErr e) => (rs', [OErr e], false)
      | (rs', _, ROverflow) => (rs', [OOverflow], false)
      end
  end.

Definition feed (cfg : rcfg) (rs : rstate) (c : list N) : rstate * list robs * bool :=
  feed_loop (length (r_unread rs) + length c + 2) cfg [c] rs.

Fixpoint run_feeds (cfg : rcfg) (rs : rstate) (cs : list (list N)) : list robs :=
  match cs with
  | [] => []
  | c :: cs' =>
      let '(rs', obs, go) := feed cfg rs c in
      if go then obs ++ run_feeds cfg rs' cs' else obs
  end.

Definition run_link (mode : error_mode) (rm : read_mode) (frag : nat) (cs : list (list N)) : list robs :=
  run_feeds {| r_mode := mode; r_read := rm; r_cap := read_buffer_size frag |} rstate_init cs.

(* Test-generation helper (not part of the model of the code): cut a byte stream into physical
   reads of the requested sizes, each limited to the writable space the reader will offer, which is
   what a socket read does.  When the sizes run out the rest is delivered as large as possible. *)
Fixpoint concretize (fuel : nat) (cfg : rcfg) (rs : rstate) (stream : list N) (sizes : list nat)
  : list (list N) :=
  match fuel with
  | O => []
  | S f =>
      match stream with
      | [] => []
      | _ =>
          let want := match sizes with [] => length stream | s :: _ => Nat.max 1 s end in
          let k := Nat.min want (r_writable cfg rs) in
          let c := firstn k stream in
          match c with
          | [] => [stream]   (* no writable space: hand over everything, the model reports overflow *)
          | _ =>
              let '(rs', _, go) := feed cfg rs c in
              c :: (if go then concretize f cfg rs' (skipn k stream) (tl sizes) else [])
          end
      end
  end.

Definition concretize_link (mode : error_mode) (rm : read_mode) (frag : nat) (stream : list N)
  (sizes : list nat) : list (list N) :=
  concretize (S (length stream)) {| r_mode := mode; r_read := rm; r_cap := read_buffer_size frag |}
    rstate_init stream sizes.
