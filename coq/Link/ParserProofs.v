(* Link/ParserProofs.v — round trip and incrementality of the link parser model. *)
From Dnp3V Require Import Link.Parser Link.CrcProofs.
Open Scope N_scope.
