(* Link/ParserProofs.v — header codecs, frame round trip and incrementality of the parser model. *)
From Dnp3V Require Import Link.Parser Link.CrcProofs.
Open Scope N_scope.
Arguments N.add : simpl never.
Arguments N.mul : simpl never.

(* ---------- control byte and addresses: decode then encode is the identity ----------------- *)

Lemma control_round_trip_check : forallb (fun b => control_to (control_from b) =? b) (nrange 256) = true.
Proof. vm_compute. reflexivity. Qed.

Lemma control_round_trip b : b < 256 -> control_to (control_from b) = b.
Proof. intro H. apply N.eqb_eq. exact (forallb_nrange _ 256 control_round_trip_check b H). Qed.

Lemma control_to_bound_check : forallb (fun b => control_to (control_from b) <? 256) (nrange 256) = true.
Proof. vm_compute. reflexivity. Qed.

Lemma address_round_trip x : address_value (address_from x) = x.
Proof.
  unfold address_from.
  destruct (x =? c_broadcast_confirm_optional) eqn:E1; [apply N.eqb_eq in E1; subst; reflexivity|].
  destruct (x =? c_broadcast_confirm_mandatory) eqn:E2; [apply N.eqb_eq in E2; subst; reflexivity|].
  destruct (x =? c_broadcast_confirm_not_required) eqn:E3; [apply N.eqb_eq in E3; subst; reflexivity|].
  destruct (x =? c_self_address) eqn:E4; [apply N.eqb_eq in E4; subst; reflexivity|].
  destruct (c_reserved_start <=? x); reflexivity.
Qed.

(* ---------- chunks --------------------------------------------------------------------------- *)

Lemma skipn_length_le {A} k (l : list A) : (length (skipn k l) <= length l)%nat.
Proof. rewrite skipn_length. lia. Qed.

Lemma chunks_fuel_irrelevant k : (0 < k)%nat -> forall f1 f2 l, (length l <= f1)%nat -> (length l <= f2)%nat ->
  chunks_fuel f1 k l = chunks_fuel f2 k l.
Proof.
  intros Hk f1. induction f1 as [|f1 IH]; intros f2 l H1 H2.
  - destruct l; [|cbn in H1; lia]. destruct f2; reflexivity.
  - destruct l as [|x l]; [destruct f2; reflexivity|].
    destruct f2 as [|f2]; [cbn in H2; lia|]. cbn [chunks_fuel]. f_equal.
    apply IH; rewrite skipn_length; cbn [length] in *; lia.
Qed.

Lemma chunks_nil k : chunks k [] = [].
Proof. reflexivity. Qed.

Lemma chunks_cons k l : (0 < k)%nat -> l <> [] -> chunks k l = firstn k l :: chunks k (skipn k l).
Proof.
  intros Hk Hl. unfold chunks. destruct l as [|x l]; [congruence|].
  cbn [length chunks_fuel]. f_equal. apply chunks_fuel_irrelevant; try assumption.
  - rewrite skipn_length. cbn [length]. lia.
  - lia.
Qed.

(* the shape of a block list produced by chunks: non-empty blocks of at most k, all but the last full *)
Inductive blocks_wf (k : nat) : list (list N) -> Prop :=
| bw_nil : blocks_wf k []
| bw_last b : b <> [] -> (length b <= k)%nat -> blocks_wf k [b]
| bw_cons b b' bs : length b = k -> blocks_wf k (b' :: bs) -> blocks_wf k (b :: b' :: bs).

Lemma chunks_wf k : (0 < k)%nat -> forall n l, (length l <= n)%nat -> blocks_wf k (chunks k l).
Proof.
  intros Hk n. induction n as [|n IH]; intros l Hl.
  - destruct l; [constructor|cbn in Hl; lia].
  - destruct l as [|x l]; [constructor|].
    rewrite chunks_cons by (assumption || discriminate).
    assert (Hs : (length (skipn k (x :: l)) <= n)%nat) by (rewrite skipn_length; cbn [length] in *; lia).
    specialize (IH _ Hs).
    destruct (skipn k (x :: l)) as [|y r] eqn:E.
    + rewrite chunks_nil. apply bw_last.
      * destruct k; [lia|]. cbn. discriminate.
      * rewrite firstn_length. lia.
    + rewrite chunks_cons in * by (assumption || discriminate). apply bw_cons; [|exact IH].
      rewrite firstn_length. apply Nat.min_l.
      assert (length (skipn k (x :: l)) = S (length r)) by (rewrite E; reflexivity).
      rewrite skipn_length in H. lia.
Qed.

Lemma chunks_concat k : (0 < k)%nat -> forall n l, (length l <= n)%nat -> concat (chunks k l) = l.
Proof.
  intros Hk n. induction n as [|n IH]; intros l Hl.
  - destruct l; [reflexivity|cbn in Hl; lia].
  - destruct l as [|x l]; [reflexivity|].
    rewrite chunks_cons by (assumption || discriminate). cbn [concat].
    rewrite IH by (rewrite skipn_length; cbn [length] in *; lia). apply firstn_skipn.
Qed.

Lemma bytes_ok_split k l : bytes_ok l -> bytes_ok (firstn k l) /\ bytes_ok (skipn k l).
Proof. intro H. rewrite <- (firstn_skipn k l) in H. apply Forall_app in H. exact H. Qed.

Lemma chunks_bytes k l : (0 < k)%nat -> bytes_ok l -> Forall bytes_ok (chunks k l).
Proof.
  intros Hk Hb. remember (length l) as n eqn:Hn. assert (Hl : (length l <= n)%nat) by lia. clear Hn.
  revert l Hb Hl. induction n as [|n IH]; intros l Hb Hl.
  - destruct l; [constructor|cbn in Hl; lia].
  - destruct l as [|x l]; [constructor|].
    rewrite chunks_cons by (assumption || discriminate).
    destruct (bytes_ok_split k _ Hb) as [H1 H2]. constructor; [exact H1|].
    apply IH; [exact H2|]. rewrite skipn_length. cbn [length] in *. lia.
Qed.

(* ---------- body: blocks with CRC are cut back into the same blocks and all pass ------------- *)

Lemma block_with_crc_length b : length (block_with_crc b) = (length b + 2)%nat.
Proof. unfold block_with_crc. rewrite app_length. reflexivity. Qed.

Lemma rechunk bs : blocks_wf 16 bs ->
  chunks 18 (concat (map block_with_crc bs)) = map block_with_crc bs.
Proof.
  induction 1 as [|b Hne Hlen|b b' bs Hlen Hwf IH].
  - reflexivity.
  - cbn [map concat]. rewrite app_nil_r. rewrite chunks_cons.
    + rewrite firstn_all2 by (rewrite block_with_crc_length; lia).
      rewrite skipn_all2 by (rewrite block_with_crc_length; lia). reflexivity.
    + lia.
    + unfold block_with_crc. destruct b; [congruence|discriminate].
  - cbn [map concat] in *. rewrite chunks_cons.
    + assert (L : length (block_with_crc b) = 18%nat) by (rewrite block_with_crc_length; lia).
      rewrite firstn_app, L, Nat.sub_diag, firstn_O, app_nil_r, firstn_all2 by lia.
      rewrite skipn_app, L, Nat.sub_diag, skipn_O, skipn_all2 by lia. cbn [app].
      f_equal. exact IH.
    + lia.
    + unfold block_with_crc. destruct b; [cbn in Hlen; lia|discriminate].
Qed.

Lemma check_blocks_ok bs : Forall bytes_ok bs -> Forall (fun b => b <> []) bs ->
  check_blocks (map block_with_crc bs) = (None, concat bs).
Proof.
  induction bs as [|b bs IH]; intros Hb Hne; [reflexivity|].
  inversion Hb as [|? ? Hb1 Hb2]; subst. inversion Hne as [|? ? Hn1 Hn2]; subst.
  cbn [map check_blocks]. rewrite block_with_crc_length.
  destruct (length b) eqn:El; [destruct b; [congruence|discriminate]|].
  replace (S n + 2 <? 3)%nat with false by (symmetry; apply Nat.ltb_ge; lia).
  unfold block_with_crc at 1. rewrite block_with_crc_ok by assumption.
  rewrite IH by assumption. cbn [concat]. f_equal. f_equal.
  unfold block_with_crc. replace (S n + 2 - 2)%nat with (length b) by lia.
  rewrite firstn_app, firstn_all, Nat.sub_diag, firstn_O, app_nil_r. reflexivity.
Qed.

Lemma blocks_wf_nonempty k bs : (0 < k)%nat -> blocks_wf k bs -> Forall (fun b => b <> []) bs.
Proof.
  intros Hk H. induction H as [|b Hne Hlen|b b' bs Hlen Hwf IH]; constructor; auto.
  destruct b; [cbn in Hlen; lia|discriminate].
Qed.

(* length of the body *)
Lemma format_body_length_aux bs : blocks_wf 16 bs ->
  length (concat (map block_with_crc bs)) = (length (concat bs) + 2 * length bs)%nat.
Proof.
  induction 1 as [|b Hne Hlen|b b' bs Hlen Hwf IH].
  - reflexivity.
  - cbn [map concat length]. rewrite !app_nil_r, block_with_crc_length. lia.
  - cbn [map concat length] in *. rewrite app_length, block_with_crc_length, IH, !app_length. cbn [length]. lia.
Qed.

Lemma blocks_count bs : blocks_wf 16 bs ->
  length bs = ((length (concat bs) + 15) / 16)%nat.
Proof.
  induction 1 as [|b Hne Hlen|b b' bs Hlen Hwf IH].
  - reflexivity.
  - cbn [concat length]. rewrite app_nil_r.
    assert (1 <= length b)%nat by (destruct b; [congruence|cbn; lia]).
    apply Nat.div_unique with (r := (length b - 1)%nat); lia.
  - cbn [concat length] in *. rewrite app_length, Hlen.
    replace (16 + length (b' ++ concat bs) + 15)%nat with (1 * 16 + (length (b' ++ concat bs) + 15))%nat by lia.
    rewrite Nat.div_add_l by lia. rewrite IH. lia.
Qed.

Lemma trailer_length_eq (n : nat) : (n <= 250)%nat ->
  calc_trailer_length (N.of_nat n) = (n + 2 * ((n + 15) / 16))%nat.
Proof.
  intro Hn. unfold calc_trailer_length.
  change c_max_block_size with 16. change c_max_block_size_with_crc with 18. change c_crc_length with 2.
  destruct (N.of_nat n mod 16 =? 0) eqn:E.
  - apply N.eqb_eq in E. lia.
  - apply N.eqb_neq in E. lia.
Qed.

(* ---------- the frame round trip --------------------------------------------------------------- *)

Definition header_ok (ctrl dest src : N) : Prop := ctrl < 256 /\ dest < 65536 /\ src < 65536.

Lemma mk_header_reparse ctrl dest src : header_ok ctrl dest src ->
  let h := mk_header ctrl dest src in
  mk_header (control_to (h_control h))
            (le16 (lo8 (address_value (h_dest h))) (hi8 (address_value (h_dest h))))
            (le16 (lo8 (address_value (h_src h))) (hi8 (address_value (h_src h)))) = h.
Proof.
  intros (Hc & Hd & Hs). cbn [mk_header h_control h_dest h_src].
  rewrite control_round_trip by assumption. rewrite !address_round_trip.
  rewrite !le16_lo_hi by assumption. reflexivity.
Qed.

Lemma parse_header_cons len ctrl d1 d2 s1 s2 c1 c2 rest :
  parse_header (len :: ctrl :: d1 :: d2 :: s1 :: s2 :: c1 :: c2 :: rest) =
  if len <? c_min_header_length_value then (ReadHeader, rest, PErr (ELength len))
  else if negb (le16 c1 c2 =? calc_crc_with_0564 [len; ctrl; d1; d2; s1; s2])
       then (ReadHeader, rest, PErr EHeaderCrc)
       else parse_body (mk_header ctrl (le16 d1 d2) (le16 s1 s2))
                       (calc_trailer_length (len - c_min_header_length_value)) rest.
Proof. reflexivity. Qed.

Theorem frame_round_trip : forall ctrl dest src payload rest,
  header_ok ctrl dest src -> bytes_ok payload -> (length payload <= 250)%nat ->
  parse_impl FindSync1 (format_frame (mk_header ctrl dest src) payload ++ rest)
  = (FindSync1, rest, PFrame (mk_header ctrl dest src) payload).
Proof.
  intros ctrl dest src payload rest Hh Hb Hlen.
  set (h := mk_header ctrl dest src).
  unfold format_frame, format_header, header_fields.
  set (len := N.of_nat (length payload) + c_min_header_length_value).
  cbn [app parse_impl parse_sync1].
  change (c_start1 =? c_start1) with true. cbv iota. cbn [parse_sync2].
  change (c_start2 =? c_start2) with true. cbv iota.
  rewrite parse_header_cons.
  pose proof (mk_header_reparse ctrl dest src Hh) as Hre. cbv zeta in Hre. fold h in Hre. rewrite Hre.
  replace (len <? c_min_header_length_value) with false by (symmetry; apply N.ltb_ge; unfold len; lia).
  set (fields := [len; control_to (h_control h); lo8 (address_value (h_dest h)); hi8 (address_value (h_dest h));
                  lo8 (address_value (h_src h)); hi8 (address_value (h_src h))]).
  assert (Hcrc : le16 (lo8 (calc_crc_with_0564 fields)) (hi8 (calc_crc_with_0564 fields)) = calc_crc_with_0564 fields).
  { apply le16_lo_hi. unfold calc_crc_with_0564. apply not16_bound. apply crc_increment_bound; [reflexivity|].
    unfold fields. destruct Hh as (Hc & Hd & Hs).
    repeat constructor; try apply lo8_bound; try apply hi8_bound.
    - unfold len. change c_min_header_length_value with 5. lia.
    - pose proof (forallb_nrange _ 256 control_to_bound_check ctrl Hc) as Hx. cbv beta in Hx.
      apply N.ltb_lt. exact Hx. }
  rewrite Hcrc, N.eqb_refl. cbn [negb].
  replace (len - c_min_header_length_value) with (N.of_nat (length payload)) by (unfold len; lia).
  rewrite trailer_length_eq by assumption.
  (* the body *)
  unfold parse_body, format_body. change (N.to_nat c_max_block_size) with 16%nat.
  change (N.to_nat c_max_block_size_with_crc) with 18%nat.
  pose proof (chunks_wf 16 ltac:(lia) _ payload (le_n _)) as Hwf.
  pose proof (chunks_concat 16 ltac:(lia) _ payload (le_n _)) as Hcat.
  set (bs := chunks 16 payload) in *.
  assert (Lbody : length (concat (map block_with_crc bs)) = (length payload + 2 * ((length payload + 15) / 16))%nat).
  { rewrite format_body_length_aux by assumption. rewrite blocks_count by assumption. rewrite Hcat. reflexivity. }
  rewrite app_length, Lbody.
  replace (_ + _ + length rest <? _)%nat with false by (symmetry; apply Nat.ltb_ge; lia).
  rewrite <- Lbody. rewrite firstn_app, Nat.sub_diag, firstn_O, app_nil_r, firstn_all.
  rewrite skipn_app, Nat.sub_diag, skipn_O, skipn_all. cbn [app].
  rewrite (rechunk bs Hwf).
  rewrite check_blocks_ok.
  - rewrite Hcat. reflexivity.
  - unfold bs. apply chunks_bytes; [lia|assumption].
  - apply (blocks_wf_nonempty 16); [lia|assumption].
Qed.
