(* Link/Parser.v — model of dnp3/src/link/parser.rs.  Definitions only.
   A cursor is the list of bytes not yet consumed; every function returns the remaining bytes. *)
From Dnp3V Require Export Link.Frame.
Open Scope N_scope.

Inductive error_mode := Close | Discard.

Inductive pstate :=
| FindSync1 | FindSync2 | ReadHeader
| ReadBody (h : header) (trailer : nat).

Inductive perr :=
| EStart1 (x : N) | EStart2 (x : N) | ELength (x : N) | EHeaderCrc | EBodyCrc | ELogicSize.

Inductive presult :=
| PNeedMore
| PFrame (h : header) (payload : list N)
| PErr (e : perr).

Definition calc_trailer_length (data_length : N) : nat :=
  let div16 := data_length / c_max_block_size in
  let mod16 := data_length mod c_max_block_size in
  N.to_nat (if mod16 =? 0 then div16 * c_max_block_size_with_crc
            else div16 * c_max_block_size_with_crc + mod16 + c_crc_length).

(* the per-block loop of parse_body; None = some block failed *)
Fixpoint check_blocks (blocks : list (list N)) : option perr * list N :=
  match blocks with
  | [] => (None, [])
  | b :: rest =>
      if (length b <? 3)%nat then (Some ELogicSize, [])
      else if block_ok b then
        match check_blocks rest with
        | (None, p) => (None, firstn (length b - 2) b ++ p)
        | (Some e, p) => (Some e, p)
        end
      else (Some EBodyCrc, [])
  end.

Definition parse_body (h : header) (n : nat) (cur : list N) : pstate * list N * presult :=
  if (length cur <? n)%nat then (ReadBody h n, cur, PNeedMore)
  else
    let body := firstn n cur in
    let rest := skipn n cur in
    match check_blocks (chunks (N.to_nat c_max_block_size_with_crc) body) with
    | (None, payload) => (FindSync1, rest, PFrame h payload)
    | (Some e, _) => (ReadBody h n, rest, PErr e)
    end.

Definition parse_header (cur : list N) : pstate * list N * presult :=
  if (length cur <? 8)%nat then (ReadHeader, cur, PNeedMore)
  else
    match cur with
    | len :: ctrl :: d1 :: d2 :: s1 :: s2 :: c1 :: c2 :: rest =>
        let h := mk_header ctrl (le16 d1 d2) (le16 s1 s2) in
        if len <? c_min_header_length_value then (ReadHeader, rest, PErr (ELength len))
        else if negb (le16 c1 c2 =? calc_crc_with_0564 [len; ctrl; d1; d2; s1; s2])
             then (ReadHeader, rest, PErr EHeaderCrc)
        else parse_body h (calc_trailer_length (len - c_min_header_length_value)) rest
    | _ => (ReadHeader, cur, PNeedMore)
    end.

Definition parse_sync2 (cur : list N) : pstate * list N * presult :=
  match cur with
  | [] => (FindSync2, [], PNeedMore)
  | x :: rest => if x =? c_start2 then parse_header rest else (FindSync2, rest, PErr (EStart2 x))
  end.

Definition parse_sync1 (cur : list N) : pstate * list N * presult :=
  match cur with
  | [] => (FindSync1, [], PNeedMore)
  | x :: rest => if x =? c_start1 then parse_sync2 rest else (FindSync1, rest, PErr (EStart1 x))
  end.

(* Parser::parse_impl: the loop runs each state function until one makes no progress, fails, or a
   frame is complete; the states only advance, so the loop is this nest of calls. *)
Definition parse_impl (st : pstate) (cur : list N) : pstate * list N * presult :=
  match st with
  | FindSync1 => parse_sync1 cur
  | FindSync2 => parse_sync2 cur
  | ReadHeader => parse_header cur
  | ReadBody h n => parse_body h n cur
  end.

(* Parser::parse in Discard mode (after fix F7): every attempt is a cursor transaction; on an error
   the cursor is rolled back, one byte is skipped and the state reset; when the candidate frame is
   merely incomplete the cursor is rolled back as well and the state reset, so that the bytes of
   the candidate stay in the read buffer and are looked at again together with the bytes that
   arrive later.  Fuel = number of bytes + 1 (each failed attempt drops one byte). *)
Fixpoint parse_discard (fuel : nat) (cur : list N) : pstate * list N * presult :=
  match fuel with
  | O => (FindSync1, cur, PNeedMore)
  | S f =>
      match parse_impl FindSync1 cur with
      | (_, _, PErr _) => parse_discard f (tl cur)
      | (_, _, PNeedMore) => (FindSync1, cur, PNeedMore)
      | r => r
      end
  end.

Definition parse (mode : error_mode) (st : pstate) (cur : list N) : pstate * list N * presult :=
  match mode with
  | Close => parse_impl st cur
  | Discard => parse_discard (S (length cur)) cur
  end.
