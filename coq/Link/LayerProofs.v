(* Link/LayerProofs.v — address filtering and secondary-station behaviour of the link layer. *)
From Dnp3V Require Import Link.Layer Link.CrcProofs Link.ParserProofs.
Open Scope N_scope.
