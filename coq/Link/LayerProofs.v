(* Link/LayerProofs.v — address filtering and secondary-station behaviour of the link layer. *)
From Dnp3V Require Import Link.Layer Link.CrcProofs Link.ParserProofs.
Open Scope N_scope.

(* ---------- process_header = address/direction filter, then dispatch on the function --------- *)

(* the destination classes the endpoint listens to: None = not for us, Some None = unicast,
   Some (Some m) = broadcast *)
Definition dest_class (cfg : lcfg) (d : any_address) : option (option bcast_mode) :=
  match d with
  | AEndpoint x => if x =? l_addr cfg then Some None else None
  | ASelf => if l_self cfg then Some None else None
  | AReserved _ => None
  | ABroadcast m => match l_type cfg with Master => None | Outstation => Some (Some m) end
  end.

(* Some (source, broadcast) when the frame passes the direction, source, destination and
   "broadcast carries user data only" checks *)
Definition link_filter (cfg : lcfg) (h : header) : option (N * option bcast_mode) :=
  if bool_eqb (c_master (h_control h)) (dir_bit (l_type cfg)) then None
  else
    match h_src h with
    | AEndpoint source =>
        match dest_class cfg (h_dest h) with
        | None => None
        | Some broadcast =>
            if (match broadcast with Some _ => negb (is_user_data (c_func (h_control h))) | None => false end)
            then None else Some (source, broadcast)
        end
    | _ => None
    end.

Definition ack_unless_broadcast (source : N) (broadcast : option bcast_mode) : option reply :=
  match broadcast with
  | None => Some {| rp_addr := source; rp_func := SecAck |}
  | Some _ => None
  end.

Definition dispatch (ss : sec_state) (c : control) (source : N) (broadcast : option bcast_mode)
  : sec_state * option frame_info * option reply :=
  match c_func c with
  | PriUnconfirmedUserData =>
      if c_fcv c then (ss, None, None) else (ss, Some (mk_info source broadcast FData), None)
  | PriResetLinkStates =>
      if c_fcv c then (ss, None, None)
      else (ResetS true, None, Some {| rp_addr := source; rp_func := SecAck |})
  | PriConfirmedUserData =>
      if negb (c_fcv c) then (ss, None, None)
      else
        match ss with
        | NotReset => (ss, None, None)
        | ResetS expected =>
            if bool_eqb (c_fcb c) expected
            then (ResetS (negb expected), Some (mk_info source broadcast FData),
                  ack_unless_broadcast source broadcast)
            else (ss, None, ack_unless_broadcast source broadcast)
        end
  | PriRequestLinkStatus =>
      if c_fcv c then (ss, None, None)
      else (ss, Some (mk_info source broadcast FLinkStatusRequest),
            Some {| rp_addr := source; rp_func := SecLinkStatus |})
  | SecLinkStatus => (ss, Some (mk_info source broadcast FLinkStatusResponse), None)
  | _ => (ss, None, None)
  end.

Lemma process_header_eq cfg ss h :
  process_header cfg ss h =
  match link_filter cfg h with
  | None => (ss, None, None)
  | Some (source, broadcast) => dispatch ss (h_control h) source broadcast
  end.
Proof.
  unfold process_header, link_filter, dispatch, dest_class, ack_unless_broadcast.
  destruct (bool_eqb (c_master (h_control h)) (dir_bit (l_type cfg))); [reflexivity|].
  destruct (h_src h) as [x|s|m|]; try reflexivity.
  destruct (h_dest h) as [x|x|m|]; try reflexivity.
  - destruct (x =? l_addr cfg); reflexivity.
  - destruct (l_type cfg); [reflexivity|].
    destruct (negb (is_user_data (c_func (h_control h)))); reflexivity.
  - destruct (l_self cfg); reflexivity.
Qed.

Lemma bool_eqb_false a b : bool_eqb a b = false <-> a = negb b.
Proof. destruct a, b; cbn; split; congruence. Qed.

Lemma bool_eqb_true a b : bool_eqb a b = true <-> a = b.
Proof. destruct a, b; cbn; split; congruence. Qed.

(* what "addressed to this endpoint" means, as a proposition *)
Definition addressed (cfg : lcfg) (h : header) (broadcast : option bcast_mode) : Prop :=
  (broadcast = None /\
   (h_dest h = AEndpoint (l_addr cfg) \/ (h_dest h = ASelf /\ l_self cfg = true))) \/
  (exists m, broadcast = Some m /\ h_dest h = ABroadcast m /\ l_type cfg = Outstation /\
             is_user_data (c_func (h_control h)) = true).

Lemma link_filter_spec cfg h source broadcast :
  link_filter cfg h = Some (source, broadcast) <->
  c_master (h_control h) = negb (dir_bit (l_type cfg)) /\
  h_src h = AEndpoint source /\ addressed cfg h broadcast.
Proof.
  unfold link_filter, addressed, dest_class. split.
  - destruct (bool_eqb (c_master (h_control h)) (dir_bit (l_type cfg))) eqn:Edir; [discriminate|].
    apply (proj1 (bool_eqb_false _ _)) in Edir. intro H.
    destruct (h_src h) as [x|s|m|]; try discriminate.
    destruct (h_dest h) as [x|x|m|]; try discriminate.
    + destruct (x =? l_addr cfg) eqn:Ex; [|discriminate]. apply N.eqb_eq in Ex. subst x.
      inversion H; subst. split; [assumption|]. split; [reflexivity|]. left. auto.
    + destruct (l_type cfg) eqn:Et; [discriminate|].
      destruct (is_user_data (c_func (h_control h))) eqn:Eu; [|discriminate].
      cbn [negb] in H. inversion H; subst. split; [assumption|]. split; [reflexivity|].
      right. exists m. auto.
    + destruct (l_self cfg) eqn:Es; [|discriminate]. inversion H; subst.
      split; [assumption|]. split; [reflexivity|]. left. auto.
  - intros (Hdir & Hsrc & Ha). apply (proj2 (bool_eqb_false _ _)) in Hdir. rewrite Hdir, Hsrc.
    destruct Ha as [(-> & [Hd|(Hd & Hs)])|(m & -> & Hd & Ht & Hu)]; rewrite Hd.
    + rewrite N.eqb_refl. reflexivity.
    + rewrite Hs. reflexivity.
    + rewrite Ht, Hu. reflexivity.
Qed.

(* what dispatch can return *)
Lemma dispatch_sources ss c source broadcast ss' info rp :
  dispatch ss c source broadcast = (ss', info, rp) ->
  (forall i, info = Some i -> fi_source i = source /\ fi_broadcast i = broadcast) /\
  (forall r, rp = Some r -> rp_addr r = source /\ (rp_func r = SecAck \/ rp_func r = SecLinkStatus)).
Proof.
  unfold dispatch, ack_unless_broadcast. intro H.
  destruct (c_func c); destruct (c_fcv c); cbn [negb] in H;
    try (destruct ss as [|e]; [|destruct (bool_eqb (c_fcb c) e)]);
    try (destruct broadcast as [m|]);
    inversion H; subst; split; intros x Hx; try discriminate; inversion Hx; subst; cbn; auto.
Qed.

Lemma dispatch_broadcast_no_reply ss c source m :
  is_user_data (c_func c) = true -> snd (dispatch ss c source (Some m)) = None.
Proof.
  unfold dispatch, ack_unless_broadcast. intro Hu.
  destruct (c_func c); try discriminate; destruct (c_fcv c); cbn [negb]; try reflexivity.
  destruct ss as [|e]; [reflexivity|]. destruct (bool_eqb (c_fcb c) e); reflexivity.
Qed.

Lemma dispatch_ignored_or ss c source broadcast :
  forall ss' info rp, dispatch ss c source broadcast = (ss', info, rp) ->
  ss' <> ss -> c_func c = PriResetLinkStates /\ c_fcv c = false /\ ss' = ResetS true \/
               (exists e, c_func c = PriConfirmedUserData /\ c_fcv c = true /\ ss = ResetS e /\
                          c_fcb c = e /\ ss' = ResetS (negb e) /\ info <> None).
Proof.
  unfold dispatch. intros ss' info rp H Hne.
  destruct (c_func c) eqn:Efn; destruct (c_fcv c) eqn:Efcv; cbn [negb] in H;
    try (inversion H; subst; congruence).
  - left. inversion H; subst. auto.
  - right. destruct ss as [|e]; [inversion H; subst; congruence|].
    destruct (bool_eqb (c_fcb c) e) eqn:Eb; [|inversion H; subst; congruence].
    apply (proj1 (bool_eqb_true _ _)) in Eb. inversion H; subst. exists (c_fcb c). repeat split; congruence.
Qed.

(* ---------- 1. the endpoint acts only on frames addressed to it ------------------------------- *)

Theorem acted_implies_addressed cfg ss h ss' info rp :
  process_header cfg ss h = (ss', info, rp) ->
  (info <> None \/ rp <> None \/ ss' <> ss) ->
  c_master (h_control h) <> dir_bit (l_type cfg) /\
  exists s, h_src h = AEndpoint s /\
    (h_dest h = AEndpoint (l_addr cfg) \/ (h_dest h = ASelf /\ l_self cfg = true) \/
     (exists m, h_dest h = ABroadcast m /\ l_type cfg = Outstation /\
                is_user_data (c_func (h_control h)) = true)) /\
    (forall i, info = Some i -> fi_source i = s) /\
    (forall r, rp = Some r -> rp_addr r = s).
Proof.
  rewrite process_header_eq. intros H Hact.
  destruct (link_filter cfg h) as [[s b]|] eqn:Ef.
  - apply link_filter_spec in Ef. destruct Ef as (Hdir & Hsrc & Ha).
    split; [rewrite Hdir; destruct (dir_bit (l_type cfg)); discriminate|].
    exists s. split; [exact Hsrc|]. split.
    + destruct Ha as [(_ & [Hd|Hd])|(m & _ & Hd)]; [left; exact Hd|right; left; exact Hd|].
      right; right. exists m. exact Hd.
    + destruct (dispatch_sources _ _ _ _ _ _ _ H) as [Hi Hr]. split.
      * intros i Ei. apply (Hi i Ei).
      * intros r Er. apply (Hr r Er).
  - inversion H; subst. destruct Hact as [Hx|[Hx|Hx]]; congruence.
Qed.

(* the converse direction for the filter: a frame that fails it leaves no trace at all *)
Theorem not_addressed_ignored cfg ss h :
  link_filter cfg h = None -> process_header cfg ss h = (ss, None, None).
Proof. intro H. rewrite process_header_eq, H. reflexivity. Qed.

Corollary same_direction_ignored cfg ss h :
  c_master (h_control h) = dir_bit (l_type cfg) -> process_header cfg ss h = (ss, None, None).
Proof.
  intro H. apply not_addressed_ignored. unfold link_filter.
  apply (proj2 (bool_eqb_true _ _)) in H. rewrite H. reflexivity.
Qed.

Corollary bad_source_ignored cfg ss h :
  (forall s, h_src h <> AEndpoint s) -> process_header cfg ss h = (ss, None, None).
Proof.
  intro H. apply not_addressed_ignored. unfold link_filter.
  destruct (bool_eqb _ _); [reflexivity|]. destruct (h_src h) as [x|s|m|]; try reflexivity.
  exfalso. apply (H s). reflexivity.
Qed.

Corollary other_destination_ignored cfg ss h x :
  h_dest h = AEndpoint x -> x <> l_addr cfg -> process_header cfg ss h = (ss, None, None).
Proof.
  intros Hd Hx. apply not_addressed_ignored. unfold link_filter, dest_class. rewrite Hd.
  apply N.eqb_neq in Hx. rewrite Hx. destruct (bool_eqb _ _); [reflexivity|]. destruct (h_src h); reflexivity.
Qed.

Corollary reserved_destination_ignored cfg ss h x :
  h_dest h = AReserved x -> process_header cfg ss h = (ss, None, None).
Proof.
  intros Hd. apply not_addressed_ignored. unfold link_filter, dest_class. rewrite Hd.
  destruct (bool_eqb _ _); [reflexivity|]. destruct (h_src h); reflexivity.
Qed.

Corollary self_address_disabled_ignored cfg ss h :
  h_dest h = ASelf -> l_self cfg = false -> process_header cfg ss h = (ss, None, None).
Proof.
  intros Hd Hs. apply not_addressed_ignored. unfold link_filter, dest_class. rewrite Hd, Hs.
  destruct (bool_eqb _ _); [reflexivity|]. destruct (h_src h); reflexivity.
Qed.

(* ---------- 2. broadcasts ---------------------------------------------------------------------- *)

Theorem no_reply_to_broadcast cfg ss h m :
  h_dest h = ABroadcast m -> snd (process_header cfg ss h) = None.
Proof.
  intro Hd. rewrite process_header_eq.
  destruct (link_filter cfg h) as [[s b]|] eqn:Ef; [|reflexivity].
  apply link_filter_spec in Ef. destruct Ef as (_ & _ & Ha).
  destruct Ha as [(_ & [Hx|(Hx & _)])|(m' & -> & _ & _ & Hu)]; try congruence.
  apply dispatch_broadcast_no_reply. exact Hu.
Qed.

Theorem master_ignores_broadcast cfg ss h m :
  l_type cfg = Master -> h_dest h = ABroadcast m -> process_header cfg ss h = (ss, None, None).
Proof.
  intros Ht Hd. apply not_addressed_ignored. unfold link_filter, dest_class. rewrite Hd, Ht.
  destruct (bool_eqb _ _); [reflexivity|]. destruct (h_src h); reflexivity.
Qed.

(* a broadcast that is not user data is ignored altogether (outstation as well) *)
Theorem broadcast_non_user_data_ignored cfg ss h m :
  h_dest h = ABroadcast m -> is_user_data (c_func (h_control h)) = false ->
  process_header cfg ss h = (ss, None, None).
Proof.
  intros Hd Hu. apply not_addressed_ignored. unfold link_filter, dest_class. rewrite Hd, Hu.
  destruct (bool_eqb _ _); [reflexivity|]. destruct (h_src h); try reflexivity.
  destruct (l_type cfg); reflexivity.
Qed.

Definition is_tx (o : lobs) : bool := match o with LTx _ => true | _ => false end.

Definition broadcast_frame (o : robs) : Prop :=
  match o with OFrame h _ => exists m, h_dest h = ABroadcast m | _ => False end.

Lemma layer_obs_frame_cons cfg ss h p rest :
  layer_obs cfg ss (OFrame h p :: rest) =
  (match snd (process_header cfg ss h) with Some r => [LTx (reply_bytes cfg r)] | None => [] end)
  ++ (match snd (fst (process_header cfg ss h)) with Some i => [LInfo i p] | None => [] end)
  ++ layer_obs cfg (fst (fst (process_header cfg ss h))) rest.
Proof. cbn [layer_obs]. destruct (process_header cfg ss h) as [[ss' info] rp]. reflexivity. Qed.

Theorem broadcast_trace_no_tx cfg : forall obs ss,
  Forall broadcast_frame obs -> forall o, In o (layer_obs cfg ss obs) -> is_tx o = false.
Proof.
  induction obs as [|x obs IH]; intros ss Hall o Hin; [destruct Hin|].
  inversion Hall as [|? ? Hx Hrest]; subst.
  destruct x as [h p|e| |]; cbn [broadcast_frame] in Hx; try contradiction.
  destruct Hx as [m Hm]. rewrite layer_obs_frame_cons in Hin.
  rewrite (no_reply_to_broadcast cfg ss h m Hm) in Hin. cbn [app] in Hin.
  apply in_app_or in Hin. destruct Hin as [Hin|Hin].
  - destruct (snd (fst (process_header cfg ss h))); [|destruct Hin].
    destruct Hin as [<-|[]]. reflexivity.
  - exact (IH _ Hrest o Hin).
Qed.

(* ---------- 3. link status requests are always answered ----------------------------------------- *)

Theorem link_status_answered cfg ss h s :
  (h_dest h = AEndpoint (l_addr cfg) \/ (h_dest h = ASelf /\ l_self cfg = true)) ->
  c_master (h_control h) = negb (dir_bit (l_type cfg)) ->
  h_src h = AEndpoint s ->
  c_func (h_control h) = PriRequestLinkStatus -> c_fcv (h_control h) = false ->
  process_header cfg ss h =
    (ss, Some (mk_info s None FLinkStatusRequest), Some {| rp_addr := s; rp_func := SecLinkStatus |}).
Proof.
  intros Hd Hdir Hsrc Hf Hv. rewrite process_header_eq.
  assert (Ef : link_filter cfg h = Some (s, None)).
  { apply link_filter_spec. split; [exact Hdir|]. split; [exact Hsrc|]. left. auto. }
  rewrite Ef. unfold dispatch. rewrite Hf, Hv. reflexivity.
Qed.

(* ---------- the reply on the wire -------------------------------------------------------------- *)

(* the fixed-size formatter (CRC over all eight bytes) and the frame formatter (CRC continued
   from the constant CRC_OF_0564) produce the same ten bytes *)
Lemma format_header_fixed_size_eq h : format_header_fixed_size h = format_frame h [].
Proof.
  unfold format_header_fixed_size, format_frame, format_header, format_body, crc_le.
  cbn [length N.of_nat chunks chunks_fuel map concat app].
  change (0 + c_min_header_length_value) with c_min_header_length_value.
  rewrite (calc_crc_with_0564_eq (header_fields c_min_header_length_value h)).
  reflexivity.
Qed.

Lemma address_from_endpoint x : x < 65520 -> address_from x = AEndpoint x.
Proof.
  intro Hx. unfold address_from.
  change c_broadcast_confirm_optional with 65535. change c_broadcast_confirm_mandatory with 65534.
  change c_broadcast_confirm_not_required with 65533. change c_self_address with 65532.
  change c_reserved_start with 65520.
  destruct (x =? 65535) eqn:E1; [apply N.eqb_eq in E1; lia|].
  destruct (x =? 65534) eqn:E2; [apply N.eqb_eq in E2; lia|].
  destruct (x =? 65533) eqn:E3; [apply N.eqb_eq in E3; lia|].
  destruct (x =? 65532) eqn:E4; [apply N.eqb_eq in E4; lia|].
  destruct (65520 <=? x) eqn:E5; [apply N.leb_le in E5; lia|]. reflexivity.
Qed.

Lemma address_from_endpoint_inv x y : address_from x = AEndpoint y -> x = y /\ y < 65520.
Proof.
  unfold address_from.
  change c_reserved_start with 65520.
  destruct (x =? c_broadcast_confirm_optional); [discriminate|].
  destruct (x =? c_broadcast_confirm_mandatory); [discriminate|].
  destruct (x =? c_broadcast_confirm_not_required); [discriminate|].
  destruct (x =? c_self_address); [discriminate|].
  destruct (65520 <=? x) eqn:E5; [discriminate|]. apply N.leb_gt in E5.
  intro H. inversion H; subst. auto.
Qed.

(* the function codes the library knows *)
Definition known_func (f : lfunc) : Prop := match f with FUnknown _ => False | _ => True end.

Lemma control_from_to c : known_func (c_func c) -> control_from (control_to c) = c.
Proof.
  destruct c as [f m fb fv]. cbn [c_func known_func].
  destruct f; intro H; try contradiction; destruct m, fb, fv; reflexivity.
Qed.

Lemma control_to_known_bound c : known_func (c_func c) -> control_to c < 256.
Proof.
  destruct c as [f m fb fv]. cbn [c_func known_func].
  destruct f; intro H; try contradiction; destruct m, fb, fv; reflexivity.
Qed.

Definition reply_header (cfg : lcfg) (r : reply) : header :=
  {| h_control := {| c_func := rp_func r; c_master := dir_bit (l_type cfg); c_fcb := false; c_fcv := false |};
     h_dest := AEndpoint (rp_addr r); h_src := AEndpoint (l_addr cfg) |}.

Theorem reply_bytes_parse cfg s f rest :
  s < 65520 -> l_addr cfg < 65520 -> known_func f ->
  parse_impl FindSync1 (reply_bytes cfg {| rp_addr := s; rp_func := f |} ++ rest) =
  (FindSync1, rest,
   PFrame {| h_control := {| c_func := f; c_master := dir_bit (l_type cfg); c_fcb := false; c_fcv := false |};
             h_dest := AEndpoint s; h_src := AEndpoint (l_addr cfg) |} []).
Proof.
  intros Hs Ha Hf. unfold reply_bytes. cbn [rp_addr rp_func].
  set (c := {| c_func := f; c_master := dir_bit (l_type cfg); c_fcb := false; c_fcv := false |}).
  assert (Hh : {| h_control := c; h_dest := AEndpoint s; h_src := AEndpoint (l_addr cfg) |}
               = mk_header (control_to c) s (l_addr cfg)).
  { unfold mk_header. rewrite control_from_to by exact Hf.
    rewrite !address_from_endpoint by assumption. reflexivity. }
  rewrite Hh, format_header_fixed_size_eq.
  apply frame_round_trip.
  - unfold header_ok. split; [apply control_to_known_bound; exact Hf|]. lia.
  - constructor.
  - cbn [length]. lia.
Qed.

(* the two replies the layer ever sends *)
Corollary ack_bytes_parse cfg s rest :
  s < 65520 -> l_addr cfg < 65520 ->
  parse_impl FindSync1 (reply_bytes cfg {| rp_addr := s; rp_func := SecAck |} ++ rest) =
  (FindSync1, rest,
   PFrame {| h_control := {| c_func := SecAck; c_master := dir_bit (l_type cfg); c_fcb := false; c_fcv := false |};
             h_dest := AEndpoint s; h_src := AEndpoint (l_addr cfg) |} []).
Proof. intros Hs Ha. apply reply_bytes_parse; [assumption|assumption|exact I]. Qed.

Corollary link_status_bytes_parse cfg s rest :
  s < 65520 -> l_addr cfg < 65520 ->
  parse_impl FindSync1 (reply_bytes cfg {| rp_addr := s; rp_func := SecLinkStatus |} ++ rest) =
  (FindSync1, rest,
   PFrame {| h_control := {| c_func := SecLinkStatus; c_master := dir_bit (l_type cfg); c_fcb := false; c_fcv := false |};
             h_dest := AEndpoint s; h_src := AEndpoint (l_addr cfg) |} []).
Proof. intros Hs Ha. apply reply_bytes_parse; [assumption|assumption|exact I]. Qed.

(* a reply is never acted upon by an endpoint of the same type, and when the peer (the opposite
   type, address s) receives it, it is addressed to that peer *)
Theorem reply_header_ignored_by_same_type cfg cfg' ss r :
  l_type cfg' = l_type cfg -> process_header cfg' ss (reply_header cfg r) = (ss, None, None).
Proof. intro Ht. apply same_direction_ignored. rewrite Ht. reflexivity. Qed.

(* ---------- 4. confirmed user data: once per frame-count-bit toggle ------------------------------ *)

Definition next_state (cfg : lcfg) (ss : sec_state) (h : header) : sec_state :=
  fst (fst (process_header cfg ss h)).

(* the secondary state after a sequence of headers *)
Fixpoint run_sec (cfg : lcfg) (ss : sec_state) (hs : list header) : sec_state :=
  match hs with
  | [] => ss
  | h :: hs' => run_sec cfg (next_state cfg ss h) hs'
  end.

Definition oframe (f : header * list N) : robs := OFrame (fst f) (snd f).

Lemma layer_obs_frames_app cfg : forall fs1 ss fs2,
  layer_obs cfg ss (map oframe (fs1 ++ fs2)) =
  layer_obs cfg ss (map oframe fs1) ++ layer_obs cfg (run_sec cfg ss (map fst fs1)) (map oframe fs2).
Proof.
  induction fs1 as [|[h p] fs1 IH]; intros ss fs2; [reflexivity|].
  cbn [map app fst run_sec]. change (oframe (h, p)) with (OFrame h p).
  rewrite !layer_obs_frame_cons, IH. unfold next_state. rewrite !app_assoc. reflexivity.
Qed.

(* "accepted": passes the direction / source / destination filter *)
Definition accepted (cfg : lcfg) (h : header) (s : N) (b : option bcast_mode) : Prop :=
  link_filter cfg h = Some (s, b).

(* (a) before a reset, confirmed user data is neither delivered nor acknowledged *)
Theorem confirmed_not_reset_ignored cfg h :
  c_func (h_control h) = PriConfirmedUserData ->
  process_header cfg NotReset h = (NotReset, None, None).
Proof.
  intro Hf. rewrite process_header_eq. destruct (link_filter cfg h) as [[s b]|]; [|reflexivity].
  unfold dispatch. rewrite Hf. destruct (negb (c_fcv (h_control h))); reflexivity.
Qed.

(* the only way out of NotReset is an accepted PriResetLinkStates with FCV = 0 *)
Theorem not_reset_persists cfg h ss' info rp :
  process_header cfg NotReset h = (ss', info, rp) -> ss' <> NotReset ->
  c_func (h_control h) = PriResetLinkStates /\ c_fcv (h_control h) = false /\ ss' = ResetS true /\
  info = None /\ exists s, accepted cfg h s None /\ rp = Some {| rp_addr := s; rp_func := SecAck |}.
Proof.
  rewrite process_header_eq. unfold accepted. intros H Hne.
  destruct (link_filter cfg h) as [[s b]|] eqn:Ef; [|inversion H; subst; congruence].
  destruct (dispatch_ignored_or _ _ _ _ _ _ _ H Hne) as [(Hf & Hv & Hs)|(e & _ & _ & Hx & _)];
    [|discriminate].
  unfold dispatch in H. rewrite Hf, Hv in H. inversion H; subst.
  split; [exact Hf|]. split; [exact Hv|]. split; [reflexivity|]. split; [reflexivity|].
  exists s. split; [|reflexivity].
  (* a reset is never accepted by broadcast *)
  destruct b as [m|]; [|reflexivity]. exfalso.
  apply link_filter_spec in Ef. destruct Ef as (_ & _ & [(Hb & _)|(m' & _ & _ & _ & Hu)]); [discriminate|].
  rewrite Hf in Hu. discriminate.
Qed.

(* (b) an accepted reset (FCV = 0) always leaves the state ResetS true and is acknowledged *)
Theorem reset_link_states_accepted cfg ss h s b :
  accepted cfg h s b -> c_func (h_control h) = PriResetLinkStates -> c_fcv (h_control h) = false ->
  b = None /\
  process_header cfg ss h = (ResetS true, None, Some {| rp_addr := s; rp_func := SecAck |}).
Proof.
  unfold accepted. intros Ef Hf Hv. split.
  - destruct b as [m|]; [|reflexivity]. exfalso.
    apply link_filter_spec in Ef. destruct Ef as (_ & _ & [(Hb & _)|(m' & _ & _ & _ & Hu)]); [discriminate|].
    rewrite Hf in Hu. discriminate.
  - rewrite process_header_eq, Ef. unfold dispatch. rewrite Hf, Hv. reflexivity.
Qed.

(* (c) in state ResetS e *)
Theorem confirmed_matching_fcb cfg e h s b :
  accepted cfg h s b -> c_func (h_control h) = PriConfirmedUserData -> c_fcv (h_control h) = true ->
  c_fcb (h_control h) = e ->
  process_header cfg (ResetS e) h =
    (ResetS (negb e), Some (mk_info s b FData), ack_unless_broadcast s b).
Proof.
  unfold accepted. intros Ef Hf Hv Hb. rewrite process_header_eq, Ef. unfold dispatch.
  rewrite Hf, Hv, Hb. cbn [negb]. replace (bool_eqb e e) with true by (destruct e; reflexivity).
  reflexivity.
Qed.

Theorem confirmed_wrong_fcb cfg e h s b :
  accepted cfg h s b -> c_func (h_control h) = PriConfirmedUserData -> c_fcv (h_control h) = true ->
  c_fcb (h_control h) = negb e ->
  process_header cfg (ResetS e) h = (ResetS e, None, ack_unless_broadcast s b).
Proof.
  unfold accepted. intros Ef Hf Hv Hb. rewrite process_header_eq, Ef. unfold dispatch.
  rewrite Hf, Hv, Hb. cbn [negb]. replace (bool_eqb (negb e) e) with false by (destruct e; reflexivity).
  reflexivity.
Qed.

(* a confirmed frame is delivered only in state ResetS (its FCB), FCV set; in particular right
   after a reset (state ResetS true) exactly the frames with FCB = 1 are delivered *)
Theorem confirmed_delivered_iff cfg ss h :
  c_func (h_control h) = PriConfirmedUserData ->
  (snd (fst (process_header cfg ss h)) <> None <->
   (exists s b, accepted cfg h s b) /\ c_fcv (h_control h) = true /\ ss = ResetS (c_fcb (h_control h))).
Proof.
  intro Hf. rewrite process_header_eq. unfold accepted. split.
  - destruct (link_filter cfg h) as [[s b]|] eqn:Ef; [|cbn; congruence].
    unfold dispatch. rewrite Hf. destruct (c_fcv (h_control h)); cbn [negb]; [|cbn; congruence].
    destruct ss as [|e]; [cbn; congruence|].
    destruct (bool_eqb (c_fcb (h_control h)) e) eqn:Eb; [|cbn; congruence].
    apply (proj1 (bool_eqb_true _ _)) in Eb. subst e. intros _. eauto.
  - intros ((s & b & Ef) & Hv & ->). rewrite Ef. unfold dispatch. rewrite Hf, Hv. cbn [negb].
    replace (bool_eqb (c_fcb (h_control h)) (c_fcb (h_control h))) with true
      by (destruct (c_fcb (h_control h)); reflexivity).
    cbn. discriminate.
Qed.

Corollary first_confirmed_after_reset_has_fcb_1 cfg h :
  c_func (h_control h) = PriConfirmedUserData ->
  snd (fst (process_header cfg (ResetS true) h)) <> None -> c_fcb (h_control h) = true.
Proof.
  intros Hf Hd. apply (confirmed_delivered_iff cfg (ResetS true) h Hf) in Hd.
  destruct Hd as (_ & _ & Hs). inversion Hs. reflexivity.
Qed.

(* a retransmission (the same header again, immediately) is acknowledged again but not delivered
   again *)
Theorem retransmission_not_delivered cfg ss h ss' i rp :
  c_func (h_control h) = PriConfirmedUserData ->
  process_header cfg ss h = (ss', Some i, rp) ->
  process_header cfg ss' h = (ss', None, rp).
Proof.
  intros Hf. rewrite !process_header_eq.
  destruct (link_filter cfg h) as [[s b]|] eqn:Ef; [|discriminate].
  unfold dispatch. rewrite Hf. destruct (c_fcv (h_control h)); cbn [negb]; [|discriminate].
  destruct ss as [|e]; [discriminate|].
  destruct (bool_eqb (c_fcb (h_control h)) e) eqn:Eb; [|discriminate].
  intro H. inversion H; subst.
  apply (proj1 (bool_eqb_true _ _)) in Eb. rewrite Eb.
  replace (bool_eqb e (negb e)) with false by (destruct e; reflexivity). reflexivity.
Qed.

(* (d) the trace of resets and delivered confirmed frames *)
Definition conf_event (cfg : lcfg) (ss : sec_state) (h : header) : option (option bool) :=
  match c_func (h_control h) with
  | PriResetLinkStates =>
      match snd (process_header cfg ss h) with Some _ => Some None | None => None end
  | PriConfirmedUserData =>
      match snd (fst (process_header cfg ss h)) with
      | Some _ => Some (Some (c_fcb (h_control h))) | None => None end
  | _ => None
  end.

Fixpoint conf_trace (cfg : lcfg) (ss : sec_state) (hs : list header) : list (option bool) :=
  match hs with
  | [] => []
  | h :: hs' =>
      (match conf_event cfg ss h with Some ev => [ev] | None => [] end)
      ++ conf_trace cfg (next_state cfg ss h) hs'
  end.

Fixpoint wf_from (ss : sec_state) (l : list (option bool)) : Prop :=
  match l with
  | [] => True
  | None :: l' => wf_from (ResetS true) l'
  | Some b :: l' =>
      match ss with
      | NotReset => False
      | ResetS e => b = e /\ wf_from (ResetS (negb e)) l'
      end
  end.

Lemma conf_event_step cfg ss h :
  match conf_event cfg ss h with
  | None => next_state cfg ss h = ss
  | Some None => next_state cfg ss h = ResetS true
  | Some (Some b) => ss = ResetS b /\ next_state cfg ss h = ResetS (negb b)
  end.
Proof.
  unfold conf_event, next_state. rewrite process_header_eq.
  destruct (link_filter cfg h) as [[s bc]|] eqn:Ef.
  2:{ destruct (c_func (h_control h)); reflexivity. }
  unfold dispatch, ack_unless_broadcast.
  destruct (c_func (h_control h)); destruct (c_fcv (h_control h)); cbn [negb fst snd]; try reflexivity.
  destruct ss as [|e]; [reflexivity|].
  destruct (bool_eqb (c_fcb (h_control h)) e) eqn:Eb; cbn [fst snd]; [|reflexivity].
  apply (proj1 (bool_eqb_true _ _)) in Eb. subst e. split; reflexivity.
Qed.

Theorem conf_trace_wf cfg : forall hs ss, wf_from ss (conf_trace cfg ss hs).
Proof.
  induction hs as [|h hs IH]; intro ss; [exact I|].
  cbn [conf_trace]. pose proof (conf_event_step cfg ss h) as Hstep.
  destruct (conf_event cfg ss h) as [[b|]|]; cbn [app wf_from].
  - destruct Hstep as [-> Hn]. split; [reflexivity|]. rewrite Hn. apply IH.
  - rewrite Hstep. apply IH.
  - rewrite Hstep. apply IH.
Qed.

(* two delivered confirmed frames with no reset in between carry different FCBs *)
Theorem wf_from_adjacent : forall l1 ss a b l2,
  wf_from ss (l1 ++ Some a :: Some b :: l2) -> b = negb a.
Proof.
  induction l1 as [|x l1 IH]; intros ss a b l2 H.
  - cbn [app wf_from] in H. destruct ss as [|e]; [contradiction|].
    destruct H as (-> & -> & _). reflexivity.
  - cbn [app wf_from] in H. destruct x as [y|].
    + destruct ss as [|e]; [contradiction|]. destruct H as [_ H]. exact (IH _ _ _ _ H).
    + exact (IH _ _ _ _ H).
Qed.

(* the first delivered confirmed frame after a reset has FCB = 1 *)
Theorem wf_from_after_reset : forall l1 ss b l2,
  wf_from ss (l1 ++ None :: Some b :: l2) -> b = true.
Proof.
  induction l1 as [|x l1 IH]; intros ss b l2 H.
  - cbn [app wf_from] in H. destruct H as [-> _]. reflexivity.
  - cbn [app wf_from] in H. destruct x as [y|].
    + destruct ss as [|e]; [contradiction|]. destruct H as [_ H]. exact (IH _ _ _ H).
    + exact (IH _ _ _ H).
Qed.

Corollary confirmed_data_once_per_fcb cfg ss hs l1 a b l2 :
  conf_trace cfg ss hs = l1 ++ Some a :: Some b :: l2 -> b = negb a.
Proof. intro E. apply (wf_from_adjacent l1 ss a b l2). rewrite <- E. apply conf_trace_wf. Qed.

Corollary confirmed_data_after_reset_fcb_1 cfg ss hs l1 b l2 :
  conf_trace cfg ss hs = l1 ++ None :: Some b :: l2 -> b = true.
Proof. intro E. apply (wf_from_after_reset l1 ss b l2). rewrite <- E. apply conf_trace_wf. Qed.

(* starting from power-up (NotReset) nothing confirmed is delivered before the first reset *)
Corollary confirmed_data_needs_reset cfg hs b l :
  conf_trace cfg NotReset hs <> Some b :: l.
Proof. intro E. pose proof (conf_trace_wf cfg hs NotReset) as H. rewrite E in H. exact H. Qed.

(* the trace of events and what the layer hands up: every Some in conf_trace is one LInfo ... FData
   observation of layer_obs and (when no unconfirmed user data is in the run) vice versa *)
Definition is_data_info (o : lobs) : bool :=
  match o with LInfo i _ => match fi_type i with FData => true | _ => false end | _ => false end.

Definition is_delivery (ev : option bool) : bool := match ev with Some _ => true | None => false end.

Lemma step_data_count cfg ss h p : c_func (h_control h) <> PriUnconfirmedUserData ->
  length (filter is_data_info
    ((match snd (process_header cfg ss h) with Some r => [LTx (reply_bytes cfg r)] | None => [] end)
     ++ (match snd (fst (process_header cfg ss h)) with Some i => [LInfo i p] | None => [] end))) =
  length (filter is_delivery (match conf_event cfg ss h with Some ev => [ev] | None => [] end)).
Proof.
  intro Hf. unfold conf_event. rewrite process_header_eq.
  destruct (link_filter cfg h) as [[s bc]|] eqn:Ef.
  2:{ destruct (c_func (h_control h)); reflexivity. }
  unfold dispatch, ack_unless_broadcast.
  destruct (c_func (h_control h)); try congruence;
    destruct (c_fcv (h_control h)); cbn [negb fst snd]; try reflexivity.
  destruct ss as [|e]; [reflexivity|].
  destruct (bool_eqb (c_fcb (h_control h)) e); destruct bc; reflexivity.
Qed.

Lemma filter_app_length {A} (f : A -> bool) (a b : list A) :
  length (filter f (a ++ b)) = (length (filter f a) + length (filter f b))%nat.
Proof. rewrite filter_app, app_length. reflexivity. Qed.

Theorem delivered_confirmed_are_infos cfg : forall frames ss,
  Forall (fun f => c_func (h_control (fst f)) <> PriUnconfirmedUserData) frames ->
  length (filter is_data_info (layer_obs cfg ss (map oframe frames))) =
  length (filter is_delivery (conf_trace cfg ss (map fst frames))).
Proof.
  induction frames as [|[h p] frames IH]; intros ss Hall; [reflexivity|].
  inversion Hall as [|? ? Hh Hrest]; subst. cbn [fst] in Hh.
  cbn [map fst conf_trace]. change (oframe (h, p)) with (OFrame h p).
  rewrite layer_obs_frame_cons, app_assoc.
  rewrite (filter_app_length is_data_info (_ ++ _) (layer_obs _ _ _)).
  rewrite (filter_app_length is_delivery _ (conf_trace _ _ _)).
  rewrite (step_data_count cfg ss h p Hh). f_equal.
  apply IH. exact Hrest.
Qed.

(* ---------- 5. which of the 256 control bytes an endpoint can act on ----------------------------- *)

Definition acts (x : sec_state * option frame_info * option reply) : bool :=
  match x with (_, None, None) => false | _ => true end.

Lemma acts_dispatch_source ss c s s' bc : acts (dispatch ss c s bc) = acts (dispatch ss c s' bc).
Proof.
  unfold dispatch, ack_unless_broadcast.
  destruct (c_func c); destruct (c_fcv c); cbn [negb]; try reflexivity.
  destruct ss as [|e]; [reflexivity|]. destruct (bool_eqb (c_fcb c) e); destruct bc; reflexivity.
Qed.

(* whether a frame that is addressed to the endpoint is acted upon depends only on the endpoint
   type, the secondary state, the control byte and the broadcast/unicast distinction *)
Lemma acts_unicast_indep cfg ss h s :
  h_src h = AEndpoint s ->
  (h_dest h = AEndpoint (l_addr cfg) \/ (h_dest h = ASelf /\ l_self cfg = true)) ->
  acts (process_header cfg ss h) =
  acts (process_header {| l_type := l_type cfg; l_self := false; l_addr := 1 |} ss
          {| h_control := h_control h; h_dest := AEndpoint 1; h_src := AEndpoint 2 |}).
Proof.
  intros Hs Hd. rewrite !process_header_eq. unfold link_filter at 2. cbn [h_control h_src h_dest l_type dest_class l_addr].
  change (1 =? 1) with true. cbv iota.
  destruct (bool_eqb (c_master (h_control h)) (dir_bit (l_type cfg))) eqn:Edir.
  - unfold link_filter. rewrite Edir. reflexivity.
  - assert (Ef : link_filter cfg h = Some (s, None)).
    { apply link_filter_spec. split; [apply bool_eqb_false; exact Edir|]. split; [exact Hs|]. left. auto. }
    rewrite Ef. apply acts_dispatch_source.
Qed.

Lemma acts_broadcast_indep cfg ss h s m :
  h_src h = AEndpoint s -> h_dest h = ABroadcast m ->
  acts (process_header cfg ss h) =
  acts (process_header {| l_type := l_type cfg; l_self := false; l_addr := 1 |} ss
          {| h_control := h_control h; h_dest := ABroadcast BOptional; h_src := AEndpoint 2 |}).
Proof.
  intros Hs Hd. rewrite !process_header_eq. unfold link_filter, dest_class.
  cbn [h_control h_src h_dest l_type]. rewrite Hs, Hd.
  destruct (bool_eqb (c_master (h_control h)) (dir_bit (l_type cfg))); [reflexivity|].
  destruct (l_type cfg); [reflexivity|].
  destruct (negb (is_user_data (c_func (h_control h)))); [reflexivity|].
  unfold dispatch, ack_unless_broadcast.
  destruct (c_func (h_control h)); destruct (c_fcv (h_control h)); cbn [negb]; try reflexivity.
  destruct ss as [|e]; [reflexivity|]. destruct (bool_eqb (c_fcb (h_control h)) e); reflexivity.
Qed.

Definition mem (b : N) (l : list N) : bool := existsb (N.eqb b) l.

Definition cfg1 (t : endpoint_type) : lcfg := {| l_type := t; l_self := false; l_addr := 1 |}.

(* unicast, outstation: SEC link status (any FCB/DFC bits), reset link states (FCB ignored),
   unconfirmed data, request link status; confirmed data (FCV set) only after a reset *)
Lemma outstation_unicast_controls_check :
  forallb (fun b =>
    Bool.eqb (acts (process_header (cfg1 Outstation) NotReset (mk_header b 1 2)))
             (mem b [139; 155; 171; 187; 192; 196; 201; 224; 228; 233]) &&
    Bool.eqb (acts (process_header (cfg1 Outstation) (ResetS true) (mk_header b 1 2)))
             (mem b [139; 155; 171; 187; 192; 196; 201; 211; 224; 228; 233; 243]) &&
    Bool.eqb (acts (process_header (cfg1 Outstation) (ResetS false) (mk_header b 1 2)))
             (mem b [139; 155; 171; 187; 192; 196; 201; 211; 224; 228; 233; 243]))
    (nrange 256) = true.
Proof. vm_compute. reflexivity. Qed.

Lemma master_unicast_controls_check :
  forallb (fun b =>
    Bool.eqb (acts (process_header (cfg1 Master) NotReset (mk_header b 1 2)))
             (mem b [11; 27; 43; 59; 64; 68; 73; 96; 100; 105]) &&
    Bool.eqb (acts (process_header (cfg1 Master) (ResetS true) (mk_header b 1 2)))
             (mem b [11; 27; 43; 59; 64; 68; 73; 83; 96; 100; 105; 115]) &&
    Bool.eqb (acts (process_header (cfg1 Master) (ResetS false) (mk_header b 1 2)))
             (mem b [11; 27; 43; 59; 64; 68; 73; 83; 96; 100; 105; 115]))
    (nrange 256) = true.
Proof. vm_compute. reflexivity. Qed.

(* broadcast (65535; the other two modes behave alike, acts_broadcast_indep), outstation: user data only *)
Lemma outstation_broadcast_controls_check :
  forallb (fun b =>
    Bool.eqb (acts (process_header (cfg1 Outstation) NotReset (mk_header b 65535 2)))
             (mem b [196; 228]) &&
    Bool.eqb (acts (process_header (cfg1 Outstation) (ResetS true) (mk_header b 65535 2)))
             (mem b [196; 228; 243]) &&
    Bool.eqb (acts (process_header (cfg1 Outstation) (ResetS false) (mk_header b 65535 2)))
             (mem b [196; 211; 228]))
    (nrange 256) = true.
Proof. vm_compute. reflexivity. Qed.

(* the table, as a function *)
Definition acting_controls (t : endpoint_type) (broadcast : bool) (ss : sec_state) : list N :=
  match t, broadcast, ss with
  | Outstation, false, NotReset => [139; 155; 171; 187; 192; 196; 201; 224; 228; 233]
  | Outstation, false, ResetS _ => [139; 155; 171; 187; 192; 196; 201; 211; 224; 228; 233; 243]
  | Master, false, NotReset => [11; 27; 43; 59; 64; 68; 73; 96; 100; 105]
  | Master, false, ResetS _ => [11; 27; 43; 59; 64; 68; 73; 83; 96; 100; 105; 115]
  | Outstation, true, NotReset => [196; 228]
  | Outstation, true, ResetS true => [196; 228; 243]
  | Outstation, true, ResetS false => [196; 211; 228]
  | Master, true, _ => []
  end.

Theorem acting_controls_unicast cfg ss h s b :
  b < 256 -> h_control h = control_from b -> h_src h = AEndpoint s ->
  (h_dest h = AEndpoint (l_addr cfg) \/ (h_dest h = ASelf /\ l_self cfg = true)) ->
  acts (process_header cfg ss h) = mem b (acting_controls (l_type cfg) false ss).
Proof.
  intros Hb Hc Hs Hd. rewrite (acts_unicast_indep cfg ss h s Hs Hd), Hc.
  change {| h_control := control_from b; h_dest := AEndpoint 1; h_src := AEndpoint 2 |}
    with (mk_header b 1 2).
  destruct (l_type cfg).
  - pose proof (forallb_nrange _ 256 master_unicast_controls_check b Hb) as H. cbv beta in H.
    apply andb_true_iff in H. destruct H as [H H3]. apply andb_true_iff in H. destruct H as [H1 H2].
    apply Bool.eqb_prop in H1, H2, H3. destruct ss as [|[|]]; assumption.
  - pose proof (forallb_nrange _ 256 outstation_unicast_controls_check b Hb) as H. cbv beta in H.
    apply andb_true_iff in H. destruct H as [H H3]. apply andb_true_iff in H. destruct H as [H1 H2].
    apply Bool.eqb_prop in H1, H2, H3. destruct ss as [|[|]]; assumption.
Qed.

Theorem acting_controls_broadcast cfg ss h s m b :
  b < 256 -> h_control h = control_from b -> h_src h = AEndpoint s -> h_dest h = ABroadcast m ->
  acts (process_header cfg ss h) = mem b (acting_controls (l_type cfg) true ss).
Proof.
  intros Hb Hc Hs Hd. destruct (l_type cfg) eqn:Et.
  - rewrite (master_ignores_broadcast cfg ss h m Et Hd). reflexivity.
  - rewrite (acts_broadcast_indep cfg ss h s m Hs Hd), Hc, Et.
    change {| h_control := control_from b; h_dest := ABroadcast BOptional; h_src := AEndpoint 2 |}
      with (mk_header b 65535 2).
    pose proof (forallb_nrange _ 256 outstation_broadcast_controls_check b Hb) as H. cbv beta in H.
    apply andb_true_iff in H. destruct H as [H H3]. apply andb_true_iff in H. destruct H as [H1 H2].
    apply Bool.eqb_prop in H1, H2, H3. destruct ss as [|[|]]; assumption.
Qed.

(* ---------- extras -------------------------------------------------------------------------------- *)

(* without a reset-link-states frame the secondary station never leaves NotReset *)
Theorem not_reset_run cfg : forall hs,
  Forall (fun h => c_func (h_control h) <> PriResetLinkStates) hs -> run_sec cfg NotReset hs = NotReset.
Proof.
  induction hs as [|h hs IH]; intro Hall; [reflexivity|].
  inversion Hall as [|? ? Hh Hrest]; subst. cbn [run_sec].
  assert (E : next_state cfg NotReset h = NotReset).
  { unfold next_state. destruct (process_header cfg NotReset h) as [[ss' info] rp] eqn:Ep. cbn [fst].
    destruct ss' as [|e]; [reflexivity|]. exfalso.
    assert (Hne : ResetS e <> NotReset) by discriminate.
    destruct (not_reset_persists cfg h _ _ _ Ep Hne) as (Hf & _). exact (Hh Hf). }
  rewrite E. apply IH. exact Hrest.
Qed.

(* broadcast confirmed user data consumes the expected FCB although nothing is acknowledged *)
Theorem broadcast_confirmed_toggles_without_ack cfg h s m e :
  l_type cfg = Outstation -> c_master (h_control h) = true -> h_src h = AEndpoint s ->
  h_dest h = ABroadcast m -> c_func (h_control h) = PriConfirmedUserData ->
  c_fcv (h_control h) = true -> c_fcb (h_control h) = e ->
  process_header cfg (ResetS e) h = (ResetS (negb e), Some (mk_info s (Some m) FData), None).
Proof.
  intros Ht Hdir Hs Hd Hf Hv Hb.
  assert (Ha : accepted cfg h s (Some m)).
  { apply link_filter_spec. rewrite Ht. split; [exact Hdir|]. split; [exact Hs|]. right. exists m.
    rewrite Hf. auto. }
  exact (confirmed_matching_fcb cfg e h s (Some m) Ha Hf Hv Hb).
Qed.

(* control_from only looks at the low eight bits *)
Lemma land_land_255 x m : N.land 255 m = m -> N.land (x mod 256) m = N.land x m.
Proof.
  intro Hm. change 256 with (2 ^ 8). rewrite <- N.land_ones. change (N.ones 8) with 255.
  rewrite <- N.land_assoc, Hm. reflexivity.
Qed.

Lemma control_from_mod256 x : control_from (x mod 256) = control_from x.
Proof.
  unfold control_from, bit_set. rewrite !land_land_255 by reflexivity. reflexivity.
Qed.

Lemma control_to_bound c : control_from (control_to c) = c -> control_to c < 256.
Proof.
  intro H. rewrite <- control_from_mod256 in H.
  assert (Hm : control_to c mod 256 < 256) by (apply N.mod_upper_bound; discriminate).
  pose proof (control_round_trip _ Hm) as Hr. rewrite H in Hr. rewrite Hr. exact Hm.
Qed.

(* the reply control byte of a function code the library does not know (the layer never sends
   one; this is only to state reply_bytes_parse for every function with a code below 16) *)
Lemma unknown_reply_control_check :
  forallb (fun b => forallb (fun m =>
    (N.land (control_to {| c_func := FUnknown b; c_master := m; c_fcb := false; c_fcv := false |}) c_mask_func_or_prm =? b) &&
    Bool.eqb (bit_set (control_to {| c_func := FUnknown b; c_master := m; c_fcb := false; c_fcv := false |}) c_mask_dir) m &&
    negb (bit_set (control_to {| c_func := FUnknown b; c_master := m; c_fcb := false; c_fcv := false |}) c_mask_fcb) &&
    negb (bit_set (control_to {| c_func := FUnknown b; c_master := m; c_fcb := false; c_fcv := false |}) c_mask_fcv))
    [true; false]) (nrange 16) = true.
Proof. vm_compute. reflexivity. Qed.

(* the functions a reply could carry: code below 16 and decoded back to itself *)
Definition reply_func_ok (f : lfunc) : Prop := lfunc_to f < 16 /\ lfunc_from (lfunc_to f) = f.

Lemma reply_control_from_to f m : reply_func_ok f ->
  control_from (control_to {| c_func := f; c_master := m; c_fcb := false; c_fcv := false |})
  = {| c_func := f; c_master := m; c_fcb := false; c_fcv := false |}.
Proof.
  intros [Hlt Hrt]. destruct f as [| | | | | | | | |b]; try (apply control_from_to; exact I).
  cbn [lfunc_to] in Hlt, Hrt.
  pose proof (forallb_nrange _ 16 unknown_reply_control_check b Hlt) as H. cbv beta in H.
  rewrite forallb_forall in H.
  assert (Hin : In m [true; false]) by (destruct m; cbn; auto).
  specialize (H m Hin).
  apply andb_true_iff in H. destruct H as [H H4]. apply andb_true_iff in H. destruct H as [H H3].
  apply andb_true_iff in H. destruct H as [H1 H2].
  apply N.eqb_eq in H1. apply Bool.eqb_prop in H2. apply negb_true_iff in H3, H4.
  unfold control_from. rewrite H1, H2, H3, H4, Hrt. reflexivity.
Qed.

Theorem reply_bytes_parse_any cfg s f rest :
  s < 65520 -> l_addr cfg < 65520 -> reply_func_ok f ->
  parse_impl FindSync1 (reply_bytes cfg {| rp_addr := s; rp_func := f |} ++ rest) =
  (FindSync1, rest,
   PFrame {| h_control := {| c_func := f; c_master := dir_bit (l_type cfg); c_fcb := false; c_fcv := false |};
             h_dest := AEndpoint s; h_src := AEndpoint (l_addr cfg) |} []).
Proof.
  intros Hs Ha Hf. unfold reply_bytes. cbn [rp_addr rp_func].
  pose proof (reply_control_from_to f (dir_bit (l_type cfg)) Hf) as Hc.
  set (c := {| c_func := f; c_master := dir_bit (l_type cfg); c_fcb := false; c_fcv := false |}) in *.
  assert (Hh : {| h_control := c; h_dest := AEndpoint s; h_src := AEndpoint (l_addr cfg) |}
               = mk_header (control_to c) s (l_addr cfg)).
  { unfold mk_header. rewrite Hc. rewrite !address_from_endpoint by assumption. reflexivity. }
  rewrite Hh, format_header_fixed_size_eq.
  apply frame_round_trip.
  - unfold header_ok. split; [apply control_to_bound; exact Hc|]. lia.
  - constructor.
  - cbn [length]. lia.
Qed.

(* ---------- the same with the filter spelled out (for Properties/C07.v) --------------------------- *)

Lemma accepted_unicast cfg h s :
  (h_dest h = AEndpoint (l_addr cfg) \/ (h_dest h = ASelf /\ l_self cfg = true)) ->
  c_master (h_control h) = negb (dir_bit (l_type cfg)) -> h_src h = AEndpoint s ->
  accepted cfg h s None.
Proof. intros Hd Hdir Hs. apply link_filter_spec. split; [exact Hdir|]. split; [exact Hs|]. left. auto. Qed.

Lemma accepted_broadcast cfg h s m :
  l_type cfg = Outstation -> h_dest h = ABroadcast m -> c_master (h_control h) = true ->
  h_src h = AEndpoint s -> is_user_data (c_func (h_control h)) = true ->
  accepted cfg h s (Some m).
Proof.
  intros Ht Hd Hdir Hs Hu. apply link_filter_spec. rewrite Ht. split; [exact Hdir|]. split; [exact Hs|].
  right. exists m. auto.
Qed.

Theorem reset_link_states_unicast cfg ss h s :
  (h_dest h = AEndpoint (l_addr cfg) \/ (h_dest h = ASelf /\ l_self cfg = true)) ->
  c_master (h_control h) = negb (dir_bit (l_type cfg)) -> h_src h = AEndpoint s ->
  c_func (h_control h) = PriResetLinkStates -> c_fcv (h_control h) = false ->
  process_header cfg ss h = (ResetS true, None, Some {| rp_addr := s; rp_func := SecAck |}).
Proof.
  intros Hd Hdir Hs Hf Hv.
  exact (proj2 (reset_link_states_accepted cfg ss h s None (accepted_unicast cfg h s Hd Hdir Hs) Hf Hv)).
Qed.

Theorem confirmed_unicast cfg e h s :
  (h_dest h = AEndpoint (l_addr cfg) \/ (h_dest h = ASelf /\ l_self cfg = true)) ->
  c_master (h_control h) = negb (dir_bit (l_type cfg)) -> h_src h = AEndpoint s ->
  c_func (h_control h) = PriConfirmedUserData -> c_fcv (h_control h) = true ->
  process_header cfg (ResetS e) h =
    if bool_eqb (c_fcb (h_control h)) e
    then (ResetS (negb e), Some (mk_info s None FData), Some {| rp_addr := s; rp_func := SecAck |})
    else (ResetS e, None, Some {| rp_addr := s; rp_func := SecAck |}).
Proof.
  intros Hd Hdir Hs Hf Hv. pose proof (accepted_unicast cfg h s Hd Hdir Hs) as Ha.
  destruct (bool_eqb (c_fcb (h_control h)) e) eqn:Eb.
  - apply (proj1 (bool_eqb_true _ _)) in Eb. exact (confirmed_matching_fcb cfg e h s None Ha Hf Hv Eb).
  - apply (proj1 (bool_eqb_false _ _)) in Eb. exact (confirmed_wrong_fcb cfg e h s None Ha Hf Hv Eb).
Qed.

Theorem confirmed_broadcast cfg e h s m :
  l_type cfg = Outstation -> h_dest h = ABroadcast m -> c_master (h_control h) = true ->
  h_src h = AEndpoint s ->
  c_func (h_control h) = PriConfirmedUserData -> c_fcv (h_control h) = true ->
  process_header cfg (ResetS e) h =
    if bool_eqb (c_fcb (h_control h)) e
    then (ResetS (negb e), Some (mk_info s (Some m) FData), None)
    else (ResetS e, None, None).
Proof.
  intros Ht Hd Hdir Hs Hf Hv.
  assert (Ha : accepted cfg h s (Some m)) by (apply accepted_broadcast; try assumption; rewrite Hf; reflexivity).
  destruct (bool_eqb (c_fcb (h_control h)) e) eqn:Eb.
  - apply (proj1 (bool_eqb_true _ _)) in Eb. exact (confirmed_matching_fcb cfg e h s (Some m) Ha Hf Hv Eb).
  - apply (proj1 (bool_eqb_false _ _)) in Eb. exact (confirmed_wrong_fcb cfg e h s (Some m) Ha Hf Hv Eb).
Qed.
