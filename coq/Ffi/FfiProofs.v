(* Ffi/FfiProofs.v — C20: every conversion table generated from the binding crate obeys the
   namesake discipline.  Each theorem is a genuine `forall t, In t ffi_..._tables -> ...`; the
   domain is finite and completely enumerated from the source, so each is proved by evaluating a
   boolean checker over the generated lists (vm_compute) and reflecting it with forallb_forall. *)
From Coq Require Import String List Bool.
From Dnp3V Require Import Ffi.FfiModel gen.FfiTables.
Import ListNotations.
Open Scope string_scope.

(* ---------- reflection lemmas --------------------------------------------------------------- *)

Lemma mem_In s l : mem s l = true <-> In s l.
Proof.
  unfold mem. rewrite existsb_exists. split.
  - intros [x [Hin Heq]]. apply String.eqb_eq in Heq. subst. exact Hin.
  - intro Hin. exists s. split; [exact Hin | apply String.eqb_refl].
Qed.

Lemma mem_false_not_In s l : mem s l = false <-> ~ In s l.
Proof.
  split.
  - intros Hf Hin. apply mem_In in Hin. congruence.
  - intro Hn. destruct (mem s l) eqn:E; [|reflexivity]. apply mem_In in E. contradiction.
Qed.

Lemma pair_eqb_eq a b : pair_eqb a b = true <-> a = b.
Proof.
  unfold pair_eqb. rewrite andb_true_iff, !String.eqb_eq. destruct a, b; cbn [fst snd]. split.
  - intros [H1 H2]. subst. reflexivity.
  - intro H. inversion H. auto.
Qed.

Lemma pair_mem_In p l : pair_mem p l = true <-> In p l.
Proof.
  unfold pair_mem. rewrite existsb_exists. split.
  - intros [x [Hin Heq]]. apply pair_eqb_eq in Heq. subst. exact Hin.
  - intro Hin. exists p. split; [exact Hin | apply pair_eqb_eq; reflexivity].
Qed.

Lemma is_some_eq_true o d : is_some_eq o d = true <-> o = Some d.
Proof.
  destruct o as [x|]; cbn [is_some_eq].
  - rewrite String.eqb_eq. split; [intro; subst; reflexivity | intro H; inversion H; reflexivity].
  - split; intro H; discriminate H.
Qed.

Lemma nodupb_NoDup l : nodupb l = true -> NoDup l.
Proof.
  induction l as [|x r IH]; cbn [nodupb]; intro H.
  - constructor.
  - apply andb_true_iff in H. destruct H as [H1 H2]. constructor.
    + apply negb_true_iff in H1. apply mem_false_not_In. exact H1.
    + apply IH. exact H2.
Qed.

Lemma lookup_In k v l : lookup k l = Some v -> In (k, v) l.
Proof.
  induction l as [|[a b] r IH]; cbn [lookup]; intro H; [discriminate H|].
  destruct (String.eqb a k) eqn:E.
  - apply String.eqb_eq in E. inversion H. subst. left. reflexivity.
  - right. apply IH. exact H.
Qed.

Lemma find_table_sound l n t : find_table l n = Some t -> In t l /\ et_name t = n.
Proof.
  unfold find_table. intro H. apply find_some in H. destruct H as [H1 H2].
  apply String.eqb_eq in H2. auto.
Qed.

(* ---------- P1: enum arms map to their namesake, or to the pinned fallback ------------------ *)

Lemma arm_ok_spec t s d : arm_ok t (s, d) = true ->
  (In s (et_dst t) -> d = s) /\ (~ In s (et_dst t) -> lookup s (et_pinned t) = Some d).
Proof.
  unfold arm_ok. cbn [fst snd]. destruct (mem s (et_dst t)) eqn:E; intro H.
  - apply mem_In in E. split; [intros _; apply String.eqb_eq; exact H | intro Hn; contradiction].
  - apply mem_false_not_In in E. split; [intro Hi; contradiction | intros _; apply is_some_eq_true; exact H].
Qed.

Lemma enum_arms_check :
  forallb (fun t => forallb (fun a => arm_ok t a || pair_mem (et_name t, fst a) ffi_known_enum_deviations)
                            (et_arms t)) ffi_enum_tables = true.
Proof. vm_compute. reflexivity. Qed.

Theorem enum_maps_namesake : forall t s d,
  In t ffi_enum_tables -> In (s, d) (et_arms t) ->
  ~ In (et_name t, s) ffi_known_enum_deviations ->
  (In s (et_dst t) -> d = s) /\ (~ In s (et_dst t) -> lookup s (et_pinned t) = Some d).
Proof.
  intros t s d Ht Ha Hdev.
  pose proof enum_arms_check as H. rewrite forallb_forall in H. specialize (H t Ht). cbv beta in H.
  rewrite forallb_forall in H. specialize (H (s, d) Ha). cbv beta in H. cbn [fst] in H.
  apply orb_true_iff in H. destruct H as [H|H].
  - apply arm_ok_spec. exact H.
  - apply pair_mem_In in H. contradiction.
Qed.

(* the deviations that the statement above excludes are real and exactly located: each names an
   existing arm that breaks the rule (so the list cannot silently grow or go stale) *)
Lemma enum_deviations_check :
  forallb (fun p => match find_table ffi_enum_tables (fst p) with
                    | Some t => match lookup (snd p) (et_arms t) with
                                | Some d => negb (arm_ok t (snd p, d))
                                | None => false
                                end
                    | None => false
                    end) ffi_known_enum_deviations = true.
Proof. vm_compute. reflexivity. Qed.

Theorem enum_deviations_are_real : forall n s, In (n, s) ffi_known_enum_deviations ->
  exists t d, In t ffi_enum_tables /\ et_name t = n /\ In (s, d) (et_arms t) /\ arm_ok t (s, d) = false.
Proof.
  intros n s Hin. pose proof enum_deviations_check as H. rewrite forallb_forall in H.
  specialize (H (n, s) Hin). cbv beta in H. cbn [fst snd] in H.
  destruct (find_table ffi_enum_tables n) as [t|] eqn:Ef; [|discriminate H].
  destruct (lookup s (et_arms t)) as [d|] eqn:El; [|discriminate H].
  apply find_table_sound in Ef. destruct Ef as [Ht Hn]. apply lookup_In in El.
  exists t, d. repeat split; try assumption. apply negb_true_iff. exact H.
Qed.

(* ---------- arms speak about real variants --------------------------------------------------- *)

Lemma enum_wellformed_check : forallb arms_wellformed ffi_enum_tables = true.
Proof. vm_compute. reflexivity. Qed.

Theorem enum_arms_wellformed : forall t, In t ffi_enum_tables ->
  (forall s d, In (s, d) (et_arms t) -> (s = "_" \/ In s (et_src t)) /\ (In d delegations \/ In d (et_dst t)))
  /\ NoDup (map fst (et_arms t)).
Proof.
  intros t Ht. pose proof enum_wellformed_check as H. rewrite forallb_forall in H. specialize (H t Ht).
  unfold arms_wellformed in H. apply andb_true_iff in H. destruct H as [H H3].
  apply andb_true_iff in H. destruct H as [H1 H2]. split.
  - intros s d Ha. rewrite forallb_forall in H1, H2. specialize (H1 (s, d) Ha). specialize (H2 (s, d) Ha).
    cbv beta in H1, H2. cbn [fst snd] in H1, H2. split.
    + apply orb_true_iff in H1. destruct H1 as [H1|H1]; [left; apply String.eqb_eq; exact H1 | right; apply mem_In; exact H1].
    + apply orb_true_iff in H2. destruct H2 as [H2|H2]; [left | right]; apply mem_In; exact H2.
  - apply nodupb_NoDup. exact H3.
Qed.

(* ---------- totality: no variant silently falls into a catch-all ----------------------------- *)

Lemma enum_total_check : forallb total_ok ffi_enum_tables = true.
Proof. vm_compute. reflexivity. Qed.

Theorem enum_total : forall t v, In t ffi_enum_tables -> In v (et_src t) ->
  In v (map fst (et_arms t))
  \/ (et_wild t = true /\ exists w, lookup "_" (et_arms t) = Some w /\ lookup v (et_pinned t) = Some w).
Proof.
  intros t v Ht Hv. pose proof enum_total_check as H. rewrite forallb_forall in H. specialize (H t Ht).
  unfold total_ok in H. rewrite forallb_forall in H. specialize (H v Hv). unfold variant_covered in H.
  apply orb_true_iff in H. destruct H as [H|H].
  - left. apply mem_In. exact H.
  - right. apply andb_true_iff in H. destruct H as [Hw H]. split; [exact Hw|].
    destruct (lookup "_" (et_arms t)) as [w|]; [|discriminate H].
    destruct (lookup v (et_pinned t)) as [p|]; [|discriminate H].
    apply String.eqb_eq in H. subst. exists p. split; reflexivity.
Qed.

(* ---------- catch-all arms are listed, and each is pinned ------------------------------------ *)

Lemma enum_wildcard_check :
  forallb (fun t => wildcard_ok t && Bool.eqb (et_wild t) (mem (et_name t) ffi_wildcard_tables)) ffi_enum_tables = true.
Proof. vm_compute. reflexivity. Qed.

Theorem wildcard_arms_listed_and_pinned : forall t, In t ffi_enum_tables ->
  (et_wild t = true <-> In (et_name t) ffi_wildcard_tables)
  /\ (et_wild t = true -> exists w, lookup "_" (et_arms t) = Some w /\ lookup "_" (et_pinned t) = Some w)
  /\ (et_wild t = false -> ~ In "_" (map fst (et_arms t))).
Proof.
  intros t Ht. pose proof enum_wildcard_check as H. rewrite forallb_forall in H. specialize (H t Ht).
  cbv beta in H. apply andb_true_iff in H. destruct H as [H1 H2]. apply Bool.eqb_prop in H2.
  unfold wildcard_ok in H1. split; [|split].
  - rewrite H2. apply mem_In.
  - intro Hw. rewrite Hw in H1. destruct (lookup "_" (et_arms t)) as [w|]; [|discriminate H1].
    exists w. split; [reflexivity | apply is_some_eq_true; exact H1].
  - intro Hw. rewrite Hw in H1. apply negb_true_iff in H1. apply mem_false_not_In. exact H1.
Qed.

(* ---------- the pinned fallbacks are all needed (no stale or shadowing entry) ---------------- *)

Lemma enum_pins_check : forallb pins_ok ffi_enum_tables = true.
Proof. vm_compute. reflexivity. Qed.

Theorem enum_pins_needed : forall t s d, In t ffi_enum_tables -> In (s, d) (et_pinned t) ->
  (s = "_" /\ et_wild t = true) \/ (In s (et_src t) /\ ~ In s (et_dst t)).
Proof.
  intros t s d Ht Hp. pose proof enum_pins_check as H. rewrite forallb_forall in H. specialize (H t Ht).
  unfold pins_ok in H. apply andb_true_iff in H. destruct H as [H _].
  rewrite forallb_forall in H. specialize (H (s, d) Hp). cbv beta in H. cbn [fst] in H.
  destruct (String.eqb s "_") eqn:E.
  - left. apply String.eqb_eq in E. auto.
  - right. apply andb_true_iff in H. destruct H as [H _]. apply andb_true_iff in H. destruct H as [H1 H2].
    split; [apply mem_In; exact H1 | apply mem_false_not_In; apply negb_true_iff; exact H2].
Qed.

(* ---------- one-to-one tables are bijections -------------------------------------------------- *)

Lemma enum_bijective_check :
  forallb (fun t => negb (one_to_one t) || (injective_ok t && surjective_ok t)) ffi_enum_tables = true.
Proof. vm_compute. reflexivity. Qed.

Theorem one_to_one_tables_bijective : forall t, In t ffi_enum_tables -> one_to_one t = true ->
  NoDup (map snd (et_arms t)) /\ (forall v, In v (et_dst t) -> In v (map snd (et_arms t))).
Proof.
  intros t Ht H1. pose proof enum_bijective_check as H. rewrite forallb_forall in H. specialize (H t Ht).
  cbv beta in H. rewrite H1 in H. cbn [negb orb] in H. apply andb_true_iff in H. destruct H as [Hi Hs]. split.
  - apply nodupb_NoDup. exact Hi.
  - intros v Hv. unfold surjective_ok in Hs. rewrite forallb_forall in Hs. apply mem_In. apply Hs. exact Hv.
Qed.

(* ---------- conversions in opposite directions undo each other ------------------------------- *)

Lemma enum_roundtrip_check :
  forallb (fun p => match find_table ffi_enum_tables (fst p), find_table ffi_enum_tables (snd p) with
                    | Some t1, Some t2 => roundtrip_ok t1 t2
                    | _, _ => false
                    end) ffi_inverse_pairs = true.
Proof. vm_compute. reflexivity. Qed.

Theorem enum_roundtrip : forall n1 n2, In (n1, n2) ffi_inverse_pairs ->
  exists t1 t2, In t1 ffi_enum_tables /\ et_name t1 = n1 /\ In t2 ffi_enum_tables /\ et_name t2 = n2
    /\ forall s d, In (s, d) (et_arms t1) -> In (d, s) (et_arms t2).
Proof.
  intros n1 n2 Hin. pose proof enum_roundtrip_check as H. rewrite forallb_forall in H.
  specialize (H (n1, n2) Hin). cbv beta in H. cbn [fst snd] in H.
  destruct (find_table ffi_enum_tables n1) as [t1|] eqn:E1; [|discriminate H].
  destruct (find_table ffi_enum_tables n2) as [t2|] eqn:E2; [|discriminate H].
  apply find_table_sound in E1, E2. destruct E1 as [A1 B1]. destruct E2 as [A2 B2].
  exists t1, t2. repeat split; try assumption.
  intros s d Ha. unfold roundtrip_ok in H. rewrite forallb_forall in H. specialize (H (s, d) Ha).
  cbv beta in H. cbn [fst snd] in H. apply pair_mem_In. exact H.
Qed.

(* ---------- time stamps: the three qualities, both directions --------------------------------- *)

Definition tq_in_name := "outstation/database.rs::From<ffi::Timestamp> for Option<Time>".
Definition tq_out_name := "handler.rs::From<Option<Time>> for ffi::Timestamp#quality".
Definition time_qualities := ["invalidtime"; "synchronizedtime"; "unsynchronizedtime"].

Lemma timestamp_quality_check :
  match find_table ffi_enum_tables tq_in_name, find_table ffi_enum_tables tq_out_name with
  | Some t1, Some t2 =>
      negb (et_wild t1) && negb (et_wild t2)
      && same_set (et_src t1) time_qualities && same_set (et_dst t2) time_qualities
      && forallb (fun q => match lookup q (et_arms t1) with
                           | Some n => is_some_eq (lookup n (et_arms t2)) q
                           | None => false
                           end) time_qualities
      && forallb (fun a => is_some_eq (lookup (snd a) (et_arms t1)) (fst a)) (et_arms t2)
  | _, _ => false
  end = true.
Proof. vm_compute. reflexivity. Qed.

Theorem timestamp_quality_total :
  exists t1 t2, In t1 ffi_enum_tables /\ et_name t1 = tq_in_name /\ In t2 ffi_enum_tables /\ et_name t2 = tq_out_name
    /\ et_wild t1 = false /\ et_wild t2 = false
    /\ (forall q, In q (et_src t1) <-> In q time_qualities)
    /\ (forall q, In q time_qualities -> exists n, lookup q (et_arms t1) = Some n /\ lookup n (et_arms t2) = Some q)
    /\ (forall n q, In (n, q) (et_arms t2) -> lookup q (et_arms t1) = Some n).
Proof.
  pose proof timestamp_quality_check as H.
  destruct (find_table ffi_enum_tables tq_in_name) as [t1|] eqn:E1; [|discriminate H].
  destruct (find_table ffi_enum_tables tq_out_name) as [t2|] eqn:E2; [|discriminate H].
  apply find_table_sound in E1, E2. destruct E1 as [A1 B1]. destruct E2 as [A2 B2].
  repeat (apply andb_true_iff in H; let H' := fresh "K" in destruct H as [H H']).
  exists t1, t2. repeat split; try assumption.
  - apply negb_true_iff. exact H.
  - apply negb_true_iff. exact K3.
  - intro Hq. unfold same_set in K2. apply andb_true_iff in K2. destruct K2 as [S1 _].
    rewrite forallb_forall in S1. apply mem_In. apply S1. exact Hq.
  - intro Hq. unfold same_set in K2. apply andb_true_iff in K2. destruct K2 as [_ S2].
    rewrite forallb_forall in S2. apply mem_In. apply S2. exact Hq.
  - intros q Hq. rewrite forallb_forall in K0. specialize (K0 q Hq). cbv beta in K0.
    destruct (lookup q (et_arms t1)) as [n|]; [|discriminate K0].
    exists n. split; [reflexivity | apply is_some_eq_true; exact K0].
  - intros n q Ha. rewrite forallb_forall in K. specialize (K (n, q) Ha). cbv beta in K. cbn [fst snd] in K.
    apply is_some_eq_true. exact K.
Qed.

(* ---------- struct conversions: every field is computed from its namesake --------------------- *)

Lemma field_ok_spec st f chains c : field_ok st (f, chains, c) = true ->
  (chains = [] -> In (f, c) (st_consts st))
  /\ (forall ch, In ch chains -> exists seg, In seg ch /\ (seg = f \/ In (f, seg) (st_aliases st))).
Proof.
  unfold field_ok. destruct chains as [|c0 r]; intro H.
  - split; [intros _; apply pair_mem_In; exact H | intros ch []].
  - split; [intro E; discriminate E|].
    intros ch Hch. rewrite forallb_forall in H. specialize (H ch Hch). cbv beta in H.
    apply existsb_exists in H. destruct H as [seg [Hs Hok]]. exists seg. split; [exact Hs|].
    unfold seg_ok in Hok. apply orb_true_iff in Hok. destruct Hok as [Hok|Hok].
    + left. apply String.eqb_eq. exact Hok.
    + right. apply pair_mem_In. exact Hok.
Qed.

Lemma struct_fields_check :
  forallb (fun st => forallb (fun e => field_ok st e || pair_mem (st_name st, fst (fst e)) ffi_known_field_deviations)
                             (st_fields st)) ffi_struct_tables = true.
Proof. vm_compute. reflexivity. Qed.

Theorem struct_fields_namesake : forall st f chains c,
  In st ffi_struct_tables -> In (f, chains, c) (st_fields st) ->
  ~ In (st_name st, f) ffi_known_field_deviations ->
  (chains = [] -> In (f, c) (st_consts st))
  /\ (forall ch, In ch chains -> exists seg, In seg ch /\ (seg = f \/ In (f, seg) (st_aliases st))).
Proof.
  intros st f chains c Hst He Hdev.
  pose proof struct_fields_check as H. rewrite forallb_forall in H. specialize (H st Hst). cbv beta in H.
  rewrite forallb_forall in H. specialize (H (f, chains, c) He). cbv beta in H. cbn [fst] in H.
  apply orb_true_iff in H. destruct H as [H|H].
  - apply field_ok_spec. exact H.
  - apply pair_mem_In in H. contradiction.
Qed.

Lemma field_deviations_check :
  forallb (fun p => existsb (fun st => String.eqb (st_name st) (fst p)
                                       && existsb (fun e => String.eqb (fst (fst e)) (snd p) && negb (field_ok st e))
                                                  (st_fields st)) ffi_struct_tables)
          ffi_known_field_deviations = true.
Proof. vm_compute. reflexivity. Qed.

Theorem field_deviations_are_real : forall n f, In (n, f) ffi_known_field_deviations ->
  exists st e, In st ffi_struct_tables /\ st_name st = n /\ In e (st_fields st) /\ fst (fst e) = f /\ field_ok st e = false.
Proof.
  intros n f Hin. pose proof field_deviations_check as H. rewrite forallb_forall in H.
  specialize (H (n, f) Hin). cbv beta in H. cbn [fst snd] in H.
  apply existsb_exists in H. destruct H as [st [Hst H]]. apply andb_true_iff in H. destruct H as [Hn H].
  apply existsb_exists in H. destruct H as [e [He H]]. apply andb_true_iff in H. destruct H as [Hf Hbad].
  exists st, e. repeat split; try assumption.
  - apply String.eqb_eq. exact Hn.
  - apply String.eqb_eq. exact Hf.
  - apply negb_true_iff. exact Hbad.
Qed.

Lemma struct_pins_check : forallb struct_pins_ok ffi_struct_tables = true.
Proof. vm_compute. reflexivity. Qed.

Theorem struct_pins_needed : forall st, In st ffi_struct_tables ->
  (forall f seg, In (f, seg) (st_aliases st) ->
     exists chains c ch, In (f, chains, c) (st_fields st) /\ In ch chains /\ In seg ch)
  /\ (forall f c, In (f, c) (st_consts st) -> In (f, [], c) (st_fields st))
  /\ NoDup (map (fun e => fst (fst e)) (st_fields st)).
Proof.
  intros st Hst. pose proof struct_pins_check as H. rewrite forallb_forall in H. specialize (H st Hst).
  unfold struct_pins_ok in H. apply andb_true_iff in H. destruct H as [H H3].
  apply andb_true_iff in H. destruct H as [H1 H2]. split; [|split].
  - intros f seg Ha. rewrite forallb_forall in H1. specialize (H1 (f, seg) Ha). cbv beta in H1.
    apply existsb_exists in H1. destruct H1 as [[[f' chains] c] [He H1]]. cbn [fst snd] in H1.
    apply andb_true_iff in H1. destruct H1 as [Hf Hc]. apply String.eqb_eq in Hf. subst f'.
    apply existsb_exists in Hc. destruct Hc as [ch [Hch Hm]]. apply mem_In in Hm.
    exists chains, c, ch. auto.
  - intros f c Hc. rewrite forallb_forall in H2. specialize (H2 (f, c) Hc). cbv beta in H2.
    apply existsb_exists in H2. destruct H2 as [[[f' chains] c'] [He H2]].
    destruct chains as [|x r]; [|discriminate H2]. apply pair_eqb_eq in H2. inversion H2. subst. exact He.
  - apply nodupb_NoDup. exact H3.
Qed.

(* ---------- configuration conversions -------------------------------------------------------- *)

Lemma config_tables_check : forallb config_table_ok ffi_config_tables = true.
Proof. vm_compute. reflexivity. Qed.

Theorem config_fields_namesake_wrapped : forall ct f acc w,
  In ct ffi_config_tables -> In (f, acc, w) (ct_rows ct) ->
  (acc = f \/ In (f, acc) (ct_aliases ct)) /\ In w config_wrappers /\ lookup f (ct_pinned ct) = Some w.
Proof.
  intros ct f acc w Hct Hr. pose proof config_tables_check as H. rewrite forallb_forall in H.
  specialize (H ct Hct). unfold config_table_ok in H. apply andb_true_iff in H. destruct H as [H _].
  apply andb_true_iff in H. destruct H as [H _]. rewrite forallb_forall in H. specialize (H (f, acc, w) Hr).
  cbn [config_row_ok] in H. apply andb_true_iff in H. destruct H as [H Hp].
  apply andb_true_iff in H. destruct H as [Hn Hw]. split; [|split].
  - apply orb_true_iff in Hn. destruct Hn as [Hn|Hn].
    + left. apply String.eqb_eq. exact Hn.
    + right. apply pair_mem_In. exact Hn.
  - apply mem_In. exact Hw.
  - apply is_some_eq_true. exact Hp.
Qed.

Theorem config_pins_needed : forall ct, In ct ffi_config_tables ->
  (forall f w, In (f, w) (ct_pinned ct) -> In f (map (fun r => fst (fst r)) (ct_rows ct)))
  /\ NoDup (map (fun r => fst (fst r)) (ct_rows ct)).
Proof.
  intros ct Hct. pose proof config_tables_check as H. rewrite forallb_forall in H.
  specialize (H ct Hct). unfold config_table_ok in H. apply andb_true_iff in H. destruct H as [H H3].
  apply andb_true_iff in H. destruct H as [_ H2]. split.
  - intros f w Hp. rewrite forallb_forall in H2. specialize (H2 (f, w) Hp). cbn [fst] in H2.
    apply mem_In. exact H2.
  - apply nodupb_NoDup. exact H3.
Qed.
