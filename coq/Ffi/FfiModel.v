(* Ffi/FfiModel.v — vocabulary for the conversion tables of the binding layer (property C20).

   The tables themselves are GENERATED (gen/FfiTables.v, by tools/gen/gen_ffi.py) from
   ffi/dnp3-ffi/src, the oo-bindgen output and the enum definitions of dnp3/src.  Names arrive
   already normalised (lower case, no underscores, no `get_` prefix): normalisation is the
   translator's job, here a name is just a string.  Definitions only. *)
From Coq Require Import String List Bool.
Import ListNotations.
Open Scope string_scope.

(* One `match` of the binding crate that turns variants of one enum into variants of another. *)
Record enum_table := mk_enum_table {
  et_name   : string;                    (* file::impl header (or fn) [#field | /variant]        *)
  et_arms   : list (string * string);    (* (source variant, target) in source order; the catch-all
                                            arm has source "_"; targets starting with "@" are
                                            delegations: @into, @match (nested table), @dispatch *)
  et_wild   : bool;                      (* the match has a catch-all arm / ignores its input    *)
  et_src    : list string;               (* every variant of the source enum                     *)
  et_dst    : list string;               (* every variant of the target enum                     *)
  et_pinned : list (string * string)     (* hand-reviewed ffi_fallbacks.json: source variant with
                                            no namesake in the target enum |-> the target it must
                                            map to; "_" |-> target of the catch-all arm           *)
}.

(* One struct literal / constructor call of the binding crate that builds a value field by field. *)
Record struct_table := mk_struct_table {
  st_name    : string;
  st_fields  : list (string * list (list string) * string);
                                         (* (target field, accessor chains it is computed from,
                                            text of the expression when it reads nothing)        *)
  st_aliases : list (string * string);   (* pinned: (field, accessor) pairs that correspond although
                                            their names differ (s_var / static_variation)        *)
  st_consts  : list (string * string)    (* pinned: (field, constant) for fields that read nothing *)
}.

Definition mem (s : string) (l : list string) : bool := existsb (String.eqb s) l.

Definition pair_eqb (a b : string * string) : bool :=
  String.eqb (fst a) (fst b) && String.eqb (snd a) (snd b).

Definition pair_mem (p : string * string) (l : list (string * string)) : bool := existsb (pair_eqb p) l.

Fixpoint lookup (k : string) (l : list (string * string)) : option string :=
  match l with
  | [] => None
  | (a, b) :: r => if String.eqb a k then Some b else lookup k r
  end.

Definition is_some_eq (o : option string) (d : string) : bool :=
  match o with Some x => String.eqb x d | None => false end.

Definition delegations : list string := ["@into"; "@match"; "@dispatch"].

Fixpoint nodupb (l : list string) : bool :=
  match l with
  | [] => true
  | x :: r => negb (mem x r) && nodupb r
  end.

Definition same_set (a b : list string) : bool :=
  forallb (fun x => mem x b) a && forallb (fun x => mem x a) b.

(* ---- enum tables ------------------------------------------------------------------------- *)

(* the namesake rule for one arm: a source variant whose name exists in the target enum maps to
   it; any other source (and the catch-all) maps to the pinned target *)
Definition arm_ok (t : enum_table) (a : string * string) : bool :=
  if mem (fst a) (et_dst t) then String.eqb (snd a) (fst a)
  else is_some_eq (lookup (fst a) (et_pinned t)) (snd a).

Definition namesake_ok (t : enum_table) : bool := forallb (arm_ok t) (et_arms t).

(* arms are about real variants: sources are variants of the source enum (or the catch-all),
   targets are variants of the target enum (or a delegation), no source occurs twice *)
Definition arms_wellformed (t : enum_table) : bool :=
  forallb (fun a => String.eqb (fst a) "_" || mem (fst a) (et_src t)) (et_arms t)
  && forallb (fun a => mem (snd a) delegations || mem (snd a) (et_dst t)) (et_arms t)
  && nodupb (map fst (et_arms t)).

(* totality: every source variant has its own arm, or falls into the catch-all arm and is pinned
   to exactly the catch-all's target *)
Definition variant_covered (t : enum_table) (v : string) : bool :=
  mem v (map fst (et_arms t))
  || (et_wild t &&
      match lookup "_" (et_arms t), lookup v (et_pinned t) with
      | Some w, Some p => String.eqb w p
      | _, _ => false
      end).

Definition total_ok (t : enum_table) : bool := forallb (variant_covered t) (et_src t).

(* catch-all arms: flag and arm agree, and the arm's target is the pinned one *)
Definition wildcard_ok (t : enum_table) : bool :=
  if et_wild t
  then match lookup "_" (et_arms t) with
       | Some w => is_some_eq (lookup "_" (et_pinned t)) w
       | None => false
       end
  else negb (mem "_" (map fst (et_arms t))).

(* no stale pins: a pin is about the catch-all of a table that has one, or about a source variant
   that really lacks a namesake *)
Definition pins_ok (t : enum_table) : bool :=
  forallb (fun p => if String.eqb (fst p) "_" then et_wild t
                    else mem (fst p) (et_src t) && negb (mem (fst p) (et_dst t))
                         && (mem (fst p) (map fst (et_arms t)) || et_wild t))
          (et_pinned t)
  && nodupb (map fst (et_pinned t)).

(* one-to-one tables: same variant names on both sides, no catch-all, no delegation *)
Definition one_to_one (t : enum_table) : bool :=
  negb (et_wild t) && same_set (et_src t) (et_dst t)
  && forallb (fun a => negb (mem (snd a) delegations)) (et_arms t).

Definition injective_ok (t : enum_table) : bool := nodupb (map snd (et_arms t)).
Definition surjective_ok (t : enum_table) : bool := forallb (fun v => mem v (map snd (et_arms t))) (et_dst t).

Definition find_table (l : list enum_table) (n : string) : option enum_table :=
  find (fun t => String.eqb (et_name t) n) l.

(* t2 undoes t1 *)
Definition roundtrip_ok (t1 t2 : enum_table) : bool :=
  forallb (fun a => pair_mem (snd a, fst a) (et_arms t2)) (et_arms t1).

(* ---- struct tables ----------------------------------------------------------------------- *)

Definition seg_ok (st : struct_table) (f seg : string) : bool :=
  String.eqb seg f || pair_mem (f, seg) (st_aliases st).

(* a field is computed from its namesake: every accessor chain it reads passes through a segment
   called like the field (or pinned as its alias); a field that reads nothing is a pinned constant *)
Definition field_ok (st : struct_table) (e : string * list (list string) * string) : bool :=
  match e with
  | (f, [], c) => pair_mem (f, c) (st_consts st)
  | (f, chains, _) => forallb (fun ch => existsb (seg_ok st f) ch) chains
  end.

Definition fields_ok (st : struct_table) : bool := forallb (field_ok st) (st_fields st).

(* no stale alias or constant pins, no field assigned twice *)
Definition struct_pins_ok (st : struct_table) : bool :=
  forallb (fun al => existsb (fun e => match e with
                                       | (f, chains, _) => String.eqb f (fst al)
                                                           && existsb (fun ch => mem (snd al) ch) chains
                                       end) (st_fields st)) (st_aliases st)
  && forallb (fun cp => existsb (fun e => match e with
                                          | (f, [], c) => pair_eqb (f, c) cp
                                          | _ => false
                                          end) (st_fields st)) (st_consts st)
  && nodupb (map (fun e => fst (fst e)) (st_fields st)).

(* ---- configuration conversions ------------------------------------------------------------- *)

(* One configuration conversion (`fn convert_outstation_config`, `TryFrom<ffi::AssociationConfig>`,
   ...): for every field of the native configuration the binding accessor that feeds it and WHAT is
   done to it on the way (the wrapper), next to the hand-reviewed wrapper of that field
   (tools/gen/ffi_fallbacks.json, config_wrappers). *)
Record config_table := mk_config_table {
  ct_name    : string;
  ct_rows    : list (string * string * string);  (* (native field, binding accessor, wrapper) *)
  ct_aliases : list (string * string);           (* pinned (field, accessor) pairs, as in struct tables *)
  ct_pinned  : list (string * string)            (* reviewed: native field |-> wrapper *)
}.

(* the closed vocabulary of wrappers (what each means is documented in tools/gen/gen_ffi.py WRAPPERS
   and tied to the documented reading of the field in tools/props/c20.py WRAP_RULES) *)
Definition config_wrappers : list string :=
  ["id"; "usize"; "some"; "some-usize"; "into"; "match"; "endpoint-address"; "buffer-size"; "timeout";
   "zero-none"; "fn:convert_event_classes"; "fn:convert_classes"; "fn:convert_auto_time_sync";
   "fn:to_feature"; "ctor:RetryStrategy"; "parse-str"].

Definition config_row_ok (ct : config_table) (r : string * string * string) : bool :=
  match r with
  | (f, acc, w) => (String.eqb acc f || pair_mem (f, acc) (ct_aliases ct))
                   && mem w config_wrappers
                   && is_some_eq (lookup f (ct_pinned ct)) w
  end.

(* every row obeys the rule, every reviewed wrapper is about a row, no field assigned twice *)
Definition config_table_ok (ct : config_table) : bool :=
  forallb (config_row_ok ct) (ct_rows ct)
  && forallb (fun p => mem (fst p) (map (fun r => fst (fst r)) (ct_rows ct))) (ct_pinned ct)
  && nodupb (map (fun r => fst (fst r)) (ct_rows ct)).

Definition find_config (l : list config_table) (n : string) : option config_table :=
  find (fun t => String.eqb (ct_name t) n) l.
