(* Properties/C16.v — Commands succeed only if truly accepted; every request gets exactly one
   outcome.  Statements only; every proof is `exact <lemma>` (Master/CommandProofs.v,
   Master/MTaskProofs.v).

   [faithful_echo hs objs] (Master/Command.v): the object octets split into exactly the requested
   headers (same variation and index width), every object with the requested index, status SUCCESS
   and an equal value - equal octets for g12v1/g41v1/g41v2, IEEE equality for the f32/f64 of
   g41v3/g41v4 (F14: see [C16_bitwise_echo_refuted]).  [pending st] = the tokens still owed an
   outcome; [res_toks o] = the tokens completed by observations o; [J cfg st] = the deadline
   invariant (Master/MTaskProofs.v). *)
From Dnp3V Require Import Base.Bytes Master.MParse Master.Command Master.CommandProofs Master.MTask Master.MTaskProofs.
Import MP MCmd MT.
Open Scope N_scope.

(* the comparison of the echo accepts exactly the faithful echoes *)
Theorem C16_compare_ok_faithful : forall sent objs, compare sent objs = COk -> faithful_echo sent objs.
Proof. exact compare_ok_faithful. Qed.
Print Assumptions C16_compare_ok_faithful.

Theorem C16_faithful_compare_ok : forall sent objs, faithful_echo sent objs -> compare sent objs = COk.
Proof. exact faithful_compare_ok. Qed.
Print Assumptions C16_faithful_compare_ok.

Theorem C16_success_implies_faithful_echo : forall cfg evs k o tok tok' ph hs q d sd,
  nth_error (run cfg evs) (S k) = Some o -> In (ORes tok ROk) (map snd o) ->
  s_run (state_at cfg evs k) = RNonRead (NRCommand tok' ph hs) q d sd ->
  tok = tok' /\ ph <> PhSelect /\
  exists src frag items h objs,
    nth_error evs k = Some (ERx src frag VOk items) /\ parse_response frag = PResponse h objs /\
    h_unsol h = false /\ src = c_addr cfg /\ c_seq (h_ctrl h) = q /\
    faithful_echo hs objs /\
    last_request (hist cfg evs k) = Some (mk_req q (cphase_fc ph) (encode_phs hs) 0).
Proof. exact success_implies_faithful_echo. Qed.
Print Assumptions C16_success_implies_faithful_echo.

Theorem C16_operate_only_after_faithful_select : forall cfg evs k o t d q' objs',
  nth_error (run cfg evs) (S k) = Some o -> In (t, OTxReq d q' 4 objs') o ->
  In (t, OInfoStart (TEmpty 4) 4 q') o \/
  exists src frag items h objs hs q,
    nth_error evs k = Some (ERx src frag VOk items) /\ parse_response frag = PResponse h objs /\
    h_unsol h = false /\ src = c_addr cfg /\ c_seq (h_ctrl h) = q /\
    c_fir (h_ctrl h) = true /\ c_fin (h_ctrl h) = true /\ iin2_bad (h_iin2 h) = false /\
    faithful_echo hs objs /\
    last_request (hist cfg evs k) = Some (mk_req q 3 (encode_phs hs) 0) /\
    objs' = encode_phs hs /\ q' = seq_next q /\ d = c_addr cfg.
Proof. exact operate_only_after_faithful_select. Qed.
Print Assumptions C16_operate_only_after_faithful_select.

(* mismatch_is_error: (a) unfaithful echo *)
Theorem C16_mismatch_is_error : forall cfg st src frag items h objs tok ph hs q d sd e,
  s_stopped st = false -> s_conn st = true -> s_assoc st = true ->
  s_run st = RNonRead (NRCommand tok ph hs) q d sd ->
  parse_response frag = PResponse h objs -> h_unsol h = false -> accepted_answer cfg st src h = true ->
  compare hs objs = CErr e ->
  In (s_now st, ORes tok (RCmdErr e)) (snd (mstep cfg st (ERx src frag VOk items))) /\
  In (s_now st, OInfoFail TCommand EBadHeaders) (snd (mstep cfg st (ERx src frag VOk items))) /\
  ~ In (ORes tok ROk) (map snd (snd (mstep cfg st (ERx src frag VOk items)))) /\
  ~ faithful_echo hs objs.
Proof. exact mismatch_is_error. Qed.
Print Assumptions C16_mismatch_is_error.

(* (b) IIN2 rejection *)
Theorem C16_iin2_rejection_is_error : forall cfg st src frag v items h objs tok,
  s_stopped st = false -> s_conn st = true -> run_tok (s_run st) = Some tok ->
  parse_response frag = PResponse h objs -> h_unsol h = false ->
  is_answer cfg st src h = true -> flags_ok st h = true -> iin2_bad (h_iin2 h) = true ->
  In (s_now st, ORes tok (RErr (ERejected (h_iin1 h) (h_iin2 h)))) (snd (mstep cfg st (ERx src frag v items))).
Proof. exact iin2_rejection_is_error. Qed.
Print Assumptions C16_iin2_rejection_is_error.

(* (c) disable, connection loss, shutdown - for the outstanding request and every queued one *)
Theorem C16_stop_is_error : forall cfg st ev why tok,
  s_stopped st = false -> s_conn st = true ->
  (ev = EDisable /\ why = StDisable \/ ev = EDropIo /\ why = StLink \/ ev = EShutdown /\ why = StShutdown) ->
  (run_tok (s_run st) = Some tok \/ (s_assoc st = true /\ In tok (map fst (s_queue st)))) ->
  In (s_now st, ORes tok (RErr (stop_err why))) (snd (mstep cfg st ev)).
Proof. exact stop_is_error. Qed.
Print Assumptions C16_stop_is_error.

(* (d) silence *)
Theorem C16_timeout_is_error : forall cfg st ms tok dl,
  s_stopped st = false -> s_conn st = true -> run_tok (s_run st) = Some tok ->
  wake_time cfg st = Some dl -> dl <= s_now st + (ms + 1) ->
  In (N.max (s_now st) dl, ORes tok (RErr ETimeout)) (snd (mstep cfg st (ESleep ms))).
Proof. exact timeout_is_error. Qed.
Print Assumptions C16_timeout_is_error.

Theorem C16_one_outcome : forall cfg evs tok,
  (cnt tok (res_toks (concat (run cfg evs))) + cnt tok (pending (final cfg evs))
   = cnt tok (flat_map (fun p => if s_stopped (fst p) then [] else submitted (snd p)) (steps cfg evs)))%nat.
Proof. exact one_outcome. Qed.
Print Assumptions C16_one_outcome.

Theorem C16_shutdown_completes_everything : forall cfg evs,
  1 <= c_timeout cfg -> pending (final cfg (evs ++ [EShutdown])) = [].
Proof. exact shutdown_completes_everything. Qed.
Print Assumptions C16_shutdown_completes_everything.

Theorem C16_bounded_steps : forall cfg evs k,
  1 <= c_timeout cfg -> J cfg (state_at cfg evs k).
Proof. exact bounded_steps. Qed.
Print Assumptions C16_bounded_steps.

(* F14 (open finding): octet-for-octet equality is NOT what is checked for floating point values *)
Theorem C16_bitwise_echo_refuted :
  compare f14_sent f14_echo = COk /\ f14_echo <> encode_phs f14_sent.
Proof. exact bitwise_echo_refuted. Qed.
Print Assumptions C16_bitwise_echo_refuted.

(* ---------------------------------------------------------------------------------------- *)
(* non-vacuity: a select-before-operate history with two headers (8- and 16-bit indices) *)

Definition ex_cfg : mcfg := mk_mcfg 1024 1000 0 0 0 1000 10000 16 249.

Definition ex_sbo : list mevent :=
  [EUser 1 (UCommand true ex_cmd);
   ERx 1024 (192 :: 129 :: 0 :: 0 :: encode_phs ex_cmd) VOk [];
   ERx 1024 (225 :: 129 :: 0 :: 0 :: encode_phs ex_cmd) VOk []].

Example C16_select_operate :
  map (map snd) (run ex_cfg ex_sbo) =
  [[OChanConnected];
   [OStep; OInfoStart TCommand 3 0; OTxReq 1024 0 3 (encode_phs ex_cmd)];
   [OStep; OPv VOk; OTxReq 1024 1 4 (encode_phs ex_cmd)];
   [OStep; OPv VOk; OTxConfirm 1024 false 1; ORes 1 ROk; OInfoSuccess TCommand 3 1]]
  /\ faithful_echo ex_cmd (encode_phs ex_cmd)
  /\ J ex_cfg (state_at ex_cfg ex_sbo 2)
  /\ s_run (state_at ex_cfg ex_sbo 2) = RNonRead (NRCommand 1 PhOperate ex_cmd) 1 1002 1.
Proof.
  split; [vm_compute; reflexivity|]. split; [apply compare_ok_faithful; vm_compute; reflexivity|].
  split; [apply bounded_steps; vm_compute; discriminate|vm_compute; reflexivity].
Qed.

(* the SELECT echo with one status octet changed: no OPERATE, the outcome is the status *)
Example C16_select_bad_status :
  map (map snd) (run ex_cfg [EUser 1 (UCommand true ex_cmd);
    ERx 1024 (192 :: 129 :: 0 :: 0 ::
              encode_phs [mk_ph 12 1 false [(3, [3; 1; 100; 0; 0; 0; 10; 0; 0; 0; 0]); (4, [4; 1; 100; 0; 0; 0; 10; 0; 0; 0; 4])];
                          mk_ph 41 2 true [(300, [16; 39; 0])]]) VOk []; ESleep 2000])
  = [[OChanConnected];
     [OStep; OInfoStart TCommand 3 0; OTxReq 1024 0 3 (encode_phs ex_cmd)];
     [OStep; OPv VOk; ORes 1 (RCmdErr (CBadStatus 4)); OInfoFail TCommand EBadHeaders];
     [OStep]].
Proof. vm_compute; reflexivity. Qed.

(* queued requests and the outstanding one when the channel is disabled: one outcome each *)
Example C16_disable_outcomes :
  map res_toks (run ex_cfg [EUser 1 (UCommand false ex_cmd); EUser 2 (URestart true); EUser 3 ULinkStatus; EDisable;
                            EUser 4 (URead [60; 1; 6]); EShutdown])
  = [[]; []; []; []; [1; 2; 3]; [4]; []]
  /\ pending (final ex_cfg [EUser 1 (UCommand false ex_cmd); EUser 2 (URestart true); EUser 3 ULinkStatus; EDisable;
                            EUser 4 (URead [60; 1; 6]); EShutdown]) = [].
Proof. split; vm_compute; reflexivity. Qed.

(* ---- agreement of the hand-written models with the tables regenerated from the source on every run
   (tools/gen/gen_master_tables.py -> gen/MasterTables.v; lemmas, interpreters and observers in
   Master/TablesAgree.v, module MTab).  `.._is_table`: the model's function IS the interpreter run over the
   generated table; `.._observed`: the order the model serves things in, observed on enumerated states. *)
From Coq Require Import String List.
From Dnp3V Require Import Base.Bytes Master.Backoff Master.Assoc Master.Sched Master.MParse Master.Command Master.MTask
  Master.TimeSync gen.MasterTables Master.TablesAgree.
Import MTab.
Local Open Scope string_scope.
Local Open Scope list_scope.
Local Open Scope N_scope.

(* every non-READ task of the task model sends the generated function code; the function code of an
   EmptyResponseTask is the parameter of the request *)
Theorem C16_tables_function_codes : forall k,
  match k with
  | MT.NREmpty _ fc => str_in (nr_name k) gm_task_function_param = true /\ MT.nr_fc k = fc
  | _ => assoc_str (nr_name k) gm_task_function = Some (MT.nr_fc k)
  end.
Proof. exact MTab.mt_function_codes_agree. Qed.
Print Assumptions C16_tables_function_codes.

Theorem C16_tables_queue_admission : forall now tok k a cfg st t,
  (match ms_err_of (snd gm_queue_admit) with
   | Some e => Some (if cmp_nat (fst gm_queue_admit) (length (ms_a_queue a)) (ms_c_maxq (ms_a_cfg a))
                     then (ms_set_queue a (ms_a_queue a ++ [(tok, k)]), [])
                     else ms_task_error now (ms_user_task tok k) e false a)
   | None => None
   end) = Some (ms_queue_task now true tok k a) /\
  (MT.s_assoc st = true -> MT.s_conn st = true ->
   MT.on_user cfg st tok t
   = if cmp_nat (fst gm_queue_admit) (length (MT.s_queue st)) (MT.c_maxq cfg)
     then (MT.set_queue st (MT.s_queue st ++ [(tok, t)]), [])
     else (st, MT.emit st (MT.ORes tok (MT.RErr MT.ETooMany)))) /\
  snd gm_queue_admit = "TooManyRequests".
Proof. exact MTab.queue_admission_agrees. Qed.
Print Assumptions C16_tables_queue_admission.

Example C16_tables_instance :
  assoc_str "Command::Select" gm_task_function = Some 3 /\ assoc_str "Command::Operate" gm_task_function = Some 4 /\
  assoc_str "Command::DirectOperate" gm_task_function = Some 5 /\ gm_queue_admit = (GmLt, "TooManyRequests").
Proof. repeat split. Qed.
