(* Properties/C18.v — statements only; every proof is `exact <lemma>`.
   Time synchronisation sets the outstation's clock to the master's.
   Model: Master/TimeSync.v.  plain_sync p P = one synchronisation with procedure p over an undisturbed
   channel: master clock clk(t) = c0 + t, task started at t0, forward delays f1 (first request) and f2
   (the WRITE), b1/b2 = actual processing delay + backward delay of the two responses, rep = the
   processing delay the outstation reports.  TsSuccess w tw: the master reports success and the
   outstation application was handed the time w at instant tw.  No slack term is needed: the engine
   never settles with a tick and all instants are whole milliseconds (see Master/TimeSyncProofs.v). *)
From Coq Require Import ZArith List Bool Lia.
From Dnp3V Require Import Base.Bytes Master.TimeSync Master.TimeSyncProofs.
Import ListNotations.
Open Scope Z_scope.

(* LAN procedure: error no larger than the one-way (forward) transmission delay *)
Theorem C18_lan_error : forall P w tw,
  0 <= tsp_f1 P ->
  plain_sync TsLan P = TsSuccess w tw ->
  Z.abs (w - (tsp_c0 P + tw)) <= tsp_f1 P.
Proof. exact lan_error. Qed.
Print Assumptions C18_lan_error.

(* non-LAN procedure, honest report (rep = hold, b1 = hold + back), same forward delay for both
   requests: error no larger than half the asymmetry of the two one-way delays, rounded up *)
Theorem C18_nonlan_error : forall P hold back w tw,
  tsp_b1 P = hold + back -> tsp_rep P = hold ->
  tsp_f2 P = tsp_f1 P -> 0 <= tsp_f1 P -> 0 <= back ->
  plain_sync TsNonLan P = TsSuccess w tw ->
  Z.abs (w - (tsp_c0 P + tw)) <= (Z.abs (back - tsp_f1 P) + 1) / 2.
Proof. exact nonlan_error. Qed.
Print Assumptions C18_nonlan_error.

(* ... and exactly zero when the two one-way delays are equal, whatever the processing delay *)
Theorem C18_nonlan_equal_delays : forall P hold w tw,
  tsp_b1 P = hold + tsp_f1 P -> tsp_rep P = hold -> tsp_f2 P = tsp_f1 P -> 0 <= tsp_f1 P ->
  plain_sync TsNonLan P = TsSuccess w tw ->
  w = tsp_c0 P + tw.
Proof. exact nonlan_equal_delays. Qed.
Print Assumptions C18_nonlan_equal_delays.

(* the same with a forward delay that changes between the two requests: the exact error *)
Theorem C18_nonlan_error_general : forall P hold back w tw,
  tsp_b1 P = hold + back -> tsp_rep P = hold ->
  0 <= tsp_f1 P -> 0 <= back ->
  plain_sync TsNonLan P = TsSuccess w tw ->
  (tsp_c0 P + tw) - w = tsp_f2 P - (tsp_f1 P + back) / 2 /\
  Z.abs (w - (tsp_c0 P + tw)) <= (Z.abs (back - tsp_f1 P) + 1) / 2 + Z.abs (tsp_f2 P - tsp_f1 P).
Proof. exact nonlan_error_general. Qed.
Print Assumptions C18_nonlan_error_general.

(* third procedure (direct WRITE of the absolute time): error no larger than the forward delay *)
Theorem C18_direct_error : forall P w tw,
  0 <= tsp_f1 P ->
  plain_sync TsDirect P = TsSuccess w tw ->
  Z.abs (w - (tsp_c0 P + tw)) <= tsp_f1 P.
Proof. exact direct_error. Qed.
Print Assumptions C18_direct_error.

Theorem C18_sync_fails_when_it_must : forall p P,
  (p = TsNonLan -> tsp_rep P > tsp_f1 P + tsp_b1 P -> forall w tw, plain_sync p P <> TsSuccess w tw) /\
  (ts_after_write (tsp_mode P) (tsp_need0 P) = true -> forall w tw, plain_sync p P <> TsSuccess w tw) /\
  (p = TsNonLan ->
   tsp_c0 P + (tsp_t0 P + tsp_f1 P + tsp_b1 P) + (tsp_f1 P + tsp_b1 P - tsp_rep P) / 2 > ts_max ->
   forall w tw, plain_sync p P <> TsSuccess w tw) /\
  (p = TsLan -> tsp_c0 P + tsp_t0 P + (tsp_b1 P + tsp_f2 P) > ts_max ->
   forall w tw, plain_sync p P <> TsSuccess w tw) /\
  (p = TsDirect -> tsp_c0 P + tsp_t0 P > ts_max -> forall w tw, plain_sync p P <> TsSuccess w tw) /\
  (forall w tw, plain_sync p P = TsSuccess w tw -> w <= ts_max) /\
  (forall s clk now need o, ~ expected_objs s o -> m_handle s clk now need o = TsFail TsEHeaders) /\
  (forall s clk now o, m_handle s clk now true o <> TsDone).
Proof. exact sync_fails_when_it_must. Qed.
Print Assumptions C18_sync_fails_when_it_must.

(* limit of the g52v2 object: beyond 65535 ms of processing the report saturates and the non-LAN
   bound no longer holds (witness by computation, replayed as corpus/C18/nonlan_processing_beyond_u16) *)
Theorem C18_nonlan_beyond_u16_refuted :
  exists P hold back w tw,
    tsp_b1 P = hold + back /\ tsp_rep P = Z.min hold 65535 /\ tsp_f2 P = tsp_f1 P /\
    0 <= tsp_f1 P /\ 0 <= back /\
    plain_sync TsNonLan P = TsSuccess w tw /\
    Z.abs (w - (tsp_c0 P + tw)) > (Z.abs (back - tsp_f1 P) + 1) / 2.
Proof. exact nonlan_beyond_u16_refuted. Qed.
Print Assumptions C18_nonlan_beyond_u16_refuted.

Theorem C18_nonlan_saturated_error : forall P hold back w tw,
  tsp_b1 P = hold + back -> tsp_rep P = 65535 -> 65535 <= hold ->
  plain_sync TsNonLan P = TsSuccess w tw ->
  (tsp_c0 P + tw) - w = tsp_f2 P - (tsp_f1 P + back + (hold - 65535)) / 2.
Proof. exact nonlan_saturated_error. Qed.
Print Assumptions C18_nonlan_saturated_error.

(* the closed form the theorems are about agrees with the simulated engine (tasks + channel + byte
   encodings, the model that is diffed against the implementation) on a grid of 14400 schedules *)
Theorem C18_engine_agrees_with_closed_form_on_grid :
  forallb (fun p =>
  forallb (fun m =>
  forallb (fun tmo =>
  forallb (fun c0 =>
  forallb (fun f =>
  forallb (fun b =>
  forallb (fun h =>
  forallb (fun rep =>
    outcome_agrees
      (engine_outcome None
         (run_tsync {| tsc_c0 := c0; tsc_proc := p; tsc_tmo := tmo; tsc_mode := m |} (grid_script f b h rep)))
      (plain_sync p (grid_sched c0 f b h rep tmo m)))
    [h; h + 1; f + h + b; f + h + b + 1; 65535])
    [0; 7; 65536])
    [0; 1; 3; 65535])
    [0; 1; 2; 500; 70000])
    [0; 140737488355328; ts_max - 70000; ts_max])
    [400003; 1001])
    [TsNAuto; TsNStuck])
    [TsLan; TsNonLan; TsDirect]
  = true.
Proof. exact engine_agrees_with_closed_form_on_grid. Qed.
Print Assumptions C18_engine_agrees_with_closed_form_on_grid.

(* the simulated tasks apply the blocks of the closed form to the bytes they receive *)
Theorem C18_outstation_applies_o_handle : forall cfg s seq r,
  (seq < 16)%N ->
  match r with TsRWriteAbs ts | TsRWriteLast ts => 0 <= ts <= ts_max | _ => True end ->
  tos_last (tss_o s) = None ->
  let res := o_handle (tsc_mode cfg) (tss_rep s) (tos_time (tss_o s)) (tss_now s) r in
  exists s' rest,
    o_deliver cfg s (ts_enc_req seq r) =
      (s', match or_written res with Some v => TsWritten (tss_now s) v :: rest | None => rest end) /\
    tos_time (tss_o s') = or_st res /\
    (forall t v, ~ In (TsWritten t v) rest).
Proof. exact o_deliver_uses_o_handle. Qed.
Print Assumptions C18_outstation_applies_o_handle.

Theorem C18_master_applies_m_handle : forall cfg s t iin1 iin2 objs,
  tm_cur (tss_m s) = Some t -> (mt_seq t < 16)%N ->
  N.testbit iin1 7 = false -> N.land iin2 7 = 0%N ->
  m_deliver cfg s (ts_enc_resp (mt_seq t) iin1 iin2 objs) =
    match m_handle (mt_state t) (ts_clock (tss_on s) (tsc_c0 cfg) (tss_now s)) (tss_now s)
                   (N.testbit iin1 4) (ts_classify_objs objs) with
    | TsFail e => m_finish cfg s (mt_token t) (Some e)
    | TsDone => m_finish cfg s (mt_token t) None
    | TsNext st =>
        let sq := tm_seq (tss_m s) in
        ts_master_wrote
          (ts_set_m s {| tm_seq := ts_seq_next sq;
                         tm_cur := Some {| mt_token := mt_token t; mt_state := st; mt_seq := sq;
                                           mt_deadline := tss_now s + tsc_tmo cfg |};
                         tm_q := tm_q (tss_m s) |})
          (ts_enc_req sq (ts_req_of st))
    end.
Proof. exact m_deliver_uses_m_handle. Qed.
Print Assumptions C18_master_applies_m_handle.

(* ---- non-vacuity ---- *)
Definition ex_sched (c0 f1 b1 f2 b2 rep : Z) : ts_sched :=
  {| tsp_c0 := c0; tsp_on := true; tsp_t0 := 0; tsp_f1 := f1; tsp_b1 := b1; tsp_f2 := f2; tsp_b2 := b2;
     tsp_tmo := 400003; tsp_rep := rep; tsp_mode := TsNAuto; tsp_need0 := true; tsp_rec0 := None |}.

(* forward 30 ms, backward 50 ms: LAN is off by the forward delay, non-LAN by half the asymmetry *)
Example C18_lan_instance :
  plain_sync TsLan (ex_sched 1000000 30 50 30 50 0) = TsSuccess 1000080 110.
Proof. vm_compute. reflexivity. Qed.
Example C18_nonlan_instance :
  plain_sync TsNonLan (ex_sched 1000000 30 57 30 57 7) = TsSuccess 1000127 117.
Proof. vm_compute. reflexivity. Qed.
Example C18_direct_instance :
  plain_sync TsDirect (ex_sched 1000000 30 50 30 50 0) = TsSuccess 1000000 30.
Proof. vm_compute. reflexivity. Qed.
(* the last representable instant is still written; one millisecond more fails *)
Example C18_overflow_boundary :
  plain_sync TsLan (ex_sched (ts_max - 80) 30 50 30 50 0) = TsSuccess ts_max 110 /\
  plain_sync TsLan (ex_sched (ts_max - 79) 30 50 30 50 0) = TsFailure TsEIin2 /\
  plain_sync TsNonLan (ex_sched (ts_max - 120) 30 50 30 50 0) = TsSuccess ts_max 110 /\
  plain_sync TsNonLan (ex_sched (ts_max - 119) 30 50 30 50 0) = TsFailure TsEOverflow.
Proof. vm_compute. repeat split; reflexivity. Qed.
(* a reported delay one millisecond above the round trip is refused; equal to it is accepted *)
Example C18_delay_boundary :
  plain_sync TsNonLan (ex_sched 1000000 30 50 30 50 81) = TsFailure (TsEDelay 81) /\
  plain_sync TsNonLan (ex_sched 1000000 30 50 30 50 80) = TsSuccess 1000080 110.
Proof. vm_compute. repeat split; reflexivity. Qed.
(* a processing delay beyond 65535 ms cannot be reported honestly in g52v2 (u16 ms): with the
   saturated report the non-LAN error grows by half the excess although the line is symmetric *)
Example C18_saturated_report :
  plain_sync TsNonLan (ex_sched 1000000 10 (70000 + 10) 10 (70000 + 10) 65535) = TsSuccess 1072262 70030.
Proof. vm_compute. reflexivity. Qed.
(* the whole engine on the script of the first instance produces the same written time and outcome *)
Example C18_engine_instance :
  run_tsync {| tsc_c0 := 1000000; tsc_proc := TsLan; tsc_tmo := 5000; tsc_mode := TsNAuto |}
            [TsOpFwd 30; TsOpBack 50; TsOpSync 0%N; TsOpRun 1000]
  = [TsM2O 0 (Some 30) [192; 24]%N;
     TsO2M 30 (Some 80) [192; 129; 16; 0]%N;
     TsM2O 80 (Some 110) [193; 2; 50; 3; 7; 1; 64; 66; 15; 0; 0; 0]%N;
     TsWritten 110 1000080;
     TsO2M 110 (Some 160) [193; 129; 0; 0]%N;
     TsRes 0%N None;
     TsClock 1000 (Some 1001000)].
Proof. vm_compute. reflexivity. Qed.

(* ---- agreement of the hand-written models with the tables regenerated from the source on every run
   (tools/gen/gen_master_tables.py -> gen/MasterTables.v; lemmas, interpreters and observers in
   Master/TablesAgree.v, module MTab).  `.._is_table`: the model's function IS the interpreter run over the
   generated table; `.._observed`: the order the model serves things in, observed on enumerated states. *)
From Coq Require Import String List.
From Dnp3V Require Import Base.Bytes Master.Backoff Master.Assoc Master.Sched Master.MParse Master.Command Master.MTask
  Master.TimeSync gen.MasterTables Master.TablesAgree.
Import MTab.
Local Open Scope string_scope.
Local Open Scope list_scope.
Local Open Scope N_scope.

Theorem C18_tables_states :
  map tstate_name [TsSMeasure 0; TsSWriteAbs 0; TsSRecord 0; TsSWriteLast 0] = gm_timesync_states /\
  map proc_name [TsLan; TsNonLan; TsDirect] = map fst gm_timesync_start.
Proof. exact MTab.timesync_states_agree. Qed.
Print Assumptions C18_tables_states.

(* TimeSyncProcedure::get_start_state + TimeSyncTask::start: the first state, and every first state
   samples the master's clock (no clock: the task does not start) *)
Theorem C18_tables_start : forall p c now,
  option_map tstate_name (m_start p (Some c) now) = assoc_str (proc_name p) gm_timesync_start /\
  m_start p None now = None /\
  match assoc_str (proc_name p) gm_timesync_start with
  | Some s0 => match assoc_str s0 gm_timesync_clock with
               | Some GmClockRequired | Some GmClockIfUnset => True
               | _ => False
               end
  | None => False
  end.
Proof. exact MTab.timesync_start_agrees. Qed.
Print Assumptions C18_tables_start.

Theorem C18_tables_request : forall seq s,
  request_from_table seq (tstate_name s) (tstate_time s) = Some (ts_enc_req seq (ts_req_of s)).
Proof. exact MTab.timesync_request_agrees. Qed.
Print Assumptions C18_tables_request.

(* TimeSyncTask::handle: the state after an accepted response *)
Theorem C18_tables_next : forall s clk now need o,
  match m_handle s clk now need o with
  | TsNext s' => assoc_str (tstate_name s) gm_timesync_next = Some (Some (tstate_name s'))
  | TsDone => assoc_str (tstate_name s) gm_timesync_next = Some None
  | TsFail _ => True
  end.
Proof. exact MTab.timesync_next_agrees. Qed.
Print Assumptions C18_tables_next.

Theorem C18_tables_procedures :
  map model_procedure [TsLan; TsNonLan; TsDirect] = map table_procedure ["Lan"; "NonLan"; "DirectWriteAbsTime"].
Proof. exact MTab.timesync_procedures_agree. Qed.
Print Assumptions C18_tables_procedures.

Theorem C18_tables_checks :
  forallb (fun s => forallb (fun clk => forallb (fun now => forallb (fun need => forallb (fun o =>
     match table_failure s clk now need o, model_failure s clk now need o with
     | Some (Some a), Some b => String.eqb a b
     | Some None, None => true
     | _, _ => false
     end)
     [TsONone; TsODelay 5; TsOOther]) [false; true]) [3%Z; 100%Z]) [None; Some 100%Z; Some 281474976710655%Z])
     [TsSMeasure 0; TsSWriteAbs 7; TsSRecord 7; TsSWriteLast 7] = true.
Proof. exact MTab.timesync_checks_agree. Qed.
Print Assumptions C18_tables_checks.

(* the constants: Timestamp::MAX_VALUE, the halving of the round trip *)
Theorem C18_tables_constants : forall v d start c now need dl,
  ts_max = gm_timestamp_max /\ ms_ts_max = gm_timestamp_max /\ (gm_timestamp_max = 2 ^ 48 - 1)%Z /\
  ts_checked_add v d = (if (d >? gm_timestamp_max - v)%Z then None else Some (v + d)%Z) /\
  ((dl <= now - start)%Z ->
   m_handle (TsSMeasure start) (Some c) now need (TsODelay dl)
   = match ts_checked_add c ((now - start - dl) / gm_propagation_divisor) with
     | Some ts => TsNext (TsSWriteAbs ts)
     | None => TsFail TsEOverflow
     end).
Proof. exact MTab.timesync_constants_agree. Qed.
Print Assumptions C18_tables_constants.

Theorem C18_tables_validation_is_table : forall cfg s t ctl iin1 iin2 objs,
  tm_cur (tss_m s) = Some t -> N.testbit iin1 7 = false -> N.testbit ctl 4 = false ->
  validate_dispatch gm_validate_non_read_response (ts_check ctl iin2 t) (s, []) (s, [])
    (fun e => option_map (fun x => m_finish cfg s (mt_token t) (Some x)) (ts_err_of e))
    (ts_accept cfg s t iin1 objs)
  = Some (m_deliver cfg s (ctl :: 129 :: iin1 :: iin2 :: objs)).
Proof. exact MTab.timesync_validation_is_table. Qed.
Print Assumptions C18_tables_validation_is_table.

Example C18_tables_instance :
  table_procedure "Lan" = [(24, []); (2, [50; 3; 7; 1])]%N /\
  table_procedure "NonLan" = [(23, []); (2, [50; 1; 7; 1])]%N /\
  table_procedure "DirectWriteAbsTime" = [(2, [50; 1; 7; 1])]%N.
Proof. repeat split. Qed.
