(* Properties/C12.v — statements only.
   C12: outstation replies are well-formed, correlated, bounded, and report rejections.
   Everything is stated over the session model Outstation/Session.v:
     ostep cfg s event answers = (s', observations),  OTx dest bytes = a fragment handed to the transport.
   `Reach AP cfg s`: s is reached from start-up (ostart) by any sequence of steps (ostep) whose
   answers of the environment satisfy AP; `any_answers` is the trivial AP.  Definitions used in the
   statements (all in Outstation/SessionC12Proofs.v and SessionLemmas_c12.v): no_tx o = "o is not an
   OTx", rx_state, frame_id_next, unsol_txs / chain_ok / last_tx / U / run_obs / ofinal (section 3),
   hdr_rejected and the per-function *_rejects predicates (section 5), the echo groups (section 6). *)
From Dnp3V Require Import Outstation.Session Outstation.SessionLemmas_c12 Outstation.SessionC12Proofs.
Import ListNotations.
Open Scope N_scope.

(* ---------- 1. shape of every transmitted fragment ---------------------------------------------- *)

(* every OTx of any step from any reachable state: at least a response header; function code 129
   (then UNS is clear) or 130 (then FIR, FIN, CON, UNS are all set and it goes to the configured master) *)
Theorem C12_tx_shape : forall cfg s ev answers dest bytes,
  Reach any_answers cfg s ->
  In (OTx dest bytes) (snd (ostep cfg s ev answers)) ->
  (4 <= length bytes)%nat /\
  (nth 1 bytes 0 = 129 \/ nth 1 bytes 0 = 130) /\
  (nth 1 bytes 0 = 129 -> N.testbit (nth 0 bytes 0) 4 = false) /\
  (nth 1 bytes 0 = 130 -> 240 <= nth 0 bytes 0 < 256 /\ dest = o_master cfg).
Proof. exact tx_shape. Qed.
Print Assumptions C12_tx_shape.

Theorem C12_tx_shape_start : forall cfg sel op iin a0 dest bytes,
  In (OTx dest bytes) (snd (ostart cfg sel op iin a0)) ->
  (4 <= length bytes)%nat /\
  (nth 1 bytes 0 = 129 \/ nth 1 bytes 0 = 130) /\
  (nth 1 bytes 0 = 129 -> N.testbit (nth 0 bytes 0) 4 = false) /\
  (nth 1 bytes 0 = 130 -> 240 <= nth 0 bytes 0 < 256 /\ dest = o_master cfg).
Proof. exact tx_shape_start. Qed.
Print Assumptions C12_tx_shape_start.

(* Reach, spelled out *)
Theorem C12_Reach_spec : forall AP cfg s,
  Reach AP cfg s <->
  ((exists sel op iin a0, AP a0 /\ s = fst (ostart cfg sel op iin a0)) \/
   (exists s0 ev ans, Reach AP cfg s0 /\ AP ans /\ s = fst (ostep cfg s0 ev ans))).
Proof. exact Reach_spec. Qed.
Print Assumptions C12_Reach_spec.

(* at the boundaries of a step no fragment is left unprocessed, and a deferred READ exists only while
   an unsolicited confirmation is awaited (the idle loop provably never runs out of fuel) *)
Theorem C12_no_pending_at_step_boundaries : forall AP cfg s,
  Reach AP cfg s ->
  s_pending s = None /\ (s_deferred s <> None -> exists resp n k dl, s_control s = CUnsolWait resp n k dl).
Proof. exact no_pending_at_step_boundaries. Qed.
Print Assumptions C12_no_pending_at_step_boundaries.

(* ---------- 2. solicited responses are correlated ------------------------------------------------- *)

(* an accepted unicast request processed from idle: the step starts with IIdleRequest fn seq, and
   EVERY solicited fragment of the step goes to the sender with the request's sequence number
   (all classifications but the verbatim retransmission of a non-READ request, next theorem) *)
Theorem C12_solicited_correlated : forall AP cfg s from bytes d answers ctl fn obj,
  Reach AP cfg s -> s_control s = CIdle ->
  to_treq cfg from d = TqRequest ctl fn obj ->
  (forall last, classify s None bytes ctl fn obj <> FtRepeatNonRead last) ->
  (exists rest, snd (ostep cfg s (ERx from None bytes d) answers) = OInfo (IIdleRequest fn (ctl_seq ctl)) :: rest) /\
  Forall (fun o => match o with
                   | OTx dest b => nth 1 b 0 = 129 -> dest = from /\ ctl_seq (nth 0 b 0) = ctl_seq ctl
                   | _ => True
                   end) (snd (ostep cfg s (ERx from None bytes d) answers)).
Proof. exact solicited_correlated. Qed.
Print Assumptions C12_solicited_correlated.

(* the retransmission: same sequence number and same bytes as the recorded last request; every
   solicited fragment of the step is the recorded response, sent to the sender *)
Theorem C12_solicited_repeat : forall AP cfg s from bytes d answers ctl fn obj last,
  Reach AP cfg s -> s_control s = CIdle ->
  to_treq cfg from d = TqRequest ctl fn obj ->
  classify s None bytes ctl fn obj = FtRepeatNonRead last ->
  (exists l, s_last s = Some l /\ lr_seq l = ctl_seq ctl /\ lr_bytes l = bytes /\ lr_response l = last) /\
  Forall (fun o => match o with
                   | OTx dest b => nth 1 b 0 = 129 ->
                                   dest = from /\ exists r buf, last = Some r /\ b = response_bytes r buf
                   | _ => True
                   end) (snd (ostep cfg s (ERx from None bytes d) answers)).
Proof. exact solicited_repeat. Qed.
Print Assumptions C12_solicited_repeat.

(* the fragment following a solicited confirm: confirmed sequence + 1 mod 16, FIR clear *)
Theorem C12_next_fragment_sequence : forall AP cfg s answers from bytes d se dl r ctl obj,
  Reach AP cfg s ->
  s_control s = CSolWait se dl r -> se_fin se = false ->
  to_treq cfg from d = TqRequest ctl 0 obj -> ctl_uns ctl = false -> ctl_seq ctl = se_ecsn se ->
  exists pre b post,
    snd (on_rx cfg (upd_answers s answers) from None bytes d) = pre ++ OTx from b :: post /\
    Forall no_tx pre /\
    Forall (fun o => match o with OTx _ b' => nth 1 b' 0 = 130 | _ => True end) post /\
    nth 1 b 0 = 129 /\
    ctl_seq (nth 0 b 0) = seq16_next (se_ecsn se) /\ N.testbit (nth 0 b 0) 7 = false.
Proof. exact next_fragment_sequence. Qed.
Print Assumptions C12_next_fragment_sequence.

(* a READ arriving during an unsolicited confirm wait is deferred with its sequence number and source *)
Theorem C12_deferred_read_recorded : forall cfg s resp from bytes d fid ctl obj hdrs rh,
  to_treq cfg from d = TqRequest ctl fn_read obj ->
  (classify s None bytes ctl fn_read obj = FtNewRead hdrs rh \/
   exists last, classify s None bytes ctl fn_read obj = FtRepeatRead last hdrs rh) ->
  exists s',
    unsol_wait_fragment cfg s resp from None bytes d fid = (s', None, []) /\
    exists x, s_deferred s' = Some {| df_bytes := bytes; df_seq := ctl_seq ctl; df_from := from; df_iin2 := x |}.
Proof. exact deferred_read_recorded. Qed.
Print Assumptions C12_deferred_read_recorded.

(* ... and is answered with exactly one solicited fragment, FIR set, own sequence number, to its source *)
Theorem C12_deferred_read_answered : forall cfg s ns df,
  s_deferred s = Some df ->
  exists pre b post,
    snd (handle_deferred cfg s ns) = pre ++ OTx (df_from df) b :: post /\
    Forall no_tx pre /\ Forall no_tx post /\ nth 1 b 0 = 129 /\
    ctl_seq (nth 0 b 0) = df_seq df mod 16 /\ N.testbit (nth 0 b 0) 7 = true /\
    s_deferred (fst (handle_deferred cfg s ns)) = None.
Proof. exact deferred_read_answered. Qed.
Print Assumptions C12_deferred_read_answered.

(* ---------- 3. numbering of unsolicited responses -------------------------------------------------- *)

(* along any run (start-up, then any events with any answers): each unsolicited fragment repeats its
   predecessor byte for byte or carries the predecessor's sequence number + 1 mod 16 *)
Theorem C12_unsolicited_numbering : forall cfg sel op iin a0 evs,
  chain_ok None (unsol_txs (run_obs cfg sel op iin a0 evs)).
Proof. exact unsolicited_numbering. Qed.
Print Assumptions C12_unsolicited_numbering.

(* chain_ok, spelled out for two neighbours *)
Theorem C12_chain_ok_neighbours : forall l1 a b l2,
  chain_ok None (l1 ++ a :: b :: l2) ->
  b = a \/ ctl_seq (nth 0 b 0) = seq16_next (ctl_seq (nth 0 a 0)).
Proof. exact chain_ok_neighbours. Qed.
Print Assumptions C12_chain_ok_neighbours.

(* the state after the run against the trace: s_unsol_seq < 16 is the successor of the last
   unsolicited sequence number sent; in the confirm wait the fragment kept for retries is the last one sent *)
Theorem C12_unsolicited_state_tracks_trace : forall cfg sel op iin a0 evs,
  let s := ofinal cfg (fst (ostart cfg sel op iin a0)) evs in
  let prev := last_tx None (unsol_txs (run_obs cfg sel op iin a0 evs)) in
  s_unsol_seq s < 16 /\
  (forall p, prev = Some p -> seq16_next (ctl_seq (nth 0 p 0)) = s_unsol_seq s) /\
  (forall resp n k dl, s_control s = CUnsolWait resp n k dl -> prev = Some (response_bytes resp (s_unsol_buf s))).
Proof. exact unsolicited_state_tracks_trace. Qed.
Print Assumptions C12_unsolicited_state_tracks_trace.

(* a NEW unsolicited response (null or data) takes s_unsol_seq and advances it mod 16 *)
Theorem C12_new_unsolicited_sequence : forall cfg s s' ns o,
  s_unsol_seq s < 16 -> check_unsolicited cfg s = (s', ns, o) ->
  (unsol_txs o = [] /\ s_unsol_seq s' = s_unsol_seq s /\ s_control s' = s_control s) \/
  (exists resp n k dl b,
     s_control s' = CUnsolWait resp n k dl /\ b = response_bytes resp (s_unsol_buf s') /\
     unsol_txs o = [b] /\ nth 1 b 0 = 130 /\ 240 <= nth 0 b 0 /\ ctl_seq (nth 0 b 0) = s_unsol_seq s /\
     s_unsol_seq s' = seq16_next (s_unsol_seq s) /\ In (OTx (o_master cfg) b) o).
Proof. exact new_unsolicited_sequence. Qed.
Print Assumptions C12_new_unsolicited_sequence.

(* a retry re-sends the kept fragment unchanged and leaves s_unsol_seq alone *)
Theorem C12_unsolicited_retry_same_bytes : forall cfg s resp n k dl,
  s_control s = CUnsolWait resp n k dl ->
  k <> Some 0%nat -> s_deferred s = None ->
  fire_deadline cfg s =
  (upd_control s (CUnsolWait resp n (match k with Some (S m) => Some m | x => x end) (confirm_deadline cfg s)),
   [OInfo (IUnsolTimeout (ctl_seq (r_ctl resp)) true); OTx (o_master cfg) (response_bytes resp (s_unsol_buf s))]).
Proof. exact unsolicited_retry_same_bytes. Qed.
Print Assumptions C12_unsolicited_retry_same_bytes.

Theorem C12_unsol_seq_bounded : forall AP cfg s, Reach AP cfg s -> s_unsol_seq s < 16.
Proof. exact unsol_seq_bounded. Qed.
Print Assumptions C12_unsol_seq_bounded.

(* ---------- 4. function codes that forbid a reply ---------------------------------------------------- *)

(* well-formed unicast CONFIRM / DIRECT_OPERATE_NR / IMMED_FREEZE_NR / FREEZE_CLEAR_NR /
   FREEZE_AT_TIME_NR from idle: no solicited fragment in the whole step; any fragment of the step is an
   unsolicited response (130) the idle loop started on its own *)
Theorem C12_no_reply_functions : forall AP cfg s from bytes d answers ctl fn hdrs rh,
  Reach AP cfg s -> s_control s = CIdle ->
  to_treq cfg from d = TqRequest ctl fn (ObjOk hdrs rh) ->
  In fn [0; 6; 8; 10; 12] ->
  (forall r, classify s None bytes ctl fn (ObjOk hdrs rh) <> FtRepeatNonRead (Some r)) ->
  Forall (fun o => match o with OTx _ b => nth 1 b 0 = 130 | _ => True end)
         (snd (ostep cfg s (ERx from None bytes d) answers)).
Proof. exact no_reply_functions. Qed.
Print Assumptions C12_no_reply_functions.

(* broadcast requests: no solicited fragment from on_rx, in any reachable state, whatever they hold *)
Theorem C12_no_solicited_tx_for_broadcast : forall AP cfg s answers from m bytes d,
  Reach AP cfg s ->
  Forall (fun o => match o with OTx _ b => nth 1 b 0 = 130 | _ => True end)
         (snd (on_rx cfg (upd_answers s answers) from (Some m) bytes d)).
Proof. exact no_solicited_tx_for_broadcast. Qed.
Print Assumptions C12_no_solicited_tx_for_broadcast.

(* ---------- 5. rejections are reported ------------------------------------------------------------------ *)

(* what hdr_rejected means *)
Theorem C12_hdr_rejected_spec : forall cfg fn hdrs,
  hdr_rejected cfg fn hdrs <->
  (fn_executed fn = false \/
   (fn = 2 /\ existsb (write_rejects cfg) hdrs = true) \/
   (In fn [3; 4; 5] /\ existsb (fun h => negb (is_ctl_hdr h)) hdrs = true) \/
   ((fn = 7 \/ fn = 9) /\ existsb (freeze_rejects cfg) hdrs = true) \/
   (fn = 11 /\ existsb (freeze_at_time_rejects cfg) hdrs = true) \/
   ((fn = 20 \/ fn = 21) /\ (o_unsol cfg = false \/ existsb (fun h => negb (unsol_class_hdr h)) hdrs = true)) \/
   (In fn [13; 14; 23; 24] /\ hdrs <> [])).
Proof. exact hdr_rejected_spec. Qed.
Print Assumptions C12_hdr_rejected_spec.

(* a new (not retransmitted) unicast request from idle that is malformed (the digest's IIN2 is one of
   1, 2, 4), unsupported, or of which a header is rejected, is answered in the same step by a
   solicited fragment to the sender, with the request's sequence number and one of IIN2.0/1/2 set *)
Theorem C12_rejection_reported : forall AP cfg s from bytes d answers ctl fn obj,
  Reach AP cfg s -> s_control s = CIdle ->
  to_treq cfg from d = TqRequest ctl fn obj -> fn <> 0 ->
  (forall last, classify s None bytes ctl fn obj <> FtRepeatNonRead last) ->
  match obj with
  | ObjErr iin2 => N.land iin2 7 <> 0
  | ObjOk hdrs _ => fn <> 1 /\ hdr_rejected cfg fn hdrs
  end ->
  exists pre b post,
    snd (ostep cfg s (ERx from None bytes d) answers) = pre ++ OTx from b :: post /\ Forall no_tx pre /\
    nth 1 b 0 = 129 /\ ctl_seq (nth 0 b 0) = ctl_seq ctl /\ N.land (nth 3 b 0) 7 <> 0.
Proof. exact rejection_reported. Qed.
Print Assumptions C12_rejection_reported.

(* unknown function codes and invalid header flags (the reader's TqError with a sequence number) *)
Theorem C12_header_error_reported : forall AP cfg s from bytes d answers q,
  Reach AP cfg s -> s_control s = CIdle ->
  to_treq cfg from d = TqError (Some q) ->
  exists pre b post,
    snd (ostep cfg s (ERx from None bytes d) answers) = pre ++ OTx from b :: post /\ Forall no_tx pre /\
    Forall (fun o => match o with OTx _ b' => nth 1 b' 0 = 130 | _ => True end) post /\
    nth 1 b 0 = 129 /\ ctl_seq (nth 0 b 0) = q mod 16 /\ N.land (nth 3 b 0) 1 = 1.
Proof. exact header_error_reported. Qed.
Print Assumptions C12_header_error_reported.

(* ---------- 6. sizes -------------------------------------------------------------------------------------- *)

(* when the database respects the cursor it is given (in every step of the history, start-up included) *)
Theorem C12_fits : forall cfg s ev answers dest bytes,
  (10 <= o_sol_tx cfg)%nat ->
  Reach (Forall (fun a => match a with AWrite _ _ body => (length body <= o_sol_tx cfg - 4)%nat | _ => True end)) cfg s ->
  Forall (fun a => match a with AWrite _ _ body => (length body <= o_sol_tx cfg - 4)%nat | _ => True end) answers ->
  In (OTx dest bytes) (snd (ostep cfg s ev answers)) -> nth 1 bytes 0 = 129 ->
  (length bytes <= o_sol_tx cfg)%nat.
Proof. exact fits. Qed.
Print Assumptions C12_fits.

(* the control echo, whatever the capacity: complete (header, count, items) groups, count = number of
   items, a prefix of the request's groups and items, cut only at an item boundary *)
Theorem C12_echo_wellformed : forall s cfg cap mode num started hdrs echo ok cbs st started',
  ctl_headers s cfg cap mode [] num started hdrs = (echo, ok, cbs, st, started') ->
  exists gs,
    echo = groups_bytes gs /\
    (length echo <= cap)%nat /\
    Forall2 group_echoes gs (firstn (length gs) (req_groups hdrs)) /\
    (ok = true -> length gs = length (req_groups hdrs) /\
                  Forall2 (fun e r => length (eg_items e) = length (eg_items r)) gs (req_groups hdrs)).
Proof. exact echo_wellformed. Qed.
Print Assumptions C12_echo_wellformed.

Theorem C12_group_bytes_spec : forall g v prefix items,
  group_bytes g v prefix items =
  [g; v; qualifier_of prefix] ++ count_bytes prefix (N.of_nat (length items)) ++
  concat (map (fun it => index_bytes prefix (fst it) ++ snd it) items).
Proof. exact group_bytes_spec. Qed.
Print Assumptions C12_group_bytes_spec.

(* ---------- 2 and 4 at full strength: retransmissions ------------------------------------------------- *)

(* In the model the received bytes and the parser's digest of them are independent inputs; in the
   implementation the digest is computed from the bytes.  `ReachD cfg dg s`: s is reached by a history
   in which every received fragment's digest is `dg bytes`, for one function dg (ev_ok dg).  Then the
   retransmission case needs no side condition: EVERY accepted unicast request processed from idle is
   answered, if at all, to its sender and with its own sequence number ... *)
Theorem C12_solicited_correlated_full : forall cfg dg s from bytes answers ctl fn obj,
  ReachD cfg dg s -> s_control s = CIdle ->
  to_treq cfg from (dg bytes) = TqRequest ctl fn obj ->
  (exists rest, snd (ostep cfg s (ERx from None bytes (dg bytes)) answers) = OInfo (IIdleRequest fn (ctl_seq ctl)) :: rest) /\
  Forall (fun o => match o with
                   | OTx dest b => nth 1 b 0 = 129 -> dest = from /\ ctl_seq (nth 0 b 0) = ctl_seq ctl
                   | _ => True
                   end) (snd (ostep cfg s (ERx from None bytes (dg bytes)) answers)).
Proof. exact solicited_correlated_full. Qed.
Print Assumptions C12_solicited_correlated_full.

(* ... and a well-formed CONFIRM / DIRECT_OPERATE_NR / IMMED_FREEZE_NR / FREEZE_CLEAR_NR /
   FREEZE_AT_TIME_NR is never answered, retransmitted or not *)
Theorem C12_no_reply_functions_full : forall cfg dg s from bytes answers ctl fn hdrs rh,
  ReachD cfg dg s -> s_control s = CIdle ->
  to_treq cfg from (dg bytes) = TqRequest ctl fn (ObjOk hdrs rh) ->
  In fn [0; 6; 8; 10; 12] ->
  Forall (fun o => match o with OTx _ b => nth 1 b 0 = 130 | _ => True end)
         (snd (ostep cfg s (ERx from None bytes (dg bytes)) answers)).
Proof. exact no_reply_functions_full. Qed.
Print Assumptions C12_no_reply_functions_full.

(* ReachD, spelled out *)
Theorem C12_ReachD_spec : forall cfg dg s,
  ReachD cfg dg s <->
  ((exists sel op iin a0, s = fst (ostart cfg sel op iin a0)) \/
   (exists s0 ev ans, ReachD cfg dg s0 /\
      match ev with ERx _ _ bytes d => d = dg bytes | _ => True end /\ s = fst (ostep cfg s0 ev ans))).
Proof. exact ReachD_spec. Qed.
Print Assumptions C12_ReachD_spec.

(* ---------- non-vacuity ------------------------------------------------------------------------------------ *)

Definition c12_cfg : ocfg :=
  {| o_master := 1; o_any_master := false; o_unsol := true; o_broadcast := true;
     o_confirm_ms := 5000; o_select_ms := 5000; o_retries := Some 2%nat; o_retry_delay_ms := 1000;
     o_max_controls := Some 4; o_sol_tx := 249%nat; o_delay_ms := 0; o_cold := None; o_warm := None;
     o_wtime := 0; o_freeze := 0 |}.

Definition c12_a0 : list answer := [AEvinfo false false false false].

(* null unsolicited times out and is re-issued with the next number, then confirmed *)
Definition c12_prefix : list (oevent * list answer) :=
  [ (ESleep 5000, [AEvinfo false false false false]);
    (ERx 1 None [209; 0] (DOk 209 0 RvOk (ObjOk [] [])), []) ].

(* WRITE g80 index 4 (rejected) / unknown function 70 / DIRECT_OPERATE_NR / broadcast WRITE /
   foreign master / two-fragment READ with its confirm / stray CONFIRM / READ with an unknown object /
   too short / invalid header flags *)
Definition c12_rest : list (oevent * list answer) :=
  [ (ERx 1 None [193; 2; 80; 1] (DOk 193 2 RvOk (ObjOk [WIin [(4, false)]] [])), [AEvinfo false false false false]);
    (ERx 1 None [194; 70] (DOk 194 70 RvOk (ObjOk [] [])), [AEvinfo false false false false]);
    (ERx 1 None [195; 6; 12; 1] (DOk 195 6 RvOk (ObjOk [WCtl 12 1 1 [(3, [1; 1; 0])]] [])), []);
    (ERx 1 (Some BOptional) [196; 2; 80; 1] (DOk 196 2 RvOk (ObjOk [WIin [(7, false)]] [])), []);
    (ERx 9 None [197; 1; 60; 1] (DOk 197 1 RvOk (ObjOk [] [true])), []);
    (ERx 1 None [198; 1; 60; 2; 6] (DOk 198 1 RvOk (ObjOk [WOther] [true])),
       [AIin2 0; AWrite false true [1; 2; 3]; AEvinfo true false false false]);
    (ERx 1 None [198; 0] (DOk 198 0 RvOk (ObjOk [] [])), [AWrite true false [4; 5]; AEvinfo false false false false]);
    (ERx 1 None [199; 0] (DOk 199 0 RvOk (ObjOk [] [])), []);
    (ERx 1 None [200; 1; 1] (DOk 200 1 RvOk (ObjErr 2)), [AEvinfo false false false false]);
    (ERx 1 None [17; 3] DInsuf, []);
    (ERx 1 None [201; 3] (DOk 201 3 RvBad (ObjOk [] [])), [AEvinfo false false false false]) ].

Example C12_history_instance :
  snd (ostart c12_cfg 0 0 0 c12_a0) = [ODb DbEvinfo; OTx 1 [240; 130; 128; 0]; OInfo (IEnterUnsolWait 0)] /\
  orun c12_cfg (fst (ostart c12_cfg 0 0 0 c12_a0)) (c12_prefix ++ c12_rest) =
  [ [OAt 5000; OInfo (IUnsolTimeout 0 false); ODb DbEvinfo; OTx 1 [241; 130; 128; 0]; OInfo (IEnterUnsolWait 1)];
    [OInfo (IUnsolConfirmed 1)];
    [OInfo (IIdleRequest 2 1); ODb DbEvinfo; OTx 1 [193; 129; 128; 4]];
    [OInfo (IIdleRequest 70 2); ODb DbEvinfo; OTx 1 [194; 129; 128; 1]];
    [OInfo (IIdleRequest 6 3); OCb CbBeginFragment; OCb (CbOperate 12 1 3 OpDoNr [1; 1; 0]); OCb CbEndFragment];
    [OInfo (IIdleRequest 2 4); OInfo IClearRestart; OInfo (IBroadcast 2 0 0)];
    [];
    [OInfo (IIdleRequest 1 6); ODb DbSelect; ODb DbWrite; ODb DbEvinfo; OTx 1 [166; 129; 3; 0; 1; 2; 3];
     OInfo (IEnterSolWait 6)];
    [OInfo (ISolConfirmed 6); ODb DbClearWritten; ODb DbWrite; ODb DbEvinfo; OTx 1 [71; 129; 0; 0; 4; 5]];
    [OInfo (IIdleRequest 0 7)];
    [OInfo (IIdleRequest 1 8); ODb DbEvinfo; OTx 1 [200; 129; 0; 2]];
    [];
    [ODb DbEvinfo; OTx 1 [201; 129; 0; 1]] ].
Proof. split; vm_compute; reflexivity. Qed.

(* the idle state after the prefix: reachable (also under the size hypothesis of C12_fits), and the
   hypotheses of C12_solicited_correlated / C12_rejection_reported hold for the WRITE of c12_rest *)
Definition c12_idle : ostate := ofinal c12_cfg (fst (ostart c12_cfg 0 0 0 c12_a0)) c12_prefix.

Example C12_hypotheses_instance :
  Reach any_answers c12_cfg c12_idle /\
  Reach (Forall (fun a => match a with AWrite _ _ body => (length body <= o_sol_tx c12_cfg - 4)%nat | _ => True end))
        c12_cfg c12_idle /\
  s_control c12_idle = CIdle /\
  to_treq c12_cfg 1 (DOk 193 2 RvOk (ObjOk [WIin [(4, false)]] [])) = TqRequest 193 2 (ObjOk [WIin [(4, false)]] []) /\
  (forall last, classify c12_idle None [193; 2; 80; 1] 193 2 (ObjOk [WIin [(4, false)]] []) <> FtRepeatNonRead last) /\
  hdr_rejected c12_cfg 2 [WIin [(4, false)]] /\
  hdr_rejected c12_cfg 70 [] /\
  to_treq c12_cfg 1 (DOk 201 3 RvBad (ObjOk [] [])) = TqError (Some 9) /\
  to_treq c12_cfg 9 (DOk 197 1 RvOk (ObjOk [] [true])) = TqNone.
Proof.
  split; [|split].
  - apply Reach_ofinal; [apply Reach_start; exact I|]. repeat constructor.
  - apply Reach_ofinal; [apply Reach_start; repeat constructor|]. repeat constructor.
  - split; [vm_compute; reflexivity|]. split; [vm_compute; reflexivity|].
    split; [intros last; vm_compute; discriminate|].
    split; [right; left; split; reflexivity|]. split; [left; reflexivity|].
    split; vm_compute; reflexivity.
Qed.

(* a control echo cut at an item boundary: capacity 20, the second header loses its second item *)
Example C12_echo_truncated_instance : forall s cfg,
  ctl_headers s cfg 20 (CmStatus 4) [] 0 false
    [WCtl 12 1 1 [(3, [1; 1; 0])]; WCtl 12 1 2 [(5, [2; 2; 0]); (6, [3; 3; 0])]]
  = ([12; 1; 23; 1; 3; 1; 1; 4;   12; 1; 40; 1; 0; 5; 0; 2; 2; 4], false, [], 4, false).
Proof. intros. vm_compute. reflexivity. Qed.

(* retransmissions: the WRITE answered again with the recorded response (no new IIN query), the
   DIRECT_OPERATE_NR neither executed again nor answered *)
Example C12_retransmission_instance :
  orun c12_cfg c12_idle
    [ (ERx 1 None [193; 2; 80; 1] (DOk 193 2 RvOk (ObjOk [WIin [(4, false)]] [])), [AEvinfo false false false false]);
      (ERx 1 None [193; 2; 80; 1] (DOk 193 2 RvOk (ObjOk [WIin [(4, false)]] [])), [AEvinfo false false false false]);
      (ERx 1 None [195; 6; 12; 1] (DOk 195 6 RvOk (ObjOk [WCtl 12 1 1 [(3, [1; 1; 0])]] [])), []);
      (ERx 1 None [195; 6; 12; 1] (DOk 195 6 RvOk (ObjOk [WCtl 12 1 1 [(3, [1; 1; 0])]] [])), []) ]
  = [ [OInfo (IIdleRequest 2 1); ODb DbEvinfo; OTx 1 [193; 129; 128; 4]];
      [OInfo (IIdleRequest 2 1); OTx 1 [193; 129; 128; 4]];
      [OInfo (IIdleRequest 6 3); OCb CbBeginFragment; OCb (CbOperate 12 1 3 OpDoNr [1; 1; 0]); OCb CbEndFragment];
      [OInfo (IIdleRequest 6 3)] ].
Proof. vm_compute. reflexivity. Qed.

(* a digest function for these fragments, and the idle state reached under it *)
Definition c12_dg (bytes : list N) : digest :=
  if bytes_eqb bytes [209; 0] then DOk 209 0 RvOk (ObjOk [] [])
  else if bytes_eqb bytes [193; 2; 80; 1] then DOk 193 2 RvOk (ObjOk [WIin [(4, false)]] [])
  else if bytes_eqb bytes [195; 6; 12; 1] then DOk 195 6 RvOk (ObjOk [WCtl 12 1 1 [(3, [1; 1; 0])]] [])
  else DInsuf.

Example C12_ReachD_instance :
  ReachD c12_cfg c12_dg c12_idle /\
  to_treq c12_cfg 1 (c12_dg [195; 6; 12; 1]) = TqRequest 195 6 (ObjOk [WCtl 12 1 1 [(3, [1; 1; 0])]] []).
Proof.
  split; [|vm_compute; reflexivity].
  unfold c12_idle, c12_prefix. cbn [ofinal].
  apply ReachD_step; [apply ReachD_step; [apply ReachD_start|exact I]|reflexivity].
Qed.

(* ---- the model's tables are the code's tables (gen/SessionTables.v, regenerated from the Rust source on every run by
   tools/gen/gen_session_tables.py; the interpretation of each table: Outstation/TablesAgree.v) ------------------- *)
From Dnp3V Require Import App.AppHeader App.Grammar Outstation.Full gen.SessionTables Outstation.TablesAgree.

(* `impl From<ObjectParseError> for Iin2`: the IIN2 bit of every object error of the model *)
Theorem C12_tables_obj_err_iin2 : forall e : aobj_err,
  ta_obj_err_iin2 (ta_obj_err e) = Some (iin2_of_obj_err e).
Proof. exact tables_obj_err_iin2. Qed.
Print Assumptions C12_tables_obj_err_iin2.

(* the function codes of Session.v are FunctionCode::as_u8 *)
Theorem C12_tables_function_codes :
  [fn_confirm; fn_read; fn_write; fn_select; fn_operate; fn_direct_operate; fn_direct_operate_nr;
   fn_immediate_freeze; fn_immediate_freeze_nr; fn_freeze_clear; fn_freeze_clear_nr; fn_freeze_at_time;
   fn_freeze_at_time_nr; fn_cold_restart; fn_warm_restart; fn_enable_unsol; fn_disable_unsol;
   fn_delay_measure; fn_record_time; fn_response; fn_unsol_response]
  = [tb_fc_confirm; tb_fc_read; tb_fc_write; tb_fc_select; tb_fc_operate; tb_fc_direct_operate;
     tb_fc_direct_operate_no_response; tb_fc_immediate_freeze; tb_fc_immediate_freeze_no_response;
     tb_fc_freeze_clear; tb_fc_freeze_clear_no_response; tb_fc_freeze_at_time; tb_fc_freeze_at_time_no_response;
     tb_fc_cold_restart; tb_fc_warm_restart; tb_fc_enable_unsolicited; tb_fc_disable_unsolicited;
     tb_fc_delay_measure; tb_fc_record_current_time; tb_fc_response; tb_fc_unsolicited_response].
Proof. exact tables_function_codes. Qed.
Print Assumptions C12_tables_function_codes.

(* FunctionInfo::objects_allowed (gen/FunctionCodes.v) *)
Theorem C12_tables_objects_allowed : forall fn b, In (fn, b) function_codes -> objects_allowed fn = b.
Proof. exact tables_objects_allowed. Qed.
Print Assumptions C12_tables_objects_allowed.

(* handle_non_read: for every function code, in every state, the model does what the row of `match function` (or its
   `_` arm) says, then get_iin2 *)
Theorem C12_tables_non_read_dispatch : forall cfg s fn seq frame_id bytes hdrs, fn < 256 ->
  handle_non_read cfg s fn seq frame_id bytes hdrs = ta_handle_non_read cfg s fn seq frame_id bytes hdrs.
Proof. exact tables_non_read_dispatch. Qed.
Print Assumptions C12_tables_non_read_dispatch.

(* the function codes whose arm ends in `None` are not answered *)
Theorem C12_tables_non_read_no_ack : forall cfg s fn seq frame_id bytes hdrs h, fn < 256 ->
  ta_non_read_lookup fn = Some (h, TbReplyNever) ->
  snd (fst (handle_non_read cfg s fn seq frame_id bytes hdrs)) = None.
Proof. exact tables_non_read_no_ack. Qed.
Print Assumptions C12_tables_non_read_no_ack.

(* the function codes without an arm are answered with NO_FUNC_CODE_SUPPORT (and PARAMETER_ERROR for objects that
   the function does not allow) and nothing else happens *)
Theorem C12_tables_non_read_unsupported : forall cfg s fn seq frame_id bytes hdrs, fn < 256 ->
  ta_non_read_lookup fn = None ->
  handle_non_read cfg s fn seq frame_id bytes hdrs =
  (s, Some (with_iin2 (empty_solicited seq tb_iin2_no_func_code_support)
                      (if objects_allowed fn then 0 else match hdrs with [] => 0 | _ => tb_iin2_parameter_error end)), []).
Proof. exact tables_non_read_unsupported. Qed.
Print Assumptions C12_tables_non_read_unsupported.

(* handle_controls: which control type is answered when a header is not a control header, and otherwise *)
Theorem C12_tables_controls_bad_header : forall cfg s ct seq frame_id bytes hdrs, all_controls hdrs = false ->
  handle_controls cfg s (ta_ct_code ct) seq frame_id bytes hdrs =
  (s, if fst (ta_controls_reply ct) then Some (empty_solicited seq tb_controls_bad_header_iin2) else None, []).
Proof. exact tables_controls_bad_header. Qed.
Print Assumptions C12_tables_controls_bad_header.

Theorem C12_tables_controls_reply : forall cfg s ct seq frame_id bytes hdrs, all_controls hdrs = true ->
  match snd (fst (handle_controls cfg s (ta_ct_code ct) seq frame_id bytes hdrs)) with
  | Some _ => snd (ta_controls_reply ct) = true
  | None => snd (ta_controls_reply ct) = false
  end.
Proof. exact tables_controls_reply. Qed.
Print Assumptions C12_tables_controls_reply.

(* process_broadcast_get_action: which functions a broadcast may carry, and with which handler *)
Theorem C12_tables_broadcast_dispatch : forall cfg s m frame_id ctl fn bytes obj, fn < 256 ->
  process_broadcast cfg s m frame_id ctl fn bytes obj = ta_process_broadcast cfg s m frame_id ctl fn bytes obj.
Proof. exact tables_broadcast_dispatch. Qed.
Print Assumptions C12_tables_broadcast_dispatch.

(* ParsedFragment::to_request / to_response: the checks in the order of the code *)
Theorem C12_tables_to_request : forall h, ato_request h = ta_to_request h.
Proof. exact tables_to_request. Qed.
Print Assumptions C12_tables_to_request.

Theorem C12_tables_to_response : forall h,
  (match ah_iin h with Some _ => true | None => false end) = afunction_has_iin (ah_function h) ->
  ato_response h = ta_to_response h.
Proof. exact tables_to_response. Qed.
Print Assumptions C12_tables_to_response.

Theorem C12_tables_functions_with_iin : forall f, f < 256 ->
  afunction_has_iin f = existsb (N.eqb f) tb_functions_with_iin.
Proof. exact tables_functions_with_iin. Qed.
Print Assumptions C12_tables_functions_with_iin.

(* the tables are not empty and the hypotheses are satisfiable *)
Example C12_tables_instances :
  ta_non_read_lookup 6 = Some (TbHandleControls TbDirectOperateNoAck, TbReplyByHandler) /\
  ta_non_read_lookup 8 = Some (TbHandleFreeze TbImmediateFreeze, TbReplyNever) /\
  ta_non_read_lookup 22 = None /\ ta_broadcast_lookup 23 = None /\
  ta_broadcast_lookup 2 = Some TbHandleWrite /\
  ta_obj_err_iin2 (ta_obj_err (OEUnknownGV 9 9)) = Some 2 /\
  length tb_non_read_dispatch = 17%nat /\ length tb_broadcast_dispatch = 8%nat /\ length tb_obj_err_iin2 = 10%nat.
Proof. vm_compute. repeat split. Qed.

(* ---------- 5 (continued). header errors in every control state, and composed with the parser ----------------- *)
From Dnp3V Require Outstation.SessionC03Proofs.
From Dnp3V Require Import Outstation.FullCorollaries.

(* C12_header_error_reported without the restriction to idle: in the solicited confirm wait the series is aborted
   and the fragment processed as a new request, in the unsolicited confirm wait it is answered inside the wait.
   reports_error from q out = out contains exactly one solicited fragment (everything else transmitted has function
   code 130), sent to `from`, with sequence number q mod 16 and IIN2.0 set (err_resp) *)
Theorem C12_header_error_reported_all : forall cfg from bytes d q,
  to_treq cfg from d = TqError (Some q) ->
  forall AP s answers,
  Reach AP cfg s ->
  exists pre b post,
    snd (ostep cfg s (ERx from None bytes d) answers) = pre ++ OTx from b :: post /\
    Forall not_sol pre /\ Forall not_sol post /\
    nth 1 b 0 = 129 /\ ctl_seq (nth 0 b 0) = q mod 16 /\ N.land (nth 3 b 0) 1 = 1.
Proof. exact header_error_reported_all. Qed.
Print Assumptions C12_header_error_reported_all.

(* Composed (Outstation/Full.v: the digest IS frag_digest of the octets, the database answers are computed;
   fstep F st (FRx from None bytes) is the reception, FReach the reachable states, ro_out (frx_out ..) the session's
   observations of the reception): octets whose digest is DUnknown or carries RvBad, unicast, from an accepted
   master, are answered in every reachable state - idle, solicited confirm wait, unsolicited confirm wait - by
   exactly one solicited response, to the sender, with the sequence number of octet 0 and IIN2 bit 0 set *)
Theorem C12_composed_header_error_reported : forall F st from bytes,
  SessionC03Proofs.FReach F st -> accepted_master (f_o F) from ->
  ((exists seq code, frag_digest bytes = DUnknown seq code) \/
   (exists ctl fn obj, frag_digest bytes = DOk ctl fn RvBad obj)) ->
  exists pre b post,
    ro_out (frx_out F st from None bytes) = pre ++ OTx from b :: post /\
    Forall not_sol pre /\ Forall not_sol post /\
    nth 1 b 0 = 129 /\ (nth 0 b 0) mod 16 = (nth 0 bytes 0) mod 16 /\ N.testbit (nth 3 b 0) 0 = true.
Proof. exact frx_header_error_reported. Qed.
Print Assumptions C12_composed_header_error_reported.

(* which octets these are: octet 1 is not a function code ... *)
Theorem C12_composed_unknown_function_digest : forall c f r,
  afunction_known f = false -> frag_digest (c :: f :: r) = DUnknown (c mod 16) f.
Proof. exact frag_digest_unknown_function. Qed.
Print Assumptions C12_composed_unknown_function_digest.

(* ... or it is a request function code and octet 0 lacks FIR or FIN, or has UNS on anything but a CONFIRM *)
Theorem C12_composed_bad_flags_digest : forall c f r,
  afunction_known f = true -> afunction_has_iin f = false ->
  (N.testbit c 7 = false \/ N.testbit c 6 = false \/ (N.testbit c 4 = true /\ f <> 0)) ->
  exists obj, frag_digest (c :: f :: r) = DOk c f RvBad obj.
Proof. exact frag_digest_bad_flags. Qed.
Print Assumptions C12_composed_bad_flags_digest.

(* non-vacuity (vm_compute in FullCorollaries): function code 70 and a SELECT without FIR, received idle, while a
   response with a class 1 event awaits its confirm, and while the empty unsolicited response of start-up does *)
Example C12_composed_instance :
  SessionC03Proofs.FReach cx_F cx_st0 /\ SessionC03Proofs.FReach cx_F cz_solwait /\ SessionC03Proofs.FReach cy_F cy_waiting /\
  frag_digest [194; 70] = DUnknown 2 70 /\ frag_digest [73; 3] = DOk 73 3 RvBad (ObjOk [] []) /\
  s_control (fs_s cx_st0) = CIdle /\
  s_control (fs_s cz_solwait) = CSolWait {| se_ecsn := 1; se_fin := true |} 5002 RStep2 /\
  (exists resp, s_control (fs_s cy_waiting) = CUnsolWait resp true (Some 0%nat) 5000) /\
  ro_out (frx_out cx_F cx_st0 1 None [194; 70]) = [ODb DbEvinfo; OTx 1 [194; 129; 128; 1]] /\
  ro_out (frx_out cx_F cz_solwait 1 None [194; 70]) =
    [OInfo ISolNewRequest; ODb DbReset; ODb DbEvinfo; OTx 1 [194; 129; 130; 1]] /\
  ro_out (frx_out cy_F cy_waiting 1 None [194; 70]) = [ODb DbEvinfo; OTx 1 [194; 129; 128; 1]] /\
  ro_out (frx_out cx_F cx_st0 1 None [73; 3]) = [ODb DbEvinfo; OTx 1 [201; 129; 128; 1]] /\
  ro_out (frx_out cx_F cz_solwait 1 None [73; 3]) =
    [OInfo ISolNewRequest; ODb DbReset; ODb DbEvinfo; OTx 1 [201; 129; 130; 1]] /\
  ro_out (frx_out cy_F cy_waiting 1 None [73; 3]) = [ODb DbEvinfo; OTx 1 [201; 129; 128; 1]] /\
  SessionC03Proofs.has_replay_error (snd (fstep cx_F cz_solwait (FRx 1 None [194; 70]))) = false /\
  SessionC03Proofs.has_replay_error (snd (fstep cy_F cy_waiting (FRx 1 None [73; 3]))) = false.
Proof. exact ex_frx_header_error. Qed.
