(* Properties/C14.v — statements only. *)
From Dnp3V Require Import Outstation.Session Outstation.SessionProofs.
Open Scope N_scope.
