(* Properties/C14.v — statements only. *)
From Dnp3V Require Import Outstation.Session Outstation.SessionLemmas_c14 Outstation.SessionC14Proofs.
Open Scope N_scope.

(* Vocabulary (Outstation/SessionC14Proofs.v unless said otherwise):
   item                      IEv t ev (the event ev arrives at time t) | IOb o (an observation of the session)
   Trace cfg s tr            s is reached from start-up (ostart, then ostep for ANY events with non-negative
                             sleeps and ANY answers of the environment) and tr is everything seen on the way
   no_fuel tr                the marker OOutOfFuel does not occur (the model's fuel sufficed)
   mrun mon m tr             runs the automaton `mon` over tr: Bad = the history breaks the rule,
                             Dead = OOutOfFuel was met (nothing claimed after), Live m' = accepted
   is_unsol b                the function byte of fragment b is 130 (UNSOLICITED_RESPONSE)
   good s                    the reader holds no fragment and, outside the unsolicited confirm wait,
                             no READ is deferred (SessionLemmas_c14.v)
   started, unsol_ready, kview, set_classes, served, stamp ...   see the definitions; all are computable
                             or first-order descriptions of Session.v's fields. *)

(* ---- 1. unsolicited support disabled: every transmitted fragment is a solicited response (129) ---- *)
Theorem C14_unsol_disabled_silent : forall cfg s tr,
  o_unsol cfg = false -> Trace cfg s tr ->
  forall d b, In (IOb (OTx d b)) tr -> nth 1 b 0 = 129.
Proof. exact unsol_disabled_silent. Qed.
Print Assumptions C14_unsol_disabled_silent.

(* ---- 2. until a confirmation arrives only empty responses, each with the next sequence number ----- *)
(* null_mon (conf, q): an unsolicited fragment seen before any IUnsolConfirmed must be 4 bytes long with
   control byte 240 + q (FIR FIN CON UNS, sequence q); q then advances by one modulo 16 *)
Theorem C14_null_until_confirmed_mon : forall cfg s tr,
  Trace cfg s tr -> mrun null_mon (false, 0) tr <> Bad.
Proof. exact null_until_confirmed_mon. Qed.
Print Assumptions C14_null_until_confirmed_mon.

(* the same in plain terms: in every prefix without a confirmation the k-th unsolicited fragment is
   [240 + k mod 16; 130; iin1; iin2] *)
Theorem C14_null_until_confirmed : forall cfg s tr pre post,
  Trace cfg s tr -> tr = pre ++ post -> no_confirm pre -> no_fuel pre ->
  null_seq 0 (unsol_txs pre).
Proof. exact null_until_confirmed. Qed.
Print Assumptions C14_null_until_confirmed.

(* an empty response is never retried unchanged (zero retries), and it is what NullRequired waits for *)
Theorem C14_null_never_retried : forall cfg s tr r ret dl,
  Trace cfg s tr -> s_control s = CUnsolWait r true ret dl ->
  ret = Some 0%nat /\ r_size r = 0%nat /\ s_unsol s = UNullRequired.
Proof. exact null_never_retried. Qed.
Print Assumptions C14_null_never_retried.

(* ---- 3/4/5. one series at a time ------------------------------------------------------------------- *)
(* series_mon: ODb (DbWriteUnsol c1 c2 c3) needs some class set, an earlier IUnsolConfirmed and nothing
   outstanding; a first unsolicited transmission with more than 4 bytes needs such a DbWriteUnsol just
   before it; while a response is outstanding (from its transmission to IUnsolConfirmed, IUnsolTimeout _
   false, OSessionEnd, the solicited answer sent in a step whose event is a DISABLE_UNSOLICITED
   request to this outstation, or - since the repair of F30 - the report IBroadcast 21 0 _ of a
   DISABLE_UNSOLICITED processed by broadcast, which cancels the series without an answer) every unsolicited transmission follows an IUnsolTimeout _ true, is
   byte-identical to the outstanding one, and there are at most o_retries of them (none for an empty
   response); IUnsolTimeout / IUnsolConfirmed occur only while a response is outstanding *)
Theorem C14_series_accepted : forall cfg s tr,
  Trace cfg s tr -> mrun (series_mon cfg) sm0 tr <> Bad.
Proof. exact series_accepted. Qed.
Print Assumptions C14_series_accepted.

(* the moment event data is sent: ready (no pending retry delay), a class enabled, the triple handed
   to the database is the enabled set, and NullRequired has been left *)
Theorem C14_data_start_conditions : forall cfg x x' b o d bytes,
  check_unsolicited cfg x = (x', b, o) -> In (OTx d bytes) o -> (4 < length bytes)%nat ->
  o_unsol cfg = true /\
  exists dl c1 c2 c3 o',
    s_unsol x = UReady dl /\ unsol_ready x dl = true /\ any_enabled x = true /\ s_enabled x = (c1, c2, c3) /\
    o = ODb (DbWriteUnsol c1 c2 c3) :: o'.
Proof. exact data_start_conditions. Qed.
Print Assumptions C14_data_start_conditions.

(* within a step the enabled set is the one the step began with, or that set changed by the
   ENABLE/DISABLE_UNSOLICITED request of the step's event as enable_disable says; every triple handed
   to the database is one of the two *)
Theorem C14_enabled_classes_step : forall cfg s tr ev a s' o,
  Trace cfg s tr -> no_fuel tr -> ostep cfg s ev a = (s', o) ->
  Forall (classes_ok cfg ev s) o /\ en_rel cfg ev s s'.
Proof. exact enabled_classes_step. Qed.
Print Assumptions C14_enabled_classes_step.

(* ---- 5. timing of re-sends: exactly one confirm timeout after the previous transmission ------------ *)
(* timing_mon: the clock is the arrival time of the event, then the last OAt marker; an unsolicited
   transmission announced by IUnsolTimeout _ true happens at (time of the previous transmission) +
   o_confirm_ms.  Nothing restarts the timer of an unsolicited confirm wait. *)
Theorem C14_retry_timing : forall cfg s tr,
  (0 <= o_confirm_ms cfg)%Z -> Trace cfg s tr -> mrun (timing_mon cfg) tm0 tr <> Bad.
Proof. exact retry_timing. Qed.
Print Assumptions C14_retry_timing.

(* ---- 6. the retry delay -------------------------------------------------------------------------------- *)
(* ns is the NoSleep flag: the idle loop sleeps until the armed instant; with a retry delay of zero that
   instant is not in the future, the sleep returns at once and the loop runs again in the same instant *)
Theorem C14_retry_delay_set : forall cfg s r s' ns o,
  end_unsol cfg s false r = (s', ns, o) -> r <> UrConfirmed ->
  s_unsol s' = UReady (Some (s_now s + o_retry_delay_ms cfg)%Z) /\ s_control s' = CIdle /\
  ns = (o_retry_delay_ms cfg <=? 0)%Z /\ o = [ODb DbReset].
Proof. exact retry_delay_set. Qed.
Print Assumptions C14_retry_delay_set.

Theorem C14_check_not_ready : forall cfg s t,
  s_unsol s = UReady (Some t) -> (s_now s < t)%Z -> check_unsolicited cfg s = (s, false, []).
Proof. exact check_not_ready. Qed.
Print Assumptions C14_check_not_ready.

(* a step from a state whose retry delay runs until t: every unsolicited transmission of the step is
   stamped (by the OAt markers) with a time >= t; and unless the clock reached t the state still waits *)
Theorem C14_retry_delay_respected : forall cfg s tr t ev a s' o,
  Trace cfg s tr -> s_unsol s = UReady (Some t) -> is_uw (s_control s) = false ->
  ostep cfg s ev a = (s', o) -> ~ In OOutOfFuel o ->
  (forall u d b, In (u, OTx d b) (stamp (s_now s) o) -> is_unsol b = true -> (t <= u)%Z) /\
  ((t <= time_after (s_now s) o)%Z \/ (s_unsol s' = UReady (Some t) /\ is_uw (s_control s') = false)).
Proof. exact retry_delay_respected. Qed.
Print Assumptions C14_retry_delay_respected.

(* ---- 7. nothing enabled: no event data, until an ENABLE_UNSOLICITED is processed ----------------------- *)
(* only_resend s: a data-bearing unsolicited fragment is the response outstanding in s (re-sent) *)
Theorem C14_disable_stops : forall cfg s tr ev a s' o,
  Trace cfg s tr -> no_fuel tr -> any_enabled s = false -> is_enable_ev ev = false ->
  ostep cfg s ev a = (s', o) ->
  any_enabled s' = false /\ Forall (only_resend s) o.
Proof. exact disable_stops. Qed.
Print Assumptions C14_disable_stops.

(* ---- 8. a READ during the unsolicited confirm wait ------------------------------------------------------ *)
Theorem C14_read_deferred : forall cfg s resp n ret dl from bytes d ctl hdrs rh,
  s_control s = CUnsolWait resp n ret dl ->
  to_treq cfg from d = TqRequest ctl 1 (ObjOk hdrs rh) ->
  on_rx cfg s from None bytes d =
  (deferred_set (upd_frame_id s (next_fid s)) bytes (ctl_seq ctl) from rh, []).
Proof. exact read_deferred. Qed.
Print Assumptions C14_read_deferred.

Theorem C14_deferred_superseded : forall cfg s resp from bc bytes d fid s1 res o,
  unsol_wait_fragment cfg s resp from bc bytes d fid = (s1, res, o) ->
  match to_treq cfg from d with
  | TqNone => s_deferred s1 = s_deferred s
  | TqError _ => s_deferred s1 = None
  | TqRequest ctl fn obj =>
      match classify s bc bytes ctl fn obj with
      | FtUnsolConfirm _ | FtSolConfirm _ => s_deferred s1 = s_deferred s
      | FtNewRead _ rh | FtRepeatRead _ _ rh =>
          s_deferred s1 = Some {| df_bytes := bytes; df_seq := ctl_seq ctl; df_from := from;
                                  df_iin2 := if forallb (fun b => b) rh then 0 else iin2_param |} /\
          res = None /\ o = []
      | _ => s_deferred s1 = None
      end
  end.
Proof. exact deferred_superseded. Qed.
Print Assumptions C14_deferred_superseded.

Theorem C14_non_read_immediate : forall cfg s resp from bc bytes d fid s1 res o ctl fn obj,
  unsol_wait_fragment cfg s resp from bc bytes d fid = (s1, res, o) ->
  to_treq cfg from d = TqRequest ctl fn obj ->
  match classify s bc bytes ctl fn obj with
  | FtMalformed _ => exists o1 x, o = o1 ++ [x] /\ is_tx_to from (ctl_seq ctl) x /\ Forall evq o1
  | FtNewNonRead _ =>
      noresp_fn fn \/
      exists o1 x, o = o1 ++ [x] /\ is_tx_to from (ctl_seq ctl) x /\ Forall (fun y => exob y \/ evq y) o1
  | FtRepeatNonRead (Some r) => o = [OTx from (response_bytes r (s_sol_buf s))]
  | _ => True
  end.
Proof. exact non_read_immediate. Qed.
Print Assumptions C14_non_read_immediate.

(* the next confirm timeout with a READ pending: no retry, the series ends, the READ is answered *)
Theorem C14_deferred_served_timeout : forall cfg s resp n ret dl df s2 o,
  s_control s = CUnsolWait resp n ret dl -> s_deferred s = Some df ->
  fire_deadline cfg s = (s2, o) ->
  exists ans tl,
    o = OInfo (IUnsolTimeout (ctl_seq (r_ctl resp)) false) :: (if n then [] else [ODb DbReset]) ++ ans ++ tl /\
    served df ans.
Proof. exact deferred_served_timeout. Qed.
Print Assumptions C14_deferred_served_timeout.

Theorem C14_deferred_served_confirm : forall cfg s resp n ret dl df from bytes d ctl obj s2 o,
  s_control s = CUnsolWait resp n ret dl -> s_deferred s = Some df ->
  to_treq cfg from d = TqRequest ctl fn_confirm obj ->
  ctl_uns ctl = true -> ctl_seq ctl = ctl_seq (r_ctl resp) ->
  on_rx cfg s from None bytes d = (s2, o) ->
  exists ans tl,
    o = OInfo (IUnsolConfirmed (ctl_seq (r_ctl resp))) :: (if n then [] else [ODb DbClearWritten]) ++ ans ++ tl /\
    served df ans.
Proof. exact deferred_served_confirm. Qed.
Print Assumptions C14_deferred_served_confirm.

Theorem C14_deferred_served_sleep : forall cfg s resp n ret dl df ms a s2 o,
  s_control s = CUnsolWait resp n ret dl -> s_deferred s = Some df -> (dl <= s_now s + ms)%Z ->
  ostep cfg s (ESleep ms) a = (s2, o) ->
  exists ans tl,
    o = OAt (Z.max dl (s_now s)) :: OInfo (IUnsolTimeout (ctl_seq (r_ctl resp)) false)
        :: (if n then [] else [ODb DbReset]) ++ ans ++ tl /\
    served df ans.
Proof. exact deferred_served_sleep. Qed.
Print Assumptions C14_deferred_served_sleep.

(* between steps the reader holds nothing and a deferred READ exists only during the wait *)
Theorem C14_between_steps : forall cfg s tr,
  Trace cfg s tr -> In (IOb OOutOfFuel) tr \/ good s.
Proof. exact trace_good. Qed.
Print Assumptions C14_between_steps.

(* ---- the hypotheses are satisfiable: concrete histories -------------------------------------------------- *)

Definition ex_cfg : ocfg := {|
  o_master := 1; o_any_master := false; o_unsol := true; o_broadcast := true;
  o_confirm_ms := 1000; o_select_ms := 5000; o_retries := Some 2%nat; o_retry_delay_ms := 3000;
  o_max_controls := None; o_sol_tx := 2048%nat; o_delay_ms := 0; o_cold := None; o_warm := None;
  o_wtime := 0; o_freeze := 0 |}.

Definition uconf (q : N) : oevent := ERx 1 None [208 + q; 0] (DOk (208 + q) 0 RvOk (ObjOk [] [])).
Definition enable1 (q : N) : oevent :=
  ERx 1 None [192 + q; 20; 60; 2; 6] (DOk (192 + q) 20 RvOk (ObjOk [WCls 1] [true])).
Definition read1 (q : N) : oevent :=
  ERx 1 None [192 + q; 1; 60; 2; 6] (DOk (192 + q) 1 RvOk (ObjOk [WCls 1] [true])).
Definition ev0 : answer := AEvinfo false false false false.
Definition body1 : list N := [2; 1; 40; 1; 0; 7; 0; 129].

(* start-up: the empty response is repeated with fresh sequence numbers 0, 1, 2 and then confirmed *)
Definition ex1 : list (oevent * list answer) := [(ESleep 1000, [ev0]); (ESleep 1000, [ev0]); (uconf 2, [])].

Example C14_ex1_history :
  snd (trace_of ex_cfg 0 0 0 [ev0] ex1) =
  [IOb (ODb DbEvinfo); IOb (OTx 1 [240; 130; 128; 0]); IOb (OInfo (IEnterUnsolWait 0));
   IEv 0 (ESleep 1000);
   IOb (OAt 1000); IOb (OInfo (IUnsolTimeout 0 false));
   IOb (ODb DbEvinfo); IOb (OTx 1 [241; 130; 128; 0]); IOb (OInfo (IEnterUnsolWait 1));
   IEv 1000 (ESleep 1000);
   IOb (OAt 2000); IOb (OInfo (IUnsolTimeout 1 false));
   IOb (ODb DbEvinfo); IOb (OTx 1 [242; 130; 128; 0]); IOb (OInfo (IEnterUnsolWait 2));
   IEv 2000 (uconf 2);
   IOb (OInfo (IUnsolConfirmed 2))].
Proof. vm_compute. reflexivity. Qed.

Example C14_ex1_is_a_trace :
  Trace ex_cfg (fst (trace_of ex_cfg 0 0 0 [ev0] ex1)) (snd (trace_of ex_cfg 0 0 0 [ev0] ex1)).
Proof. apply trace_of_Trace. repeat constructor; cbn; lia. Qed.

Example C14_ex1_null_mon : mrun null_mon (false, 0) (snd (trace_of ex_cfg 0 0 0 [ev0] ex1)) = Live (true, 3).
Proof. vm_compute. reflexivity. Qed.

(* after the confirmation class 1 is enabled; an event is reported, re-sent twice unchanged one confirm
   timeout apart, and given up (two retries configured) *)
Definition ex2 : list (oevent * list answer) :=
  [(uconf 0, []); (enable1 3, [ev0]); (EDbChange, [AUnsol 1 body1; ev0]);
   (ESleep 1000, []); (ESleep 1000, []); (ESleep 1000, [])].

Example C14_ex2_history :
  snd (trace_of ex_cfg 0 0 0 [ev0] ex2) =
  [IOb (ODb DbEvinfo); IOb (OTx 1 [240; 130; 128; 0]); IOb (OInfo (IEnterUnsolWait 0));
   IEv 0 (uconf 0);
   IOb (OInfo (IUnsolConfirmed 0));
   IEv 1 (enable1 3);
   IOb (OInfo (IIdleRequest 20 3)); IOb (ODb DbEvinfo); IOb (OTx 1 [195; 129; 128; 0]);
   IEv 2 EDbChange;
   IOb (ODb (DbWriteUnsol true false false)); IOb (ODb DbEvinfo);
   IOb (OTx 1 ([241; 130; 128; 0] ++ body1)); IOb (OInfo (IEnterUnsolWait 1));
   IEv 3 (ESleep 1000);
   IOb (OAt 1002); IOb (OInfo (IUnsolTimeout 1 true)); IOb (OTx 1 ([241; 130; 128; 0] ++ body1));
   IEv 1003 (ESleep 1000);
   IOb (OAt 2002); IOb (OInfo (IUnsolTimeout 1 true)); IOb (OTx 1 ([241; 130; 128; 0] ++ body1));
   IEv 2003 (ESleep 1000);
   IOb (OAt 3002); IOb (OInfo (IUnsolTimeout 1 false)); IOb (ODb DbReset)].
Proof. vm_compute. reflexivity. Qed.

Example C14_ex2_series_mon :
  mrun (series_mon ex_cfg) sm0 (snd (trace_of ex_cfg 0 0 0 [ev0] ex2)) =
  Live {| sm_w := WNone; sm_armed := false; sm_dis := false; sm_conf := true |}.
Proof. vm_compute. reflexivity. Qed.

Example C14_ex2_timing_mon :
  mrun (timing_mon ex_cfg) tm0 (snd (trace_of ex_cfg 0 0 0 [ev0] ex2)) =
  Live {| tm_clock := 3002; tm_last := Some 2002%Z; tm_resend := false |}.
Proof. vm_compute. reflexivity. Qed.

(* the retry delay is armed: 3002 + 3000 *)
Example C14_ex2_retry_delay : s_unsol (fst (trace_of ex_cfg 0 0 0 [ev0] ex2)) = UReady (Some 6002%Z).
Proof. vm_compute. reflexivity. Qed.

(* a READ arrives during the wait: nothing is sent in that step; at the confirm timeout the series ends
   without a retry and the READ is answered with its sequence number 4 *)
Definition ex3 : list (oevent * list answer) :=
  [(uconf 0, []); (enable1 3, [ev0]); (EDbChange, [AUnsol 1 body1; ev0]);
   (read1 4, []);
   (ESleep 999, [AIin2 0; AWrite true true body1; AEvinfo true false false false])].

Example C14_ex3_history :
  snd (trace_of ex_cfg 0 0 0 [ev0] ex3) =
  [IOb (ODb DbEvinfo); IOb (OTx 1 [240; 130; 128; 0]); IOb (OInfo (IEnterUnsolWait 0));
   IEv 0 (uconf 0);
   IOb (OInfo (IUnsolConfirmed 0));
   IEv 1 (enable1 3);
   IOb (OInfo (IIdleRequest 20 3)); IOb (ODb DbEvinfo); IOb (OTx 1 [195; 129; 128; 0]);
   IEv 2 EDbChange;
   IOb (ODb (DbWriteUnsol true false false)); IOb (ODb DbEvinfo);
   IOb (OTx 1 ([241; 130; 128; 0] ++ body1)); IOb (OInfo (IEnterUnsolWait 1));
   IEv 3 (read1 4);
   IEv 4 (ESleep 999);
   IOb (OAt 1002); IOb (OInfo (IUnsolTimeout 1 false)); IOb (ODb DbReset);
   IOb (ODb DbDeferredSelect); IOb (ODb DbWrite); IOb (ODb DbEvinfo);
   IOb (OTx 1 ([228; 129; 130; 0] ++ body1)); IOb (OInfo (IEnterSolWait 4))].
Proof. vm_compute. reflexivity. Qed.

(* a DISABLE_UNSOLICITED arrives by broadcast during the wait for the confirmation of the first empty
   response: the series is cancelled (no answer, only the report IBroadcast 21 0 0) and, no empty
   response having been confirmed yet, the next one follows with the next sequence number *)
Definition bdisable (q : N) : oevent :=
  ERx 1 (Some BNotRequired) [192 + q; 21] (DOk (192 + q) 21 RvOk (ObjOk [] [])).
Definition ex4 : list (oevent * list answer) := [(bdisable 0, [ev0])].

Example C14_ex4_history :
  snd (trace_of ex_cfg 0 0 0 [ev0] ex4) =
  [IOb (ODb DbEvinfo); IOb (OTx 1 [240; 130; 128; 0]); IOb (OInfo (IEnterUnsolWait 0));
   IEv 0 (bdisable 0);
   IOb (OInfo (IBroadcast 21 0 0));
   IOb (ODb DbEvinfo); IOb (OTx 1 [241; 130; 129; 0]); IOb (OInfo (IEnterUnsolWait 1))].
Proof. vm_compute. reflexivity. Qed.

Example C14_ex4_series_mon :
  mrun (series_mon ex_cfg) sm0 (snd (trace_of ex_cfg 0 0 0 [ev0] ex4)) =
  Live {| sm_w := WSome [241; 130; 129; 0] (Some 0%nat); sm_armed := false; sm_dis := false; sm_conf := false |}.
Proof. vm_compute. reflexivity. Qed.

(* ================= 8, composed: nothing but the received octets and the database are inputs ==============
   Outstation/Full.v composes the session model with the digest computed from the octets (`frag_digest`) and the
   database model answering the session's calls (`replay`): `fstep F st op` is one operation of a script -
   `FRx from bc bytes` a reception, `FSleep ms` time, `FUpdate ..` a transaction of the user -, `FReach` the
   reachable states, `fs_db` the database, `ro_out` / `ro_answers` of `frx_out F st from bc bytes` (a reception)
   or `fevent_out F st (fs_db st) (ESleep ms)` (time) the session's observations and the database's answers in
   that step.  Outstation/FullCorollaries.v. *)
From Dnp3V Require Import App.Grammar Outstation.DbTypes Outstation.Database Outstation.Full.
From Dnp3V Require Outstation.SessionC03Proofs.
From Dnp3V Require Import Outstation.FullCorollaries.

(* the steps the next theorems speak about *)
Theorem C14_composed_reception_spec : forall F st from bc bytes,
  fstep F st (FRx from bc bytes) =
  ({| fs_s := ro_s (frx_out F st from bc bytes); fs_db := ro_db (frx_out F st from bc bytes) |},
   FDigest (frag_digest bytes) (frag_rv_code bytes) :: ro_log (frx_out F st from bc bytes)).
Proof. exact fstep_frx. Qed.
Print Assumptions C14_composed_reception_spec.

Theorem C14_composed_sleep_spec : forall F st ms,
  fstep F st (FSleep ms) =
  ({| fs_s := ro_s (fevent_out F st (fs_db st) (ESleep ms)); fs_db := ro_db (fevent_out F st (fs_db st) (ESleep ms)) |},
   ro_log (fevent_out F st (fs_db st) (ESleep ms))).
Proof. exact fstep_fsleep. Qed.
Print Assumptions C14_composed_sleep_spec.

(* a well-formed (wf_request: header parses, FIR FIN no UNS, objects parse) unicast READ (octet 1 = 1) from an
   accepted master during the unsolicited confirm wait, the deadline beyond the settling millisecond: the database
   is not called (fs_db unchanged, no answer computed), nothing is observed or transmitted, the wait goes on, and
   the request is kept with its octets, sequence number and source *)
Theorem C14_composed_read_deferred : forall F st from bytes resp n ret dl,
  s_control (fs_s st) = CUnsolWait resp n ret dl -> (s_now (fs_s st) + settle_ms < dl)%Z ->
  accepted_master (f_o F) from -> wf_request bytes -> nth 1 bytes 0 = 1 ->
  let st' := fst (fstep F st (FRx from None bytes)) in
  fs_db st' = fs_db st /\
  ro_answers (frx_out F st from None bytes) = [] /\ ro_out (frx_out F st from None bytes) = [] /\
  s_control (fs_s st') = CUnsolWait resp n ret dl /\
  exists x, s_deferred (fs_s st') =
            Some {| df_bytes := bytes; df_seq := nth 0 bytes 0 mod 16; df_from := from; df_iin2 := x |}.
Proof. exact frx_read_deferred. Qed.
Print Assumptions C14_composed_read_deferred.

(* the series ends by its confirm timeout with a READ kept: no retry; the READ is selected (reset + the read
   headers of the kept octets: select_deferred) and written (db_write_response) in THIS step, from `fs_db st`, the
   database as it is now - not as it was at the reception; the transmitted fragment carries exactly the octets
   written, FIR set, the request's sequence number, to its source *)
Theorem C14_composed_deferred_read_served_timeout : forall F st resp n ret dl df ms,
  SessionC03Proofs.FReach F st ->
  s_control (fs_s st) = CUnsolWait resp n ret dl -> s_deferred (fs_s st) = Some df ->
  (dl <= s_now (fs_s st) + ms)%Z ->
  let ro := fevent_out F st (fs_db st) (ESleep ms) in
  ~ In FReplayError (ro_log ro) ->
  let d0 := if n then fs_db st else db_reset (fs_db st) in
  let sel := select_deferred d0 (request_headers (df_bytes df)) in
  let w := db_write_response (fst (fst sel)) (N.of_nat (o_sol_tx (f_o F)) - 4) in
  let body := fst (fst (snd w)) in
  let has_events := snd (fst (snd w)) in
  let complete := snd (snd w) in
  exists con iin1 iin2 tail more,
    ro_answers ro = AIin2 (snd (fst sel)) :: AWrite complete has_events body :: evinfo_answer_of (fst w) :: more /\
    ro_out ro =
      (OAt (Z.max dl (s_now (fs_s st))) :: OInfo (IUnsolTimeout (ctl_seq (r_ctl resp)) false)
       :: (if n then [] else [ODb DbReset])) ++
      [ODb DbDeferredSelect; ODb DbWrite; ODb DbEvinfo;
       OTx (df_from df) ([ctl_byte true complete con false (df_seq df); 129; iin1; iin2] ++ body)] ++ tail.
Proof. exact fsleep_deferred_read_served. Qed.
Print Assumptions C14_composed_deferred_read_served_timeout.

(* the series ends by the CONFIRM of the unsolicited response (octet 1 = 0, UNS set, its sequence number): the
   written events are released, then the same *)
Theorem C14_composed_deferred_read_served_confirm : forall F st from bytes resp n ret dl df,
  SessionC03Proofs.FReach F st ->
  s_control (fs_s st) = CUnsolWait resp n ret dl -> s_deferred (fs_s st) = Some df ->
  accepted_master (f_o F) from -> wf_request bytes ->
  nth 1 bytes 0 = 0 -> N.testbit (nth 0 bytes 0) 4 = true -> nth 0 bytes 0 mod 16 = ctl_seq (r_ctl resp) ->
  let ro := frx_out F st from None bytes in
  ~ In FReplayError (ro_log ro) ->
  let d0 := if n then fs_db st else fst (db_clear_written (fs_db st)) in
  let sel := select_deferred d0 (request_headers (df_bytes df)) in
  let w := db_write_response (fst (fst sel)) (N.of_nat (o_sol_tx (f_o F)) - 4) in
  let body := fst (fst (snd w)) in
  let has_events := snd (fst (snd w)) in
  let complete := snd (snd w) in
  exists con iin1 iin2 tail more,
    ro_answers ro = AIin2 (snd (fst sel)) :: AWrite complete has_events body :: evinfo_answer_of (fst w) :: more /\
    ro_out ro =
      (OInfo (IUnsolConfirmed (ctl_seq (r_ctl resp))) :: (if n then [] else [ODb DbClearWritten])) ++
      [ODb DbDeferredSelect; ODb DbWrite; ODb DbEvinfo;
       OTx (df_from df) ([ctl_byte true complete con false (df_seq df); 129; iin1; iin2] ++ body)] ++ tail.
Proof. exact frx_confirm_deferred_read_served. Qed.
Print Assumptions C14_composed_deferred_read_served_confirm.

(* non-vacuity (vm_compute in FullCorollaries): a counter with value 10; a class 0 READ during the wait for the
   confirmation of the start-up response: nothing happens; the user sets the counter to 99; the timeout (or the
   CONFIRM `D0 00`) ends the series and the answer carries 99 - and 10 when the update is left out *)
Example C14_composed_instance_deferred :
  SessionC03Proofs.FReach cy_F cy_waiting /\ accepted_master (f_o cy_F) 1 /\ wf_request cy_rd /\
  s_control (fs_s cy_waiting) =
    CUnsolWait {| r_ctl := 240; r_fn := 130; r_iin1 := 128; r_iin2 := 0; r_size := 0 |} true (Some 0%nat) 5000 /\
  s_now (fs_s cy_waiting) = 2%Z /\
  ro_out (frx_out cy_F cy_waiting 1 None cy_rd) = [] /\ fs_db cy_deferred = fs_db cy_waiting /\
  s_deferred (fs_s cy_deferred) = Some {| df_bytes := cy_rd; df_seq := 1; df_from := 1; df_iin2 := 0 |} /\
  SessionC03Proofs.has_replay_error (snd (fstep cy_F cy_waiting (FRx 1 None cy_rd))) = false.
Proof. exact ex_frx_read_deferred. Qed.

Example C14_composed_instance_served :
  SessionC03Proofs.FReach cy_F cy_updated /\
  SessionC03Proofs.has_replay_error (snd (fstep cy_F cy_updated (FSleep 5000))) = false /\
  ro_out (fevent_out cy_F cy_updated (fs_db cy_updated) (ESleep 5000)) =
    [OAt 5000; OInfo (IUnsolTimeout 0 false); ODb DbDeferredSelect; ODb DbWrite; ODb DbEvinfo;
     OTx 1 [193; 129; 128; 0; 20; 1; 1; 0; 0; 0; 0; 1; 99; 0; 0; 0];
     ODb DbEvinfo; OTx 1 [241; 130; 128; 0]; OInfo (IEnterUnsolWait 1)] /\
  ro_out (fevent_out cy_F cy_deferred (fs_db cy_deferred) (ESleep 5000)) =
    [OAt 5000; OInfo (IUnsolTimeout 0 false); ODb DbDeferredSelect; ODb DbWrite; ODb DbEvinfo;
     OTx 1 [193; 129; 128; 0; 20; 1; 1; 0; 0; 0; 0; 1; 10; 0; 0; 0];
     ODb DbEvinfo; OTx 1 [241; 130; 128; 0]; OInfo (IEnterUnsolWait 1)] /\
  wf_request [208; 0] /\
  SessionC03Proofs.has_replay_error (snd (fstep cy_F cy_updated (FRx 1 None [208; 0]))) = false /\
  ro_out (frx_out cy_F cy_updated 1 None [208; 0]) =
    [OInfo (IUnsolConfirmed 0); ODb DbDeferredSelect; ODb DbWrite; ODb DbEvinfo;
     OTx 1 [193; 129; 128; 0; 20; 1; 1; 0; 0; 0; 0; 1; 99; 0; 0; 0]].
Proof. exact ex_deferred_read_served. Qed.
