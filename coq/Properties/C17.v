(* Properties/C17.v — Master start-up and restart handling runs in order and gates unsolicited
   data.  Statements only; every proof is `exact <lemma>`.

   Vocabulary (Master/AssocProofs.v, Master/SchedProofs.v):
     ms_run fuel ms_m_init evs = (st, h)   the model run on an ARBITRARY event list; h is the
                                           chronological list of observations
     hist X A h        history predicate for association A (a fold over h):
        HD  DISABLE_UNSOLICITED completed (OOk, or rejected by IIN2) since the last MsOClosed
        HI  integrity poll completed since the last MsOClosed and the last MsORestartSeen A
        HE  ENABLE_UNSOLICITED completed likewise          HG = HI (the gate of unsolicited data)
        HC  every MsORestartSeen A since the last MsOClosed was followed by MsOCleared A
     cfg_in h A        the configuration A was registered with (MsOAssoc)
     kind_guard / start_guard   the guard of a task start, see C17_startup_order *)
From Coq Require Import ZArith NArith List Bool Lia.
From Dnp3V Require Import Master.Backoff Master.BackoffProofs Master.Assoc Master.AssocProofs
  Master.Sched Master.SchedProofs.
Import ListNotations.
Open Scope Z_scope.

(* ---- retry delays ------------------------------------------------------------------------------- *)

(* for min <= max, 0 < min: the delays are min, min(2 min, max), ...; each lies in [min, max];
   an overflow of Duration::checked_mul saturates to max (`max < limit`: max is a Duration) *)
Theorem C17_backoff_bounds : forall limit min max n,
  min <= max -> 0 < min -> max < limit ->
  let d := ms_nth_delay limit min max n in
  min <= d <= max /\
  ms_nth_delay limit min max (S n) = Z.min (2 * d) max /\
  (limit <= 2 * d -> ms_nth_delay limit min max (S n) = max).
Proof. exact backoff_bounds. Qed.
Print Assumptions C17_backoff_bounds.

(* what ExponentialBackOff returns call after call is that sequence; on_success forgets it *)
Theorem C17_backoff_follows_code : forall limit min max n,
  fst (ms_failures limit (ms_backoff_new {| ms_s_min := min; ms_s_max := max |}) n)
  = map (ms_nth_delay limit min max) (seq 0 n).
Proof. exact failures_spec. Qed.
Print Assumptions C17_backoff_follows_code.

Theorem C17_backoff_reset_on_success : forall limit b,
  snd (ms_on_failure limit (ms_on_success b)) = ms_s_min (ms_b_strategy b).
Proof. exact reset_on_success. Qed.
Print Assumptions C17_backoff_reset_on_success.

(* RetryStrategy::new validates nothing: with min > max the first delay exceeds the maximum *)
Theorem C17_backoff_min_gt_max_refuted :
  exists limit min max, 0 < max < min /\ max < limit /\
    ms_nth_delay limit min max 0 > max /\ ms_nth_delay limit min max 1 = max.
Proof. exact backoff_min_gt_max_refuted. Qed.
Print Assumptions C17_backoff_min_gt_max_refuted.

(* a failing automatic task: after k+1 failures in a row at times t_0 .. t_k it is re-armed for
   t_k + max(1 ms, k-th delay) (the 1 ms floor is the repair of F15) ... *)
Theorem C17_retry_delays : forall c s times tk,
  not_failed s ->
  fail_times c s (times ++ [tk])
  = MsAFailed {| ms_b_strategy := {| ms_s_min := ms_c_rmin c; ms_s_max := ms_c_rmax c |};
                 ms_b_last := Some (ms_nth_delay ms_limit_ms (ms_c_rmin c) (ms_c_rmax c) (length times)) |}
              (tk + ms_retry_delay (ms_nth_delay ms_limit_ms (ms_c_rmin c) (ms_c_rmax c) (length times))).
Proof. exact retry_delays. Qed.
Print Assumptions C17_retry_delays.

(* ... which for a sane strategy is exactly the k-th delay, within [min, max] ... *)
Theorem C17_retry_delay_sane : forall mn mx k, 0 < mn -> mn <= mx -> mx < ms_limit_ms ->
  ms_retry_delay (ms_nth_delay ms_limit_ms mn mx k) = ms_nth_delay ms_limit_ms mn mx k
  /\ mn <= ms_nth_delay ms_limit_ms mn mx k <= mx.
Proof. exact retry_delay_sane. Qed.
Print Assumptions C17_retry_delay_sane.

(* ... and the task is not started before that time *)
Theorem C17_not_before_retry_time : forall b nx now t t',
  ms_create_next (MsAFailed b nx) now t = MsNNow t' -> nx <= now.
Proof. exact create_next_failed_not_before. Qed.
Print Assumptions C17_not_before_retry_time.

(* ---- the fixed order of the automatic tasks ------------------------------------------------------- *)

(* TaskStates::next, any state: whatever it chooses, everything of higher priority is settled:
   clear-restart < disable-unsolicited < integrity < time-sync (if asked for and configured) <
   enable-unsolicited < event scan; polls and keep-alive only when nothing at all is pending *)
Theorem C17_priority_order : forall c ts ev,
  match auto_choice_of c ts ev with
  | CClear => True
  | CDisable => ms_is_idle (ms_ts_clear ts) = true
  | CIntegrity => ms_is_idle (ms_ts_clear ts) = true /\ dis_ok c ts = true
  | CTime => ms_is_idle (ms_ts_clear ts) = true /\ dis_ok c ts = true /\ integ_ok c ts = true
  | CEnable => ms_is_idle (ms_ts_clear ts) = true /\ dis_ok c ts = true /\ integ_ok c ts = true
               /\ time_ok c ts = true
  | CEvScan | CNothing =>
      ms_is_idle (ms_ts_clear ts) = true /\ dis_ok c ts = true /\ integ_ok c ts = true
      /\ time_ok c ts = true /\ en_ok c ts = true
  end.
Proof. exact auto_choice_guards. Qed.
Print Assumptions C17_priority_order.

Theorem C17_polls_and_keepalive_last : forall a now t,
  ms_get_next_task a now = MsNNow t ->
  match t with
  | MsTPoll _ _ | MsTLink None =>
      ms_is_idle (ms_ts_clear (ms_a_auto a)) = true /\ dis_ok (ms_a_cfg a) (ms_a_auto a) = true
      /\ integ_ok (ms_a_cfg a) (ms_a_auto a) = true /\ time_ok (ms_a_cfg a) (ms_a_auto a) = true
      /\ en_ok (ms_a_cfg a) (ms_a_auto a) = true
  | _ => task_choice t = auto_choice_of (ms_a_cfg a) (ms_a_auto a) (ms_a_events a)
         /\ task_choice t <> CNothing
  end.
Proof. exact get_next_task_guards. Qed.
Print Assumptions C17_polls_and_keepalive_last.

(* ---- start-up order over arbitrary histories ------------------------------------------------------ *)

(* every task start (and every keep-alive, and every sleep) in any run happens under its guard:
   no request outstanding, and for association A registered with configuration c
     DISABLE_UNSOLICITED : hist HC
     integrity poll      : hist HC, and hist HD when disable_unsol_classes is not empty
     ENABLE_UNSOLICITED  : those, and hist HI when startup_integrity_classes is not empty
     event scan, periodic poll, keep-alive: those, and hist HE when enable_unsol_classes is not empty
   (the time synchronisation asked for by NEED_TIME sits between integrity and enable in
   C17_priority_order; its trace form is not stated: user and automatic time synchronisations
   are not told apart by the observations) *)
Theorem C17_startup_order : forall fuel evs st h h1 x h2,
  ms_run fuel ms_m_init evs = (st, h) -> h = h1 ++ x :: h2 -> start_guard h1 x.
Proof. exact startup_order. Qed.
Print Assumptions C17_startup_order.

(* what `hist X A h = true` means: some observation establishes X for A and none after it cancels it *)
Theorem C17_hist_meaning : forall X A h, X <> HC -> hist X A h = true ->
  exists h1 x h2, h = h1 ++ x :: h2 /\ obs_effect X A x = Some true /\
                  Forall (fun y => obs_effect X A y <> Some false) h2.
Proof. exact hist_established. Qed.
Print Assumptions C17_hist_meaning.

(* ---- restart handling ------------------------------------------------------------------------------- *)

(* a restart indication (seen while no clear-restart is pending) re-arms clear-restart, integrity
   and enable, closes the gate for unsolicited data and makes clear-restart the next choice *)
Theorem C17_restart_rearms : forall now a a' o,
  ms_on_restart now a = (a', o) -> ms_is_idle (ms_ts_clear (ms_a_auto a)) = true ->
  ms_is_pending (ms_ts_clear (ms_a_auto a')) = true /\
  ms_is_pending (ms_ts_integrity (ms_a_auto a')) = true /\
  ms_is_pending (ms_ts_enable (ms_a_auto a')) = true /\
  ms_a_integrity_done a' = false /\
  (forall ev, auto_choice_of (ms_a_cfg a') (ms_a_auto a') ev = CClear).
Proof. exact restart_rearms. Qed.
Print Assumptions C17_restart_rearms.

(* over any history: after MsORestartSeen A, in the same connection, a task of A that starts has
   between the indication and its start: (integrity, disable) the clearing of the restart bit;
   (enable) that and a completed integrity poll; (event scan, periodic poll) those and a completed
   ENABLE_UNSOLICITED.
   NOT claimed: that the integrity poll which completes after the indication STARTED after the
   clearing - an integrity poll already in flight when the indication arrives (e.g. the indication
   is in its own response) counts, as in the code. *)
Theorem C17_restart_order : forall fuel evs st h h1 tr A h2 t k fc s h3 c,
  ms_run fuel ms_m_init evs = (st, h) ->
  h = h1 ++ MsORestartSeen tr A :: h2 ++ MsOStart t A k fc s :: h3 ->
  cfg_in (h1 ++ MsORestartSeen tr A :: h2) A = Some c ->
  match k with
  | MsKDisableUnsol | MsKIntegrity => exists x, In x h2 /\ obs_effect HC A x = Some true
  | MsKEnableUnsol =>
      (exists x, In x h2 /\ obs_effect HC A x = Some true) /\
      (ms_cl_any (ms_c_integrity c) = true -> exists x, In x h2 /\ obs_effect HI A x = Some true)
  | MsKEventScan | MsKPoll =>
      (exists x, In x h2 /\ obs_effect HC A x = Some true) /\
      (ms_cl_any (ms_c_integrity c) = true -> exists x, In x h2 /\ obs_effect HI A x = Some true) /\
      (ms_ev_any (ms_c_enable c) = true -> exists x, In x h2 /\ obs_effect HE A x = Some true)
  | _ => True
  end.
Proof. exact restart_order. Qed.
Print Assumptions C17_restart_order.

(* ---- unsolicited responses -------------------------------------------------------------------------- *)

(* over any history: a data-bearing unsolicited response from `src` is delivered to the handler
   (MsOCb .. MsRtUnsol) or recorded as accepted (MsOUnsol; a CONFIRM is written only then, see
   C17_unsol_confirm_needs_accept) only if the integrity poll of `src` completed earlier in this
   connection with no restart indication since, this fragment's own IIN included *)
Theorem C17_unsol_gated : forall fuel evs st h src f a st' o,
  ms_run fuel ms_m_init evs = (st, h) ->
  ms_mstep fuel st (MsERx src (MsRxResp f)) = (st', o) ->
  ms_r_uns f = true -> ms_has_objects f = true ->
  ms_find_assoc src (ms_m_assocs st) = Some a -> ms_cl_any (ms_c_integrity (ms_a_cfg a)) = true ->
  (exists x, In x o /\ unsol_evidence src x) ->
  hist HG src h = true /\ ~ In (MsORestartSeen (ms_m_now st) src) o.
Proof. exact unsol_gated. Qed.
Print Assumptions C17_unsol_gated.

Theorem C17_unsol_confirm_needs_accept : forall now f a a' o,
  ms_handle_unsolicited now f a = (a', o) ->
  In (MsOTx now (ms_confirm_unsol_bytes (ms_r_seq f))) o ->
  exists dup, In (MsOUnsol now (ms_a_addr a) dup (ms_r_seq f)) o.
Proof. exact unsol_confirm_needs_accept. Qed.
Print Assumptions C17_unsol_confirm_needs_accept.

(* an empty unsolicited response is accepted in any state of the association and confirmed when
   it asks for it *)
Theorem C17_unsol_empty_confirmed : forall now f a a' o,
  ms_handle_unsolicited now f a = (a', o) ->
  ms_has_objects f = false -> ms_r_ok f = true -> ms_r_con f = true ->
  In (MsOTx now (ms_confirm_unsol_bytes (ms_r_seq f))) o.
Proof. exact unsol_empty_confirmed. Qed.
Print Assumptions C17_unsol_empty_confirmed.

(* ---- non-vacuity --------------------------------------------------------------------------------------- *)

Definition ex_cfg : ms_acfg :=
  {| ms_c_disable := 7; ms_c_integrity := 15; ms_c_enable := 7; ms_c_tsync := 0; ms_c_ovf := false;
     ms_c_evscan := 0; ms_c_rmin := 5; ms_c_rmax := 20; ms_c_keepalive := None; ms_c_rto := 100;
     ms_c_maxq := 16 |}.
Definition ex_resp (seq iin1 : N) : ms_rx :=
  MsRxResp {| ms_r_uns := false; ms_r_fir := true; ms_r_fin := true; ms_r_con := false; ms_r_seq := seq;
              ms_r_iin1 := iin1; ms_r_iin2 := 0; ms_r_objs := []; ms_r_ok := true; ms_r_nvalues := 0;
              ms_r_delay := None |}.
Definition ex_unsol (seq : N) : ms_rx :=
  MsRxResp {| ms_r_uns := true; ms_r_fir := true; ms_r_fin := true; ms_r_con := true; ms_r_seq := seq;
              ms_r_iin1 := 0; ms_r_iin2 := 0; ms_r_objs := [2; 1; 23; 1; 0; 1]%N; ms_r_ok := true;
              ms_r_nvalues := 1; ms_r_delay := None |}.
(* connect; data-bearing unsolicited before the integrity poll; disable answered; integrity
   answered with the restart bit; clear-restart and enable answered; unsolicited again *)
Definition ex_events : list ms_event :=
  [MsEStart; MsEAddAssoc 1024 ex_cfg; MsETick 1; MsERx 1024 (ex_unsol 3); MsETick 1;
   MsERx 1024 (ex_resp 0 0); MsETick 1; MsERx 1024 (ex_resp 1 128); MsETick 1;
   MsERx 1024 (ex_resp 2 0); MsETick 1; MsERx 1024 (ex_resp 3 0); MsETick 1;
   MsERx 1024 (ex_unsol 4); MsETick 1000].

Example C17_run_instance :
  let h := snd (ms_run 50 ms_m_init ex_events) in
  nth_error h 3 = Some (MsOStart 0 1024 MsKDisableUnsol 21 0) /\
  nth_error h 5 = Some (MsOUnsolIgnored 1 1024) /\
  nth_error h 7 = Some (MsOStart 2 1024 MsKIntegrity 1 1) /\
  nth_error h 9 = Some (MsORestartSeen 3 1024) /\
  nth_error h 12 = Some (MsOStart 3 1024 MsKClearRestart 2 2) /\
  nth_error h 16 = Some (MsOStart 4 1024 MsKEnableUnsol 20 3) /\
  nth_error h 20 = Some (MsOCb 6 1024 MsRtUnsol 1) /\
  nth_error h 22 = Some (MsOTx 6 [212; 0]%N).
Proof. vm_compute. repeat split. Qed.

Example C17_backoff_instance :
  map (ms_nth_delay ms_limit_ms 1000 10000) (seq 0 6) = [1000; 2000; 4000; 8000; 10000; 10000] /\
  fst (ms_run_backoff ms_limit_ns (9223372036854775807 * 10 ^ 9) (18446744073709551615 * 10 ^ 9 + 999999999) 3)
  = [9223372036854775807 * 10 ^ 9; 18446744073709551614 * 10 ^ 9; 18446744073709551615 * 10 ^ 9 + 999999999].
Proof. vm_compute. split; reflexivity. Qed.

(* ---- agreement of the hand-written models with the tables regenerated from the source on every run
   (tools/gen/gen_master_tables.py -> gen/MasterTables.v; lemmas, interpreters and observers in
   Master/TablesAgree.v, module MTab).  `.._is_table`: the model's function IS the interpreter run over the
   generated table; `.._observed`: the order the model serves things in, observed on enumerated states. *)
From Coq Require Import String List.
From Dnp3V Require Import Base.Bytes Master.Backoff Master.Assoc Master.Sched Master.MParse Master.Command Master.MTask
  Master.TimeSync gen.MasterTables Master.TablesAgree.
Import MTab.
Local Open Scope string_scope.
Local Open Scope list_scope.
Local Open Scope N_scope.

(* the fields of the model's record are the fields of struct TaskStates, in the same order *)
Theorem C17_tables_slots_are_the_fields : map slot_name all_slots = gm_task_states_fields.
Proof. exact MTab.slots_are_the_fields. Qed.
Print Assumptions C17_tables_slots_are_the_fields.

Theorem C17_tables_config_fields_modelled :
  forallb cfg_field_modelled gm_config_fields = true /\ length gm_config_fields = 10%nat.
Proof. exact MTab.config_fields_modelled. Qed.
Print Assumptions C17_tables_config_fields_modelled.

(* the model's TaskStates::next is the interpreter run over the generated table: same order, same
   guards, same tasks *)
Theorem C17_tables_auto_next_is_table : forall c ts events now,
  auto_dispatch gm_auto_order c ts events now = Some (ms_auto_next c ts events now).
Proof. exact MTab.auto_next_is_table. Qed.
Print Assumptions C17_tables_auto_next_is_table.

Theorem C17_tables_auto_order_observed : map slot_name (observe_order 6 all_slots) = generated_auto_order.
Proof. exact MTab.auto_order_observed. Qed.
Print Assumptions C17_tables_auto_order_observed.

Theorem C17_tables_auto_order_all_pairs :
  forallb (fun i => forallb (fun j =>
     slot_eqb i j || opt_slot_eqb (winner cfg_all 7 [i; j]) (Some (if earlier i j then i else j)))
     [SDisable; SIntegrity; SEnable; SClear; STime; SEvscan])
     [SDisable; SIntegrity; SEnable; SClear; STime; SEvscan] = true.
Proof. exact MTab.auto_order_all_pairs. Qed.
Print Assumptions C17_tables_auto_order_all_pairs.

Theorem C17_tables_auto_order_all_subsets :
  forallb (fun p => forallb (fun d => forallb (fun i => forallb (fun e => forallb (fun t => forallb (fun v =>
    forallb (fun ev => opt_slot_eqb (winner (cfg_of d i e t v) ev p) (table_winner gm_auto_order (cfg_of d i e t v) ev p))
    [0; 1; 6]) [0; 3]) [0; 2]) [0; 4]) [0; 8]) [0; 2])
    (subsets [SDisable; SIntegrity; SEnable; SClear; STime; SEvscan]) = true.
Proof. exact MTab.auto_order_all_subsets. Qed.
Print Assumptions C17_tables_auto_order_all_subsets.

(* TaskStates::new *)
Theorem C17_tables_task_states_new : forall ts0, ts_from_table gm_task_states_new ts0 = Some ms_ts_new.
Proof. exact MTab.task_states_new_agrees. Qed.
Print Assumptions C17_tables_task_states_new.

(* TaskStates::on_restart_iin *)
Theorem C17_tables_on_restart_iin : forall ts, apply_demands gm_on_restart_iin_demands ts = Some (ms_ts_on_restart ts).
Proof. exact MTab.on_restart_iin_agrees. Qed.
Print Assumptions C17_tables_on_restart_iin.

(* the model's counterparts of the on_* functions *)
Theorem C17_tables_on_restart_iin_observed : forall now bits a,
  run_handler "on_restart_iin_observed" now bits a = Some (fst (ms_on_restart now a)).
Proof. exact MTab.on_restart_iin_observed_agrees. Qed.
Print Assumptions C17_tables_on_restart_iin_observed.

(* Association::reset *)
Theorem C17_tables_association_reset : forall now a, run_actions now gm_association_reset a = Some (ms_assoc_reset a).
Proof. exact MTab.association_reset_agrees. Qed.
Print Assumptions C17_tables_association_reset.

Theorem C17_tables_handlers : forall now bits a m id tok,
  run_handler "on_integrity_scan_complete" now bits a = Some (fst (ms_read_complete now (MsTIntegrity m) a)) /\
  run_handler "on_event_scan_complete" now bits a = Some (fst (ms_read_complete now (MsTEventScan m) a)) /\
  run_handler "on_integrity_scan_failure" now bits a = Some (fst (ms_task_error now (MsTIntegrity m) MsETimeout false a)) /\
  run_handler "on_event_scan_failure" now bits a = Some (fst (ms_task_error now (MsTEventScan m) MsETimeout false a)) /\
  run_handler "on_clear_restart_iin_failure" now bits a = Some (fst (ms_task_error now MsTClearRestart MsETimeout false a)) /\
  run_handler "on_enable_unsolicited_failure" now bits a = Some (fst (ms_task_error now (MsTEnableUnsol m) MsETimeout false a)) /\
  run_handler "on_disable_unsolicited_failure" now bits a = Some (fst (ms_task_error now (MsTDisableUnsol m) MsETimeout false a)) /\
  run_handler "on_enable_unsolicited_response" now bits a = Some (fst (ms_task_error now (MsTEnableUnsol m) MsEIin2 false a)) /\
  run_handler "on_disable_unsolicited_response" now bits a = Some (fst (ms_task_error now (MsTDisableUnsol m) MsEIin2 false a)) /\
  run_handler "on_time_sync_failure" now bits a = Some (fst (ms_tsync_report now None (Some MsETimeout) a)) /\
  run_handler "on_time_sync_success" now bits a = Some (fst (ms_tsync_report now None None a)) /\
  (* polls and user requests touch no automatic task *)
  ms_a_auto (fst (ms_task_error now (MsTPoll id m) MsETimeout false a)) = ms_a_auto a /\
  ms_a_auto (fst (ms_task_error now (MsTUserRead m tok) MsETimeout false a)) = ms_a_auto a.
Proof. exact MTab.handlers_agree. Qed.
Print Assumptions C17_tables_handlers.

(* on_clear_restart_iin_response: by the response itself, or by the IIN of a RejectedByIin2 error *)
Theorem C17_tables_clear_restart_response : forall now a f sys restart,
  run_handler "on_clear_restart_iin_response" now (iin_of f) a
    = Some (fst (fst (ms_nonread_handle now sys MsTClearRestart f a))) /\
  run_handler "on_clear_restart_iin_response" now (fun _ _ => restart) a
    = Some (fst (ms_task_error now MsTClearRestart MsEIin2 restart a)).
Proof. exact MTab.on_clear_restart_iin_response_agrees. Qed.
Print Assumptions C17_tables_clear_restart_response.

(* the response handlers of the automatic tasks *)
Theorem C17_tables_auto_response_handlers : forall now a f sys m,
  run_handler "on_disable_unsolicited_response" now (iin_of f) a
    = Some (fst (fst (ms_nonread_handle now sys (MsTDisableUnsol m) f a))) /\
  run_handler "on_enable_unsolicited_response" now (iin_of f) a
    = Some (fst (fst (ms_nonread_handle now sys (MsTEnableUnsol m) f a))).
Proof. exact MTab.auto_response_handlers_agree. Qed.
Print Assumptions C17_tables_auto_response_handlers.

(* the model's process_iin is: the generated triggers in order, each calling its generated handler; the
   class bits; the event scan demand *)
Theorem C17_tables_process_iin_is_table : forall now f a,
  ref_process_iin now f a = Some (fst (ms_process_iin now f a)).
Proof. exact MTab.process_iin_is_table. Qed.
Print Assumptions C17_tables_process_iin_is_table.

Theorem C17_tables_iin_event_bits :
  forallb (fun i1 => match events_from_table gm_process_iin_events i1 0 with
                     | Some m => N.eqb (N.land (N.shiftr i1 1) 7) m
                     | None => false
                     end) (nrange 256) = true.
Proof. exact MTab.iin_event_bits_agree. Qed.
Print Assumptions C17_tables_iin_event_bits.

Theorem C17_tables_iin_bit_effects_observed :
  map (fun bb => observed_effect (fst bb) (snd bb))
      [(1,0); (1,1); (1,2); (1,3); (1,4); (1,5); (1,6); (1,7); (2,0); (2,1); (2,2); (2,3); (2,4); (2,5); (2,6); (2,7)]
  = map (fun bb => table_effect (fst bb) (snd bb))
      [(1,0); (1,1); (1,2); (1,3); (1,4); (1,5); (1,6); (1,7); (2,0); (2,1); (2,2); (2,3); (2,4); (2,5); (2,6); (2,7)].
Proof. exact MTab.iin_bit_effects_observed. Qed.
Print Assumptions C17_tables_iin_bit_effects_observed.

Theorem C17_tables_config_defaults : forall pd pe pi ps,
  acfg_of_table gm_config_quiet pd pe pi ps = Some ms_acfg_quiet /\
  acfg_of_table gm_config_default pd pe pi ps = Some ms_acfg_default /\
  acfg_of_table gm_config_new pd pe pi ps = Some (ms_acfg_new pd pe pi ps) /\
  gm_max_queued_user_requests = ms_c_maxq ms_acfg_default /\
  (gm_retry_default_min_ms, gm_retry_default_max_ms, gm_timeout_default_ms) = (1000, 10000, 5000)%Z.
Proof. exact MTab.config_defaults_agree. Qed.
Print Assumptions C17_tables_config_defaults.

(* the quiet configuration (the starting point of every harness) has no automatic task and no gate on
   unsolicited responses *)
Theorem C17_tables_quiet_config_has_no_auto_tasks : forall ts events now a,
  (ms_ts_clear ts = MsAIdle -> ms_auto_next ms_acfg_quiet ts events now = MsNNone) /\
  (ms_a_cfg a = ms_acfg_quiet -> ms_integrity_complete a = true).
Proof. exact MTab.quiet_config_has_no_auto_tasks. Qed.
Print Assumptions C17_tables_quiet_config_has_no_auto_tasks.

(* the floor of the retry delay (repair of F15) *)
Theorem C17_tables_min_retry_delay : forall d cfg now a,
  ms_retry_delay d = Z.max d gm_min_retry_delay_ms /\
  (exists x, MT.failure cfg now a = MT.AFailed x (now + N.max x (Z.to_N gm_min_retry_delay_ms))).
Proof. exact MTab.min_retry_delay_agrees. Qed.
Print Assumptions C17_tables_min_retry_delay.

(* the next delay of the model is the generated chain of Duration operations *)
Theorem C17_tables_backoff_next_is_table : forall limit s x,
  bo_run limit s gm_backoff_next (BoV x) = Some (BoV (ms_next_delay limit (ms_s_max s) x)).
Proof. exact MTab.backoff_next_is_table. Qed.
Print Assumptions C17_tables_backoff_next_is_table.

Theorem C17_tables_backoff_first_is_table : forall limit s,
  Some (snd (ms_on_failure limit (ms_backoff_new s))) = bo_field gm_backoff_first s.
Proof. exact MTab.backoff_first_is_table. Qed.
Print Assumptions C17_tables_backoff_first_is_table.

(* the doubling rule with the generated constants: factor, clamp to max, overflow saturates to max *)
Theorem C17_tables_backoff_step_algebraic : forall limit max x, (0 <= x)%Z ->
  ((max < limit)%Z -> ms_next_delay limit max x = Z.min (gm_backoff_factor * x) max) /\
  ((limit <= gm_backoff_factor * x)%Z -> ms_next_delay limit max x = max).
Proof. exact MTab.backoff_step_algebraic. Qed.
Print Assumptions C17_tables_backoff_step_algebraic.

Theorem C17_tables_function_codes : forall t,
  match ms_task_name t with
  | Some n => assoc_str n gm_task_function = Some (ms_task_fc t)
  | None => True
  end.
Proof. exact MTab.ms_function_codes_agree. Qed.
Print Assumptions C17_tables_function_codes.

(* the objects of the automatic requests: clear restart = write_clear_restart *)
Theorem C17_tables_clear_restart_object :
  ms_task_objects MsTClearRestart = gm_clear_restart_object /\
  MT.auto_objs mt_cfg_all MT.AClear = gm_clear_restart_object.
Proof. exact MTab.clear_restart_object_agrees. Qed.
Print Assumptions C17_tables_clear_restart_object.

Theorem C17_tables_timesync : forall st promise seq,
  forallb (fun r => match tsync_code (fst r) with
                    | Some p => String.eqb (ts_state_name (ms_tsync_start_state p)) (snd r)
                    | None => false end) gm_timesync_start = true /\
  (match assoc_str (ts_state_name st) gm_timesync_function, assoc_str (ts_state_name st) gm_timesync_object with
   | Some fc, Some None => Some [192 + seq; fc]
   | Some fc, Some (Some (g, v)) =>
       Some ([192 + seq; fc; g; v; gm_count_of_one_qualifier; gm_count_of_one_count] ++ ms_le48 (ms_state_time st))
   | _, _ => None
   end) = Some (ms_request_bytes seq (MsTTimeSync st promise)).
Proof. exact MTab.ms_timesync_agrees. Qed.
Print Assumptions C17_tables_timesync.

(* the continuation of the time task in the association model follows gm_timesync_next *)
Theorem C17_tables_timesync_next : forall now sys st p f a,
  match snd (ms_nonread_handle now sys (MsTTimeSync st p) f a) with
  | MsHContinue (MsTTimeSync st' _) => assoc_str (ts_state_name st) gm_timesync_next = Some (Some (ts_state_name st'))
  | MsHContinue _ => False
  | MsHComplete => assoc_str (ts_state_name st) gm_timesync_next = Some None
  | MsHError _ => True
  end.
Proof. exact MTab.ms_timesync_next_agrees. Qed.
Print Assumptions C17_tables_timesync_next.

Example C17_tables_instance :
  generated_auto_order = ["clear_restart_iin"; "disable_unsolicited"; "integrity_scan"; "time_sync";
                          "enabled_unsolicited"; "event_scan"] /\
  gm_on_restart_iin_demands = ["clear_restart_iin"; "integrity_scan"; "enabled_unsolicited"] /\
  gm_backoff_next = [GmCheckedMul 2; GmUnwrapOr "max_delay"; GmMin "max_delay"] /\
  length gm_handlers = 15%nat.
Proof. repeat split. Qed.

(* ---- the received fragment COMPUTED from the octets (Master/MSFull.v, engine `msfull`, second pass of the
   check): [ms_rx_of frag] is the record the scheduling model consumes; header = the task model's parser
   (= application-layer header parser + to_response, C15_composed_header_parser_is_grammar), `ok` = the Grammar
   verdict, values = what the conversion model of C10 delivers to the callbacks the harness overrides.
   Lemmas in Master/MSFullProofs.v. *)
From Dnp3V Require Import App.Grammar Master.MParse Master.MTask Master.MFull Master.MSFull Master.MSFullProofs.
Local Open Scope N_scope.

Theorem C17_composed_rx_rejected_iff_header : forall frag,
  ms_rx_of frag = MsRxBad <-> MP.parse_response frag = MP.PError.
Proof. exact ms_rx_of_bad. Qed.
Print Assumptions C17_composed_rx_rejected_iff_header.

Theorem C17_composed_rx_fields : forall frag h objs,
  MP.parse_response frag = MP.PResponse h objs ->
  exists f, ms_rx_of frag = MsRxResp f /\
    ms_r_objs f = objs /\ ms_r_seq f = MP.c_seq (MP.h_ctrl h) /\ ms_r_uns f = MP.h_unsol h /\
    ms_r_iin1 f = MP.h_iin1 h /\ ms_r_iin2 f = MP.h_iin2 h /\
    (ms_r_ok f = true <-> MF.mverdict frag = MT.VOk) /\
    (ms_r_ok f = false -> ms_r_nvalues f = 0 /\ ms_r_delay f = None).
Proof. exact ms_rx_of_resp. Qed.
Print Assumptions C17_composed_rx_fields.

Example C17_composed_rx_instance :
  match ms_rx_of [192; 129; 0; 0; 52; 2; 8; 1; 0; 44; 1] with
  | MsRxResp f => ms_r_ok f = true /\ ms_r_delay f = Some 300%Z /\ ms_r_nvalues f = 0
  | MsRxBad => False
  end /\
  match ms_rx_of [192; 129; 0; 0; 1; 1; 0; 0; 9; 255; 3; 31; 5; 0; 7; 7; 1; 0; 0; 0; 110; 2; 0; 1; 1; 65; 66] with
  | MsRxResp f => ms_r_ok f = true /\ ms_r_nvalues f = 10
  | MsRxBad => False
  end /\ ms_rx_of [208; 129; 0; 0] = MsRxBad.
Proof. vm_compute. repeat split. Qed.
