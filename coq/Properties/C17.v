(* Properties/C17.v — Master start-up and restart handling runs in order and gates unsolicited
   data.  Statements only; every proof is `exact <lemma>`.

   Vocabulary (Master/AssocProofs.v, Master/SchedProofs.v):
     ms_run fuel ms_m_init evs = (st, h)   the model run on an ARBITRARY event list; h is the
                                           chronological list of observations
     hist X A h        history predicate for association A (a fold over h):
        HD  DISABLE_UNSOLICITED completed (OOk, or rejected by IIN2) since the last MsOClosed
        HI  integrity poll completed since the last MsOClosed and the last MsORestartSeen A
        HE  ENABLE_UNSOLICITED completed likewise          HG = HI (the gate of unsolicited data)
        HC  every MsORestartSeen A since the last MsOClosed was followed by MsOCleared A
     cfg_in h A        the configuration A was registered with (MsOAssoc)
     kind_guard / start_guard   the guard of a task start, see C17_startup_order *)
From Coq Require Import ZArith NArith List Bool Lia.
From Dnp3V Require Import Master.Backoff Master.BackoffProofs Master.Assoc Master.AssocProofs
  Master.Sched Master.SchedProofs.
Import ListNotations.
Open Scope Z_scope.

(* ---- retry delays ------------------------------------------------------------------------------- *)

(* for min <= max, 0 < min: the delays are min, min(2 min, max), ...; each lies in [min, max];
   an overflow of Duration::checked_mul saturates to max (`max < limit`: max is a Duration) *)
Theorem C17_backoff_bounds : forall limit min max n,
  min <= max -> 0 < min -> max < limit ->
  let d := ms_nth_delay limit min max n in
  min <= d <= max /\
  ms_nth_delay limit min max (S n) = Z.min (2 * d) max /\
  (limit <= 2 * d -> ms_nth_delay limit min max (S n) = max).
Proof. exact backoff_bounds. Qed.
Print Assumptions C17_backoff_bounds.

(* what ExponentialBackOff returns call after call is that sequence; on_success forgets it *)
Theorem C17_backoff_follows_code : forall limit min max n,
  fst (ms_failures limit (ms_backoff_new {| ms_s_min := min; ms_s_max := max |}) n)
  = map (ms_nth_delay limit min max) (seq 0 n).
Proof. exact failures_spec. Qed.
Print Assumptions C17_backoff_follows_code.

Theorem C17_backoff_reset_on_success : forall limit b,
  snd (ms_on_failure limit (ms_on_success b)) = ms_s_min (ms_b_strategy b).
Proof. exact reset_on_success. Qed.
Print Assumptions C17_backoff_reset_on_success.

(* RetryStrategy::new validates nothing: with min > max the first delay exceeds the maximum *)
Theorem C17_backoff_min_gt_max_refuted :
  exists limit min max, 0 < max < min /\ max < limit /\
    ms_nth_delay limit min max 0 > max /\ ms_nth_delay limit min max 1 = max.
Proof. exact backoff_min_gt_max_refuted. Qed.
Print Assumptions C17_backoff_min_gt_max_refuted.

(* a failing automatic task: after k+1 failures in a row at times t_0 .. t_k it is re-armed for
   t_k + max(1 ms, k-th delay) (the 1 ms floor is the repair of F15) ... *)
Theorem C17_retry_delays : forall c s times tk,
  not_failed s ->
  fail_times c s (times ++ [tk])
  = MsAFailed {| ms_b_strategy := {| ms_s_min := ms_c_rmin c; ms_s_max := ms_c_rmax c |};
                 ms_b_last := Some (ms_nth_delay ms_limit_ms (ms_c_rmin c) (ms_c_rmax c) (length times)) |}
              (tk + ms_retry_delay (ms_nth_delay ms_limit_ms (ms_c_rmin c) (ms_c_rmax c) (length times))).
Proof. exact retry_delays. Qed.
Print Assumptions C17_retry_delays.

(* ... which for a sane strategy is exactly the k-th delay, within [min, max] ... *)
Theorem C17_retry_delay_sane : forall mn mx k, 0 < mn -> mn <= mx -> mx < ms_limit_ms ->
  ms_retry_delay (ms_nth_delay ms_limit_ms mn mx k) = ms_nth_delay ms_limit_ms mn mx k
  /\ mn <= ms_nth_delay ms_limit_ms mn mx k <= mx.
Proof. exact retry_delay_sane. Qed.
Print Assumptions C17_retry_delay_sane.

(* ... and the task is not started before that time *)
Theorem C17_not_before_retry_time : forall b nx now t t',
  ms_create_next (MsAFailed b nx) now t = MsNNow t' -> nx <= now.
Proof. exact create_next_failed_not_before. Qed.
Print Assumptions C17_not_before_retry_time.

(* ---- the fixed order of the automatic tasks ------------------------------------------------------- *)

(* TaskStates::next, any state: whatever it chooses, everything of higher priority is settled:
   clear-restart < disable-unsolicited < integrity < time-sync (if asked for and configured) <
   enable-unsolicited < event scan; polls and keep-alive only when nothing at all is pending *)
Theorem C17_priority_order : forall c ts ev,
  match auto_choice_of c ts ev with
  | CClear => True
  | CDisable => ms_is_idle (ms_ts_clear ts) = true
  | CIntegrity => ms_is_idle (ms_ts_clear ts) = true /\ dis_ok c ts = true
  | CTime => ms_is_idle (ms_ts_clear ts) = true /\ dis_ok c ts = true /\ integ_ok c ts = true
  | CEnable => ms_is_idle (ms_ts_clear ts) = true /\ dis_ok c ts = true /\ integ_ok c ts = true
               /\ time_ok c ts = true
  | CEvScan | CNothing =>
      ms_is_idle (ms_ts_clear ts) = true /\ dis_ok c ts = true /\ integ_ok c ts = true
      /\ time_ok c ts = true /\ en_ok c ts = true
  end.
Proof. exact auto_choice_guards. Qed.
Print Assumptions C17_priority_order.

Theorem C17_polls_and_keepalive_last : forall a now t,
  ms_get_next_task a now = MsNNow t ->
  match t with
  | MsTPoll _ _ | MsTLink None =>
      ms_is_idle (ms_ts_clear (ms_a_auto a)) = true /\ dis_ok (ms_a_cfg a) (ms_a_auto a) = true
      /\ integ_ok (ms_a_cfg a) (ms_a_auto a) = true /\ time_ok (ms_a_cfg a) (ms_a_auto a) = true
      /\ en_ok (ms_a_cfg a) (ms_a_auto a) = true
  | _ => task_choice t = auto_choice_of (ms_a_cfg a) (ms_a_auto a) (ms_a_events a)
         /\ task_choice t <> CNothing
  end.
Proof. exact get_next_task_guards. Qed.
Print Assumptions C17_polls_and_keepalive_last.

(* ---- start-up order over arbitrary histories ------------------------------------------------------ *)

(* every task start (and every keep-alive, and every sleep) in any run happens under its guard:
   no request outstanding, and for association A registered with configuration c
     DISABLE_UNSOLICITED : hist HC
     integrity poll      : hist HC, and hist HD when disable_unsol_classes is not empty
     ENABLE_UNSOLICITED  : those, and hist HI when startup_integrity_classes is not empty
     event scan, periodic poll, keep-alive: those, and hist HE when enable_unsol_classes is not empty
   (the time synchronisation asked for by NEED_TIME sits between integrity and enable in
   C17_priority_order; its trace form is not stated: user and automatic time synchronisations
   are not told apart by the observations) *)
Theorem C17_startup_order : forall fuel evs st h h1 x h2,
  ms_run fuel ms_m_init evs = (st, h) -> h = h1 ++ x :: h2 -> start_guard h1 x.
Proof. exact startup_order. Qed.
Print Assumptions C17_startup_order.

(* what `hist X A h = true` means: some observation establishes X for A and none after it cancels it *)
Theorem C17_hist_meaning : forall X A h, X <> HC -> hist X A h = true ->
  exists h1 x h2, h = h1 ++ x :: h2 /\ obs_effect X A x = Some true /\
                  Forall (fun y => obs_effect X A y <> Some false) h2.
Proof. exact hist_established. Qed.
Print Assumptions C17_hist_meaning.

(* ---- restart handling ------------------------------------------------------------------------------- *)

(* a restart indication (seen while no clear-restart is pending) re-arms clear-restart, integrity
   and enable, closes the gate for unsolicited data and makes clear-restart the next choice *)
Theorem C17_restart_rearms : forall now a a' o,
  ms_on_restart now a = (a', o) -> ms_is_idle (ms_ts_clear (ms_a_auto a)) = true ->
  ms_is_pending (ms_ts_clear (ms_a_auto a')) = true /\
  ms_is_pending (ms_ts_integrity (ms_a_auto a')) = true /\
  ms_is_pending (ms_ts_enable (ms_a_auto a')) = true /\
  ms_a_integrity_done a' = false /\
  (forall ev, auto_choice_of (ms_a_cfg a') (ms_a_auto a') ev = CClear).
Proof. exact restart_rearms. Qed.
Print Assumptions C17_restart_rearms.

(* over any history: after MsORestartSeen A, in the same connection, a task of A that starts has
   between the indication and its start: (integrity, disable) the clearing of the restart bit;
   (enable) that and a completed integrity poll; (event scan, periodic poll) those and a completed
   ENABLE_UNSOLICITED.
   NOT claimed: that the integrity poll which completes after the indication STARTED after the
   clearing - an integrity poll already in flight when the indication arrives (e.g. the indication
   is in its own response) counts, as in the code. *)
Theorem C17_restart_order : forall fuel evs st h h1 tr A h2 t k fc s h3 c,
  ms_run fuel ms_m_init evs = (st, h) ->
  h = h1 ++ MsORestartSeen tr A :: h2 ++ MsOStart t A k fc s :: h3 ->
  cfg_in (h1 ++ MsORestartSeen tr A :: h2) A = Some c ->
  match k with
  | MsKDisableUnsol | MsKIntegrity => exists x, In x h2 /\ obs_effect HC A x = Some true
  | MsKEnableUnsol =>
      (exists x, In x h2 /\ obs_effect HC A x = Some true) /\
      (ms_cl_any (ms_c_integrity c) = true -> exists x, In x h2 /\ obs_effect HI A x = Some true)
  | MsKEventScan | MsKPoll =>
      (exists x, In x h2 /\ obs_effect HC A x = Some true) /\
      (ms_cl_any (ms_c_integrity c) = true -> exists x, In x h2 /\ obs_effect HI A x = Some true) /\
      (ms_ev_any (ms_c_enable c) = true -> exists x, In x h2 /\ obs_effect HE A x = Some true)
  | _ => True
  end.
Proof. exact restart_order. Qed.
Print Assumptions C17_restart_order.

(* ---- unsolicited responses -------------------------------------------------------------------------- *)

(* over any history: a data-bearing unsolicited response from `src` is delivered to the handler
   (MsOCb .. MsRtUnsol) or recorded as accepted (MsOUnsol; a CONFIRM is written only then, see
   C17_unsol_confirm_needs_accept) only if the integrity poll of `src` completed earlier in this
   connection with no restart indication since, this fragment's own IIN included *)
Theorem C17_unsol_gated : forall fuel evs st h src f a st' o,
  ms_run fuel ms_m_init evs = (st, h) ->
  ms_mstep fuel st (MsERx src (MsRxResp f)) = (st', o) ->
  ms_r_uns f = true -> ms_has_objects f = true ->
  ms_find_assoc src (ms_m_assocs st) = Some a -> ms_cl_any (ms_c_integrity (ms_a_cfg a)) = true ->
  (exists x, In x o /\ unsol_evidence src x) ->
  hist HG src h = true /\ ~ In (MsORestartSeen (ms_m_now st) src) o.
Proof. exact unsol_gated. Qed.
Print Assumptions C17_unsol_gated.

Theorem C17_unsol_confirm_needs_accept : forall now f a a' o,
  ms_handle_unsolicited now f a = (a', o) ->
  In (MsOTx now (ms_confirm_unsol_bytes (ms_r_seq f))) o ->
  exists dup, In (MsOUnsol now (ms_a_addr a) dup (ms_r_seq f)) o.
Proof. exact unsol_confirm_needs_accept. Qed.
Print Assumptions C17_unsol_confirm_needs_accept.

(* an empty unsolicited response is accepted in any state of the association and confirmed when
   it asks for it *)
Theorem C17_unsol_empty_confirmed : forall now f a a' o,
  ms_handle_unsolicited now f a = (a', o) ->
  ms_has_objects f = false -> ms_r_ok f = true -> ms_r_con f = true ->
  In (MsOTx now (ms_confirm_unsol_bytes (ms_r_seq f))) o.
Proof. exact unsol_empty_confirmed. Qed.
Print Assumptions C17_unsol_empty_confirmed.

(* ---- non-vacuity --------------------------------------------------------------------------------------- *)

Definition ex_cfg : ms_acfg :=
  {| ms_c_disable := 7; ms_c_integrity := 15; ms_c_enable := 7; ms_c_tsync := 0; ms_c_ovf := false;
     ms_c_evscan := 0; ms_c_rmin := 5; ms_c_rmax := 20; ms_c_keepalive := None; ms_c_rto := 100;
     ms_c_maxq := 16 |}.
Definition ex_resp (seq iin1 : N) : ms_rx :=
  MsRxResp {| ms_r_uns := false; ms_r_fir := true; ms_r_fin := true; ms_r_con := false; ms_r_seq := seq;
              ms_r_iin1 := iin1; ms_r_iin2 := 0; ms_r_objs := []; ms_r_ok := true; ms_r_nvalues := 0;
              ms_r_delay := None |}.
Definition ex_unsol (seq : N) : ms_rx :=
  MsRxResp {| ms_r_uns := true; ms_r_fir := true; ms_r_fin := true; ms_r_con := true; ms_r_seq := seq;
              ms_r_iin1 := 0; ms_r_iin2 := 0; ms_r_objs := [2; 1; 23; 1; 0; 1]%N; ms_r_ok := true;
              ms_r_nvalues := 1; ms_r_delay := None |}.
(* connect; data-bearing unsolicited before the integrity poll; disable answered; integrity
   answered with the restart bit; clear-restart and enable answered; unsolicited again *)
Definition ex_events : list ms_event :=
  [MsEStart; MsEAddAssoc 1024 ex_cfg; MsETick 1; MsERx 1024 (ex_unsol 3); MsETick 1;
   MsERx 1024 (ex_resp 0 0); MsETick 1; MsERx 1024 (ex_resp 1 128); MsETick 1;
   MsERx 1024 (ex_resp 2 0); MsETick 1; MsERx 1024 (ex_resp 3 0); MsETick 1;
   MsERx 1024 (ex_unsol 4); MsETick 1000].

Example C17_run_instance :
  let h := snd (ms_run 50 ms_m_init ex_events) in
  nth_error h 3 = Some (MsOStart 0 1024 MsKDisableUnsol 21 0) /\
  nth_error h 5 = Some (MsOUnsolIgnored 1 1024) /\
  nth_error h 7 = Some (MsOStart 2 1024 MsKIntegrity 1 1) /\
  nth_error h 9 = Some (MsORestartSeen 3 1024) /\
  nth_error h 12 = Some (MsOStart 3 1024 MsKClearRestart 2 2) /\
  nth_error h 16 = Some (MsOStart 4 1024 MsKEnableUnsol 20 3) /\
  nth_error h 20 = Some (MsOCb 6 1024 MsRtUnsol 1) /\
  nth_error h 22 = Some (MsOTx 6 [212; 0]%N).
Proof. vm_compute. repeat split. Qed.

Example C17_backoff_instance :
  map (ms_nth_delay ms_limit_ms 1000 10000) (seq 0 6) = [1000; 2000; 4000; 8000; 10000; 10000] /\
  fst (ms_run_backoff ms_limit_ns (9223372036854775807 * 10 ^ 9) (18446744073709551615 * 10 ^ 9 + 999999999) 3)
  = [9223372036854775807 * 10 ^ 9; 18446744073709551614 * 10 ^ 9; 18446744073709551615 * 10 ^ 9 + 999999999].
Proof. vm_compute. split; reflexivity. Qed.
