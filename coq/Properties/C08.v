(* Properties/C08.v — statements only. *)
From Dnp3V Require Import Transport.Segment Transport.TransportProofs.
Open Scope N_scope.
