(* Properties/C08.v — statements only. *)
From Dnp3V Require Import Transport.Segment Transport.TransportProofs Link.CrcProofs.
Open Scope N_scope.

(* Vocabulary (all defined in Transport/TransportProofs.v):
   segs_of seq first cs    the (transport header, payload) pairs Writer::write produces for the chunks cs
   seg_obs info s          the segment s as the link layer hands it up: LInfo info (header byte :: payload)
   popped a                the assembler after Reader::pop: empty, frame id incremented mod 2^32
   data_segments obs       the (frame info, header, payload) triples the transport reader takes from obs
   complete_run run        first has FIR, every later segment has no FIR, the sequence number following its
                           predecessor's and the same frame info; FIN on the last segment only
   embed run mid           mid starts with the first and ends with the last segment of run, and the
                           elements of mid not in run are broadcast frames without FIR (is_ignored)
   sublist run l           run is a subsequence of l *)

(* 1. the transport header byte and the sequence counter *)
Theorem C08_tp_header_round_trip :
  (forall b, b < 256 -> tp_to_u8 (tp_from_u8 b) = b) /\
  (forall fin fir s, s < 64 ->
     tp_from_u8 (tp_to_u8 {| t_fin := fin; t_fir := fir; t_seq := s |})
     = {| t_fin := fin; t_fir := fir; t_seq := s |}).
Proof. exact tp_header_round_trip. Qed.
Print Assumptions C08_tp_header_round_trip.

Theorem C08_seq_next_cycle : forall s, s < 64 ->
  seq_next s < 64 /\ Nat.iter 64 seq_next s = s /\
  forall k, (0 < k < 64)%nat -> Nat.iter k seq_next s <> s.
Proof. exact seq_next_cycle. Qed.
Print Assumptions C08_seq_next_cycle.

(* 2. Writer::write = the link frames of the segments (FIR on the first, FIN on the last, consecutive
   sequence numbers); no frame is refused by the formatter; the payloads concatenate to the fragment;
   the writer's sequence number advances by the number of segments *)
Theorem C08_write_fragment_frames : forall cfg dest seq fragment,
  let segs := segs_of seq true (chunks 249 fragment) in
  write_fragment cfg dest seq fragment =
    (map (fun s => format_frame (data_header cfg dest) (tp_to_u8 (fst s) :: snd s)) segs,
     Nat.iter (length segs) seq_next seq) /\
  map (seg_frame cfg dest) segs =
    map (fun s => Some (format_frame (data_header cfg dest) (tp_to_u8 (fst s) :: snd s))) segs /\
  concat (map snd segs) = fragment.
Proof. exact write_fragment_frames. Qed.
Print Assumptions C08_write_fragment_frames.

(* the assembler, in ANY state (empty, in the middle of anything, holding a completed fragment), fed the
   segments of a fragment of 1 .. capacity bytes from a non-broadcast source, ends up holding exactly
   this fragment *)
Theorem C08_segment_reassemble : forall a info seq0 fragment,
  fi_broadcast info = None -> fragment <> [] -> (length fragment <= a_cap a)%nat ->
  feed_segs a info (segs_of seq0 true (chunks 249 fragment)) =
  {| a_state := AComplete {| fg_id := a_frame_id a; fg_source := fi_source info; fg_broadcast := None |} fragment;
     a_frame_id := (a_frame_id a + 1) mod 4294967296;
     a_cap := a_cap a |}.
Proof. exact segment_reassemble. Qed.
Print Assumptions C08_segment_reassemble.

(* the same through Reader::read / pop, on the header bytes as transmitted *)
Theorem C08_segments_delivered : forall a info seq0 fragment rest,
  fi_broadcast info = None -> fi_type info = FData -> seq0 < 64 ->
  fragment <> [] -> (length fragment <= a_cap a)%nat ->
  treader_obs a (map (seg_obs info) (segs_of seq0 true (chunks 249 fragment)) ++ rest) =
  TFrag {| fg_id := a_frame_id a; fg_source := fi_source info; fg_broadcast := None |} fragment
  :: treader_obs (popped a) rest.
Proof. exact segments_delivered. Qed.
Print Assumptions C08_segments_delivered.

(* a damaged stream costs only the affected fragments: after ANY sequence of link-layer deliveries
   without a link error, the next fragment that arrives as segmented is delivered intact *)
Theorem C08_next_fragment_intact : forall a junk info seq0 fragment rest,
  no_link_error junk ->
  fi_broadcast info = None -> fi_type info = FData -> seq0 < 64 ->
  fragment <> [] -> (length fragment <= a_cap a)%nat ->
  treader_obs a (junk ++ map (seg_obs info) (segs_of seq0 true (chunks 249 fragment)) ++ rest) =
  treader_obs a junk ++
  TFrag {| fg_id := a_frame_id (treader_after a junk); fg_source := fi_source info; fg_broadcast := None |}
        fragment
  :: treader_obs (popped (treader_after a junk)) rest.
Proof. exact next_fragment_intact. Qed.
Print Assumptions C08_next_fragment_intact.

(* 3. whatever the link layer delivers, a delivered fragment is the concatenation of a complete
   well-formed run of segments from one source that occurs in the input in this order, and fits the
   buffer.  Window form: the run lies in a contiguous window of the data segments and only ignored
   segments (broadcast frames without FIR) are skipped inside the window. *)
Theorem C08_delivered_is_run_window : forall cap obs fi buf,
  In (TFrag fi buf) (treader_obs (assembler_init cap) obs) ->
  exists pre mid post run,
    data_segments obs = pre ++ mid ++ post /\ embed run mid /\
    complete_run run /\
    buf = concat (map seg_data run) /\ (length buf <= cap)%nat /\
    exists i, Forall (fun s => seg_info s = i) run /\
              fg_source fi = fi_source i /\ fg_broadcast fi = fi_broadcast i /\
              (fi_broadcast i <> None -> length run = 1%nat).
Proof. exact delivered_is_run_window. Qed.
Print Assumptions C08_delivered_is_run_window.

Theorem C08_delivered_is_run : forall cap obs fi buf,
  In (TFrag fi buf) (treader_obs (assembler_init cap) obs) ->
  exists run,
    sublist run (data_segments obs) /\
    complete_run run /\
    buf = concat (map seg_data run) /\ (length buf <= cap)%nat /\
    exists i, Forall (fun s => seg_info s = i) run /\
              fg_source fi = fi_source i /\ fg_broadcast fi = fi_broadcast i /\
              (fi_broadcast i <> None -> length run = 1%nat).
Proof. exact delivered_is_run. Qed.
Print Assumptions C08_delivered_is_run.

(* what complete_run says about FIR and FIN, spelled out *)
Theorem C08_complete_run_shape : forall run, complete_run run ->
  exists first rest body lst,
    run = first :: rest /\ run = body ++ [lst] /\
    t_fir (seg_hdr first) = true /\ Forall (fun s => t_fir (seg_hdr s) = false) rest /\
    t_fin (seg_hdr lst) = true /\ Forall (fun s => t_fin (seg_hdr s) = false) body.
Proof. exact complete_run_shape. Qed.
Print Assumptions C08_complete_run_shape.

(* 4. the ids of the delivered fragments are 0, 1, 2, ... (mod 2^32) in order *)
Theorem C08_frame_ids_consecutive : forall cap obs,
  frag_ids (treader_obs (assembler_init cap) obs) =
  map (fun k => N.of_nat k mod 4294967296)
      (seq 0 (length (frag_ids (treader_obs (assembler_init cap) obs)))).
Proof. exact frame_ids_consecutive. Qed.
Print Assumptions C08_frame_ids_consecutive.

(* 5. writer -> bytes -> link parser -> link layer -> transport reader: a fragment of 1 .. frag bytes
   written to the address of a station of the opposite type arrives, in one physical read, as the same
   bytes from the writer's address; for both parser error modes and both read modes.  The read
   buffer (read_buffer_size frag) is large enough for all the frames: no overflow hypothesis is needed. *)
Theorem C08_write_read_round_trip : forall mode rm frag lcfg wcfg seq fragment,
  w_type wcfg <> l_type lcfg -> w_addr wcfg < 65520 -> l_addr lcfg < 65520 ->
  seq < 64 -> bytes_ok fragment -> fragment <> [] -> (length fragment <= frag)%nat ->
  run_treader mode rm frag lcfg [concat (fst (write_fragment wcfg (l_addr lcfg) seq fragment))]
  = [TFrag {| fg_id := 0; fg_source := w_addr wcfg; fg_broadcast := None |} fragment].
Proof. exact write_read_round_trip. Qed.
Print Assumptions C08_write_read_round_trip.

(* ---------- non-vacuity ------------------------------------------------------------------------- *)

(* a 250-byte fragment written with the sequence number at its maximum: two segments, the number wraps *)
Example C08_segs_instance :
  segs_of 63 true (chunks 249 (repeat 7 250)) =
  [({| t_fin := false; t_fir := true; t_seq := 63 |}, repeat 7 249);
   ({| t_fin := true; t_fir := false; t_seq := 0 |}, [7])].
Proof. vm_compute. reflexivity. Qed.

(* an empty fragment produces no frame at all: the lower bound "1 byte" of the property is real *)
Example C08_empty_fragment cfg dest seq : write_fragment cfg dest seq [] = ([], seq).
Proof. reflexivity. Qed.

Definition ex_uni : frame_info := {| fi_source := 1; fi_broadcast := None; fi_type := FData |}.
Definition ex_bc : frame_info := {| fi_source := 1; fi_broadcast := Some BOptional; fi_type := FData |}.

(* the skipped elements of C08_delivered_is_run_window exist: a broadcast segment without FIR between
   the two segments of a unicast fragment is ignored and the fragment is still delivered *)
Example C08_ignored_inside_run :
  treader_obs (assembler_init 10)
    [LInfo ex_uni [64 + 5; 1]; LInfo ex_bc [9; 99]; LInfo ex_uni [128 + 6; 2]]
  = [TFrag {| fg_id := 0; fg_source := 1; fg_broadcast := None |} [1; 2]].
Proof. vm_compute. reflexivity. Qed.

(* a skipped sequence number, a repeated segment, a missing FIR, a second source, an overflow: nothing
   is delivered; the well-formed fragment that follows is *)
Example C08_rejections :
  treader_obs (assembler_init 3)
    [LInfo ex_uni [64 + 5; 1]; LInfo ex_uni [128 + 7; 2];                  (* 5 then 7 *)
     LInfo ex_uni [64 + 5; 1]; LInfo ex_uni [5; 1]; LInfo ex_uni [128 + 6; 2]; (* 5, 5 *)
     LInfo ex_uni [128 + 6; 2];                                           (* no FIR *)
     LInfo ex_uni [64 + 5; 1];
     LInfo {| fi_source := 2; fi_broadcast := None; fi_type := FData |} [128 + 6; 2];
     LInfo ex_uni [64 + 5; 1; 2]; LInfo ex_uni [128 + 6; 3; 4];           (* 4 bytes > 3 *)
     LInfo ex_bc [64 + 1; 1]; LInfo ex_bc [128 + 2; 2];                   (* broadcast in two segments *)
     LInfo ex_uni [64 + 63; 1; 2]; LInfo ex_uni [128 + 0; 3]]
  = [TFrag {| fg_id := 0; fg_source := 1; fg_broadcast := None |} [1; 2; 3]].
Proof. vm_compute. reflexivity. Qed.

(* the end-to-end theorem on a concrete case: master 1 writes C0 01 3C 02 06 to outstation 1024 *)
Example C08_round_trip_instance :
  run_treader Discard Stream 2048 {| l_type := Outstation; l_self := false; l_addr := 1024 |}
    [concat (fst (write_fragment {| w_type := Master; w_addr := 1 |} 1024 0 [192; 1; 60; 2; 6]))]
  = [TFrag {| fg_id := 0; fg_source := 1; fg_broadcast := None |} [192; 1; 60; 2; 6]]
  /\ fst (write_fragment {| w_type := Master; w_addr := 1 |} 1024 0 [192; 1; 60; 2; 6])
     = [[5; 100; 11; 196; 0; 4; 1; 0; 202; 138; 192; 192; 1; 60; 2; 6; 84; 224]].
Proof. vm_compute. split; reflexivity. Qed.
