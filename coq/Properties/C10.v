(* Properties/C10.v — statements only; every proof is `exact <lemma>`. *)
From Dnp3V Require Import Base.Bytes gen.Conversions App.FloatBits App.Convert App.FloatBitsProofs App.ConvertProofs
  App.ConvertStaticProofs App.ConvertBytesProofs App.FloatBitsFlocq.
Open Scope N_scope.

(* P1 trip_exact: for every measurement type and every static or event variation (all conversion
   recipes regenerated from app/gen/conversion.rs) that is able to represent the measurement, the object
   bytes written by the outstation decode on the master to the same value, flags and time with quality
   (for the binary types the master's flag octet carries the state in bits 7/6: wire_flags) *)
Theorem C10_trip_exact : forall r m cto d,
  In r recipes -> wf_meas (rc_type r) m -> representable r m -> d < 65536 ->
  (rc_to_time r = Some ToTimeCto -> exists c, cto = Some c /\ cto_diff c (event_time m) = Some d) ->
  decode_obj r cto (encode_obj r m d) = mk_cmeas (cm_value m) (wire_flags (rc_type r) m) (cm_time m) [].
Proof. exact trip_exact. Qed.
Print Assumptions C10_trip_exact.

(* P1 trip_narrowing, part 1: for EVERY measurement (representable or not) what arrives is the
   `narrowed` measurement: counters keep value mod 2^16, analogs go through to_i16/to_i32/to_f32,
   variations without flag octet arrive as ONLINE, variations without time drop only the time, absolute
   times lose only the synchronisation quality *)
Theorem C10_trip_narrowing : forall r m cto d,
  In r recipes -> wf_meas (rc_type r) m -> d < 65536 ->
  decode_obj r cto (encode_obj r m d) = narrowed r m cto d.
Proof. exact trip_general. Qed.
Print Assumptions C10_trip_narrowing.

(* P1 trip_narrowing, part 2: to_i16 on every f64 bit pattern: NaN -> 0 + OVER_RANGE (the F13 fix), below
   the range -> MIN + OVER_RANGE, above -> MAX + OVER_RANGE, otherwise truncation toward zero with the
   flags unchanged and NO clamping (the cast cannot wrap or saturate silently) *)
Theorem C10_to_i16_saturates : forall m,
  let v := cm_value m in
  (fb64_is_nan v = true -> to_i16 m = (with_over_range (cm_flags m), 0%Z)) /\
  (fb64_is_nan v = false -> fb64_lt v fb64_i16_min = true -> to_i16 m = (with_over_range (cm_flags m), i16_min)) /\
  (fb64_is_nan v = false -> fb64_lt v fb64_i16_min = false -> fb64_gt v fb64_i16_max = true ->
     to_i16 m = (with_over_range (cm_flags m), i16_max)) /\
  (fb64_is_nan v = false -> fb64_lt v fb64_i16_min = false -> fb64_gt v fb64_i16_max = false ->
     to_i16 m = (cm_flags m, fb64_trunc v) /\ (i16_min <= fb64_trunc v <= i16_max)%Z).
Proof. exact to_i16_spec. Qed.
Print Assumptions C10_to_i16_saturates.

Theorem C10_to_i32_saturates : forall m,
  let v := cm_value m in
  (fb64_is_nan v = true -> to_i32 m = (with_over_range (cm_flags m), 0%Z)) /\
  (fb64_is_nan v = false -> fb64_lt v fb64_i32_min = true -> to_i32 m = (with_over_range (cm_flags m), i32_min)) /\
  (fb64_is_nan v = false -> fb64_lt v fb64_i32_min = false -> fb64_gt v fb64_i32_max = true ->
     to_i32 m = (with_over_range (cm_flags m), i32_max)) /\
  (fb64_is_nan v = false -> fb64_lt v fb64_i32_min = false -> fb64_gt v fb64_i32_max = false ->
     to_i32 m = (cm_flags m, fb64_trunc v) /\ (i32_min <= fb64_trunc v <= i32_max)%Z).
Proof. exact to_i32_spec. Qed.
Print Assumptions C10_to_i32_saturates.

Theorem C10_to_f32_saturates : forall m,
  let v := cm_value m in
  (fb64_is_nan v = true -> to_f32 m = (cm_flags m, fb64_to_f32 v) /\ fb32_is_nan (fb64_to_f32 v) = true) /\
  (fb64_is_nan v = false -> fb64_lt v fb64_f32_min = true -> to_f32 m = (with_over_range (cm_flags m), fb32_min_bits)) /\
  (fb64_is_nan v = false -> fb64_lt v fb64_f32_min = false -> fb64_gt v fb64_f32_max = true ->
     to_f32 m = (with_over_range (cm_flags m), fb32_max_bits)) /\
  (fb64_is_nan v = false -> fb64_lt v fb64_f32_min = false -> fb64_gt v fb64_f32_max = false ->
     to_f32 m = (cm_flags m, fb64_to_f32 v) /\ fb32_exp (fb64_to_f32 v) < 255 /\
     fb32_sign (fb64_to_f32 v) = fb64_sign v).
Proof. exact to_f32_spec. Qed.
Print Assumptions C10_to_f32_saturates.

(* OVER_RANGE is exactly bit 5: nothing else of the flag octet changes *)
Theorem C10_over_range_is_bit5 : forall f, f < 256 ->
  with_over_range f < 256 /\ with_over_range f = (if N.testbit f 5 then f else f + 32) /\
  without f 128 = f mod 128 /\ without f 192 = f mod 64.
Proof. exact flag_octet_facts. Qed.
Print Assumptions C10_over_range_is_bit5.

(* P1 cto_exact + index_and_flags_not_crossed (events): for every list of events of the event variations
   of the outstation (any order, any times, synchronised or not, as many g51v1/g51v2 headers as the
   write_cto rule needs) the i-th measurement handed to the handler is the i-th event: its index, its
   own value and flags, and for g2v3/g4v3 exactly its absolute time and quality *)
Theorem C10_cto_exact : forall req evs, Forall ev_wf (map (event_entry req) evs) ->
  meas_of (extract None (write_events req evs)) = map ev_expect (map (event_entry req) evs).
Proof. exact events_exact. Qed.
Print Assumptions C10_cto_exact.

(* the write_cto rule and Time::checked_add are inverse *)
Theorem C10_cto_offset_inverse : forall c tm d, snd tm <= timestamp_max -> cto_diff c tm = Some d ->
  d < 65536 /\ cto_add (Some c) d = Some tm.
Proof. exact cto_diff_add. Qed.
Print Assumptions C10_cto_offset_inverse.

(* widening an f32 to f64 and narrowing again is the identity on every finite f32 pattern, and the
   widened value passes the range checks *)
Theorem C10_f32_round_trip : forall x, x < p32 -> fb32_exp x < 255 ->
  fb64_to_f32 (fb32_to_f64 x) = x /\ fb64_is_nan (fb32_to_f64 x) = false /\
  fb64_lt (fb32_to_f64 x) fb64_f32_min = false /\ fb64_gt (fb32_to_f64 x) fb64_f32_max = false.
Proof. exact f32_round_trip. Qed.
Print Assumptions C10_f32_round_trip.

(* P1 index_and_flags_not_crossed (static): for every set of points of the static variations (sparse or
   dense indices, any mix of configured variations, a requested variation or the defaults, all objects or a
   range) the i-th measurement handed to the handler is the i-th selected point in index order, with its
   own index and the value/flags of exactly that point as narrowed by the (promoted) variation; packed
   formats g1v1/g3v1/g10v1 are unpacked to the right points *)
Theorem C10_flags_not_crossed : forall s pts, Forall (st_wf s) pts ->
  meas_of (extract None (write_static s pts)) = map (st_expect s) (filter (in_sel s) (sort_points pts)).
Proof. exact static_exact. Qed.
Print Assumptions C10_flags_not_crossed.

(* P1 trip_narrowing, part 3: packed formats are written only for plainly ONLINE points; otherwise the
   flagged variation of the same type is used *)
Theorem C10_packed_only_online : forall g v0 m t k pr,
  In (t, g, v0, k, pr) static_vars -> cm_flags m < 256 ->
  exists k' pr', In (t, g, promote g v0 m, k', pr') static_vars /\
    match k' with
    | WkBits => cm_flags m mod 128 = 1
    | WkDoubleBits => cm_flags m mod 64 = 1
    | WkFixed => True
    end.
Proof. exact promote_spec. Qed.
Print Assumptions C10_packed_only_online.

(* the bytes on the wire: whatever the two writers produce (16-bit start/stop headers with fixed-size or
   packed objects, count-and-prefix headers, g51 headers) is parsed back to exactly the same headers *)
Theorem C10_parse_serialize : forall hs, Forall hdr_wf hs -> parse_objects (serialize hs) = Some hs.
Proof. exact parse_objects_serialize. Qed.
Print Assumptions C10_parse_serialize.

(* the complete static trip of the `conv` engine (database points -> range writer -> bytes -> parser ->
   extract_measurements): the master side sees exactly the written headers, and the handler receives, in
   index order, every selected point with its own index, value and flags as narrowed by its variation *)
Theorem C10_trip_static_bytes : forall s pts, Forall (st_wf16 s) pts ->
  trip_static s pts = (serialize (write_static s pts), Some (extract None (write_static s pts))) /\
  meas_of (extract None (write_static s pts)) = map (st_expect s) (filter (in_sel s) (sort_points pts)).
Proof. exact trip_static_bytes. Qed.
Print Assumptions C10_trip_static_bytes.

(* the complete event trip (events -> event writer with its CTO rule -> bytes -> parser -> running CTO) *)
Theorem C10_trip_event_bytes : forall req evs, Forall ev_wf16 (map (event_entry req) evs) ->
  trip_event req evs = (serialize (write_events req evs), Some (extract None (write_events req evs))) /\
  meas_of (extract None (write_events req evs)) = map ev_expect (map (event_entry req) evs).
Proof. exact trip_event_bytes. Qed.
Print Assumptions C10_trip_event_bytes.

(* P2 to_f32_is_rounding_partial: the bit-level f64 -> f32 conversion agrees with Flocq's binary_normalize
   (mode_NE, binary32) on every finite exponent field x both signs x boundary mantissas; see
   App/FloatBitsFlocq.v for the full statement and what is missing *)
Theorem C10_to_f32_is_rounding_partial :
  forallb (fun e => forallb (fun m => forallb (fun s =>
     fb64_to_f32 (s * p63 + (840 + e) * p52 + m) =? flocq_f64_to_f32 (s * p63 + (840 + e) * p52 + m)) [0; 1])
     mant_samples) (nrange 1207) = true /\
  forallb (fun e => forallb (fun m => forallb (fun s =>
     fb64_to_f32 (s * p63 + e * p52 + m) =? flocq_f64_to_f32 (s * p63 + e * p52 + m)) [0; 1])
     [0; 1; 4503599627370495]) (nrange 840) = true.
Proof. exact to_f32_is_rounding_partial. Qed.
Print Assumptions C10_to_f32_is_rounding_partial.

(* ---- non-vacuity ---------------------------------------------------------------------------------- *)
(* 1e300 through g30v2 (i16 with flags): saturates to 32767 and gains exactly OVER_RANGE *)
Example C10_ex_saturate_g30v2 :
  let m := mk_cmeas 9094988921128908188 1 None [] in   (* 0x7E37E43C8800759C = 1e300 *)
  find_recipe 30 2 = Some (mk_recipe AI 30 2 [(FFlags, WU8); (FValue, WI16)] (Some ToFlagsConv) (Some ToValI16) None
                              FromValAsF64 FromFlagsNew FromTimeNone) /\
  to_i16 m = (33, 32767%Z) /\
  match find_recipe 30 2 with
  | Some r => encode_obj r m 0 = [33; 255; 127] /\ decode_obj r None (encode_obj r m 0) = mk_cmeas fb64_i16_max 33 None []
  | None => False
  end.
Proof. vm_compute. repeat split; reflexivity. Qed.

(* the same value through g30v4 (i16 WITHOUT flag octet): 32767 arrives as a plain ONLINE value - the
   open finding over-range-unflagged/no-flag-variation *)
Example C10_ex_saturate_g30v4_unflagged :
  let m := mk_cmeas 9094988921128908188 1 None [] in
  match find_recipe 30 4 with
  | Some r => encode_obj r m 0 = [255; 127] /\ decode_obj r None (encode_obj r m 0) = mk_cmeas fb64_i16_max 1 None []
  | None => False
  end.
Proof. vm_compute. repeat split; reflexivity. Qed.

(* F13 after the fix: NaN through g30v2 is flagged *)
Example C10_ex_nan_flagged :
  to_i16 (mk_cmeas 9221120237041090560 1 None []) = (33, 0%Z).   (* 0x7FF8000000000000 *)
Proof. vm_compute. reflexivity. Qed.

(* a representable measurement: 1.5 through g32v7 (f32 with flags and time) *)
Example C10_ex_representable :
  let m := mk_cmeas 4609434218613702656 1 (Some (Sync, 1000)) [] in  (* 0x3FF8000000000000 = 1.5 *)
  match find_recipe 32 7 with
  | Some r => In r recipes /\ wf_meas (rc_type r) m /\
              decode_obj r None (encode_obj r m 0) = m
  | None => False
  end.
Proof.
  cbv zeta. vm_compute find_recipe. cbv iota beta.
  split; [vm_compute; tauto|]. split; [vm_compute; repeat split; try discriminate; reflexivity|].
  vm_compute. reflexivity.
Qed.

(* a CTO sequence: gap 65535 stays under the header, 65536 and an unsynchronised time start new ones *)
Example C10_ex_cto_sequence :
  let ev := fun t => mk_cpoint 3 2 3 (mk_cmeas 1 1 (Some t) []) in
  write_events 0 [ev (Sync, 1000); ev (Sync, 66535); ev (Sync, 66536); ev (Unsync, 66536)] =
  [HCto 1 1000; HPrefix 2 3 [(3, [129; 0; 0]); (3, [129; 255; 255])];
   HCto 1 66536; HPrefix 2 3 [(3, [129; 0; 0])];
   HCto 2 66536; HPrefix 2 3 [(3, [129; 0; 0])]] /\
  map (fun x => cm_time (snd x)) (meas_of (extract None (write_events 0 [ev (Sync, 1000); ev (Sync, 66535); ev (Sync, 66536); ev (Unsync, 66536)]))) =
  [Some (Sync, 1000); Some (Sync, 66535); Some (Sync, 66536); Some (Unsync, 66536)].
Proof. vm_compute. split; reflexivity. Qed.

(* the hypotheses of the trip theorems are satisfiable: three binary inputs configured g1v1, the middle
   one not plainly ONLINE (promoted to g1v2: the run of packed bits is split around it) *)
Example C10_ex_static_trip :
  let pt := fun i v f => mk_cpoint i 1 1 (mk_cmeas v f None []) in
  let pts := [pt 7 1 1; pt 8 1 3; pt 9 0 1] in
  let s := mk_sel 0 None in
  Forall (st_wf16 s) pts /\
  write_static s pts = [HRange 1 1 7 7 [1]; HRange 1 2 8 8 [131]; HRange 1 1 9 9 [0]] /\
  map (st_expect s) pts = [(OT BI, 7, mk_cmeas 1 1 None []); (OT BI, 8, mk_cmeas 1 131 None []); (OT BI, 9, mk_cmeas 0 1 None [])].
Proof.
  cbv zeta. split; [|vm_compute; split; reflexivity].
  repeat constructor; try (vm_compute; reflexivity);
    exists BI, WkBits, (Some (2, 128)); (split; [vm_compute; tauto|vm_compute; repeat split; try discriminate; reflexivity]).
Qed.
