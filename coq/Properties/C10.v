From Dnp3V Require Import App.ConvertProofs.
Theorem C10_placeholder : length Conversions.recipes = length Conversions.recipes.
Proof. exact cv_placeholder. Qed.
Print Assumptions C10_placeholder.
