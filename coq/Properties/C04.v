(* Properties/C04.v — statements only; every proof is `exact <lemma>`.
   C04: OPERATE actuates only after its own matching, fresh, directly preceding SELECT.
   Model: Outstation/Session.v (ostep / ostart / orun).  `J s` is the step-boundary invariant of the
   model (no fragment left in the reader; a deferred READ only in the unsolicited confirm wait): it
   holds in every reachable state (C04_reach_J). *)
From Dnp3V Require Import Outstation.Session Outstation.SessionLemmas_c04 Outstation.SessionC04Proofs.
Open Scope N_scope.

Theorem C04_reach_J : forall cfg s h, Reach cfg s h -> J s.
Proof. exact reach_J. Qed.
Print Assumptions C04_reach_J.

(* 1. one step: a select-before-operate callback comes from a unicast OPERATE request accepted by the
   transport filter while the state holds a select with the preceding sequence number, taken (or last
   re-based) at the fragment read immediately before, for byte-identical objects, not older than the
   select timeout *)
Theorem C04_sbo_operate_needs_matching_select : forall cfg s ev answers g v idx obj,
  J s -> In (OCb (CbOperate g v idx OpSbo obj)) (snd (ostep cfg s ev answers)) ->
  exists from bytes d ctl hdrs rh sel,
    ev = ERx from None bytes d /\
    to_treq cfg from d = TqRequest ctl fn_operate (ObjOk hdrs rh) /\
    s_select s = Some sel /\
    seq16_next (ss_seq sel) = ctl_seq ctl /\
    (ss_frame_id sel + 1) mod 4294967296 = (s_frame_id s + 1) mod 4294967296 /\
    ss_objects sel = objects_of bytes /\
    (s_now s - ss_time sel <= o_select_ms cfg)%Z.
Proof. exact sbo_operate_needs_matching_select. Qed.
Print Assumptions C04_sbo_operate_needs_matching_select.

(* the other control callbacks: select only for function 3, direct operate only for function 5 (both
   unicast), direct operate without acknowledgement only for function 6 (unicast or broadcast) *)
Theorem C04_control_callback_function : forall cfg s ev answers c,
  J s -> In (OCb c) (snd (ostep cfg s ev answers)) ->
  exists from bc bytes d ctl fn hdrs rh,
    ev = ERx from bc bytes d /\ to_treq cfg from d = TqRequest ctl fn (ObjOk hdrs rh) /\
    match c with
    | CbSelect _ _ _ _ => fn = fn_select /\ bc = None
    | CbOperate _ _ _ OpSbo _ => fn = fn_operate /\ bc = None
    | CbOperate _ _ _ OpDo _ => fn = fn_direct_operate /\ bc = None
    | CbOperate _ _ _ OpDoNr _ => fn = fn_direct_operate_nr
    | _ => True
    end.
Proof. exact control_callback_function. Qed.
Print Assumptions C04_control_callback_function.

(* 2. an OPERATE that does not match (no select, or match_operate refuses): no callback at all in the
   step, the status is TIMEOUT (1) or NO_SELECT (2), and unless the request is a retransmission of the
   last request (answered from memory) the response carries the echo with that status in every object *)
Theorem C04_operate_rejected_echoes_status : forall cfg s from bytes d answers ctl hdrs rh status,
  J s ->
  to_treq cfg from d = TqRequest ctl fn_operate (ObjOk hdrs rh) -> all_controls hdrs = true ->
  operate_verdict cfg s (ctl_seq ctl) ((s_frame_id s + 1) mod 4294967296) bytes = Some status ->
  let out := snd (ostep cfg s (ERx from None bytes d) answers) in
  (status = 1 \/ status = 2) /\ no_cb out /\
  (~ last_matches (s_last s) (ctl_seq ctl) bytes ->
   exists echo ok cbs st started c f i1 i2,
     ctl_headers s cfg (o_sol_tx cfg - 4) (CmStatus status) [] 0 false hdrs = (echo, ok, cbs, st, started) /\
     In (OTx from (c :: f :: i1 :: i2 :: echo)) out).
Proof. exact operate_rejected_echoes_status. Qed.
Print Assumptions C04_operate_rejected_echoes_status.

(* 3. where a select state comes from.  A select is never dropped by another fragment: it stays in
   the state and merely cannot match (stale); hence the clause about the fragments after the SELECT is
   for LIVE selects (frame id = current frame counter).  Fewer than 2^32 fragments: the counter is a u32
   (C04_frame_counter_wraps). *)
Theorem C04_select_state_inv : forall cfg s h sel,
  Reach cfg s h -> s_select s = Some sel ->
  exists s0 pre ea mid post bytes,
    (exists hs ho iin a0, s0 = fst (ostart cfg hs ho iin a0)) /\ s = run_from cfg s0 h /\
    h = pre ++ ea :: mid ++ post /\
    select_event cfg (run_from cfg s0 pre) ea (ss_seq sel) bytes (ss_objects sel) (ss_time sel) /\
    Forall (fun e => is_disc e = false) (mid ++ post) /\
    s_frame_id s = (ss_frame_id sel + N.of_nat (rx_count post)) mod two32 /\
    (N.of_nat (rx_count h) < two32 ->
       Forall (fun e => is_rx e = true -> repeat_of cfg (ss_seq sel) bytes e) mid /\
       (ss_frame_id sel = s_frame_id s -> Forall (fun e => is_rx e = false) post)).
Proof. exact select_state_inv. Qed.
Print Assumptions C04_select_state_inv.

(* without the bound: after exactly 2^32 further fragments the frame counter is back at the select's
   frame id, and a stale select would match again *)
Theorem C04_frame_counter_wraps : forall f,
  f < two32 -> N.iter two32 (fun x => (x + 1) mod two32) f = f.
Proof. exact frame_id_wrap_refuted. Qed.
Print Assumptions C04_frame_counter_wraps.

(* 4. the trace theorem (DESIGN.md appendix B) *)
Theorem C04_operate_sbo_implies_select : forall cfg hs ho iin a0 (evs : hist) k g v idx obj outk,
  let s0 := fst (ostart cfg hs ho iin a0) in
  N.of_nat (rx_count (firstn k evs)) < two32 ->
  nth_error (orun cfg s0 evs) k = Some outk -> In (OCb (CbOperate g v idx OpSbo obj)) outk ->
  exists j from bytes d ans ctl hdrs rh seqj bytesj timej,
    (j < k)%nat /\
    nth_error evs k = Some (ERx from None bytes d, ans) /\
    to_treq cfg from d = TqRequest ctl fn_operate (ObjOk hdrs rh) /\
    select_at cfg s0 evs j seqj bytesj (objects_of bytes) timej /\
    ctl_seq ctl = seq16_next seqj /\
    (forall m ea, (j < m < k)%nat -> nth_error evs m = Some ea ->
       is_disc ea = false /\ (is_rx ea = true -> repeat_of cfg seqj bytesj ea)) /\
    (s_now (state_at cfg s0 evs k) - timej <= o_select_ms cfg)%Z.
Proof. exact operate_sbo_implies_select. Qed.
Print Assumptions C04_operate_sbo_implies_select.

(* 5. the converse *)
Theorem C04_select_then_operate_once :
  forall cfg s from bytes_s d_s bytes_o d_o ctl_s ctl_o hdrs rh_s rh_o dly a1 a2 a3 a4,
  J s ->
  to_treq cfg from d_s = TqRequest ctl_s fn_select (ObjOk hdrs rh_s) ->
  to_treq cfg from d_o = TqRequest ctl_o fn_operate (ObjOk hdrs rh_o) ->
  all_controls hdrs = true ->
  objects_of bytes_o = objects_of bytes_s ->
  ctl_seq ctl_o = seq16_next (ctl_seq ctl_s) ->
  ~ last_matches (s_last s) (ctl_seq ctl_s) bytes_s ->
  s_sel_status s = 0 -> s_op_status s = 0 -> o_max_controls cfg = None ->
  snd (echo_all (o_sol_tx cfg - 4) [] hdrs 0) = true ->
  (settle_ms + dly <= o_select_ms cfg)%Z ->
  let '(s1, out1) := ostep cfg s (ERx from None bytes_s d_s) a1 in
  let '(s2, out2) := ostep cfg s1 (ESleep dly) a2 in
  let '(s3, out3) := ostep cfg s2 (ERx from None bytes_o d_o) a3 in
  let '(s4, out4) := ostep cfg s3 (ERx from None bytes_o d_o) a4 in
  filter is_cb out1 = bracket (hdr_cbs CmSelect hdrs) /\
  no_cb out2 /\
  filter is_cb out3 = bracket (hdr_cbs (CmOperate OpSbo) hdrs) /\
  no_cb out4.
Proof. exact select_then_operate_once. Qed.
Print Assumptions C04_select_then_operate_once.

(* the callbacks between begin and end: one per control object of the request, in order *)
Theorem C04_operate_callbacks_per_object : forall t hdrs,
  hdr_cbs (CmOperate t) hdrs =
  map (fun x => match x with (g, v, idx, obj) => OCb (CbOperate g v idx t obj) end) (ctl_objects hdrs).
Proof. exact hdr_cbs_operate. Qed.
Print Assumptions C04_operate_callbacks_per_object.

(* ================= non-vacuity: concrete histories, computed on the model ===================== *)

Definition cfg0 : ocfg := {| o_master := 1; o_any_master := false; o_unsol := false; o_broadcast := true;
  o_confirm_ms := 5000; o_select_ms := 5000; o_retries := None; o_retry_delay_ms := 0; o_max_controls := None;
  o_sol_tx := 2048; o_delay_ms := 0; o_cold := None; o_warm := None; o_wtime := 0; o_freeze := 0 |}.
Definition crob : list N := [3; 1; 100; 0; 0; 0; 100; 0; 0; 0; 0].
Definition objs : list N := [12; 1; 23; 1; 7] ++ crob.           (* g12v1, qualifier 0x17, one object, index 7 *)
Definition hd : list whdr := [WCtl 12 1 1 [(7, crob)]].
Definition sel_ev (seq : N) : oevent := ERx 1 None ([192 + seq; 3] ++ objs) (DOk (192 + seq) 3 RvOk (ObjOk hd [true])).
Definition op_ev (seq : N) : oevent := ERx 1 None ([192 + seq; 4] ++ objs) (DOk (192 + seq) 4 RvOk (ObjOk hd [true])).
Definition wr_ev (seq : N) : oevent :=
  ERx 1 None [192 + seq; 2; 80; 1; 0; 7; 7; 0] (DOk (192 + seq) 2 RvOk (ObjOk [WIin [(7, false)]] [true])).
Definition ans1 : list answer := [AEvinfo false false false false].
Definition st0 : ostate := fst (ostart cfg0 0 0 0 []).
Definition cbs_of (l : list (list oobs)) : list (list oobs) := map (filter is_cb) l.
Definition c_sel : oobs := OCb (CbSelect 12 1 7 crob).
Definition c_op : oobs := OCb (CbOperate 12 1 7 OpSbo crob).
Definition c_b : oobs := OCb CbBeginFragment.
Definition c_e : oobs := OCb CbEndFragment.

(* the happy path *)
Example C04_happy_path :
  cbs_of (orun cfg0 st0 [(sel_ev 5, ans1); (op_ev 6, ans1)]) = [[c_b; c_sel; c_e]; [c_b; c_op; c_e]].
Proof. vm_compute. reflexivity. Qed.

(* the 4-bit sequence wraps 15 -> 0 *)
Example C04_sequence_wrap :
  cbs_of (orun cfg0 st0 [(sel_ev 15, ans1); (op_ev 0, ans1)]) = [[c_b; c_sel; c_e]; [c_b; c_op; c_e]].
Proof. vm_compute. reflexivity. Qed.

(* the select retransmitted, then operated; the OPERATE retransmitted is not executed again *)
Example C04_select_retransmitted_then_operated_once :
  cbs_of (orun cfg0 st0 [(sel_ev 5, ans1); (sel_ev 5, ans1); (op_ev 6, ans1); (op_ev 6, ans1)])
  = [[c_b; c_sel; c_e]; []; [c_b; c_op; c_e]; []].
Proof. vm_compute. reflexivity. Qed.

(* one other fragment in between: the select is stale *)
Example C04_intervening_request_breaks_the_pair :
  cbs_of (orun cfg0 st0 [(sel_ev 5, ans1); (wr_ev 9, ans1); (op_ev 6, ans1)]) = [[c_b; c_sel; c_e]; []; []].
Proof. vm_compute. reflexivity. Qed.

(* a stale select does not match again when the sequence numbers have gone round (17 requests) *)
Example C04_stale_select_does_not_rematch :
  cbs_of (orun cfg0 st0
    ((sel_ev 5, ans1) :: map (fun q => (wr_ev q, ans1)) [6; 7; 8; 9; 10; 11; 12; 13; 14; 15; 0; 1; 2; 3; 4; 5]
     ++ [(op_ev 6, ans1)]))
  = [c_b; c_sel; c_e] :: repeat [] 17.
Proof. vm_compute. reflexivity. Qed.

(* the select timeout: the SELECT step takes 1 ms (settle); 4999 ms later is still in time, 5000 ms is not *)
Example C04_timeout_boundary :
  cbs_of (orun cfg0 st0 [(sel_ev 5, ans1); (ESleep 4999, []); (op_ev 6, ans1)]) = [[c_b; c_sel; c_e]; []; [c_b; c_op; c_e]] /\
  cbs_of (orun cfg0 st0 [(sel_ev 5, ans1); (ESleep 5000, []); (op_ev 6, ans1)]) = [[c_b; c_sel; c_e]; []; []].
Proof. split; vm_compute; reflexivity. Qed.

(* a disconnect between SELECT and OPERATE *)
Example C04_disconnect_drops_the_select :
  cbs_of (orun cfg0 st0 [(sel_ev 5, ans1); (EDisconnect, []); (op_ev 6, ans1)]) = [[c_b; c_sel; c_e]; []; []].
Proof. vm_compute. reflexivity. Qed.

(* an OPERATE without select is answered NO_SELECT (last byte of the object = 2) and nothing is called *)
Example C04_operate_without_select :
  orun cfg0 st0 [(op_ev 6, ans1)] =
  [[OInfo (IIdleRequest 4 6); ODb DbEvinfo;
    OTx 1 ([198; 129; 128; 0; 12; 1; 23; 1; 7] ++ [3; 1; 100; 0; 0; 0; 100; 0; 0; 0; 2])]].
Proof. vm_compute. reflexivity. Qed.

(* The two histories on which the first proof attempt of C04_operate_sbo_implies_select failed, found by
   that attempt and confirmed on the implementation (session.rs re-based the select on the retransmission
   of ANY non-READ request; repaired, /repo 487019d).  Before the repair the last step of each emitted
   [c_b; c_op; c_e]. *)
Example C04_retransmission_of_other_request_does_not_revive :
  cbs_of (orun cfg0 st0 [(sel_ev 5, ans1); (wr_ev 6, ans1); (wr_ev 6, ans1); (op_ev 6, ans1)])
  = [[c_b; c_sel; c_e]; []; []; []].
Proof. vm_compute. reflexivity. Qed.

(* SELECT accepted; another request; the handler now refuses (status 4); the same SELECT is refused (the old
   select state is kept), its retransmission must not re-base the old select; OPERATE is not executed *)
Example C04_refused_select_retransmitted_does_not_revive :
  cbs_of (orun cfg0 st0 [(sel_ev 5, ans1); (wr_ev 9, ans1); (EHandler 4 0, []); (sel_ev 5, ans1);
                         (sel_ev 5, ans1); (op_ev 6, ans1)])
  = [[c_b; c_sel; c_e]; []; []; [c_b; c_sel; c_e]; []; []].
Proof. vm_compute. reflexivity. Qed.

(* the hypotheses of C04_select_then_operate_once hold for these requests in the start-up state *)
Example C04_converse_hypotheses_satisfiable :
  J st0 /\ all_controls hd = true /\ snd (echo_all (o_sol_tx cfg0 - 4) [] hd 0) = true /\
  s_sel_status st0 = 0 /\ s_op_status st0 = 0 /\ s_last st0 = None /\
  to_treq cfg0 1 (DOk 197 3 RvOk (ObjOk hd [true])) = TqRequest 197 fn_select (ObjOk hd [true]) /\
  ctl_seq 198 = seq16_next (ctl_seq 197).
Proof.
  split; [apply (proj1 (ostart_spec cfg0 0 0 0 []))|]. vm_compute. repeat split; reflexivity.
Qed.

(* ================= composed: nothing but the received octets and the database are inputs =================
   Outstation/Full.v composes the session model with the digest computed from the octets (`frag_digest`,
   App/Grammar.v) and the database model answering the session's calls (`replay`).  `fstep F st (FRx from bc bytes)`
   is one reception in that model, `FReach` its reachable states (start-up `fstart`, then any `fstep`: receptions,
   time, the user's database transactions ...).  The log of a step (`snd (fstep ..)`) holds the session's
   observations as `FObs o`.  Outstation/FullCorollaries.v. *)
From Dnp3V Require Import App.Grammar Outstation.Full.
From Dnp3V Require Outstation.SessionC03Proofs.
From Dnp3V Require Import Outstation.FullCorollaries.

(* what a reception is in the composed model: the session event carries `frag_digest bytes`, the database is
   the state's (frx_out = fevent_out F st (fs_db st) (ERx from bc bytes (frag_digest bytes))) *)
Theorem C04_composed_reception_spec : forall F st from bc bytes,
  fstep F st (FRx from bc bytes) =
  ({| fs_s := ro_s (frx_out F st from bc bytes); fs_db := ro_db (frx_out F st from bc bytes) |},
   FDigest (frag_digest bytes) (frag_rv_code bytes) :: ro_log (frx_out F st from bc bytes)).
Proof. exact fstep_frx. Qed.
Print Assumptions C04_composed_reception_spec.

(* C04_sbo_operate_needs_matching_select through the parser: a select-before-operate callback appears in the
   log of a reception only if the fragment is unicast, from an accepted master (accepted_master: any master
   allowed, or `from` is the configured one), a well-formed request (wf_request: header parses, FIR FIN, objects
   parse) whose octet 1 is 4 (OPERATE) and whose octet 0 has FIR, FIN set and UNS clear, and the session holds a
   select recorded for exactly the octets from octet 2 on, with the preceding sequence number, taken at the
   fragment read immediately before, not older than the select timeout *)
Theorem C04_composed_sbo_operate_needs_matching_select : forall F st from bc bytes g v idx obj,
  SessionC03Proofs.FReach F st ->
  In (FObs (OCb (CbOperate g v idx OpSbo obj))) (snd (fstep F st (FRx from bc bytes))) ->
  bc = None /\ accepted_master (f_o F) from /\ wf_request bytes /\
  exists c rest sel,
    bytes = c :: 4 :: rest /\
    N.testbit c 7 = true /\ N.testbit c 6 = true /\ N.testbit c 4 = false /\
    s_select (fs_s st) = Some sel /\
    ss_objects sel = rest /\
    seq16_next (ss_seq sel) = c mod 16 /\
    (ss_frame_id sel + 1) mod 4294967296 = (s_frame_id (fs_s st) + 1) mod 4294967296 /\
    (s_now (fs_s st) - ss_time sel <= o_select_ms (f_o F))%Z.
Proof. exact frx_sbo_operate_needs_matching_select. Qed.
Print Assumptions C04_composed_sbo_operate_needs_matching_select.

(* non-vacuity (computed in FullCorollaries by vm_compute): after the SELECT `C5 03 0C 01 17 01 07 <crob>` the
   OPERATE `C6 04 ...` with the same objects calls the handler; without the select, or with sequence number 7
   instead of 6, it does not *)
Example C04_composed_instance :
  SessionC03Proofs.FReach cx_F cx_selected /\
  In (FObs (OCb (CbOperate 12 1 7 OpSbo cx_crob))) (snd (fstep cx_F cx_selected (FRx 1 None cx_op))) /\
  s_select (fs_s cx_selected) = Some {| ss_seq := 5; ss_frame_id := 1; ss_time := 0; ss_objects := cx_objs |} /\
  s_frame_id (fs_s cx_selected) = 1 /\
  has_sbo (snd (fstep cx_F cx_st0 (FRx 1 None cx_op))) = false /\
  has_sbo (snd (fstep cx_F cx_selected (FRx 1 None ([199; 4] ++ cx_objs)))) = false /\
  SessionC03Proofs.has_replay_error (snd (fstep cx_F cx_selected (FRx 1 None cx_op))) = false.
Proof. exact ex_frx_sbo_operate. Qed.
