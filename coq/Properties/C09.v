(* Properties/C09.v — statements only; every proof is `exact <lemma>`. *)
From Dnp3V Require Import App.Writers App.GrammarProofs App.WritersProofs.
Open Scope N_scope.

Theorem C09_atake_zero : forall l, atake l 0 = Some ([], l).
Proof. exact atake_zero. Qed.
Print Assumptions C09_atake_zero.
