(* Properties/C09.v — statements only; every proof is `exact <lemma>`.
   C09: what one side encodes, the other side's parser decodes to the same objects.
   The tables (fixed_table, lookup_table, qt_*, q_*, function codes) are regenerated from the Rust source on
   every run; the generic walker (App/Grammar.v) and writers (App/Writers.v) are tied to the code by the
   `app` engine's differential run. *)
From Dnp3V Require Import App.Writers App.GrammarProofs App.WritersProofs.
Open Scope N_scope.

(* P1: SIZE of every fixed-size variation = sum of the widths of the fields its `read` consumes *)
Theorem C09_size_is_sum_of_fields : forall fi, In fi fixed_table -> fi_size fi = asum (awidths fi).
Proof. exact size_is_sum_of_fields. Qed.
Print Assumptions C09_size_is_sum_of_fields.

(* P1: `read` and `write` of every fixed-size variation visit the same fields, same kinds, same order *)
Theorem C09_read_write_same_order : forall fi, In fi fixed_table -> fi_read fi = fi_write fi.
Proof. exact read_write_same_order. Qed.
Print Assumptions C09_read_write_same_order.

(* P1: write the fields (any values within the field widths) then read = the same fields, consuming
   exactly SIZE bytes *)
Theorem C09_fixed_codec_round_trip : forall fi xs rest, In fi fixed_table ->
  Forall2 (fun w x => x < 256 ^ w) (awidths_w fi) xs ->
  aread_fields (awidths fi) (awrite_fields (awidths_w fi) xs ++ rest) = Some (xs, rest)
  /\ N.of_nat (length (awrite_fields (awidths_w fi) xs)) = fi_size fi.
Proof. exact fixed_codec_round_trip. Qed.
Print Assumptions C09_fixed_codec_round_trip.

(* ... and read any bytes then write = the same bytes (all value bit patterns survive) *)
Theorem C09_fixed_codec_round_trip_bytes : forall fi l xs r, In fi fixed_table -> abytes_ok l ->
  aread_fields (awidths fi) l = Some (xs, r) -> l = awrite_fields (awidths_w fi) xs ++ r.
Proof. exact fixed_codec_round_trip_bytes. Qed.
Print Assumptions C09_fixed_codec_round_trip_bytes.

(* P1: one header is accepted iff the bytes present are exactly its encoding: group, variation, qualifier,
   range or count as the tables allow them for this function code, followed by exactly the object bytes
   they imply (awf_header spells out SIZE*count, ceil(count/8), ceil(count/4), (n+prefix)*count, one
   attribute, the declared free-format length, nothing for READ ranges; `stop < start` never accepted) *)
Theorem C09_accept_iff_exact_bytes_header : forall o fc l h rest, abytes_ok l ->
  (aparse_one o fc l = AOk (h, rest) <-> l = aencode_header h ++ rest /\ awf_header o fc h).
Proof. exact accept_iff_exact_bytes_header. Qed.
Print Assumptions C09_accept_iff_exact_bytes_header.

(* P1: the whole fragment is accepted iff it is a concatenation of such headers, every byte consumed, and
   the iterating second pass yields exactly those headers *)
Theorem C09_accept_iff_exact_bytes_fragment : forall o fc l hs, abytes_ok l ->
  ((exists c, avalidate o fc l = AOk c /\ aiter_headers c = hs)
   <-> l = concat (map aencode_header hs) /\ Forall (awf_header o fc) hs).
Proof. exact accept_iff_exact_bytes_fragment. Qed.
Print Assumptions C09_accept_iff_exact_bytes_fragment.

(* P1: the second pass never meets an error after a successful first pass *)
Theorem C09_second_pass_agrees_with_first : forall o fc l c, avalidate o fc l = AOk c ->
  aone_pass (length l) o fc l = map AOk (aiter_headers c).
Proof. exact second_pass_agrees_with_first. Qed.
Print Assumptions C09_second_pass_agrees_with_first.

(* P1: iterating an accepted header yields exactly `count` objects, indices start .. stop <= 65535 without
   wrap, identical to (and exhausting) the object bytes the first pass measured *)
Theorem C09_iterate_agrees_with_validate : forall o fc h, awf_header o fc h ->
  abytes_ok (apayload_bytes (oh_payload h)) ->
  aiterate_spec h
  /\ (forall a b s c, adetails_range (oh_details h) = Some (a, b) -> apayload_range (oh_payload h) = Some (s, c) ->
        s = a /\ s + c = b + 1 /\ b <= 65535).
Proof. exact iterate_agrees_with_validate. Qed.
Print Assumptions C09_iterate_agrees_with_validate.

(* P1: every request the modelled builders write is parsed into what was written *)
Theorem C09_encode_parse_round_trip : forall o cap seq fc hs bytes,
  seq < 16 -> fc < 256 -> afunction_known fc = true -> afunction_has_iin fc = false ->
  Forall (aw_ok o fc) hs -> awrite_request cap seq fc hs = AOk bytes ->
  exists pf, parse_fragment o bytes = AOk pf
    /\ pf_header pf = {| ah_control := actl_request seq; ah_function := fc; ah_iin := None |}
    /\ ato_request (pf_header pf) = None
    /\ headers_of pf = AOk (concat (map aw_headers hs))
    /\ pf_raw_objects pf = concat (map aencode_header (concat (map aw_headers hs))).
Proof. exact encode_parse_round_trip. Qed.
Print Assumptions C09_encode_parse_round_trip.

(* P1 (free-format file objects g70v2 .. g70v8, app/file/g70v*.rs): `write` fails, with Overflow, exactly
   when a string size (or, for g70v2, the password offset 12 + size of the user name) exceeds 65535;
   otherwise it produces fw_body *)
Theorem C09_free_write_result : forall o,
  (afree_sizes_fit o /\ awrite_free o = AOk (fw_body o))
  \/ (~ afree_sizes_fit o /\ awrite_free o = AErr WENumeric).
Proof. exact free_write_result. Qed.
Print Assumptions C09_free_write_result.

(* P1: the body is the fixed-size fields in their little-endian widths (afree_values: the constant offsets
   12 / 26 / 20, the size fields = alen = the number of BYTES of the UTF-8 strings, the implied password
   offset) followed by the strings / the file data *)
Theorem C09_free_body_layout : forall o,
  fw_body o = awrite_fields (afree_widths o) (afree_values o) ++ afree_tail o.
Proof. exact free_body_layout. Qed.
Print Assumptions C09_free_body_layout.

(* P1: reading the fields back yields the values written (the size fields decode to the byte lengths of the
   strings) and leaves exactly the strings *)
Theorem C09_free_size_fields_are_byte_lengths : forall o rest, afree_fields_ok o ->
  aread_fields (afree_widths o) (fw_body o ++ rest) = Some (afree_values o, afree_tail o ++ rest).
Proof. exact free_fields_round_trip. Qed.
Print Assumptions C09_free_size_fields_are_byte_lengths.

(* P1: what `write` produces for an object whose strings are UTF-8 (any &str) is accepted by the reader,
   which reports the byte lengths of the strings / data and leaves no byte unread (aparse_free returns
   the lengths the harness lists and the unread rest) *)
Theorem C09_free_parse_round_trip : forall o body, afree_strings_ok o -> awrite_free o = AOk body ->
  aparse_free (afree_var o) body = AOk (afree_lengths o, []).
Proof. exact free_parse_round_trip. Qed.
Print Assumptions C09_free_parse_round_trip.

(* P1: HeaderWriter::write_free_format: group 70, variation, qualifier 0x5B, count 1, 16-bit length of the
   object, the object.  (Inside a request the header is covered by C09_encode_parse_round_trip: aw_ok and
   aw_headers of WFree.) *)
Theorem C09_free_header_layout : forall o,
  aw_free_bytes o = [70; afree_var o; 91; 1] ++ ale_bytes 2 (alen (fw_body o)) ++ fw_body o.
Proof. exact free_header_layout. Qed.
Print Assumptions C09_free_header_layout.

(* P1: function, flags (FIR/FIN/CON/UNS, sequence) and IIN: the header a writer emits is parsed back, the
   object headers being everything that follows ... *)
Theorem C09_header_round_trip : forall h objs, ac_seq (ah_control h) < 16 -> afunction_known (ah_function h) = true ->
  (afunction_has_iin (ah_function h) = true <-> ah_iin h <> None) ->
  aparse_header (awrite_header h ++ objs) = AOk (h, objs).
Proof. exact header_round_trip. Qed.
Print Assumptions C09_header_round_trip.

(* ... and the header parser accepts only such encodings *)
Theorem C09_header_parse_exact : forall l h objs, abytes_ok l -> aparse_header l = AOk (h, objs) ->
  l = awrite_header h ++ objs /\ afunction_known (ah_function h) = true
  /\ ac_seq (ah_control h) < 16 /\ (afunction_has_iin (ah_function h) = true <-> ah_iin h <> None).
Proof. exact header_parse_exact. Qed.
Print Assumptions C09_header_parse_exact.

(* ---- non-vacuity ---------------------------------------------------------------------------------- *)
Definition ex_opts := {| ao_zero_length_strings := false |}.

(* the table is not empty and contains multi-field variations *)
Example ex_table_nonempty : (90 <=? N.of_nat (length fixed_table)) = true
  /\ exists fi, afixed 50 4 = Some fi /\ In fi fixed_table /\ length (fi_read fi) = 3%nat.
Proof.
  split; [vm_compute; reflexivity|]. destruct (afixed 50 4) as [fi|] eqn:E; [|vm_compute in E; discriminate].
  exists fi. split; [reflexivity|]. split; [apply (afixed_in 50 4 fi E)|].
  vm_compute in E. inversion E. reflexivity.
Qed.

(* a response with g1v2 [0..1], g110v2 [65534..65535] and g2v2 prefixed by 16-bit indices is accepted and
   iterated with the declared indices *)
Example ex_parse :
  match parse_fragment ex_opts [192; 129; 0; 0;  1; 2; 0; 0; 1; 129; 1;  110; 2; 1; 254; 255; 255; 255; 1; 2; 3; 4;
                                 2; 2; 40; 1; 0; 9; 0; 129; 1; 2; 3; 4; 5; 6] with
  | AOk pf => match headers_of pf with
              | AOk hs => map alisting hs =
                  [[(Some 0, [129]); (Some 1, [1])]; [(Some 65534, [1; 2]); (Some 65535, [3; 4])];
                   [(Some 9, [129; 1; 2; 3; 4; 5; 6])]]
              | AErr _ => False
              end
  | AErr _ => False
  end.
Proof. vm_compute. reflexivity. Qed.

(* truncating or extending that fragment by one byte is rejected *)
Example ex_truncated :
  (exists e pf, parse_fragment ex_opts [192; 129; 0; 0;  1; 2; 0; 0; 1; 129] = AOk pf /\ headers_of pf = AErr e)
  /\ (exists e pf, parse_fragment ex_opts [192; 129; 0; 0;  1; 2; 0; 0; 1; 129; 1; 7] = AOk pf /\ headers_of pf = AErr e).
Proof. split; do 2 eexists; vm_compute; split; reflexivity. Qed.

(* a range with stop < start is rejected *)
Example ex_invalid_range : exists pf, parse_fragment ex_opts [192; 129; 0; 0;  1; 2; 0; 5; 4] = AOk pf
  /\ headers_of pf = AErr (OEInvalidRange 5 4).
Proof. eexists. vm_compute. split; reflexivity. Qed.

(* the hypotheses of the round trip are satisfiable: a class scan, a range scan and two prefixed commands *)
Example ex_builders : exists bytes,
  awrite_request 2048 3 1 [WClasses true true true true; WRange16 30 0 7 65535] = AOk bytes
  /\ Forall (aw_ok ex_opts 1) [WClasses true true true true; WRange16 30 0 7 65535].
Proof.
  eexists. split; [vm_compute; reflexivity|]. repeat constructor; try lia; vm_compute; try reflexivity.
Qed.

Example ex_commands : exists bytes,
  awrite_request 2048 3 5 [WPrefixed 41 2 1 [(7, [1; 2; 0]); (9, [255; 127; 5])]] = AOk bytes
  /\ aw_ok ex_opts 5 (WPrefixed 41 2 1 [(7, [1; 2; 0]); (9, [255; 127; 5])]).
Proof.
  eexists. split; [vm_compute; reflexivity|]. cbn [aw_ok].
  split; [lia|]. split; [lia|]. split; [vm_compute; reflexivity|]. split; [left; reflexivity|].
  split; [vm_compute; discriminate|]. split; [vm_compute; reflexivity|].
  eexists. split; [vm_compute; reflexivity|].
  constructor; [|constructor; [|constructor]];
    (split; [vm_compute; reflexivity|split; [repeat constructor; lia|vm_compute; reflexivity]]).
Qed.

(* free-format objects: the file name "données.csv" is 11 characters and 12 bytes (é = 195 169); the size
   field of g70v7 carries 12, the object is accepted by the reader with that length, and the request that
   carries it is parsed back into the free-format header *)
Definition ex_name : list N := [100; 111; 110; 110; 195; 169; 101; 115; 46; 99; 115; 118].
Definition ex_g70v7 : afree :=
  F70v7 {| f7_file_type := 1; f7_file_size := 1000; f7_time := 1700000000000; f7_permissions := 292;
           f7_request_id := 7; f7_file_name := ex_name |}.

Example ex_free_non_ascii :
  length ex_name = 12%nat
  /\ afree_strings_ok ex_g70v7 /\ afree_fields_ok ex_g70v7
  /\ awrite_free ex_g70v7
     = AOk ([20; 0; 12; 0; 1; 0; 232; 3; 0; 0; 0; 104; 229; 207; 139; 1; 36; 1; 7; 0] ++ ex_name)
  /\ aparse_free 7 ([20; 0; 12; 0; 1; 0; 232; 3; 0; 0; 0; 104; 229; 207; 139; 1; 36; 1; 7; 0] ++ ex_name) = AOk ([12], []).
Proof.
  split; [reflexivity|]. split; [vm_compute; reflexivity|]. split; [|split; vm_compute; reflexivity].
  unfold afree_fields_ok. vm_compute afree_widths. vm_compute afree_values. repeat constructor; vm_compute; reflexivity.
Qed.

(* a user name of three 3-byte characters and a 4-byte character as password: sizes 9 and 4, offsets 12 and 21 *)
Example ex_free_g70v2 :
  awrite_free (F70v2 {| f2_auth_key := 0; f2_user_name := [230; 151; 165; 230; 156; 172; 232; 170; 158];
                        f2_password := [240; 159; 152; 128] |})
  = AOk [12; 0; 9; 0; 21; 0; 4; 0; 0; 0; 0; 0; 230; 151; 165; 230; 156; 172; 232; 170; 158; 240; 159; 152; 128].
Proof. vm_compute. reflexivity. Qed.

(* a string of 65536 bytes cannot be written; one of 65535 can (g70v3), 65523 is the limit for the user name
   of g70v2 because the password offset 12 + size must fit as well *)
Definition ex_g70v3 (n : N) : afree :=
  F70v3 {| f3_time := 0; f3_permissions := 0; f3_auth_key := 0; f3_file_size := 0; f3_mode := 1;
           f3_max_block_size := 0; f3_request_id := 0; f3_file_name := repeat 97 (N.to_nat n) |}.
Definition ex_g70v2 (n : N) : afree :=
  F70v2 {| f2_auth_key := 0; f2_user_name := repeat 97 (N.to_nat n); f2_password := [] |}.

Example ex_free_overflow :
  awrite_free (ex_g70v3 65536) = AErr WENumeric /\ afree_sizes_fit (ex_g70v3 65535)
  /\ awrite_free (ex_g70v2 65524) = AErr WENumeric /\ afree_sizes_fit (ex_g70v2 65523).
Proof.
  assert (L : forall n, alen (repeat 97 (N.to_nat n)) = n) by (intro n; unfold alen; rewrite repeat_length; apply N2Nat.id).
  split; [|split; [|split]].
  - destruct (free_write_result (ex_g70v3 65536)) as [[H _]|[_ E]]; [|exact E].
    cbn [ex_g70v3 afree_sizes_fit f3_file_name] in H. rewrite L in H. lia.
  - cbn [ex_g70v3 afree_sizes_fit f3_file_name]. rewrite L. lia.
  - destruct (free_write_result (ex_g70v2 65524)) as [[[H _] _]|[_ E]]; [|exact E].
    cbn [ex_g70v2 f2_user_name] in H. rewrite L in H. unfold g70v2_user_name_offset in H. lia.
  - cbn [ex_g70v2 afree_sizes_fit f2_user_name f2_password]. rewrite L. unfold g70v2_user_name_offset, alen. cbn [length N.of_nat]. lia.
Qed.

(* the request that opens that file is written and satisfies the side conditions of the round trip *)
Example ex_free_request : exists bytes,
  awrite_request 2048 3 25 [WFree ex_g70v7] = AOk bytes /\ aw_ok ex_opts 25 (WFree ex_g70v7).
Proof.
  eexists. split; [vm_compute; reflexivity|]. cbn [aw_ok]. split; [vm_compute; reflexivity|].
  split; vm_compute; discriminate.
Qed.
