(* Properties/C20.v — statements only; every proof is `exact <lemma>`.
   C20: the binding layer maps every value to its namesake, losslessly.  The quantified objects
   (ffi_enum_tables, ffi_struct_tables, ffi_config_tables, the pinned fallbacks / aliases / constants inside them,
   ffi_known_*_deviations, ffi_wildcard_tables, ffi_inverse_pairs) are regenerated from
   /repo/ffi/dnp3-ffi/src on every run by tools/gen/gen_ffi.py. *)
From Coq Require Import String List Bool.
From Dnp3V Require Import Ffi.FfiModel gen.FfiTables Ffi.FfiProofs.
Import ListNotations.
Open Scope string_scope.

(* every arm of every enum conversion: a source variant with a namesake in the target enum maps
   to it; one without maps to the target pinned in ffi_fallbacks.json *)
Theorem C20_enum_maps_namesake : forall t s d,
  In t ffi_enum_tables -> In (s, d) (et_arms t) ->
  ~ In (et_name t, s) ffi_known_enum_deviations ->
  (In s (et_dst t) -> d = s) /\ (~ In s (et_dst t) -> lookup s (et_pinned t) = Some d).
Proof. exact enum_maps_namesake. Qed.
Print Assumptions C20_enum_maps_namesake.

(* the excluded arms are real, located mis-mappings (reported by the check as violations) *)
Theorem C20_enum_deviations_are_real : forall n s, In (n, s) ffi_known_enum_deviations ->
  exists t d, In t ffi_enum_tables /\ et_name t = n /\ In (s, d) (et_arms t) /\ arm_ok t (s, d) = false.
Proof. exact enum_deviations_are_real. Qed.
Print Assumptions C20_enum_deviations_are_real.

(* arms name variants that exist on their side; no source variant is matched twice *)
Theorem C20_enum_arms_wellformed : forall t, In t ffi_enum_tables ->
  (forall s d, In (s, d) (et_arms t) -> (s = "_" \/ In s (et_src t)) /\ (In d delegations \/ In d (et_dst t)))
  /\ NoDup (map fst (et_arms t)).
Proof. exact enum_arms_wellformed. Qed.
Print Assumptions C20_enum_arms_wellformed.

(* totality: every variant of every source enum has its own arm, or falls into a catch-all arm
   and is pinned to exactly that arm's target *)
Theorem C20_enum_total : forall t v, In t ffi_enum_tables -> In v (et_src t) ->
  In v (map fst (et_arms t))
  \/ (et_wild t = true /\ exists w, lookup "_" (et_arms t) = Some w /\ lookup v (et_pinned t) = Some w).
Proof. exact enum_total. Qed.
Print Assumptions C20_enum_total.

(* catch-all arms are exactly the listed ones, and each one's target is pinned *)
Theorem C20_wildcard_arms_listed_and_pinned : forall t, In t ffi_enum_tables ->
  (et_wild t = true <-> In (et_name t) ffi_wildcard_tables)
  /\ (et_wild t = true -> exists w, lookup "_" (et_arms t) = Some w /\ lookup "_" (et_pinned t) = Some w)
  /\ (et_wild t = false -> ~ In "_" (map fst (et_arms t))).
Proof. exact wildcard_arms_listed_and_pinned. Qed.
Print Assumptions C20_wildcard_arms_listed_and_pinned.

(* no stale pin: each pinned fallback is about a catch-all or a variant that lacks a namesake *)
Theorem C20_enum_pins_needed : forall t s d, In t ffi_enum_tables -> In (s, d) (et_pinned t) ->
  (s = "_" /\ et_wild t = true) \/ (In s (et_src t) /\ ~ In s (et_dst t)).
Proof. exact enum_pins_needed. Qed.
Print Assumptions C20_enum_pins_needed.

(* tables between enums with the same variant names are injective and surjective *)
Theorem C20_one_to_one_tables_bijective : forall t, In t ffi_enum_tables -> one_to_one t = true ->
  NoDup (map snd (et_arms t)) /\ (forall v, In v (et_dst t) -> In v (map snd (et_arms t))).
Proof. exact one_to_one_tables_bijective. Qed.
Print Assumptions C20_one_to_one_tables_bijective.

(* binding -> native -> binding is the identity on variants, for every pair of opposite tables *)
Theorem C20_enum_roundtrip : forall n1 n2, In (n1, n2) ffi_inverse_pairs ->
  exists t1 t2, In t1 ffi_enum_tables /\ et_name t1 = n1 /\ In t2 ffi_enum_tables /\ et_name t2 = n2
    /\ forall s d, In (s, d) (et_arms t1) -> In (d, s) (et_arms t2).
Proof. exact enum_roundtrip. Qed.
Print Assumptions C20_enum_roundtrip.

(* time stamps: exactly three qualities, no catch-all, and the two directions are inverse *)
Theorem C20_timestamp_quality_total :
  exists t1 t2, In t1 ffi_enum_tables /\ et_name t1 = tq_in_name /\ In t2 ffi_enum_tables /\ et_name t2 = tq_out_name
    /\ et_wild t1 = false /\ et_wild t2 = false
    /\ (forall q, In q (et_src t1) <-> In q time_qualities)
    /\ (forall q, In q time_qualities -> exists n, lookup q (et_arms t1) = Some n /\ lookup n (et_arms t2) = Some q)
    /\ (forall n q, In (n, q) (et_arms t2) -> lookup q (et_arms t1) = Some n).
Proof. exact timestamp_quality_total. Qed.
Print Assumptions C20_timestamp_quality_total.

(* every field of every struct conversion is computed from the accessor of the same name (or its
   pinned alias); a field that reads nothing is a pinned constant *)
Theorem C20_struct_fields_namesake : forall st f chains c,
  In st ffi_struct_tables -> In (f, chains, c) (st_fields st) ->
  ~ In (st_name st, f) ffi_known_field_deviations ->
  (chains = [] -> In (f, c) (st_consts st))
  /\ (forall ch, In ch chains -> exists seg, In seg ch /\ (seg = f \/ In (f, seg) (st_aliases st))).
Proof. exact struct_fields_namesake. Qed.
Print Assumptions C20_struct_fields_namesake.

Theorem C20_field_deviations_are_real : forall n f, In (n, f) ffi_known_field_deviations ->
  exists st e, In st ffi_struct_tables /\ st_name st = n /\ In e (st_fields st) /\ fst (fst e) = f /\ field_ok st e = false.
Proof. exact field_deviations_are_real. Qed.
Print Assumptions C20_field_deviations_are_real.

(* no stale alias / constant pin, no field assigned twice *)
Theorem C20_struct_pins_needed : forall st, In st ffi_struct_tables ->
  (forall f seg, In (f, seg) (st_aliases st) ->
     exists chains c ch, In (f, chains, c) (st_fields st) /\ In ch chains /\ In seg ch)
  /\ (forall f c, In (f, c) (st_consts st) -> In (f, [], c) (st_fields st))
  /\ NoDup (map (fun e => fst (fst e)) (st_fields st)).
Proof. exact struct_pins_needed. Qed.
Print Assumptions C20_struct_pins_needed.

(* configuration conversions (`fn convert_outstation_config`, `TryFrom<ffi::AssociationConfig>`, ...):
   every field of the native configuration is fed by the binding accessor of the same name (or its
   pinned alias) through a wrapper of the closed vocabulary, and that wrapper is the reviewed one of
   that field (`Some(x)` for the request limits, never a helper that turns 0 into None) *)
Theorem C20_config_fields_namesake_wrapped : forall ct f acc w,
  In ct ffi_config_tables -> In (f, acc, w) (ct_rows ct) ->
  (acc = f \/ In (f, acc) (ct_aliases ct)) /\ In w config_wrappers /\ lookup f (ct_pinned ct) = Some w.
Proof. exact config_fields_namesake_wrapped. Qed.
Print Assumptions C20_config_fields_namesake_wrapped.

(* no stale reviewed wrapper, no configuration field assigned twice *)
Theorem C20_config_pins_needed : forall ct, In ct ffi_config_tables ->
  (forall f w, In (f, w) (ct_pinned ct) -> In f (map (fun r => fst (fst r)) (ct_rows ct)))
  /\ NoDup (map (fun r => fst (fst r)) (ct_rows ct)).
Proof. exact config_pins_needed. Qed.
Print Assumptions C20_config_pins_needed.

(* ---- non-vacuity: the quantifiers range over something ------------------------------------ *)

Example C20_tables_nonempty :
  Nat.ltb 60 (length ffi_enum_tables) = true /\ Nat.ltb 40 (length ffi_struct_tables) = true.
Proof. vm_compute. split; reflexivity. Qed.

Example C20_arms_many :
  Nat.ltb 400 (fold_right (fun t n => (length (et_arms t) + n)%nat) 0%nat ffi_enum_tables) = true.
Proof. vm_compute. reflexivity. Qed.

(* a named table: the command status map has more than three arms and is a real table of the list *)
Example C20_command_status_table :
  exists t, find_table ffi_enum_tables "outstation/adapters.rs::From<CommandStatus> for ffi::CommandStatus" = Some t
            /\ Nat.ltb 3 (length (et_arms t)) = true /\ In ("timeout", "timeout") (et_arms t).
Proof. eexists. split; [vm_compute; reflexivity|]. split; [vm_compute; reflexivity|]. vm_compute. tauto. Qed.

(* the task error macro is expanded: a coarsening really uses its pinned fallbacks *)
Example C20_task_error_fallback_used :
  exists t, find_table ffi_enum_tables
              "master/functions.rs::define_task_from_impl!(ReadError)::From<TaskError> for ffi::ReadError" = Some t
            /\ lookup "transport" (et_arms t) = Some "noconnection"
            /\ lookup "transport" (et_pinned t) = Some "noconnection"
            /\ mem "transport" (et_dst t) = false.
Proof. eexists. split; [vm_compute; reflexivity|]. repeat split; vm_compute; reflexivity. Qed.

(* some tables are one-to-one (the bijection theorem is not vacuous) and some have catch-alls *)
Example C20_one_to_one_exists : existsb one_to_one ffi_enum_tables = true.
Proof. vm_compute. reflexivity. Qed.
Example C20_wildcards_exist : Nat.ltb 5 (length ffi_wildcard_tables) = true.
Proof. vm_compute. reflexivity. Qed.
Example C20_inverse_pairs_exist : Nat.ltb 5 (length ffi_inverse_pairs) = true.
Proof. vm_compute. reflexivity. Qed.

(* a measurement conversion is among the struct tables, with its three fields *)
Example C20_analog_input_struct :
  exists st, find (fun st => String.eqb (st_name st) "outstation/database.rs::From<ffi::AnalogInput> for AnalogInput")
                  ffi_struct_tables = Some st
             /\ map (fun e => fst (fst e)) (st_fields st) = ["value"; "flags"; "time"].
Proof. eexists. split; vm_compute; reflexivity. Qed.

(* the outstation configuration is among the configuration tables, with its sixteen fields; its
   control limit is `Some(accessor)` *)
Example C20_outstation_config_table :
  exists ct, find_config ffi_config_tables "outstation/mod.rs::fn convert_outstation_config" = Some ct
             /\ length (ct_rows ct) = 16%nat
             /\ In ("maxcontrolsperrequest", "maxcontrolsperrequest", "some") (ct_rows ct)
             /\ In ("keepalivetimeout", "keepalivetimeout", "zero-none") (ct_rows ct).
Proof. eexists. split; [vm_compute; reflexivity|]. split; [vm_compute; reflexivity|]. split; vm_compute; tauto. Qed.
Example C20_config_tables_nonempty : Nat.ltb 8 (length ffi_config_tables) = true.
Proof. vm_compute. reflexivity. Qed.
