(* Properties/C19.v — Master scheduling: requests first and in order, polls on period, one at a
   time.  Statements only; every proof is `exact <lemma>`.

   Trace theorems quantify over ARBITRARY event lists (`ms_run fuel ms_m_init evs = (st, h)`);
   the theorems named `..._partial` and C19_user_before_polls are statements about every single
   scheduling decision (any state, reachable or not) - what is missing for the full trace form is
   said at each. *)
From Coq Require Import ZArith NArith List Bool Lia.
From Dnp3V Require Import Master.Backoff Master.Assoc Master.AssocProofs Master.Sched Master.SchedProofs.
Import ListNotations.
Open Scope Z_scope.

(* ---- at most one request outstanding ------------------------------------------------------------- *)

(* whenever an application task or a link status request starts, the previous start (if any) has
   been followed by its completion (MsOOk / MsOFail / MsOLinkEnd): `outstanding` is the fold that
   remembers whether the last of these observations was a start *)
Theorem C19_one_outstanding : forall fuel evs st h h1 x h2,
  ms_run fuel ms_m_init evs = (st, h) -> h = h1 ++ x :: h2 ->
  match x with MsOStart _ _ _ _ _ | MsOTxLink _ _ _ => outstanding h1 = false | _ => True end.
Proof. exact one_outstanding. Qed.
Print Assumptions C19_one_outstanding.

(* ---- sleeping instead of spinning ----------------------------------------------------------------- *)

(* NotBefore t => t > now, for one association ... *)
Theorem C19_notbefore_is_future_assoc : forall a now x,
  ms_get_next_task a now = MsNNotBefore x -> now < x.
Proof. exact get_next_task_future. Qed.
Print Assumptions C19_notbefore_is_future_assoc.

(* ... for the channel, in any state ... *)
Theorem C19_schedule_sleeps_into_future : forall st st' o u,
  ms_schedule st = (st', o) -> ms_m_phase st' = MsPIdle (Some u) -> ms_m_now st' < u.
Proof. exact schedule_sleeps_into_future. Qed.
Print Assumptions C19_schedule_sleeps_into_future.

(* ... and in every history: whenever the master goes to sleep until u at time t, t < u *)
Theorem C19_notbefore_is_future : forall fuel evs st h h1 t u h2,
  ms_run fuel ms_m_init evs = (st, h) -> h = h1 ++ MsOSleep t (Some u) :: h2 -> t < u.
Proof. exact notbefore_is_future. Qed.
Print Assumptions C19_notbefore_is_future.

(* the synchronous loop of Association::next_task ends within two rounds (F15 after its repair):
   the scheduler of the model never needs its third unit of fuel, `MsSStall` is unreachable *)
Theorem C19_next_task_terminates : forall k now sys a,
  exists r, snd (ms_assoc_next_task (S (S k)) now sys a) = Some r.
Proof. exact next_task_terminates. Qed.
Print Assumptions C19_next_task_terminates.

(* F15 as found: without the 1 ms floor a failure with min_delay = 0 re-arms the task for the
   current instant, so the loop selects it again at once, for ever *)
Theorem C19_f15_zero_delay_respins : forall c now s t,
  ms_c_rmin c = 0 -> 0 <= ms_c_rmax c ->
  let unrepaired :=
    let b0 := match s with
              | MsAFailed b _ => b
              | _ => ms_backoff_new {| ms_s_min := ms_c_rmin c; ms_s_max := ms_c_rmax c |}
              end in
    let '(b1, d) := ms_on_failure ms_limit_ms b0 in MsAFailed b1 (now + d) in
  not_failed s -> ms_create_next unrepaired now t = MsNNow t.
Proof. exact f15_zero_delay_respins. Qed.
Print Assumptions C19_f15_zero_delay_respins.

(* ---- user requests first, in order ------------------------------------------------------------------ *)

(* FULL STATEMENT (not proved in this form): in every history, two requests submitted to the same
   association and accepted start in the order of submission, and between the submission of a
   request and its start no task that is not a user request starts on the channel.
   PROVED: the three facts about single decisions from which it follows - a request is appended
   at the back of its association's queue; the queue is served from the front (requests whose
   start fails are answered and dropped); a task that is not a user request is chosen only when no
   association of the ring has a request queued.  Missing: the induction over histories that links
   queue contents to submissions. *)
Theorem C19_user_queue_appends : forall now tok uk a a' o,
  ms_queue_task now true tok uk a = (a', o) -> (length (ms_a_queue a) < ms_c_maxq (ms_a_cfg a))%nat ->
  ms_a_queue a' = ms_a_queue a ++ [(tok, uk)] /\ o = [].
Proof. exact queue_task_appends. Qed.
Print Assumptions C19_user_queue_appends.

Theorem C19_user_queue_served_from_front : forall now sys q a a' o t,
  ms_priority_task now sys q a = (a', o, Some t) ->
  exists q1 tok uk q2 a0 o0, q = q1 ++ (tok, uk) :: q2 /\ ms_a_queue a' = q2 /\
    ms_task_start now sys (ms_user_task tok uk) a0 = (a0, o0, Some t) /\
    Forall (fun r => exists b b' ob, ms_task_start now sys (ms_user_task (fst r) (snd r)) b = (b', ob, None)) q1.
Proof. exact priority_task_front. Qed.
Print Assumptions C19_user_queue_served_from_front.

Theorem C19_user_before_polls : forall st st' o addr t,
  ms_map_next_task st = (st', o, MsSNow addr t) -> is_user_task t = false ->
  exists st1 o1, ms_priority_pass st (ms_m_ring st) = (st1, o1, None) /\
    forall B b, In B (ms_m_ring st) -> ms_find_assoc B (ms_m_assocs st1) = Some b -> ms_a_queue b = [].
Proof. exact user_before_polls. Qed.
Print Assumptions C19_user_before_polls.

(* ---- periodic polls ------------------------------------------------------------------------------------- *)

(* a periodic poll starts only when its `next` instant has come and no automatic task is pending *)
Theorem C19_poll_due : forall a now id m,
  ms_get_next_task a now = MsNNow (MsTPoll id m) ->
  exists p, In p (ms_a_polls a) /\ ms_p_id p = id /\ ms_p_mask p = m /\ ms_p_next p <= now.
Proof. exact poll_due. Qed.
Print Assumptions C19_poll_due.

(* FULL STATEMENT (not proved in this form): in every history a poll starts no earlier than one
   period after the completion of its previous run, unless demanded in between.
   PROVED: `next` is written in exactly four places, with these values: completion by success and
   by failure: now + period; demand: now; creation: now + period.  Missing: the frame property
   (no other function of the step changes `next`) carried through the induction over histories. *)
Theorem C19_poll_cadence_partial :
  (forall now id m a a' o, ms_read_complete now (MsTPoll id m) a = (a', o) ->
     ms_a_polls a' = ms_poll_complete id now (ms_a_polls a)) /\
  (forall now id m e r a a' o, ms_task_error now (MsTPoll id m) e r a = (a', o) ->
     ms_a_polls a' = ms_poll_complete id now (ms_a_polls a)) /\
  (forall now id a a' o, ms_demand_poll now id a = (a', o) ->
     ms_a_polls a' = ms_poll_set_next id now (ms_a_polls a)) /\
  (forall now period m a a' o, ms_add_poll now period m a = (a', o) ->
     exists p, ms_a_polls a' = ms_a_polls a ++ [p] /\ ms_p_next p = now + period /\ ms_p_period p = period).
Proof. exact poll_cadence_partial. Qed.
Print Assumptions C19_poll_cadence_partial.

Theorem C19_poll_complete_next : forall id now ps p, In p (ms_poll_complete id now ps) ->
  exists p0, In p0 ps /\ ms_p_id p = ms_p_id p0 /\ ms_p_period p = ms_p_period p0 /\ ms_p_mask p = ms_p_mask p0 /\
             ms_p_next p = if N.eqb (ms_p_id p0) id then now + ms_p_period p0 else ms_p_next p0.
Proof. exact poll_complete_spec. Qed.
Print Assumptions C19_poll_complete_next.

(* FULL STATEMENT (not proved in this form): with the channel otherwise idle a due poll is the
   next task started.  PROVED: the association whose automatic tasks are all settled offers its
   first due poll (before the keep-alive) and the start of a poll cannot fail.  Missing: the
   channel-level step (no other association of the ring is served first forever), which is
   C19_round_robin_partial plus an induction. *)
Theorem C19_not_starved_partial : forall a now sys p k,
  ms_auto_next (ms_a_cfg a) (ms_a_auto a) (ms_a_events a) now = MsNNone ->
  ms_polls_next (ms_a_polls a) now = MsNNow p ->
  ms_assoc_next_task (S k) now sys a = (a, [], Some (MsNNow (MsTPoll (ms_p_id p) (ms_p_mask p)))).
Proof. exact not_starved_partial. Qed.
Print Assumptions C19_not_starved_partial.

(* ---- turns --------------------------------------------------------------------------------------------- *)

(* FULL STATEMENT (not proved in this form): among associations with ready work none is served
   twice while another waits.  PROVED: both passes walk the ring in order and the association
   that is served is moved to the back while the others keep their relative order.  Missing: the
   statement that the passes stop at the FIRST association with work (true by construction of
   the two Fixpoints) and the induction over histories. *)
Theorem C19_round_robin_partial : forall st st' o addr t,
  ms_map_next_task st = (st', o, MsSNow addr t) ->
  exists st0, ms_m_ring st' = ms_rotate (ms_m_ring st0) addr /\ ms_m_ring st0 = ms_m_ring st.
Proof. exact round_robin_partial. Qed.
Print Assumptions C19_round_robin_partial.

Theorem C19_rotate_moves_to_back : forall ring a, exists r, ms_rotate ring a = r ++ [a] /\ ~ In a r.
Proof. exact rotate_last. Qed.
Print Assumptions C19_rotate_moves_to_back.

Theorem C19_rotate_keeps_order : forall ring a,
  filter (fun x => negb (N.eqb x a)) (ms_rotate ring a) = filter (fun x => negb (N.eqb x a)) ring.
Proof. exact rotate_others. Qed.
Print Assumptions C19_rotate_keeps_order.

(* ---- keep-alive ------------------------------------------------------------------------------------------ *)

(* FULL STATEMENT (not proved in this form): in every history a keep-alive link status request to
   A is sent no earlier than the keep-alive timeout after the registration of A or the last
   fragment received from A.  PROVED: a keep-alive is chosen only when the deadline has passed
   (and nothing automatic is pending, C17_polls_and_keepalive_last); the deadline is written only
   by registration and by link activity, as now + timeout; a fragment received from `src` is link
   activity of `src` (and of no other association - the repair of F16).  Missing: the frame
   property for the deadline through the induction over histories. *)
Theorem C19_keepalive_after_silence_partial :
  (forall a now, ms_get_next_task a now = MsNNow (MsTLink None) ->
     exists dl, ms_a_link_deadline a = Some dl /\ dl <= now) /\
  (forall now a, ms_a_link_deadline (ms_link_activity now a)
                 = option_map (fun ka => now + ka) (ms_c_keepalive (ms_a_cfg a))) /\
  (forall addr c now, ms_a_link_deadline (ms_assoc_new addr c now) = option_map (fun ka => now + ka) (ms_c_keepalive c)) /\
  (forall st src a, ms_find_assoc src (ms_m_assocs st) = Some a ->
     ms_find_assoc src (ms_m_assocs (ms_touch st src)) = Some (ms_link_activity (ms_m_now st) a)).
Proof. exact keepalive_after_silence_partial. Qed.
Print Assumptions C19_keepalive_after_silence_partial.

(* ---- non-vacuity ---------------------------------------------------------------------------------------- *)

Definition ex_quiet : ms_acfg :=
  {| ms_c_disable := 0; ms_c_integrity := 0; ms_c_enable := 0; ms_c_tsync := 0; ms_c_ovf := false;
     ms_c_evscan := 0; ms_c_rmin := 5; ms_c_rmax := 20; ms_c_keepalive := Some 50; ms_c_rto := 10;
     ms_c_maxq := 16 |}.
Definition ex_ok (seq : N) : ms_rx :=
  MsRxResp {| ms_r_uns := false; ms_r_fir := true; ms_r_fin := true; ms_r_con := false; ms_r_seq := seq;
              ms_r_iin1 := 0; ms_r_iin2 := 0; ms_r_objs := []; ms_r_ok := true; ms_r_nvalues := 0;
              ms_r_delay := None |}.
(* two associations, a poll every 20 ms on the first, three user requests submitted while the
   first is being served, then silence *)
Definition ex_events : list ms_event :=
  [MsEStart; MsEAddAssoc 1024 ex_quiet; MsEAddAssoc 1025 ex_quiet; MsETick 1;
   MsEAddPoll 1024 20 9; MsETick 1; MsEUser 1025 1 (MsUKRead 8); MsETick 1; MsEUser 1024 2 MsUKEmpty; MsETick 1;
   MsEUser 1025 3 (MsUKRead 1); MsETick 1; MsERx 1025 (ex_ok 0); MsETick 1; MsERx 1024 (ex_ok 0); MsETick 1;
   MsERx 1025 (ex_ok 1); MsETick 40; MsERx 1024 (ex_ok 1); MsETick 100].

Example C19_run_instance :
  let h := snd (ms_run 500 ms_m_init ex_events) in
  (* user requests of the two associations in turn, in order of submission ... *)
  nth_error h 7 = Some (MsOStart 2 1025 MsKUserRead 1 0) /\
  nth_error h 12 = Some (MsOStart 5 1024 MsKEmpty 7 0) /\
  nth_error h 16 = Some (MsOStart 6 1025 MsKUserRead 1 1) /\
  (* ... then the master sleeps until the poll is due, polls, times out, polls one period later *)
  nth_error h 21 = Some (MsOSleep 7 (Some 21)) /\
  nth_error h 22 = Some (MsOStart 21 1024 MsKPoll 1 1) /\
  nth_error h 24 = Some (MsOFail 31 1024 MsKPoll MsETimeout) /\
  nth_error h 27 = Some (MsOStart 51 1024 MsKPoll 1 2) /\
  (* ... and a keep-alive goes to the association that has been silent for 50 ms *)
  nth_error h 30 = Some (MsOTxLink 61 1025 true).
Proof. vm_compute. repeat split. Qed.

(* ---- agreement of the hand-written models with the tables regenerated from the source on every run
   (tools/gen/gen_master_tables.py -> gen/MasterTables.v; lemmas, interpreters and observers in
   Master/TablesAgree.v, module MTab).  `.._is_table`: the model's function IS the interpreter run over the
   generated table; `.._observed`: the order the model serves things in, observed on enumerated states. *)
From Coq Require Import String List.
From Dnp3V Require Import Base.Bytes Master.Backoff Master.Assoc Master.Sched Master.MParse Master.Command Master.MTask
  Master.TimeSync gen.MasterTables Master.TablesAgree.
Import MTab.
Local Open Scope string_scope.
Local Open Scope list_scope.
Local Open Scope N_scope.

(* every combination of ready sources: the model serves the first one in the generated order *)
Theorem C19_tables_next_task_sources_observed :
  map (fun x => match x with (a, p, l) => observed_source a p l end)
      [(false,false,false); (false,false,true); (false,true,false); (false,true,true);
       (true,false,false); (true,false,true); (true,true,false); (true,true,true)]
  = map (fun x => match x with (a, p, l) => table_source a p l end)
      [(false,false,false); (false,false,true); (false,true,false); (false,true,true);
       (true,false,false); (true,false,true); (true,true,false); (true,true,true)].
Proof. exact MTab.next_task_sources_observed. Qed.
Print Assumptions C19_tables_next_task_sources_observed.

Theorem C19_tables_map_next_task_passes_observed :
  observed_pass true = hd_error gm_map_next_task_passes /\
  observed_pass false = hd_error (tl gm_map_next_task_passes).
Proof. exact MTab.map_next_task_passes_observed. Qed.
Print Assumptions C19_tables_map_next_task_passes_observed.

Theorem C19_tables_queue_admission : forall now tok k a cfg st t,
  (match ms_err_of (snd gm_queue_admit) with
   | Some e => Some (if cmp_nat (fst gm_queue_admit) (length (ms_a_queue a)) (ms_c_maxq (ms_a_cfg a))
                     then (ms_set_queue a (ms_a_queue a ++ [(tok, k)]), [])
                     else ms_task_error now (ms_user_task tok k) e false a)
   | None => None
   end) = Some (ms_queue_task now true tok k a) /\
  (MT.s_assoc st = true -> MT.s_conn st = true ->
   MT.on_user cfg st tok t
   = if cmp_nat (fst gm_queue_admit) (length (MT.s_queue st)) (MT.c_maxq cfg)
     then (MT.set_queue st (MT.s_queue st ++ [(tok, t)]), [])
     else (st, MT.emit st (MT.ORes tok (MT.RErr MT.ETooMany)))) /\
  snd gm_queue_admit = "TooManyRequests".
Proof. exact MTab.queue_admission_agrees. Qed.
Print Assumptions C19_tables_queue_admission.

Theorem C19_tables_nonread_validation_is_table : forall st0 dest t k fc0 seq dl src f,
  let st := ms_touch st0 src in
  validate_dispatch gm_validate_non_read_response (ms_check dest seq true src f)
    (ms_unsolicited st src f) (st, [])
    (ms_nonread_fail st dest t k f)
    (ms_nonread_accept (ms_m_now st0) st dest t k fc0 seq f)
  = Some (ms_rx_nonread st0 dest t k fc0 seq dl src (MsRxResp f)).
Proof. exact MTab.ms_nonread_validation_is_table. Qed.
Print Assumptions C19_tables_nonread_validation_is_table.

Theorem C19_tables_read_validation_is_table : forall st0 dest t seq first dl src f,
  let st := ms_touch st0 src in
  validate_dispatch gm_process_read_response (ms_check dest seq first src f)
    (ms_unsolicited st src f) (st, [])
    (fun e => option_map (fun x => ms_fail_task st dest t (ms_task_type t) x false) (ms_err_of e))
    (ms_read_accept (ms_m_now st0) st dest t seq f)
  = Some (ms_rx_read st0 dest t seq first dl src (MsRxResp f)).
Proof. exact MTab.ms_read_validation_is_table. Qed.
Print Assumptions C19_tables_read_validation_is_table.

Theorem C19_tables_after_accept_order_observed :
  observed_nonread_after_accept = gm_non_read_after_accept /\
  observed_read_after_accept
  = filter (fun n => negb (str_in n ["get_association"; "fin_complete_else_read_next"])) gm_read_after_accept.
Proof. exact MTab.after_accept_order_observed. Qed.
Print Assumptions C19_tables_after_accept_order_observed.

Example C19_tables_instance :
  gm_next_task_sources = ["auto_tasks"; "polls"; "link_status"] /\
  gm_map_next_task_passes = ["priority_task"; "next_task"] /\
  gm_non_read_after_accept = ["confirm_if_con"; "process_iin"; "handle_response"].
Proof. repeat split. Qed.
