(* Properties/C15.v — A master accepts only the answer to its question and confirms what it
   accepts.  Statements only; every proof is `exact <lemma>` (Master/MTaskProofs.v).

   Vocabulary (Master/MTask.v, Master/MTaskProofs.v):
   [run cfg evs]        the observations of a run: one list before the first stimulus, then one per
                        stimulus; [hist cfg evs k] = everything observed before step k;
                        [state_at cfg evs k] = the model state before step k
   [last_request h]     the last request written in history h (sequence, function, objects) and
                        the number of fragments of its answer delivered since
   [answers r h]        header h is the next fragment of the answer to r: sequence = request +
                        fragments so far, FIR iff first, FIN or CON, single fragment unless READ
   [act o]              the ACTIVE observations of a step: task success, promise success, handler
                        callbacks, CONFIRMs, unsolicited reports - everything a received fragment can
                        cause besides failures
   [accepts cfg st ev]  the step accepts the received fragment ([accepted_answer] for solicited,
                        [unsol_accepts] for unsolicited responses) *)
From Dnp3V Require Import Base.Bytes Master.MParse Master.Command Master.MTask Master.MTaskProofs.
Import MP MCmd MT.
Open Scope N_scope.

Theorem C15_completion_needs_matching_response : forall cfg evs k o ty fc s,
  nth_error (run cfg evs) (S k) = Some o ->
  In (OInfoSuccess ty fc s) (map snd o) ->
  exists src frag v items h objs r,
    nth_error evs k = Some (ERx src frag v items) /\ parse_response frag = PResponse h objs /\
    h_unsol h = false /\ src = c_addr cfg /\ c_seq (h_ctrl h) = s /\ c_fin (h_ctrl h) = true /\
    iin2_bad (h_iin2 h) = false /\
    last_request (hist cfg evs k) = Some r /\
    s = seq_add (rq_seq r) (rq_frags r) /\ c_fir (h_ctrl h) = (rq_frags r =? 0)%nat /\
    (rq_fc r <> 1 -> rq_frags r = 0%nat).
Proof. exact completion_needs_matching_response. Qed.
Print Assumptions C15_completion_needs_matching_response.

(* every delivered fragment of the answer to a READ: consecutive sequence numbers, FIR on the first
   only, confirmation requested unless final *)
Theorem C15_read_fragment_rule : forall cfg evs k o rt hdr,
  nth_error (run cfg evs) (S k) = Some o -> In (OCbBegin rt hdr) (map snd o) -> rt <> RtUnsol ->
  exists src frag v items h objs r,
    nth_error evs k = Some (ERx src frag v items) /\ parse_response frag = PResponse h objs /\
    h_unsol h = false /\ hdr = hdr_bytes h /\ src = c_addr cfg /\ v = VOk /\ iin2_bad (h_iin2 h) = false /\
    last_request (hist cfg evs k) = Some r /\ rq_fc r = 1 /\ answers r h.
Proof. exact read_fragment_rule. Qed.
Print Assumptions C15_read_fragment_rule.

Theorem C15_reject_is_inert : forall cfg evs k o src frag v items,
  nth_error (run cfg evs) (S k) = Some o -> nth_error evs k = Some (ERx src frag v items) ->
  (parse_response frag = PError \/
   exists h objs, parse_response frag = PResponse h objs /\ h_unsol h = false /\
     ~ (src = c_addr cfg /\ iin2_bad (h_iin2 h) = false /\
        exists r, last_request (hist cfg evs k) = Some r /\ answers r h)) ->
  act o = [].
Proof. exact reject_is_inert. Qed.
Print Assumptions C15_reject_is_inert.

Theorem C15_rejected_unsolicited_is_inert : forall cfg evs k o src frag v items h objs,
  nth_error (run cfg evs) (S k) = Some o -> nth_error evs k = Some (ERx src frag v items) ->
  parse_response frag = PResponse h objs -> h_unsol h = true ->
  unsol_accepts cfg (state_at cfg evs k) src h objs v = false -> act o = [].
Proof. exact rejected_unsolicited_is_inert. Qed.
Print Assumptions C15_rejected_unsolicited_is_inert.

(* a stale or foreign response while a request is outstanding is exactly as good as silence *)
Theorem C15_stale_is_silence : forall cfg st src frag v items h objs,
  s_stopped st = false -> s_conn st = true ->
  parse_response frag = PResponse h objs -> h_unsol h = false -> is_answer cfg st src h = false ->
  (exists k q d sd, s_run st = RNonRead k q d sd) \/ (exists k q f d sd, s_run st = RRead k q f d sd) ->
  fst (mstep cfg st (ERx src frag v items)) = fst (mstep cfg st (ESleep 0)) /\
  exists rest, snd (mstep cfg st (ESleep 0)) = (s_now st, OStep) :: rest /\
               snd (mstep cfg st (ERx src frag v items)) = (s_now st, OStep) :: (s_now st, OPv v) :: rest.
Proof. exact stale_is_silence. Qed.
Print Assumptions C15_stale_is_silence.

Theorem C15_confirm_exactly_once : forall cfg evs,
  confirms (nth 0 (run cfg evs) []) = [] /\
  forall k o ev, nth_error (run cfg evs) (S k) = Some o -> nth_error evs k = Some ev ->
    confirms o =
    if accepts cfg (state_at cfg evs k) ev && frag_con ev then
      match ev with
      | ERx _ frag _ _ =>
        match parse_response frag with
        | PResponse h _ => [OTxConfirm (c_addr cfg) (h_unsol h) (c_seq (h_ctrl h))]
        | PError => []
        end
      | _ => []
      end
    else [].
Proof. exact confirm_exactly_once. Qed.
Print Assumptions C15_confirm_exactly_once.

Theorem C15_duplicate_unsolicited_confirmed_not_delivered :
  forall cfg evs j k src frag v items h objs o,
  (j < k)%nat ->
  nth_error evs j = Some (ERx src frag v items) -> nth_error evs k = Some (ERx src frag v items) ->
  parse_response frag = PResponse h objs -> h_unsol h = true ->
  accepts cfg (state_at cfg evs j) (ERx src frag v items) = true ->
  accepts cfg (state_at cfg evs k) (ERx src frag v items) = true ->
  (forall i ev, (j < i < k)%nat -> nth_error evs i = Some ev ->
     ends_session (state_at cfg evs i) ev = false /\
     match ev with ERx s f w _ => unsol_new cfg (state_at cfg evs i) s f w = None | _ => True end) ->
  ends_session (state_at cfg evs j) (ERx src frag v items) = false ->
  nth_error (run cfg evs) (S k) = Some o ->
  act o = OInfoUnsol true (c_seq (h_ctrl h)) ::
          (if c_con (h_ctrl h) then [OTxConfirm (c_addr cfg) true (c_seq (h_ctrl h))] else []).
Proof. exact duplicate_unsolicited_confirmed_not_delivered. Qed.
Print Assumptions C15_duplicate_unsolicited_confirmed_not_delivered.

Theorem C15_delivered_once_in_order : forall cfg evs,
  cbs (concat (run cfg evs)) =
  flat_map (fun p => match delivers cfg (fst p) (snd p) with Some d => bracket d | None => [] end) (steps cfg evs).
Proof. exact delivered_once_in_order. Qed.
Print Assumptions C15_delivered_once_in_order.

(* the last-unsolicited record holds only ACCEPTED fragments: a receive step that does not accept an
   unsolicited fragment (solicited, unparsable, gated by the start-up sequence, foreign, malformed)
   leaves it unchanged ... *)
Theorem C15_ignored_fragment_not_recorded : forall cfg evs k src frag v items,
  nth_error evs k = Some (ERx src frag v items) ->
  unsol_new cfg (state_at cfg evs k) src frag v = None ->
  s_last_unsol (state_at cfg evs (S k)) = s_last_unsol (state_at cfg evs k).
Proof. exact ignored_fragment_not_recorded. Qed.
Print Assumptions C15_ignored_fragment_not_recorded.

(* ... whatever it holds was accepted at an earlier step ... *)
Theorem C15_recorded_was_accepted : forall cfg evs k x,
  (k <= length evs)%nat -> s_last_unsol (state_at cfg evs k) = Some x ->
  exists j src frag v items h objs,
    (j < k)%nat /\ nth_error evs j = Some (ERx src frag v items) /\
    parse_response frag = PResponse h objs /\ h_unsol h = true /\
    unsol_accepts cfg (state_at cfg evs j) src h objs v = true /\ x = (hdr_bytes h, objs).
Proof. exact recorded_was_accepted. Qed.
Print Assumptions C15_recorded_was_accepted.

(* ... so a fragment is reported as a repeat only if the SAME fragment was accepted before *)
Theorem C15_duplicate_only_of_accepted : forall cfg evs k o q,
  nth_error (run cfg evs) (S k) = Some o -> In (OInfoUnsol true q) (map snd o) ->
  exists src frag v items h objs,
    nth_error evs k = Some (ERx src frag v items) /\ parse_response frag = PResponse h objs /\ h_unsol h = true /\
    exists j src' frag' v' items',
      (j < k)%nat /\ nth_error evs j = Some (ERx src' frag' v' items') /\
      parse_response frag' = PResponse h objs /\
      unsol_accepts cfg (state_at cfg evs j) src' h objs v' = true.
Proof. exact duplicate_only_of_accepted. Qed.
Print Assumptions C15_duplicate_only_of_accepted.

(* ---------------------------------------------------------------------------------------- *)
(* non-vacuity *)

Definition ex_cfg : mcfg := mk_mcfg 1024 1000 0 0 0 1000 10000 16 249.

(* a two-fragment answer to a READ of class 1: fragment 1 = FIR, CON, sequence 0 with one g1v2
   object; fragment 2 = FIN, sequence 1, empty *)
Definition ex_read : list mevent :=
  [EUser 7 (URead [60; 2; 6]);
   ERx 1024 [160; 129; 0; 0; 1; 2; 0; 0; 0; 129] VOk [[98; 105]];
   ERx 1024 [65; 129; 0; 0] VOk []].

Example C15_two_fragment_read :
  map act (run ex_cfg ex_read) =
  [[]; [];
   [OCbBegin RtSingle [160; 129; 0; 0]; OCbItem [98; 105]; OCbEnd RtSingle [160; 129; 0; 0];
    OTxConfirm 1024 false 0];
   [OCbBegin RtSingle [65; 129; 0; 0]; OCbEnd RtSingle [65; 129; 0; 0]; ORes 7 ROk;
    OInfoSuccess TUserRead 1 1]]
  /\ last_request (hist ex_cfg ex_read 2) = Some (mk_req 0 1 [60; 2; 6] 1).
Proof. split; vm_compute; reflexivity. Qed.

(* the same answer with the second fragment carrying the first one's sequence number: nothing *)
Example C15_stale_second_fragment :
  map act (run ex_cfg [EUser 7 (URead [60; 2; 6]);
                       ERx 1024 [160; 129; 0; 0; 1; 2; 0; 0; 0; 129] VOk [[98; 105]];
                       ERx 1024 [64; 129; 0; 0] VOk []; ERx 9 [65; 129; 0; 0] VOk []])
  = [[]; []; [OCbBegin RtSingle [160; 129; 0; 0]; OCbItem [98; 105]; OCbEnd RtSingle [160; 129; 0; 0];
              OTxConfirm 1024 false 0]; []; []].
Proof. vm_compute; reflexivity. Qed.

(* F10 (fixed in 86bdefd): a CON-flagged response to a non-READ request is confirmed; and a
   repeated unsolicited fragment is confirmed, not delivered *)
Example C15_nonread_con_and_duplicate :
  map act (run ex_cfg [EUser 3 (UEmpty 2 [60; 2; 6]); ERx 1024 [224; 129; 0; 0] VOk [];
                       ERx 1024 [243; 130; 0; 0; 1; 2; 0; 0; 0; 129] VOk [[120]];
                       ERx 1024 [243; 130; 0; 0; 1; 2; 0; 0; 0; 129] VOk [[120]]])
  = [[]; []; [OTxConfirm 1024 false 0; ORes 3 ROk; OInfoSuccess (TEmpty 2) 2 0];
     [OCbBegin RtUnsol [243; 130; 0; 0]; OCbItem [120]; OCbEnd RtUnsol [243; 130; 0; 0];
      OInfoUnsol false 3; OTxConfirm 1024 true 3];
     [OInfoUnsol true 3; OTxConfirm 1024 true 3]].
Proof. vm_compute; reflexivity. Qed.

(* start-up integrity poll enabled: an unsolicited fragment WITH data that arrives while the poll
   is outstanding is ignored (not delivered, not confirmed, not recorded); when the outstation
   retries the byte-identical fragment after the poll has completed it is a FIRST delivery, and
   only the third copy is a repeat *)
Example C15_gated_fragment_retried :
  map act (run (mk_mcfg 1024 1000 0 0 1 1000 10000 16 249)
    [ERx 1024 [243; 130; 0; 0; 1; 2; 0; 0; 0; 129] VOk [[120]];
     ERx 1024 [192; 129; 0; 0] VOk [];
     ERx 1024 [243; 130; 0; 0; 1; 2; 0; 0; 0; 129] VOk [[120]];
     ERx 1024 [243; 130; 0; 0; 1; 2; 0; 0; 0; 129] VOk [[120]]])
  = [[]; [];
     [OCbBegin RtIntegrity [192; 129; 0; 0]; OCbEnd RtIntegrity [192; 129; 0; 0]; OInfoSuccess TIntegrity 1 0];
     [OCbBegin RtUnsol [243; 130; 0; 0]; OCbItem [120]; OCbEnd RtUnsol [243; 130; 0; 0];
      OInfoUnsol false 3; OTxConfirm 1024 true 3];
     [OInfoUnsol true 3; OTxConfirm 1024 true 3]].
Proof. vm_compute; reflexivity. Qed.

(* ---- agreement of the hand-written models with the tables regenerated from the source on every run
   (tools/gen/gen_master_tables.py -> gen/MasterTables.v; lemmas, interpreters and observers in
   Master/TablesAgree.v, module MTab).  `.._is_table`: the model's function IS the interpreter run over the
   generated table; `.._observed`: the order the model serves things in, observed on enumerated states. *)
From Coq Require Import String List.
From Dnp3V Require Import Base.Bytes Master.Backoff Master.Assoc Master.Sched Master.MParse Master.Command Master.MTask
  Master.TimeSync gen.MasterTables Master.TablesAgree.
Import MTab.
Local Open Scope string_scope.
Local Open Scope list_scope.
Local Open Scope N_scope.

Theorem C15_tables_nonread_validation_is_table : forall cfg st k seq d started src h objs v items,
  validate_dispatch gm_validate_non_read_response (mt_check cfg seq true src h)
    (MT.handle_unsol cfg st src h objs v items) (st, [])
    (fun e => option_map (MT.fail_running cfg st) (mt_err h e))
    (mt_nonread_accept cfg st k seq started h objs v)
  = Some (MT.on_nonread_rx cfg st k seq d started src h objs v items).
Proof. exact MTab.mt_nonread_validation_is_table. Qed.
Print Assumptions C15_tables_nonread_validation_is_table.

Theorem C15_tables_read_validation_is_table : forall cfg st k seq first d started src h objs v items,
  validate_dispatch gm_process_read_response (mt_check cfg seq first src h)
    (MT.handle_unsol cfg st src h objs v items) (st, [])
    (fun e => option_map (MT.fail_running cfg st) (mt_err h e))
    (mt_read_accept cfg st k seq started h v items)
  = Some (MT.on_read_rx cfg st k seq first d started src h objs v items).
Proof. exact MTab.mt_read_validation_is_table. Qed.
Print Assumptions C15_tables_read_validation_is_table.

(* Iin::has_bad_request_error *)
Theorem C15_tables_iin2_bad_request_bits :
  forallb (fun i2 => Bool.eqb (MP.iin2_bad i2) (existsb (N.testbit i2) gm_iin2_bad_request_bits)
                     && Bool.eqb (ms_iin_bad_request (probe_frag 0 i2)) (existsb (N.testbit i2) gm_iin2_bad_request_bits))
          (nrange 256) = true.
Proof. exact MTab.iin2_bad_request_bits_agree. Qed.
Print Assumptions C15_tables_iin2_bad_request_bits.

Theorem C15_tables_read_function_code : mt_read_fc = assoc_str "Read" gm_task_function.
Proof. exact MTab.mt_read_function_code_agrees. Qed.
Print Assumptions C15_tables_read_function_code.

Theorem C15_tables_next_task_is_table : forall cfg st,
  MT.s_assoc st = true -> MT.s_queue st = [] ->
  mt_dispatch gm_auto_order cfg st = Some (MT.next_task cfg st).
Proof. exact MTab.mt_next_task_is_table. Qed.
Print Assumptions C15_tables_next_task_is_table.

(* the order observed in the task model = the generated order without the two tasks it does not have *)
Theorem C15_tables_auto_order_observed :
  map mt_auto_name (mt_observe_order 4 [MtClear; MtDisable; MtIntegrity; MtEnable])
  = filter (fun n => negb (str_in n ["time_sync"; "event_scan"])) generated_auto_order.
Proof. exact MTab.mt_auto_order_observed. Qed.
Print Assumptions C15_tables_auto_order_observed.

Theorem C15_tables_reset : forall st e, mt_run_actions gm_association_reset st = Some (fst (MT.reset_assoc st e)).
Proof. exact MTab.mt_reset_agrees. Qed.
Print Assumptions C15_tables_reset.

(* process_iin of the task model = `if DEVICE_RESTART { on_restart_iin_observed() }` with the generated
   handler (the only IIN bit with an effect in the configurations it describes) *)
Theorem C15_tables_process_iin : forall st i1,
  (match handler_lookup "on_restart_iin_observed" gm_handlers with
   | Some (GmWhenSlotIdle n, t, _) =>
       match mt_slot n st with
       | Some a => if MP.iin1_restart i1 && mt_is_idle a then mt_run_actions t st else Some st
       | None => None
       end
   | _ => None
   end) = Some (MT.process_iin st i1) /\
  existsb (fun r => match r with (1, 7, h) => String.eqb h "on_restart_iin_observed" | _ => false end)
          gm_process_iin_triggers = true.
Proof. exact MTab.mt_process_iin_agrees. Qed.
Print Assumptions C15_tables_process_iin.

(* the task model of C15/C16 (milliseconds in N, no Duration overflow) *)
Theorem C15_tables_backoff : forall cfg now last nx,
  MT.failure cfg now (MT.AFailed last nx)
  = MT.AFailed (N.min (Z.to_N gm_backoff_factor * last) (MT.c_retry_max cfg))
               (now + N.max (N.min (Z.to_N gm_backoff_factor * last) (MT.c_retry_max cfg)) (Z.to_N gm_min_retry_delay_ms)) /\
  MT.failure cfg now MT.AIdle = MT.AFailed (MT.c_retry_min cfg) (now + N.max (MT.c_retry_min cfg) (Z.to_N gm_min_retry_delay_ms)).
Proof. exact MTab.mt_backoff_agrees. Qed.
Print Assumptions C15_tables_backoff.

Example C15_tables_instance :
  map fst gm_validate_non_read_response = ["unsolicited"; "source"; "sequence"; "fir_and_fin"; "iin2"] /\
  map fst gm_process_read_response
  = ["unsolicited"; "source"; "sequence"; "unexpected_fir"; "never_fir"; "non_fin_without_con"; "iin2"].
Proof. split; reflexivity. Qed.

(* ---------------------------------------------------------------------------------------- *)
(* ---- the COMPOSED master model (Master/MFull.v, engine `mfull`, second pass of the check): the verdict of
   the object parser and the measurement items are COMPUTED from the received octets with App/Grammar.v and
   the conversion model of C10 (App/Convert.v); the verdict / items an event carries are ignored.
   [MF.mverdict frag], [MF.mitems frag], [MF.run cfg evs] = [MT.run cfg (map MF.compute_event evs)];
   [fhist cfg evs k] = everything the composed run observed before step k; [resp_function h] = 129 / 130.
   Lemmas in Master/MFullProofs.v. *)
From Dnp3V Require Import App.Grammar App.Convert Master.MFull Master.MFullProofs.
Import MP MCmd MT.

(* the header half of the task model's parser IS the application-layer header parser + to_response *)
Theorem C15_composed_header_parser_is_grammar : forall frag h objs,
  parse_response frag = PResponse h objs ->
  exists ah, aparse_header frag = AOk (ah, objs) /\ ato_response ah = None /\
    ah_control ah = actl_of (h_ctrl h) /\ ah_function ah = resp_function h /\
    ah_iin ah = Some (h_iin1 h, h_iin2 h).
Proof. exact parse_response_header. Qed.
Print Assumptions C15_composed_header_parser_is_grammar.

Theorem C15_composed_header_parser_rejects_same : forall frag,
  parse_response frag = PError <->
  match aparse_header frag with
  | AOk (ah, _) => ato_response ah <> None
  | AErr _ => True
  end.
Proof. exact parse_response_error_iff. Qed.
Print Assumptions C15_composed_header_parser_rejects_same.

(* the verdict is a total function of the octets: none iff the application header does not parse, otherwise
   what the validating pass over the object headers says *)
Theorem C15_composed_verdict_total : forall frag,
  match aparse_header frag with
  | AErr _ => MF.mverdict frag = VNone
  | AOk (ah, objs) =>
      match avalidate MF.mopts (ah_function ah) objs with
      | AOk _ => MF.mverdict frag = VOk
      | AErr _ => MF.mverdict frag = VBad
      end
  end.
Proof. exact mverdict_spec. Qed.
Print Assumptions C15_composed_verdict_total.

Theorem C15_composed_verdict_first_header_malformed : forall frag h objs e,
  parse_response frag = PResponse h objs -> objs <> [] ->
  aparse_one MF.mopts (resp_function h) objs = AErr e ->
  MF.mverdict frag = VBad.
Proof. exact mverdict_first_header_malformed. Qed.
Print Assumptions C15_composed_verdict_first_header_malformed.

(* C15_read_fragment_rule over octets: `v = VOk` is replaced by the Grammar fact that every object header of
   the fragment parses; v0 / items0 (what the script attached to the event) are unconstrained *)
Theorem C15_composed_read_fragment_rule : forall cfg evs k o rt hdr,
  nth_error (MF.run cfg evs) (S k) = Some o -> In (OCbBegin rt hdr) (map snd o) -> rt <> RtUnsol ->
  exists src frag v0 items0 h objs r c,
    nth_error evs k = Some (ERx src frag v0 items0) /\ parse_response frag = PResponse h objs /\
    h_unsol h = false /\ hdr = hdr_bytes h /\ src = c_addr cfg /\
    avalidate MF.mopts fc_response objs = AOk c /\ iin2_bad (h_iin2 h) = false /\
    last_request (fhist cfg evs k) = Some r /\ rq_fc r = 1 /\ answers r h.
Proof. exact composed_read_fragment_rule. Qed.
Print Assumptions C15_composed_read_fragment_rule.

(* whatever reaches the handler in a step was computed from the octets received in that step *)
Theorem C15_composed_handler_items : forall cfg evs k o it,
  nth_error (MF.run cfg evs) (S k) = Some o -> In (OCbItem it) (map snd o) ->
  exists src frag v0 items0,
    nth_error evs k = Some (ERx src frag v0 items0) /\ In it (MF.mitems frag).
Proof. exact composed_handler_items. Qed.
Print Assumptions C15_composed_handler_items.

Theorem C15_composed_agrees_with_honest_oracle : forall cfg evs,
  Forall (fun ev => MF.compute_event ev = ev) evs -> MF.run cfg evs = MT.run cfg evs.
Proof. exact composed_agrees_with_honest_oracle. Qed.
Print Assumptions C15_composed_agrees_with_honest_oracle.

(* non-vacuity.  A response whose only object header is cut short (g1v2, 8-bit range, stop octet missing) *)
Example C15_composed_malformed_header :
  parse_response [192; 129; 0; 0; 1; 2; 0; 5] = PResponse (mk_rhdr 192 false 0 0) [1; 2; 0; 5] /\
  aparse_one MF.mopts 129 [1; 2; 0; 5] = AErr OEInsufficient /\
  MF.mverdict [192; 129; 0; 0; 1; 2; 0; 5] = VBad /\
  MF.mverdict [192; 129; 0] = VNone /\ MF.mverdict [192; 131; 0; 0] = VNone /\ MF.mverdict [192; 0] = VOk.
Proof. repeat split; vm_compute; reflexivity. Qed.

(* the two-fragment read of C15_two_fragment_read given to the composed model with WRONG oracle inputs (verdict
   bad, a made-up item): the composed run is the run of the task model with the right ones, and the handler
   receives the token computed from the octets, `bi/g1v2/00/e0f1/0=1,81,n` *)
Definition ex_token : list N :=
  [98; 105; 47; 103; 49; 118; 50; 47; 48; 48; 47; 101; 48; 102; 49; 47; 48; 61; 49; 44; 56; 49; 44; 110].

Example C15_composed_two_fragment_read :
  MF.mitems [160; 129; 0; 0; 1; 2; 0; 0; 0; 129] = [ex_token] /\
  map MTaskProofs.act (MF.run ex_cfg
    [EUser 7 (URead [60; 2; 6]);
     ERx 1024 [160; 129; 0; 0; 1; 2; 0; 0; 0; 129] VBad [[120]];
     ERx 1024 [65; 129; 0; 0] VNone []]) =
  [[]; [];
   [OCbBegin RtSingle [160; 129; 0; 0]; OCbItem ex_token; OCbEnd RtSingle [160; 129; 0; 0];
    OTxConfirm 1024 false 0];
   [OCbBegin RtSingle [65; 129; 0; 0]; OCbEnd RtSingle [65; 129; 0; 0]; ORes 7 ROk;
    OInfoSuccess TUserRead 1 1]].
Proof. split; vm_compute; reflexivity. Qed.

(* a common time of occurrence (g51v1, 1000 ms) followed by a relative-time binary event (g2v3, index 7,
   +5 ms) and an absolute time object: `bi/g2v3/17/e1f1/7=1,81,s1005` and `abs/g50v1/07/e0f0/0=9` *)
Example C15_composed_cto :
  let frag := [224; 130; 0; 0; 51; 1; 7; 1; 232; 3; 0; 0; 0; 0; 2; 3; 23; 1; 7; 129; 5; 0;
               50; 1; 7; 1; 9; 0; 0; 0; 0; 0] in
  MF.mitems frag =
  [[98; 105; 47; 103; 50; 118; 51; 47; 49; 55; 47; 101; 49; 102; 49; 47; 55; 61; 49; 44; 56; 49; 44; 115; 49; 48; 48; 53];
   [97; 98; 115; 47; 103; 53; 48; 118; 49; 47; 48; 55; 47; 101; 48; 102; 48; 47; 48; 61; 57]]
  /\ MF.mcovered frag = true /\ MF.mverdict frag = VOk.
Proof. repeat split; vm_compute; reflexivity. Qed.
