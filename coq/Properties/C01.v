(* Properties/C01.v - statements only; every proof is `exact <lemma>`.
   C01 "Bytes from the peer can never crash or wedge a master or an outstation" - PARTIAL.

   What the theorems carry:
   (a) the panic-site ledger is complete: every potential panic site that the translator finds in the
       21 anchored files NOW (gen/PanicSites.v: unwrap / expect / unreachable / panic / assert, index
       and slice expressions, unchecked + - * << >> / %, panicking std calls) has a hand-reviewed entry;
       the entry is not OPEN (no undischarged obligation is left: the three sites of finding F18, the
       u16 control counter, were repaired by repo commit 235518f), and a `lemma:` reason cites a theorem
       of this development;
   (b) the logic cannot spin, every fuelled loop has enough fuel, and the guards of the sites the
       ledger discharges by lemma hold in every reachable model state (link parser / read buffer /
       assembler / event counters / range and iterator indices).
   What they do not carry (decided by the correspondence runs of tools/props/c01.py): that the real
   code does not panic or stall on hostile input and keeps serving afterwards. *)
From Coq Require Import List NArith String.
From Dnp3V Require Import gen.PanicSites System.PanicLedger.
From Dnp3V Require Import Base.Bytes Link.Parser Link.Reader Link.CrcProofs Link.ParserIncr Link.ReaderProofs.
From Dnp3V Require Import Transport.Assembler Transport.TransportProofs.
From Dnp3V Require Import Outstation.DbTypes Outstation.EventBuffer Outstation.EventBufferProofs.
From Dnp3V Require Import App.Grammar App.GrammarProofs.
Import ListNotations.
Open Scope N_scope.

(* ---- (a) the ledger ------------------------------------------------------------------------- *)

Theorem C01_ledger_complete : forall s, In s panic_sites ->
  exists e, In e panic_ledger /\ le_key e = ps_key s
            /\ le_class e <> COpen
            /\ (forall n, le_class e = CLemma n -> In n discharging_lemmas).
Proof. exact ledger_complete. Qed.
Print Assumptions C01_ledger_complete.

(* no site is left OPEN *)
Theorem C01_open_obligations :
  length (filter (fun s =>
    existsb (fun e => (le_key e =? ps_key s)%N && class_open (le_class e)) panic_ledger) panic_sites) = 0%nat.
Proof. exact open_sites_check. Qed.
Print Assumptions C01_open_obligations.

Theorem C01_site_keys_distinct : forall s, In s panic_sites ->
  length (filter (fun t => (ps_key t =? ps_key s)%N) panic_sites) = 1%nat.
Proof. exact site_keys_distinct. Qed.
Print Assumptions C01_site_keys_distinct.

(* ---- (b) link parser: fuel, progress, bounded leftovers ---------------------------------------- *)

(* discard mode: the fuel S (length cur) used by `parse` never runs out *)
Theorem C01_parse_discard_fuel_sufficient : forall fuel cur, (length cur < fuel)%nat ->
  parse_discard fuel cur = parse_discard (S (length cur)) cur.
Proof. exact parse_discard_fuel_sufficient. Qed.
Print Assumptions C01_parse_discard_fuel_sufficient.

(* the trailer length computed from any LEN octet is at most 282: the two arithmetic sites of
   calc_trailer_length, and `len - 5` is taken only after the check len >= 5 *)
Theorem C01_trailer_le_282 : forall len, len < 256 ->
  (calc_trailer_length (len - c_min_header_length_value) <= 282)%nat.
Proof. exact trailer_le_282. Qed.
Print Assumptions C01_trailer_le_282.

(* whenever the parser asks for more data, fewer than 292 bytes stay in the buffer *)
Theorem C01_parse_needmore_leftover : forall mode st a st1 r1,
  pstate_ok st -> bytes_ok a -> parse mode st a = (st1, r1, PNeedMore) ->
  pstate_ok st1 /\ (length r1 < 292)%nat.
Proof. exact parse_needmore_leftover. Qed.
Print Assumptions C01_parse_needmore_leftover.

(* one physical read: the reader's loop never runs out of fuel (no stall) *)
Theorem C01_feed_fuel_sufficient : forall cfg rs c rs' obs go, st_ok (r_pstate rs) ->
  feed cfg rs c = (rs', obs, go) -> ~ In OStall obs /\ st_ok (r_pstate rs').
Proof. exact feed_fuel_sufficient. Qed.
Print Assumptions C01_feed_fuel_sufficient.

(* any sequence of physical reads, any chunking, any content: no stall *)
Theorem C01_run_feeds_no_stall : forall cfg cs rs, st_ok (r_pstate rs) -> ~ In OStall (run_feeds cfg rs cs).
Proof. exact run_feeds_no_stall. Qed.
Print Assumptions C01_run_feeds_no_stall.

(* ---- (b) link read buffer: offsets stay inside the buffer, the slice offered is never empty ---- *)

Theorem C01_readbuffer_inv : forall cfg frag rs, r_cap cfg = read_buffer_size frag -> reachable cfg rs ->
  (r_begin rs + length (r_unread rs) <= r_cap cfg)%nat.
Proof. exact readbuffer_inv. Qed.
Print Assumptions C01_readbuffer_inv.

Theorem C01_ready_to_read_has_space : forall cfg rs rs1, (293 <= r_cap cfg)%nat -> rs_inv cfg rs ->
  step_parse cfg rs = (rs1, None) -> (0 < r_writable cfg (shift_if_full cfg rs1))%nat.
Proof. exact ready_to_read_has_space. Qed.
Print Assumptions C01_ready_to_read_has_space.

Theorem C01_readbuffer_space : forall cfg frag rs c rs' obs, r_cap cfg = read_buffer_size frag ->
  reachable cfg rs -> bytes_ok c -> feed cfg rs c = (rs', obs, true) -> (0 < r_writable cfg rs')%nat.
Proof. exact readbuffer_space. Qed.
Print Assumptions C01_readbuffer_space.

(* ---- (b) transport assembler: the tracked length never exceeds the buffer ---------------------- *)

Theorem C01_assemble_cap : forall a i h d, a_cap (assemble a i h d) = a_cap a.
Proof. exact assemble_cap. Qed.
Print Assumptions C01_assemble_cap.

Theorem C01_assembler_len_le_cap : forall a i h d,
  (asm_len a <= a_cap a)%nat -> (asm_len (assemble a i h d) <= a_cap (assemble a i h d))%nat.
Proof. exact assembler_len_le_cap. Qed.
Print Assumptions C01_assembler_len_le_cap.

Theorem C01_assembler_reachable_len_le_cap : forall cap segs,
  (asm_len (assemble_all cap segs) <= cap)%nat /\ a_cap (assemble_all cap segs) = cap.
Proof. exact assembler_reachable_len_le_cap. Qed.
Print Assumptions C01_assembler_reachable_len_le_cap.

(* ---- (b) application parser: range counts and iterator indices --------------------------------- *)

(* Range::from: a range is accepted iff start <= stop, and then count = stop - start + 1 *)
Theorem C01_range_count : forall a b s c, amk_range a b = Some (s, c) <-> a <= b /\ s = a /\ c = b - a + 1.
Proof. exact amk_range_some. Qed.
Print Assumptions C01_range_count.

(* RangedBytesIterator: n objects with indices start .. start+n-1; start+n is never formed (F2) *)
Theorem C01_ranged_bytes_iterator_indices : forall size n fuel idx d,
  N.of_nat (length d) = size * N.of_nat n -> (n <= fuel)%nat ->
  map aobj_index (aiter_rbytes fuel size (N.of_nat n) idx d) = arange_indices idx n
  /\ concat (map (fun ob => match ob with ObBytes _ b => b | _ => [] end) (aiter_rbytes fuel size (N.of_nat n) idx d)) = d
  /\ length (aiter_rbytes fuel size (N.of_nat n) idx d) = n.
Proof. exact aiter_rbytes_spec. Qed.
Print Assumptions C01_ranged_bytes_iterator_indices.

(* BitIterator: bits pos .. count-1 with indices s+pos .. s+count-1, never s+count *)
Theorem C01_bit_iterator_indices : forall s count d, count <= 8 * N.of_nat (length d) ->
  forall m fuel pos idx data, N.to_nat (count - pos) = m -> (m <= fuel)%nat -> pos <= count ->
    data = skipn (N.to_nat (pos / 8)) d -> (pos < count -> idx = s + pos) ->
    aiter_bits fuel pos count idx data
    = map (fun k => ObBit (s + pos + N.of_nat k) (abit_of d (pos + N.of_nat k))) (seq 0 m).
Proof. exact aiter_bits_spec. Qed.
Print Assumptions C01_bit_iterator_indices.

Theorem C01_double_bit_iterator_indices : forall s count d, count <= 4 * N.of_nat (length d) ->
  forall m fuel pos idx data, N.to_nat (count - pos) = m -> (m <= fuel)%nat -> pos <= count ->
    data = skipn (N.to_nat (pos / 4)) d -> (pos < count -> idx = s + pos) ->
    aiter_dbits fuel pos count idx data
    = map (fun k => ObDBit (s + pos + N.of_nat k) (adbit_of d (pos + N.of_nat k))) (seq 0 m).
Proof. exact aiter_dbits_spec. Qed.
Print Assumptions C01_double_bit_iterator_indices.

(* the second pass over an accepted fragment never meets an error and needs no more fuel than the
   fragment has bytes *)
Theorem C01_second_pass_agrees_with_first : forall o fc l c, avalidate o fc l = AOk c ->
  aone_pass (length l) o fc l = map AOk (aiter_headers c).
Proof. exact second_pass_agrees_with_first. Qed.
Print Assumptions C01_second_pass_agrees_with_first.

(* ---- (b) event buffer: counters are exact, `total - written` never underflows (F3) ------------- *)

Theorem C01_counters_exact : forall cfg ops,
  let b := ebuf_run cfg ops in
  (forall k, cnt_class (eb_total b) k = countN (in_class k) (eb_events b))
  /\ (forall t, cnt_type (eb_total b) t = countN (in_type t) (eb_events b))
  /\ (forall k, cnt_class (eb_written b) k = countN (fun r => in_class k r && is_written r) (eb_events b))
  /\ (forall t, cnt_type (eb_written b) t = countN (fun r => in_type t r && is_written r) (eb_events b)).
Proof. exact counters_exact. Qed.
Print Assumptions C01_counters_exact.

Theorem C01_no_underflow : forall cfg ops, ebuf_subtract_ok (ebuf_run cfg ops) = true.
Proof. exact no_underflow. Qed.
Print Assumptions C01_no_underflow.

(* ---- non-vacuity ------------------------------------------------------------------------------- *)

(* the ledger quantifies over a non-empty list; the count is the one the translator reported *)
Example C01_sites_nonempty : length panic_sites = panic_site_count /\ panic_sites <> [].
Proof. split; [vm_compute; reflexivity|discriminate]. Qed.

(* the reader invariant holds initially and `reachable` is inhabited *)
Example C01_reachable_init : forall cfg, reachable cfg rstate_init.
Proof. intro cfg. constructor. Qed.

(* the assembler bound holds initially *)
Example C01_assembler_init : forall cap, (asm_len (assembler_init cap) <= a_cap (assembler_init cap))%nat.
Proof. intro cap. cbn. apply Nat.le_0_l. Qed.
