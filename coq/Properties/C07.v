(* Properties/C07.v — statements only. *)
From Dnp3V Require Import Link.Layer Link.LayerProofs.
Open Scope N_scope.
