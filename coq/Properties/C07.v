(* Properties/C07.v — statements only. *)
From Dnp3V Require Import Link.Layer Link.LayerProofs.
From Dnp3V Require Import Link.CrcProofs Link.ParserProofs.
Open Scope N_scope.

(* ---------- 1. the endpoint acts only on frames addressed to it ---------------------------------- *)

(* whenever process_header hands a frame up, replies, or changes the secondary state, the frame came
   from the opposite station type, from an endpoint (non-reserved, non-broadcast, non-self) source,
   and was sent to the own address, to the self address with the feature enabled, or (outstation
   only, user data only) to a broadcast address; what is handed up and the reply name that source *)
Theorem C07_acted_implies_addressed : forall cfg ss h ss' info rp,
  process_header cfg ss h = (ss', info, rp) ->
  (info <> None \/ rp <> None \/ ss' <> ss) ->
  c_master (h_control h) <> dir_bit (l_type cfg) /\
  exists s, h_src h = AEndpoint s /\
    (h_dest h = AEndpoint (l_addr cfg) \/ (h_dest h = ASelf /\ l_self cfg = true) \/
     (exists m, h_dest h = ABroadcast m /\ l_type cfg = Outstation /\
                is_user_data (c_func (h_control h)) = true)) /\
    (forall i, info = Some i -> fi_source i = s) /\
    (forall r, rp = Some r -> rp_addr r = s).
Proof. exact acted_implies_addressed. Qed.
Print Assumptions C07_acted_implies_addressed.

(* the filter (LayerProofs.link_filter, used below as `accepted`) in words *)
Theorem C07_link_filter_spec : forall cfg h source broadcast,
  link_filter cfg h = Some (source, broadcast) <->
  c_master (h_control h) = negb (dir_bit (l_type cfg)) /\
  h_src h = AEndpoint source /\
  ((broadcast = None /\
    (h_dest h = AEndpoint (l_addr cfg) \/ (h_dest h = ASelf /\ l_self cfg = true))) \/
   (exists m, broadcast = Some m /\ h_dest h = ABroadcast m /\ l_type cfg = Outstation /\
              is_user_data (c_func (h_control h)) = true)).
Proof. exact link_filter_spec. Qed.
Print Assumptions C07_link_filter_spec.

Theorem C07_not_addressed_ignored : forall cfg ss h,
  link_filter cfg h = None -> process_header cfg ss h = (ss, None, None).
Proof. exact not_addressed_ignored. Qed.
Print Assumptions C07_not_addressed_ignored.

Theorem C07_same_direction_ignored : forall cfg ss h,
  c_master (h_control h) = dir_bit (l_type cfg) -> process_header cfg ss h = (ss, None, None).
Proof. exact same_direction_ignored. Qed.
Print Assumptions C07_same_direction_ignored.

Theorem C07_bad_source_ignored : forall cfg ss h,
  (forall s, h_src h <> AEndpoint s) -> process_header cfg ss h = (ss, None, None).
Proof. exact bad_source_ignored. Qed.
Print Assumptions C07_bad_source_ignored.

Theorem C07_other_destination_ignored : forall cfg ss h x,
  h_dest h = AEndpoint x -> x <> l_addr cfg -> process_header cfg ss h = (ss, None, None).
Proof. exact other_destination_ignored. Qed.
Print Assumptions C07_other_destination_ignored.

Theorem C07_reserved_destination_ignored : forall cfg ss h x,
  h_dest h = AReserved x -> process_header cfg ss h = (ss, None, None).
Proof. exact reserved_destination_ignored. Qed.
Print Assumptions C07_reserved_destination_ignored.

Theorem C07_self_address_disabled_ignored : forall cfg ss h,
  h_dest h = ASelf -> l_self cfg = false -> process_header cfg ss h = (ss, None, None).
Proof. exact self_address_disabled_ignored. Qed.
Print Assumptions C07_self_address_disabled_ignored.

(* ---------- 2. broadcasts ---------------------------------------------------------------------------- *)

Theorem C07_no_reply_to_broadcast : forall cfg ss h m,
  h_dest h = ABroadcast m -> snd (process_header cfg ss h) = None.
Proof. exact no_reply_to_broadcast. Qed.
Print Assumptions C07_no_reply_to_broadcast.

Theorem C07_master_ignores_broadcast : forall cfg ss h m,
  l_type cfg = Master -> h_dest h = ABroadcast m -> process_header cfg ss h = (ss, None, None).
Proof. exact master_ignores_broadcast. Qed.
Print Assumptions C07_master_ignores_broadcast.

Theorem C07_broadcast_non_user_data_ignored : forall cfg ss h m,
  h_dest h = ABroadcast m -> is_user_data (c_func (h_control h)) = false ->
  process_header cfg ss h = (ss, None, None).
Proof. exact broadcast_non_user_data_ignored. Qed.
Print Assumptions C07_broadcast_non_user_data_ignored.

(* a run of frames that all have a broadcast destination transmits nothing *)
Theorem C07_broadcast_trace_no_tx : forall cfg obs ss,
  Forall (fun o => match o with OFrame h _ => exists m, h_dest h = ABroadcast m | _ => False end) obs ->
  forall o, In o (layer_obs cfg ss obs) -> match o with LTx _ => true | _ => false end = false.
Proof. exact broadcast_trace_no_tx. Qed.
Print Assumptions C07_broadcast_trace_no_tx.

(* ---------- 3. link status requests ------------------------------------------------------------------ *)

Theorem C07_link_status_answered : forall cfg ss h s,
  (h_dest h = AEndpoint (l_addr cfg) \/ (h_dest h = ASelf /\ l_self cfg = true)) ->
  c_master (h_control h) = negb (dir_bit (l_type cfg)) ->
  h_src h = AEndpoint s ->
  c_func (h_control h) = PriRequestLinkStatus -> c_fcv (h_control h) = false ->
  process_header cfg ss h =
    (ss, Some (mk_info s None FLinkStatusRequest), Some {| rp_addr := s; rp_func := SecLinkStatus |}).
Proof. exact link_status_answered. Qed.
Print Assumptions C07_link_status_answered.

(* the reply on the wire is a well-formed header-only frame from the own address to the requester,
   carrying the endpoint's own direction bit, FCB = FCV = 0 (every function code the library knows) *)
Theorem C07_reply_bytes_parse : forall cfg s f rest,
  s < 65520 -> l_addr cfg < 65520 -> match f with FUnknown _ => False | _ => True end ->
  parse_impl FindSync1 (reply_bytes cfg {| rp_addr := s; rp_func := f |} ++ rest) =
  (FindSync1, rest,
   PFrame {| h_control := {| c_func := f; c_master := dir_bit (l_type cfg); c_fcb := false; c_fcv := false |};
             h_dest := AEndpoint s; h_src := AEndpoint (l_addr cfg) |} []).
Proof. exact reply_bytes_parse. Qed.
Print Assumptions C07_reply_bytes_parse.

(* ... and every function with a code below 16 that decodes back to itself *)
Theorem C07_reply_bytes_parse_any : forall cfg s f rest,
  s < 65520 -> l_addr cfg < 65520 -> (lfunc_to f < 16 /\ lfunc_from (lfunc_to f) = f) ->
  parse_impl FindSync1 (reply_bytes cfg {| rp_addr := s; rp_func := f |} ++ rest) =
  (FindSync1, rest,
   PFrame {| h_control := {| c_func := f; c_master := dir_bit (l_type cfg); c_fcb := false; c_fcv := false |};
             h_dest := AEndpoint s; h_src := AEndpoint (l_addr cfg) |} []).
Proof. exact reply_bytes_parse_any. Qed.
Print Assumptions C07_reply_bytes_parse_any.

Theorem C07_format_header_fixed_size_eq : forall h, format_header_fixed_size h = format_frame h [].
Proof. exact format_header_fixed_size_eq. Qed.
Print Assumptions C07_format_header_fixed_size_eq.

(* the reply is not acted upon by another endpoint of the same type *)
Theorem C07_reply_header_ignored_by_same_type : forall cfg cfg' ss r,
  l_type cfg' = l_type cfg ->
  process_header cfg' ss
    {| h_control := {| c_func := rp_func r; c_master := dir_bit (l_type cfg); c_fcb := false; c_fcv := false |};
       h_dest := AEndpoint (rp_addr r); h_src := AEndpoint (l_addr cfg) |} = (ss, None, None).
Proof. exact reply_header_ignored_by_same_type. Qed.
Print Assumptions C07_reply_header_ignored_by_same_type.

(* ---------- 4. confirmed user data ------------------------------------------------------------------- *)

(* (a) not reset: nothing delivered, nothing acknowledged; only an accepted reset leaves NotReset *)
Theorem C07_confirmed_not_reset_ignored : forall cfg h,
  c_func (h_control h) = PriConfirmedUserData ->
  process_header cfg NotReset h = (NotReset, None, None).
Proof. exact confirmed_not_reset_ignored. Qed.
Print Assumptions C07_confirmed_not_reset_ignored.

Theorem C07_not_reset_persists : forall cfg h ss' info rp,
  process_header cfg NotReset h = (ss', info, rp) -> ss' <> NotReset ->
  c_func (h_control h) = PriResetLinkStates /\ c_fcv (h_control h) = false /\ ss' = ResetS true /\
  info = None /\
  exists s, link_filter cfg h = Some (s, None) /\ rp = Some {| rp_addr := s; rp_func := SecAck |}.
Proof. exact not_reset_persists. Qed.
Print Assumptions C07_not_reset_persists.

Theorem C07_not_reset_run : forall cfg hs,
  Forall (fun h => c_func (h_control h) <> PriResetLinkStates) hs -> run_sec cfg NotReset hs = NotReset.
Proof. exact not_reset_run. Qed.
Print Assumptions C07_not_reset_run.

(* (b) an accepted reset leaves ResetS true in every state, and is acknowledged to its source *)
Theorem C07_reset_link_states_unicast : forall cfg ss h s,
  (h_dest h = AEndpoint (l_addr cfg) \/ (h_dest h = ASelf /\ l_self cfg = true)) ->
  c_master (h_control h) = negb (dir_bit (l_type cfg)) -> h_src h = AEndpoint s ->
  c_func (h_control h) = PriResetLinkStates -> c_fcv (h_control h) = false ->
  process_header cfg ss h = (ResetS true, None, Some {| rp_addr := s; rp_func := SecAck |}).
Proof. exact reset_link_states_unicast. Qed.
Print Assumptions C07_reset_link_states_unicast.

(* (c) in state ResetS e *)
Theorem C07_confirmed_unicast : forall cfg e h s,
  (h_dest h = AEndpoint (l_addr cfg) \/ (h_dest h = ASelf /\ l_self cfg = true)) ->
  c_master (h_control h) = negb (dir_bit (l_type cfg)) -> h_src h = AEndpoint s ->
  c_func (h_control h) = PriConfirmedUserData -> c_fcv (h_control h) = true ->
  process_header cfg (ResetS e) h =
    if bool_eqb (c_fcb (h_control h)) e
    then (ResetS (negb e), Some (mk_info s None FData), Some {| rp_addr := s; rp_func := SecAck |})
    else (ResetS e, None, Some {| rp_addr := s; rp_func := SecAck |}).
Proof. exact confirmed_unicast. Qed.
Print Assumptions C07_confirmed_unicast.

Theorem C07_confirmed_broadcast : forall cfg e h s m,
  l_type cfg = Outstation -> h_dest h = ABroadcast m -> c_master (h_control h) = true ->
  h_src h = AEndpoint s ->
  c_func (h_control h) = PriConfirmedUserData -> c_fcv (h_control h) = true ->
  process_header cfg (ResetS e) h =
    if bool_eqb (c_fcb (h_control h)) e
    then (ResetS (negb e), Some (mk_info s (Some m) FData), None)
    else (ResetS e, None, None).
Proof. exact confirmed_broadcast. Qed.
Print Assumptions C07_confirmed_broadcast.

Theorem C07_confirmed_delivered_iff : forall cfg ss h,
  c_func (h_control h) = PriConfirmedUserData ->
  (snd (fst (process_header cfg ss h)) <> None <->
   (exists s b, link_filter cfg h = Some (s, b)) /\ c_fcv (h_control h) = true /\
   ss = ResetS (c_fcb (h_control h))).
Proof. exact confirmed_delivered_iff. Qed.
Print Assumptions C07_confirmed_delivered_iff.

Theorem C07_first_confirmed_after_reset_has_fcb_1 : forall cfg h,
  c_func (h_control h) = PriConfirmedUserData ->
  snd (fst (process_header cfg (ResetS true) h)) <> None -> c_fcb (h_control h) = true.
Proof. exact first_confirmed_after_reset_has_fcb_1. Qed.
Print Assumptions C07_first_confirmed_after_reset_has_fcb_1.

Theorem C07_retransmission_not_delivered : forall cfg ss h ss' i rp,
  c_func (h_control h) = PriConfirmedUserData ->
  process_header cfg ss h = (ss', Some i, rp) ->
  process_header cfg ss' h = (ss', None, rp).
Proof. exact retransmission_not_delivered. Qed.
Print Assumptions C07_retransmission_not_delivered.

(* (d) along any run of headers from any state: conf_trace lists a None for each acknowledged reset
   and Some fcb for each delivered confirmed frame; the FCBs alternate, start again with 1 after
   each reset, and there is none before the first reset when the run starts in NotReset *)
Theorem C07_conf_trace_wf : forall cfg hs ss, wf_from ss (conf_trace cfg ss hs).
Proof. exact conf_trace_wf. Qed.
Print Assumptions C07_conf_trace_wf.

Theorem C07_confirmed_data_once_per_fcb : forall cfg ss hs l1 a b l2,
  conf_trace cfg ss hs = l1 ++ Some a :: Some b :: l2 -> b = negb a.
Proof. exact confirmed_data_once_per_fcb. Qed.
Print Assumptions C07_confirmed_data_once_per_fcb.

Theorem C07_confirmed_data_after_reset_fcb_1 : forall cfg ss hs l1 b l2,
  conf_trace cfg ss hs = l1 ++ None :: Some b :: l2 -> b = true.
Proof. exact confirmed_data_after_reset_fcb_1. Qed.
Print Assumptions C07_confirmed_data_after_reset_fcb_1.

Theorem C07_confirmed_data_needs_reset : forall cfg hs b l,
  conf_trace cfg NotReset hs <> Some b :: l.
Proof. exact confirmed_data_needs_reset. Qed.
Print Assumptions C07_confirmed_data_needs_reset.

(* conf_trace against what the layer hands up *)
Theorem C07_layer_obs_frame_cons : forall cfg ss h p rest,
  layer_obs cfg ss (OFrame h p :: rest) =
  (match snd (process_header cfg ss h) with Some r => [LTx (reply_bytes cfg r)] | None => [] end)
  ++ (match snd (fst (process_header cfg ss h)) with Some i => [LInfo i p] | None => [] end)
  ++ layer_obs cfg (fst (fst (process_header cfg ss h))) rest.
Proof. exact layer_obs_frame_cons. Qed.
Print Assumptions C07_layer_obs_frame_cons.

Theorem C07_layer_obs_frames_app : forall cfg fs1 ss fs2,
  layer_obs cfg ss (map oframe (fs1 ++ fs2)) =
  layer_obs cfg ss (map oframe fs1) ++ layer_obs cfg (run_sec cfg ss (map fst fs1)) (map oframe fs2).
Proof. exact layer_obs_frames_app. Qed.
Print Assumptions C07_layer_obs_frames_app.

Theorem C07_delivered_confirmed_are_infos : forall cfg frames ss,
  Forall (fun f => c_func (h_control (fst f)) <> PriUnconfirmedUserData) frames ->
  length (filter is_data_info (layer_obs cfg ss (map oframe frames))) =
  length (filter is_delivery (conf_trace cfg ss (map fst frames))).
Proof. exact delivered_confirmed_are_infos. Qed.
Print Assumptions C07_delivered_confirmed_are_infos.

(* ---------- 5. the control bytes an endpoint acts on --------------------------------------------- *)

Theorem C07_acting_controls_unicast : forall cfg ss h s b,
  b < 256 -> h_control h = control_from b -> h_src h = AEndpoint s ->
  (h_dest h = AEndpoint (l_addr cfg) \/ (h_dest h = ASelf /\ l_self cfg = true)) ->
  match process_header cfg ss h with (_, None, None) => false | _ => true end =
  existsb (N.eqb b)
    match l_type cfg, ss with
    | Outstation, NotReset => [139; 155; 171; 187; 192; 196; 201; 224; 228; 233]
    | Outstation, ResetS _ => [139; 155; 171; 187; 192; 196; 201; 211; 224; 228; 233; 243]
    | Master, NotReset => [11; 27; 43; 59; 64; 68; 73; 96; 100; 105]
    | Master, ResetS _ => [11; 27; 43; 59; 64; 68; 73; 83; 96; 100; 105; 115]
    end.
Proof. exact acting_controls_unicast. Qed.
Print Assumptions C07_acting_controls_unicast.

Theorem C07_acting_controls_broadcast : forall cfg ss h s m b,
  b < 256 -> h_control h = control_from b -> h_src h = AEndpoint s -> h_dest h = ABroadcast m ->
  match process_header cfg ss h with (_, None, None) => false | _ => true end =
  existsb (N.eqb b)
    match l_type cfg, ss with
    | Outstation, NotReset => [196; 228]
    | Outstation, ResetS true => [196; 228; 243]
    | Outstation, ResetS false => [196; 211; 228]
    | Master, _ => []
    end.
Proof. exact acting_controls_broadcast. Qed.
Print Assumptions C07_acting_controls_broadcast.

Theorem C07_control_from_to : forall c,
  match c_func c with FUnknown _ => False | _ => True end -> control_from (control_to c) = c.
Proof. exact control_from_to. Qed.
Print Assumptions C07_control_from_to.

Theorem C07_address_from_endpoint : forall x, x < 65520 -> address_from x = AEndpoint x.
Proof. exact address_from_endpoint. Qed.
Print Assumptions C07_address_from_endpoint.

(* ---------- non-vacuity ------------------------------------------------------------------------------- *)

Definition c07_outstation : lcfg := {| l_type := Outstation; l_self := false; l_addr := 1024 |}.

(* a link status request (C9) to outstation 1024 from master 1, and the reply bytes *)
Example C07_link_status_instance :
  mk_header 201 1024 1 =
    {| h_control := {| c_func := PriRequestLinkStatus; c_master := true; c_fcb := false; c_fcv := false |};
       h_dest := AEndpoint 1024; h_src := AEndpoint 1 |} /\
  process_header c07_outstation NotReset (mk_header 201 1024 1) =
    (NotReset, Some (mk_info 1 None FLinkStatusRequest), Some {| rp_addr := 1; rp_func := SecLinkStatus |}) /\
  reply_bytes c07_outstation {| rp_addr := 1; rp_func := SecLinkStatus |} = [5; 100; 5; 11; 1; 0; 0; 4; 100; 64] /\
  reply_bytes c07_outstation {| rp_addr := 1; rp_func := SecAck |} = [5; 100; 5; 0; 1; 0; 0; 4; 39; 112].
Proof. repeat split; vm_compute; reflexivity. Qed.

(* the same request by broadcast, from the own station type, or from a reserved source: ignored *)
Example C07_ignored_instances :
  process_header c07_outstation NotReset (mk_header 201 65535 1) = (NotReset, None, None) /\
  process_header c07_outstation NotReset (mk_header 73 1024 1) = (NotReset, None, None) /\
  process_header c07_outstation NotReset (mk_header 201 1024 65521) = (NotReset, None, None) /\
  process_header c07_outstation NotReset (mk_header 201 1025 1) = (NotReset, None, None) /\
  process_header c07_outstation NotReset (mk_header 201 65532 1) = (NotReset, None, None).
Proof. repeat split; vm_compute; reflexivity. Qed.

(* reset (C0), confirmed data FCB=1 (F3) twice, FCB=0 (D3), reset, FCB=0, broadcast FCB=1, unicast FCB=1 *)
Example C07_conf_trace_instance :
  conf_trace c07_outstation NotReset
    [mk_header 243 1024 1; mk_header 192 1024 1; mk_header 243 1024 1; mk_header 243 1024 1;
     mk_header 211 1024 1; mk_header 192 1024 1; mk_header 211 1024 1; mk_header 243 65535 1;
     mk_header 243 1024 1]
  = [None; Some true; Some false; None; Some true].
Proof. vm_compute. reflexivity. Qed.

(* what C07_confirmed_broadcast means for a run: after a reset, a confirmed broadcast with FCB=1 is
   handed up without acknowledgement and consumes the expected FCB, so the next unicast confirmed
   frame with FCB=1 (the master's first after the reset) is acknowledged but NOT handed up *)
Example C07_broadcast_consumes_fcb_instance :
  layer_obs c07_outstation NotReset
    (map oframe [(mk_header 192 1024 1, []); (mk_header 243 65535 1, [7]); (mk_header 243 1024 1, [8])])
  = [LTx [5; 100; 5; 0; 1; 0; 0; 4; 39; 112];
     LInfo (mk_info 1 (Some BOptional) FData) [7];
     LTx [5; 100; 5; 0; 1; 0; 0; 4; 39; 112]].
Proof. vm_compute. reflexivity. Qed.

(* ====================================================================================================
   Session half of C07 (model Outstation/Session.v; proofs in Outstation/SessionC12Proofs.v):
   an outstation executes and answers application fragments only from its configured master address
   unless told to accept any master, and it transmits nothing in reply to a broadcast.
   `Reach AP cfg s`: s is reached from start-up by steps whose environment answers satisfy AP.
   ==================================================================================================== *)
From Dnp3V Require Import Outstation.Session Outstation.SessionLemmas_c12 Outstation.SessionC12Proofs.
Import ListNotations.

(* ---------- 6. fragments of a foreign master ------------------------------------------------------- *)

(* With a configured master (o_any_master = false) and `from` another address, in EVERY state on_rx
   only advances the frame counter; when idle, the idle loop is entered at its unsolicited stage as
   after any wake-up.  The right-hand side does not mention from, bc, bytes or the digest: nothing is
   executed, answered, recorded or called back because of the fragment.  (At the boundaries of a step
   s_pending s = None - C12_no_pending_at_step_boundaries - so `upd_pending _ None` changes nothing.) *)
Theorem C07_foreign_master_inert : forall cfg s from bc bytes d,
  o_any_master cfg = false -> from <> o_master cfg ->
  on_rx cfg s from bc bytes d =
  match s_control s with
  | CIdle => idle_run 31 cfg St2 (upd_pending (upd_frame_id s ((s_frame_id s + 1) mod 4294967296)) None)
  | _ => (upd_frame_id s ((s_frame_id s + 1) mod 4294967296), [])
  end.
Proof. exact foreign_master_inert. Qed.
Print Assumptions C07_foreign_master_inert.

(* the whole step equals the step with the fragment replaced by nothing: frame counter, then (when
   idle) the idle loop from its unsolicited stage, then the 1 ms settle time in which deadlines fire *)
Theorem C07_foreign_master_step : forall cfg s from bc bytes d answers,
  o_any_master cfg = false -> from <> o_master cfg ->
  ostep cfg s (ERx from bc bytes d) answers =
  let s0 := upd_frame_id (upd_answers s answers) ((s_frame_id s + 1) mod 4294967296) in
  let '(s1, o1) := match s_control s with
                   | CIdle => idle_run 31 cfg St2 (upd_pending s0 None)
                   | _ => (s0, [])
                   end in
  let '(s2, o2) := advance 64 cfg s1 (s_now s1 + settle_ms) in (s2, o1 ++ o2).
Proof. exact foreign_master_step. Qed.
Print Assumptions C07_foreign_master_step.

Theorem C07_foreign_master_indistinguishable : forall cfg s answers from bc bytes d from' bc' bytes' d',
  o_any_master cfg = false -> from <> o_master cfg -> from' <> o_master cfg ->
  ostep cfg s (ERx from bc bytes d) answers = ostep cfg s (ERx from' bc' bytes' d') answers.
Proof. exact foreign_master_indistinguishable. Qed.
Print Assumptions C07_foreign_master_indistinguishable.

(* from a reachable state on_rx transmits no solicited response (function code 129) for it *)
Theorem C07_foreign_master_no_reply : forall AP cfg s answers from bc bytes d,
  Reach AP cfg s -> o_any_master cfg = false -> from <> o_master cfg ->
  Forall (fun o => match o with OTx _ b => nth 1 b 0 = 130 | _ => True end)
         (snd (on_rx cfg (upd_answers s answers) from bc bytes d)).
Proof. exact foreign_master_no_reply. Qed.
Print Assumptions C07_foreign_master_no_reply.

(* ---------- 7. broadcasts --------------------------------------------------------------------------- *)

(* For a fragment that arrived by broadcast - CONFIRM, malformed objects, unknown function code,
   invalid header flags included - from any reachable state on_rx transmits no solicited response.
   (The idle loop may send an UNSOLICITED response, function code 130, e.g. after a broadcast
   ENABLE_UNSOLICITED.) *)
Theorem C07_no_solicited_tx_for_broadcast : forall AP cfg s answers from m bytes d,
  Reach AP cfg s ->
  Forall (fun o => match o with OTx _ b => nth 1 b 0 = 130 | _ => True end)
         (snd (on_rx cfg (upd_answers s answers) from (Some m) bytes d)).
Proof. exact no_solicited_tx_for_broadcast. Qed.
Print Assumptions C07_no_solicited_tx_for_broadcast.

(* a broadcast CONFIRM completes neither a solicited nor an unsolicited confirm wait; the only broadcast
   that ends an unsolicited confirm wait is a DISABLE_UNSOLICITED the outstation processes (repair of
   F30): it cancels the series (UrReturnToIdle, never UrConfirmed), like the unicast one *)
Theorem C07_broadcast_confirms_nothing : forall cfg s from m bytes d,
  (forall se dl, exists oc o, sol_wait_fragment cfg s se dl from (Some m) bytes d = (oc, o) /\
                              forall x, oc <> SoConfirmed x) /\
  (forall resp fid, snd (fst (unsol_wait_fragment cfg s resp from (Some m) bytes d fid)) =
                    match to_treq cfg from d with
                    | TqRequest _ fn obj => if bcast_disable_processed cfg fn obj then Some UrReturnToIdle else None
                    | _ => None
                    end).
Proof. exact broadcast_confirms_nothing. Qed.
Print Assumptions C07_broadcast_confirms_nothing.

(* ---------- non-vacuity (session) ------------------------------------------------------------------- *)

Definition c07_session_cfg : ocfg :=
  {| o_master := 1; o_any_master := false; o_unsol := true; o_broadcast := true;
     o_confirm_ms := 5000; o_select_ms := 5000; o_retries := Some 2%nat; o_retry_delay_ms := 1000;
     o_max_controls := Some 4; o_sol_tx := 249%nat; o_delay_ms := 0; o_cold := None; o_warm := None;
     o_wtime := 0; o_freeze := 0 |}.

(* start-up (null unsolicited, confirmed); then a READ from master 9 (foreign): nothing; the same
   READ from master 1: answered; a broadcast WRITE and a broadcast with invalid header flags: executed
   resp. dropped, never answered; a foreign READ while a solicited confirm is awaited: nothing *)
Example C07_session_instance :
  orun c07_session_cfg (fst (ostart c07_session_cfg 0 0 0 [AEvinfo false false false false]))
    [ (ERx 1 None [208; 0] (DOk 208 0 RvOk (ObjOk [] [])), []);
      (ERx 9 None [193; 1; 60; 1; 6] (DOk 193 1 RvOk (ObjOk [] [true])), [AIin2 0; AWrite true true [7]; AEvinfo false false false false]);
      (ERx 1 (Some BOptional) [194; 2; 80; 1] (DOk 194 2 RvOk (ObjOk [WIin [(7, false)]] [])), []);
      (ERx 1 (Some BMandatory) [195; 2] (DOk 195 2 RvBad (ObjOk [] [])), []);
      (ERx 1 None [193; 1; 60; 1; 6] (DOk 193 1 RvOk (ObjOk [] [true])), [AIin2 0; AWrite true true [7]; AEvinfo false false false false]);
      (ERx 9 None [193; 1; 60; 1; 6] (DOk 193 1 RvOk (ObjOk [] [true])), []) ]
  = [ [OInfo (IUnsolConfirmed 0)];
      [];
      [OInfo (IIdleRequest 2 2); OInfo IClearRestart; OInfo (IBroadcast 2 0 0)];
      [];
      [OInfo (IIdleRequest 1 1); ODb DbSelect; ODb DbWrite; ODb DbEvinfo; OTx 1 [225; 129; 1; 0; 7];
       OInfo (IEnterSolWait 1)];
      [] ].
Proof. vm_compute. reflexivity. Qed.

(* while the null unsolicited response of start-up awaits its confirm: a broadcast CONFIRM confirms
   nothing (the wait goes on); a broadcast DISABLE_UNSOLICITED is processed and cancels the series
   (repair of F30) - the outstation returns to idle and sends the null unsolicited response anew, with
   the next sequence number; neither is answered *)
Example C07_broadcast_in_unsol_wait_instance :
  orun c07_session_cfg (fst (ostart c07_session_cfg 0 0 0 [AEvinfo false false false false]))
    [ (ERx 1 (Some BOptional) [208; 0] (DOk 208 0 RvOk (ObjOk [] [])), []);
      (ERx 1 (Some BOptional) [194; 21] (DOk 194 21 RvOk (ObjOk [] [])), [AEvinfo false false false false]) ]
  = [ [OInfo (IBroadcast 0 3 0)];
      [OInfo (IBroadcast 21 0 0); ODb DbEvinfo; OTx 1 [241; 130; 129; 0]; OInfo (IEnterUnsolWait 1)] ]
  /\ snd (fst (unsol_wait_fragment c07_session_cfg
                 (fst (ostart c07_session_cfg 0 0 0 [AEvinfo false false false false])) (unsol_header 0 0)
                 1 (Some BOptional) [194; 21] (DOk 194 21 RvOk (ObjOk [] [])) 1)) = Some UrReturnToIdle.
Proof. vm_compute. split; reflexivity. Qed.
