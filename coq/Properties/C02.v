(* Properties/C02.v — statements only; every proof is `exact <lemma>`.
   C02 "End to end, the master's picture converges to the outstation's database" — PARTIAL.

   These theorems are about ALL runs of the abstract composition System/Pair.v (any interleaving of
   update transactions, static responses, event responses, confirms and lost connections; any event
   buffer capacity `cap`; any initial database `iv`), whose step rules are the per-layer guarantees
   C06/C08, C09/C10, C11, C03, C15, C17 (see the header of System/Pair.v).  They are NOT about the Rust
   code: threads, TCP, timers and the choice of polls are not modelled; that part of C02 is carried by
   the end-to-end run of the real stack (tools/props/c02.py, /verif/pairtest), whose oracle checks the
   same three clauses on every trace.

   Vocabulary:  run cap iv ls        the state after the labels ls
                db / view            the outstation's current values / the master's last received value
                received             every (point, value) ever handed to the master's handler
                created, discarded   events created; ids reported as discarded by overflow
                queue, delivered     events still buffered; events handed to the handler
                keeps_snapshot l     l is SendEvents, DeliverEvents or Confirm
                quiet l              l is neither an Update nor a DeliverEvents *)
From Dnp3V Require Import System.Pair System.PairProofs.
From Coq Require Import List NArith.
Import ListNotations.
Open Scope N_scope.

(* every value the handler ever received for a point was that point's value after some prefix of the
   run: nothing fabricated, nothing cross-wired between points *)
Theorem C02_nothing_fabricated : forall cap iv ls p v,
  In (p, v) (received (run cap iv ls)) ->
  exists ls1 ls2, ls = ls1 ++ ls2 /\ db (run cap iv ls1) p = v.
Proof. exact nothing_fabricated. Qed.
Print Assumptions C02_nothing_fabricated.

(* the same for the master's current picture *)
Theorem C02_picture_not_fabricated : forall cap iv ls p v,
  view (run cap iv ls) p = Some v ->
  exists ls1 ls2, ls = ls1 ++ ls2 /\ db (run cap iv ls1) p = v.
Proof. exact picture_not_fabricated. Qed.
Print Assumptions C02_picture_not_fabricated.

(* after ANY history ls1: a static response for the points ps is formed, nothing updates the database
   or loses the response until it is delivered (ls2), and afterwards there are no updates and the event
   polls come back empty (ls3) — then the master's last value of every point of ps is the database's *)
Theorem C02_converged_after_quiescence : forall cap iv ls1 ps ls2 ls3,
  forallb keeps_snapshot ls2 = true ->
  forallb quiet ls3 = true ->
  let s := run cap iv (ls1 ++ TakeSnapshot ps :: ls2 ++ DeliverSnapshot :: ls3) in
  forall p, In p ps -> view s p = Some (db s p).
Proof. exact converged_after_quiescence. Qed.
Print Assumptions C02_converged_after_quiescence.

(* an event that was created, not reported as discarded, and is no longer queued has reached the
   handler, with its point and value *)
Theorem C02_undiscarded_events_delivered : forall cap iv ls e,
  let s := run cap iv ls in
  In e (created s) -> ~ In (e_id e) (discarded s) -> ~ In e (queue s) ->
  In e (delivered s) /\ In (e_pt e, e_val e) (received s).
Proof. exact undiscarded_events_delivered. Qed.
Print Assumptions C02_undiscarded_events_delivered.

(* fairness as a hypothesis on the run: it ends with the queue drained *)
Theorem C02_drained_queue_all_delivered : forall cap iv ls,
  let s := run cap iv ls in
  queue s = [] ->
  forall e, In e (created s) -> ~ In (e_id e) (discarded s) ->
  In e (delivered s) /\ In (e_pt e, e_val e) (received s).
Proof. exact drained_queue_all_delivered. Qed.
Print Assumptions C02_drained_queue_all_delivered.

(* the hypotheses are satisfiable: a run with an overflow discard, a lost confirm and a re-delivery that
   ends converged and drained *)
Example C02_demo_hypotheses_hold :
  let ls1 := [Update 1 5 true; Update 2 7 true; Update 1 6 true; SendEvents 2; DeliverEvents; LoseConnection] in
  let ls2 := [SendEvents 2; DeliverEvents; Confirm] in
  let ls3 := [SendEvents 5] in
  forallb keeps_snapshot ls2 = true /\ forallb quiet ls3 = true /\
  demo_run = ls1 ++ TakeSnapshot [1; 2] :: ls2 ++ DeliverSnapshot :: ls3 /\
  queue (run 2 (fun _ => 0) demo_run) = [] /\
  created (run 2 (fun _ => 0) demo_run) = [mkEvent 0 1 5; mkEvent 1 2 7; mkEvent 2 1 6] /\
  discarded (run 2 (fun _ => 0) demo_run) = [0].
Proof. vm_compute. repeat split. Qed.

Example C02_demo_converges :
  let s := run 2 (fun _ => 0) demo_run in
  view s 1 = Some 6 /\ view s 2 = Some 7 /\ db s 1 = 6 /\ queue s = [] /\ discarded s = [0]
  /\ map e_id (delivered s) = [1; 2; 1; 2].
Proof. exact demo_converges. Qed.

(* the hypothesis "event polls come back empty" cannot be dropped in this abstraction *)
Example C02_stale_event_after_snapshot_possible :
  let s := run 5 (fun _ => 0)
             [Update 1 5 true; Update 1 6 false; TakeSnapshot [1]; DeliverSnapshot;
              SendEvents 1; DeliverEvents; Confirm] in
  view s 1 = Some 5 /\ db s 1 = 6 /\ queue s = [].
Proof. exact stale_event_after_snapshot_possible. Qed.
