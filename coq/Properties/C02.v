(* Properties/C02.v — statements only; every proof is `exact <lemma>`.
   C02 "End to end, the master's picture converges to the outstation's database" — PARTIAL.

   These theorems are about ALL runs of the abstract composition System/Pair.v (any interleaving of
   update transactions, static responses, event responses, confirms and lost connections; any event
   buffer capacity `cap`; any initial database `iv`), whose step rules are the per-layer guarantees
   C06/C08, C09/C10, C11, C03, C15, C17 (see the header of System/Pair.v).  They are NOT about the Rust
   code: threads, TCP, timers and the choice of polls are not modelled; that part of C02 is carried by
   the end-to-end run of the real stack (tools/props/c02.py, /verif/pairtest), whose oracle checks the
   same three clauses on every trace.

   THE TIE between the two (second half of this file): every recorded real run is mapped to a label list
   ls and the observations os, fin (tools/props/c02abs.py), and the function `explain` of
   System/PairTrace.v, extracted (engine pairabs), must accept them.  The C02_explained_* theorems say
   what acceptance gives: the facts the oracle judges on the real trace follow from the theorems above
   applied to `run cap iv ls`.  Trusted there: the mapping from trace lines to labels and observations.

   Vocabulary:  run cap iv ls        the state after the labels ls
                db / view            the outstation's current values / the master's last received value
                received             every (point, value) ever handed to the master's handler
                created, discarded   events created; ids reported as discarded by overflow
                queue, delivered     events still buffered; events handed to the handler
                keeps_snapshot l     l is SendEvents, SendSelected, DeliverEvents, Confirm or Overflow
                quiet l              l is neither an Update nor a DeliverEvents
   Labels added for the real runs (generalisations; every theorem is about runs with them too):
                Overflow ids         queued events dropped AND reported (the real buffer has a limit per type)
                SendSelected ids     a response carrying a selection of the queue (a request for one class)
   Second half:
                explain cap iv ls os fin   the abstract run shows at every label what the real trace showed
                                     there (os), and ends with the database and view the real run ended with (fin)
                obs_objs / obs_disc / obs_released   of an observation: the objects the real handler received
                                     (point, admissible value codes) / the ids UpdateInfo reported as discarded /
                                     the ids event_cleared reported
                obj_rel (p, v) (q, adm)    p = q and v is one of adm
                drained_after ls os  some SendEvents with room (n > 0) was observed to carry 0 events and no
                                     Update follows it
                settled_points ls    the points p with ls = ls1 ++ TakeSnapshot ps :: ls2 ++ DeliverSnapshot :: ls3
                                     as in C02_converged_after_quiescence and p in ps *)
From Dnp3V Require Import System.Pair System.PairProofs System.PairTrace System.PairTraceProofs.
From Coq Require Import List NArith.
Import ListNotations.
Open Scope N_scope.

(* every value the handler ever received for a point was that point's value after some prefix of the
   run: nothing fabricated, nothing cross-wired between points *)
Theorem C02_nothing_fabricated : forall cap iv ls p v,
  In (p, v) (received (run cap iv ls)) ->
  exists ls1 ls2, ls = ls1 ++ ls2 /\ db (run cap iv ls1) p = v.
Proof. exact nothing_fabricated. Qed.
Print Assumptions C02_nothing_fabricated.

(* the same for the master's current picture *)
Theorem C02_picture_not_fabricated : forall cap iv ls p v,
  view (run cap iv ls) p = Some v ->
  exists ls1 ls2, ls = ls1 ++ ls2 /\ db (run cap iv ls1) p = v.
Proof. exact picture_not_fabricated. Qed.
Print Assumptions C02_picture_not_fabricated.

(* after ANY history ls1: a static response for the points ps is formed, nothing updates the database
   or loses the response until it is delivered (ls2), and afterwards there are no updates and the event
   polls come back empty (ls3) — then the master's last value of every point of ps is the database's *)
Theorem C02_converged_after_quiescence : forall cap iv ls1 ps ls2 ls3,
  forallb keeps_snapshot ls2 = true ->
  forallb quiet ls3 = true ->
  let s := run cap iv (ls1 ++ TakeSnapshot ps :: ls2 ++ DeliverSnapshot :: ls3) in
  forall p, In p ps -> view s p = Some (db s p).
Proof. exact converged_after_quiescence. Qed.
Print Assumptions C02_converged_after_quiescence.

(* an event that was created, not reported as discarded, and is no longer queued has reached the
   handler, with its point and value *)
Theorem C02_undiscarded_events_delivered : forall cap iv ls e,
  let s := run cap iv ls in
  In e (created s) -> ~ In (e_id e) (discarded s) -> ~ In e (queue s) ->
  In e (delivered s) /\ In (e_pt e, e_val e) (received s).
Proof. exact undiscarded_events_delivered. Qed.
Print Assumptions C02_undiscarded_events_delivered.

(* fairness as a hypothesis on the run: it ends with the queue drained *)
Theorem C02_drained_queue_all_delivered : forall cap iv ls,
  let s := run cap iv ls in
  queue s = [] ->
  forall e, In e (created s) -> ~ In (e_id e) (discarded s) ->
  In e (delivered s) /\ In (e_pt e, e_val e) (received s).
Proof. exact drained_queue_all_delivered. Qed.
Print Assumptions C02_drained_queue_all_delivered.

(* the hypotheses are satisfiable: a run with an overflow discard, a lost confirm and a re-delivery that
   ends converged and drained *)
Example C02_demo_hypotheses_hold :
  let ls1 := [Update 1 5 true; Update 2 7 true; Update 1 6 true; SendEvents 2; DeliverEvents; LoseConnection] in
  let ls2 := [SendEvents 2; DeliverEvents; Confirm] in
  let ls3 := [SendEvents 5] in
  forallb keeps_snapshot ls2 = true /\ forallb quiet ls3 = true /\
  demo_run = ls1 ++ TakeSnapshot [1; 2] :: ls2 ++ DeliverSnapshot :: ls3 /\
  queue (run 2 (fun _ => 0) demo_run) = [] /\
  created (run 2 (fun _ => 0) demo_run) = [mkEvent 0 1 5; mkEvent 1 2 7; mkEvent 2 1 6] /\
  discarded (run 2 (fun _ => 0) demo_run) = [0].
Proof. vm_compute. repeat split. Qed.

Example C02_demo_converges :
  let s := run 2 (fun _ => 0) demo_run in
  view s 1 = Some 6 /\ view s 2 = Some 7 /\ db s 1 = 6 /\ queue s = [] /\ discarded s = [0]
  /\ map e_id (delivered s) = [1; 2; 1; 2].
Proof. exact demo_converges. Qed.

(* the hypothesis "event polls come back empty" cannot be dropped in this abstraction *)
Example C02_stale_event_after_snapshot_possible :
  let s := run 5 (fun _ => 0)
             [Update 1 5 true; Update 1 6 false; TakeSnapshot [1]; DeliverSnapshot;
              SendEvents 1; DeliverEvents; Confirm] in
  view s 1 = Some 5 /\ db s 1 = 6 /\ queue s = [].
Proof. exact stale_event_after_snapshot_possible. Qed.

(* ================================================================================================ *)
(* the tie to the recorded runs of the real stack: what `explain ... = true` gives *)

(* the objects the real handler received are, one for one and in order, `received` of the abstract run *)
Theorem C02_explained_received : forall cap iv ls os fin,
  explain cap iv ls os fin = true ->
  Forall2 obj_rel (received (run cap iv ls)) (flat_map obs_objs os).
Proof. exact explained_received. Qed.
Print Assumptions C02_explained_received.

(* oracle clause "fabricated": every object the real handler received carries a value (one of the
   admissible codes) its point had after some prefix of the explaining run *)
Theorem C02_explained_nothing_fabricated : forall cap iv ls os fin,
  explain cap iv ls os fin = true ->
  forall p adm, In (p, adm) (flat_map obs_objs os) ->
  exists v, In v adm /\ exists ls1 ls2, ls = ls1 ++ ls2 /\ db (run cap iv ls1) p = v.
Proof. exact explained_nothing_fabricated. Qed.
Print Assumptions C02_explained_nothing_fabricated.

(* oracle clause "events|undelivered": once a response with room for an event came back empty and no
   transaction followed, every event a transaction reported as created (UpdateInfo) and no transaction
   reported as discarded reached the real handler, with its point and value *)
Theorem C02_explained_events_reach_handler : forall cap iv ls os fin,
  explain cap iv ls os fin = true ->
  drained_after ls os = true ->
  forall p v i d, In (Update p v true, OUpdate (Some i) d) (combine ls os) ->
  ~ In i (flat_map obs_disc os) ->
  exists adm, In (p, adm) (flat_map obs_objs os) /\ In v adm.
Proof. exact explained_events_reach_handler. Qed.
Print Assumptions C02_explained_events_reach_handler.

(* oracle clause "events|released-undelivered": an event that event_cleared reported had reached the
   real handler, with its point and value *)
Theorem C02_explained_released_were_delivered : forall cap iv ls os fin,
  explain cap iv ls os fin = true ->
  forall i, In i (flat_map obs_released os) ->
  exists e, e_id e = i /\ In e (delivered (run cap iv ls)) /\
    exists adm, In (e_pt e, adm) (flat_map obs_objs os) /\ In (e_val e) adm.
Proof. exact explained_released_were_delivered. Qed.
Print Assumptions C02_explained_released_were_delivered.

(* oracle clause "converged": for a point the explaining run is quiescent for, what Database::get
   returned (adb) and what the real handler received last (aseen) are images of ONE value: the abstract
   database's, which is the abstract view *)
Theorem C02_explained_converged : forall cap iv ls os fin,
  explain cap iv ls os fin = true ->
  forall p adb aseen, In (p, (adb, aseen)) fin -> In p (settled_points ls) ->
  exists v, In v adb /\ In v aseen /\ db (run cap iv ls) p = v /\ view (run cap iv ls) p = Some v.
Proof. exact explained_converged. Qed.
Print Assumptions C02_explained_converged.

(* the hypotheses are satisfiable: the demo run with what a trace of it would show *)
Example C02_demo_explained :
  let os := [OUpdate (Some 0) []; OUpdate (Some 1) []; OUpdate (Some 2) [0];
             OSent 2; OHandler [(2, [7]); (1, [6])]; OSilent;
             OSilent; OSent 2; OHandler [(2, [7]); (1, [6; 9])]; OReleased [1; 2];
             OHandler [(1, [6]); (2, [7])]; OSent 0] in
  let fin := [(1, ([6], [6])); (2, ([7], [7; 8]))] in
  explain 2 (fun _ => 0) demo_run os fin = true /\ drained_after demo_run os = true /\
  all_settled demo_run fin = true.
Proof. vm_compute. repeat split. Qed.

(* a run with the labels the real runs need: an overflow of a per-type limit (the discarded event is not
   the oldest of the queue's other type) and a response for one class *)
Example C02_demo_explained_generalised :
  let ls := [Update 1 5 true; Update 2 7 true; Update 1 6 true; Overflow [0]; SendSelected [2]; DeliverEvents;
             Confirm; TakeSnapshot [1; 2]; SendEvents 1; DeliverEvents; Confirm; DeliverSnapshot; SendEvents 1] in
  let os := [OUpdate (Some 0) []; OUpdate (Some 1) []; OUpdate (Some 2) []; OOverflow [0]; OSent 1;
             OHandler [(1, [6])]; OReleased [2]; OSilent; OSent 1; OHandler [(2, [7])]; OReleased [1];
             OHandler [(1, [6]); (2, [7])]; OSent 0] in
  let fin := [(1, ([6], [6])); (2, ([7], [7]))] in
  explain 10 (fun _ => 0) ls os fin = true /\ drained_after ls os = true /\ all_settled ls fin = true.
Proof. vm_compute. repeat split. Qed.

(* a trace the abstract system cannot produce is rejected: an event released that was never delivered *)
Example C02_demo_not_explained :
  explain 10 (fun _ => 0) [Update 1 5 true; SendEvents 1; Confirm]
          [OUpdate (Some 0) []; OSent 1; OReleased [0]] [] = false.
Proof. vm_compute. reflexivity. Qed.
