(* Properties/C11.v — statements only; every proof is `exact <lemma>`.
   C11 "A READ is answered with a complete, consistent snapshot as an orderly series": the static
   database (Outstation/StaticDb.v).  The series shape on the wire (FIR/FIN/CON, sequence numbers,
   confirm gating) belongs to the session layer.

   `fits_empty`: every single pending object fits an empty fragment of every budget.  Without it the
   statement is false for the code (finding F11: an octet string larger than an empty fragment is
   never written; the series consists of empty non-final fragments). *)
From Dnp3V Require Import Base.Bytes Outstation.DbTypes Outstation.StaticDb Outstation.StaticDbProofs.
From Coq Require Import Sorting.Sorted.
Open Scope N_scope.

Theorem C11_series_exactly_once : forall budgets d,
  sdb_wf d ->
  fits_empty d budgets ->
  (length (sdb_pending d) <= length budgets)%nat ->
  concat (fst (sdb_series d (map (fun b => ([], b)) budgets))) = sdb_pending d.
Proof. exact series_exactly_once. Qed.
Print Assumptions C11_series_exactly_once.

Theorem C11_snapshot : forall steps d,
  sdb_wf d ->
  fits_empty d (map snd steps) ->
  (length (sdb_pending d) <= length steps)%nat ->
  concat (fst (sdb_series d steps)) = sdb_pending d
  /\ (steps <> [] -> sd_queue (snd (sdb_series d steps)) = []).
Proof. exact snapshot. Qed.
Print Assumptions C11_snapshot.

Theorem C11_pending_ascending_existing : forall maps q,
  pmap_sorted (maps (q_type q)) ->
  StronglySorted N.lt (map si_index (qitem_items maps q))
  /\ (forall i, In i (map si_index (qitem_items maps q))
                <-> (exists p, In (i, p) (maps (q_type q))) /\ q_start q <= i /\ i <= q_stop q)
  /\ Forall (fun it => si_type it = q_type q) (qitem_items maps q).
Proof. exact pending_ascending_existing. Qed.
Print Assumptions C11_pending_ascending_existing.

Theorem C11_select_copies_current : forall d t v a b,
  snd (sdb_select_type d t v (Some (a, b))) = 0 ->
  let d' := fst (sdb_select_type d t v (Some (a, b))) in
  sd_queue d' = sd_queue d ++ [mkQ t a b v]
  /\ qitem_items (sd_maps d') (mkQ t a b v)
     = map (fun kp => point_item t v (freeze kp)) (pmap_range (sd_maps d t) a b).
Proof. exact select_copies_current. Qed.
Print Assumptions C11_select_copies_current.

Theorem C11_select_all_objects : forall d t v,
  sdb_wf d -> sd_maps d t <> [] ->
  snd (sdb_select_type d t v None) = 0 ->
  let d' := fst (sdb_select_type d t v None) in
  exists a b, sd_queue d' = sd_queue d ++ [mkQ t a b v]
              /\ qitem_items (sd_maps d') (mkQ t a b v)
                 = map (fun kp => point_item t v (freeze kp)) (sd_maps d t).
Proof. exact select_all_objects. Qed.
Print Assumptions C11_select_all_objects.

Theorem C11_select_class0_all_points : forall d,
  sdb_wf d -> sd_queue d = [] -> 8 <= sd_cap d ->
  snd (sdb_select d SelClass0) = 0
  /\ sdb_pending (fst (sdb_select d SelClass0)) = concat (map (class0_items d) all_ptypes).
Proof. exact select_class0_all_points. Qed.
Print Assumptions C11_select_class0_all_points.

Theorem C11_write_splits_pending : forall d budget,
  sdb_wf d ->
  let d' := fst (sdb_write_hdrs d budget) in
  let out := fst (fst (snd (sdb_write_hdrs d budget))) in
  let complete := snd (snd (sdb_write_hdrs d budget)) in
  shdrs_items out ++ sdb_pending d' = sdb_pending d
  /\ sd_maps d' = sd_maps d
  /\ (complete = true -> sd_queue d' = [])
  /\ (complete = false -> sdb_pending d' <> []).
Proof. exact write_splits_pending. Qed.
Print Assumptions C11_write_splits_pending.

Theorem C11_write_progress : forall d budget x rest,
  sdb_pending d = x :: rest -> item_fits budget x ->
  exists W', shdrs_items (fst (fst (snd (sdb_write_hdrs d budget)))) = x :: W'.
Proof. exact write_progress. Qed.
Print Assumptions C11_write_progress.

Theorem C11_wf_reachable : forall ms c0 ops, sdb_wf (fold_left sdb_step ops (sdb_new ms c0)).
Proof. exact wf_reachable. Qed.
Print Assumptions C11_wf_reachable.

(* ---- the hypotheses are satisfiable: a two-fragment series with an update in between ---- *)

Definition ex_pc : pconfig := mkPc (Some Class1) G1V2 G2V1 0.
Definition ex_db : sdb :=
  fold_left sdb_step
    [SAdd TBinary 4 ex_pc; SAdd TBinary 2 ex_pc; SAdd TBinary 3 ex_pc;
     SUpdate (mkUpd TBinary 3 (mkMeas 1 1 None []) true Suppress);
     SSelect (SelType TBinary None None)]
    (sdb_new None (fun _ => true)).

Definition ex_steps : list (list supd * N) :=
  [([], 9);                                                          (* header + 2 objects *)
   ([mkUpd TBinary 4 (mkMeas 1 1 None []) true Suppress], 9);        (* update of a point still pending *)
   ([], 9)].

Example C11_ex_hypotheses :
  sdb_wf ex_db /\ fits_empty ex_db (map snd ex_steps)
  /\ (length (sdb_pending ex_db) <= length ex_steps)%nat.
Proof.
  split; [apply wf_reachable|]. split; [|vm_compute; lia].
  unfold fits_empty, item_fits. vm_compute. repeat constructor; discriminate.
Qed.

(* fragments: points 2 and 3, then point 4 with the value it had at selection time (restart, off),
   although it was switched on before the second fragment *)
Example C11_ex_two_fragments :
  map (map (fun it => (si_index it, si_body it))) (fst (sdb_series ex_db ex_steps))
  = [[(2, SFixed [2]); (3, SFixed [129])]; [(4, SFixed [2])]; []].
Proof. vm_compute. reflexivity. Qed.

Example C11_ex_bytes :
  fst (snd (sdb_write ex_db 9)) = [1; 2; 1; 2; 0; 3; 0; 2; 129].
Proof. vm_compute. reflexivity. Qed.
