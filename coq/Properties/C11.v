(* Properties/C11.v — statements only; every proof is `exact <lemma>`.
   C11 "A READ is answered with a complete, consistent snapshot as an orderly series": the static
   database (Outstation/StaticDb.v).  The series shape on the wire (FIR/FIN/CON, sequence numbers,
   confirm gating) belongs to the session layer.

   `fits_empty`: every single pending object fits an empty fragment of every budget.  Without it the
   statement is false for the code (finding F11: an octet string larger than an empty fragment is
   never written; the series consists of empty non-final fragments). *)
From Dnp3V Require Import Base.Bytes Outstation.DbTypes Outstation.StaticDb Outstation.StaticDbProofs.
From Coq Require Import Sorting.Sorted.
(* the session level: the response series on the wire (Outstation/SessionC11Proofs.v), and its
   composition with the database model (Outstation/Full.v) *)
From Dnp3V Require Import Outstation.Database Outstation.Session Outstation.Full.
From Dnp3V Require Import Outstation.SessionLemmas_c11 Outstation.SessionC11Proofs.
Open Scope N_scope.

Theorem C11_series_exactly_once : forall budgets d,
  sdb_wf d ->
  fits_empty d budgets ->
  (length (sdb_pending d) <= length budgets)%nat ->
  concat (fst (sdb_series d (map (fun b => ([], b)) budgets))) = sdb_pending d.
Proof. exact series_exactly_once. Qed.
Print Assumptions C11_series_exactly_once.

Theorem C11_snapshot : forall steps d,
  sdb_wf d ->
  fits_empty d (map snd steps) ->
  (length (sdb_pending d) <= length steps)%nat ->
  concat (fst (sdb_series d steps)) = sdb_pending d
  /\ (steps <> [] -> sd_queue (snd (sdb_series d steps)) = []).
Proof. exact snapshot. Qed.
Print Assumptions C11_snapshot.

Theorem C11_pending_ascending_existing : forall maps q,
  pmap_sorted (maps (q_type q)) ->
  StronglySorted N.lt (map si_index (qitem_items maps q))
  /\ (forall i, In i (map si_index (qitem_items maps q))
                <-> (exists p, In (i, p) (maps (q_type q))) /\ q_start q <= i /\ i <= q_stop q)
  /\ Forall (fun it => si_type it = q_type q) (qitem_items maps q).
Proof. exact pending_ascending_existing. Qed.
Print Assumptions C11_pending_ascending_existing.

Theorem C11_select_copies_current : forall d t v a b,
  snd (sdb_select_type d t v (Some (a, b))) = 0 ->
  let d' := fst (sdb_select_type d t v (Some (a, b))) in
  sd_queue d' = sd_queue d ++ [mkQ t a b v]
  /\ qitem_items (sd_maps d') (mkQ t a b v)
     = map (fun kp => point_item t v (freeze kp)) (pmap_range (sd_maps d t) a b).
Proof. exact select_copies_current. Qed.
Print Assumptions C11_select_copies_current.

Theorem C11_select_all_objects : forall d t v,
  sdb_wf d -> sd_maps d t <> [] ->
  snd (sdb_select_type d t v None) = 0 ->
  let d' := fst (sdb_select_type d t v None) in
  exists a b, sd_queue d' = sd_queue d ++ [mkQ t a b v]
              /\ qitem_items (sd_maps d') (mkQ t a b v)
                 = map (fun kp => point_item t v (freeze kp)) (sd_maps d t).
Proof. exact select_all_objects. Qed.
Print Assumptions C11_select_all_objects.

Theorem C11_select_class0_all_points : forall d,
  sdb_wf d -> sd_queue d = [] -> 8 <= sd_cap d ->
  snd (sdb_select d SelClass0) = 0
  /\ sdb_pending (fst (sdb_select d SelClass0)) = concat (map (class0_items d) all_ptypes).
Proof. exact select_class0_all_points. Qed.
Print Assumptions C11_select_class0_all_points.

Theorem C11_write_splits_pending : forall d budget,
  sdb_wf d ->
  let d' := fst (sdb_write_hdrs d budget) in
  let out := fst (fst (snd (sdb_write_hdrs d budget))) in
  let complete := snd (snd (sdb_write_hdrs d budget)) in
  shdrs_items out ++ sdb_pending d' = sdb_pending d
  /\ sd_maps d' = sd_maps d
  /\ (complete = true -> sd_queue d' = [])
  /\ (complete = false -> sdb_pending d' <> []).
Proof. exact write_splits_pending. Qed.
Print Assumptions C11_write_splits_pending.

Theorem C11_write_progress : forall d budget x rest,
  sdb_pending d = x :: rest -> item_fits budget x ->
  exists W', shdrs_items (fst (fst (snd (sdb_write_hdrs d budget)))) = x :: W'.
Proof. exact write_progress. Qed.
Print Assumptions C11_write_progress.

Theorem C11_wf_reachable : forall ms c0 ops, sdb_wf (fold_left sdb_step ops (sdb_new ms c0)).
Proof. exact wf_reachable. Qed.
Print Assumptions C11_wf_reachable.

(* ---- session level: the response series (model: Outstation/Session.v; every configuration, every
   history of events, every answer of the environment).  `ev_cons`: the digest of a received fragment
   carries the function code found in its bytes - the only hypothesis on events. ---- *)

(* the first fragment of the response to a READ taken from idle: FIR, the request's sequence number,
   RESPONSE, no UNS; FIN iff the database answered `complete`; CON iff not FIN, or events, or a
   confirm-mandatory broadcast to report; the solicited confirm wait is entered exactly when CON is set,
   for that sequence number, with the deadline o_confirm_ms from now *)
Theorem C11_first_fragment : forall cfg s from bytes d fid ctl hdrs rh v complete has_events body c1 c2 c3 ovf rest s' o,
  to_treq cfg from d = TqRequest ctl fn_read (ObjOk hdrs rh) ->
  s_answers s = AIin2 v :: AWrite complete has_events body :: AEvinfo c1 c2 c3 ovf :: rest ->
  handle_from_idle cfg s from None bytes d fid = (s', o) ->
  let seq := ctl_seq ctl in
  let con := has_events || negb complete || mandatory s in
  exists iin1 iin2,
    o = [OInfo (IIdleRequest fn_read seq); ODb DbSelect; ODb DbWrite; ODb DbEvinfo;
         OTx from ([ctl_byte true complete con false seq; 129; iin1; iin2] ++ body)]
        ++ (if con then [OInfo (IEnterSolWait seq)] else []) /\
    s_control s' = (if con then CSolWait {| se_ecsn := seq; se_fin := complete |} (s_now s + o_confirm_ms cfg) RStep2
                    else s_control s).
Proof. exact first_fragment. Qed.
Print Assumptions C11_first_fragment.

(* the same for a READ deferred during an unsolicited confirm wait *)
Theorem C11_first_fragment_deferred : forall cfg s ns df v complete has_events body c1 c2 c3 ovf rest s' o,
  s_deferred s = Some df -> df_seq df < 16 ->
  s_answers s = AIin2 v :: AWrite complete has_events body :: AEvinfo c1 c2 c3 ovf :: rest ->
  handle_deferred cfg s ns = (s', o) ->
  let seq := df_seq df in
  let con := has_events || negb complete || mandatory s in
  exists iin1 iin2,
    o = [ODb DbDeferredSelect; ODb DbWrite; ODb DbEvinfo;
         OTx (df_from df) ([ctl_byte true complete con false seq; 129; iin1; iin2] ++ body)]
        ++ (if con then [OInfo (IEnterSolWait seq)] else []) /\
    s_control s' = (if con then CSolWait {| se_ecsn := seq; se_fin := complete |} (s_now s + o_confirm_ms cfg) (RStep4 ns)
                    else s_control s).
Proof. exact first_fragment_deferred. Qed.
Print Assumptions C11_first_fragment_deferred.

(* the expected confirm of a non-final fragment is answered at once with the next fragment: no FIR,
   sequence number + 1 mod 16, FIN / CON from the database's verdict, a new wait with its own deadline *)
Theorem C11_next_fragment_after_confirm :
  forall cfg s from bytes d ctl obj se dl r complete has_events body c1 c2 c3 ovf rest s' o,
  s_control s = CSolWait se dl r -> se_fin se = false ->
  to_treq cfg from d = TqRequest ctl fn_confirm obj -> ctl_uns ctl = false -> ctl_seq ctl = se_ecsn se ->
  s_answers s = AWrite complete has_events body :: AEvinfo c1 c2 c3 ovf :: rest ->
  on_rx cfg s from None bytes d = (s', o) ->
  let q := seq16_next (se_ecsn se) in
  let con := has_events || negb complete in
  exists iin1 iin2 tail,
    o = [OInfo (ISolConfirmed (se_ecsn se)); ODb DbClearWritten; ODb DbWrite; ODb DbEvinfo;
         OTx from ([ctl_byte false complete con false q; 129; iin1; iin2] ++ body)] ++ tail /\
    (con = true -> tail = [] /\
       s_control s' = CSolWait {| se_ecsn := q; se_fin := complete |} (s_now s + o_confirm_ms cfg) r).
Proof. exact next_fragment_after_confirm. Qed.
Print Assumptions C11_next_fragment_after_confirm.

(* in the solicited confirm wait a fragment without FIR goes out only for the expected confirm (the next
   fragment, to the confirming master) or for a repeat of the READ (the awaited fragment again); G s:
   the invariants of reachable states (C11_reach_invariants) *)
Theorem C11_next_fragment_only_after_confirm : forall cfg s ev ans s' o se dl r dest b,
  G s -> ev_cons ev -> s_control s = CSolWait se dl r ->
  ostep cfg s ev ans = (s', o) -> ~ In OOutOfFuel o ->
  In (OTx dest b) o -> nth 1 b 0 = 129 -> c_fir (nth 0 b 0) = false ->
  exists from bc bytes d, ev = ERx from bc bytes d /\
    ((confirm_of cfg ev = Some (se_ecsn se, dest) /\ se_fin se = false /\
      ctl_seq (nth 0 b 0) = seq16_next (se_ecsn se) /\ tx_bits_ok (nth 0 b 0) = true)
     \/
     (exists ctl fn obj hdrs rh l r0,
        to_treq cfg from d = TqRequest ctl fn obj /\
        classify s bc bytes ctl fn obj = FtRepeatRead (Some r0) hdrs rh /\
        s_last s = Some l /\ lr_response l = Some r0 /\ ctl_seq (r_ctl r0) = se_ecsn se /\
        dest = from /\ b = response_bytes r0 (s_sol_buf s))).
Proof. exact next_fragment_only_after_confirm. Qed.
Print Assumptions C11_next_fragment_only_after_confirm.

(* outside the solicited confirm wait every solicited response transmitted has FIR *)
Theorem C11_fir_outside_series : forall cfg s ev ans s' o,
  G s -> nwait s -> ev_cons ev -> ostep cfg s ev ans = (s', o) -> ~ In OOutOfFuel o ->
  Forall sol_tx_fir o.
Proof. exact fir_outside_series. Qed.
Print Assumptions C11_fir_outside_series.

(* every history is accepted by the series monitor (SessionLemmas_c11.mon, read with the comment of
   SessionC11Proofs.series_orderly), which is in phase POpen exactly while the session waits for a
   solicited confirm *)
Theorem C11_series_orderly : forall cfg s tr,
  Trace cfg s tr ->
  series_run cfg m0 tr = Dead \/ exists m, series_run cfg m0 tr = Live m /\ GoodB s m.
Proof. exact series_orderly. Qed.
Print Assumptions C11_series_orderly.

Theorem C11_series_orderly_run : forall cfg sel op iin a evs,
  Forall (fun p => ev_cons (fst p)) evs ->
  series_run cfg m0 (snd (trace_of cfg sel op iin a evs)) <> Bad.
Proof. exact series_orderly_run. Qed.
Print Assumptions C11_series_orderly_run.

Theorem C11_reach_invariants : forall cfg s tr,
  Trace cfg s tr -> series_run cfg m0 tr <> Dead -> G s.
Proof. exact reach_invariants. Qed.
Print Assumptions C11_reach_invariants.

(* the confirm timeout is per fragment: the deadline of the wait is o_confirm_ms after the last
   transmission of the awaited fragment (the monitor computes it from the history alone) ... *)
Theorem C11_deadline_is_per_fragment : forall cfg s tr m se dl r,
  Trace cfg s tr -> series_run cfg m0 tr = Live m -> s_control s = CSolWait se dl r ->
  m_ph m = POpen (se_ecsn se) (se_fin se) dl.
Proof. exact deadline_is_per_fragment. Qed.
Print Assumptions C11_deadline_is_per_fragment.

(* ... nothing happens before it, and at it the wait ends: the rest of the series is never sent *)
Theorem C11_sol_timeout_at_deadline : forall cfg f s target s' o se dl r,
  advance (S f) cfg s target = (s', o) -> s_control s = CSolWait se dl r ->
  ((target < dl)%Z -> o = [] /\ s' = upd_now s target) /\
  ((dl <= target)%Z -> exists o',
     o = OAt (Z.max dl (s_now s)) :: OInfo (ISolTimeout (se_ecsn se)) :: ODb DbReset :: o').
Proof. exact sol_timeout_at_deadline. Qed.
Print Assumptions C11_sol_timeout_at_deadline.

Theorem C11_wait_deadline_on_rx : forall cfg s from bc bytes d se dl dl' o,
  sol_wait_fragment cfg s se dl from bc bytes d = (SoStay dl', o) ->
  (dl' = dl /\ forall dest b, ~ In (OTx dest b) o) \/ dl' = (s_now s + o_confirm_ms cfg)%Z.
Proof. exact wait_deadline_on_rx. Qed.
Print Assumptions C11_wait_deadline_on_rx.

(* composed with the database model: the next fragment carries exactly what db_write_response produces
   from the database as the confirm finds it, after clear_written_events - nothing is selected again *)
Theorem C11_fevent_next_fragment : forall F st d from bytes dg ctl obj se dl r,
  s_control (fs_s st) = CSolWait se dl r -> se_fin se = false ->
  to_treq (f_o F) from dg = TqRequest ctl fn_confirm obj -> ctl_uns ctl = false -> ctl_seq ctl = se_ecsn se ->
  let ro := fevent_out F st d (ERx from None bytes dg) in
  ~ In FReplayError (ro_log ro) ->
  let w := db_write_response (fst (db_clear_written d)) (N.of_nat (o_sol_tx (f_o F)) - 4) in
  let body := fst (fst (snd w)) in
  let has_events := snd (fst (snd w)) in
  let complete := snd (snd w) in
  exists iin1 iin2 tail more,
    ro_answers ro = AWrite complete has_events body :: evinfo_answer_of (fst w) :: more /\
    ro_out ro = [OInfo (ISolConfirmed (se_ecsn se)); ODb DbClearWritten; ODb DbWrite; ODb DbEvinfo;
                 OTx from ([ctl_byte false complete (has_events || negb complete) false (seq16_next (se_ecsn se));
                            129; iin1; iin2] ++ body)] ++ tail.
Proof. exact fevent_next_fragment. Qed.
Print Assumptions C11_fevent_next_fragment.

(* ---- the hypotheses are satisfiable: a two-fragment series with an update in between ---- *)

Definition ex_pc : pconfig := mkPc (Some Class1) G1V2 G2V1 0.
Definition ex_db : sdb :=
  fold_left sdb_step
    [SAdd TBinary 4 ex_pc; SAdd TBinary 2 ex_pc; SAdd TBinary 3 ex_pc;
     SUpdate (mkUpd TBinary 3 (mkMeas 1 1 None []) true Suppress);
     SSelect (SelType TBinary None None)]
    (sdb_new None (fun _ => true)).

Definition ex_steps : list (list supd * N) :=
  [([], 9);                                                          (* header + 2 objects *)
   ([mkUpd TBinary 4 (mkMeas 1 1 None []) true Suppress], 9);        (* update of a point still pending *)
   ([], 9)].

Example C11_ex_hypotheses :
  sdb_wf ex_db /\ fits_empty ex_db (map snd ex_steps)
  /\ (length (sdb_pending ex_db) <= length ex_steps)%nat.
Proof.
  split; [apply wf_reachable|]. split; [|vm_compute; lia].
  unfold fits_empty, item_fits. vm_compute. repeat constructor; discriminate.
Qed.

(* fragments: points 2 and 3, then point 4 with the value it had at selection time (restart, off),
   although it was switched on before the second fragment *)
Example C11_ex_two_fragments :
  map (map (fun it => (si_index it, si_body it))) (fst (sdb_series ex_db ex_steps))
  = [[(2, SFixed [2]); (3, SFixed [129])]; [(4, SFixed [2])]; []].
Proof. vm_compute. reflexivity. Qed.

Example C11_ex_bytes :
  fst (snd (sdb_write ex_db 9)) = [1; 2; 1; 2; 0; 3; 0; 2; 129].
Proof. vm_compute. reflexivity. Qed.

(* ---- session level: a history with three series (three fragments and a repeated READ; a confirm
   that never comes; a wrong confirm and a new request) is a Trace and the monitor accepts it ---- *)
Example C11_ex_series :
  Forall (fun p => ev_cons (fst p)) ex_hist /\
  Trace ex_cfg (fst (trace_of ex_cfg 0 0 0 [] ex_hist)) ex_trace /\
  series_run ex_cfg m0 ex_trace = Live {| m_ph := PSent 202; m_cur := None; m_clock := 6009 |} /\
  concat (map tx_of ex_trace) =
  [ (1, 161, 129, [1; 2; 0; 0; 1; 129; 129]); (1, 34, 129, [30; 2; 0; 5; 5; 1; 7; 0]);
    (1, 34, 129, [30; 2; 0; 5; 5; 1; 7; 0]); (1, 67, 129, [10; 2; 0; 0; 0; 1]);
    (1, 164, 129, [1; 2; 0; 0; 0; 129]); (1, 37, 129, [1; 2; 0; 1; 1; 129]);
    (1, 169, 129, [2; 1; 23; 1; 0; 129]); (1, 202, 129, []) ].
Proof.
  split; [exact ex_hist_cons|]. split; [apply trace_of_Trace; exact ex_hist_cons|].
  split; vm_compute; reflexivity.
Qed.

(* ---- which header of a READ request is a read header, and the defaults of the database: the code's tables
   (gen/SessionTables.v, regenerated from outstation/database/{read,config,mod}.rs, outstation/config.rs and
   app/gen/{all,count,ranged}.rs on every run; interpretation: Outstation/TablesAgree.v) ------------------------- *)
From Dnp3V Require Import App.Grammar App.GrammarProofs Outstation.EventBuffer gen.SessionTables Outstation.TablesAgree.

(* ReadHeader::get: for every object header the model's parser can produce (awf_header; groups and variations are
   bytes), hdr_is_read of Full.v is what the arm of ReadHeader::from_all_objects / from_count / from_range says for
   the variant the parser's `match v` produces for that function code *)
Theorem C11_tables_read_header : forall o fc h, awf_header o fc h -> oh_g h < 256 -> oh_v h < 256 ->
  hdr_is_read h = ta_hdr_is_read fc h.
Proof. exact tables_read_header. Qed.
Print Assumptions C11_tables_read_header.

Theorem C11_tables_read_rows_are_qualifier_rows :
  map (fun r => (fst (fst r), ta_vpat (snd (fst r)))) tb_read_all = map fst qt_all /\
  map (fun r => (fst (fst r), ta_vpat (snd (fst r)))) tb_read_count = map fst qt_count /\
  map (fun r => (fst (fst r), ta_vpat (snd (fst r)))) tb_read_range_read = map fst qt_range_read /\
  map (fun r => (fst (fst r), ta_vpat (snd (fst r)))) tb_read_range_non_read = map fst qt_range.
Proof. exact tables_read_rows_are_qualifier_rows. Qed.
Print Assumptions C11_tables_read_rows_are_qualifier_rows.

(* `impl Default for <Point>Config` *)
Theorem C11_tables_default_pconfig : forall k,
  map (fun t => ta_pconfig_row (default_pconfig t k)) [TBinary; TDoubleBit; TBos; TCounter; TFrozen; TAnalog; TAos]
  = [tb_default_binary_input_config; tb_default_double_bit_binary_input_config; tb_default_binary_output_status_config;
     tb_default_counter_config; tb_default_frozen_counter_config; tb_default_analog_input_config;
     tb_default_analog_output_status_config]
  /\ forall t, pc_class (default_pconfig t k) = k.
Proof. exact tables_default_pconfig. Qed.
Print Assumptions C11_tables_default_pconfig.

(* ClassZeroConfig::default() *)
Theorem C11_tables_class_zero_default :
  map class_zero_default [TBinary; TDoubleBit; TBos; TCounter; TFrozen; TAnalog; TAos; TOctet] = tb_class_zero_default.
Proof. exact tables_class_zero_default. Qed.
Print Assumptions C11_tables_class_zero_default.

(* DatabaseHandle::new with OutstationConfig::new's defaults and EventBufferConfig::all_types *)
Theorem C11_tables_fdb_new : forall F,
  fdb_new F = db_new tb_default_max_read_request_headers class_zero_default
                (mkEbCfg (f_evbuf F) (f_evbuf F) (f_evbuf F) (f_evbuf F) (f_evbuf F) (f_evbuf F) (f_evbuf F) (f_evbuf F))
  /\ (let c := eb_cfg (db_events (fdb_new F)) in
      [max_bi c; max_dbi c; max_bos c; max_ctr c; max_fctr c; max_ai c; max_aos c; max_oct c]
      = map (fun a => nth (N.to_nat a) [f_evbuf F] 0) tb_event_buffer_all_types).
Proof. exact tables_fdb_new. Qed.
Print Assumptions C11_tables_fdb_new.

(* the capacity of the selection queue and of the deferred read *)
Theorem C11_tables_read_capacities :
  DEFAULT_MAX_READ_REQUEST_HEADERS = tb_const_default_max_read_request_headers /\
  (forall F, sd_cap (db_static (fdb_new F)) = tb_const_default_max_read_request_headers) /\
  deferred_capacity = N.to_nat (match tb_default_max_read_request_headers with
                                | Some x => x | None => tb_const_default_max_read_request_headers end).
Proof. exact tables_read_capacities. Qed.
Print Assumptions C11_tables_read_capacities.

Theorem C11_tables_unset_config_defaults :
  nth 0 tb_features_default true = false /\ tb_default_max_read_request_headers = None.
Proof. exact tables_unset_config_defaults. Qed.
Print Assumptions C11_tables_unset_config_defaults.

(* the hypotheses are satisfiable: a class poll, a g1v2 range and a g80 range (not a read header) of a READ request *)
Example C11_tables_instances :
  ta_hdr_is_read 1 {| oh_g := 60; oh_v := 2; oh_details := HAll; oh_payload := PyNone |} = true /\
  ta_hdr_is_read 1 {| oh_g := 1; oh_v := 2; oh_details := HRange8 0 3; oh_payload := PyNone |} = true /\
  ta_hdr_is_read 1 {| oh_g := 80; oh_v := 1; oh_details := HRange8 0 3; oh_payload := PyNone |} = false /\
  ta_hdr_is_read 2 {| oh_g := 12; oh_v := 1; oh_details := HPrefix8 1; oh_payload := PyNone |} = false /\
  awf_header {| ao_zero_length_strings := false |} 1 {| oh_g := 60; oh_v := 2; oh_details := HAll; oh_payload := PyNone |} /\
  (length tb_read_all, length tb_read_count, length tb_read_range_read, length tb_read_range_non_read)
  = (length qt_all, length qt_count, length qt_range_read, length qt_range).
Proof.
  repeat split; try (vm_compute; reflexivity).
  cbn [oh_g oh_v oh_details]. vm_compute. discriminate.
Qed.
