(* Properties/C06.v — statements only; every proof is `exact <lemma>`. *)
From Dnp3V Require Import Link.Reader Link.CrcProofs Link.ParserProofs Link.ReaderProofs.
Open Scope N_scope.

(* every error pattern of 1..3 flipped bits in a block (1..16 data bytes followed by the CRC the
   code computes for them) makes the receiver's block check fail *)
Theorem C06_crc_detects_le3 : forall data ps,
  (1 <= length data <= 16)%nat -> bytes_ok data ->
  NoDup ps -> (1 <= length ps <= 3)%nat ->
  Forall (fun p => (p < 8 * (length data + 2))%nat) ps ->
  block_ok (flip ps (data ++ crc_le data)) = false.
Proof. exact crc_detects_le3. Qed.
Print Assumptions C06_crc_detects_le3.

(* the same for the ten header bytes (05 64 + six fields + CRC) *)
Theorem C06_header_crc_detects_le3 : forall fields ps,
  length fields = 6%nat -> bytes_ok fields ->
  NoDup ps -> (1 <= length ps <= 3)%nat -> Forall (fun p => (p < 80)%nat) ps ->
  block_ok (flip ps ((5 :: 100 :: fields) ++ crc_le (5 :: 100 :: fields))) = false.
Proof. exact header_crc_detects_le3. Qed.
Print Assumptions C06_header_crc_detects_le3.

(* the seed constant used by the frame formatter is the CRC register after 05 64 *)
Theorem C06_crc_0564_seed : forall bs, calc_crc_with_0564 bs = calc_crc (5 :: 100 :: bs).
Proof. exact calc_crc_with_0564_eq. Qed.
Print Assumptions C06_crc_0564_seed.

(* any frame the library formats (payload 0..250, any control byte, any addresses) is parsed back
   to exactly its control field, addresses and payload, consuming exactly the frame *)
Theorem C06_frame_round_trip : forall ctrl dest src payload rest,
  header_ok ctrl dest src -> bytes_ok payload -> (length payload <= 250)%nat ->
  parse_impl FindSync1 (format_frame (mk_header ctrl dest src) payload ++ rest)
  = (FindSync1, rest, PFrame (mk_header ctrl dest src) payload).
Proof. exact frame_round_trip. Qed.
Print Assumptions C06_frame_round_trip.

(* non-vacuity: a concrete frame (RESET_LINK of the repository's test data) *)
Example C06_round_trip_instance :
  format_frame (mk_header 192 1 1024) [] = [5; 100; 5; 192; 1; 0; 0; 4; 233; 33] /\
  header_ok 192 1 1024.
Proof. split; [vm_compute; reflexivity|unfold header_ok; lia]. Qed.

(* ================= incrementality of the parser (Link/ParserIncr.v) ========================== *)
From Dnp3V Require Import Link.ParserIncr.

(* more input never changes a decision already taken; an undecided parse continues exactly where
   it stopped *)
Theorem C06_parse_impl_extends : forall st a b,
  let '(st1, r1, res) := parse_impl st a in
  if match res with PNeedMore => true | _ => false end
  then parse_impl st (a ++ b) = parse_impl st1 (r1 ++ b)
  else parse_impl st (a ++ b) = (st1, r1 ++ b, res).
Proof. exact parse_impl_extends. Qed.
Print Assumptions C06_parse_impl_extends.

(* re-running an undecided parse on its leftover without new bytes changes nothing *)
Theorem C06_parse_impl_needmore_idem : forall st a st1 r1,
  parse_impl st a = (st1, r1, PNeedMore) -> parse_impl st1 r1 = (st1, r1, PNeedMore).
Proof. exact parse_impl_needmore_idem. Qed.
Print Assumptions C06_parse_impl_needmore_idem.

(* the leftover is a suffix of the input; a frame resets the state; a decision consumes at least
   one byte unless the parser was started in ReadBody with an empty trailer (st_ok excludes only
   ReadBody _ 0, a state in which the parser never stops) *)
Theorem C06_parse_impl_consumes : forall st a,
  let '(st1, r1, res) := parse_impl st a in
  (exists p, a = p ++ r1) /\
  match res with
  | PNeedMore => st_ok st1
  | PFrame _ _ => st1 = FindSync1 /\ (st_ok st -> (length r1 < length a)%nat)
  | PErr _ => st_ok st -> (length r1 < length a)%nat
  end.
Proof. exact parse_impl_consumes. Qed.
Print Assumptions C06_parse_impl_consumes.

(* ================= Discard mode is the ideal scanner ============================================ *)

(* `scan` (Link/ParserIncr.v) tries the aligned parser at every offset in order, drops one byte on
   an error, keeps an incomplete candidate whole; the loop of Parser::parse is that scanner for
   every fuel above the length, so the fuel S (length cur) never runs out *)
Theorem C06_parse_discard_is_scan : forall fuel cur, (length cur < fuel)%nat ->
  parse_discard fuel cur = scan cur.
Proof. exact parse_discard_is_scan. Qed.
Print Assumptions C06_parse_discard_is_scan.

Theorem C06_parse_discard_fuel_sufficient : forall fuel cur, (length cur < fuel)%nat ->
  parse_discard fuel cur = parse_discard (S (length cur)) cur.
Proof. exact parse_discard_fuel_sufficient. Qed.
Print Assumptions C06_parse_discard_fuel_sufficient.

(* characterisation without reference to scan: the state is ignored, the answer is the aligned
   parse at the first offset i that is not an error; an incomplete candidate stays in the buffer *)
Theorem C06_parse_discard_spec : forall st cur, exists i, (i <= length cur)%nat /\
  (forall j, (j < i)%nat -> exists st' r e, parse_impl FindSync1 (skipn j cur) = (st', r, PErr e)) /\
  match parse Discard st cur with
  | (st1, r1, PNeedMore) =>
      st1 = FindSync1 /\ r1 = skipn i cur /\
      exists st' r', parse_impl FindSync1 (skipn i cur) = (st', r', PNeedMore)
  | (st1, r1, PFrame h p) => st1 = FindSync1 /\ parse_impl FindSync1 (skipn i cur) = (st1, r1, PFrame h p)
  | (_, _, PErr _) => False
  end.
Proof. exact parse_discard_spec. Qed.
Print Assumptions C06_parse_discard_spec.

Theorem C06_discard_extends : forall s1 s2 s3 a b,
  let '(st1, r1, res) := parse Discard s1 a in
  if match res with PNeedMore => true | _ => false end
  then parse Discard s2 (a ++ b) = parse Discard s3 (r1 ++ b)
  else parse Discard s2 (a ++ b) = (st1, r1 ++ b, res).
Proof. exact discard_extends. Qed.
Print Assumptions C06_discard_extends.

(* a valid frame that follows line noise is found *)
Theorem C06_discard_resync : forall ctrl dest src payload noise rest st,
  header_ok ctrl dest src -> bytes_ok payload -> (length payload <= 250)%nat ->
  (forall i, (i < length noise)%nat ->
     exists st' r e, parse_impl FindSync1 (skipn i noise ++ format_frame (mk_header ctrl dest src) payload ++ rest)
                     = (st', r, PErr e)) ->
  parse Discard st (noise ++ format_frame (mk_header ctrl dest src) payload ++ rest)
  = (FindSync1, rest, PFrame (mk_header ctrl dest src) payload).
Proof. exact discard_resync. Qed.
Print Assumptions C06_discard_resync.

(* non-vacuity of the noise hypothesis: any noise without the byte 05 satisfies it *)
Theorem C06_discard_resync_no_start : forall ctrl dest src payload noise rest st,
  header_ok ctrl dest src -> bytes_ok payload -> (length payload <= 250)%nat ->
  Forall (fun x => x <> 5) noise ->
  parse Discard st (noise ++ format_frame (mk_header ctrl dest src) payload ++ rest)
  = (FindSync1, rest, PFrame (mk_header ctrl dest src) payload).
Proof. exact discard_resync_no_start. Qed.
Print Assumptions C06_discard_resync_no_start.

(* ... and noise that does contain start bytes (05 64 followed by a short length byte) *)
Example C06_discard_resync_instance :
  parse Discard ReadHeader ([5; 100; 1; 7] ++ format_frame (mk_header 192 1 1024) [] ++ [9])
  = (FindSync1, [9], PFrame (mk_header 192 1 1024) []).
Proof. vm_compute. reflexivity. Qed.

(* ================= the read buffer (Link/ReaderProofs.v) ========================================= *)

Theorem C06_read_buffer_size_ge_293 : forall frag, (293 <= read_buffer_size frag)%nat.
Proof. exact num_link_frames_bound. Qed.
Print Assumptions C06_read_buffer_size_ge_293.

(* key fact: when `parse` asks for more data, fewer than 292 bytes stay buffered (Close mode: the
   leftover of parse_impl; Discard mode: the incomplete candidate).  pstate_ok bounds the trailer a
   ReadBody state waits for by 282; it is preserved. *)
Theorem C06_parse_needmore_leftover : forall mode st a st1 r1,
  pstate_ok st -> bytes_ok a -> parse mode st a = (st1, r1, PNeedMore) ->
  pstate_ok st1 /\ (length r1 < 292)%nat.
Proof. exact parse_needmore_leftover. Qed.
Print Assumptions C06_parse_needmore_leftover.

(* `reachable cfg` = rstate_init closed under `feed` with reads made of bytes (overflowing or not) *)
Theorem C06_readbuffer_inv : forall cfg frag rs, r_cap cfg = read_buffer_size frag -> reachable cfg rs ->
  (r_begin rs + length (r_unread rs) <= r_cap cfg)%nat.
Proof. exact readbuffer_inv. Qed.
Print Assumptions C06_readbuffer_inv.

(* whenever the read_frame loop is about to read, the slice it offers to the socket is not empty *)
Theorem C06_ready_to_read_has_space : forall cfg rs rs1, (293 <= r_cap cfg)%nat -> rs_inv cfg rs ->
  step_parse cfg rs = (rs1, None) -> (0 < r_writable cfg (shift_if_full cfg rs1))%nat.
Proof. exact ready_to_read_has_space. Qed.
Print Assumptions C06_ready_to_read_has_space.

Theorem C06_readbuffer_space : forall cfg frag rs c rs' obs, r_cap cfg = read_buffer_size frag ->
  reachable cfg rs -> bytes_ok c -> feed cfg rs c = (rs', obs, true) -> (0 < r_writable cfg rs')%nat.
Proof. exact readbuffer_space. Qed.
Print Assumptions C06_readbuffer_space.

(* ================= chunking independence ========================================================== *)

(* `frames_of mode stream` (Link/ReaderProofs.v): parse from FindSync1 on what remains, collect the
   frames, stop at the first error, end when the parser wants more.  However the stream is cut
   into non-empty reads that fit the writable space, the reader delivers exactly that. *)
Theorem C06_chunking_independent : forall mode frag cs,
  Forall (fun c => c <> []) cs ->
  ~ In OOverflow (run_link mode Stream frag cs) ->
  run_link mode Stream frag cs = frames_of mode (concat cs).
Proof. exact chunking_independent. Qed.
Print Assumptions C06_chunking_independent.

(* the same from any waiting state and for any capacity *)
Theorem C06_chunking_independent_from : forall cfg, r_read cfg = Stream -> forall cs rs,
  quiet (r_mode cfg) rs -> Forall (fun c => c <> []) cs ->
  ~ In OOverflow (run_feeds cfg rs cs) ->
  run_feeds cfg rs cs = frames_from (r_mode cfg) (r_pstate rs) (r_unread rs ++ concat cs)
  /\ ~ In OStall (run_feeds cfg rs cs).
Proof. exact chunking_independent_from. Qed.
Print Assumptions C06_chunking_independent_from.

Theorem C06_feed_fuel_sufficient : forall cfg rs c rs' obs go, st_ok (r_pstate rs) ->
  feed cfg rs c = (rs', obs, go) -> ~ In OStall obs /\ st_ok (r_pstate rs').
Proof. exact feed_fuel_sufficient. Qed.
Print Assumptions C06_feed_fuel_sufficient.

Theorem C06_run_feeds_no_stall : forall cfg cs rs, st_ok (r_pstate rs) -> ~ In OStall (run_feeds cfg rs cs).
Proof. exact run_feeds_no_stall. Qed.
Print Assumptions C06_run_feeds_no_stall.

(* non-vacuity: one frame delivered a byte at a time, and split 4 + 6, in both error modes *)
Example C06_chunking_instance :
  let f := format_frame (mk_header 192 1 1024) [] in
  run_link Close Stream 249 (map (fun b => [b]) f) = [OFrame (mk_header 192 1 1024) []] /\
  run_link Discard Stream 249 [firstn 4 f; skipn 4 f] = [OFrame (mk_header 192 1 1024) []] /\
  frames_of Discard f = [OFrame (mk_header 192 1 1024) []].
Proof. vm_compute. repeat split; reflexivity. Qed.

(* ================= datagram mode never stitches ================================================== *)

Theorem C06_datagram_feed_resets : forall cfg c rs' obs, r_read cfg = Datagram ->
  feed cfg rstate_init c = (rs', obs, true) -> rs' = rstate_init.
Proof. exact datagram_feed_resets. Qed.
Print Assumptions C06_datagram_feed_resets.

(* `dgram_frames mode cs`: the frames of each read parsed ALONE, up to the first read with an error *)
Theorem C06_datagram_no_stitch : forall cfg cs, r_read cfg = Datagram ->
  Forall (fun c => c <> []) cs ->
  ~ In OOverflow (run_feeds cfg rstate_init cs) ->
  run_feeds cfg rstate_init cs = dgram_frames (r_mode cfg) cs.
Proof. exact datagram_no_stitch. Qed.
Print Assumptions C06_datagram_no_stitch.

(* non-vacuity: the frame split 4 + 6 is not delivered (Discard: both halves are dropped, Close:
   the second half is an error), a whole frame in the next datagram is *)
Example C06_datagram_instance :
  let f := format_frame (mk_header 192 1 1024) [] in
  run_link Discard Datagram 249 [firstn 4 f; skipn 4 f; f] = [OFrame (mk_header 192 1 1024) []] /\
  run_link Close Datagram 249 [firstn 4 f; skipn 4 f; f] = [OErr (RParse (EStart1 1))].
Proof. vm_compute. split; reflexivity. Qed.

(* ================= damaged frames are not delivered ============================================== *)

(* any 1..3 flipped bits anywhere in a frame make the aligned parser report an error, whatever
   follows the frame *)
Theorem C06_damaged_frame_not_delivered : forall ctrl dest src payload rest ps,
  header_ok ctrl dest src -> bytes_ok payload -> (length payload <= 250)%nat ->
  NoDup ps -> (1 <= length ps <= 3)%nat ->
  Forall (fun p => (p < 8 * length (format_frame (mk_header ctrl dest src) payload))%nat) ps ->
  exists st r e,
    parse_impl FindSync1 (flip ps (format_frame (mk_header ctrl dest src) payload) ++ rest) = (st, r, PErr e).
Proof. exact damaged_frame_not_delivered. Qed.
Print Assumptions C06_damaged_frame_not_delivered.

Example C06_damaged_instance :
  parse_impl FindSync1 (flip [3; 40; 79]%nat (format_frame (mk_header 192 1 1024) []))
  = (FindSync1, [100; 5; 192; 1; 1; 0; 4; 233; 161], PErr (EStart1 13)).
Proof. vm_compute. reflexivity. Qed.

(* the header intact, one bit flipped in the second body block (bit 8 * (10 + 18) + 5) *)
Example C06_damaged_body_instance :
  parse_impl FindSync1 (flip [229]%nat (format_frame (mk_header 196 1 1024) (repeat 7 20)) ++ [1; 2])
  = (ReadBody (mk_header 196 1 1024) 24, [1; 2], PErr EBodyCrc).
Proof. vm_compute. reflexivity. Qed.

(* the read buffer invariant along Reader::read_frame itself (any queue of physical reads made of
   bytes): it is preserved, and whenever read_frame returns RBlocked, i.e. is about to call
   io.read, the writable slice is not empty.  rs_inv = end <= capacity, trailer awaited <= 282,
   state not ReadBody _ 0, buffered bytes are bytes; it holds in rstate_init. *)
Theorem C06_read_frame_inv : forall cfg, (293 <= r_cap cfg)%nat -> forall reads rs rs' reads' r,
  rs_inv cfg rs -> Forall bytes_ok reads -> read_frame cfg reads rs = (rs', reads', r) ->
  rs_inv cfg rs' /\ Forall bytes_ok reads' /\ (r = RBlocked -> (0 < r_writable cfg rs')%nat).
Proof. exact read_frame_inv. Qed.
Print Assumptions C06_read_frame_inv.

Example C06_rs_inv_init : forall cfg, rs_inv cfg rstate_init.
Proof. exact rs_inv_init. Qed.
