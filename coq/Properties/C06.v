(* Properties/C06.v — statements only; every proof is `exact <lemma>`. *)
From Dnp3V Require Import Link.Reader Link.CrcProofs Link.ParserProofs Link.ReaderProofs.
Open Scope N_scope.

Theorem C06_crc_detects_le3 : forall data ps,
  (1 <= length data <= 16)%nat -> bytes_ok data ->
  NoDup ps -> (1 <= length ps <= 3)%nat ->
  Forall (fun p => (p < 8 * (length data + 2))%nat) ps ->
  block_ok (flip ps (data ++ crc_le data)) = false.
Proof. exact crc_detects_le3. Qed.
Print Assumptions C06_crc_detects_le3.
