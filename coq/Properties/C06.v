(* Properties/C06.v — statements only; every proof is `exact <lemma>`. *)
From Dnp3V Require Import Link.Reader Link.CrcProofs Link.ParserProofs Link.ReaderProofs.
Open Scope N_scope.

(* every error pattern of 1..3 flipped bits in a block (1..16 data bytes followed by the CRC the
   code computes for them) makes the receiver's block check fail *)
Theorem C06_crc_detects_le3 : forall data ps,
  (1 <= length data <= 16)%nat -> bytes_ok data ->
  NoDup ps -> (1 <= length ps <= 3)%nat ->
  Forall (fun p => (p < 8 * (length data + 2))%nat) ps ->
  block_ok (flip ps (data ++ crc_le data)) = false.
Proof. exact crc_detects_le3. Qed.
Print Assumptions C06_crc_detects_le3.

(* the same for the ten header bytes (05 64 + six fields + CRC) *)
Theorem C06_header_crc_detects_le3 : forall fields ps,
  length fields = 6%nat -> bytes_ok fields ->
  NoDup ps -> (1 <= length ps <= 3)%nat -> Forall (fun p => (p < 80)%nat) ps ->
  block_ok (flip ps ((5 :: 100 :: fields) ++ crc_le (5 :: 100 :: fields))) = false.
Proof. exact header_crc_detects_le3. Qed.
Print Assumptions C06_header_crc_detects_le3.

(* the seed constant used by the frame formatter is the CRC register after 05 64 *)
Theorem C06_crc_0564_seed : forall bs, calc_crc_with_0564 bs = calc_crc (5 :: 100 :: bs).
Proof. exact calc_crc_with_0564_eq. Qed.
Print Assumptions C06_crc_0564_seed.

(* any frame the library formats (payload 0..250, any control byte, any addresses) is parsed back
   to exactly its control field, addresses and payload, consuming exactly the frame *)
Theorem C06_frame_round_trip : forall ctrl dest src payload rest,
  header_ok ctrl dest src -> bytes_ok payload -> (length payload <= 250)%nat ->
  parse_impl FindSync1 (format_frame (mk_header ctrl dest src) payload ++ rest)
  = (FindSync1, rest, PFrame (mk_header ctrl dest src) payload).
Proof. exact frame_round_trip. Qed.
Print Assumptions C06_frame_round_trip.

(* non-vacuity: a concrete frame (RESET_LINK of the repository's test data) *)
Example C06_round_trip_instance :
  format_frame (mk_header 192 1 1024) [] = [5; 100; 5; 192; 1; 0; 0; 4; 233; 33] /\
  header_ok 192 1 1024.
Proof. split; [vm_compute; reflexivity|unfold header_ok; lia]. Qed.
